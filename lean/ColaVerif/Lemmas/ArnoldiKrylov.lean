import Mathlib.Analysis.InnerProductSpace.Basic
import Mathlib.Topology.MetricSpace.HausdorffDistance
import Mathlib.Algebra.BigOperators.Intervals
import ColaVerif.Lemmas.ArnoldiSpec

/-!
# Arnoldi columns and Krylov spaces; the clauses of C15 / C13 as conditions on the inputs

`krylov A v j = span{v, A v, …, A^{j-1} v}`; `qspan q j = span{q_0, …, q_{j-1}}`.

* `qspan_eq_krylov` (abstract) / `colAt_qspan_eq_krylov` (code model): without breakdown before step
  `s`, `span{q₀ … q_{j-1}} = K_j(A, v)` for every `j ≤ s + 1` (induction from the Arnoldi step relation);
* `krylovDist A v j = dist(A^j v, K_j(A, v))` — a function of the INPUTS only — and
  `krylovDist_eq_prod`: `krylovDist A v J = ‖v‖ · β₀ ⋯ β_{J-1}` while no earlier step was clipped, hence
  `β_J = d_{J+1} / d_J` (`krylovDist_succ`);
* the clauses, formerly conditions on the returned buffers, as conditions on `A`, `v`, `tol`:
  `noBreakdown_iff_krylovDist` (`β_i ≥ tol/2 ∀ i < s` ⟺ `d_{i+1} ≥ (tol/2) d_i ∀ i < s`),
  `exactBreakdown_iff_krylovDist` (`β_{s-1} = 0` ⟺ `d_s = 0`; in particular when `A^s v ∈ K_s`),
  `noClip_of_input` / `input_of_noClip` (`NoClip` ⟺ `NoClipInput`),
  `run_idx_eq_cap_of_input` (the loop of a single start vector runs to the cap `min max_iters n`).
-/

open scoped InnerProductSpace
open Finset

namespace Arnoldi

variable {𝕜 E : Type} [RCLike 𝕜] [NormedAddCommGroup E] [InnerProductSpace 𝕜 E]

/-- `K_j(A, v) = span{v, A v, …, A^{j-1} v}` -/
def krylov (A : E →ₗ[𝕜] E) (v : E) (j : ℕ) : Submodule 𝕜 E :=
  Submodule.span 𝕜 (Set.range fun t : Fin j => (A ^ (t : ℕ)) v)

/-- span of the first `j` members of a sequence of vectors -/
def qspan (q : ℕ → E) (j : ℕ) : Submodule 𝕜 E :=
  Submodule.span 𝕜 (Set.range fun t : Fin j => q t)

theorem krylov_mono (A : E →ₗ[𝕜] E) (v : E) {j j' : ℕ} (h : j ≤ j') :
    krylov A v j ≤ krylov A v j' := by
  apply Submodule.span_mono
  rintro _ ⟨t, rfl⟩
  exact ⟨⟨t, by omega⟩, rfl⟩

theorem pow_mem_krylov (A : E →ₗ[𝕜] E) (v : E) {i j : ℕ} (h : i < j) : (A ^ i) v ∈ krylov A v j :=
  Submodule.subset_span ⟨⟨i, h⟩, rfl⟩

theorem map_krylov (A : E →ₗ[𝕜] E) (v : E) (j : ℕ) (x : E) (hx : x ∈ krylov A v j) :
    A x ∈ krylov A v (j + 1) := by
  unfold krylov at hx
  induction hx using Submodule.span_induction with
  | mem x hx =>
    obtain ⟨t, rfl⟩ := hx
    apply Submodule.subset_span
    refine ⟨⟨t + 1, by omega⟩, ?_⟩
    simp only [pow_succ', Module.End.mul_apply]
  | zero => rw [map_zero]; exact Submodule.zero_mem _
  | add x y _ _ hx hy => rw [map_add]; exact Submodule.add_mem _ hx hy
  | smul a x _ hx => rw [map_smul]; exact Submodule.smul_mem _ a hx

theorem qspan_mono (q : ℕ → E) {j j' : ℕ} (h : j ≤ j') : qspan (𝕜 := 𝕜) q j ≤ qspan q j' := by
  apply Submodule.span_mono
  rintro _ ⟨t, rfl⟩
  exact ⟨⟨t, by omega⟩, rfl⟩

theorem mem_qspan (q : ℕ → E) {i j : ℕ} (h : i < j) : q i ∈ qspan (𝕜 := 𝕜) q j :=
  Submodule.subset_span ⟨⟨i, h⟩, rfl⟩

theorem sum_mem_qspan (q : ℕ → E) (j : ℕ) (y : ℕ → 𝕜) :
    ∑ i ∈ range j, y i • q i ∈ qspan (𝕜 := 𝕜) q j :=
  Submodule.sum_mem _ fun _ hi => Submodule.smul_mem _ _ (mem_qspan q (mem_range.mp hi))

/-- members of `span{q_0..q_{j-1}}` are the combinations `Σ_{i<j} y_i q_i` -/
theorem mem_qspan_iff (q : ℕ → E) (j : ℕ) (z : E) :
    z ∈ qspan (𝕜 := 𝕜) q j ↔ ∃ y : ℕ → 𝕜, z = ∑ i ∈ range j, y i • q i := by
  constructor
  · intro hz
    unfold qspan at hz
    induction hz using Submodule.span_induction with
    | mem x hx =>
      obtain ⟨t, rfl⟩ := hx
      refine ⟨fun i => if i = t.val then 1 else 0, ?_⟩
      rw [sum_eq_single t.val]
      · simp
      · intro b _ hb; simp [hb]
      · intro h; exact absurd (mem_range.mpr t.isLt) h
    | zero => exact ⟨fun _ => 0, by simp⟩
    | add x y _ _ hx hy =>
      obtain ⟨y1, rfl⟩ := hx
      obtain ⟨y2, rfl⟩ := hy
      refine ⟨fun i => y1 i + y2 i, ?_⟩
      rw [← sum_add_distrib]
      apply sum_congr rfl
      intro i _
      rw [add_smul]
    | smul a x _ hx =>
      obtain ⟨y1, rfl⟩ := hx
      refine ⟨fun i => a * y1 i, ?_⟩
      rw [smul_sum]
      apply sum_congr rfl
      intro i _
      rw [smul_smul]
  · rintro ⟨y, rfl⟩
    exact sum_mem_qspan q j y

/-- an Arnoldi-type recurrence maps `span{q_0..q_{j-1}}` into `span{q_0..q_j}` -/
theorem map_qspan (A : E →ₗ[𝕜] E) (q : ℕ → E) (h : ℕ → ℕ → 𝕜) (j : ℕ)
    (hrel : ∀ i, i < j → A (q i) = ∑ l ∈ range (i + 2), h l i • q l) (x : E)
    (hx : x ∈ qspan (𝕜 := 𝕜) q j) : A x ∈ qspan (𝕜 := 𝕜) q (j + 1) := by
  obtain ⟨y, rfl⟩ := (mem_qspan_iff q j x).mp hx
  rw [map_sum]
  apply Submodule.sum_mem
  intro i hi
  have hij := mem_range.mp hi
  rw [map_smul, hrel i hij]
  apply Submodule.smul_mem
  exact qspan_mono q (by omega : i + 2 ≤ j + 1) (sum_mem_qspan q (i + 2) (fun l => h l i))

/-- **Arnoldi columns span the Krylov spaces** (abstract form): first column a non-zero multiple of
`v`, recurrence `A q_i = Σ_{l ≤ i+1} h l i q_l` with non-zero sub-diagonal for `i < s`
⟹ `span{q_0..q_{j-1}} = K_j(A, v)` for every `j ≤ s + 1` -/
theorem qspan_eq_krylov (A : E →ₗ[𝕜] E) (v : E) (q : ℕ → E) (h : ℕ → ℕ → 𝕜) (s : ℕ) (c : 𝕜)
    (hc : c ≠ 0) (hq0 : q 0 = c • v)
    (hrel : ∀ i, i < s → A (q i) = ∑ l ∈ range (i + 2), h l i • q l)
    (hsub : ∀ i, i < s → h (i + 1) i ≠ 0) :
    ∀ j, j ≤ s + 1 → qspan (𝕜 := 𝕜) q j = krylov A v j := by
  intro j
  induction j with
  | zero =>
    intro _
    unfold qspan krylov
    have e1 : (Set.range fun t : Fin 0 => q t) = ∅ := Set.range_eq_empty _
    have e2 : (Set.range fun t : Fin 0 => (A ^ (t : ℕ)) v) = ∅ := Set.range_eq_empty _
    rw [e1, e2]
  | succ j ih =>
    intro hj
    have ihj := ih (by omega)
    apply le_antisymm
    · -- q_t ∈ K_{j+1}
      apply Submodule.span_le.mpr
      rintro _ ⟨t, rfl⟩
      by_cases ht : t.val < j
      · exact krylov_mono A v (by omega : j ≤ j + 1) (ihj ▸ mem_qspan q ht)
      · have htj : t.val = j := by have := t.isLt; omega
        show q t.val ∈ krylov A v (j + 1)
        rw [htj]
        rcases Nat.eq_zero_or_pos j with rfl | hpos
        · rw [hq0]
          exact Submodule.smul_mem _ _ (pow_mem_krylov A v (by omega : 0 < 0 + 1))
        · obtain ⟨i, rfl⟩ : ∃ i, j = i + 1 := ⟨j - 1, by omega⟩
          have his : i < s := by omega
          have hqi : q i ∈ krylov A v (i + 1) := ihj ▸ mem_qspan q (by omega : i < i + 1)
          have hAq : A (q i) ∈ krylov A v (i + 1 + 1) := map_krylov A v (i + 1) _ hqi
          have hsum : ∑ l ∈ range (i + 1), h l i • q l ∈ krylov A v (i + 1 + 1) :=
            krylov_mono A v (by omega : i + 1 ≤ i + 1 + 1)
              (ihj ▸ sum_mem_qspan q (i + 1) (fun l => h l i))
          have e : q (i + 1) = (h (i + 1) i)⁻¹ • (A (q i) - ∑ l ∈ range (i + 1), h l i • q l) := by
            rw [hrel i his, sum_range_succ, add_sub_cancel_left, smul_smul,
              inv_mul_cancel₀ (hsub i his), one_smul]
          rw [e]
          exact Submodule.smul_mem _ _ (Submodule.sub_mem _ hAq hsum)
    · apply Submodule.span_le.mpr
      rintro _ ⟨t, rfl⟩
      by_cases ht : t.val < j
      · exact qspan_mono q (by omega : j ≤ j + 1) (ihj ▸ pow_mem_krylov A v ht)
      · have htj : t.val = j := by have := t.isLt; omega
        show (A ^ t.val) v ∈ qspan q (j + 1)
        rw [htj]
        rcases Nat.eq_zero_or_pos j with rfl | hpos
        · have : v = c⁻¹ • q 0 := by rw [hq0, smul_smul, inv_mul_cancel₀ hc, one_smul]
          rw [pow_zero, Module.End.one_apply, this]
          exact Submodule.smul_mem _ _ (mem_qspan q (by omega))
        · obtain ⟨i, rfl⟩ : ∃ i, j = i + 1 := ⟨j - 1, by omega⟩
          have hp : (A ^ i) v ∈ qspan (𝕜 := 𝕜) q (i + 1) :=
            ihj.symm ▸ pow_mem_krylov A v (by omega : i < i + 1)
          rw [pow_succ', Module.End.mul_apply]
          exact map_qspan A q h (i + 1) (fun l hl => hrel l (by omega)) _ hp

/-- distance to a subspace from an orthogonal decomposition `x = u + z`, `z ∈ K`, `u ⟂ K` -/
theorem infDist_of_orth_decomp (K : Submodule 𝕜 E) (x u z : E) (hx : x = u + z) (hz : z ∈ K)
    (hu : ∀ k ∈ K, ⟪k, u⟫_𝕜 = 0) : Metric.infDist x (K : Set E) = ‖u‖ := by
  subst hx
  apply le_antisymm
  · have := Metric.infDist_le_dist_of_mem (x := u + z) (s := (K : Set E)) hz
    rw [dist_eq_norm, add_sub_cancel_right] at this
    exact this
  · rw [Metric.le_infDist ⟨0, K.zero_mem⟩]
    intro y hy
    rw [dist_eq_norm]
    have e : u + z - y = u + (z - y) := by abel
    have hin : ⟪u, z - y⟫_𝕜 = 0 := by
      rw [← inner_conj_symm, hu _ (K.sub_mem hz hy)]; simp
    have hsq := norm_add_sq_eq_norm_sq_add_norm_sq_of_inner_eq_zero (𝕜 := 𝕜) u (z - y) hin
    rw [e]
    have h0 : 0 ≤ ‖z - y‖ * ‖z - y‖ := mul_self_nonneg _
    have : ‖u‖ * ‖u‖ ≤ ‖u + (z - y)‖ * ‖u + (z - y)‖ := by linarith
    exact (mul_self_le_mul_self_iff (norm_nonneg _) (norm_nonneg _)).mpr this

/-! ### the Arnoldi columns of the code model span the Krylov spaces -/

section concrete
variable (A : E →ₗ[𝕜] E) (M : Nat) (tol : ℝ) (v : E)

/-- the textbook relation for every step that was not clipped, whatever happened in the last step -/
theorem Inv.relation_unclipped {J : Nat} {c : Col 𝕜 E} (hc : Inv A M v tol J c) (i : Nat) (hi : i < J)
    (hun : tol / 2 ≤ c.beta i) : A (c.q i) = ∑ l ∈ range (i + 2), c.h l i • c.q l := by
  obtain ⟨β, _, h1, h2, _⟩ := hc.rel i hi
  have hb : c.beta i = β := by unfold Col.beta; rw [h1, RCLike.ofReal_re]
  rw [hb] at hun
  rw [sum_range_succ, h2, max_eq_left hun, h1]

/-- **without breakdown before step `s`, `span{q₀ … q_{j-1}} = K_j(A, v)`** for every `j ≤ s + 1`, for the
buffers after any number `J ≥ s` of steps -/
theorem colAt_qspan_eq_krylov (htol : 0 < tol) (hv : v ≠ 0) (s J : Nat) (hsJ : s ≤ J) (hJ : J ≤ M)
    (hun : ∀ i, i < s → tol / 2 ≤ (colAt A M tol v J).beta i) :
    ∀ j, j ≤ s + 1 → qspan (𝕜 := 𝕜) (colAt A M tol v J).q j = krylov A v j := by
  have hinv := inv_colAfter A M v tol hv htol J hJ
  have hn : ((‖v‖ : ℝ) : 𝕜) ≠ 0 := by exact_mod_cast (norm_ne_zero_iff.mpr hv)
  apply qspan_eq_krylov A v (colAt A M tol v J).q (colAt A M tol v J).h s (((‖v‖ : ℝ) : 𝕜)⁻¹)
    (inv_ne_zero hn) hinv.q0
  · intro i hi
    exact hinv.relation_unclipped A M tol v i (by omega) (hun i hi)
  · intro i hi
    rw [(hinv.beta_eq i (by omega)).1]
    have : 0 < (colAt A M tol v J).beta i := lt_of_lt_of_le (by linarith) (hun i hi)
    exact_mod_cast (ne_of_gt this)

/-- distance of `A^j v` to `K_j(A, v)`: the input-side quantity behind the Arnoldi sub-diagonal -/
noncomputable def krylovDist (A : E →ₗ[𝕜] E) (v : E) (j : ℕ) : ℝ :=
  Metric.infDist ((A ^ j) v) (krylov A v j : Set E)

theorem krylovDist_zero : krylovDist A v 0 = ‖v‖ := by
  unfold krylovDist krylov
  have e : (Set.range fun t : Fin 0 => (A ^ (t : ℕ)) v) = ∅ := Set.range_eq_empty _
  rw [e, Submodule.span_empty]
  simp

/-- `A^j v = (‖v‖ β₀ ⋯ β_{j-1}) q_j + (element of span{q₀ … q_{j-1}})` while no step was clipped -/
theorem pow_decomp (htol : 0 < tol) (hv : v ≠ 0) (J : Nat) (hJ : J ≤ M)
    (hun : ∀ i, i + 1 < J → tol / 2 ≤ (colAt A M tol v J).beta i) :
    ∀ j, j < J → ∃ z ∈ qspan (𝕜 := 𝕜) (colAt A M tol v J).q j,
      (A ^ j) v = (((‖v‖ * ∏ i ∈ range j, (colAt A M tol v J).beta i : ℝ)) : 𝕜) • (colAt A M tol v J).q j + z := by
  have hinv := inv_colAfter A M v tol hv htol J hJ
  set c := colAt A M tol v J with hc
  have hn : ((‖v‖ : ℝ) : 𝕜) ≠ 0 := by exact_mod_cast (norm_ne_zero_iff.mpr hv)
  intro j
  induction j with
  | zero =>
    intro _
    refine ⟨0, Submodule.zero_mem _, ?_⟩
    rw [prod_range_zero, mul_one, pow_zero, Module.End.one_apply, add_zero, hinv.q0, smul_smul,
      mul_inv_cancel₀ hn, one_smul]
  | succ j ih =>
    intro hj
    obtain ⟨z, hz, hpow⟩ := ih (by omega)
    have hrel : ∀ i, i < j + 1 → A (c.q i) = ∑ l ∈ range (i + 2), c.h l i • c.q l :=
      fun i hi => hinv.relation_unclipped A M tol v i (by omega) (hun i (by omega))
    refine ⟨(((‖v‖ * ∏ i ∈ range j, c.beta i : ℝ)) : 𝕜) • (∑ l ∈ range (j + 1), c.h l j • c.q l) + A z,
      ?_, ?_⟩
    · apply Submodule.add_mem
      · exact Submodule.smul_mem _ _ (sum_mem_qspan c.q (j + 1) (fun l => c.h l j))
      · exact map_qspan A c.q c.h j (fun i hi => hrel i (by omega)) z hz
    · rw [pow_succ', Module.End.mul_apply, hpow, map_add, map_smul, hrel j (by omega), sum_range_succ,
        (hinv.beta_eq j (by omega)).1, prod_range_succ, smul_add, smul_smul]
      push_cast
      rw [mul_assoc]
      abel

end concrete

section dist
variable (A : E →ₗ[𝕜] E) (M : Nat) (tol : ℝ) (v : E)

theorem prod_beta_nonneg {J : Nat} {c : Col 𝕜 E} (hc : Inv A M v tol J c) (j : Nat) :
    0 ≤ ‖v‖ * ∏ i ∈ range j, c.beta i :=
  mul_nonneg (norm_nonneg _) (prod_nonneg fun i _ => (hc.subdiag_nonneg i).2)

/-- **the sub-diagonal in terms of the inputs**: while no earlier step was clipped,
`dist(A^J v, K_J(A, v)) = ‖v‖ · β₀ ⋯ β_{J-1}` (the last factor may itself be below the clip) -/
theorem krylovDist_eq_prod (htol : 0 < tol) (hv : v ≠ 0) (J : Nat) (hJ : J ≤ M)
    (hun : ∀ i, i + 1 < J → tol / 2 ≤ (colAt A M tol v J).beta i) :
    krylovDist A v J = ‖v‖ * ∏ i ∈ range J, (colAt A M tol v J).beta i := by
  rcases Nat.eq_zero_or_pos J with rfl | hpos
  · rw [krylovDist_zero, prod_range_zero, mul_one]
  obtain ⟨K, rfl⟩ : ∃ K, J = K + 1 := ⟨J - 1, by omega⟩
  have hinv := inv_colAfter A M v tol hv htol (K + 1) hJ
  obtain ⟨z, hz, hpow⟩ := pow_decomp A M tol v htol hv (K + 1) hJ hun K (by omega)
  set c := colAt A M tol v (K + 1) with hc
  obtain ⟨β, hβ0, h1, h2, h3⟩ := hinv.rel K (by omega)
  have hb : c.beta K = β := by unfold Col.beta; rw [h1, RCLike.ofReal_re]
  have hspan : qspan (𝕜 := 𝕜) c.q (K + 1) = krylov A v (K + 1) :=
    colAt_qspan_eq_krylov A M tol v htol hv K (K + 1) (by omega) hJ (fun i hi => hun i (by omega))
      (K + 1) (le_refl _)
  have hlast := (hinv.orth hun).2
  set p : ℝ := ‖v‖ * ∏ i ∈ range K, c.beta i with hp
  have hp0 : 0 ≤ p := prod_beta_nonneg A M tol v hinv K
  set u : E := ((p : ℝ) : 𝕜) • ((((max β (tol / 2) : ℝ)) : 𝕜) • c.q (K + 1)) with hu
  have hrelK : ∀ i, i < K → A (c.q i) = ∑ l ∈ range (i + 2), c.h l i • c.q l :=
    fun i hi => hinv.relation_unclipped A M tol v i (by omega) (hun i (by omega))
  have hdec : (A ^ (K + 1)) v = u + (((p : ℝ) : 𝕜) • (∑ l ∈ range (K + 1), c.h l K • c.q l) + A z) := by
    rw [pow_succ', Module.End.mul_apply, hpow, map_add, map_smul, h2, smul_add, hu]
    abel
  have hzmem : ((p : ℝ) : 𝕜) • (∑ l ∈ range (K + 1), c.h l K • c.q l) + A z ∈ krylov A v (K + 1) := by
    rw [← hspan]
    apply Submodule.add_mem
    · exact Submodule.smul_mem _ _ (sum_mem_qspan c.q (K + 1) (fun l => c.h l K))
    · exact map_qspan A c.q c.h K hrelK z hz
  have horth : ∀ k ∈ krylov A v (K + 1), ⟪k, u⟫_𝕜 = 0 := by
    intro k hk
    rw [← hspan] at hk
    obtain ⟨y, rfl⟩ := (mem_qspan_iff c.q (K + 1) k).mp hk
    rw [sum_inner]
    apply sum_eq_zero
    intro i hi
    rw [hu, inner_smul_left, inner_smul_right, inner_smul_right, hlast i (mem_range.mp hi)]
    simp
  unfold krylovDist
  rw [infDist_of_orth_decomp (krylov A v (K + 1)) _ u _ hdec hzmem horth, hu, norm_smul, h3,
    prod_range_succ, hb, ← mul_assoc, ← hp]
  congr 1
  rw [RCLike.norm_ofReal, abs_of_nonneg hp0]

/-- positivity of the distances while the steps are unclipped -/
theorem krylovDist_pos (htol : 0 < tol) (hv : v ≠ 0) (J : Nat) (hJ : J ≤ M)
    (hun : ∀ i, i < J → tol / 2 ≤ (colAt A M tol v J).beta i) : 0 < krylovDist A v J := by
  rw [krylovDist_eq_prod A M tol v htol hv J hJ (fun i hi => hun i (by omega))]
  apply mul_pos (norm_pos_iff.mpr hv)
  apply prod_pos
  intro i hi
  exact lt_of_lt_of_le (by linarith) (hun i (mem_range.mp hi))

/-- the sub-diagonal entries of the buffers after `J` steps are those of the buffers after `J' ≤ J` steps -/
theorem beta_frozen (htol : 0 < tol) (hv : v ≠ 0) (J' J : Nat) (hJJ : J' ≤ J) (hJ : J ≤ M) (i : Nat)
    (hi : i < J') : (colAt A M tol v J).beta i = (colAt A M tol v J').beta i := by
  unfold Col.beta
  rw [(colAfter_frozen (A := A) (M := M) (v := v) htol hv J' J hJJ hJ).2 i hi (i + 1)]

/-- one step: `dist(A^{J+1} v, K_{J+1}) = β_J · dist(A^J v, K_J)` while steps `0..J-1` were unclipped -/
theorem krylovDist_succ (htol : 0 < tol) (hv : v ≠ 0) (J : Nat) (hJ : J + 1 ≤ M)
    (hun : ∀ i, i < J → tol / 2 ≤ (colAt A M tol v (J + 1)).beta i) :
    krylovDist A v (J + 1) = krylovDist A v J * (colAt A M tol v (J + 1)).beta J := by
  rw [krylovDist_eq_prod A M tol v htol hv (J + 1) hJ (fun i hi => hun i (by omega)),
    krylovDist_eq_prod A M tol v htol hv J (by omega)
      (fun i hi => by
        rw [← beta_frozen A M tol v htol hv J (J + 1) (by omega) hJ i (by omega)]
        exact hun i (by omega)),
    prod_range_succ, ← mul_assoc]
  congr 2
  apply prod_congr rfl
  intro i hi
  exact beta_frozen A M tol v htol hv J (J + 1) (by omega) hJ i (mem_range.mp hi)

/-- **clause `noBreakdown` as a condition on the inputs** `A`, `v`, `tol`: every step norm stays above the
clip iff the Krylov distances `d_j = dist(A^j v, K_j(A, v))` satisfy `d_{i+1} ≥ (tol/2) · d_i` -/
theorem noBreakdown_iff_krylovDist (htol : 0 < tol) (hv : v ≠ 0) (s : Nat) (hs : s ≤ M) :
    (∀ i, i < s → tol / 2 ≤ (colAt A M tol v s).beta i) ↔
      ∀ i, i < s → tol / 2 * krylovDist A v i ≤ krylovDist A v (i + 1) := by
  constructor
  · intro hun i hi
    have hunI : ∀ l, l < i → tol / 2 ≤ (colAt A M tol v (i + 1)).beta l := by
      intro l hl
      rw [← beta_frozen A M tol v htol hv (i + 1) s (by omega) hs l (by omega)]
      exact hun l (by omega)
    rw [krylovDist_succ A M tol v htol hv i (by omega) hunI,
      ← beta_frozen A M tol v htol hv (i + 1) s (by omega) hs i (by omega), mul_comm]
    have hd : 0 ≤ krylovDist A v i := Metric.infDist_nonneg
    exact mul_le_mul_of_nonneg_left (hun i hi) hd
  · intro hd
    -- induction on the number of steps already known to be unclipped
    have key : ∀ k, k ≤ s → ∀ i, i < k → tol / 2 ≤ (colAt A M tol v s).beta i := by
      intro k
      induction k with
      | zero => intro _ i hi; omega
      | succ k ih =>
        intro hk i hi
        by_cases hik : i < k
        · exact ih (by omega) i hik
        · have hik' : i = k := by omega
          subst hik'
          have hunI : ∀ l, l < i → tol / 2 ≤ (colAt A M tol v (i + 1)).beta l := by
            intro l hl
            rw [← beta_frozen A M tol v htol hv (i + 1) s (by omega) hs l (by omega)]
            exact ih (by omega) l hl
          have hunI' : ∀ l, l < i → tol / 2 ≤ (colAt A M tol v i).beta l := by
            intro l hl
            rw [← beta_frozen A M tol v htol hv i s (by omega) hs l hl]
            exact ih (by omega) l hl
          have hpos := krylovDist_pos A M tol v htol hv i (by omega) hunI'
          have h1 := hd i (by omega)
          rw [krylovDist_succ A M tol v htol hv i (by omega) hunI,
            ← beta_frozen A M tol v htol hv (i + 1) s (by omega) hs i (by omega), mul_comm] at h1
          exact le_of_mul_le_mul_left h1 hpos
    exact key s (le_refl _)

end dist

section inputs
variable (A : E →ₗ[𝕜] E) (M : Nat) (tol : ℝ) (v : E)

/-- **clause `exactBreakdown` as a condition on the inputs**: with steps `0..s-2` unclipped, the last
sub-diagonal entry vanishes iff `dist(A^s v, K_s(A, v)) = 0` -/
theorem exactBreakdown_iff_krylovDist (htol : 0 < tol) (hv : v ≠ 0) (s : Nat) (hs0 : 0 < s) (hs : s ≤ M)
    (hun : ∀ i, i + 1 < s → tol / 2 ≤ (colAt A M tol v s).beta i) :
    (colAt A M tol v s).beta (s - 1) = 0 ↔ krylovDist A v s = 0 := by
  obtain ⟨K, rfl⟩ : ∃ K, s = K + 1 := ⟨s - 1, by omega⟩
  have hunK : ∀ l, l < K → tol / 2 ≤ (colAt A M tol v K).beta l := by
    intro l hl
    rw [← beta_frozen A M tol v htol hv K (K + 1) (by omega) hs l hl]
    exact hun l (by omega)
  have hpos := krylovDist_pos A M tol v htol hv K (by omega) hunK
  rw [krylovDist_succ A M tol v htol hv K hs (fun i hi => hun i (by omega)), Nat.add_sub_cancel]
  constructor
  · intro h; rw [h, mul_zero]
  · intro h
    rcases mul_eq_zero.mp h with h | h
    · linarith
    · exact h

/-- in particular: `A^s v ∈ K_s(A, v)` (the Krylov space is exhausted: `s` = grade of `v`) forces an exact
breakdown in step `s - 1` -/
theorem exactBreakdown_of_pow_mem (htol : 0 < tol) (hv : v ≠ 0) (s : Nat) (hs0 : 0 < s) (hs : s ≤ M)
    (hun : ∀ i, i + 1 < s → tol / 2 ≤ (colAt A M tol v s).beta i)
    (hmem : (A ^ s) v ∈ krylov A v s) : (colAt A M tol v s).beta (s - 1) = 0 :=
  (exactBreakdown_iff_krylovDist A M tol v htol hv s hs0 hs hun).mpr (Metric.infDist_zero_of_mem hmem)

/-- **clause `noClip` as a condition on the inputs**: the Krylov distances grow by at least `tol/2` per step
up to some `r ≤ s`, and either `r = s` or the Krylov space is exhausted at `r + 1` -/
def NoClipInput (A : E →ₗ[𝕜] E) (v : E) (tol : ℝ) (s : Nat) : Prop :=
  ∃ r, r ≤ s ∧ (∀ i, i < r → tol / 2 * krylovDist A v i ≤ krylovDist A v (i + 1)) ∧
    (r = s ∨ krylovDist A v (r + 1) = 0)

theorem noClip_of_input (htol : 0 < tol) (hv : v ≠ 0) (s : Nat) (hs : s ≤ M)
    (h : NoClipInput A v tol s) : NoClip tol s (colAt A M tol v s) := by
  obtain ⟨r, hr, hd, hend⟩ := h
  have hinv := inv_colAfter A M v tol hv htol s hs
  have hunr : ∀ i, i < r → tol / 2 ≤ (colAt A M tol v r).beta i :=
    (noBreakdown_iff_krylovDist A M tol v htol hv r (by omega)).mpr hd
  have huns : ∀ i, i < r → tol / 2 ≤ (colAt A M tol v s).beta i := by
    intro i hi
    rw [beta_frozen A M tol v htol hv r s hr hs i hi]
    exact hunr i hi
  intro i hi
  by_cases hir : i < r
  · exact Or.inr (huns i hir)
  · left
    rcases hend with hend | hend
    · omega
    · have hrs : r < s := by omega
      have hbr : (colAt A M tol v s).beta r = 0 := by
        rw [beta_frozen A M tol v htol hv (r + 1) s (by omega) hs r (by omega)]
        have := (exactBreakdown_iff_krylovDist A M tol v htol hv (r + 1) (by omega) (by omega)
          (fun l hl => by
            rw [beta_frozen A M tol v htol hv r (r + 1) (by omega) (by omega) l (by omega)]
            exact hunr l (by omega))).mpr hend
        rwa [Nat.add_sub_cancel] at this
      by_cases hir' : i = r
      · rw [hir']; exact hbr
      · have := (hinv.zero_after_breakdown htol r hrs hbr).2 i (by omega) (i + 1)
        unfold Col.beta
        rw [this]; simp

/-- the converse: a run whose clip was never active satisfies the input condition -/
theorem input_of_noClip (htol : 0 < tol) (hv : v ≠ 0) (s : Nat) (hs : s ≤ M)
    (h : NoClip tol s (colAt A M tol v s)) : NoClipInput A v tol s := by
  obtain ⟨r, hr, hun, hend⟩ := exists_rank h
  have hunr : ∀ i, i < r → tol / 2 ≤ (colAt A M tol v r).beta i := by
    intro i hi
    rw [← beta_frozen A M tol v htol hv r s hr hs i hi]
    exact hun i hi
  refine ⟨r, hr, (noBreakdown_iff_krylovDist A M tol v htol hv r (by omega)).mp hunr, ?_⟩
  rcases hend with hend | hend
  · exact Or.inl hend
  · by_cases hrs : r = s
    · exact Or.inl hrs
    · right
      have hrs' : r + 1 ≤ s := by omega
      apply (exactBreakdown_iff_krylovDist A M tol v htol hv (r + 1) (by omega) (by omega)
        (fun l hl => by
          rw [← beta_frozen A M tol v htol hv (r + 1) s hrs' hs l (by omega)]
          exact hun l (by omega))).mp
      rw [Nat.add_sub_cancel, ← beta_frozen A M tol v htol hv (r + 1) s hrs' hs r (by omega)]
      exact hend

/-- a single start vector runs to the cap `min max_iters n` when no intermediate step norm falls to
`tol · H[1,0]` (statement about the step norms) -/
theorem run_idx_eq_cap_of_large (n : Nat) (htol : 0 < tol) (hv : v ≠ 0)
    (hlarge : ∀ k, 1 ≤ k → k < min M n → tol * (colAt A M tol v k).beta 0 < (colAt A M tol v k).beta (k - 1)) :
    (runE A n M tol [v]).idx = min M n := by
  obtain ⟨h1, _⟩ := run_stop_exact A n M tol [v]
  obtain ⟨hc, hle, _⟩ := run_spec (⇑A) n M ((tol : ℝ) : 𝕜) [v]
  rcases h1 with h1 | h1
  · exact h1
  · by_contra hcap
    rw [hc] at h1
    obtain ⟨hsmall, hne⟩ := h1 _ List.mem_cons_self
    set k := (runE A n M tol [v]).idx with hk
    have hkM : k ≤ M := le_trans hle (min_le_left _ _)
    have hinv := inv_colAfter A M v tol hv htol k hkM
    have hnorm := hinv.normEq
    rw [if_neg hne] at hnorm
    change RCLike.re (colAt A M tol v k).norm ≤ tol * RCLike.re ((colAt A M tol v k).h 1 0) at hsmall
    rw [hnorm] at hsmall
    have hlt : k < min M n := lt_of_le_of_ne hle hcap
    have := hlarge k (Nat.pos_of_ne_zero hne) hlt
    unfold Col.beta at this
    have e : k - 1 + 1 = k := by omega
    rw [e] at this
    linarith

end inputs

section inputs2
variable (A : E →ₗ[𝕜] E) (M : Nat) (tol : ℝ) (v : E)

/-- **the stopping rule as a condition on the inputs**: a single start vector runs to the cap
`min max_iters n` when the Krylov distances `d_j` never clip (`d_{i+1} ≥ (tol/2) d_i`) and never trigger the
relative test (`d_k / d_{k-1} > tol · d_1 / d_0` for `1 ≤ k < cap`) -/
theorem run_idx_eq_cap_of_input (n : Nat) (htol : 0 < tol) (hv : v ≠ 0)
    (hd : ∀ i, i < min M n → tol / 2 * krylovDist A v i ≤ krylovDist A v (i + 1))
    (hstop : ∀ k, 1 ≤ k → k < min M n →
      tol * krylovDist A v 1 * krylovDist A v (k - 1) < krylovDist A v k * krylovDist A v 0) :
    (runE A n M tol [v]).idx = min M n := by
  apply run_idx_eq_cap_of_large A M tol v n htol hv
  intro k hk1 hk
  have hkM : k ≤ M := le_trans (le_of_lt hk) (min_le_left _ _)
  have hunk : ∀ i, i < k → tol / 2 ≤ (colAt A M tol v k).beta i :=
    (noBreakdown_iff_krylovDist A M tol v htol hv k hkM).mpr (fun i hi => hd i (by omega))
  obtain ⟨K, rfl⟩ : ∃ K, k = K + 1 := ⟨k - 1, by omega⟩
  have e1 : krylovDist A v 1 = krylovDist A v 0 * (colAt A M tol v (K + 1)).beta 0 := by
    rw [krylovDist_succ A M tol v htol hv 0 (by omega) (fun i hi => by omega),
      beta_frozen A M tol v htol hv 1 (K + 1) (by omega) hkM 0 (by omega)]
  have e2 : krylovDist A v (K + 1) = krylovDist A v K * (colAt A M tol v (K + 1)).beta K :=
    krylovDist_succ A M tol v htol hv K hkM (fun i hi => hunk i (by omega))
  have h0 : 0 < krylovDist A v 0 := by rw [krylovDist_zero]; exact norm_pos_iff.mpr hv
  have hK : 0 < krylovDist A v K := by
    apply krylovDist_pos A M tol v htol hv K (by omega)
    intro i hi
    rw [← beta_frozen A M tol v htol hv K (K + 1) (by omega) hkM i hi]
    exact hunk i (by omega)
  have := hstop (K + 1) hk1 hk
  rw [Nat.add_sub_cancel, e1, e2] at this
  rw [Nat.add_sub_cancel]
  have hpos : 0 < krylovDist A v 0 * krylovDist A v K := mul_pos h0 hK
  have h' : (krylovDist A v 0 * krylovDist A v K) * (tol * (colAt A M tol v (K + 1)).beta 0) <
      (krylovDist A v 0 * krylovDist A v K) * (colAt A M tol v (K + 1)).beta K := by
    nlinarith [this]
  exact lt_of_mul_lt_mul_left h' (le_of_lt hpos)

end inputs2

end Arnoldi
