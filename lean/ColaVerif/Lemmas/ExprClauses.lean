import ColaVerif.Model.Expr

/-!
# Root-level clauses and the clauses of the expression: the exact relation

`Ex.rootClauses re e` names the clauses the ROOT node of `e` is an instance of; `Ex.clauses re e`
(the hypothesis of the C03 theorems, `C03_clauses_decide`) names the clauses some node of `e` is an
instance of.  Proved here, both directions:

* `rootClauses_sub`: a root clause of `e` is a clause of `e`;
* `clauses_sub_root`: a clause of `e` is a root clause of one of the nodes of `e`;
* `clauses_eq_root`: `clauses re e` is, clause by clause, "some node has it as a root clause"
  (`hasRootClause_sdiv`, `hasRootClause_lossy`: the two node predicates are exactly `isSdiv`,
  `lossyNode re`);
* `rootClauses_nil_of_clauses_nil`: an expression with no clause has no root clause.

What the harness does with this (`c03.py attribute()`): it finds, by RUNNING code model and matrix
expression on every sub-expression, the nodes at which the two first differ, and accepts a
recorded clause there only if the driver's `rootClauses` of that node is non-empty — a run-time
check on each such node, whose failure is a VIOLATION ("instance of no recorded clause").  No
theorem "a first difference is always at a root-clause node" is claimed or used; what IS used is
`rootClauses_sub` (a clause attributed at a node is a clause of every expression containing the
node - for such expressions `C03_sound_partial` makes no claim) together with `clauses_sub_root`
(an expression the theorems exclude does contain a node where the attribution can happen).
-/

namespace Ex
set_option linter.unusedSectionVars false
variable {R : Type} [CommRing R] [StarRing R] [DecidableEq R]

theorem anyNode_root (p : Ex R → Bool) (e : Ex R) (h : p e = true) : anyNode p e = true := by
  cases e <;> simp [anyNode, h]

/-- a clause of the root node is a clause of the expression -/
theorem rootClauses_sub (re : R → R) (e : Ex R) : ∀ c ∈ rootClauses re e, c ∈ clauses re e := by
  intro c hc
  simp only [rootClauses, List.mem_append] at hc
  simp only [clauses, List.mem_append]
  rcases hc with h | h
  · left
    by_cases hs : isSdiv e = true
    · rw [if_pos (anyNode_root _ e hs)]; simpa [hs] using h
    · simp [hs] at h
  · right
    by_cases hl : lossyNode re e = true
    · rw [if_pos (anyNode_root _ e hl)]; simpa [hl] using h
    · simp [hl] at h

mutual
theorem anyNode_mono (p q : Ex R → Bool) (hpq : ∀ d, p d = true → q d = true) : ∀ (e : Ex R),
    anyNode p e = true → anyNode q e = true
  | op A => by simp only [anyNode]; exact hpq _
  | arr .. => by simp only [anyNode]; exact hpq _
  | add x y => by
    simp only [anyNode, Bool.or_eq_true]
    rintro ((h | h) | h)
    · exact .inl (.inl (hpq _ h))
    · exact .inl (.inr (anyNode_mono p q hpq x h))
    · exact .inr (anyNode_mono p q hpq y h)
  | sub x y => by
    simp only [anyNode, Bool.or_eq_true]
    rintro ((h | h) | h)
    · exact .inl (.inl (hpq _ h))
    · exact .inl (.inr (anyNode_mono p q hpq x h))
    · exact .inr (anyNode_mono p q hpq y h)
  | matmul x y => by
    simp only [anyNode, Bool.or_eq_true]
    rintro ((h | h) | h)
    · exact .inl (.inl (hpq _ h))
    · exact .inl (.inr (anyNode_mono p q hpq x h))
    · exact .inr (anyNode_mono p q hpq y h)
  | kron x y => by
    simp only [anyNode, Bool.or_eq_true]
    rintro ((h | h) | h)
    · exact .inl (.inl (hpq _ h))
    · exact .inl (.inr (anyNode_mono p q hpq x h))
    · exact .inr (anyNode_mono p q hpq y h)
  | kronsum x y => by
    simp only [anyNode, Bool.or_eq_true]
    rintro ((h | h) | h)
    · exact .inl (.inl (hpq _ h))
    · exact .inl (.inr (anyNode_mono p q hpq x h))
    · exact .inr (anyNode_mono p q hpq y h)
  | neg x => by
    simp only [anyNode, Bool.or_eq_true]
    rintro (h | h)
    · exact .inl (hpq _ h)
    · exact .inr (anyNode_mono p q hpq x h)
  | smul c x => by
    simp only [anyNode, Bool.or_eq_true]
    rintro (h | h)
    · exact .inl (hpq _ h)
    · exact .inr (anyNode_mono p q hpq x h)
  | muls x c => by
    simp only [anyNode, Bool.or_eq_true]
    rintro (h | h)
    · exact .inl (hpq _ h)
    · exact .inr (anyNode_mono p q hpq x h)
  | divs x c => by
    simp only [anyNode, Bool.or_eq_true]
    rintro (h | h)
    · exact .inl (hpq _ h)
    · exact .inr (anyNode_mono p q hpq x h)
  | sdiv c x => by
    simp only [anyNode, Bool.or_eq_true]
    rintro (h | h)
    · exact .inl (hpq _ h)
    · exact .inr (anyNode_mono p q hpq x h)
  | addz x => by
    simp only [anyNode, Bool.or_eq_true]
    rintro (h | h)
    · exact .inl (hpq _ h)
    · exact .inr (anyNode_mono p q hpq x h)
  | lazify x => by
    simp only [anyNode, Bool.or_eq_true]
    rintro (h | h)
    · exact .inl (hpq _ h)
    · exact .inr (anyNode_mono p q hpq x h)
  | densify x => by
    simp only [anyNode, Bool.or_eq_true]
    rintro (h | h)
    · exact .inl (hpq _ h)
    · exact .inr (anyNode_mono p q hpq x h)
  | nodispatch x => by
    simp only [anyNode, Bool.or_eq_true]
    rintro (h | h)
    · exact .inl (hpq _ h)
    · exact .inr (anyNode_mono p q hpq x h)
  | bdiag xs => by
    simp only [anyNode, Bool.or_eq_true]
    rintro (h | h)
    · exact .inl (hpq _ h)
    · exact .inr (anyNodeL_mono p q hpq xs h)
  | sumList xs => by
    simp only [anyNode, Bool.or_eq_true]
    rintro (h | h)
    · exact .inl (hpq _ h)
    · exact .inr (anyNodeL_mono p q hpq xs h)
theorem anyNodeL_mono (p q : Ex R → Bool) (hpq : ∀ d, p d = true → q d = true) : ∀ (xs : List (Ex R)),
    anyNodeL p xs = true → anyNodeL q xs = true
  | [] => by simp [anyNodeL]
  | x :: xs => by
    simp only [anyNodeL, Bool.or_eq_true]
    rintro (h | h)
    · exact .inl (anyNode_mono p q hpq x h)
    · exact .inr (anyNodeL_mono p q hpq xs h)
end

/-- the node predicate "`c` is one of the root clauses of this node" -/
def hasRootClause (re : R → R) (c : String) (d : Ex R) : Bool := decide (c ∈ rootClauses re d)

/-- a clause of the expression is a root clause of one of its nodes (the converse of
`rootClauses_sub`, lifted to all nodes) -/
theorem clauses_sub_root (re : R → R) (e : Ex R) (c : String) (hc : c ∈ clauses re e) :
    anyNode (hasRootClause re c) e = true := by
  simp only [clauses, List.mem_append] at hc
  rcases hc with h | h
  · by_cases hs : anyNode isSdiv e = true
    · rw [if_pos hs] at h
      refine anyNode_mono _ _ ?_ e hs
      intro d hd
      simp only [List.mem_singleton] at h
      simp [hasRootClause, rootClauses, hd, h]
    · simp [hs] at h
  · by_cases hs : anyNode (lossyNode re) e = true
    · rw [if_pos hs] at h
      refine anyNode_mono _ _ ?_ e hs
      intro d hd
      simp only [List.mem_singleton] at h
      simp [hasRootClause, rootClauses, hd, h]
    · simp [hs] at h

theorem hasRootClause_sdiv (re : R → R) (d : Ex R) :
    hasRootClause re "scalar-divided-by-operator" d = isSdiv d := by
  by_cases hs : isSdiv d = true <;> by_cases hl : lossyNode re d = true <;>
    simp [hasRootClause, rootClauses, hs, hl]

theorem hasRootClause_lossy (re : R → R) (d : Ex R) :
    hasRootClause re "complex-scalar-real-operator" d = lossyNode re d := by
  by_cases hs : isSdiv d = true <;> by_cases hl : lossyNode re d = true <;>
    simp [hasRootClause, rootClauses, hs, hl]

/-- EXACT relation between the two clause lists: the clauses of an expression are the root
clauses of its nodes, clause by clause. -/
theorem clauses_eq_root (re : R → R) (e : Ex R) :
    clauses re e =
      (if anyNode (hasRootClause re "scalar-divided-by-operator") e
        then ["scalar-divided-by-operator"] else []) ++
      (if anyNode (hasRootClause re "complex-scalar-real-operator") e
        then ["complex-scalar-real-operator"] else []) := by
  have h1 : hasRootClause re "scalar-divided-by-operator" = (isSdiv : Ex R → Bool) :=
    funext (hasRootClause_sdiv re)
  have h2 : hasRootClause re "complex-scalar-real-operator" = lossyNode re :=
    funext (hasRootClause_lossy re)
  rw [h1, h2, clauses]

/-- an expression with no clause has no node with a root clause -/
theorem rootClauses_nil_of_clauses_nil (re : R → R) (e : Ex R) (h : clauses re e = []) :
    rootClauses re e = [] := by
  rcases hr : rootClauses re e with _ | ⟨c, t⟩
  · rfl
  · have := rootClauses_sub re e c (by rw [hr]; exact List.mem_cons_self)
    rw [h] at this; cases this
end Ex

#print axioms Ex.rootClauses_sub
#print axioms Ex.clauses_sub_root
#print axioms Ex.clauses_eq_root
#print axioms Ex.rootClauses_nil_of_clauses_nil
