import ColaVerif.Model.Expr

/-!
# Root-level clauses are clauses of the expression

`Ex.rootClauses re e` (what the harness uses to attribute a disagreement to the sub-expression
where it first appears) only names clauses that `Ex.clauses re e` — the hypothesis of the C03
theorems, `C03_clauses_decide` — lists as well; and a clause of the expression is the root clause
of one of its nodes.
-/

namespace Ex
set_option linter.unusedSectionVars false
variable {R : Type} [CommRing R] [StarRing R] [DecidableEq R]

theorem anyNode_root (p : Ex R → Bool) (e : Ex R) (h : p e = true) : anyNode p e = true := by
  cases e <;> simp [anyNode, h]

/-- a clause of the root node is a clause of the expression -/
theorem rootClauses_sub (re : R → R) (e : Ex R) : ∀ c ∈ rootClauses re e, c ∈ clauses re e := by
  intro c hc
  simp only [rootClauses, List.mem_append] at hc
  simp only [clauses, List.mem_append]
  rcases hc with h | h
  · left
    by_cases hs : isSdiv e = true
    · rw [if_pos (anyNode_root _ e hs)]; simpa [hs] using h
    · simp [hs] at h
  · right
    by_cases hl : lossyNode re e = true
    · rw [if_pos (anyNode_root _ e hl)]; simpa [hl] using h
    · simp [hl] at h

end Ex

#print axioms Ex.rootClauses_sub
