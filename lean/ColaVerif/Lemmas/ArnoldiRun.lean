import ColaVerif.Lemmas.ArnoldiInv

/-!
# The loop of `arnoldi_fact`: cap, stopping test, bookkeeping, batch decoupling

Generic over the law-free classes (no arithmetic laws are needed): the final state of the
`while` loop is obtained by stepping every start vector the same number of times; the number of
steps is at most `min max_iters n`; the loop stops as soon as — and not before — the stopping
test fails; `iterations = steps + 1`.
-/

namespace Arnoldi

variable {α V : Type} [Num α] [VecOps α V]

omit [VecOps α V] in
theorem cond_congr (tol : α) (cap : Nat) (s : State α V) (e : Array α) (k : Nat) :
    cond tol cap { s with errs := e, evals := k } = cond tol cap s := rfl

/-- specification of the `while` loop -/
theorem loop_spec (A : V → V) (tol : α) (cap : Nat) (cols0 : List (Col α V)) :
    ∀ (fuel : Nat) (s : State α V), s.cols = cols0.map (colAfter A tol s.idx) → s.idx ≤ cap →
      cap - s.idx < fuel →
      (loop A tol cap fuel s).cols = cols0.map (colAfter A tol (loop A tol cap fuel s).idx) ∧
      s.idx ≤ (loop A tol cap fuel s).idx ∧ (loop A tol cap fuel s).idx ≤ cap ∧
      (loop A tol cap fuel s).evals = s.evals + ((loop A tol cap fuel s).idx - s.idx) + 1 ∧
      ((loop A tol cap fuel s).idx = cap ∨
        (cols0.map (colAfter A tol (loop A tol cap fuel s).idx)).any
          (isLarge tol (loop A tol cap fuel s).idx) = false) ∧
      (∀ k, s.idx ≤ k → k < (loop A tol cap fuel s).idx →
        (cols0.map (colAfter A tol k)).any (isLarge tol k) = true) := by
  intro fuel
  induction fuel with
  | zero => intro s _ _ h; omega
  | succ f ih =>
    intro s hcols hidx hfuel
    unfold loop
    simp only
    by_cases hc : cond tol cap { s with errs := s.errs.push (errOf s), evals := s.evals + 1 } = true
    · rw [if_pos hc]
      rw [cond_congr] at hc
      have hc' := hc
      unfold cond at hc'
      rw [Bool.and_eq_true, decide_eq_true_eq] at hc'
      obtain ⟨hlt, hany⟩ := hc'
      generalize hs1 : body A tol { s with errs := s.errs.push (errOf s), evals := s.evals + 1 } = s1
      have hb : s1.cols = cols0.map (colAfter A tol (s.idx + 1)) := by
        rw [← hs1]
        simp only [body]
        rw [hcols, List.map_map]
        rfl
      have hi1 : s1.idx = s.idx + 1 := by rw [← hs1]; rfl
      have he1 : s1.evals = s.evals + 1 := by rw [← hs1]; rfl
      have := ih s1 (by rw [hi1]; exact hb) (by omega) (by omega)
      obtain ⟨h1, h2, h3, h4, h5, h6⟩ := this
      refine ⟨h1, by omega, h3, ?_, h5, ?_⟩
      · rw [h4]; omega
      · intro k hk1 hk2
        by_cases hk : k = s.idx
        · subst hk; rw [← hcols]; exact hany
        · exact h6 k (by omega) hk2
    · rw [if_neg hc]
      simp only
      refine ⟨hcols, le_refl _, hidx, by omega, ?_, fun k h1 h2 => by omega⟩
      rw [cond_congr] at hc
      unfold cond at hc
      rw [Bool.and_eq_true, decide_eq_true_eq, not_and_or] at hc
      rcases hc with hc | hc
      · left; omega
      · right; rw [← hcols]; simpa using hc

/-- specification of `arnoldi_fact ∘ init_arnoldi` -/
theorem run_spec (A : V → V) (n M : Nat) (tol : α) (rhs : List V) :
    (run A n M tol rhs).cols =
        rhs.map (fun v => colAfter A tol (run A n M tol rhs).idx (initCol M v)) ∧
      (run A n M tol rhs).idx ≤ min M n ∧
      (run A n M tol rhs).evals = (run A n M tol rhs).idx + 1 ∧
      ((run A n M tol rhs).idx = min M n ∨
        (run A n M tol rhs).cols.any (isLarge tol (run A n M tol rhs).idx) = false) ∧
      (∀ k, k < (run A n M tol rhs).idx →
        (rhs.map (fun v => colAfter A tol k (initCol M v))).any (isLarge tol k) = true) := by
  have h := loop_spec A tol (min M n) (rhs.map (initCol M)) (min M n + 1)
    { cols := rhs.map (initCol M), idx := 0, errs := #[], evals := 0 }
    (by simp [colAfter]) (Nat.zero_le _) (by simp)
  obtain ⟨h1, _, h3, h4, h5, h6⟩ := h
  have e : ∀ k, (rhs.map (initCol (α := α) M)).map (colAfter A tol k) =
      rhs.map (fun v => colAfter A tol k (initCol M v)) := by
    intro k; rw [List.map_map]; rfl
  refine ⟨?_, h3, ?_, ?_, ?_⟩
  · show (loop A tol (min M n) (min M n + 1) _).cols = _
    rw [h1, e]; rfl
  · show (loop A tol (min M n) (min M n + 1) _).evals = _
    rw [h4]; simp; rfl
  · rcases h5 with h5 | h5
    · left; exact h5
    · right
      show (loop A tol (min M n) (min M n + 1) _).cols.any _ = false
      rw [h1]; exact h5
  · intro k hk
    rw [← e]
    exact h6 k (Nat.zero_le _) hk

end Arnoldi
