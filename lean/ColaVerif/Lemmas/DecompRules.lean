import ColaVerif.Lemmas.DecompOp

/-!
# C11: recursion over the rules of `cholesky` and `plu`

`Op.cholRule_ok` / `Op.pluRule_ok`: whenever the rule returns, what it returns is a Cholesky /
PLU factorisation of the represented matrix (shapes included), for EVERY operator tree — the
structural rules by recursion (any number of Kronecker factors / blocks, any multiplicities, any
nesting, declaration wrappers anywhere), every other class through the dense fallback.
`Op.cholRule_skel` / `Op.pluRule_skel`: the kind trees of the returned factors.
`Op.cholRule_denseFree` / `Op.pluRule_denseFree`: no dense array in the factors of a structured
input.
-/

set_option linter.unusedSectionVars false

namespace Op
variable {R : Type} [CommRing R] [StarRing R] [DecidableEq R]

theorem cholOK_annot {A L : Op R} (a : Ann) (h : CholOK A L) : CholOK (annot a A) L := by
  simpa only [CholOK, Op.rows, Op.cols, Op.den] using h

theorem pluOK_annot {A : Op R} {F : Op R × Op R × Op R} (a : Ann) (h : PluOK A F) :
    PluOK (annot a A) F := by
  simpa only [PluOK, Op.rows, Op.cols, Op.den] using h

/-- **`cholesky`, all rules.** -/
theorem cholRule_ok {P : DecompParams R} {pos : R → Prop} (hP : Contracts P pos) :
    ∀ (A L : Op R), CholPre pos A → cholRule P A = .ok L → CholOK A L
  | annot a A, L, hpre, h => by
    simp only [cholRule] at h
    simp only [CholPre] at hpre
    split at h
    · rename_i dt n hcore
      injection h with h
      subst h
      exact cholOK_annot_eye a A dt n hcore
    · exact cholOK_annot a (cholRule_ok hP A L hpre h)
  | eye dt n, L, _, h => by
    simp only [cholRule] at h
    injection h with h
    subst h
    exact cholOK_eye dt n
  | diag dt n d, L, hpre, h => by
    simp only [cholRule] at h
    simp only [CholPre] at hpre
    split at h
    · rename_i s hs
      injection h with h
      subst h
      exact cholOK_diag hP dt n d s hpre hs
    · exact absurd h (by simp)
  | scalar dt c n, L, hpre, h => by
    simp only [cholRule] at h
    simp only [CholPre] at hpre
    split at h
    · rename_i t ht
      injection h with h
      subst h
      exact cholOK_scalar hP dt c t n hpre ht
    · exact absurd h (by simp)
  | kron Ms, L, hpre, h => by
    simp only [cholRule] at h
    simp only [CholPre] at hpre
    split at h
    · rename_i Ls hLs
      injection h with h
      subst h
      exact cholOK_kron (forall₂_imp_mem (seqE_map_ok hLs)
        (fun M hM L' hL' => cholRule_ok hP M L' (hpre M hM) hL'))
    · exact absurd h (by simp)
  | bdiag Ms mults, L, hpre, h => by
    simp only [cholRule] at h
    simp only [CholPre] at hpre
    split at h
    · rename_i Ls hLs
      injection h with h
      subst h
      exact cholOK_bdiag (forall₂_imp_mem (seqE_map_ok hLs)
        (fun M hM L' hL' => cholRule_ok hP M L' (hpre M hM) hL')) mults
    · exact absurd h (by simp)
  | dense .., L, hpre, h | tri .., L, hpre, h | sparse .., L, hpre, h | prod _, L, hpre, h
  | sum _, L, hpre, h | kronsum _, L, hpre, h | tridiag .., L, hpre, h | transpose _, L, hpre, h
  | adjoint _, L, hpre, h | sliced .., L, hpre, h | perm .., L, hpre, h | concat .., L, hpre, h
  | house .., L, hpre, h | generic _, L, hpre, h => by
    simp only [cholRule] at h
    simp only [CholPre] at hpre
    exact cholFallback_ok hP _ _ hpre.1 hpre.2 h
termination_by A => sizeOf A
decreasing_by
  all_goals simp_wf
  all_goals first
    | omega
    | (have := List.sizeOf_lt_of_mem hM; omega)

/-- **`plu`, all rules.** -/
theorem pluRule_ok {P : DecompParams R} {pos : R → Prop} (hP : Contracts P pos) :
    ∀ (A : Op R) (F : Op R × Op R × Op R), PluPre A → pluRule P A = .ok F → PluOK A F
  | annot a A, F, hpre, h => by
    simp only [pluRule] at h
    simp only [PluPre] at hpre
    split at h
    · rename_i dt n hcore
      injection h with h
      subst h
      exact pluOK_annot_eye a A dt n hcore
    · rename_i dt n d hcore
      injection h with h
      subst h
      exact pluOK_annot_diag a A dt n d hcore
    · rename_i dt c n hcore
      injection h with h
      subst h
      exact pluOK_annot_scalar a A dt c n hcore
    · exact pluOK_annot a (pluRule_ok hP A F hpre h)
  | eye dt n, F, _, h => by
    simp only [pluRule] at h
    injection h with h
    subst h
    exact pluOK_eye dt n
  | diag dt n d, F, _, h => by
    simp only [pluRule] at h
    injection h with h
    subst h
    exact pluOK_diag dt n d
  | scalar dt c n, F, _, h => by
    simp only [pluRule] at h
    injection h with h
    subst h
    exact pluOK_scalar dt c n
  | kron Ms, F, hpre, h => by
    simp only [pluRule] at h
    simp only [PluPre] at hpre
    split at h
    · rename_i Fs hFs
      injection h with h
      subst h
      exact pluOK_kron (forall₂_imp_mem (seqE_map_ok hFs)
        (fun M hM F' hF' => pluRule_ok hP M F' (hpre M hM) hF'))
    · exact absurd h (by simp)
  | bdiag Ms mults, F, hpre, h => by
    simp only [pluRule] at h
    simp only [PluPre] at hpre
    split at h
    · rename_i Fs hFs
      injection h with h
      subst h
      exact pluOK_bdiag (forall₂_imp_mem (seqE_map_ok hFs)
        (fun M hM F' hF' => pluRule_ok hP M F' (hpre M hM) hF')) mults
    · exact absurd h (by simp)
  | dense .., F, hpre, h | tri .., F, hpre, h | sparse .., F, hpre, h | prod _, F, hpre, h
  | sum _, F, hpre, h | kronsum _, F, hpre, h | tridiag .., F, hpre, h | transpose _, F, hpre, h
  | adjoint _, F, hpre, h | sliced .., F, hpre, h | perm .., F, hpre, h | concat .., F, hpre, h
  | house .., F, hpre, h | generic _, F, hpre, h => by
    simp only [pluRule] at h
    simp only [PluPre] at hpre
    exact pluFallback_ok hP _ _ hpre h
termination_by A => sizeOf A
decreasing_by
  all_goals simp_wf
  all_goals first
    | omega
    | (have := List.sizeOf_lt_of_mem hM; omega)


/-! ## kind trees of the returned factors -/

theorem forall₂_map_eq {α β γ : Type} {f : β → γ} {g : α → γ} {l : List α} {l' : List β}
    (h : List.Forall₂ (fun a b => f b = g a) l l') : l'.map f = l.map g := by
  induction h with
  | nil => rfl
  | cons hab _ ih => simp only [List.map_cons, hab, ih]

theorem forall₂_right_all {α β : Type} {S : α → β → Prop} {T : β → Prop} {l : List α}
    {l' : List β} (h : List.Forall₂ S l l') (imp : ∀ a ∈ l, ∀ b, S a b → T b) :
    ∀ b ∈ l', T b := by
  induction h with
  | nil => intro b hb; simp at hb
  | cons hab _ ih =>
    intro b hb
    rcases List.mem_cons.mp hb with rfl | hb
    · exact imp _ List.mem_cons_self _ hab
    · exact ih (fun a ha b' => imp a (List.mem_cons_of_mem _ ha) b') b hb

omit [CommRing R] [StarRing R] [DecidableEq R] in
/-- kind trees and `denseFree` look through declaration wrappers -/
theorem skel_core (lower : Bool) : ∀ (A : Op R),
    skelOf A = skelOf A.core ∧ promisedSkel lower A = promisedSkel lower A.core ∧
      promisedPermSkel A = promisedPermSkel A.core ∧ promisedLSkel A = promisedLSkel A.core ∧
      promisedUSkel A = promisedUSkel A.core ∧ A.denseFree = A.core.denseFree
  | annot a A => by
    simp only [core, skelOf, promisedSkel, promisedPermSkel, promisedLSkel, promisedUSkel,
      denseFree]
    exact skel_core lower A
  | dense .. | tri .. | sparse .. | prod _ | sum _ | kronsum _ | tridiag .. | transpose _
  | adjoint _ | sliced .. | perm .. | concat .. | house .. | generic _ | scalar .. | kron _
  | bdiag .. | diag .. | eye .. => by
    simp only [core, and_self]

omit [CommRing R] [StarRing R] [DecidableEq R] in
theorem skels_of_core_eye (lower : Bool) (A : Op R) (dt : DType) (n : Nat)
    (h : A.core = eye dt n) :
    skelOf A = .eye n ∧ promisedSkel lower A = .eye n ∧ promisedPermSkel A = .eye n ∧
      promisedLSkel A = .eye n ∧ promisedUSkel A = .eye n ∧ A.denseFree = true := by
  obtain ⟨h1, h2, h3, h4, h5, h6⟩ := skel_core lower A
  rw [h1, h2, h3, h4, h5, h6, h]
  simp only [skelOf, promisedSkel, promisedPermSkel, promisedLSkel, promisedUSkel, denseFree,
    and_self]

theorem cholFallback_skel {P : DecompParams R} {A L : Op R} (h : cholFallback P A = .ok L) :
    skelOf L = .tri true A.rows := by
  unfold cholFallback at h
  split at h
  · split at h
    · injection h with h
      subst h
      simp only [skelOf]
    · exact absurd h (by simp)
  · exact absurd h (by simp)

theorem pluFallback_skel {P : DecompParams R} {pos : R → Prop} (hP : Contracts P pos) {A : Op R}
    {F : Op R × Op R × Op R} (h : pluFallback P A = .ok F) :
    skelOf F.1 = .perm A.rows ∧ skelOf F.2.1 = .tri true A.rows ∧
      skelOf F.2.2 = .tri false A.rows := by
  unfold pluFallback at h
  split at h
  · split at h
    · rename_i p Lm Um hlu
      injection h with h
      subst h
      simp only [skelOf, (hP.lu _ _ _ _ _ hlu).1, and_self]
    · exact absurd h (by simp)
  · exact absurd h (by simp)

/-- **structure of the Cholesky factor**: its kind tree is the one promised for the input. -/
theorem cholRule_skel {P : DecompParams R} :
    ∀ (A L : Op R), cholRule P A = .ok L → skelOf L = promisedSkel true A
  | annot a A, L, h => by
    simp only [cholRule] at h
    simp only [promisedSkel]
    split at h
    · rename_i dt n hcore
      injection h with h
      subst h
      obtain ⟨h1, h2, _⟩ := skels_of_core_eye true A dt n hcore
      simp only [skelOf, h1, h2]
    · exact cholRule_skel A L h
  | eye dt n, L, h => by
    simp only [cholRule] at h
    injection h with h
    subst h
    simp only [skelOf, promisedSkel]
  | diag dt n d, L, h => by
    simp only [cholRule] at h
    split at h
    · injection h with h
      subst h
      simp only [skelOf, promisedSkel]
    · exact absurd h (by simp)
  | scalar dt c n, L, h => by
    simp only [cholRule] at h
    split at h
    · injection h with h
      subst h
      simp only [skelOf, promisedSkel, sqrtScalarOp, if_true]
    · exact absurd h (by simp)
  | kron Ms, L, h => by
    simp only [cholRule] at h
    split at h
    · rename_i Ls hLs
      injection h with h
      subst h
      simp only [skelOf, promisedSkel]
      congr 1
      exact forall₂_map_eq (forall₂_imp_mem (seqE_map_ok hLs)
        (fun M hM L' hL' => cholRule_skel M L' hL'))
    · exact absurd h (by simp)
  | bdiag Ms mults, L, h => by
    simp only [cholRule] at h
    split at h
    · rename_i Ls hLs
      injection h with h
      subst h
      simp only [skelOf, promisedSkel]
      congr 1
      exact forall₂_map_eq (forall₂_imp_mem (seqE_map_ok hLs)
        (fun M hM L' hL' => cholRule_skel M L' hL'))
    · exact absurd h (by simp)
  | dense .., L, h | tri .., L, h | sparse .., L, h | prod _, L, h
  | sum _, L, h | kronsum _, L, h | tridiag .., L, h | transpose _, L, h
  | adjoint _, L, h | sliced .., L, h | perm .., L, h | concat .., L, h
  | house .., L, h | generic _, L, h => by
    simp only [cholRule] at h
    simp only [promisedSkel]
    exact cholFallback_skel h
termination_by A => sizeOf A
decreasing_by
  all_goals simp_wf
  all_goals first
    | omega
    | (have := List.sizeOf_lt_of_mem hM; omega)

/-- **structure of the PLU factors.** -/
theorem pluRule_skel {P : DecompParams R} {pos : R → Prop} (hP : Contracts P pos) :
    ∀ (A : Op R) (F : Op R × Op R × Op R), pluRule P A = .ok F →
      skelOf F.1 = promisedPermSkel A ∧ skelOf F.2.1 = promisedLSkel A ∧
        skelOf F.2.2 = promisedUSkel A
  | annot a A, F, h => by
    simp only [pluRule] at h
    simp only [promisedLSkel, promisedUSkel, promisedPermSkel]
    split at h
    · rename_i dt n hcore
      injection h with h
      subst h
      obtain ⟨h1, _, h3, h4, h5, _⟩ := skels_of_core_eye true A dt n hcore
      simp only [skelOf, h1, h3, h4, h5, and_self]
    · rename_i dt n d hcore
      injection h with h
      subst h
      obtain ⟨h1, _, h3, h4, h5, _⟩ := skel_core true A
      rw [h3, h4, h5, hcore]
      simp only [skelOf, h1, hcore, promisedPermSkel, promisedLSkel, promisedUSkel, and_self]
    · rename_i dt c n hcore
      injection h with h
      subst h
      obtain ⟨h1, _, h3, h4, h5, _⟩ := skel_core true A
      rw [h3, h4, h5, hcore]
      simp only [skelOf, h1, hcore, promisedPermSkel, promisedLSkel, promisedUSkel, and_self]
    · exact pluRule_skel hP A F h
  | eye dt n, F, h => by
    simp only [pluRule] at h
    injection h with h
    subst h
    simp only [skelOf, promisedLSkel, promisedUSkel, promisedPermSkel, and_self]
  | diag dt n d, F, h => by
    simp only [pluRule] at h
    injection h with h
    subst h
    simp only [skelOf, promisedLSkel, promisedUSkel, promisedPermSkel, and_self]
  | scalar dt c n, F, h => by
    simp only [pluRule] at h
    injection h with h
    subst h
    simp only [skelOf, promisedLSkel, promisedUSkel, promisedPermSkel, and_self]
  | kron Ms, F, h => by
    simp only [pluRule] at h
    split at h
    · rename_i Fs hFs
      injection h with h
      subst h
      have hf := forall₂_imp_mem (seqE_map_ok hFs)
        (fun M hM F' hF' => pluRule_skel hP M F' hF')
      simp only [skelOf, promisedLSkel, promisedUSkel, promisedPermSkel, List.map_map]
      refine ⟨?_, ?_, ?_⟩ <;> congr 1
      · exact forall₂_map_eq (f := fun F' => skelOf F'.1) (hf.imp fun _ _ h => h.1)
      · exact forall₂_map_eq (f := fun F' => skelOf F'.2.1) (hf.imp fun _ _ h => h.2.1)
      · exact forall₂_map_eq (f := fun F' => skelOf F'.2.2) (hf.imp fun _ _ h => h.2.2)
    · exact absurd h (by simp)
  | bdiag Ms mults, F, h => by
    simp only [pluRule] at h
    split at h
    · rename_i Fs hFs
      injection h with h
      subst h
      have hf := forall₂_imp_mem (seqE_map_ok hFs)
        (fun M hM F' hF' => pluRule_skel hP M F' hF')
      simp only [skelOf, promisedLSkel, promisedUSkel, promisedPermSkel, List.map_map]
      refine ⟨?_, ?_, ?_⟩ <;> congr 1
      · exact forall₂_map_eq (f := fun F' => skelOf F'.1) (hf.imp fun _ _ h => h.1)
      · exact forall₂_map_eq (f := fun F' => skelOf F'.2.1) (hf.imp fun _ _ h => h.2.1)
      · exact forall₂_map_eq (f := fun F' => skelOf F'.2.2) (hf.imp fun _ _ h => h.2.2)
    · exact absurd h (by simp)
  | dense .., F, h | tri .., F, h | sparse .., F, h | prod _, F, h
  | sum _, F, h | kronsum _, F, h | tridiag .., F, h | transpose _, F, h
  | adjoint _, F, h | sliced .., F, h | perm .., F, h | concat .., F, h
  | house .., F, h | generic _, F, h => by
    simp only [pluRule] at h
    simp only [promisedLSkel, promisedUSkel, promisedPermSkel]
    exact pluFallback_skel hP h
termination_by A => sizeOf A
decreasing_by
  all_goals simp_wf
  all_goals first
    | omega
    | (have := List.sizeOf_lt_of_mem hM; omega)

/-! ## no dense array in the factors of a structured input -/

omit [CommRing R] [StarRing R] [DecidableEq R] in
theorem all_map_of_forall {f : Op R → Bool} {l : List (Op R)} (h : ∀ b ∈ l, f b = true) :
    (l.map f).all id = true := by
  simp only [List.all_eq_true, List.mem_map, id_eq]
  rintro _ ⟨b, hb, rfl⟩
  exact h b hb

omit [CommRing R] [StarRing R] [DecidableEq R] in
theorem forall_of_all_map {f : Op R → Bool} {l : List (Op R)} (h : (l.map f).all id = true) :
    ∀ b ∈ l, f b = true := by
  simp only [List.all_eq_true, List.mem_map, id_eq] at h
  exact fun b hb => h _ ⟨b, hb, rfl⟩

theorem sqrtScalarOp_denseFree (dt : DType) (t : R) (n : Nat) :
    (sqrtScalarOp dt t n).denseFree = true := by
  simp [sqrtScalarOp, denseFree]

theorem cholRule_denseFree {P : DecompParams R} :
    ∀ (A L : Op R), A.structOnly = true → cholRule P A = .ok L → L.denseFree = true
  | annot a A, L, hs, h => by
    simp only [cholRule] at h
    simp only [structOnly] at hs
    split at h
    · rename_i dt n hcore
      injection h with h
      subst h
      simp only [denseFree]
      exact (skels_of_core_eye true A dt n hcore).2.2.2.2.2
    · exact cholRule_denseFree A L hs h
  | eye dt n, L, _, h => by
    simp only [cholRule] at h
    injection h with h
    subst h
    simp only [denseFree]
  | diag dt n d, L, _, h => by
    simp only [cholRule] at h
    split at h
    · injection h with h
      subst h
      simp only [denseFree]
    · exact absurd h (by simp)
  | scalar dt c n, L, _, h => by
    simp only [cholRule] at h
    split at h
    · injection h with h
      subst h
      exact sqrtScalarOp_denseFree dt _ n
    · exact absurd h (by simp)
  | kron Ms, L, hs, h => by
    simp only [cholRule] at h
    simp only [structOnly] at hs
    have hs' := forall_of_all_map hs
    split at h
    · rename_i Ls hLs
      injection h with h
      subst h
      simp only [denseFree]
      exact all_map_of_forall (forall₂_right_all (seqE_map_ok hLs)
        (fun M hM L' hL' => cholRule_denseFree M L' (hs' M hM) hL'))
    · exact absurd h (by simp)
  | bdiag Ms mults, L, hs, h => by
    simp only [cholRule] at h
    simp only [structOnly] at hs
    have hs' := forall_of_all_map hs
    split at h
    · rename_i Ls hLs
      injection h with h
      subst h
      simp only [denseFree]
      exact all_map_of_forall (forall₂_right_all (seqE_map_ok hLs)
        (fun M hM L' hL' => cholRule_denseFree M L' (hs' M hM) hL'))
    · exact absurd h (by simp)
  | dense .., _, hs, _ | tri .., _, hs, _ | sparse .., _, hs, _ | prod _, _, hs, _
  | sum _, _, hs, _ | kronsum _, _, hs, _ | tridiag .., _, hs, _ | transpose _, _, hs, _
  | adjoint _, _, hs, _ | sliced .., _, hs, _ | perm .., _, hs, _ | concat .., _, hs, _
  | house .., _, hs, _ | generic _, _, hs, _ => by
    simp only [structOnly] at hs
    exact absurd hs (by simp)
termination_by A => sizeOf A
decreasing_by
  all_goals simp_wf
  all_goals first
    | omega
    | (have := List.sizeOf_lt_of_mem hM; omega)

theorem pluRule_denseFree {P : DecompParams R} :
    ∀ (A : Op R) (F : Op R × Op R × Op R), A.structOnly = true → pluRule P A = .ok F →
      F.1.denseFree = true ∧ F.2.1.denseFree = true ∧ F.2.2.denseFree = true
  | annot a A, F, hs, h => by
    simp only [pluRule] at h
    simp only [structOnly] at hs
    split at h
    · rename_i dt n hcore
      injection h with h
      subst h
      simp only [denseFree, and_self]
      exact (skels_of_core_eye true A dt n hcore).2.2.2.2.2
    · rename_i dt n d hcore
      injection h with h
      subst h
      have := (skel_core true A).2.2.2.2.2
      simp only [denseFree, this, hcore, and_self]
    · rename_i dt c n hcore
      injection h with h
      subst h
      have := (skel_core true A).2.2.2.2.2
      simp only [denseFree, this, hcore, and_self]
    · exact pluRule_denseFree A F hs h
  | eye dt n, F, _, h => by
    simp only [pluRule] at h
    injection h with h
    subst h
    simp only [denseFree, and_self]
  | diag dt n d, F, _, h => by
    simp only [pluRule] at h
    injection h with h
    subst h
    simp only [denseFree, and_self]
  | scalar dt c n, F, _, h => by
    simp only [pluRule] at h
    injection h with h
    subst h
    simp only [denseFree, and_self]
  | kron Ms, F, hs, h => by
    simp only [pluRule] at h
    simp only [structOnly] at hs
    have hs' := forall_of_all_map hs
    split at h
    · rename_i Fs hFs
      injection h with h
      subst h
      have hall := forall₂_right_all (seqE_map_ok hFs)
        (fun M hM F' hF' => pluRule_denseFree M F' (hs' M hM) hF')
      simp only [denseFree, List.map_map]
      refine ⟨?_, ?_, ?_⟩
      · exact List.all_eq_true.mpr (by
          intro b hb; obtain ⟨F', hF', rfl⟩ := List.mem_map.mp hb; exact (hall F' hF').1)
      · exact List.all_eq_true.mpr (by
          intro b hb; obtain ⟨F', hF', rfl⟩ := List.mem_map.mp hb; exact (hall F' hF').2.1)
      · exact List.all_eq_true.mpr (by
          intro b hb; obtain ⟨F', hF', rfl⟩ := List.mem_map.mp hb; exact (hall F' hF').2.2)
    · exact absurd h (by simp)
  | bdiag Ms mults, F, hs, h => by
    simp only [pluRule] at h
    simp only [structOnly] at hs
    have hs' := forall_of_all_map hs
    split at h
    · rename_i Fs hFs
      injection h with h
      subst h
      have hall := forall₂_right_all (seqE_map_ok hFs)
        (fun M hM F' hF' => pluRule_denseFree M F' (hs' M hM) hF')
      simp only [denseFree, List.map_map]
      refine ⟨?_, ?_, ?_⟩
      · exact List.all_eq_true.mpr (by
          intro b hb; obtain ⟨F', hF', rfl⟩ := List.mem_map.mp hb; exact (hall F' hF').1)
      · exact List.all_eq_true.mpr (by
          intro b hb; obtain ⟨F', hF', rfl⟩ := List.mem_map.mp hb; exact (hall F' hF').2.1)
      · exact List.all_eq_true.mpr (by
          intro b hb; obtain ⟨F', hF', rfl⟩ := List.mem_map.mp hb; exact (hall F' hF').2.2)
    · exact absurd h (by simp)
  | dense .., _, hs, _ | tri .., _, hs, _ | sparse .., _, hs, _ | prod _, _, hs, _
  | sum _, _, hs, _ | kronsum _, _, hs, _ | tridiag .., _, hs, _ | transpose _, _, hs, _
  | adjoint _, _, hs, _ | sliced .., _, hs, _ | perm .., _, hs, _ | concat .., _, hs, _
  | house .., _, hs, _ | generic _, _, hs, _ => by
    simp only [structOnly] at hs
    exact absurd hs (by simp)
termination_by A => sizeOf A
decreasing_by
  all_goals simp_wf
  all_goals first
    | omega
    | (have := List.sizeOf_lt_of_mem hM; omega)

end Op
