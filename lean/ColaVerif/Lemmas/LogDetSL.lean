import ColaVerif.Lemmas.LogDetRel
import ColaVerif.Lemmas.LogDetDet
import Mathlib.Analysis.SpecialFunctions.Log.Basic
import Mathlib.Analysis.Complex.Exponential
import Mathlib.Analysis.Complex.Norm

/-!
# C07: the `(sign, logabs)` arithmetic of logdet.py

`slOps` is the instance of the rule model in which a result is the PAIR `(sign, logabs) : ℂ × ℝ`
and every operation is the one the Python code performs (`z / |z|`, `log |z|`, products of signs
and sums of logs, `s ** k` and `l * k`, `s * conj(s)` and `2 * l`, `exp(t - Re t)` and `Re t`).
Real operators are complex operators with real entries.

`slOps_rel`: evaluation `(s, l) ↦ s * exp l` carries every operation of `slOps` to the
corresponding operation of the exact instance `detOps`, and keeps `|s| = 1` whenever the
represented number is non-zero.  With `Op.slogdetG_rel` (same rules, related results) and
`Op.claimedDet_eq_det` this gives `slogdet_sound`.
-/

open Complex

namespace Op

/-- the code's arithmetic on `(sign, logabs)` pairs -/
noncomputable def slOps : SLOps ℂ ℂ (ℂ × ℝ) where
  one := (1, 0)
  entry := fun z => (z / (‖z‖ : ℂ), Real.log ‖z‖)
  mul := fun a b => (a.1 * b.1, a.2 + b.2)
  pow := fun a k => (a.1 ^ k, a.2 * k)
  scalarPow := fun c n => ((c / (‖c‖ : ℂ)) ^ n, n * Real.log ‖c‖)
  parity := fun b => (if b then 1 else -1, 0)
  cholComb := fun a => (a.1 * star a.1, 2 * a.2)
  ofTrLog := fun t => (Complex.exp (t - (t.re : ℂ)), t.re)

/-- the number a pair stands for -/
noncomputable def evalSL (v : ℂ × ℝ) : ℂ := v.1 * ((Real.exp v.2 : ℝ) : ℂ)

/-- a pair represents `d`, with a unit-modulus sign unless `d = 0` -/
def SLRel (v : ℂ × ℝ) (d : ℂ) : Prop := evalSL v = d ∧ (d ≠ 0 → ‖v.1‖ = 1)

theorem slrel_entry (z : ℂ) : SLRel (z / (‖z‖ : ℂ), Real.log ‖z‖) z := by
  by_cases hz : z = 0
  · subst hz
    exact ⟨by simp [evalSL], fun h => absurd rfl h⟩
  · have hpos : 0 < ‖z‖ := norm_pos_iff.mpr hz
    have hne : ((‖z‖ : ℝ) : ℂ) ≠ 0 := by exact_mod_cast hpos.ne'
    refine ⟨?_, fun _ => ?_⟩
    · simp only [evalSL]
      rw [Real.exp_log hpos, div_mul_cancel₀ _ hne]
    · simp only
      rw [norm_div, Complex.norm_real, norm_norm, div_self hpos.ne']

theorem slrel_mul {a b : ℂ × ℝ} {d d' : ℂ} (ha : SLRel a d) (hb : SLRel b d') :
    SLRel (a.1 * b.1, a.2 + b.2) (d * d') := by
  obtain ⟨ha1, ha2⟩ := ha
  obtain ⟨hb1, hb2⟩ := hb
  refine ⟨?_, fun h => ?_⟩
  · simp only [evalSL] at ha1 hb1 ⊢
    rw [Real.exp_add, ← ha1, ← hb1]
    push_cast
    ring
  · simp only
    rw [norm_mul, ha2 (left_ne_zero_of_mul h), hb2 (right_ne_zero_of_mul h), mul_one]

theorem slrel_pow {a : ℂ × ℝ} {d : ℂ} (ha : SLRel a d) (k : Nat) :
    SLRel (a.1 ^ k, a.2 * k) (d ^ k) := by
  obtain ⟨ha1, ha2⟩ := ha
  refine ⟨?_, fun h => ?_⟩
  · simp only [evalSL] at ha1 ⊢
    rw [mul_comm a.2, Real.exp_nat_mul, ← ha1]
    push_cast
    ring
  · simp only
    by_cases hk : k = 0
    · subst hk; simp
    · have hd : d ≠ 0 := fun hd => h (by rw [hd, zero_pow hk])
      rw [norm_pow, ha2 hd, one_pow]

theorem slOps_rel : OpsRel slOps (detOps : SLOps ℂ ℂ ℂ) SLRel (fun t d => Complex.exp t = d) where
  one := ⟨by simp [evalSL, slOps, detOps], fun _ => by simp [slOps]⟩
  entry := fun z => slrel_entry z
  mul := fun a a' b b' ha hb => slrel_mul ha hb
  pow := fun a a' k ha => slrel_pow ha k
  scalarPow := fun c n => by
    have h := slrel_pow (slrel_entry c) n
    simp only at h
    show SLRel ((c / (‖c‖ : ℂ)) ^ n, (n : ℝ) * Real.log ‖c‖) (c ^ n)
    rw [mul_comm]
    exact h
  parity := fun b => by
    cases b <;> simp [SLRel, evalSL, slOps, detOps]
  cholComb := fun a d ha => by
    obtain ⟨ha1, ha2⟩ := ha
    show SLRel (a.1 * star a.1, 2 * a.2) (d * star d)
    refine ⟨?_, fun h => ?_⟩
    · simp only [evalSL] at ha1 ⊢
      rw [two_mul, Real.exp_add, ← ha1, star_mul']
      simp only [Complex.star_def, Complex.conj_ofReal]
      push_cast
      ring
    · simp only
      have hd : d ≠ 0 := left_ne_zero_of_mul h
      rw [norm_mul, norm_star, ha2 hd, mul_one]
  ofTrLog := fun t d ht => by
    show SLRel (Complex.exp (t - (t.re : ℂ)), t.re) d
    refine ⟨?_, fun _ => ?_⟩
    · simp only [evalSL]
      rw [Complex.ofReal_exp, ← Complex.exp_add, sub_add_cancel, ht]
    · simp only
      rw [Complex.norm_exp]
      simp

/-- the Krylov kernel represented by `exp` of its result -/
noncomputable def DetKernels.expT (K : DetKernels ℂ ℂ) : DetKernels ℂ ℂ :=
  ⟨K.chol, K.lu, fun la ta A => (K.trlog la ta A).map Complex.exp⟩

theorem kernRel_expT (K : DetKernels ℂ ℂ) : KernRel K K.expT (fun t d => Complex.exp t = d) where
  chol := rfl
  lu := rfl
  trlog := fun la ta A => by
    show ExRel _ (K.trlog la ta A) ((K.trlog la ta A).map Complex.exp)
    cases K.trlog la ta A <;> simp [ExRel, Except.map]

variable [DecidableEq ℂ]

/-- **soundness of the pair arithmetic**: what the code returns, evaluated, is the determinant -/
theorem slogdet_sound (K : DetKernels ℂ ℂ) (hK : KernelsOK K.expT) (la : LogAlg) (ta : TraceAlg)
    (A : Op ℂ) (hg : Good A) (ht : A.triTrue = true) (hs : A.sqMembers = true) (s : ℂ) (l : ℝ)
    (h : slogdetG slOps K la ta A = .ok (s, l)) :
    s * ((Real.exp l : ℝ) : ℂ) = detN A.rows A.den.f ∧ (detN A.rows A.den.f ≠ 0 → ‖s‖ = 1) := by
  have hrel := slogdetG_rel slOps_rel (kernRel_expT K) la ta A
  rw [h] at hrel
  obtain ⟨d, hd, hr⟩ := hrel.ok_left
  have := claimedDet_eq_det K.expT hK la ta A hg ht hs d hd
  rw [← this]
  exact hr

end Op
