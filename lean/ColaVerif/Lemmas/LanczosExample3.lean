import Mathlib.Analysis.InnerProductSpace.PiL2
import Mathlib.Analysis.Matrix.Hermitian
import ColaVerif.Lemmas.LanczosExample
import ColaVerif.Lemmas.LanczosEigsUnit

/-!
# A concrete 3 × 3 Lanczos run and an exact witness of the strengthened `eigh` contract (round 3)

* `OutSpec.sum_col`, `OutSpec.three_term`: the three-term recurrence `A q_c = T_{c-1,c} q_{c-1} + T_{c,c} q_c +
  T_{c+1,c} q_{c+1}` (resp. `+ r` in the last column) read off the conclusions of the run theorems, for every size;
* `ex3_run`: `A = [[2,1,0],[1,2,1],[0,1,2]]`, `v = e₀`, `n = 3`, `max_iters = 5`, `tol = 0` — the model returns
  `k = 3` columns `e₀, e₁, e₂`, `T = A`, residual column `0` (derived from `single_out`, no evaluation of the model);
* `eigh3`, `ex3_eigh_unit`: an exact eigensolver for `[[a,b,0],[b,a,b],[0,b,a]]` (values `a ∓ √2 b`, `a`; unit
  eigenvectors `(1, ∓√2, 1)/2`, `(1, 0, -1)/√2`) satisfies `EighUnit` on this run.
-/

open scoped InnerProductSpace ComplexConjugate
open Finset WithLp

set_option linter.unusedSectionVars false

namespace Lanczos

attribute [local instance] exactNum exactVec

section threeterm
variable {𝕜 E : Type} [RCLike 𝕜] [NormedAddCommGroup E] [InnerProductSpace 𝕜 E]
variable {A : E →ₗ[𝕜] E} {v : E} {k : ℕ} {q : ℕ → E} {T : ℕ → ℕ → 𝕜} {r : E}

/-- column `c` of `Q T` has at most three terms -/
theorem OutSpec.sum_col (h : OutSpec A v k q T r) (c : ℕ) (hc : c < k) :
    ∑ a ∈ range k, T a c • q a =
      (if c = 0 then 0 else T (c - 1) c • q (c - 1)) + T c c • q c +
        (if c + 1 = k then 0 else T (c + 1) c • q (c + 1)) := by
  obtain ⟨m, rfl⟩ : ∃ m, k = c + 1 + m := ⟨k - (c + 1), by omega⟩
  rw [Finset.sum_range_add, Finset.sum_range_succ]
  have hhead : ∑ a ∈ range c, T a c • q a = if c = 0 then 0 else T (c - 1) c • q (c - 1) := by
    rcases Nat.eq_zero_or_pos c with h0 | hpos
    · subst h0; simp
    · obtain ⟨c', rfl⟩ : ∃ c', c = c' + 1 := ⟨c - 1, by omega⟩
      have hz : ∑ a ∈ range c', T a (c' + 1) • q a = 0 := by
        apply Finset.sum_eq_zero
        intro a ha
        have ha' := mem_range.mp ha
        rw [h.tridiag a (c' + 1) (by omega) (by omega) (by omega), zero_smul]
      rw [Finset.sum_range_succ, if_neg (by omega), hz, zero_add]
      simp
  have htail : ∑ x ∈ range m, T (c + 1 + x) c • q (c + 1 + x) =
      if c + 1 = c + 1 + m then 0 else T (c + 1) c • q (c + 1) := by
    rcases Nat.eq_zero_or_pos m with h0 | hpos
    · subst h0; simp
    · obtain ⟨m', rfl⟩ : ∃ m', m = m' + 1 := ⟨m - 1, by omega⟩
      have hz : ∑ a ∈ range m', T (c + 1 + (a + 1)) c • q (c + 1 + (a + 1)) = 0 := by
        apply Finset.sum_eq_zero
        intro a ha
        have ha' := mem_range.mp ha
        rw [h.symm (c + 1 + (a + 1)) c (by omega) (by omega),
          h.tridiag c (c + 1 + (a + 1)) (by omega) (by omega) (by omega), zero_smul]
      rw [Finset.sum_range_succ', if_neg (by omega), hz, zero_add]
  rw [hhead, htail]

/-- the three-term recurrence read off the returned factors -/
theorem OutSpec.three_term (h : OutSpec A v k q T r) (c : ℕ) (hc : c < k) :
    A (q c) = (if c = 0 then 0 else T (c - 1) c • q (c - 1)) + T c c • q c +
      (if c + 1 = k then r else T (c + 1) c • q (c + 1)) := by
  have h1 := h.rel c hc
  rw [h.sum_col c hc] at h1
  rw [sub_eq_iff_eq_add] at h1
  rw [h1]
  by_cases hk : c + 1 = k
  · simp only [hk, if_true]; abel
  · simp only [hk, if_false]; abel

end threeterm

/-! ## the 3 × 3 run -/

/-- `[[2, 1, 0], [1, 2, 1], [0, 1, 2]]` -/
def exM3 : Matrix (Fin 3) (Fin 3) ℝ := !![2, 1, 0; 1, 2, 1; 0, 1, 2]

local notation "A3" => Matrix.toEuclideanLin exM3

noncomputable def exv3 : EuclideanSpace ℝ (Fin 3) := !₂[1, 0, 0]

theorem exM3_apply (a b c : ℝ) : A3 !₂[a, b, c] = !₂[2 * a + b, a + 2 * b + c, b + 2 * c] := by
  apply ofLp_injective 2
  funext i
  fin_cases i <;> simp [exM3, Matrix.toLpLin_apply] <;> ring

theorem inner3 (a b c d e f : ℝ) : ⟪!₂[a, b, c], !₂[d, e, f]⟫_ℝ = a * d + b * e + c * f := by
  simp [PiLp.inner_apply, Fin.sum_univ_three]
  ring

theorem add3 (a b c d e f : ℝ) :
    (!₂[a, b, c] : EuclideanSpace ℝ (Fin 3)) + !₂[d, e, f] = !₂[a + d, b + e, c + f] := by
  apply ofLp_injective 2; funext i; fin_cases i <;> simp
theorem sub3 (a b c d e f : ℝ) :
    (!₂[a, b, c] : EuclideanSpace ℝ (Fin 3)) - !₂[d, e, f] = !₂[a - d, b - e, c - f] := by
  apply ofLp_injective 2; funext i; fin_cases i <;> simp
theorem smul3 (t a b c : ℝ) : t • (!₂[a, b, c] : EuclideanSpace ℝ (Fin 3)) = !₂[t * a, t * b, t * c] := by
  apply ofLp_injective 2; funext i; fin_cases i <;> simp
theorem norm3 (a b c : ℝ) :
    ‖(!₂[a, b, c] : EuclideanSpace ℝ (Fin 3))‖ = Real.sqrt (a ^ 2 + b ^ 2 + c ^ 2) := by
  rw [EuclideanSpace.norm_eq]; simp [Fin.sum_univ_three]

theorem exM3_symm : (A3).IsSymmetric := by
  rw [Matrix.isSymmetric_toEuclideanLin_iff]
  ext i j
  fin_cases i <;> fin_cases j <;> simp [exM3, Matrix.conjTranspose]

theorem exv3_norm : ‖exv3‖ = 1 := by unfold exv3; rw [norm3]; norm_num
theorem exv3_ne : exv3 ≠ 0 := by
  intro h; have := exv3_norm; rw [h, norm_zero] at this; exact zero_ne_one this

/-- a positive multiple of a unit vector that is a unit vector is that vector -/
theorem eq_of_pos_smul_unit {F : Type} [NormedAddCommGroup F] [NormedSpace ℝ F] {x : ℝ} {u w : F}
    (hx : 0 < x) (hu : ‖u‖ = 1) (hw : ‖w‖ = 1) (h : x • u = w) : x = 1 ∧ u = w := by
  have := congrArg norm h
  rw [norm_smul, hu, hw, Real.norm_eq_abs, abs_of_pos hx, mul_one] at this
  exact ⟨this, by rw [← h, this, one_smul]⟩

/-- the run on `([[2,1,0],[1,2,1],[0,1,2]], e₀)` with `n = 3`, `max_iters = 5`, `tol = 0`: three columns
`e₀, e₁, e₂`, `T = [[2,1,0],[1,2,1],[0,1,2]]`, residual column `0` — derived from the conclusions of the
single-vector theorem (`single_out`) through the three-term form `OutSpec.three_term` -/
theorem ex3_run :
    let o := lanczosExact A3 3 #[exv3] 5 0
    o.iters = 3 ∧ (o.beta.getD 0 #[]).size = 3 ∧
      o.q 0 0 = !₂[1, 0, 0] ∧ o.q 0 1 = !₂[0, 1, 0] ∧ o.q 0 2 = !₂[0, 0, 1] ∧
      (∀ a c, a < 3 → c < 3 →
        o.T 0 a c = if a = c then 2 else if a = c + 1 ∨ c = a + 1 then 1 else 0) ∧
      o.resid A3 0 = 0 := by
  intro o
  have hso := single_out A3 exM3_symm 3 5 exv3 0 exv3_ne (le_refl _) (by decide)
  rw [show lanczosExact A3 3 #[exv3] 5 0 = o from rfl] at hso
  obtain ⟨hk1, hkm, _, _, hbs, _, hspec, hexit⟩ := hso
  have hpos : 0 < o.iters := hk1
  have hle : o.iters ≤ 3 := by simpa using hkm
  -- an early exit with `tol = 0` needs a vanishing residual column
  have hr0 : o.iters ≠ 3 → o.resid A3 0 = 0 := by
    intro hne
    rcases hexit with hcap | ⟨β₁, _, _, hle'⟩
    · exact absurd (by simpa using hcap) hne
    · rw [zero_mul] at hle'
      exact norm_le_zero_iff.mp hle'
  have hq0 : o.q 0 0 = !₂[1, 0, 0] := by
    rw [hspec.first, exv3_norm]; simp [exv3]
  have hT00 : o.T 0 0 0 = 2 := by
    rw [← hspec.proj 0 0 hpos hpos, hq0, exM3_apply, inner3]; norm_num
  -- step 0
  have h0 := hspec.three_term 0 hpos
  rw [if_pos rfl, zero_add, hT00, hq0, exM3_apply, smul3] at h0
  have hk2 : 2 ≤ o.iters := by
    by_contra hcon
    have h1 : o.iters = 1 := by omega
    rw [if_pos (by omega), hr0 (by omega), add_zero] at h0
    have := congrArg (fun x : EuclideanSpace ℝ (Fin 3) => x 1) h0
    simp at this
  obtain ⟨x, hx0, hx⟩ := hspec.offdiag_pos 0 (by omega)
  rw [if_neg (by omega), hx] at h0
  have hxq : (x : ℝ) • o.q 0 1 = !₂[0, 1, 0] := by
    have h2 : (x : ℝ) • o.q 0 1 = !₂[2 * 1 + 0, 1 + 2 * 0 + 0, 0 + 2 * 0] - !₂[2 * 1, 2 * 0, 2 * 0] := by
      rw [h0]; simp
    rw [h2, sub3]; norm_num
  have hn1 : ‖o.q 0 1‖ = 1 := hspec.orthonormal.1 ⟨1, by omega⟩
  obtain ⟨hx1, hq1⟩ := eq_of_pos_smul_unit hx0 hn1 (by rw [norm3]; norm_num) hxq
  have hT10 : o.T 0 1 0 = 1 := by rw [hx, hx1]; rfl
  have hT01 : o.T 0 0 1 = 1 := by rw [hspec.symm 0 1 (by omega) (by omega), hT10]
  have hT11 : o.T 0 1 1 = 2 := by
    rw [← hspec.proj 1 1 (by omega) (by omega), hq1, exM3_apply, inner3]; norm_num
  -- step 1
  have h1 := hspec.three_term 1 (by omega)
  rw [if_neg (by omega)] at h1
  simp only [Nat.sub_self, Nat.reduceAdd] at h1
  rw [hT01, hT11, hq0, hq1, exM3_apply, smul3, smul3, add3] at h1
  have hk3 : o.iters = 3 := by
    by_contra hcon
    have h2 : o.iters = 2 := by omega
    rw [if_pos (by omega), hr0 hcon, add_zero] at h1
    have := congrArg (fun x : EuclideanSpace ℝ (Fin 3) => x 2) h1
    simp at this
  obtain ⟨x', hx0', hx'⟩ := hspec.offdiag_pos 1 (by omega)
  rw [if_neg (by omega), hx'] at h1
  have hxq' : (x' : ℝ) • o.q 0 2 = !₂[0, 0, 1] := by
    have h2 : (x' : ℝ) • o.q 0 2 =
        !₂[2 * 0 + 1, 0 + 2 * 1 + 0, 1 + 2 * 0] - !₂[1 * 1 + 2 * 0, 1 * 0 + 2 * 1, 1 * 0 + 2 * 0] := by
      rw [h1]; simp
    rw [h2, sub3]; norm_num
  have hn2 : ‖o.q 0 2‖ = 1 := hspec.orthonormal.1 ⟨2, by omega⟩
  obtain ⟨hx1', hq2⟩ := eq_of_pos_smul_unit hx0' hn2 (by rw [norm3]; norm_num) hxq'
  have hT21 : o.T 0 2 1 = 1 := by rw [hx', hx1']; rfl
  have hT12 : o.T 0 1 2 = 1 := by rw [hspec.symm 1 2 (by omega) (by omega), hT21]
  have hT22 : o.T 0 2 2 = 2 := by
    rw [← hspec.proj 2 2 (by omega) (by omega), hq2, exM3_apply, inner3]; norm_num
  have hT02 : o.T 0 0 2 = 0 := hspec.tridiag 0 2 (by omega) (by omega) (by omega)
  have hT20 : o.T 0 2 0 = 0 := by rw [hspec.symm 2 0 (by omega) (by omega), hT02]
  -- step 2: the residual column
  have h2 := hspec.three_term 2 (by omega)
  rw [if_neg (by omega), if_pos (by omega)] at h2
  simp only [Nat.reduceSub] at h2
  rw [hT12, hT22, hq1, hq2, exM3_apply, smul3, smul3, add3] at h2
  have hres : o.resid A3 0 = 0 := by
    have h3 : o.resid A3 0 =
        !₂[2 * 0 + 0, 0 + 2 * 0 + 1, 0 + 2 * 1] - !₂[1 * 0 + 2 * 0, 1 * 1 + 2 * 0, 1 * 0 + 2 * 1] := by
      rw [h2]; simp
    rw [h3, sub3]
    apply ofLp_injective 2
    funext i
    fin_cases i <;> norm_num
  rw [hk3] at hbs
  refine ⟨hk3, hbs, hq0, hq1, hq2, ?_, hres⟩
  intro a c ha hc
  interval_cases a <;> interval_cases c <;> simp <;>
    first
      | exact hT00 | exact hT10 | exact hT01 | exact hT11 | exact hT21 | exact hT12 | exact hT22
      | exact hT02


/-- an exact eigensolver for the matrices `[[a, b, 0], [b, a, b], [0, b, a]]` (read off the dense array it is
given): values `a - √2 b`, `a`, `a + √2 b`, ORTHONORMAL eigenvector columns `(1, -√2, 1)/2`, `(1, 0, -1)/√2`,
`(1, √2, 1)/2` -/
noncomputable def eigh3 (D : Array (Array ℝ)) : Array ℝ × Array (Array ℝ) :=
  let a := (D.getD 0 #[]).getD 0 0
  let b := (D.getD 0 #[]).getD 1 0
  (#[a - Real.sqrt 2 * b, a, a + Real.sqrt 2 * b],
   #[#[1 / 2, -(Real.sqrt 2 / 2), 1 / 2], #[Real.sqrt 2 / 2, 0, -(Real.sqrt 2 / 2)],
     #[1 / 2, Real.sqrt 2 / 2, 1 / 2]])

theorem tridiagDense_three (α β : Array ℝ) (hβ : β.size = 3) :
    ((tridiagDense (K := ℝ) α β).getD 0 #[]).getD 0 0 = tridiagEntry (K := ℝ) α β 0 0 ∧
    ((tridiagDense (K := ℝ) α β).getD 0 #[]).getD 1 0 = tridiagEntry (K := ℝ) α β 0 1 := by
  unfold tridiagDense
  rw [hβ]
  constructor <;> simp [Array.range, Array.getD_eq_getD_getElem?]

/-- **the contract `EighUnit` (hypothesis `eigh_contract_unit` of `C14_lanczos_eigs_unit`) is satisfiable on a
3 × 3 run**: `A = [[2,1,0],[1,2,1],[0,1,2]]`, `v = e₀`, `n = 3`, `max_iters = 5`, `tol = 0`; the run returns
`T = A` and `eigh3` returns its exact eigenpairs `2 - √2, 2, 2 + √2` with orthonormal eigenvectors -/
theorem ex3_eigh_unit :
    EighUnit (lanczosExact A3 3 #[exv3] 5 0).iters ((lanczosExact A3 3 #[exv3] 5 0).T 0)
      (eighOut eigh3 A3 3 5 exv3 0) := by
  obtain ⟨hk, hbs, _, _, _, hT, _⟩ := ex3_run
  have hs : Real.sqrt 2 * Real.sqrt 2 = 2 := Real.mul_self_sqrt (by norm_num)
  obtain ⟨d0, d1⟩ := tridiagDense_three ((lanczosExact A3 3 #[exv3] 5 0).alpha.getD 0 #[])
    ((lanczosExact A3 3 #[exv3] 5 0).beta.getD 0 #[]) hbs
  have he : eighOut eigh3 A3 3 5 exv3 0 =
      (#[2 - Real.sqrt 2 * 1, 2, 2 + Real.sqrt 2 * 1],
       #[#[1 / 2, -(Real.sqrt 2 / 2), 1 / 2], #[Real.sqrt 2 / 2, 0, -(Real.sqrt 2 / 2)],
         #[1 / 2, Real.sqrt 2 / 2, 1 / 2]]) := by
    unfold eighOut eigh3
    simp only [d0, d1]
    have a0 : tridiagEntry (K := ℝ) ((lanczosExact A3 3 #[exv3] 5 0).alpha.getD 0 #[])
        ((lanczosExact A3 3 #[exv3] 5 0).beta.getD 0 #[]) 0 0 = 2 := by
      have h := hT 0 0 (by omega) (by omega)
      rw [if_pos rfl] at h; exact h
    have a1 : tridiagEntry (K := ℝ) ((lanczosExact A3 3 #[exv3] 5 0).alpha.getD 0 #[])
        ((lanczosExact A3 3 #[exv3] 5 0).beta.getD 0 #[]) 0 1 = 1 := by
      have h := hT 0 1 (by omega) (by omega)
      rw [if_neg (by omega), if_pos (by omega)] at h; exact h
    rw [a0, a1]
  rw [he]
  have hk' : (lanczosExact A3 3 #[exv3] 5 0).iters = 3 := hk
  rw [hk']
  refine { size := rfl, pair := ?_, orthonormal := ?_ }
  · intro j a hj ha
    simp only [Finset.sum_range_succ, Finset.sum_range_zero, zero_add]
    rw [hT a 0 ha (by omega), hT a 1 ha (by omega), hT a 2 ha (by omega)]
    interval_cases j <;> interval_cases a <;> simp
    all_goals linarith [hs]
  · intro i j hi hj
    simp only [Finset.sum_range_succ, Finset.sum_range_zero, zero_add]
    interval_cases i <;> interval_cases j <;> simp
    all_goals linarith [hs]

end Lanczos
