/-
  C18 — the acceptance rule for the GENERATED table of in-place sites (Gen/InplaceSites.lean) and the
  explicit allow-list of the sites whose target is not locally allocated.

  A site of the library is accepted when the slice of its function obeys the write discipline
  (`writesOnlyFresh`: on every path the written object was allocated by cola itself — classes `fresh`,
  and `view-of` / `loop-carried` / `matmul-result` chains that end in `fresh` only), or when it is on
  the allow-list below WITH THE REASON why the write cannot reach a value the caller owns.  Entries are
  keyed by (file, function, written expression — for attribute stores including the attribute name): a new site, or an existing site whose target changes
  class (`Y = X` instead of `Y = zeros(...)`, `b *= mult`, ...), is not covered and `C18_sites` fails.
-/
import ColaVerif.Model.Heap

namespace ColaVerif.Heap

structure Allow where
  file : String
  func : String
  target : String
  reason : String

def allowList : List Allow := [
  { file := "backends/np_fns.py", func := "update_array", target := "array",
    reason := "the in-place primitive itself (`array[slices] = update`); every CALL of update_array is a site of its own in the table, with the provenance of the array passed" },
  { file := "ops/operator_base.py", func := "LinearOperator.__setattr__", target := "self.__class__._dynamic",
    reason := "the class-level attribute registry: written on the first assignment of a name per class, never revised; modelled by Model/Registry.lean (verdict_is_first, verdict_fixed) — its history dependence is the clause first-instance-representative" },
  { file := "annotations.py", func := "WrapMeta.__call__", target := "new_obj.annotations",
    reason := "`new_obj` is the copy made one line above by tree_unflatten(tree_flatten(obj)) (object.__new__ + setattr); `.annotations` is assigned a NEW set `obj.annotations | {self}`; obj is not touched" },
  { file := "ops/operators.py", func := "Identity.to", target := "self.device",
    reason := "`self.device = device`: Identity.to returns the receiver after storing the device; the NumPy backend has the single device None, so the store never changes the value (checked by the byte/attribute comparison of the correspondence)" },
  { file := "linalg/algorithm_base.py", func := "IterativeOperatorWInfo._matmat", target := "self.info",
    reason := "`self.info`: the log (iterations, residuals, timing) of the last iterative solve; not part of the represented matrix, the annotations, shape or dtype; `info` is static aux data of flatten" },
  { file := "linalg/unary/unary.py", func := "LanczosUnary._matmat", target := "self.kwargs",
    reason := "`self.kwargs.pop('start_vector')`: kwargs is the dict the constructor call built from `**alg.__dict__` (a fresh dict, not the caller's Algorithm object); the popped entry is never read (the start vector is the operand V)" },
  { file := "linalg/unary/unary.py", func := "ArnoldiUnary._matmat", target := "self.kwargs",
    reason := "as LanczosUnary._matmat: pop on the constructor-built kwargs dict" },
  { file := "linalg/unary/unary.py", func := "LanczosUnary._matmat", target := "self.info",
    reason := "`self.info.update(info)`: log of the last Lanczos run, created as `{}` by the constructor" },
  { file := "linalg/unary/unary.py", func := "ArnoldiUnary._matmat", target := "self.info",
    reason := "as LanczosUnary._matmat: log of the last Arnoldi run" },
  { file := "linalg/decompositions/lanczos.py", func := "do_gram", target := "new_vec",
    reason := "parameter of a private helper; its only caller chain is do_double_gram <- lanczos_fact.body_fun, which passes `new_vec`, the site lanczos.py lanczos_fact.body_fun `new_vec -= aux` of this table (matmul-result of a view of the loop-carried V allocated by init_lanczos: accepted by the discipline)" },
  { file := "linalg/inverse/gmres.py", func := "apply_givens_fwd", target := "vec",
    reason := "parameter of a private helper; its only caller gmres_fwd passes `e1`, allocated two lines earlier by xnp.zeros (site gmres.py gmres_fwd `e1` of this table)" },
  { file := "utils/torch_tqdm.py", func := "update_pbar", target := "info",
    reason := "progress-bar bookkeeping on the `info` dict created as `{}` inside while_loop_winfo (its only callers, newcond/new_while, pass that dict); reached only with pbar=True" },
  { file := "utils/torch_tqdm.py", func := "update_pbar", target := "info['progval']",
    reason := "as above" },
  { file := "utils/torch_tqdm.py", func := "update_pbar", target := "info['pbar']",
    reason := "as above (tqdm bar update)" }
]

def Site.allowed (s : Site) : Bool :=
  allowList.any (fun a => a.file == s.file && a.func == s.func && a.target == s.target)

/-- the acceptance rule -/
def Site.ok (s : Site) : Bool := s.allowed || writesOnlyFresh s.prog

/-- only library modules are in scope (see `Scope`); the other rows are listed for completeness -/
def Site.inScope (s : Site) : Bool := s.scope == Scope.library

/-- the provenance class printed in the table is consistent with the acceptance rule: whatever is
    classified `param` or `unknown` is rejected by the discipline (so it needs the allow-list) -/
def Site.classConsistent (s : Site) : Bool :=
  match s.cls with
  | .param | .unknown => !writesOnlyFresh s.prog
  | _ => writesOnlyFresh s.prog

end ColaVerif.Heap
