/-
  C18 — the acceptance rule for the GENERATED table of in-place sites (Gen/InplaceSites.lean).

  A site of the library is accepted when
  * the slice of its function obeys the write discipline (`writesOnlyFresh`: on every path the written
    object was allocated by cola itself — classes `fresh`, and `view-of` / `loop-carried` /
    `matmul-result` chains that end in `fresh` only), or
  * the scanner ESTABLISHED a reason by analysis and emitted it as data (`Site.reason`, see `Heap.Reason`):
    the programs / counts it carries are checked here (`Reason.holds`) — every caller-side slice of a
    private helper or of the backend primitive ends in `call [arg] …` and obeys the discipline, every
    store to an owned field stores a locally allocated object, a write-only attribute has 0 reads, or
  * it is listed below under a NAMED CLAUSE: a recorded defect, not an exemption by argument.

  Round 2: the former prose allow-list (14 entries) is gone.  12 of its rows now carry a checked reason,
  1 is accepted by the discipline itself (`WrapMeta.__call__`, whose `new_obj` the scanner now follows
  through `tree_unflatten` to `object.__new__`).  The 14th, `Identity.to` (`self.device = device`), had
  NO valid reason — `device` is read all over the library and the old prose reason ("the NumPy backend has
  the single device None, so the store never changes the value") was false:
  `Identity((4,4), float64).to('cpu')` changed the receiver's `device` from `None` to `'cpu'`.  It was the
  named clause `identity-to-mutates-receiver` until /repo commit aef9931 repaired it (`Identity.to` builds
  a new Identity; the store `out.device = device` goes to that fresh object and obeys the discipline).
  The clause list is EMPTY now: every library row is accepted by the discipline or by a checked reason
  (`C18_clause_rows`).
-/
import ColaVerif.Model.Heap

namespace ColaVerif.Heap

structure Allow where
  file : String
  func : String
  target : String
  reason : String

/-- rows accepted under a NAMED CLAUSE (a recorded / provisional finding of the check, reproduced by the
    harness on a concrete input), never by an argument in prose.  Empty since `Identity.to` was repaired
    (/repo aef9931). -/
def allowList : List Allow := []

/-- the row is one of the named-clause rows -/
def Site.byClause (s : Site) : Bool :=
  allowList.any (fun a => a.file == s.file && a.func == s.func && a.target == s.target)

/-- the emitted reason, CHECKED: programs obey the discipline, counts are zero -/
def Reason.holds : Reason → Bool
  | .none => false
  | .privateHelper cs => !cs.isEmpty && cs.all writesOnlyFresh
  | .primitive cs => !cs.isEmpty && cs.all writesOnlyFresh
  | .ownedField ds => !ds.isEmpty && ds.all writesOnlyFresh
  | .writeOnlyField n => n == 0
  | .classLevel => true

/-- the last instruction of a caller-side slice is the interprocedural edge -/
def endsInCall (p : Prog) : Bool :=
  match p.getLast? with
  | some (.call ws _ _) => !ws.isEmpty
  | _ => false

def endsInWrite (p : Prog) : Bool :=
  match p.getLast? with
  | some (.write _) => true
  | _ => false

/-- shape of the emitted programs: caller slices end in `call [arg] …`, field-definition slices in `write` -/
def Reason.wellFormed : Reason → Bool
  | .privateHelper cs => cs.all endsInCall
  | .primitive cs => cs.all endsInCall
  | .ownedField ds => ds.all endsInWrite
  | _ => true

/-- the row needs more than its own slice: a CHECKED reason, or the named clause -/
def Site.allowed (s : Site) : Bool := s.byClause || (s.reason.holds && s.reason.wellFormed)

/-- the acceptance rule -/
def Site.ok (s : Site) : Bool := s.allowed || writesOnlyFresh s.prog

/-- only library modules are in scope (see `Scope`); the other rows are listed for completeness -/
def Site.inScope (s : Site) : Bool := s.scope == Scope.library

/-- the provenance class printed in the table is consistent with the acceptance rule: whatever is
    classified `param` or `unknown` is rejected by the discipline (so it needs a checked reason) -/
def Site.classConsistent (s : Site) : Bool :=
  match s.cls with
  | .param | .unknown => !writesOnlyFresh s.prog
  | _ => writesOnlyFresh s.prog

/-- the programs a reason carries -/
def Reason.progs : Reason → List Prog
  | .privateHelper cs => cs
  | .primitive cs => cs
  | .ownedField ds => ds
  | _ => []

/-- a reason that holds carries only programs that obey the discipline -/
theorem reason_progs_fresh (r : Reason) (h : r.holds = true) : ∀ p ∈ r.progs, writesOnlyFresh p = true := by
  intro p hp
  cases r with
  | none => cases hp
  | privateHelper cs =>
    simp only [Reason.holds, Bool.and_eq_true, List.all_eq_true] at h
    exact h.2 p hp
  | primitive cs =>
    simp only [Reason.holds, Bool.and_eq_true, List.all_eq_true] at h
    exact h.2 p hp
  | ownedField ds =>
    simp only [Reason.holds, Bool.and_eq_true, List.all_eq_true] at h
    exact h.2 p hp
  | writeOnlyField n => cases hp
  | classLevel => cases hp

end ColaVerif.Heap
