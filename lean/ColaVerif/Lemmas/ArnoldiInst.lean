import Mathlib.Analysis.InnerProductSpace.Basic
import ColaVerif.Model.Arnoldi

/-!
# The exact instance of the law-free classes, and buffer-access lemmas

For `RCLike 𝕜` and an inner product space `E` over `𝕜` the operations of `Arnoldi.Num`,
`Arnoldi.VecOps` are interpreted by exact real / complex arithmetic.  All theorems about the
code models are about this instance.
-/

open scoped InnerProductSpace

namespace Arnoldi

variable {𝕜 E : Type} [RCLike 𝕜] [NormedAddCommGroup E] [InnerProductSpace 𝕜 E]

/-- exact scalars -/
noncomputable instance exactNum : Num 𝕜 where
  zero := 0
  one := 1
  add := (· + ·)
  sub := (· - ·)
  mul := (· * ·)
  div := (· / ·)
  conj := fun a => starRingEnd 𝕜 a
  re := fun a => ((RCLike.re a : ℝ) : 𝕜)
  sqrt := fun a => ((Real.sqrt (RCLike.re a) : ℝ) : 𝕜)
  abs := fun a => ((‖a‖ : ℝ) : 𝕜)
  lt := fun a b => decide (RCLike.re a < RCLike.re b)

/-- exact vectors: `dotc q w = ⟪q, w⟫` (conjugate-linear in `q`, like `sum(conj(q) * w)`) -/
noncomputable instance exactVec : VecOps 𝕜 E where
  zeroLike := fun _ => 0
  add := (· + ·)
  sub := (· - ·)
  smul := fun c v => c • v
  divs := fun v c => c⁻¹ • v
  dotc := fun q w => ⟪q, w⟫_𝕜
  norm := fun w => ((‖w‖ : ℝ) : 𝕜)

section scalars

@[simp] theorem num_zero : (Num.zero : 𝕜) = 0 := rfl
@[simp] theorem num_one : (Num.one : 𝕜) = 1 := rfl
@[simp] theorem num_add (a b : 𝕜) : Num.add a b = a + b := rfl
@[simp] theorem num_sub (a b : 𝕜) : Num.sub a b = a - b := rfl
@[simp] theorem num_mul (a b : 𝕜) : Num.mul a b = a * b := rfl
@[simp] theorem num_div (a b : 𝕜) : Num.div a b = a / b := rfl
@[simp] theorem num_conj (a : 𝕜) : Num.conj a = starRingEnd 𝕜 a := rfl
@[simp] theorem num_re (a : 𝕜) : Num.re a = ((RCLike.re a : ℝ) : 𝕜) := rfl
@[simp] theorem num_abs (a : 𝕜) : Num.abs a = ((‖a‖ : ℝ) : 𝕜) := rfl
@[simp] theorem num_lt (a b : 𝕜) : Num.lt a b = decide (RCLike.re a < RCLike.re b) := rfl

@[simp] theorem num_two : (Num.two : 𝕜) = 2 := by
  show (1 : 𝕜) + 1 = 2
  norm_num

@[simp] theorem num_ten : (Num.ten : 𝕜) = 10 := by
  show (Num.two : 𝕜) * (Num.two * Num.two) + Num.two = 10
  rw [num_two]; norm_num

/-- `np.maximum` on real scalars -/
theorem num_max_ofReal (x y : ℝ) : Num.max ((x : ℝ) : 𝕜) ((y : ℝ) : 𝕜) = ((max x y : ℝ) : 𝕜) := by
  unfold Num.max
  simp only [num_lt, RCLike.ofReal_re]
  by_cases h : x < y
  · simp [h, max_eq_right (le_of_lt h)]
  · simp [h, max_eq_left (not_lt.mp h)]

theorem num_half_tol (tol : ℝ) : Num.div ((tol : ℝ) : 𝕜) Num.two = (((tol / 2 : ℝ)) : 𝕜) := by
  rw [num_div, num_two]; push_cast; rfl

end scalars

section vectors

@[simp] theorem vec_zeroLike (v : E) : VecOps.zeroLike 𝕜 v = (0 : E) := rfl
@[simp] theorem vec_add (a b : E) : VecOps.add 𝕜 a b = a + b := rfl
@[simp] theorem vec_sub (a b : E) : VecOps.sub 𝕜 a b = a - b := rfl
@[simp] theorem vec_smul (c : 𝕜) (v : E) : VecOps.smul c v = c • v := rfl
@[simp] theorem vec_divs (c : 𝕜) (v : E) : VecOps.divs v c = c⁻¹ • v := rfl
@[simp] theorem vec_dotc (q w : E) : (VecOps.dotc q w : 𝕜) = ⟪q, w⟫_𝕜 := rfl
@[simp] theorem vec_norm (w : E) : (VecOps.norm w : 𝕜) = ((‖w‖ : ℝ) : 𝕜) := rfl

end vectors

/-! ### buffer access -/

theorem getD_setIfInBounds {β : Type} (a : Array β) (i j : Nat) (v d : β) :
    (a.setIfInBounds i v).getD j d = if i = j ∧ i < a.size then v else a.getD j d := by
  simp only [Array.getD_eq_getD_getElem?, Array.getElem?_setIfInBounds]
  by_cases h : i = j
  · subst h
    by_cases h2 : i < a.size
    · simp [h2]
    · simp [h2]
  · simp [h]

theorem getD_replicate {β : Type} (n j : Nat) (v : β) :
    (Array.replicate n v).getD j v = v := by
  simp only [Array.getD_eq_getD_getElem?, Array.getElem?_replicate]
  split <;> rfl

theorem getD_replicate' {β : Type} (n j : Nat) (v d : β) (h : j < n) :
    (Array.replicate n v).getD j d = v := by
  simp [Array.getD_eq_getD_getElem?, h]

theorem getD_ofFn {β : Type} (n j : Nat) (f : Fin n → β) (d : β) :
    (Array.ofFn f).getD j d = if h : j < n then f ⟨j, h⟩ else d := by
  simp only [Array.getD_eq_getD_getElem?, Array.getElem?_ofFn]
  split <;> rfl

end Arnoldi
