import ColaVerif.Lemmas.RngHutch
import Mathlib.Algebra.Field.Defs
import Mathlib.Algebra.CharZero.Defs
import Mathlib.Data.Fintype.BigOperators
import Mathlib.Data.Fintype.Pi
import Mathlib.Algebra.BigOperators.Field
import Mathlib.Tactic.FieldSimp

/-!
# C17 — unbiasedness of the Hutchinson estimator over a finite probability space

`Ex p f = Σ_ω p ω · f ω` on a finite sample space `Ω` with weights `p` (finite sums only).

* `est_expect` — if the probe column has second moments `E[z_j z_l] = δ_jl` then
  `E[estimator[t, c]] = np.diag(⟦A⟧, k)[t]`;
* `estSum_expect` — summed over `bs` columns (what the loop accumulates): `bs · diag_k`;
* `rademacher_moments` — the uniform measure on `{±1}ⁿ` has these second moments, for every `n`.
-/

open Finset

namespace ColaVerif.Hutch

variable {R : Type} {Ω : Type} [Fintype Ω]

/-- expectation on a finite sample space with weights `p` -/
def Ex [CommSemiring R] (p : Ω → R) (f : Ω → R) : R := ∑ ω, p ω * f ω

theorem Ex_sum [CommSemiring R] (p : Ω → R) (s : Finset ℕ) (f : ℕ → Ω → R) :
    Ex p (fun ω => ∑ q ∈ s, f q ω) = ∑ q ∈ s, Ex p (f q) := by
  unfold Ex
  simp_rw [Finset.mul_sum]
  exact Finset.sum_comm

theorem Ex_const_mul [CommSemiring R] (p : Ω → R) (a : R) (f : Ω → R) :
    Ex p (fun ω => a * f ω) = a * Ex p f := by
  unfold Ex
  rw [Finset.mul_sum]
  exact Finset.sum_congr rfl (fun ω _ => by ring)

/-- second moments of probe column `c`: `E[z_j z_l] = δ_jl` for `j, l < n` -/
def SecondMoments [CommSemiring R] (p : Ω → R) (n : Nat) (Z : Ω → MatF R) (c : Nat) : Prop :=
  ∀ j l, j < n → l < n → Ex p (fun ω => Z ω j c * Z ω l c) = if j = l then 1 else 0

/-- one probe column: the expectation of `estimator[t, c]` is the `t`-th entry of the `k`-th diagonal -/
theorem est_expect [CommSemiring R] (p : Ω → R) (n : Nat) (A : MatF R) (Z : Ω → MatF R) (k : Int)
    (hk : k.natAbs < n) (t c : Nat) (ht : t < n - k.natAbs) (hmom : SecondMoments p n Z c) :
    Ex p (fun ω => est n A (Z ω) k t c) = diagK A k t := by
  have h1 : (fun ω => est n A (Z ω) k t c)
      = fun ω => ∑ q ∈ range n, A (rowA k t) q * (Z ω q c * Z ω (rowZ k t) c) := by
    funext ω; exact est_sum_form n A (Z ω) k hk t c ht
  rw [h1, Ex_sum]
  have h2 : ∀ q ∈ range n, Ex p (fun ω => A (rowA k t) q * (Z ω q c * Z ω (rowZ k t) c))
      = A (rowA k t) q * (if q = rowZ k t then 1 else 0) := by
    intro q hq
    rw [Ex_const_mul, hmom q (rowZ k t) (Finset.mem_range.mp hq) (rowZ_lt n k t ht)]
  rw [Finset.sum_congr rfl h2]
  simp only [mul_ite, mul_one, mul_zero]
  rw [Finset.sum_ite_eq' (range n) (rowZ k t)]
  rw [if_pos (Finset.mem_range.mpr (rowZ_lt n k t ht)), diagK_eq]

/-- what one loop iteration adds to `diag_sum[t]` has expectation `bs · diag_k[t]` -/
theorem estSum_expect [CommSemiring R] (p : Ω → R) (n bs : Nat) (A : MatF R) (Z : Ω → MatF R) (k : Int)
    (hk : k.natAbs < n) (t : Nat) (ht : t < n - k.natAbs) (hmom : ∀ c, c < bs → SecondMoments p n Z c) :
    Ex p (fun ω => estSum n bs A (Z ω) k t) = (bs : R) * diagK A k t := by
  have h1 : (fun ω => estSum n bs A (Z ω) k t) = fun ω => ∑ c ∈ range bs, est n A (Z ω) k t c := by
    funext ω; simp [estSum, sumTo_eq]
  rw [h1, Ex_sum]
  rw [Finset.sum_congr rfl (fun c hc => est_expect p n A Z k hk t c ht (hmom c (Finset.mem_range.mp hc)))]
  simp

/-! ## Rademacher probes: the uniform measure on `{±1}ⁿ` -/

/-- the probe vector of a sign pattern (`true ↦ 1`, `false ↦ -1`), every column the same pattern
(one column is all the per-column statement needs) -/
def radZ [Ring R] (n : Nat) (ω : Fin n → Bool) : MatF R :=
  fun j _ => if h : j < n then (if ω ⟨j, h⟩ then 1 else -1) else 0

/-- uniform weights -/
def uniform [DivisionRing R] (Ω : Type) [Fintype Ω] : Ω → R := fun _ => ((Fintype.card Ω : ℕ) : R)⁻¹

theorem uniform_total [DivisionRing R] [CharZero R] (Ω : Type) [Fintype Ω] [Nonempty Ω] :
    ∑ ω : Ω, uniform (R := R) Ω ω = 1 := by
  unfold uniform
  rw [Finset.sum_const, Finset.card_univ, nsmul_eq_mul]
  exact mul_inv_cancel₀ (Nat.cast_ne_zero.mpr Fintype.card_ne_zero)

theorem radZ_sq [Ring R] (n : Nat) (ω : Fin n → Bool) (j c : Nat) (hj : j < n) :
    radZ (R := R) n ω j c * radZ n ω j c = 1 := by
  unfold radZ
  rw [dif_pos hj]
  split <;> simp

/-- flipping coordinate `j` -/
def flip (n : Nat) (j : Fin n) (ω : Fin n → Bool) : Fin n → Bool := Function.update ω j (!ω j)

theorem flip_invol (n : Nat) (j : Fin n) : Function.Involutive (flip n j) := by
  intro ω
  funext i
  unfold flip
  by_cases h : i = j
  · subst h; simp
  · simp [Function.update_of_ne h]

theorem radZ_flip_self [Ring R] (n : Nat) (j : Fin n) (ω : Fin n → Bool) (c : Nat) :
    radZ (R := R) n (flip n j ω) j c = - radZ n ω j c := by
  unfold radZ flip
  rw [dif_pos j.isLt, dif_pos j.isLt]
  simp only [Fin.eta, Function.update_self]
  cases ω j <;> simp

theorem radZ_flip_other [Ring R] (n : Nat) (j : Fin n) (ω : Fin n → Bool) (l c : Nat) (hl : l < n)
    (hne : l ≠ j.val) : radZ (R := R) n (flip n j ω) l c = radZ n ω l c := by
  unfold radZ flip
  rw [dif_pos hl, dif_pos hl]
  have : (⟨l, hl⟩ : Fin n) ≠ j := fun h => hne (by rw [← h])
  rw [Function.update_of_ne this]

/-- the uniform measure on `{±1}ⁿ` has `E[z_j z_l] = δ_jl`, for every `n` -/
theorem rademacher_moments [Field R] [CharZero R] (n : Nat) (c : Nat) :
    SecondMoments (uniform (R := R) (Fin n → Bool)) n (fun ω => radZ n ω) c := by
  intro j l hj hl
  by_cases hjl : j = l
  · subst hjl
    rw [if_pos rfl]
    unfold Ex
    simp_rw [radZ_sq n _ j c hj, mul_one]
    exact uniform_total _
  · rw [if_neg hjl]
    unfold Ex
    set f : (Fin n → Bool) → R := fun ω => uniform (R := R) (Fin n → Bool) ω * (radZ n ω j c * radZ n ω l c) with hf
    have hflip : ∀ ω, f (flip n ⟨j, hj⟩ ω) = - f ω := by
      intro ω
      simp only [hf, uniform]
      rw [radZ_flip_self n ⟨j, hj⟩ ω c, radZ_flip_other n ⟨j, hj⟩ ω l c hl (fun h => hjl h.symm)]
      ring
    have hsum : ∑ ω, f ω = ∑ ω, f (flip n ⟨j, hj⟩ ω) :=
      (Equiv.sum_comp (flip_invol n ⟨j, hj⟩).toPerm f).symm
    simp_rw [hflip, Finset.sum_neg_distrib] at hsum
    have h2 : (2 : R) * ∑ ω, f ω = 0 := by
      rw [two_mul]; nth_rewrite 1 [hsum]; exact neg_add_cancel _
    rcases mul_eq_zero.mp h2 with h | h
    · exact absurd h (by exact_mod_cast (Nat.cast_ne_zero (R := R)).mpr (by norm_num : (2 : ℕ) ≠ 0))
    · exact h

end ColaVerif.Hutch
