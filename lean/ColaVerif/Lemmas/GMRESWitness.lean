import ColaVerif.Lemmas.GMRESModel
import ColaVerif.Lemmas.ArnoldiWitness

/-!
# `gmres` for one right-hand side, and the witness for defect (b)

Witness: `E = ℂ ≅ ℝ²`, `A = shear : x + iy ↦ (x + 2y) + iy` (the matrix `[[1,2],[0,1]]`, invertible),
`b = i = e₂`, `x₀ = 0`, `max_iters = 1`, `tol = 1/100`.  Arnoldi: `q₀ = i`, `A q₀ = 2 + i`, `h₀₀ = 1`,
`w = 2`, `h₁₀ = 2`.  The code (last row dropped) solves `h₀₀ y = β`, `y = 1`, `x = i`, residual
`b − A x = −2`: norm `2 > 1 = ‖b − A x₀‖`, whereas `x = i/5` has residual norm `√(4/5) < 1`.
-/

open scoped InnerProductSpace
open Finset Arnoldi

namespace GMRES

variable {𝕜 E : Type} [RCLike 𝕜] [NormedAddCommGroup E] [InnerProductSpace 𝕜 E]

/-- `gmres_fwd` for a single right-hand side, in terms of the Arnoldi buffers -/
theorem gmresCore_single (solve : Array (Array 𝕜) → Array 𝕜 → Array 𝕜) (drop : Bool)
    (A : E →ₗ[𝕜] E) (n M : Nat) (tol : ℝ) (b x0 : E) :
    (gmresCore solve drop (⇑A) n M ((tol : ℝ) : 𝕜) [b] [x0]).soln =
      [x0 + combine M (colAt A M tol (b - A x0) (runE A n M tol [b - A x0]).idx)
        (coeffs solve drop M ((tol : ℝ) : 𝕜) ((‖b - A x0‖ : ℝ) : 𝕜)
          (colAt A M tol (b - A x0) (runE A n M tol [b - A x0]).idx))] ∧
    (gmresCore solve drop (⇑A) n M ((tol : ℝ) : 𝕜) [b] [x0]).products =
      1 + (runE A n M tol [b - A x0]).idx := by
  have hc := (run_spec (⇑A) n M ((tol : ℝ) : 𝕜) [b - A x0]).1
  unfold gmresCore
  simp only [List.zipWith_cons_cons, List.zipWith_nil_right, vec_sub, List.map_cons, List.map_nil,
    vec_norm]
  rw [hc]
  simp only [List.map_cons, List.map_nil, List.zipWith_cons_cons, List.zipWith_nil_right, vec_add]
  constructor <;> trivial

/-- products with the operator per column: the residual plus at most `min max_iters n` steps -/
theorem gmresCore_products (solve : Array (Array 𝕜) → Array 𝕜 → Array 𝕜) (drop : Bool)
    (A : E → E) (n M : Nat) (tol : 𝕜) (bs x0s : List E) :
    (gmresCore solve drop A n M tol bs x0s).products ≤ 1 + min M n := by
  unfold gmresCore
  simp only
  have := (run_spec A n M tol (List.zipWith (fun b x => VecOps.sub 𝕜 b (A x)) bs x0s)).2.1
  omega

/-! ### the witness -/

/-- `x + iy ↦ (x + 2y) + iy`: the matrix `[[1,2],[0,1]]` on `ℂ ≅ ℝ²` -/
noncomputable def shear : ℂ →ₗ[ℝ] ℂ :=
  LinearMap.id + (2 : ℝ) • ((Algebra.linearMap ℝ ℂ).comp Complex.imLm)

theorem shear_apply (z : ℂ) : shear z = z + ((2 * z.im : ℝ) : ℂ) := by
  simp [shear]

theorem w1_shear : w1 (𝕜 := ℝ) shear Complex.I = 2 := by
  unfold w1
  simp [shear_apply, Complex.inner]

theorem h00_shear (tol : ℝ) : (colAt shear 1 tol Complex.I 1).h 0 0 = 1 := by
  rw [colAt_one_h _ _ _ _ (le_refl _), if_pos rfl, if_neg (by norm_num), if_pos rfl]
  simp [shear_apply, Complex.inner]

theorem h10_shear (tol : ℝ) : (colAt shear 1 tol Complex.I 1).h 1 0 = 2 := by
  rw [colAt_one_h _ _ _ _ (le_refl _), if_pos rfl, if_pos rfl, w1_shear]
  simp

theorem idx_shear (tol : ℝ) : (runE shear 2 1 tol [Complex.I]).idx = 1 := by
  have h1 := run_idx_pos shear 2 1 (by norm_num) (le_refl _) tol Complex.I
  have h2 := (run_spec (⇑shear) 2 1 (RCLike.ofReal tol : ℝ) [Complex.I]).2.1
  have h3 : (runE shear 2 1 tol [Complex.I]).idx ≤ 1 := le_trans h2 (by norm_num)
  omega

/-- the padding mask of the witness is empty: `|h₀₀| = 1 ≥ 10 · tol · 1` for `tol = 1/100` -/
theorem mask_shear : MaskExact true 1 (1 / 100) 1 (colAt shear 1 (1 / 100) Complex.I 1) := by
  intro j hj
  have hj0 : j = 0 := by omega
  subst hj0
  constructor
  · intro h
    exfalso
    unfold padding largestVals at h
    simp only [Array.getD_eq_getD_getElem?] at h
    simp [maxRange, Num.max, h00_shear] at h
    norm_num at h
  · intro h; omega

/-- the column-wise mask of the repaired variant is empty as well: `max(|h₀₀|, |h₁₀|) = 2` -/
theorem mask_shear_kept : MaskExact false 1 (1 / 100) 1 (colAt shear 1 (1 / 100) Complex.I 1) := by
  intro j hj
  have hj0 : j = 0 := by omega
  subst hj0
  constructor
  · intro h
    exfalso
    unfold padding largestVals at h
    simp only [Array.getD_eq_getD_getElem?] at h
    have hr : List.range 2 = [0, 1] := rfl
    simp [maxRange, Num.max, hr, h00_shear, h10_shear] at h
    norm_num at h
  · intro h; omega

theorem C13_witness (solve : Array (Array ℝ) → Array ℝ → Array ℝ)
    (hsolve : SolvesSystem 1
      (normalMatrix true 1 (padding true 1 (RCLike.ofReal (1 / 100 : ℝ) : ℝ)
        (colAt shear 1 (1 / 100) Complex.I 1)) (colAt shear 1 (1 / 100) Complex.I 1))
      (normalRhs 1 (colAt shear 1 (1 / 100) Complex.I 1))
      (solve (normalMatrix true 1 (padding true 1 (RCLike.ofReal (1 / 100 : ℝ) : ℝ)
        (colAt shear 1 (1 / 100) Complex.I 1)) (colAt shear 1 (1 / 100) Complex.I 1))
        (normalRhs 1 (colAt shear 1 (1 / 100) Complex.I 1)))) :
    ∃ x : ℂ, (gmresCore solve true (⇑shear) 2 1 (RCLike.ofReal (1 / 100 : ℝ) : ℝ) [Complex.I] [0]).soln = [x] ∧
      ‖Complex.I - shear x‖ = 2 ∧ ‖Complex.I - shear 0‖ = 1 ∧
      ‖Complex.I - shear ((1 / 5 : ℝ) • Complex.I)‖ < 1 := by
  have hr0 : Complex.I - shear 0 = Complex.I := by simp
  have hsingle := (gmresCore_single solve true shear 2 1 (1 / 100) Complex.I 0).1
  rw [hr0, idx_shear] at hsingle
  refine ⟨_, hsingle, ?_, ?_, ?_⟩
  · have hI : (Complex.I : ℂ) ≠ 0 := Complex.I_ne_zero
    have hun : ∀ i, i < 1 → (1 / 100 : ℝ) / 2 ≤ (colAt shear 1 (1 / 100) Complex.I 1).beta i := by
      intro i hi
      have : i = 0 := by omega
      subst this
      unfold Col.beta
      rw [h10_shear]; norm_num
    have hinj : ∀ z : Nat → ℝ,
        (∀ a, a < 1 → ∑ r ∈ range 1,
          (starRingEnd ℝ) ((colAt shear 1 (1 / 100) Complex.I 1).h r a) * z r = 0) →
          ∀ r, r < 1 → z r = 0 := by
      intro z hz r hr
      have : r = 0 := by omega
      subst this
      have := hz 0 (by norm_num)
      simpa [h00_shear] using this
    have hg := dropped_row_galerkin (A := shear) (M := 1) (tol := 1 / 100) (r0 := Complex.I) (s := 1)
      (solve := solve) (by norm_num) hI (by norm_num) rfl hun mask_shear hsolve hinj Complex.I 0 hr0
    have hfom := dropped_row_fom_equations (A := shear) (M := 1) (tol := 1 / 100) (r0 := Complex.I)
      (s := 1) (solve := solve) (by norm_num) hI (le_refl _) (by norm_num) (Or.inl rfl) mask_shear hsolve
      hinj 0 (by norm_num)
    -- y₀ = β / h₀₀ = 1
    have hy : yOf 1 (1 / 100) Complex.I solve true (colAt shear 1 (1 / 100) Complex.I 1) 0 = 1 := by
      unfold resCoef at hfom
      simp [h00_shear] at hfom
      linarith
    rw [hg.2.2, h10_shear, hy]
    norm_num
  · rw [hr0]; simp
  · rw [shear_apply]
    have : Complex.I - ((1 / 5 : ℝ) • Complex.I + ((2 * ((1 / 5 : ℝ) • Complex.I).im : ℝ) : ℂ)) =
        ((-2 / 5 : ℝ) : ℂ) + ((4 / 5 : ℝ) : ℂ) * Complex.I := by
      apply Complex.ext <;> simp <;> norm_num
    rw [this, Complex.norm_add_mul_I]
    rw [Real.sqrt_lt' (by norm_num)]
    norm_num

/-! ### witness for the clause `maskExact`: `n = 1`, `A = [2]`, `b = [1]`, `tol = 1/5` -/

/-- `x ↦ 2x` on `ℝ` -/
noncomputable def dbl : ℝ →ₗ[ℝ] ℝ := (2 : ℝ) • LinearMap.id

theorem dbl_apply (x : ℝ) : dbl x = 2 * x := by simp [dbl]

theorem h00_dbl (tol : ℝ) : (colAt dbl 1 tol (1 : ℝ) 1).h 0 0 = 2 := by
  rw [colAt_one_h _ _ _ _ (le_refl _), if_pos rfl, if_neg (by norm_num), if_pos rfl]
  simp [dbl_apply]

theorem h10_dbl (tol : ℝ) : (colAt dbl 1 tol (1 : ℝ) 1).h 1 0 = 0 := by
  rw [colAt_one_h _ _ _ _ (le_refl _), if_pos rfl, if_pos rfl]
  unfold w1
  simp [dbl_apply]

theorem idx_dbl (tol : ℝ) : (runE dbl 1 1 tol [(1 : ℝ)]).idx = 1 := by
  have h1 := run_idx_pos dbl 1 1 (le_refl _) (le_refl _) tol (1 : ℝ)
  have h2 := (run_spec (⇑dbl) 1 1 (RCLike.ofReal tol : ℝ) [(1 : ℝ)]).2.1
  have h3 : (runE dbl 1 1 tol [(1 : ℝ)]).idx ≤ 1 := le_trans h2 (by norm_num)
  omega

/-- with `tol = 1/5` the mask hits the only (executed) step: `|h₀₀| = 2 < 10 · tol · 2 = 4` -/
theorem pad_dbl (drop : Bool) :
    (padding drop 1 (RCLike.ofReal (1 / 5 : ℝ) : ℝ) (colAt dbl 1 (1 / 5) (1 : ℝ) 1)).getD 0 false = true := by
  have hr : List.range 2 = [0, 1] := rfl
  cases drop
  · unfold padding largestVals
    simp only [Array.getD_eq_getD_getElem?]
    simp [maxRange, Num.max, hr, h00_dbl, h10_dbl]
    norm_num
  · unfold padding largestVals
    simp only [Array.getD_eq_getD_getElem?]
    simp [maxRange, Num.max, h00_dbl]
    norm_num

/-- clause `maskExact` is needed: whatever the solver returns, the model (either switch) returns
`x = x₀ = 0` for the `1 × 1` system `2 x = 1` with `tol = 1/5`: residual `1`, while `x = 1/2 ∈ x₀ + K₁`
has residual `0` -/
theorem mask_witness (solve : Array (Array ℝ) → Array ℝ → Array ℝ) (drop : Bool) :
    (gmresCore solve drop (⇑dbl) 1 1 (RCLike.ofReal (1 / 5 : ℝ) : ℝ) [(1 : ℝ)] [0]).soln = [0] ∧
    ‖(1 : ℝ) - dbl 0‖ = 1 ∧ ‖(1 : ℝ) - dbl ((1 / 2 : ℝ) • (1 : ℝ))‖ = 0 ∧
    ¬ MaskExact drop 1 (1 / 5) 1 (colAt dbl 1 (1 / 5) (1 : ℝ) 1) := by
  have hr0 : (1 : ℝ) - dbl 0 = 1 := by simp
  have hs := (gmresCore_single solve drop dbl 1 1 (1 / 5) (1 : ℝ) 0).1
  rw [hr0, idx_dbl] at hs
  refine ⟨?_, by rw [hr0]; simp, by rw [dbl_apply]; norm_num, ?_⟩
  · rw [hs]
    have hz : (colAt dbl 1 (1 / 5) (1 : ℝ) 1).z = 0 :=
      (inv_colAfter dbl 1 (1 : ℝ) (1 / 5) one_ne_zero (by norm_num) 1 (le_refl _)).z0
    rw [combine_eq 1 _ _ hz, sum_range_one, coeffs_get, if_pos (by norm_num), if_pos (pad_dbl drop)]
    simp
  · intro hm
    have := (hm 0 (by norm_num)).mp (pad_dbl drop)
    omega

end GMRES
