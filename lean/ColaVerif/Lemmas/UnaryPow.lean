import ColaVerif.Lemmas.UnaryTree
import ColaVerif.Lemmas.ExprSound
import Mathlib.Tactic.NormNum
import Mathlib.Tactic.Positivity

/-!
# C09 — `pow`'s shortcuts: the decision function on the exponents of the property, and
"integer powers equal repeated multiplication" for the operator `reduce(@, [A] * k)` builds
-/

set_option linter.unusedSectionVars false

open Matrix MatFun

namespace Unary

/-! ## the decision `powPlan` on the exponents of the property -/

theorem roundHalfEven_int (z : Int) : roundHalfEven (z : Rat) = z := by
  unfold roundHalfEven
  simp

theorem isclose_self (a : Rat) : isclose a a = true := by
  unfold isclose
  simp only [sub_self, abs_zero, decide_eq_true_eq]
  positivity

/-- on an integer exponent the decision is: `0 → I`, `1 … 9 → repeated product`, `−1 → inverse`,
everything else (`10`, `−2`, …) the generic rule -/
theorem powPlan_int (z : Int) : powPlan (z : Rat) =
    if z = 0 then .identity else if 0 < z ∧ z < 10 then .product z.toNat
    else if z = -1 then .inverse else .generic := by
  unfold powPlan
  simp only [roundHalfEven_int, isclose_self, if_true]

theorem powPlan_zero : powPlan 0 = .identity := by
  have := powPlan_int 0
  simpa using this
theorem powPlan_one : powPlan 1 = .product 1 := by
  have := powPlan_int 1
  simpa using this
theorem powPlan_two : powPlan 2 = .product 2 := by
  have := powPlan_int 2
  simpa using this
theorem powPlan_three : powPlan 3 = .product 3 := by
  have := powPlan_int 3
  simpa using this
theorem powPlan_nine : powPlan 9 = .product 9 := by
  have := powPlan_int 9
  simpa using this
theorem powPlan_ten : powPlan 10 = .generic := by
  have := powPlan_int 10
  simpa using this
theorem powPlan_neg_one : powPlan (-1) = .inverse := by
  have := powPlan_int (-1)
  simpa using this
theorem powPlan_neg_two : powPlan (-2) = .generic := by
  have := powPlan_int (-2)
  simpa using this

theorem floor_half : ⌊(1 / 2 : ℚ)⌋ = 0 := by rw [Int.floor_eq_iff]; norm_num
theorem floor_neg_half : ⌊(-1 / 2 : ℚ)⌋ = -1 := by rw [Int.floor_eq_iff]; norm_num
theorem floor_five_halves : ⌊(5 / 2 : ℚ)⌋ = 2 := by rw [Int.floor_eq_iff]; norm_num

theorem powPlan_half : powPlan (1 / 2) = .generic := by
  simp only [powPlan, roundHalfEven, isclose, floor_half]
  norm_num
theorem powPlan_neg_half : powPlan (-1 / 2) = .generic := by
  simp only [powPlan, roundHalfEven, isclose, floor_neg_half]
  norm_num
theorem powPlan_five_halves : powPlan (5 / 2) = .generic := by
  simp only [powPlan, roundHalfEven, isclose, floor_five_halves]
  norm_num

/-- every natural `0 < k < 10` takes the repeated-product shortcut with exactly `k` members, no
other natural number does (`k = 10` is the first that goes to the eigendecomposition) -/
theorem powPlan_nat (k : Nat) : powPlan (k : Rat) =
    if k = 0 then .identity else if k < 10 then .product k else .generic := by
  have h := powPlan_int (k : Int)
  simp only [Int.cast_natCast] at h
  rw [h]
  by_cases h0 : k = 0
  · simp [h0]
  · by_cases h10 : k < 10
    · have : (0 : Int) < k ∧ (k : Int) < 10 := by omega
      simp [h0, h10, this]
    · have : ¬ ((0 : Int) < k ∧ (k : Int) < 10) := by omega
      have hne : ¬ ((k : Int) = -1) := by omega
      simp [h0, h10, hne]

/-! ## repeated products -/

variable {𝕜 : Type} [Field 𝕜] [StarRing 𝕜] [DecidableEq 𝕜]

/-- `a ^ k` on entry functions (inner dimension `n`) -/
def powM (n : Nat) (a : MatF 𝕜) : Nat → MatF 𝕜
  | 0 => eyeM
  | k + 1 => mmul n (powM n a k) a

theorem toMatrix_powM (n : Nat) (a : MatF 𝕜) (k : Nat) :
    MatF.toMatrix n n (powM n a k) = (MatF.toMatrix n n a) ^ k := by
  induction k with
  | zero => simp [powM, MatF.toMatrix_eyeM]
  | succ k ih => rw [powM, MatF.toMatrix_mmul, ih, pow_succ]

/-- **integer powers equal repeated multiplication**: the operator `A @ … @ A` (`k` members, built
through `cola.fns.dot`: identities dropped, nested products flattened) represents `A ^ k`.
`hH`: the products built on the way are Hermitian where they report `SelfAdjoint` (C05). -/
theorem powProduct_rep (A : Op 𝕜) (hg : Op.Good A) (hsq : A.cols = A.rows)
    (hH : ∀ j B, powProduct A j = .ok B → Op.HermNode B) :
    ∀ (k : Nat) (B : Op 𝕜), 0 < k → powProduct A k = .ok B →
      B.Rep A.rows A.rows (powM A.rows A.den.f k) ∧ Op.Good B := by
  intro k
  induction k with
  | zero => intro B hk; omega
  | succ k ih =>
    intro B _ h
    cases k with
    | zero =>
      simp only [powProduct] at h
      injection h with h
      subst h
      refine ⟨⟨rfl, hsq, ?_⟩, hg⟩
      simp only [powM]
      exact (eqOn_mmul_eyeM_left _ _ _).symm
    | succ k =>
      simp only [powProduct] at h
      cases hP : powProduct A (k + 1) with
      | error e => rw [hP] at h; simp [bind, Except.bind] at h
      | ok Pk =>
        rw [hP] at h
        simp only [bind, Except.bind] at h
        cases hv : Ex.dotRule Pk A with
        | error e => rw [hv] at h; simp at h
        | ok v =>
          rw [hv] at h
          simp only at h
          obtain ⟨hrep, hgP⟩ := ih Pk (by omega) hP
          obtain ⟨hr, hc, hden⟩ := hrep
          cases v with
          | arr dt r c a => simp at h
          | op B' =>
            simp only at h
            injection h with h
            subst h
            have hHB : (Val.op B' : Val 𝕜).HermTop := hH (k + 2) B' (by
              simp only [powProduct, hP, bind, Except.bind, hv])
            obtain ⟨_, Q, hQ, hQrep, hQg⟩ := ExprSound.dotRule_sound Pk A _ hgP hg hv hHB
            injection hQ with hQ
            subst hQ
            refine ⟨?_, hQg⟩
            obtain ⟨q1, q2, q3⟩ := hQrep
            refine ⟨q1.trans hr, q2.trans hsq, ?_⟩
            rw [hr, hsq] at q3
            refine q3.trans ?_
            rw [hc]
            simp only [powM]
            exact mmul_congr hden (EqOn.refl _ _ _)

end Unary
