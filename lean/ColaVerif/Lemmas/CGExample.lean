import ColaVerif.Lemmas.CGBridge

/-!
# Concrete instances: the hypotheses of the C12 theorems are satisfiable

`exA = diag(2, 3)` (real, 2 × 2), `exb = e₀`, `x0 = 0`, no preconditioner, `max_iters = 1`.
-/

namespace CG

open scoped InnerProductSpace ComplexConjugate ComplexOrder
open WithLp

attribute [local instance] rcOps

section generic
variable {𝕜 E : Type*} [RCLike 𝕜] [NormedAddCommGroup E] [InnerProductSpace 𝕜 E]

/-- the guards of the first step, for a unit right-hand side and `x0 = 0` -/
theorem guardsOffN_one {A M : E →ₗ[𝕜] E} {ε : ℝ} {b : E} (hb : ‖b‖ = 1) (hε : ε ≤ 1)
    (hγ : ε ≤ ‖⟪b, M b⟫_𝕜‖) (hd : ε ≤ ‖⟪M b, A (M b)⟫_𝕜‖) : GuardsOffN A M ε b 0 1 := by
  intro i hi
  have hi0 : i = 0 := by omega
  subst hi0
  have h1 : (((‖b‖ : ℝ) : 𝕜))⁻¹ • b = b := by rw [hb]; simp
  have h2 : (((‖b‖ : ℝ) : 𝕜))⁻¹ • (0 : E) = 0 := smul_zero _
  unfold GuardsOff
  rw [h1, h2]
  show ε ≤ ‖b - A 0‖ ∧ ε ≤ ‖⟪b - A 0, M (b - A 0)⟫_𝕜‖ ∧
    ε ≤ ‖⟪M (b - A 0), A (M (b - A 0))⟫_𝕜‖
  rw [map_zero, sub_zero]
  exact ⟨by rw [hb]; exact hε, hγ, hd⟩

theorem guardsOffN_mono {A M : E →ₗ[𝕜] E} {ε : ℝ} {b x0 : E} {k l : ℕ} (h : k ≤ l)
    (hg : GuardsOffN A M ε b x0 l) : GuardsOffN A M ε b x0 k :=
  fun i hi => hg i (lt_of_lt_of_le hi h)

end generic

/-- `diag(2, 3)` -/
def exA : Matrix (Fin 2) (Fin 2) ℝ := Matrix.diagonal ![2, 3]

/-- `e₀` -/
noncomputable def exb : EuclideanSpace ℝ (Fin 2) := EuclideanSpace.single 0 1

theorem exA_posDef : exA.PosDef := by
  unfold exA
  rw [Matrix.posDef_diagonal_iff]
  intro i
  fin_cases i <;> simp

theorem exb_norm : ‖exb‖ = 1 := by
  unfold exb; simp

theorem smallR_le_one : smallR ≤ 1 := by
  unfold smallR
  rw [div_le_one (by positivity)]
  norm_num

theorem exA_apply_exb : Matrix.toEuclideanLin exA exb = (2 : ℝ) • exb := by
  apply ofLp_injective 2
  funext i
  unfold exA exb
  fin_cases i <;> simp [Matrix.toLpLin_apply]

theorem ex_guards (k : ℕ) (hk : k ≤ 1) :
    GuardsOffN (Matrix.toEuclideanLin exA) (precLin (none : Option (Matrix (Fin 2) (Fin 2) ℝ)))
      smallR exb 0 k := by
  refine guardsOffN_mono hk (guardsOffN_one exb_norm smallR_le_one ?_ ?_)
  · show smallR ≤ ‖⟪exb, exb⟫_ℝ‖
    rw [real_inner_self_eq_norm_sq, exb_norm]
    simpa using smallR_le_one
  · show smallR ≤ ‖⟪exb, Matrix.toEuclideanLin exA exb⟫_ℝ‖
    rw [exA_apply_exb, inner_smul_right, real_inner_self_eq_norm_sq, exb_norm]
    have := smallR_le_one
    norm_num
    linarith

/-- the exact solution of the example system -/
noncomputable def exxs : EuclideanSpace ℝ (Fin 2) := (2 : ℝ)⁻¹ • exb

theorem exxs_solves : Matrix.toEuclideanLin exA exxs = exb := by
  unfold exxs
  rw [map_smul, exA_apply_exb, smul_smul]
  norm_num

end CG
