import ColaVerif.Lemmas.AnnotSound
import ColaVerif.Lemmas.OpAlgebra
import Mathlib.Analysis.Complex.Basic

/-!
# `RealTyped` gives the `GramTransposeReal` clause of C05

(moved out of `Properties/C05.lean` so that lemma files — `Lemmas/ExprHerm.lean` — can use it)
-/

open scoped ComplexOrder

/-! ## glue: `RealTyped` gives the `GramTransposeReal` clause -/

namespace Op
variable {𝕜 : Type} [RCLike 𝕜] [DecidableEq 𝕜]

omit [RCLike 𝕜] in
theorem gramViaTranspose_real {A1 A2 : Op 𝕜} (h : gramViaTranspose [A1, A2] = true) :
    A1.dtype.isComplex = false := by
  simp only [gramViaTranspose, gramB, Bool.and_eq_true, Bool.or_eq_true, Bool.not_eq_true'] at h
  rcases h.1.2 with h1 | h1
  · exact h1
  · rcases h.2 with h2 | h2
    · simp [h2] at h1
    · simp [h2] at h1

theorem gramTransposeReal_of_realTyped : ∀ (A : Op 𝕜), A.RealTyped → A.wf = true →
    A.GramTransposeReal
  | dense .., _, _ => by simp only [GramTransposeReal]
  | tri .., _, _ => by simp only [GramTransposeReal]
  | sparse .., _, _ => by simp only [GramTransposeReal]
  | scalar .., _, _ => by simp only [GramTransposeReal]
  | eye .., _, _ => by simp only [GramTransposeReal]
  | diag .., _, _ => by simp only [GramTransposeReal]
  | tridiag .., _, _ => by simp only [GramTransposeReal]
  | perm .., _, _ => by simp only [GramTransposeReal]
  | house .., _, _ => by simp only [GramTransposeReal]
  | prod Ms, hr, hw => by
    simp only [RealTyped] at hr
    simp only [Op.wf, Bool.and_eq_true] at hw
    simp only [GramTransposeReal]
    refine ⟨?_, fun M hM => gramTransposeReal_of_realTyped M (hr M hM) (wf_members hw.1.2 M hM)⟩
    intro hg A1 hA1
    match Ms, hg, hA1 with
    | [B1, B2], hg, hA1 =>
      simp only [List.head?_cons, Option.mem_def, Option.some.injEq] at hA1
      subst hA1
      have hd := gramViaTranspose_real hg
      exact den_star_fixed B1 (hr B1 List.mem_cons_self)
        (wf_members hw.1.2 B1 List.mem_cons_self) (by simp [hd])
  | sum Ms, hr, hw => by
    simp only [RealTyped] at hr
    simp only [Op.wf, Bool.and_eq_true] at hw
    simp only [GramTransposeReal]
    exact fun M hM => gramTransposeReal_of_realTyped M (hr M hM) (wf_members hw.1.2 M hM)
  | kron Ms, hr, hw => by
    simp only [RealTyped] at hr
    simp only [Op.wf, Bool.and_eq_true] at hw
    simp only [GramTransposeReal]
    exact fun M hM => gramTransposeReal_of_realTyped M (hr M hM) (wf_members hw.2 M hM)
  | kronsum Ms, hr, hw => by
    simp only [RealTyped] at hr
    simp only [Op.wf, Bool.and_eq_true] at hw
    simp only [GramTransposeReal]
    exact fun M hM => gramTransposeReal_of_realTyped M (hr M hM) (wf_members hw.1.2 M hM)
  | bdiag Ms mults, hr, hw => by
    simp only [RealTyped] at hr
    simp only [Op.wf, Bool.and_eq_true] at hw
    simp only [GramTransposeReal]
    exact fun M hM => gramTransposeReal_of_realTyped M (hr M hM) (wf_members hw.1.2 M hM)
  | concat ax Ms, hr, hw => by
    simp only [RealTyped] at hr
    simp only [Op.wf, Bool.and_eq_true] at hw
    simp only [GramTransposeReal]
    exact fun M hM => gramTransposeReal_of_realTyped M (hr M hM) (wf_members hw.1.2 M hM)
  | transpose A, hr, hw => by
    simp only [RealTyped] at hr
    simp only [Op.wf] at hw
    simp only [GramTransposeReal]
    exact gramTransposeReal_of_realTyped A hr hw
  | adjoint A, hr, hw => by
    simp only [RealTyped] at hr
    simp only [Op.wf] at hw
    simp only [GramTransposeReal]
    exact gramTransposeReal_of_realTyped A hr hw
  | sliced A s0 s1, hr, hw => by
    simp only [RealTyped] at hr
    simp only [Op.wf, Bool.and_eq_true] at hw
    simp only [GramTransposeReal]
    exact gramTransposeReal_of_realTyped A hr hw.1.1
  | generic A, hr, hw => by
    simp only [RealTyped] at hr
    simp only [Op.wf] at hw
    simp only [GramTransposeReal]
    exact gramTransposeReal_of_realTyped A hr hw
  | annot a A, hr, hw => by
    simp only [RealTyped] at hr
    simp only [Op.wf] at hw
    simp only [GramTransposeReal]
    exact gramTransposeReal_of_realTyped A hr hw
termination_by A => sizeOf A

end Op

