import ColaVerif.Model.Dtype
import ColaVerif.Model.Algebra

/-!
# `Op.dtype = Op.dtypeSpec`: the dtype every constructor computes is the join of the leaf dtypes

* `DType` lattice lemmas (`promote` is commutative, associative, idempotent, `f32` is neutral);
* `DType.foldl_promote_join` — `reduce(promote_types, …)` is the join;
* `Op.dtype_eq_dtypeSpec` — for every tree (no well-formedness needed);
* `Op.mmDtype_eq_spec` — result dtype of `A @ X` / `X @ A`;
* `Op.tower_dtype` — `.T` / `.H` (every rule of `cola.fns.transpose/adjoint`) keep the dtype.
-/

namespace DType

theorem promote_comm (a b : DType) : promote a b = promote b a := by
  cases a <;> cases b <;> rfl
theorem promote_assoc (a b c : DType) : promote (promote a b) c = promote a (promote b c) := by
  cases a <;> cases b <;> cases c <;> rfl
theorem promote_f32_left (a : DType) : promote .f32 a = a := by cases a <;> rfl
theorem promote_f32_right (a : DType) : promote a .f32 = a := by cases a <;> rfl
theorem promote_self (a : DType) : promote a a = a := by cases a <;> rfl

theorem foldl_promote_eq (l : List DType) (a : DType) :
    l.foldl promote a = promote a (l.foldl promote .f32) := by
  induction l generalizing a with
  | nil => simp [promote_f32_right]
  | cons b l ih =>
    rw [List.foldl_cons, List.foldl_cons, ih, ih (promote .f32 b), promote_f32_left,
      promote_assoc]

theorem foldl_promote_cons (a : DType) (l : List DType) :
    (a :: l).foldl promote .f32 = promote a (l.foldl promote .f32) := by
  rw [List.foldl_cons, foldl_promote_eq, promote_f32_left]

theorem foldl_promote_append (l1 l2 : List DType) :
    (l1 ++ l2).foldl promote .f32 = promote (l1.foldl promote .f32) (l2.foldl promote .f32) := by
  rw [List.foldl_append, foldl_promote_eq]

theorem mk_flags (a : DType) : mk a.isComplex a.isDouble = a := by cases a <;> rfl
theorem isComplex_mk (c d : Bool) : (mk c d).isComplex = c := by cases c <;> cases d <;> rfl
theorem isDouble_mk (c d : Bool) : (mk c d).isDouble = d := by cases c <;> cases d <;> rfl

theorem join_nil : join [] = .f32 := rfl
theorem join_singleton (a : DType) : join [a] = a := by cases a <;> rfl

theorem join_append (l1 l2 : List DType) : join (l1 ++ l2) = promote (join l1) (join l2) := by
  simp only [join, promote, List.any_append, isComplex_mk, isDouble_mk]

theorem join_cons (a : DType) (l : List DType) : join (a :: l) = promote a (join l) := by
  rw [← List.singleton_append, join_append, join_singleton]

/-- `reduce(promote_types, l)` is the join of `l` -/
theorem foldl_promote_join (l : List DType) : l.foldl promote .f32 = join l := by
  induction l with
  | nil => rfl
  | cons a l ih => rw [foldl_promote_cons, ih, join_cons]

theorem join_flatten (ls : List (List DType)) :
    join ls.flatten = (ls.map join).foldl promote .f32 := by
  induction ls with
  | nil => rfl
  | cons l ls ih => rw [List.flatten_cons, join_append, ih, List.map_cons, foldl_promote_cons]

end DType

namespace Op
variable {R : Type}

theorem dtype_members_join (Ms : List (Op R)) (ih : ∀ M ∈ Ms, M.dtype = M.dtypeSpec) :
    (Ms.map (·.dtype)).foldl DType.promote .f32 = DType.join (Ms.map (·.leafDtypes)).flatten := by
  rw [DType.join_flatten, List.map_map]
  congr 1
  apply List.map_congr_left
  intro M hM
  exact ih M hM

/-- **the constructor-computed dtype is the join of the leaf dtypes**, for every tree -/
theorem dtype_eq_dtypeSpec : ∀ (A : Op R), A.dtype = A.dtypeSpec
  | dense dt _ _ _ => by simp only [Op.dtype, dtypeSpec, leafDtypes, DType.join_singleton]
  | tri dt _ _ _ _ => by simp only [Op.dtype, dtypeSpec, leafDtypes, DType.join_singleton]
  | sparse dt _ _ _ => by simp only [Op.dtype, dtypeSpec, leafDtypes, DType.join_singleton]
  | scalar dt _ _ => by simp only [Op.dtype, dtypeSpec, leafDtypes, DType.join_singleton]
  | eye dt _ => by simp only [Op.dtype, dtypeSpec, leafDtypes, DType.join_singleton]
  | diag dt _ _ => by simp only [Op.dtype, dtypeSpec, leafDtypes, DType.join_singleton]
  | tridiag dt _ _ _ _ => by simp only [Op.dtype, dtypeSpec, leafDtypes, DType.join_singleton]
  | perm dt _ => by simp only [Op.dtype, dtypeSpec, leafDtypes, DType.join_singleton]
  | house dt _ _ _ => by simp only [Op.dtype, dtypeSpec, leafDtypes, DType.join_singleton]
  | prod Ms => by
    simp only [Op.dtype, dtypeSpec, leafDtypes]
    exact dtype_members_join Ms (fun M _ => dtype_eq_dtypeSpec M)
  | sum Ms => by
    simp only [Op.dtype, dtypeSpec, leafDtypes]
    exact dtype_members_join Ms (fun M _ => dtype_eq_dtypeSpec M)
  | kron Ms => by
    simp only [Op.dtype, dtypeSpec, leafDtypes]
    exact dtype_members_join Ms (fun M _ => dtype_eq_dtypeSpec M)
  | kronsum Ms => by
    simp only [Op.dtype, dtypeSpec, leafDtypes]
    exact dtype_members_join Ms (fun M _ => dtype_eq_dtypeSpec M)
  | bdiag Ms _ => by
    simp only [Op.dtype, dtypeSpec, leafDtypes]
    exact dtype_members_join Ms (fun M _ => dtype_eq_dtypeSpec M)
  | concat _ Ms => by
    simp only [Op.dtype, dtypeSpec, leafDtypes]
    exact dtype_members_join Ms (fun M _ => dtype_eq_dtypeSpec M)
  | transpose A => by
    simp only [Op.dtype, dtypeSpec, leafDtypes]; exact dtype_eq_dtypeSpec A
  | adjoint A => by
    simp only [Op.dtype, dtypeSpec, leafDtypes]; exact dtype_eq_dtypeSpec A
  | sliced A _ _ => by
    simp only [Op.dtype, dtypeSpec, leafDtypes]; exact dtype_eq_dtypeSpec A
  | generic A => by
    simp only [Op.dtype, dtypeSpec, leafDtypes]; exact dtype_eq_dtypeSpec A
  | annot _ A => by
    simp only [Op.dtype, dtypeSpec, leafDtypes]; exact dtype_eq_dtypeSpec A
termination_by A => sizeOf A
decreasing_by
  all_goals simp_wf
  all_goals first
    | omega
    | (have := List.sizeOf_lt_of_mem ‹_ ∈ _›; omega)

/-- **result dtype of a product with an array**: `promote_types(self.dtype, X.dtype)` is the join
of the leaf dtypes and the operand's dtype -/
theorem mmDtype_eq_spec (A : Op R) (xdt : DType) : A.mmDtype xdt = A.mmDtypeSpec xdt := by
  simp only [mmDtype, mmDtypeSpec, DType.join_append, DType.join_singleton]
  rw [dtype_eq_dtypeSpec A]
  rfl

/-- declaration wrappers do not change the dtype -/
theorem core_dtype : ∀ (A : Op R), A.core.dtype = A.dtype
  | annot a A => by simp only [core, Op.dtype]; exact core_dtype A
  | dense .. => rfl | tri .. => rfl | sparse .. => rfl | scalar .. => rfl | eye .. => rfl
  | prod .. => rfl | sum .. => rfl | kron .. => rfl | kronsum .. => rfl | bdiag .. => rfl
  | diag .. => rfl | tridiag .. => rfl | transpose .. => rfl | adjoint .. => rfl
  | sliced .. => rfl | perm .. => rfl | concat .. => rfl | house .. => rfl | generic .. => rfl

section rules
set_option linter.unusedSectionVars false
variable [CommRing R] [StarRing R] [DecidableEq R]

/-- every rule of `cola.fns.transpose` returns an operator of the same dtype -/
theorem transposeRule_dtype (A : Op R) : A.transposeRule.dtype = A.dtype := by
  have hc := core_dtype A
  unfold transposeRule
  split
  · rename_i B heq; rw [heq] at hc; rw [← hc]; simp only [Op.dtype]
  · rename_i dt r c a heq; rw [heq] at hc; rw [← hc]; simp only [Op.dtype]
  · rename_i dt r c l a heq; rw [heq] at hc; rw [← hc]; simp only [Op.dtype]
  · rename_i dt r c e heq; rw [heq] at hc; rw [← hc]; simp only [Op.dtype]
  · split
    · rfl
    · simp only [Op.dtype]

/-- every rule of `cola.fns.adjoint` returns an operator of the same dtype -/
theorem adjointRule_dtype (A : Op R) : A.adjointRule.dtype = A.dtype := by
  have hc := core_dtype A
  unfold adjointRule
  split
  · rename_i B heq; rw [heq] at hc; rw [← hc]; simp only [Op.dtype]
  · rename_i dt r c a heq; rw [heq] at hc; rw [← hc]; simp only [Op.dtype]
  · rename_i dt r c l a heq; rw [heq] at hc; rw [← hc]; simp only [Op.dtype]
  · split
    · rfl
    · simp only [Op.dtype]

/-- a tower of `.T` / `.H` of any height has the dtype of `A`: the join of its leaf dtypes -/
theorem tower_dtype : ∀ (tw : List Bool) (A : Op R), (A.tower tw).dtype = A.dtypeSpec
  | [], A => dtype_eq_dtypeSpec A
  | true :: ts, A => by
    simp only [tower, if_true]
    rw [tower_dtype ts A.transposeRule, ← dtype_eq_dtypeSpec, transposeRule_dtype,
      dtype_eq_dtypeSpec]
  | false :: ts, A => by
    simp only [tower, Bool.false_eq_true, if_false]
    rw [tower_dtype ts A.adjointRule, ← dtype_eq_dtypeSpec, adjointRule_dtype,
      dtype_eq_dtypeSpec]

end rules

end Op

#print axioms Op.tower_dtype
#print axioms Op.dtype_eq_dtypeSpec
#print axioms Op.mmDtype_eq_spec
