import Mathlib.Analysis.InnerProductSpace.Adjoint
import Mathlib.Analysis.InnerProductSpace.PiL2
import Mathlib.LinearAlgebra.Matrix.NonsingularInverse

/-!
# C16: normal equations, minimum-norm least squares, and what the `pinv` rules compute

Abstract part (`T : E →ₗ F` between inner product spaces, `S` its adjoint, `IsAdj T S`):
* `lsq_of_normal`   : `S (T x − b) = 0 → ∀ y, ‖T x − b‖ ≤ ‖T y − b‖`;
* `normal_of_lsq`   : the converse (a minimiser satisfies the normal equations);
* `min_norm_of_range` : among the solutions of the normal equations the one in `range S` has the
  least norm;
* `minNormLsq_of_normal_range` : `S (T x − b) = 0` and `x ∈ range S` ⟹ `x` is THE minimum-norm
  least-squares solution (`IsMinNormLsq`, unique by `minNormLsq_unique`) — for every shape and
  every rank.
Matrix part (`A : m × n` over `RCLike 𝕜`, vectors in `EuclideanSpace`, `lin A = toEuclideanLin A`):
* `pinv_tall`  : `Aᴴ A` invertible ⟹ `(Aᴴ A)⁻¹ Aᴴ b` is the minimum-norm least-squares solution;
* `pinv_wide`  : `A Aᴴ` invertible ⟹ `Aᴴ (A Aᴴ)⁻¹ b` is it (and solves `A x = b`);
* `pinv_square`: `A` invertible ⟹ `A⁻¹ b` is it;
* `gram_pow_adjoint`, `krylov_in_range` : every element of the Krylov space of `(Aᴴ A, Aᴴ b)` lies
  in `range Aᴴ`; `pinv_cg` : what the CG rule returns, `x = x₀ + ε Aᴴ b` with
  `Aᴴ A x₀ = Aᴴ b`, `x₀` in that Krylov space: `x₀` is the minimum-norm least-squares solution
  (ANY shape, any rank — the singular system of a wide `A` included) and `x − x₀ = ε Aᴴ b`.
-/

open scoped InnerProductSpace
open Matrix

namespace Svd

set_option linter.unusedSectionVars false

section abstract

variable {𝕜 E F : Type} [RCLike 𝕜] [NormedAddCommGroup E] [InnerProductSpace 𝕜 E]
  [NormedAddCommGroup F] [InnerProductSpace 𝕜 F]

/-- `S` is the adjoint of `T` -/
def IsAdj (T : E →ₗ[𝕜] F) (S : F →ₗ[𝕜] E) : Prop := ∀ u v, ⟪S u, v⟫_𝕜 = ⟪u, T v⟫_𝕜

/-- `x` minimises `‖T x − b‖` -/
def IsLsq (T : E →ₗ[𝕜] F) (b : F) (x : E) : Prop := ∀ y, ‖T x - b‖ ≤ ‖T y - b‖

/-- `x` is a least-squares solution of least norm -/
def IsMinNormLsq (T : E →ₗ[𝕜] F) (b : F) (x : E) : Prop :=
  IsLsq T b x ∧ ∀ y, IsLsq T b y → ‖x‖ ≤ ‖y‖

variable (T : E →ₗ[𝕜] F) (S : F →ₗ[𝕜] E)

theorem lsq_of_normal (h : IsAdj T S) (b : F) (x : E) (hn : S (T x - b) = 0) : IsLsq T b x := by
  intro y
  have hsplit : T y - b = (T x - b) + T (y - x) := by
    rw [map_sub]; abel
  have hinner : ⟪T x - b, T (y - x)⟫_𝕜 = 0 := by
    rw [← h, hn, inner_zero_left]
  have h1 : ‖T y - b‖ ^ 2 = ‖T x - b‖ ^ 2 + ‖T (y - x)‖ ^ 2 := by
    rw [hsplit, @norm_add_sq 𝕜, hinner]
    simp
  have h2 : ‖T x - b‖ ^ 2 ≤ ‖T y - b‖ ^ 2 := by
    rw [h1]
    have := sq_nonneg ‖T (y - x)‖
    linarith
  exact le_of_sq_le_sq h2 (norm_nonneg _)

theorem normal_of_lsq (h : IsAdj T S) (b : F) (x : E) (hmin : IsLsq T b x) : S (T x - b) = 0 := by
  set r := T x - b with hr
  set d := S r with hd
  -- `⟪T d, r⟫ = ‖d‖²`
  have hdr : ⟪r, T d⟫_𝕜 = ((‖d‖ ^ 2 : ℝ) : 𝕜) := by
    rw [← h, ← hd, inner_self_eq_norm_sq_to_K]
    norm_cast
  -- expansion of `‖r − t T d‖²` for real `t`
  have hexp : ∀ t : ℝ, ‖T (x - (t : 𝕜) • d) - b‖ ^ 2 =
      ‖r‖ ^ 2 - 2 * t * ‖d‖ ^ 2 + t ^ 2 * ‖T d‖ ^ 2 := by
    intro t
    have e : T (x - (t : 𝕜) • d) - b = r - (t : 𝕜) • T d := by
      rw [map_sub, map_smul, hr]; abel
    rw [e, @norm_sub_sq 𝕜, inner_smul_right, hdr, norm_smul, mul_pow]
    have : RCLike.re ((t : 𝕜) * ((‖d‖ ^ 2 : ℝ) : 𝕜)) = t * ‖d‖ ^ 2 := by
      rw [← RCLike.ofReal_mul, RCLike.ofReal_re]
    rw [this, RCLike.norm_ofReal, sq_abs]
    ring
  have hle : ∀ t : ℝ, ‖r‖ ^ 2 ≤ ‖r‖ ^ 2 - 2 * t * ‖d‖ ^ 2 + t ^ 2 * ‖T d‖ ^ 2 := by
    intro t
    rw [← hexp t]
    exact pow_le_pow_left₀ (norm_nonneg _) (hmin _) 2
  have hd0 : ‖d‖ ^ 2 = 0 := by
    by_cases hTd : ‖T d‖ ^ 2 = 0
    · have := hle 1
      rw [hTd] at this
      have h0 := sq_nonneg ‖d‖
      nlinarith
    · have hpos : 0 < ‖T d‖ ^ 2 := lt_of_le_of_ne (sq_nonneg _) (Ne.symm hTd)
      have := hle (‖d‖ ^ 2 / ‖T d‖ ^ 2)
      have h0 := sq_nonneg ‖d‖
      have key : -(2 * (‖d‖ ^ 2 / ‖T d‖ ^ 2) * ‖d‖ ^ 2) + (‖d‖ ^ 2 / ‖T d‖ ^ 2) ^ 2 * ‖T d‖ ^ 2
          = -((‖d‖ ^ 2) ^ 2 / ‖T d‖ ^ 2) := by
        field_simp
        ring
      have h3 : 0 ≤ -((‖d‖ ^ 2) ^ 2 / ‖T d‖ ^ 2) := by
        rw [← key]; linarith
      have h4 : (‖d‖ ^ 2) ^ 2 / ‖T d‖ ^ 2 ≤ 0 := by linarith
      have h5 : (‖d‖ ^ 2) ^ 2 ≤ 0 := by
        have := (div_le_iff₀ hpos).mp h4
        simpa using this
      have h6 : (‖d‖ ^ 2) ^ 2 = 0 := le_antisymm h5 (sq_nonneg _)
      exact pow_eq_zero_iff (two_ne_zero) |>.mp h6
  have : ‖d‖ = 0 := pow_eq_zero_iff (two_ne_zero) |>.mp hd0
  exact norm_eq_zero.mp this

theorem min_norm_of_range (h : IsAdj T S) (x y : E) (w : F) (hx : x = S w)
    (hxy : S (T x) = S (T y)) : ‖x‖ ≤ ‖y‖ := by
  have hz : S (T (y - x)) = 0 := by
    rw [map_sub, map_sub, hxy, sub_self]
  have hT : T (y - x) = 0 := by
    have : ⟪T (y - x), T (y - x)⟫_𝕜 = 0 := by
      rw [← h, hz, inner_zero_left]
    exact inner_self_eq_zero.mp this
  have horth : ⟪x, y - x⟫_𝕜 = 0 := by
    have e : ⟪S w, y - x⟫_𝕜 = 0 := by rw [h, hT, inner_zero_right]
    rw [← hx] at e
    exact e
  have hy : y = x + (y - x) := by abel
  have h1 : ‖y‖ ^ 2 = ‖x‖ ^ 2 + ‖y - x‖ ^ 2 := by
    conv_lhs => rw [hy]
    rw [@norm_add_sq 𝕜, horth]
    simp
  have h2 : ‖x‖ ^ 2 ≤ ‖y‖ ^ 2 := by
    rw [h1]
    have := sq_nonneg ‖y - x‖
    linarith
  exact le_of_sq_le_sq h2 (norm_nonneg _)

/-- normal equations + `x ∈ range S` ⟹ minimum-norm least-squares solution -/
theorem minNormLsq_of_normal_range (h : IsAdj T S) (b : F) (x : E) (w : F)
    (hn : S (T x - b) = 0) (hx : x = S w) : IsMinNormLsq T b x := by
  refine ⟨lsq_of_normal T S h b x hn, ?_⟩
  intro y hy
  have hny := normal_of_lsq T S h b y hy
  apply min_norm_of_range T S h x y w hx
  have e1 : S (T x) = S b := by
    have := hn
    rw [map_sub, sub_eq_zero] at this
    exact this
  have e2 : S (T y) = S b := by
    rw [map_sub, sub_eq_zero] at hny
    exact hny
  rw [e1, e2]

/-- the minimum-norm least-squares solution is unique -/
theorem minNormLsq_unique (h : IsAdj T S) (b : F) (x x' : E) (hx : IsMinNormLsq T b x)
    (hx' : IsMinNormLsq T b x') : x = x' := by
  have n1 := normal_of_lsq T S h b x hx.1
  have n2 := normal_of_lsq T S h b x' hx'.1
  -- the midpoint is a least-squares solution
  set z := (2 : 𝕜)⁻¹ • (x + x') with hz
  have hzn : S (T z - b) = 0 := by
    have e : T z - b = (2 : 𝕜)⁻¹ • ((T x - b) + (T x' - b)) := by
      rw [hz, map_smul, map_add]
      module
    rw [e, map_smul, map_add, n1, n2, add_zero, smul_zero]
  have hzl := lsq_of_normal T S h b z hzn
  have hxz := hx.2 z hzl
  have hxx' : ‖x‖ = ‖x'‖ := le_antisymm (hx.2 x' hx'.1) (hx'.2 x hx.1)
  -- parallelogram law
  have hpar := parallelogram_law_with_norm 𝕜 x x'
  have hzn2 : ‖z‖ ^ 2 = (1 / 4) * ‖x + x'‖ ^ 2 := by
    rw [hz, norm_smul, mul_pow, norm_inv, RCLike.norm_ofNat]
    norm_num
  have h1 : ‖x‖ ^ 2 ≤ ‖z‖ ^ 2 := pow_le_pow_left₀ (norm_nonneg _) hxz 2
  have h2 : ‖x - x'‖ ^ 2 ≤ 0 := by
    rw [hzn2] at h1
    rw [← hxx'] at hpar
    nlinarith
  have h3 : ‖x - x'‖ = 0 := by
    have := le_antisymm h2 (sq_nonneg _)
    exact pow_eq_zero_iff (two_ne_zero) |>.mp this
  exact sub_eq_zero.mp (norm_eq_zero.mp h3)

end abstract

section matrix

variable {𝕜 : Type} [RCLike 𝕜] {m n : Type} [Fintype m] [Fintype n] [DecidableEq m] [DecidableEq n]

/-- the linear map `x ↦ A x` on Euclidean spaces -/
noncomputable abbrev lin {p q : Type} [Fintype q] [DecidableEq q] (A : Matrix p q 𝕜) :
    EuclideanSpace 𝕜 q →ₗ[𝕜] EuclideanSpace 𝕜 p := Matrix.toEuclideanLin A

theorem isAdj_lin (A : Matrix m n 𝕜) : IsAdj (lin A) (lin Aᴴ) := by
  intro u v
  show ⟪Matrix.toEuclideanLin Aᴴ u, v⟫_𝕜 = ⟪u, Matrix.toEuclideanLin A v⟫_𝕜
  rw [Matrix.toEuclideanLin_conjTranspose_eq_adjoint, LinearMap.adjoint_inner_left]

theorem lin_mul {p q r : Type} [Fintype q] [DecidableEq q] [Fintype r] [DecidableEq r]
    (A : Matrix p q 𝕜) (B : Matrix q r 𝕜) (v : EuclideanSpace 𝕜 r) :
    lin (A * B) v = lin A (lin B v) := by
  show Matrix.toLpLin 2 2 (A * B) v = _
  rw [Matrix.toLpLin_mul 2 2 2]
  rfl

theorem lin_one (v : EuclideanSpace 𝕜 n) : lin (1 : Matrix n n 𝕜) v = v := by
  show Matrix.toLpLin 2 2 (1 : Matrix n n 𝕜) v = v
  rw [Matrix.toLpLin_one]
  rfl

theorem lin3 {p q r t : Type} [Fintype q] [DecidableEq q] [Fintype r] [DecidableEq r] [Fintype t]
    [DecidableEq t] (X : Matrix p q 𝕜) (Y : Matrix q r 𝕜) (Z : Matrix r t 𝕜)
    (v : EuclideanSpace 𝕜 t) : lin X (lin Y (lin Z v)) = lin (X * Y * Z) v := by
  rw [lin_mul, lin_mul]

theorem lin_smul (c : 𝕜) (A : Matrix m n 𝕜) (v : EuclideanSpace 𝕜 n) :
    lin (c • A) v = c • lin A v := by
  show Matrix.toEuclideanLin (c • A) v = c • Matrix.toEuclideanLin A v
  rw [map_smul]
  rfl

theorem lin_add (A B : Matrix m n 𝕜) (v : EuclideanSpace 𝕜 n) :
    lin (A + B) v = lin A v + lin B v := by
  show Matrix.toEuclideanLin (A + B) v = _
  rw [map_add]
  rfl

variable (A : Matrix m n 𝕜)

/-- full column rank (`Aᴴ A` invertible): `x = (Aᴴ A)⁻¹ Aᴴ b` -/
theorem pinv_tall (G : Matrix n n 𝕜) (hG' : (Aᴴ * A) * G = 1)
    (b : EuclideanSpace 𝕜 m) :
    lin Aᴴ (lin A (lin (G * Aᴴ) b) - b) = 0 ∧ IsMinNormLsq (lin A) b (lin (G * Aᴴ) b) := by
  have hn : lin Aᴴ (lin A (lin (G * Aᴴ) b) - b) = 0 := by
    rw [map_sub, sub_eq_zero, lin_mul G Aᴴ, lin3, hG', lin_one]
  refine ⟨hn, minNormLsq_of_normal_range (lin A) (lin Aᴴ) (isAdj_lin A) b _
    (lin (A * G) (lin (G * Aᴴ) b)) hn ?_⟩
  rw [lin_mul A G, lin3, hG', lin_one]

/-- full row rank (`A Aᴴ` invertible): `x = Aᴴ (A Aᴴ)⁻¹ b` solves `A x = b` with least norm -/
theorem pinv_wide (G : Matrix m m 𝕜) (hG' : (A * Aᴴ) * G = 1) (b : EuclideanSpace 𝕜 m) :
    lin A (lin (Aᴴ * G) b) = b ∧ IsMinNormLsq (lin A) b (lin (Aᴴ * G) b) := by
  have hsol : lin A (lin (Aᴴ * G) b) = b := by
    rw [← lin_mul, ← Matrix.mul_assoc, hG', lin_one]
  refine ⟨hsol, minNormLsq_of_normal_range (lin A) (lin Aᴴ) (isAdj_lin A) b _ (lin G b) ?_ ?_⟩
  · rw [hsol, sub_self, map_zero]
  · rw [← lin_mul]

/-- square invertible `A`: `x = A⁻¹ b` -/
theorem pinv_square (A : Matrix n n 𝕜) (B : Matrix n n 𝕜) (hBA : B * A = 1) (hAB : A * B = 1)
    (b : EuclideanSpace 𝕜 n) :
    lin A (lin B b) = b ∧ IsMinNormLsq (lin A) b (lin B b) := by
  have hsol : lin A (lin B b) = b := by rw [← lin_mul, hAB, lin_one]
  refine ⟨hsol, minNormLsq_of_normal_range (lin A) (lin Aᴴ) (isAdj_lin A) b _ (lin Bᴴ (lin B b)) ?_ ?_⟩
  · rw [hsol, sub_self, map_zero]
  · rw [← lin_mul, ← conjTranspose_mul, hBA, conjTranspose_one, lin_one]

/-- `(Aᴴ A)^j Aᴴ = Aᴴ (A Aᴴ)^j` -/
theorem gram_pow_adjoint (j : Nat) : (Aᴴ * A) ^ j * Aᴴ = Aᴴ * (A * Aᴴ) ^ j := by
  induction j with
  | zero => simp
  | succ j ih =>
    rw [pow_succ, pow_succ, Matrix.mul_assoc ((Aᴴ * A) ^ j), Matrix.mul_assoc Aᴴ A Aᴴ,
      ← Matrix.mul_assoc ((Aᴴ * A) ^ j), ih]
    simp only [Matrix.mul_assoc]

/-- every element of the Krylov space `span{(Aᴴ A)^j Aᴴ b : j < d}` lies in `range Aᴴ` -/
theorem krylov_in_range (b : EuclideanSpace 𝕜 m) (d : Nat) (c : Nat → 𝕜) :
    ∑ j ∈ Finset.range d, c j • lin ((Aᴴ * A) ^ j) (lin Aᴴ b) =
      lin Aᴴ (∑ j ∈ Finset.range d, c j • lin ((A * Aᴴ) ^ j) b) := by
  rw [map_sum]
  apply Finset.sum_congr rfl
  intro j _
  rw [map_smul, ← lin_mul, ← lin_mul, gram_pow_adjoint]

/-- **what the CG rule of `pinv` returns.**  `x₀` = the CG solution: it satisfies the normal
equations `Aᴴ A x₀ = Aᴴ b` (converged solve; contract of the solver) and lies in the Krylov space
of `(Aᴴ A, Aᴴ b)` (CG started at `0`); the rule returns `x = x₀ + ε • Aᴴ b`.  Then `x₀` is the
minimum-norm least-squares solution — for every shape and rank — and `x − x₀ = ε • Aᴴ b`. -/
theorem pinv_cg (b : EuclideanSpace 𝕜 m) (x0 : EuclideanSpace 𝕜 n) (ε : 𝕜) (d : Nat) (c : Nat → 𝕜)
    (hsolve : lin (Aᴴ * A) x0 = lin Aᴴ b)
    (hkrylov : x0 = ∑ j ∈ Finset.range d, c j • lin ((Aᴴ * A) ^ j) (lin Aᴴ b)) :
    IsMinNormLsq (lin A) b x0 ∧
      (x0 + ε • lin Aᴴ b) - x0 = ε • lin Aᴴ b ∧
      ‖(x0 + ε • lin Aᴴ b) - x0‖ = ‖ε‖ * ‖lin Aᴴ b‖ := by
  refine ⟨?_, by abel, by rw [add_sub_cancel_left, norm_smul]⟩
  apply minNormLsq_of_normal_range (lin A) (lin Aᴴ) (isAdj_lin A) b x0
    (∑ j ∈ Finset.range d, c j • lin ((A * Aᴴ) ^ j) b)
  · rw [map_sub, ← lin_mul, hsolve, sub_self]
  · rw [hkrylov, krylov_in_range]

end matrix

end Svd
