import ColaVerif.Lemmas.RngVariance

/-!
# C17 — tail bounds for the Hutchinson estimator: independence of the probe columns, variance of
the block sum, Chebyshev's inequality for one column, the block sum and the returned mean

Sample space as in `Lemmas/RngLaw.lean`: the `n × bs` block of i.i.d. entries `φ(g)`, `g ~ ν`
(`blockLaw ν n bs = Measure.pi`), `StdEntry4 ν φ m4`.  With `V = Σ_{q ≠ s} A[r,q]² + (m4-1) A[r,s]²`
(`colVar`, the per-column variance of `Lemmas/RngVariance.lean`):

* `tail_of_sq_integral` — Markov's inequality for a squared deviation, in `Measure.real` form;
* `col_indepFun` — measurable functions of two DIFFERENT columns of the block are independent
  (`iIndepFun_pi` + `iIndepFun.indepFun_finset₀` + `IndepFun.comp`);
* `est_indepFun` — hence `estimator[t, c]` and `estimator[t, c']`, `c ≠ c'`, are independent;
* `est_cross_iid` — their centred product has expectation `0`;
* `estSum_variance_iid` — `E[(estimator.sum(-1)[t] − bs·diag_k[t])²] = bs · V`;
* `est_tail_chebyshev`, `estSum_tail_chebyshev`, `estMean_tail_chebyshev` —
  `P(|X_c − d| ≥ ε) ≤ V/ε²`, `P(|Σ_c X_c − bs·d| ≥ ε) ≤ bs·V/ε²`, `P(|mean − d| ≥ δ) ≤ V/(bs·δ²)`.

All statements are for a FIXED number `bs` of columns (no stopping rule).
-/

open MeasureTheory ProbabilityTheory Finset Real

namespace ColaVerif.Hutch

variable {ν : Measure ℝ} {φ : ℝ → ℝ} {m4 : ℝ}

/-- Markov's inequality for the squared deviation (= Chebyshev once `V` is the variance) -/
theorem tail_of_sq_integral {Ω : Type} [MeasurableSpace Ω] (μ : Measure Ω) (Y : Ω → ℝ) (V ε : ℝ)
    (hε : 0 < ε) (hint : Integrable (fun ω => Y ω ^ 2) μ) (hV : ∫ ω, Y ω ^ 2 ∂μ = V) :
    μ.real {ω | ε ≤ |Y ω|} ≤ V / ε ^ 2 := by
  have h := mul_meas_ge_le_integral_of_nonneg (μ := μ) (ae_of_all _ fun ω => sq_nonneg (Y ω)) hint
    (ε ^ 2)
  have hset : {ω | ε ^ 2 ≤ Y ω ^ 2} = {ω | ε ≤ |Y ω|} := by
    ext ω
    change ε ^ 2 ≤ Y ω ^ 2 ↔ ε ≤ |Y ω|
    rw [← sq_abs (Y ω)]
    exact pow_le_pow_iff_left₀ hε.le (abs_nonneg _) two_ne_zero
  rw [hset, hV] at h
  rw [le_div_iff₀ (by positivity)]
  linarith

/-- functions of DIFFERENT columns of the i.i.d. block are independent -/
theorem col_indepFun [IsProbabilityMeasure ν] (hφ : AEMeasurable φ ν) {n bs : ℕ}
    (G G' : (Fin n → ℝ) → ℝ) (hG : Measurable G) (hG' : Measurable G') (c c' : Fin bs)
    (hne : c ≠ c') :
    IndepFun (fun ω : Fin n × Fin bs → ℝ => G (fun j => φ (ω (j, c))))
      (fun ω : Fin n × Fin bs → ℝ => G' (fun j => φ (ω (j, c')))) (Measure.pi fun _ => ν) := by
  have hind := iIndepFun_pi (μ := fun _ : Fin n × Fin bs => ν) (X := fun _ => φ) (fun _ => hφ)
  have hmeas : ∀ i : Fin n × Fin bs,
      AEMeasurable (fun ω : Fin n × Fin bs → ℝ => φ (ω i)) (Measure.pi fun _ => ν) := fun i =>
    hφ.comp_quasiMeasurePreserving (Measure.quasiMeasurePreserving_eval _ i)
  set S : Finset (Fin n × Fin bs) := Finset.univ.filter (fun i => i.2 = c) with hS
  set T : Finset (Fin n × Fin bs) := Finset.univ.filter (fun i => i.2 = c') with hT
  have hST : Disjoint S T := by
    rw [Finset.disjoint_left]
    intro i hi hi'
    simp only [hS, hT, Finset.mem_filter, Finset.mem_univ, true_and] at hi hi'
    exact hne (hi.symm.trans hi')
  have h1 := hind.indepFun_finset₀ S T hST hmeas
  have h2 := h1.comp (φ := fun v : S → ℝ => G (fun j => v ⟨(j, c), by simp [hS]⟩))
    (ψ := fun v : T → ℝ => G' (fun j => v ⟨(j, c'), by simp [hT]⟩))
    (hG.comp (by fun_prop)) (hG'.comp (by fun_prop))
  exact h2


/-- a vector indexed by `Fin n` as a function on `ℕ` (zero outside) -/
def extFin {n : ℕ} (v : Fin n → ℝ) (q : ℕ) : ℝ := if h : q < n then v ⟨q, h⟩ else 0

theorem measurable_extFin {n : ℕ} (q : ℕ) : Measurable (fun v : Fin n → ℝ => extFin v q) := by
  unfold extFin
  by_cases h : q < n
  · simp only [h, dite_true]; exact measurable_pi_apply _
  · simp only [h, dite_false]; exact measurable_const

/-- the centred per-column estimator as a function of the column only -/
def colDev (n : ℕ) (A : MatF ℝ) (k : Int) (t : ℕ) (v : Fin n → ℝ) : ℝ :=
  (∑ q ∈ range n, A (rowA k t) q * (extFin v q * extFin v (rowZ k t))) - diagK A k t

theorem measurable_colDev (n : ℕ) (A : MatF ℝ) (k : Int) (t : ℕ) : Measurable (colDev n A k t) := by
  unfold colDev
  refine Measurable.sub_const (Finset.measurable_sum _ fun q _ => ?_) _
  exact ((measurable_extFin q).mul (measurable_extFin _)).const_mul _

theorem est_sub_eq_colDev (n bs : ℕ) (A : MatF ℝ) (k : Int) (hk : k.natAbs < n) (t c : ℕ)
    (ht : t < n - k.natAbs) (hc : c < bs) (ω : Fin n × Fin bs → ℝ) :
    est n A (entryZ φ n bs ω) k t c - diagK A k t
      = colDev n A k t (fun j => φ (ω (j, ⟨c, hc⟩))) := by
  rw [est_sum_form n A _ k hk t c ht]
  unfold colDev
  congr 1
  refine Finset.sum_congr rfl fun q hq => ?_
  have hq' := Finset.mem_range.mp hq
  have hs := rowZ_lt n k t ht
  simp [entryZ, extFin, hq', hs, hc]

/-- the centred per-column estimators of two DIFFERENT columns are independent -/
theorem est_indepFun (h : StdEntry ν φ) (n bs : Nat) (A : MatF ℝ) (k : Int)
    (hk : k.natAbs < n) (t c c' : Nat) (ht : t < n - k.natAbs) (hc : c < bs) (hc' : c' < bs)
    (hne : c ≠ c') :
    IndepFun (fun ω => est n A (entryZ φ n bs ω) k t c - diagK A k t)
      (fun ω => est n A (entryZ φ n bs ω) k t c' - diagK A k t) (blockLaw ν n bs) := by
  have := h.prob
  have e1 : (fun ω => est n A (entryZ φ n bs ω) k t c - diagK A k t)
      = fun ω : Fin n × Fin bs → ℝ => colDev n A k t (fun j => φ (ω (j, ⟨c, hc⟩))) :=
    funext fun ω => est_sub_eq_colDev n bs A k hk t c ht hc ω
  have e2 : (fun ω => est n A (entryZ φ n bs ω) k t c' - diagK A k t)
      = fun ω : Fin n × Fin bs → ℝ => colDev n A k t (fun j => φ (ω (j, ⟨c', hc'⟩))) :=
    funext fun ω => est_sub_eq_colDev n bs A k hk t c' ht hc' ω
  rw [e1, e2]
  unfold blockLaw
  exact col_indepFun h.memLp.aestronglyMeasurable.aemeasurable _ _ (measurable_colDev n A k t)
    (measurable_colDev n A k t) ⟨c, hc⟩ ⟨c', hc'⟩ (by simpa [Fin.ext_iff] using hne)

/-- deviations of two DIFFERENT columns: product integrable, expectation zero (independence) -/
theorem est_cross_iid (h : StdEntry ν φ) (n bs : Nat) (A : MatF ℝ) (k : Int)
    (hk : k.natAbs < n) (t c c' : Nat) (ht : t < n - k.natAbs) (hc : c < bs) (hc' : c' < bs)
    (hne : c ≠ c') :
    Integrable (fun ω => (est n A (entryZ φ n bs ω) k t c - diagK A k t)
        * (est n A (entryZ φ n bs ω) k t c' - diagK A k t)) (blockLaw ν n bs) ∧
    ∫ ω, (est n A (entryZ φ n bs ω) k t c - diagK A k t)
        * (est n A (entryZ φ n bs ω) k t c' - diagK A k t) ∂(blockLaw ν n bs) = 0 := by
  have := h.prob
  have hp : IsProbabilityMeasure (blockLaw ν n bs) := by unfold blockLaw; infer_instance
  have hI : ∀ c, c < bs → Integrable (fun ω => est n A (entryZ φ n bs ω) k t c - diagK A k t)
      (blockLaw ν n bs) := fun c hc =>
    (est_integrable _ n A _ k hk t c ht
      (fun j l hj hl => (entryZ_moments h n bs c hc j l hj hl).1)).sub (integrable_const _)
  have h0 : ∫ ω, (est n A (entryZ φ n bs ω) k t c - diagK A k t) ∂(blockLaw ν n bs) = 0 := by
    rw [integral_sub (est_integrable _ n A _ k hk t c ht
      (fun j l hj hl => (entryZ_moments h n bs c hc j l hj hl).1)) (integrable_const _),
      est_integral_iid h n bs A k hk t c ht hc]
    simp
  have hind := est_indepFun h n bs A k hk t c c' ht hc hc' hne
  refine ⟨hind.integrable_mul (hI c hc) (hI c' hc'), ?_⟩
  rw [hind.integral_fun_mul_eq_mul_integral (hI c hc).aestronglyMeasurable
    (hI c' hc').aestronglyMeasurable, h0, zero_mul]

/-- the variance formula of one column, as a number -/
noncomputable def colVar (n : ℕ) (A : MatF ℝ) (k : Int) (t : ℕ) (m4 : ℝ) : ℝ :=
  (∑ q ∈ (range n).erase (rowZ k t), A (rowA k t) q ^ 2) + (m4 - 1) * A (rowA k t) (rowZ k t) ^ 2

/-- **variance of the block sum**: what one evaluation of the loop body adds to `diag_sum[t]`
(`bs` independent probe columns) deviates from `bs · diag_k[t]` with second moment `bs · V` -/
theorem estSum_variance_iid (h : StdEntry4 ν φ m4) (n bs : Nat) (A : MatF ℝ) (k : Int)
    (hk : k.natAbs < n) (t : Nat) (ht : t < n - k.natAbs) :
    Integrable (fun ω => (estSum n bs A (entryZ φ n bs ω) k t - (bs : ℝ) * diagK A k t) ^ 2)
      (blockLaw ν n bs) ∧
    ∫ ω, (estSum n bs A (entryZ φ n bs ω) k t - (bs : ℝ) * diagK A k t) ^ 2 ∂(blockLaw ν n bs)
      = (bs : ℝ) * colVar n A k t m4 := by
  set Y : ℕ → (Fin n × Fin bs → ℝ) → ℝ :=
    fun c ω => est n A (entryZ φ n bs ω) k t c - diagK A k t with hY
  have hexp : (fun ω => (estSum n bs A (entryZ φ n bs ω) k t - (bs : ℝ) * diagK A k t) ^ 2)
      = fun ω => ∑ c ∈ range bs, ∑ c' ∈ range bs, Y c ω * Y c' ω := by
    funext ω
    have : estSum n bs A (entryZ φ n bs ω) k t - (bs : ℝ) * diagK A k t
        = ∑ c ∈ range bs, Y c ω := by
      simp [estSum, sumTo_eq, hY, Finset.sum_sub_distrib]
    rw [this, sq, Finset.sum_mul_sum]
  have hterm : ∀ c ∈ range bs, ∀ c' ∈ range bs,
      Integrable (fun ω => Y c ω * Y c' ω) (blockLaw ν n bs) ∧
      ∫ ω, Y c ω * Y c' ω ∂(blockLaw ν n bs) = if c = c' then colVar n A k t m4 else 0 := by
    intro c hc c' hc'
    have hc := Finset.mem_range.mp hc
    have hc' := Finset.mem_range.mp hc'
    by_cases e : c = c'
    · subst e
      rw [if_pos rfl]
      have hv := est_variance_iid h n bs A k hk t c ht hc
      have e2 : (fun ω => Y c ω * Y c ω)
          = fun ω => (est n A (entryZ φ n bs ω) k t c - diagK A k t) ^ 2 := by
        funext ω; simp only [hY]; ring
      rw [e2]
      exact ⟨hv.1, hv.2⟩
    · rw [if_neg e]
      exact est_cross_iid h.toStdEntry n bs A k hk t c c' ht hc hc' e
  rw [hexp]
  refine ⟨integrable_finsetSum _ fun c hc => integrable_finsetSum _ fun c' hc' =>
    (hterm c hc c' hc').1, ?_⟩
  rw [integral_finsetSum _ fun c hc => integrable_finsetSum _ fun c' hc' => (hterm c hc c' hc').1]
  have h1 : ∀ c ∈ range bs, ∫ ω, ∑ c' ∈ range bs, Y c ω * Y c' ω ∂(blockLaw ν n bs)
      = colVar n A k t m4 := by
    intro c hc
    rw [integral_finsetSum _ fun c' hc' => (hterm c hc c' hc').1,
      Finset.sum_congr rfl fun c' hc' => (hterm c hc c' hc').2,
      Finset.sum_ite_eq (range bs) c, if_pos hc]
  rw [Finset.sum_congr rfl h1]
  simp

/-- **Chebyshev, one probe column**: `P(|estimator[t,c] − diag_k[t]| ≥ ε) ≤ V / ε²` -/
theorem est_tail_chebyshev (h : StdEntry4 ν φ m4) (n bs : Nat) (A : MatF ℝ) (k : Int)
    (hk : k.natAbs < n) (t c : Nat) (ht : t < n - k.natAbs) (hc : c < bs) (ε : ℝ) (hε : 0 < ε) :
    (blockLaw ν n bs).real {ω | ε ≤ |est n A (entryZ φ n bs ω) k t c - diagK A k t|}
      ≤ colVar n A k t m4 / ε ^ 2 :=
  tail_of_sq_integral _ _ _ ε hε (est_variance_iid h n bs A k hk t c ht hc).1
    (est_variance_iid h n bs A k hk t c ht hc).2

/-- **Chebyshev, block sum** of `bs` independent probe columns:
`P(|estimator.sum(-1)[t] − bs · diag_k[t]| ≥ ε) ≤ bs · V / ε²` -/
theorem estSum_tail_chebyshev (h : StdEntry4 ν φ m4) (n bs : Nat) (A : MatF ℝ) (k : Int)
    (hk : k.natAbs < n) (t : Nat) (ht : t < n - k.natAbs) (ε : ℝ) (hε : 0 < ε) :
    (blockLaw ν n bs).real
        {ω | ε ≤ |estSum n bs A (entryZ φ n bs ω) k t - (bs : ℝ) * diagK A k t|}
      ≤ (bs : ℝ) * colVar n A k t m4 / ε ^ 2 :=
  tail_of_sq_integral _ _ _ ε hε (estSum_variance_iid h n bs A k hk t ht).1
    (estSum_variance_iid h n bs A k hk t ht).2

/-- **Chebyshev, mean** over `bs` independent probe columns (what the routine returns after a
FIXED number of columns): `P(|mean[t] − diag_k[t]| ≥ δ) ≤ V / (bs · δ²)` -/
theorem estMean_tail_chebyshev (h : StdEntry4 ν φ m4) (n bs : Nat) (hbs : 0 < bs) (A : MatF ℝ)
    (k : Int) (hk : k.natAbs < n) (t : Nat) (ht : t < n - k.natAbs) (δ : ℝ) (hδ : 0 < δ) :
    (blockLaw ν n bs).real
        {ω | δ ≤ |estSum n bs A (entryZ φ n bs ω) k t / (bs : ℝ) - diagK A k t|}
      ≤ colVar n A k t m4 / ((bs : ℝ) * δ ^ 2) := by
  have hb : (0 : ℝ) < bs := by exact_mod_cast hbs
  have hset : {ω | δ ≤ |estSum n bs A (entryZ φ n bs ω) k t / (bs : ℝ) - diagK A k t|}
      = {ω | (bs : ℝ) * δ ≤ |estSum n bs A (entryZ φ n bs ω) k t - (bs : ℝ) * diagK A k t|} := by
    ext ω
    change δ ≤ |_| ↔ (bs : ℝ) * δ ≤ |_|
    have : estSum n bs A (entryZ φ n bs ω) k t - (bs : ℝ) * diagK A k t
        = (bs : ℝ) * (estSum n bs A (entryZ φ n bs ω) k t / (bs : ℝ) - diagK A k t) := by
      field_simp
    rw [this, abs_mul, abs_of_pos hb]
    exact (mul_le_mul_iff_right₀ hb).symm
  rw [hset]
  refine (estSum_tail_chebyshev h n bs A k hk t ht ((bs : ℝ) * δ) (by positivity)).trans_eq ?_
  field_simp

/-- the matrix `[[1,2],[3,4]]` (entries outside the window irrelevant): witness input of
`C17_tail_chebyshev_witness` -/
def witnessA : MatF ℝ :=
  fun i j => if i = 0 then (if j = 0 then 1 else 2) else (if j = 0 then 3 else 4)

end ColaVerif.Hutch
