import ColaVerif.Lemmas.EigSelect
import ColaVerif.Model.Kernels
import Mathlib.Algebra.Star.Basic
import Mathlib.Algebra.BigOperators.Group.Finset.Basic
import Mathlib.Algebra.BigOperators.Ring.Finset

/-!
# The `Identity` and `Diagonal` rules of `eig` return exact, orthonormal eigenpairs

Columns are lists of entries (`Spectrum.vecs`); `IsEigPair n D lam v` says that `v` has length `n`, is
non-zero and `D v = lam v` on the `n × n` window of `D`; `OrthonormalCols n vs` that the columns are
pairwise orthogonal unit vectors under the conjugating product `colDot`.
-/

open Finset

namespace Eig

variable {R : Type}

/-- `v` (length `n`) is an eigenvector of the `n × n` window of `D` for `lam` -/
def IsEigPair [Field R] (n : Nat) (D : MatF R) (lam : R) (v : List R) : Prop :=
  v.length = n ∧ (∃ c, c < n ∧ v.getD c 0 ≠ 0) ∧
    ∀ r, r < n → ∑ c ∈ range n, D r c * v.getD c 0 = lam * v.getD r 0

/-- `uᴴ v` -/
def colDot [Field R] [StarRing R] (n : Nat) (u v : List R) : R :=
  ∑ r ∈ range n, star (u.getD r 0) * v.getD r 0

/-- pairwise orthogonal unit columns -/
def OrthonormalCols [Field R] [StarRing R] (n : Nat) (vs : List (List R)) : Prop :=
  vs.Pairwise (fun u v => colDot n u v = 0) ∧ ∀ v ∈ vs, colDot n v v = 1

theorem argsort_perm (le : R → R → Bool) (n : Nat) (d : Nat → R) :
    (argsort le n d).Perm (List.range n) := List.mergeSort_perm _ _

theorem argsort_nodup (le : R → R → Bool) (n : Nat) (d : Nat → R) : (argsort le n d).Nodup :=
  (argsort_perm le n d).nodup_iff.mpr List.nodup_range

theorem argsort_lt (le : R → R → Bool) (n : Nat) (d : Nat → R) {p : Nat} (hp : p ∈ argsort le n d) :
    p < n := List.mem_range.mp ((argsort_perm le n d).mem_iff.mp hp)

theorem argsort_length (le : R → R → Bool) (n : Nat) (d : Nat → R) : (argsort le n d).length = n := by
  rw [(argsort_perm le n d).length_eq, List.length_range]

/-- the values come out in the order `le` (a total preorder) -/
theorem argsort_sorted (le : R → R → Bool) (trans : ∀ a b c, le a b → le b c → le a c)
    (total : ∀ a b, le a b || le b a) (n : Nat) (d : Nat → R) :
    ((argsort le n d).map d).Pairwise (fun a b => le a b) := by
  rw [List.pairwise_map]
  exact List.pairwise_mergeSort (le := fun a b => le (d a) (d b))
    (fun a b c => trans (d a) (d b) (d c)) (fun a b => total (d a) (d b)) _

section
variable [Field R]

theorem unitCol_length (n p : Nat) : (unitCol n p : List R).length = n := by simp [unitCol]

theorem unitCol_getD (n p c : Nat) :
    (unitCol n p : List R).getD c 0 = if c < n ∧ c = p then 1 else 0 := by
  unfold unitCol
  by_cases hc : c < n
  · simp [List.getD_eq_getElem?_getD, hc]
  · simp [List.getD_eq_getElem?_getD, hc]

theorem unitCol_isEigPair (n p : Nat) (hp : p < n) (d : Nat → R) :
    IsEigPair n (diagM d) (d p) (unitCol n p) := by
  refine ⟨unitCol_length n p, ⟨p, hp, ?_⟩, ?_⟩
  · rw [unitCol_getD]; simp [hp]
  · intro r hr
    simp only [unitCol_getD, diagM]
    rw [Finset.sum_eq_single r]
    · by_cases h : r = p
      · subst h; simp [hr]
      · simp [h]
    · intro c _ hcr
      simp [Ne.symm hcr]
    · intro h
      exact absurd (Finset.mem_range.mpr hr) h

theorem unitCol_dot [StarRing R] (n p q : Nat) (hp : p < n) :
    colDot n (unitCol n p : List R) (unitCol n q) = if p = q then 1 else 0 := by
  simp only [colDot, unitCol_getD]
  rw [Finset.sum_eq_single p]
  · by_cases h : p = q
    · subst h; simp [hp]
    · simp [hp, h]
  · intro c _ hcp
    simp [hcp]
  · intro h
    exact absurd (Finset.mem_range.mpr hp) h

/-- orthonormal columns stay orthonormal under the positional slice -/
theorem orthonormalCols_getSlice [StarRing R] (n k : Nat) (w : Which) (vs : List (List R))
    (h : OrthonormalCols n vs) : OrthonormalCols n (getSlice k w vs) :=
  ⟨h.1.sublist (getSlice_sublist k w vs), fun v hv => h.2 v ((getSlice_sublist k w vs).subset hv)⟩

/-- distinct in-range identity columns are orthonormal -/
theorem orthonormalCols_unitCols [StarRing R] (n : Nat) (idx : List Nat) (hnd : idx.Nodup)
    (hlt : ∀ p ∈ idx, p < n) : OrthonormalCols (R := R) n (idx.map (unitCol n)) := by
  refine ⟨?_, ?_⟩
  · rw [List.pairwise_map]
    refine (List.Pairwise.and_mem.mp hnd).imp ?_
    intro p q h
    obtain ⟨hp, _, hne⟩ := h
    rw [unitCol_dot n p q (hlt p hp), if_neg hne]
  · intro v hv
    obtain ⟨p, hp, rfl⟩ := List.mem_map.mp hv
    rw [unitCol_dot n p p (hlt p hp), if_pos rfl]

/-- **`Diagonal` rule**: every returned pair is an exact eigenpair of the represented matrix
`diag(d)`, for every sort order `le` -/
theorem diagonalRule_pairs (le : R → R → Bool) (n : Nat) (d : Nat → R) (k : Nat) (w : Which) :
    let out := diagonalRule le n d k w
    out.vals.length = out.vecs.length ∧
    ∀ p ∈ out.vals.zip out.vecs, IsEigPair n (diagM d) p.1 p.2 := by
  intro out
  have hz : out.vals.zip out.vecs =
      getSlice k w ((argsort le n d).map (fun p => (d p, (unitCol n p : List R)))) := by
    show (getSlice k w _).zip (getSlice k w _) = _
    rw [getSlice_zip _ _ _ _ (by simp), List.zip_map', ]
  refine ⟨?_, ?_⟩
  · show (getSlice k w _).length = (getSlice k w _).length
    rw [getSlice_map, getSlice_map, List.length_map, List.length_map]
  · intro p hp
    rw [hz] at hp
    have := (getSlice_sublist k w _).subset hp
    obtain ⟨q, hq, rfl⟩ := List.mem_map.mp this
    exact unitCol_isEigPair n q (argsort_lt le n d hq) d

theorem diagonalRule_orthonormal [StarRing R] (le : R → R → Bool) (n : Nat) (d : Nat → R) (k : Nat)
    (w : Which) : OrthonormalCols n (diagonalRule le n d k w).vecs :=
  orthonormalCols_getSlice n k w _
    (orthonormalCols_unitCols n _ (argsort_nodup le n d) (fun _ hp => argsort_lt le n d hp))

/-- **`Identity` rule** -/
theorem identityRule_pairs (n k : Nat) (w : Which) :
    let out := (identityRule n k w : Spectrum R)
    out.vals.length = out.vecs.length ∧
    ∀ p ∈ out.vals.zip out.vecs, IsEigPair n (eyeM) p.1 p.2 := by
  intro out
  have hrep : (List.replicate n (1 : R)) = (List.range n).map (fun _ => (1 : R)) := by
    apply List.ext_getElem <;> simp
  have hz : out.vals.zip out.vecs =
      getSlice k w ((List.range n).map (fun p => ((1 : R), (unitCol n p : List R)))) := by
    show (getSlice k w _).zip (getSlice k w _) = _
    rw [getSlice_zip _ _ _ _ (by simp), hrep, List.zip_map']
  refine ⟨?_, ?_⟩
  · show (getSlice k w _).length = (getSlice k w _).length
    rw [hrep, getSlice_map, getSlice_map, List.length_map, List.length_map]
  · intro p hp
    rw [hz] at hp
    have := (getSlice_sublist k w _).subset hp
    obtain ⟨q, hq, rfl⟩ := List.mem_map.mp this
    have h := unitCol_isEigPair n q (List.mem_range.mp hq) (fun _ => (1 : R))
    have he : (diagM (fun _ => (1 : R))) = eyeM := rfl
    rw [he] at h
    exact h

theorem identityRule_orthonormal [StarRing R] (n k : Nat) (w : Which) :
    OrthonormalCols n (identityRule n k w : Spectrum R).vecs :=
  orthonormalCols_getSlice n k w _
    (orthonormalCols_unitCols n _ List.nodup_range (fun _ hp => List.mem_range.mp hp))

omit [Field R] in
/-- the values of an `argsort(abs(·))` ascend in magnitude -/
theorem argsort_sorted_mag {β : Type} [LinearOrder β] (mag : R → β) (n : Nat) (d : Nat → R) :
    ((argsort (fun a b => decide (mag a ≤ mag b)) n d).map d).Pairwise (fun a b => mag a ≤ mag b) := by
  have h := argsort_sorted (fun a b : R => decide (mag a ≤ mag b))
    (fun a b c h1 h2 => by simp only [decide_eq_true_eq] at *; exact le_trans h1 h2)
    (fun a b => by simp only [Bool.or_eq_true, decide_eq_true_eq]; exact le_total _ _) n d
  exact h.imp (fun h => by simpa using h)

/-- **`Diagonal` rule, selection**: sorted by magnitude, the positional slice is the extreme selection
of the diagonal -/
theorem diagonalRule_select {β : Type} [LinearOrder β] (mag : R → β) (n : Nat) (d : Nat → R) (k : Nat)
    (w : Which) (hk : 0 < k) :
    IsExtreme w mag k ((List.range n).map d)
      (diagonalRule (fun a b => decide (mag a ≤ mag b)) n d k w).vals :=
  (select_sorted w mag k _ hk (argsort_sorted_mag mag n d)).perm ((argsort_perm _ n d).map d)

end

end Eig
