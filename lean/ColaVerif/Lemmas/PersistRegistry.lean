/-
  C18 — lemmas about the registry state machine of Model/Registry.lean:
  entries are never revised, constructed objects are registered, flatten/unflatten round-trips.
-/
import ColaVerif.Model.Registry

namespace ColaVerif.Registry

/-- induction over an attribute dict (Fields is part of a mutual block: the `induction` tactic needs
    an explicit principle) -/
theorem Fields.ind {P : Fields → Prop} (nil : P .nil) (cons : ∀ k v fs, P fs → P (.cons k v fs)) : ∀ fs, P fs
  | .nil => nil
  | .cons k v fs => cons k v fs (Fields.ind nil cons fs)

/-! ### registry lookups -/

theorem Reg.get_append_some {r r' : Reg} {c : Class} {a : Attr} {b : Bool} (h : r.get c a = some b) :
    (r ++ r').get c a = some b := by
  induction r with
  | nil => simp [Reg.get] at h
  | cons e r ih =>
    simp only [List.cons_append, Reg.get] at h ⊢
    by_cases he : e.1 = (c, a)
    · simpa [he] using h
    · simp only [he, if_false] at h ⊢
      exact ih h

theorem Reg.get_append_none {r r' : Reg} {c : Class} {a : Attr} (h : r.get c a = none) :
    (r ++ r').get c a = r'.get c a := by
  induction r with
  | nil => rfl
  | cons e r ih =>
    simp only [List.cons_append, Reg.get] at h ⊢
    by_cases he : e.1 = (c, a)
    · simp [he] at h
    · simp only [he, if_false] at h ⊢
      exact ih h

/-- `r'` extends `r`: every verdict of `r` is still the verdict of `r'` -/
def Reg.Le (r r' : Reg) : Prop := ∀ c a b, r.get c a = some b → r'.get c a = some b

theorem Reg.Le.refl (r : Reg) : Reg.Le r r := fun _ _ _ h => h
theorem Reg.Le.trans {r r' r'' : Reg} (h1 : Reg.Le r r') (h2 : Reg.Le r' r'') : Reg.Le r r'' :=
  fun c a b h => h2 c a b (h1 c a b h)
theorem Reg.le_append (r r' : Reg) : Reg.Le r (r ++ r') := fun _ _ _ h => Reg.get_append_some h

/-! ### setattr -/

theorem setattr_le (r : Reg) (c : Class) (fs : Fields) (a : Attr) (v : Val) : Reg.Le r (setattr r c fs a v).1 := by
  unfold setattr
  cases h : r.get c a with
  | some b => exact Reg.Le.refl r
  | none => exact Reg.le_append r _

/-- the FIRST assignment of a name in a class stores the verdict on that value ... -/
theorem verdict_is_first (r : Reg) (c : Class) (fs : Fields) (a : Attr) (v : Val) (h : r.get c a = none) :
    (setattr r c fs a v).1.get c a = some (cond r v) := by
  unfold setattr
  simp only [h]
  rw [Reg.get_append_none h]
  simp [Reg.get]

/-- ... and any later assignment leaves the registry alone -/
theorem setattr_registered (r : Reg) (c : Class) (fs : Fields) (a : Attr) (v : Val) {b : Bool} (h : r.get c a = some b) :
    (setattr r c fs a v).1 = r := by
  unfold setattr
  simp [h]

theorem setattr_isSome (r : Reg) (c : Class) (fs : Fields) (a : Attr) (v : Val) :
    ((setattr r c fs a v).1.get c a).isSome := by
  cases h : r.get c a with
  | some b => rw [setattr_registered r c fs a v h, h]; rfl
  | none => rw [verdict_is_first r c fs a v h]; rfl

/-! ### attribute dicts -/

theorem Fields.get_set (fs : Fields) (a b : Attr) (w : Val) :
    (fs.set a w).get b = if a = b then some w else fs.get b := by
  induction fs using Fields.ind with
  | nil => simp [Fields.set, Fields.get]
  | cons k v fs ih =>
    simp only [Fields.set]
    by_cases hk : k = a
    · subst hk
      simp only [if_true, Fields.get]
      by_cases hkb : k = b <;> simp [hkb]
    · simp only [hk, if_false, Fields.get, ih]
      by_cases hkb : k = b
      · subst hkb
        have : ¬ a = k := fun e => hk e.symm
        simp [this]
      · simp [hkb]

theorem lookupKV_toList (fs : Fields) (b : Attr) : lookupKV fs.toList b = fs.get b := by
  induction fs using Fields.ind with
  | nil => rfl
  | cons k v fs ih => simp [Fields.toList, lookupKV, Fields.get, ih]

def Fields.keys : Fields → List Attr
  | .nil => []
  | .cons a _ fs => a :: Fields.keys fs

theorem Fields.get_none_of_not_mem {fs : Fields} {b : Attr} (h : b ∉ fs.keys) : fs.get b = none := by
  induction fs using Fields.ind with
  | nil => rfl
  | cons k v fs ih =>
    simp only [Fields.keys, List.mem_cons, not_or] at h
    have hk : ¬ k = b := fun e => h.1 e.symm
    simp [Fields.get, hk, ih h.2]

theorem Fields.mem_keys_of_get {fs : Fields} {b : Attr} {v : Val} (h : fs.get b = some v) : b ∈ fs.keys := by
  induction fs using Fields.ind with
  | nil => simp [Fields.get] at h
  | cons k w fs ih =>
    simp only [Fields.get] at h
    by_cases hk : k = b
    · simp [Fields.keys, hk]
    · simp only [hk, if_false] at h
      simp [Fields.keys, ih h]

theorem Fields.keys_set (fs : Fields) (a : Attr) (w : Val) :
    (fs.set a w).keys = if a ∈ fs.keys then fs.keys else fs.keys ++ [a] := by
  induction fs using Fields.ind with
  | nil => simp [Fields.set, Fields.keys]
  | cons k v fs ih =>
    simp only [Fields.set]
    by_cases hk : k = a
    · subst hk
      simp [Fields.keys]
    · have hak : ¬ a = k := fun e => hk e.symm
      simp only [hk, if_false, Fields.keys, ih, List.mem_cons, hak, false_or]
      by_cases hm : a ∈ fs.keys <;> simp [hm]

theorem Fields.nodup_set {fs : Fields} (a : Attr) (w : Val) (h : fs.keys.Nodup) : (fs.set a w).keys.Nodup := by
  rw [Fields.keys_set]
  by_cases hm : a ∈ fs.keys
  · simpa [hm] using h
  · simp only [hm, if_false]
    rw [List.nodup_append]
    refine ⟨h, by simp, ?_⟩
    intro x hx y hy
    simp only [List.mem_singleton] at hy
    subst hy
    intro e
    subst e
    exact hm hx

/-! ### sequences of assignments -/

/-- the value a list of assignments leaves in attribute b (the LAST assignment wins) -/
def lastVal : List (Attr × Val) → Attr → Option Val
  | [], _ => none
  | (a, v) :: kv, b => match lastVal kv b with
      | some w => some w
      | none => if a = b then some v else none

theorem assignAll_le (r : Reg) (c : Class) (fs : Fields) (L : List (Attr × Val)) : Reg.Le r (assignAll r c fs L).1 := by
  induction L generalizing r fs with
  | nil => exact Reg.Le.refl r
  | cons e L ih =>
    obtain ⟨a, v⟩ := e
    simp only [assignAll]
    exact (setattr_le r c fs a v).trans (ih _ _)

theorem assignAll_get (r : Reg) (c : Class) (fs : Fields) (L : List (Attr × Val)) (b : Attr) :
    (assignAll r c fs L).2.get b = match lastVal L b with
      | some w => some w
      | none => fs.get b := by
  induction L generalizing r fs with
  | nil => simp [assignAll, lastVal]
  | cons e L ih =>
    obtain ⟨a, v⟩ := e
    simp only [assignAll, lastVal]
    rw [ih]
    cases hl : lastVal L b with
    | some w => rfl
    | none =>
      simp only [setattr, Fields.get_set]
      by_cases hab : a = b <;> simp [hab]

theorem assignAll_nodup (r : Reg) (c : Class) (fs : Fields) (L : List (Attr × Val)) (h : fs.keys.Nodup) :
    (assignAll r c fs L).2.keys.Nodup := by
  induction L generalizing r fs with
  | nil => exact h
  | cons e L ih =>
    obtain ⟨a, v⟩ := e
    simp only [assignAll]
    exact ih _ _ (Fields.nodup_set a v h)

/-- every name assigned has a registry entry afterwards -/
theorem assignAll_registered (r : Reg) (c : Class) (fs : Fields) (L : List (Attr × Val)) (b : Attr)
    (h : (lastVal L b).isSome ∨ (r.get c b).isSome) : ((assignAll r c fs L).1.get c b).isSome := by
  induction L generalizing r fs with
  | nil =>
    cases h with
    | inl h => simp [lastVal] at h
    | inr h => exact h
  | cons e L ih =>
    obtain ⟨a, v⟩ := e
    simp only [assignAll]
    apply ih
    cases h with
    | inr h =>
      right
      cases hg : r.get c b with
      | none => rw [hg] at h; cases h
      | some bb => rw [setattr_le r c fs a v c b bb hg]; rfl
    | inl h =>
      simp only [lastVal] at h
      cases hl : lastVal L b with
      | some w => left; rfl
      | none =>
        rw [hl] at h
        by_cases hab : a = b
        · subst hab
          right
          exact setattr_isSome r c fs a v
        · simp [hab] at h

/-- assignments of registered names do not touch the registry -/
theorem assignAll_reg_eq (r : Reg) (c : Class) (fs : Fields) (L : List (Attr × Val))
    (h : ∀ e ∈ L, (r.get c e.1).isSome) : (assignAll r c fs L).1 = r := by
  induction L generalizing fs with
  | nil => rfl
  | cons e L ih =>
    obtain ⟨a, v⟩ := e
    simp only [assignAll]
    have ha := h (a, v) (List.mem_cons_self)
    cases hg : r.get c a with
    | none => rw [hg] at ha; cases ha
    | some bb =>
      rw [setattr_registered r c fs a v hg]
      exact ih _ (fun e he => h e (List.mem_cons_of_mem _ he))

theorem lastVal_none_of_not_mem {kv : List (Attr × Val)} {b : Attr} (h : b ∉ kv.map (·.1)) : lastVal kv b = none := by
  induction kv with
  | nil => rfl
  | cons e kv ih =>
    obtain ⟨a, v⟩ := e
    simp only [List.map_cons, List.mem_cons, not_or] at h
    have hab : ¬ a = b := fun e => h.1 e.symm
    simp [lastVal, ih h.2, hab]

theorem lastVal_eq_lookup {kv : List (Attr × Val)} (hn : (kv.map (·.1)).Nodup) (b : Attr) :
    lastVal kv b = lookupKV kv b := by
  induction kv with
  | nil => rfl
  | cons e kv ih =>
    obtain ⟨a, v⟩ := e
    simp only [List.map_cons, List.nodup_cons] at hn
    simp only [lastVal, lookupKV]
    by_cases hab : a = b
    · subst hab
      simp [lastVal_none_of_not_mem hn.1]
    · simp only [hab, if_false]
      rw [ih hn.2]
      cases lookupKV kv b <;> rfl

theorem lastVal_append (k1 k2 : List (Attr × Val)) (b : Attr) :
    lastVal (k1 ++ k2) b = match lastVal k2 b with
      | some w => some w
      | none => lastVal k1 b := by
  induction k1 with
  | nil => simp [lastVal]; cases lastVal k2 b <;> rfl
  | cons e k1 ih =>
    obtain ⟨a, v⟩ := e
    simp only [List.cons_append, lastVal, ih]
    cases lastVal k2 b <;> rfl

theorem lastVal_filter_ne (kv : List (Attr × Val)) (d b : Attr) (hb : b ≠ d) :
    lastVal (kv.filter (fun e => e.1 ≠ d)) b = lastVal kv b := by
  induction kv with
  | nil => rfl
  | cons e kv ih =>
    obtain ⟨a, v⟩ := e
    rw [List.filter_cons]
    by_cases had : a = d
    · subst had
      have hab : ¬ a = b := fun e => hb e.symm
      have hdec : decide ((a, v).1 ≠ a) = false := by simp
      rw [if_neg (by simp)]
      rw [ih]
      simp only [lastVal, hab, if_false]
      cases lastVal kv b <;> rfl
    · have hdec : decide ((a, v).1 ≠ d) = true := by simp [had]
      rw [if_pos hdec]
      simp only [lastVal, ih]

theorem keys_toList (fs : Fields) : fs.toList.map (·.1) = fs.keys := by
  induction fs using Fields.ind with
  | nil => rfl
  | cons k v fs ih => simp [Fields.toList, Fields.keys, ih]

/-! ### flatten / unflatten -/

theorem split_rebuild {r : Reg} {c : Class} (fs : Fields) (hreg : ∀ a v, fs.get a = some v → (r.get c a).isSome)
    (hn : fs.keys.Nodup) :
    ∃ ch aux, fs.split r c = some (ch, aux) ∧ ∀ rest, rebuild aux (ch ++ rest) = (rebuild [] rest).map (fs.toList ++ ·)
      := by
  induction fs using Fields.ind with
  | nil => exact ⟨[], [], rfl, fun rest => by simp [rebuild, Fields.toList]⟩
  | cons k v fs ih =>
    simp only [Fields.keys, List.nodup_cons] at hn
    have hreg' : ∀ a w, fs.get a = some w → (r.get c a).isSome := by
      intro a w hw
      apply hreg a w
      have hka : ¬ k = a := by
        intro e
        subst e
        exact hn.1 (Fields.mem_keys_of_get hw)
      simp [Fields.get, hka, hw]
    obtain ⟨ch, aux, hs, hr⟩ := ih hreg' hn.2
    have hk : (r.get c k).isSome := hreg k v (by simp [Fields.get])
    cases hg : r.get c k with
    | none => rw [hg] at hk; cases hk
    | some bb =>
      cases bb with
      | true =>
        refine ⟨v :: ch, (k, none) :: aux, by simp [Fields.split, hg, hs], ?_⟩
        intro rest
        simp only [List.cons_append, rebuild, hr, Fields.toList]
        simp
      | false =>
        refine ⟨ch, (k, some v) :: aux, by simp [Fields.split, hg, hs], ?_⟩
        intro rest
        simp only [rebuild, hr, Fields.toList]
        simp

/-- round trip on one object in one registry state -/
theorem roundtrip_obj {r : Reg} {o : Obj} (hreg : Registered r o) (hn : o.fields.keys.Nodup)
    (hdev : (o.fields.get Attr.device).isSome) :
    ∃ ch aux o', flatten r o = some (ch, aux) ∧ unflatten r o.cls aux ch = some (r, o') ∧ Obj.Same o' o := by
  obtain ⟨ch, aux, hs, hr⟩ := split_rebuild o.fields hreg hn
  have hrb : rebuild aux ch = some o.fields.toList := by
    have := hr []
    simpa [rebuild] using this
  cases hd : o.fields.get Attr.device with
  | none => rw [hd] at hdev; cases hdev
  | some d =>
    have hlk : lookupKV o.fields.toList Attr.device = some d := by rw [lookupKV_toList]; exact hd
    let L := o.fields.toList.filter (fun e => e.1 ≠ Attr.device) ++ [(Attr.device, d)]
    refine ⟨ch, aux, ⟨o.cls, (assignAll r o.cls .nil L).2⟩, hs, ?_, rfl, ?_⟩
    · simp only [unflatten, hrb, hlk]
      have hregL : ∀ e ∈ L, (r.get o.cls e.1).isSome := by
        intro e he
        simp only [L, List.mem_append, List.mem_filter, List.mem_singleton] at he
        cases he with
        | inl h =>
          obtain ⟨a, v⟩ := e
          have : o.fields.get a = some v := by
            rw [← lookupKV_toList]
            have hn' : (o.fields.toList.map (·.1)).Nodup := by rw [keys_toList]; exact hn
            rw [← lastVal_eq_lookup hn']
            clear hlk hrb hr hs
            generalize o.fields.toList = kv at h hn'
            induction kv with
            | nil => simp at h
            | cons x kv ih =>
              obtain ⟨a', v'⟩ := x
              simp only [List.map_cons, List.nodup_cons] at hn'
              simp only [List.mem_cons] at h
              cases h.1 with
              | inl e' =>
                cases e'
                simp [lastVal, lastVal_none_of_not_mem hn'.1]
              | inr hm =>
                have := ih ⟨hm, h.2⟩ hn'.2
                simp [lastVal, this]
          exact hreg a v this
        | inr h =>
          subst h
          exact hreg Attr.device d hd
      rw [assignAll_reg_eq r o.cls .nil L hregL]
    · intro b
      show (assignAll r o.cls .nil L).2.get b = o.fields.get b
      rw [assignAll_get]
      have hn' : (o.fields.toList.map (·.1)).Nodup := by rw [keys_toList]; exact hn
      simp only [L, lastVal_append]
      by_cases hb : b = Attr.device
      · subst hb
        simp [lastVal, hd]
      · have hdb : ¬ Attr.device = b := fun e => hb e.symm
        simp only [lastVal, hdb, if_false]
        rw [lastVal_filter_ne _ _ _ hb, lastVal_eq_lookup hn', lookupKV_toList]
        cases o.fields.get b <;> simp [Fields.get]

/-! ### histories -/

theorem step_le (s : State) (e : Event) : Reg.Le s.reg (step s e).reg := by
  cases e with
  | subclass c p => exact Reg.le_append _ _
  | construct c as => exact assignAll_le _ _ _ _

theorem runFrom_le (s : State) (h : List Event) : Reg.Le s.reg (runFrom s h).reg := by
  induction h generalizing s with
  | nil => exact Reg.Le.refl _
  | cons e h ih =>
    simp only [runFrom, List.foldl_cons]
    exact (step_le s e).trans (ih (step s e))

theorem run_append (h h2 : List Event) : run (h ++ h2) = runFrom (run h) h2 := by
  simp [run, runFrom, List.foldl_append]

/-- the invariant of every reachable state: every operator built so far is registered in its class,
    has distinct attribute names, and (if every constructor assigns `device`, as `__new__` does) a device -/
def Inv (s : State) : Prop :=
  ∀ o ∈ s.objs, Registered s.reg o ∧ o.fields.keys.Nodup

theorem registered_mono {r r' : Reg} {o : Obj} (hle : Reg.Le r r') (h : Registered r o) : Registered r' o := by
  intro a v hv
  have := h a v hv
  cases hg : r.get o.cls a with
  | none => rw [hg] at this; cases this
  | some b => rw [hle _ _ _ hg]; rfl

theorem inv_step (s : State) (e : Event) (h : Inv s) : Inv (step s e) := by
  cases e with
  | subclass c p =>
    intro o ho
    obtain ⟨h1, h2⟩ := h o ho
    exact ⟨registered_mono (step_le s (.subclass c p)) h1, h2⟩
  | construct c as =>
    intro o ho
    simp only [step, List.mem_append, List.mem_singleton] at ho
    cases ho with
    | inl ho =>
      obtain ⟨h1, h2⟩ := h o ho
      exact ⟨registered_mono (step_le s (.construct c as)) h1, h2⟩
    | inr ho =>
      subst ho
      refine ⟨?_, assignAll_nodup _ _ _ _ (by simp [Fields.keys])⟩
      intro a v hv
      apply assignAll_registered
      left
      have := assignAll_get s.reg c .nil as a
      rw [hv] at this
      cases hl : lastVal as a with
      | some w => rfl
      | none => rw [hl] at this; simp [Fields.get] at this

theorem inv_run (h : List Event) : Inv (run h) := by
  have : ∀ (s : State), Inv s → Inv (h.foldl step s) := by
    induction h with
    | nil => exact fun s hs => hs
    | cons e h ih => exact fun s hs => ih _ (inv_step s e hs)
  exact this _ (by intro o ho; cases ho)

/-- filters of one list agree iff the predicates agree on its members -/
theorem filter_eq_filter_iff {α : Type} (p q : α → Bool) (l : List α) :
    l.filter p = l.filter q ↔ ∀ x ∈ l, p x = q x := by
  constructor
  · intro h
    induction l with
    | nil => intro x hx; cases hx
    | cons a l ih =>
      have hlen : ∀ (f : α → Bool), (l.filter f).length ≤ l.length := fun f => List.length_filter_le f l
      intro x hx
      cases hpa : p a <;> cases hqa : q a
      · simp only [List.filter, hpa, hqa] at h
        cases hx with
        | head => rw [hpa, hqa]
        | tail _ hx => exact ih h x hx
      · simp only [List.filter, hpa, hqa] at h
        have := congrArg List.length h
        have h1 := hlen p
        have h2 : (l.filter p).length = (l.filter q).length + 1 := by simpa using this
        have hsub : ∀ y ∈ l.filter p, y ∈ l := fun y hy => (List.mem_filter.mp hy).1
        -- l.filter p = a :: l.filter q: then a :: filter q l is a sublist of l filtered by p; compare lengths with q
        have hsl : (a :: l.filter q).Sublist l := by rw [← h]; exact List.filter_sublist
        have hq : ((a :: l.filter q).filter q).Sublist (l.filter q) := hsl.filter q
        have := hq.length_le
        simp only [List.filter, hqa, List.length_cons] at this
        have h3 : (l.filter q).filter q = l.filter q := by simp
        rw [h3] at this
        exact absurd this (Nat.not_succ_le_self _)
      · simp only [List.filter, hpa, hqa] at h
        have hsl : (a :: l.filter p).Sublist l := by rw [h]; exact List.filter_sublist
        have hq : ((a :: l.filter p).filter p).Sublist (l.filter p) := hsl.filter p
        have := hq.length_le
        simp only [List.filter, hpa, List.length_cons] at this
        have h3 : (l.filter p).filter p = l.filter p := by simp
        rw [h3] at this
        exact absurd this (Nat.not_succ_le_self _)
      · simp only [List.filter, hpa, hqa, List.cons.injEq, true_and] at h
        cases hx with
        | head => rw [hpa, hqa]
        | tail _ hx => exact ih h x hx
  · intro h
    exact List.filter_congr h

end ColaVerif.Registry
