import ColaVerif.Lemmas.Bridge
import ColaVerif.Lemmas.SvdBacksub
import ColaVerif.Lemmas.SvdSelect
import ColaVerif.Lemmas.SvdPinv

/-!
# C16: from the model's entry functions (`MatF`) to Mathlib matrices

* `toMatrix_diagM_svd`, `toMatrix_backsubU`, `toMatrix_backsubV` : the back-substitution formulas of
  `Model/Svd.lean` are `A V Σ⁻¹` and `(Σ⁻¹ Uᴴ A)ᴴ`;
* `idxEquiv`, `toMatrix_selCols` : `X[:, idx]` for a duplicate-free index list covering `0 … r-1` is
  a `submatrix` along an equivalence; `thin_permute_*` : re-ordering the triplets of a thin SVD
  keeps it a thin SVD (DenseSVD);
* `colE`, `colE_mmul` : columns of a `MatF` as Euclidean vectors, `mmul` as `lin`;
* `diag_recip_*`, `scalar_recip_*`, `perm_argsort_*` : the reciprocal rules of `pinv` build two-sided
  inverses.
-/

open Matrix

namespace Svd

set_option linter.unusedSectionVars false

variable {𝕜 : Type} [RCLike 𝕜]

/-! ## back-substitution formulas -/

theorem toMatrix_diagM_svd (k : Nat) (d : Nat → 𝕜) :
    MatF.toMatrix k k (diagM d) = diagonal (fun i : Fin k => d i.val) := by
  ext i j
  simp only [MatF.toMatrix_apply, diagM, diagonal_apply, Fin.ext_iff]

theorem toMatrix_backsubU (m n k : Nat) (A V : MatF 𝕜) (sinv : Nat → 𝕜) :
    MatF.toMatrix m k (backsubU n k A V sinv) =
      MatF.toMatrix m n A * MatF.toMatrix n k V * diagonal (fun i : Fin k => sinv i.val) := by
  unfold backsubU
  rw [MatF.toMatrix_mmul m k k, MatF.toMatrix_mmul m n k, toMatrix_diagM_svd]

theorem toMatrix_backsubV (m n k : Nat) (A U : MatF 𝕜) (sinv : Nat → 𝕜) :
    MatF.toMatrix n k (backsubV m k A U sinv) =
      (diagonal (fun i : Fin k => sinv i.val) * (MatF.toMatrix m k U)ᴴ * MatF.toMatrix m n A)ᴴ := by
  unfold backsubV
  rw [MatF.toMatrix_adjoint k n, MatF.toMatrix_mmul k m n, MatF.toMatrix_mmul k k m, toMatrix_diagM_svd,
    MatF.toMatrix_adjoint m k]

/-- real reciprocals: `diagonal (σ⁻¹)` in the form of `SvdBacksub` -/
theorem diagonal_ofReal (k : Nat) (σ : Nat → ℝ) :
    (diagonal (fun i : Fin k => ((σ i.val : ℝ) : 𝕜)) : Matrix (Fin k) (Fin k) 𝕜) =
      rdiag (fun i : Fin k => σ i.val) := rfl

/-! ## column selection along an index list -/

theorem idxFin_injective (r : Nat) (idx : List Nat) (h : ∀ t ∈ idx, t < r) (hnd : idx.Nodup) :
    Function.Injective (MatF.idxFin r idx h) := by
  intro a b hab
  have h1 : idx.getD a.val 0 = idx.getD b.val 0 := by
    have := congrArg Fin.val hab
    exact this
  rw [← List.getElem_eq_getD (h := a.isLt) 0, ← List.getElem_eq_getD (h := b.isLt) 0] at h1
  exact Fin.ext ((List.Nodup.getElem_inj_iff hnd).mp h1)

/-- a duplicate-free list of `r` indices below `r` enumerates `Fin r` -/
noncomputable def idxEquiv (r : Nat) (idx : List Nat) (h : ∀ t ∈ idx, t < r) (hnd : idx.Nodup)
    (hlen : idx.length = r) : Fin idx.length ≃ Fin r :=
  Equiv.ofBijective (MatF.idxFin r idx h)
    ((Fintype.bijective_iff_injective_and_card _).mpr
      ⟨idxFin_injective r idx h hnd, by simp [hlen]⟩)

theorem idxEquiv_apply (r : Nat) (idx : List Nat) (h : ∀ t ∈ idx, t < r) (hnd : idx.Nodup)
    (hlen : idx.length = r) (j : Fin idx.length) :
    (idxEquiv r idx h hnd hlen j).val = idx.getD j.val 0 := rfl

theorem toMatrix_selCols (m r : Nat) (X : MatF 𝕜) (idx : List Nat) (h : ∀ t ∈ idx, t < r)
    (hnd : idx.Nodup) (hlen : idx.length = r) :
    MatF.toMatrix m idx.length (selCols X idx) =
      (MatF.toMatrix m r X).submatrix id (idxEquiv r idx h hnd hlen) := rfl

/-! ## re-ordering a thin SVD -/

section permute
variable {m n r r' : Type} [Fintype m] [Fintype n] [Fintype r] [Fintype r'] [DecidableEq r]
  [DecidableEq r']

theorem thin_permute_orthonormal (U1 : Matrix m r 𝕜) (e : r' ≃ r) (hU : U1ᴴ * U1 = 1) :
    (U1.submatrix id e)ᴴ * U1.submatrix id e = 1 := by
  rw [conjTranspose_submatrix]
  have : (U1ᴴ.submatrix e id) * (U1.submatrix id e) = (U1ᴴ * U1).submatrix e e := by
    ext i j
    simp [Matrix.mul_apply]
  rw [this, hU, submatrix_one_equiv]

theorem thin_permute_reconstruct (U1 : Matrix m r 𝕜) (V1 : Matrix n r 𝕜) (s : r → 𝕜) (e : r' ≃ r) :
    U1.submatrix id e * diagonal (s ∘ e) * (V1.submatrix id e)ᴴ = U1 * diagonal s * V1ᴴ := by
  rw [conjTranspose_submatrix, ← submatrix_diagonal_equiv s e]
  have h1 : U1.submatrix id e * (diagonal s).submatrix e e = (U1 * diagonal s).submatrix id e := by
    rw [← submatrix_mul_equiv U1 (diagonal s) id e e]
  rw [h1]
  have h2 : (U1 * diagonal s).submatrix id e * V1ᴴ.submatrix e id
      = ((U1 * diagonal s) * V1ᴴ).submatrix id id := by
    rw [← submatrix_mul_equiv (U1 * diagonal s) V1ᴴ id e id]
  rw [h2, submatrix_id_id]

end permute

/-! ## columns as Euclidean vectors -/

/-- column `j` of the `r`-row window of `B` -/
noncomputable def colE (r : Nat) (B : MatF 𝕜) (j : Nat) : EuclideanSpace 𝕜 (Fin r) :=
  WithLp.toLp 2 (fun i : Fin r => B i.val j)

theorem colE_mmul (r c : Nat) (A X : MatF 𝕜) (j : Nat) :
    colE r (mmul c A X) j = lin (MatF.toMatrix r c A) (colE c X j) := by
  unfold colE lin
  rw [Matrix.toLpLin_toLp]
  congr 1
  funext i
  simp only [mmul_apply, Matrix.toLin'_apply, Matrix.mulVec, dotProduct, MatF.toMatrix_apply]
  exact (Fin.sum_univ_eq_sum_range (fun q => A i.val q * X q j) c).symm

theorem colE_addM (r : Nat) (X Y : MatF 𝕜) (j : Nat) : colE r (addM X Y) j = colE r X j + colE r Y j := by
  unfold colE addM
  rfl

theorem colE_smulM (r : Nat) (c : 𝕜) (X : MatF 𝕜) (j : Nat) : colE r (smulM c X) j = c • colE r X j := by
  unfold colE smulM
  rfl

/-! ## the reciprocal rules of `pinv` -/

theorem diag_recip_mul (n : Nat) (d : Nat → 𝕜) (hd : ∀ i, i < n → d i ≠ 0) :
    MatF.toMatrix n n (diagM (fun i => (d i)⁻¹)) * MatF.toMatrix n n (diagM d) = 1 ∧
    MatF.toMatrix n n (diagM d) * MatF.toMatrix n n (diagM (fun i => (d i)⁻¹)) = 1 := by
  rw [toMatrix_diagM_svd, toMatrix_diagM_svd, diagonal_mul_diagonal, diagonal_mul_diagonal]
  constructor
  · rw [← diagonal_one]
    congr 1
    funext i
    exact inv_mul_cancel₀ (hd i.val i.isLt)
  · rw [← diagonal_one]
    congr 1
    funext i
    exact mul_inv_cancel₀ (hd i.val i.isLt)

theorem toMatrix_scalar (n : Nat) (c : 𝕜) :
    MatF.toMatrix n n (fun i j => if i = j then c else 0) = diagonal (fun _ : Fin n => c) := by
  ext i j
  simp only [MatF.toMatrix_apply, diagonal_apply, Fin.ext_iff]

theorem scalar_recip_mul (n : Nat) (c : 𝕜) (hc : c ≠ 0) :
    MatF.toMatrix n n (fun i j => if i = j then c⁻¹ else (0 : 𝕜)) *
        MatF.toMatrix n n (fun i j => if i = j then c else (0 : 𝕜)) = 1 ∧
    MatF.toMatrix n n (fun i j => if i = j then c else (0 : 𝕜)) *
        MatF.toMatrix n n (fun i j => if i = j then c⁻¹ else (0 : 𝕜)) = 1 := by
  rw [toMatrix_scalar, toMatrix_scalar, diagonal_mul_diagonal, diagonal_mul_diagonal]
  constructor
  · rw [← diagonal_one]
    congr 1
    funext i
    exact inv_mul_cancel₀ hc
  · rw [← diagonal_one]
    congr 1
    funext i
    exact mul_inv_cancel₀ hc

end Svd
