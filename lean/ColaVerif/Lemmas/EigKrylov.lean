import ColaVerif.Lemmas.EigDense
import ColaVerif.Properties.C14
import ColaVerif.Properties.C15

/-!
# The Krylov rules of `eig`, composed with C14 (Lanczos) and C15 (Arnoldi)

`eig(A, k, which, Arnoldi(...))` = `arnoldi_eigs` (Arnoldi loop, `xnp.eig` of the leading block of the executed
steps, lazy product `Q @ Y`) followed by `select_by_magnitude`; `eig(A, k, which, Lanczos(...))` likewise with
`lanczos_eigs` (`xnp.eigh` of `T`).  The loop models are those of C14 / C15 (`Lanczos.lanczosExact`,
`Arnoldi.runE`: the cap `min(max_iters, n)` is part of them, so iteration caps ABOVE `n` are covered), and
the facts about them are CITED from `Properties/C14.lean`, `Properties/C15.lean`:

* `arnoldi_pairs_lift` — cites `C15_eigs_partial`: under its clauses (`noClip`, `stopExact`) every pair
  `xnp.eig` computes for the projected matrix (LAPACK contract `DenseContract`) lifts to an eigenpair of `A`
  with a non-zero vector.  `arnoldi_stopExact_of_full` — cites `C15_dimension_cap`: after `n = dim E` steps
  `stopExact` holds by itself.
* `lanczos_pairs` — cites `C14_lanczos_eigs`: with an exhausted Krylov space every returned pair satisfies
  `A x = θ x`.  `lanczos_exhausted_of_full` — cites `C14_lanczos`: `k = dim E` columns exhaust it.
  What `C14_lanczos_eigs` does NOT provide: `x ≠ 0` (its `eigh_contract` has no non-zero clause and its
  conclusion hides the coefficient vectors behind an existential) — supplied by `lanczos_vectors_nonzero`
  (unfolds the model `lanczosEigs`; orthonormality of `Q` cited from `C14_lanczos`).
* `selectPairs_spec` — the selection on pairs with vectors of any type.
* `arnoldi_clauses_witness`, `lanczos_path_witness` — the hypothesis bundles hold on non-trivial inputs.
-/

open scoped InnerProductSpace
open Finset

namespace Eig

section pairs
variable {R V κ : Type}

theorem selectPath_eq_selectPairs (le : κ → κ → Bool) (key : R → κ) (k : Nat) (w : Which) (s : Spectrum R) :
    selectPath le key k w s =
      { vals := (selectPairs le key k w (s.vals.zip s.vecs)).map (·.1),
        vecs := (selectPairs le key k w (s.vals.zip s.vecs)).map (·.2) } := rfl

/-- the selection on pairs: `min(k, n)` of the computed pairs, extreme in the magnitude of the value -/
theorem selectPairs_spec [LinearOrder κ] (key : R → κ) (k : Nat) (w : Which) (pairs : List (R × V))
    (k_pos : 0 < k) :
    let out := selectPairs (fun a b => decide (a ≤ b)) key k w pairs
    out.length = min k pairs.length ∧ out.Subperm pairs ∧
    IsExtreme w (fun p : R × V => key p.1) k pairs out ∧
    IsExtreme w key k (pairs.map (·.1)) (out.map (·.1)) := by
  intro out
  have hext : IsExtreme w (fun p : R × V => key p.1) k pairs out := select_by_magnitude w _ k _ k_pos
  have hsub : out.Subperm pairs :=
    (getSlice_sublist k w _).subperm.trans (sortByKey_perm _ _ _).subperm
  obtain ⟨rest, hperm, hl, hdom⟩ := hext
  refine ⟨hl, hsub, ⟨rest, hperm, hl, hdom⟩, rest.map (·.1), ?_,
    by rw [List.length_map, List.length_map]; exact hl, ?_⟩
  · have := hperm.map (·.1)
    rwa [List.map_append] at this
  · intro x hx y hy
    obtain ⟨p, hp, rfl⟩ := List.mem_map.mp hx
    obtain ⟨q, hq, rfl⟩ := List.mem_map.mp hy
    exact hdom p hp q hq

end pairs


section arnoldi
open Arnoldi
variable {𝕜 E : Type} [RCLike 𝕜] [NormedAddCommGroup E] [InnerProductSpace 𝕜 E]

/-- a column of the LAZY product `Q[:, :m] @ Y` the Krylov rules return: the Ritz vector
`Σ_{i < m} y_i q_i` of a coefficient column `y` -/
noncomputable def ritzLift (q : Nat → E) (m : Nat) (y : List 𝕜) : E := ∑ i ∈ range m, y.getD i 0 • q i

/-- entry function of a matrix given as an array of rows (what is handed to `xnp.eig` / `xnp.eigh`) -/
def rowsF (Hm : Array (Array 𝕜)) : MatF 𝕜 := fun r i => (Hm.getD r #[]).getD i 0

/-- **Arnoldi rule, composed with C15.**  `xnp.eig` (LAPACK, `DenseContract`) is applied to the matrix
`arnoldi_eigs` hands it (`eigsMatrix`: the leading block of the EXECUTED steps); under the clauses of
`C15_eigs_partial` (cited) every computed pair `(μ, y)` lifts to the eigenpair `(μ, Q y)` of `A`, `Q y ≠ 0`. -/
theorem arnoldi_pairs_lift (A : E →ₗ[𝕜] E) (n M : Nat) (tol : ℝ) (tolPos : 0 < tol)
    (v : E) (startNonzero : v ≠ 0)
    (noClip : ∀ i, i + 1 < (runE A n M tol [v]).idx →
      tol / 2 ≤ (colAt A M tol v (runE A n M tol [v]).idx).beta i)
    (stopExact : 0 < (runE A n M tol [v]).idx ∧
      (colAt A M tol v (runE A n M tol [v]).idx).beta ((runE A n M tol [v]).idx - 1) = 0)
    (sp : Spectrum 𝕜)
    (eig_contract : DenseContract (runE A n M tol [v]).idx
      (rowsF (eigsMatrix trimPaddingInEigs M (runE A n M tol [v]).idx
        (colAt A M tol v (runE A n M tol [v]).idx))) sp) :
    ∀ p ∈ sp.vals.zip sp.vecs,
      A (ritzLift (colAt A M tol v (runE A n M tol [v]).idx).q (runE A n M tol [v]).idx p.2) =
        p.1 • ritzLift (colAt A M tol v (runE A n M tol [v]).idx).q (runE A n M tol [v]).idx p.2 ∧
      ritzLift (colAt A M tol v (runE A n M tol [v]).idx).q (runE A n M tol [v]).idx p.2 ≠ 0 := by
  intro p hp
  obtain ⟨_, ⟨c, hc, hne⟩, heq⟩ := eig_contract.pairs p hp
  exact C15_eigs_partial A n M tol tolPos v startNonzero noClip stopExact p.1
    (fun i => p.2.getD i 0) ⟨c, hc, hne⟩ (fun l hl => heq l hl)


/-- after `n = dim E` executed steps (`max_iters ≥ n`, any cap above `n` included) the clause `stopExact` of
`C15_eigs_partial` holds by itself (cited: `C15_dimension_cap`) -/
theorem arnoldi_stopExact_of_full [FiniteDimensional 𝕜 E] (A : E →ₗ[𝕜] E) (n M : Nat) (tol : ℝ)
    (tolPos : 0 < tol) (v : E) (startNonzero : v ≠ 0) (dimE : Module.finrank 𝕜 E = n) (hn : 0 < n)
    (hnM : n ≤ M) (full : (runE A n M tol [v]).idx = n)
    (noClip : ∀ i, i + 1 < n → tol / 2 ≤ (colAt A M tol v n).beta i) :
    0 < (runE A n M tol [v]).idx ∧
      (colAt A M tol v (runE A n M tol [v]).idx).beta ((runE A n M tol [v]).idx - 1) = 0 := by
  rw [full]
  exact ⟨hn, (C15_dimension_cap A n M tol tolPos v startNonzero dimE hn hnM noClip).2⟩

end arnoldi

section lanczos
open Lanczos
variable {𝕜 E : Type} [RCLike 𝕜] [NormedAddCommGroup E] [InnerProductSpace 𝕜 E]

attribute [local instance] exactNum exactVec

/-- **Lanczos rule, composed with C14.**  Under the hypotheses of `C14_lanczos_eigs` (cited; `eigh` = LAPACK is
a parameter with the contract `eigh_contract`) and an exhausted Krylov space (`r = 0`: the last column of
`A Q - Q T` vanishes), every pair `lanczos_eigs` returns satisfies `A x = θ x`, and there are `k` of them. -/
theorem lanczos_pairs (eigh : Array (Array 𝕜) → Array 𝕜 × Array (Array 𝕜))
    (A : E →ₗ[𝕜] E) (A_hermitian : A.IsSymmetric) (n max_iters : ℕ) (v : E) (tol : ℝ)
    (start_nonzero : v ≠ 0) (tol_nonneg : 0 ≤ tol) (cap_pos : 1 ≤ min max_iters n)
    (eigh_contract :
      let o := lanczosExact A n #[v] max_iters tol
      let e := eigh (tridiagDense (K := 𝕜) (o.alpha.getD 0 #[]) (o.beta.getD 0 #[]))
      e.1.size = o.iters ∧
      ∀ j a, j < o.iters → a < o.iters →
        ∑ c ∈ range o.iters, o.T 0 a c * (e.2.getD j #[]).getD c 0 =
          e.1.getD j 0 * (e.2.getD j #[]).getD a 0)
    (exhausted : (lanczosExact A n #[v] max_iters tol).resid A 0 = 0) :
    let res := lanczosEigs (K := 𝕜) eigh (⇑A) n 0 v max_iters (tol : 𝕜)
    res.1.toList.length = (lanczosExact A n #[v] max_iters tol).iters ∧
    res.1.toList.length = res.2.toList.length ∧
    ∀ p ∈ res.1.toList.zip res.2.toList, A p.2 = p.1 • p.2 := by
  intro res
  obtain ⟨idx, θ, y, x, hperm, h1, h2, _, hx⟩ :=
    C14_lanczos_eigs eigh A A_hermitian n max_iters v tol start_nonzero tol_nonneg cap_pos eigh_contract
  have hl : idx.length = (lanczosExact A n #[v] max_iters tol).iters := by
    rw [hperm.length_eq, List.length_range]
  refine ⟨?_, ?_, ?_⟩
  · show res.1.toList.length = _
    rw [h1, List.length_map, hl]
  · show res.1.toList.length = res.2.toList.length
    rw [h1, h2, List.length_map, List.length_map]
  · intro p hp
    have hp' : p ∈ (idx.map θ).zip (idx.map x) := by rw [← h1, ← h2]; exact hp
    rw [List.zip_map'] at hp'
    obtain ⟨j, hj, rfl⟩ := List.mem_map.mp hp'
    have hjk : j < (lanczosExact A n #[v] max_iters tol).iters :=
      List.mem_range.mp (hperm.subset hj)
    have := (hx j hjk).2
    rw [exhausted, smul_zero] at this
    exact sub_eq_zero.mp this

/-- with as many columns as the dimension the Krylov space is exhausted: `r ⟂ Q` and `Q` is an orthonormal
basis (cited: `C14_lanczos`) -/
theorem lanczos_exhausted_of_full [FiniteDimensional 𝕜 E] (A : E →ₗ[𝕜] E) (A_hermitian : A.IsSymmetric)
    (n max_iters : ℕ) (v : E) (tol : ℝ) (start_nonzero : v ≠ 0) (tol_nonneg : 0 ≤ tol)
    (cap_pos : 1 ≤ min max_iters n)
    (full : (lanczosExact A n #[v] max_iters tol).iters = Module.finrank 𝕜 E) :
    (lanczosExact A n #[v] max_iters tol).resid A 0 = 0 := by
  obtain ⟨_, hon, _, _, _, _, _, _, _, _, horth, _⟩ :=
    C14_lanczos A A_hermitian n max_iters v tol start_nonzero tol_nonneg cap_pos
  set o := lanczosExact A n #[v] max_iters tol
  set r := o.resid A 0
  have hcard : Fintype.card (Fin o.iters) = Module.finrank 𝕜 E := by rw [Fintype.card_fin, full]
  have hspan : Submodule.span 𝕜 (Set.range (fun c : Fin o.iters => o.q 0 c)) = ⊤ :=
    hon.linearIndependent.span_eq_top_of_card_eq_finrank' hcard
  have hall : ∀ u : E, ⟪u, r⟫_𝕜 = 0 := by
    intro u
    have hu : u ∈ Submodule.span 𝕜 (Set.range (fun c : Fin o.iters => o.q 0 c)) := by
      rw [hspan]; exact Submodule.mem_top
    refine Submodule.span_induction (p := fun u _ => ⟪u, r⟫_𝕜 = 0) ?_ ?_ ?_ ?_ hu
    · rintro _ ⟨c, rfl⟩; exact horth c.val c.isLt
    · exact inner_zero_left _
    · intro x y _ _ hx hy; rw [inner_add_left, hx, hy, add_zero]
    · intro a x _ hx; rw [inner_smul_left, hx, mul_zero]
  exact inner_self_eq_zero.mp (hall r)

end lanczos
section lanczosNonzero
open Lanczos
variable {𝕜 E : Type} [RCLike 𝕜] [NormedAddCommGroup E] [InnerProductSpace 𝕜 E]
attribute [local instance] exactNum exactVec

/-- the part `C14_lanczos_eigs` does not state: the vectors `lanczos_eigs` returns are `Q y_j` for the columns `y_j`
of `eigh` (unfolding the model; `C14_lanczos` for the orthonormality of `Q`), hence non-zero when the `y_j` are -/
theorem lanczos_vectors_nonzero (eigh : Array (Array 𝕜) → Array 𝕜 × Array (Array 𝕜))
    (A : E →ₗ[𝕜] E) (A_hermitian : A.IsSymmetric) (n max_iters : ℕ) (v : E) (tol : ℝ)
    (start_nonzero : v ≠ 0) (tol_nonneg : 0 ≤ tol) (cap_pos : 1 ≤ min max_iters n)
    (eigh_size : (eigh (tridiagDense (K := 𝕜) ((lanczosExact A n #[v] max_iters tol).alpha.getD 0 #[])
        ((lanczosExact A n #[v] max_iters tol).beta.getD 0 #[]))).1.size =
        (lanczosExact A n #[v] max_iters tol).iters)
    (eigh_nonzero : ∀ j, j < (lanczosExact A n #[v] max_iters tol).iters →
      ∃ a, a < (lanczosExact A n #[v] max_iters tol).iters ∧
        ((eigh (tridiagDense (K := 𝕜) ((lanczosExact A n #[v] max_iters tol).alpha.getD 0 #[])
          ((lanczosExact A n #[v] max_iters tol).beta.getD 0 #[]))).2.getD j #[]).getD a 0 ≠ 0) :
    ∀ x ∈ (lanczosEigs (K := 𝕜) eigh (⇑A) n 0 v max_iters (tol : 𝕜)).2.toList, x ≠ 0 := by
  obtain ⟨⟨_, _, _, hQs, _, _⟩, hon, _⟩ :=
    C14_lanczos A A_hermitian n max_iters v tol start_nonzero tol_nonneg cap_pos
  set o := lanczosExact A n #[v] max_iters tol with ho
  set e := eigh (tridiagDense (K := 𝕜) (o.alpha.getD 0 #[]) (o.beta.getD 0 #[])) with he
  intro x hx
  have h2 : (lanczosEigs (K := 𝕜) eigh (⇑A) n 0 v max_iters (tol : 𝕜)).2.toList =
      (Lanczos.argsort (K := 𝕜) e.1).map (fun j => combine (K := 𝕜) 0 (o.Q.getD 0 #[]) (e.2.getD j #[])) := by
    simp only [lanczosEigs]
    rfl
  have hx' := hx
  rw [h2] at hx'
  obtain ⟨j, hj, rfl⟩ := List.mem_map.mp hx'
  have hjk : j < o.iters := by
    have := (Lanczos.argsort_perm e.1).subset hj
    rw [eigh_size] at this
    exact List.mem_range.mp this
  obtain ⟨a, ha, hne⟩ := eigh_nonzero j hjk
  rw [combine_eq_sum, hQs]
  intro hzero
  have hli := hon.linearIndependent
  rw [linearIndependent_iff'] at hli
  have hsum : ∑ c : Fin o.iters, (e.2.getD j #[]).getD c.val 0 • o.q 0 c.val = 0 := by
    rw [Fin.sum_univ_eq_sum_range (fun c => (e.2.getD j #[]).getD c 0 • o.q 0 c) o.iters]
    exact hzero
  exact hne (hli Finset.univ (fun c : Fin o.iters => (e.2.getD j #[]).getD c.val 0) hsum ⟨a, ha⟩ (Finset.mem_univ _))

end lanczosNonzero

/-! ## the hypothesis bundles are satisfiable on non-trivial inputs -/

section witnesses
open Arnoldi

/-- the rotation of the plane, start vector `1`, `tol = 1/10`, `n = max_iters = 2`: the loop runs both steps -/
theorem arnoldi_rot_idx : (runE (rot 1) 2 2 (1 / 10) [(1 : ℂ)]).idx = 2 := by
  have htol : (0 : ℝ) < 1 / 10 := by norm_num
  have hpos := run_idx_pos (rot 1) 2 2 (by norm_num) (by norm_num) (1 / 10) (1 : ℂ)
  obtain ⟨hle, _, hcols, _⟩ := C15_model_invariant (rot 1) 2 2 (1 / 10) htol [(1 : ℂ)]
    (by simp)
  rcases (C15_stopping (rot 1) 2 2 (1 / 10) [(1 : ℂ)]).1 with h | h
  · simpa using h
  · by_contra hne
    have h1 : (runE (rot 1) 2 2 (1 / 10) [(1 : ℂ)]).idx = 1 := by
      have : (runE (rot 1) 2 2 (1 / 10) [(1 : ℂ)]).idx ≤ 2 := by simpa using hle
      omega
    have hc := (h _ (by rw [hcols]; exact List.mem_cons_self)).1
    rw [h1] at hc
    have hinv := inv_colAfter (rot 1) 2 (1 : ℂ) (1 / 10) one_ne_zero htol 1 (by norm_num)
    have hn := hinv.normEq
    rw [if_neg (by omega)] at hn
    change RCLike.re (colAt (rot 1) 2 (1 / 10) (1 : ℂ) 1).norm ≤
      1 / 10 * RCLike.re ((colAt (rot 1) 2 (1 / 10) (1 : ℂ) 1).h 1 0) at hc
    have hb := beta0_rot 1 (by norm_num) 2 (by norm_num) (1 / 10)
    unfold Col.beta at hb
    change (colAt (rot 1) 2 (1 / 10) (1 : ℂ) 1).norm = (colAt (rot 1) 2 (1 / 10) (1 : ℂ) 1).h 1 0 at hn
    rw [hn, hb] at hc
    norm_num at hc

/-- **the clauses `noClip`, `stopExact` of `C10_arnoldi_path` / `C15_eigs_partial` hold on a two-step run**
(rotation of the plane: `β₀ = 1 ≥ tol/2`, `β₁ = 0`: the Krylov space is the whole plane) -/
theorem arnoldi_clauses_witness :
    (runE (rot 1) 2 2 (1 / 10) [(1 : ℂ)]).idx = 2 ∧
    (∀ i, i + 1 < (runE (rot 1) 2 2 (1 / 10) [(1 : ℂ)]).idx →
      (1 / 10 : ℝ) / 2 ≤ (colAt (rot 1) 2 (1 / 10) (1 : ℂ) (runE (rot 1) 2 2 (1 / 10) [(1 : ℂ)]).idx).beta i) ∧
    (0 < (runE (rot 1) 2 2 (1 / 10) [(1 : ℂ)]).idx ∧
      (colAt (rot 1) 2 (1 / 10) (1 : ℂ) (runE (rot 1) 2 2 (1 / 10) [(1 : ℂ)]).idx).beta
        ((runE (rot 1) 2 2 (1 / 10) [(1 : ℂ)]).idx - 1) = 0) := by
  have htol : (0 : ℝ) < 1 / 10 := by norm_num
  rw [arnoldi_rot_idx]
  obtain ⟨_, f2⟩ := colAfter_frozen (A := rot 1) (M := 2) (v := (1 : ℂ)) (tol := 1 / 10) htol
    one_ne_zero 1 2 (by norm_num) (le_refl _)
  have hb : (colAt (rot 1) 2 (1 / 10) (1 : ℂ) 2).beta 0 = 1 := by
    unfold Col.beta
    rw [f2 0 (by omega) 1]
    exact beta0_rot 1 (by norm_num) 2 (by norm_num) (1 / 10)
  have hnc : ∀ i, i + 1 < 2 → (1 / 10 : ℝ) / 2 ≤ (colAt (rot 1) 2 (1 / 10) (1 : ℂ) 2).beta i := by
    intro i hi
    have : i = 0 := by omega
    subst this
    rw [hb]; norm_num
  refine ⟨rfl, hnc, by norm_num, ?_⟩
  exact (C15_dimension_cap (rot 1) 2 2 (1 / 10) htol (1 : ℂ) one_ne_zero Complex.finrank_real_complex
    (by norm_num) (le_refl _) hnc).2

end witnesses

section lanczosWitness
open Lanczos
attribute [local instance] exactNum exactVec

/-- **the hypotheses of `C10_lanczos_path` / `C10_lanczos_full` hold on a non-diagonal input with an iteration
cap ABOVE `n`**: `A = [[2,1],[1,2]]`, `v = e₀`, `n = 2`, `max_iters = 5`, `tol = 0`, exact `eigh2` (cited:
`C14_eigh_contract_witness`); two columns = the dimension, so the Krylov space is exhausted -/
theorem lanczos_path_witness :
    (Matrix.toEuclideanLin exM2).IsSymmetric ∧ exv2 ≠ 0 ∧ (0 : ℝ) ≤ 0 ∧ 1 ≤ min 5 2 ∧
    (let o := lanczosExact (Matrix.toEuclideanLin exM2) 2 #[exv2] 5 0
     let e := eigh2 (tridiagDense (K := ℝ) (o.alpha.getD 0 #[]) (o.beta.getD 0 #[]))
     e.1.size = o.iters ∧
     ∀ j a, j < o.iters → a < o.iters →
       ∑ c ∈ range o.iters, o.T 0 a c * (e.2.getD j #[]).getD c 0 =
         e.1.getD j 0 * (e.2.getD j #[]).getD a 0) ∧
    (lanczosExact (Matrix.toEuclideanLin exM2) 2 #[exv2] 5 0).iters =
      Module.finrank ℝ (EuclideanSpace ℝ (Fin 2)) ∧
    (lanczosExact (Matrix.toEuclideanLin exM2) 2 #[exv2] 5 0).resid (Matrix.toEuclideanLin exM2) 0 = 0 := by
  obtain ⟨h1, h2, h3, h4, h5, h6⟩ := C14_eigh_contract_witness
  have hfull : (lanczosExact (Matrix.toEuclideanLin exM2) 2 #[exv2] 5 0).iters =
      Module.finrank ℝ (EuclideanSpace ℝ (Fin 2)) := by
    rw [finrank_euclideanSpace_fin]; exact h6.1
  exact ⟨h1, h2, h3, h4, h5, hfull,
    lanczos_exhausted_of_full _ h1 2 5 exv2 0 h2 h3 h4 hfull⟩

end lanczosWitness

section fullWitness
open Arnoldi

/-- complex conjugation on the plane (`diag(1, -1)` in the basis `1, i`) -/
noncomputable def conjOp : ℂ →ₗ[ℝ] ℂ := Complex.conjAe.toLinearMap

theorem w1_conj : w1 (𝕜 := ℝ) conjOp (1 : ℂ) = 0 := by
  unfold w1 conjOp
  simp

theorem h00_conj (M : Nat) (hM : 1 ≤ M) (tol : ℝ) : (colAt conjOp M tol (1 : ℂ) 1).h 0 0 = 1 := by
  rw [colAt_one_h _ _ _ _ hM, if_pos rfl, if_neg (by norm_num), if_pos rfl]
  unfold conjOp
  simp

theorem beta0_conj (M : Nat) (hM : 1 ≤ M) (tol : ℝ) : (colAt conjOp M tol (1 : ℂ) 1).beta 0 = 0 := by
  unfold Col.beta
  rw [colAt_one_h _ _ _ _ hM, if_pos rfl, if_pos rfl, w1_conj]
  simp

/-- an eigenvector start stops after one step: cap `5` above `n = 2` -/
theorem arnoldi_conj_idx : (runE conjOp 2 5 (1 / 10) [(1 : ℂ)]).idx = 1 := by
  have htol : (0 : ℝ) < 1 / 10 := by norm_num
  have hpos := run_idx_pos conjOp 2 5 (by norm_num) (by norm_num) (1 / 10) (1 : ℂ)
  by_contra hne
  have h1lt : 1 < (runE conjOp 2 5 (1 / 10) [(1 : ℂ)]).idx := by omega
  rcases (C15_stopping conjOp 2 5 (1 / 10) [(1 : ℂ)]).2 1 h1lt with h | ⟨v', hv', hlt⟩
  · omega
  · rw [List.mem_singleton] at hv'
    subst hv'
    have hinv := inv_colAfter conjOp 5 (1 : ℂ) (1 / 10) one_ne_zero htol 1 (by norm_num)
    have hn := hinv.normEq
    rw [if_neg (by omega)] at hn
    change (colAt conjOp 5 (1 / 10) (1 : ℂ) 1).norm = (colAt conjOp 5 (1 / 10) (1 : ℂ) 1).h 1 0 at hn
    have hb := beta0_conj 5 (by norm_num) (1 / 10)
    unfold Col.beta at hb
    rw [hn, hb] at hlt
    norm_num at hlt

/-- **ALL hypotheses of `C10_arnoldi_path` hold together** on the plane with complex conjugation (not the
identity, dimension 2), start vector the eigenvector `1`, `max_iters = 5 > n = 2`, `tol = 1/10`: one step,
`β₀ = 0` (`stopExact`), the `1 × 1` projected matrix `[1]` with the computed spectrum `([1], [[1]])` -/
theorem arnoldi_path_witness :
    (0 : ℝ) < 1 / 10 ∧ (1 : ℂ) ≠ 0 ∧
    (∀ i, i + 1 < (runE conjOp 2 5 (1 / 10) [(1 : ℂ)]).idx →
      (1 / 10 : ℝ) / 2 ≤ (colAt conjOp 5 (1 / 10) (1 : ℂ) (runE conjOp 2 5 (1 / 10) [(1 : ℂ)]).idx).beta i) ∧
    (0 < (runE conjOp 2 5 (1 / 10) [(1 : ℂ)]).idx ∧
      (colAt conjOp 5 (1 / 10) (1 : ℂ) (runE conjOp 2 5 (1 / 10) [(1 : ℂ)]).idx).beta
        ((runE conjOp 2 5 (1 / 10) [(1 : ℂ)]).idx - 1) = 0) ∧
    DenseContract (runE conjOp 2 5 (1 / 10) [(1 : ℂ)]).idx
      (rowsF (eigsMatrix trimPaddingInEigs 5 (runE conjOp 2 5 (1 / 10) [(1 : ℂ)]).idx
        (colAt conjOp 5 (1 / 10) (1 : ℂ) (runE conjOp 2 5 (1 / 10) [(1 : ℂ)]).idx)))
      { vals := [1], vecs := [[1]] } := by
  rw [arnoldi_conj_idx]
  refine ⟨by norm_num, one_ne_zero, fun i hi => absurd hi (by omega), ⟨by norm_num, beta0_conj 5 (by norm_num) _⟩, ?_⟩
  refine ⟨rfl, rfl, ?_, ?_, ?_⟩
  · intro v hv; simp at hv; subst hv; rfl
  · ext i j
    have hi : i = 0 := Subsingleton.elim _ _
    have hj : j = 0 := Subsingleton.elim _ _
    subst hi hj
    have hH : rowsF (eigsMatrix trimPaddingInEigs 5 1 (colAt conjOp 5 (1 / 10) (1 : ℂ) 1)) 0 0 = 1 := by
      unfold rowsF
      rw [eigsMatrix_get trimPaddingInEigs 1 _ 0 0 (by simp [eigsSize, trimPaddingInEigs])
        (by simp [eigsSize, trimPaddingInEigs])]
      exact h00_conj 5 (by norm_num) _
    simp only [one_div] at hH
    simp [Matrix.mul_apply, colsM, valsD, hH]
  · intro c h
    have hc : c = 0 := Subsingleton.elim _ _
    subst hc
    have := congrFun h 0
    simp [colsM] at this

end fullWitness

end Eig
