import Mathlib.Analysis.InnerProductSpace.EuclideanDist
import Mathlib.Topology.Algebra.Module.FiniteDimension
import ColaVerif.Lemmas.CGBridge

/-!
# The guards of `take_cg_step` are off: from conditions on the INPUTS

`GuardsOffN` (Lemmas/CGGuarded.lean) constrains the computed quantities `r̂_i`, `γ̂_i`,
`⟪p̂_i, A p̂_i⟫`.  Here it is derived from the inputs:

* `Coercive A c` : `c ‖v‖² ≤ re ⟪v, A v⟫` (for a Hermitian matrix: `c ≤ λ_min(A)`);
  `exists_coercive_of_posDef`: every positive definite matrix has such a `c > 0`.
* `guards_lower`: for symmetric coercive `A`, `M` and non-zero residuals `r_0 … r_i`:
  `c_M ‖r_i‖² ≤ |γ_i|` and `c_A c_M² ‖r_i‖² ≤ |⟪p_i, A p_i⟫|` — the two guarded denominators are
  bounded below by the residual, so all three guards reduce to ONE condition on the residual norm.
* `TolAdmissible ε cA cM τ`: `ε ≤ τ`, `ε ≤ c_M τ²`, `ε ≤ c_A c_M² τ²` (with `ε = 1e-40`:
  `τ ≥ max(1e-40, 1e-20/√c_M, 1e-20/(c_M √c_A))`).
* `guardsOffN_of_resid`: `τ ‖b‖ ≤ ‖r_i‖` for the residuals `r_i = b - A x_i` of TEXTBOOK CG on the
  original system, `i < k`  ⇒  `GuardsOffN … k`.
* `guardsOffN_single`: ONE right-hand side and `tol ≥ τ` admissible ⇒ `GuardsOffN` for all the
  steps the loop makes — the stopping test itself keeps the residual above `tol`.  No hypothesis
  on intermediates.
* `dirs_eq_krylov_of_resid`: `span {p_i | i < k} = K_k(MA, M r0)` from the residual condition.
-/

namespace CG

open scoped InnerProductSpace ComplexConjugate

section abstract
variable {𝕜 E : Type*} [RCLike 𝕜] [NormedAddCommGroup E] [InnerProductSpace 𝕜 E]

/-- `c ‖v‖² ≤ re ⟪v, A v⟫` for every `v` (`c ≤ λ_min` for a Hermitian matrix) -/
def Coercive (A : E →ₗ[𝕜] E) (c : ℝ) : Prop := ∀ v : E, c * ‖v‖ ^ 2 ≤ RCLike.re ⟪v, A v⟫_𝕜

theorem Coercive.posDefOp {A : E →ₗ[𝕜] E} {c : ℝ} (hc : 0 < c) (h : Coercive A c) : PosDefOp A := by
  intro v hv
  have : 0 < ‖v‖ := norm_pos_iff.mpr hv
  exact lt_of_lt_of_le (by positivity) (h v)

/-- the thresholds of the three guards, expressed on the residual norm -/
structure TolAdmissible (ε cA cM τ : ℝ) : Prop where
  r : ε ≤ τ
  g : ε ≤ cM * τ ^ 2
  d : ε ≤ cA * cM ^ 2 * τ ^ 2

theorem TolAdmissible.mono {ε cA cM τ τ' : ℝ} (hcA : 0 < cA) (hcM : 0 < cM) (hτ : 0 ≤ τ)
    (h : TolAdmissible ε cA cM τ) (hle : τ ≤ τ') : TolAdmissible ε cA cM τ' := by
  have hsq : τ ^ 2 ≤ τ' ^ 2 := by nlinarith
  refine ⟨h.r.trans hle, h.g.trans ?_, h.d.trans ?_⟩
  · exact mul_le_mul_of_nonneg_left hsq hcM.le
  · exact mul_le_mul_of_nonneg_left hsq (by positivity)

/-- an admissible threshold exists for all positive constants -/
theorem exists_tolAdmissible {ε cA cM : ℝ} (hε : 0 < ε) (hcA : 0 < cA) (hcM : 0 < cM) :
    ∃ τ : ℝ, 0 < τ ∧ TolAdmissible ε cA cM τ := by
  refine ⟨ε + Real.sqrt (ε / cM) + Real.sqrt (ε / (cA * cM ^ 2)), ?_, ?_, ?_, ?_⟩
  · have := Real.sqrt_nonneg (ε / cM)
    have := Real.sqrt_nonneg (ε / (cA * cM ^ 2))
    linarith
  · have := Real.sqrt_nonneg (ε / cM)
    have := Real.sqrt_nonneg (ε / (cA * cM ^ 2))
    linarith
  · have h1 := Real.sqrt_nonneg (ε / cM)
    have h2 := Real.sqrt_nonneg (ε / (cA * cM ^ 2))
    have hs : Real.sqrt (ε / cM) ^ 2 = ε / cM := Real.sq_sqrt (by positivity)
    have : Real.sqrt (ε / cM) ^ 2 ≤ (ε + Real.sqrt (ε / cM) + Real.sqrt (ε / (cA * cM ^ 2))) ^ 2 := by
      apply pow_le_pow_left₀ h1; linarith
    calc ε = cM * (ε / cM) := by field_simp
      _ = cM * Real.sqrt (ε / cM) ^ 2 := by rw [hs]
      _ ≤ _ := mul_le_mul_of_nonneg_left this hcM.le
  · have h1 := Real.sqrt_nonneg (ε / cM)
    have h2 := Real.sqrt_nonneg (ε / (cA * cM ^ 2))
    have hs : Real.sqrt (ε / (cA * cM ^ 2)) ^ 2 = ε / (cA * cM ^ 2) := Real.sq_sqrt (by positivity)
    have : Real.sqrt (ε / (cA * cM ^ 2)) ^ 2 ≤
        (ε + Real.sqrt (ε / cM) + Real.sqrt (ε / (cA * cM ^ 2))) ^ 2 := by
      apply pow_le_pow_left₀ h2; linarith
    calc ε = cA * cM ^ 2 * (ε / (cA * cM ^ 2)) := by field_simp
      _ = cA * cM ^ 2 * Real.sqrt (ε / (cA * cM ^ 2)) ^ 2 := by rw [hs]
      _ ≤ _ := mul_le_mul_of_nonneg_left this (by positivity)

variable {A M : E →ₗ[𝕜] E} {b x0 : E}
local notation "S" => cgSeq A M b x0

/-- **the guarded denominators are bounded below by the residual**: for symmetric coercive `A`, `M`
and non-zero residuals `r_0 … r_i`, `c_M ‖r_i‖² ≤ |γ_i|` and `c_A c_M² ‖r_i‖² ≤ |⟪p_i, A p_i⟫|` -/
theorem guards_lower (hA : A.IsSymmetric) (hM : M.IsSymmetric) {cA cM : ℝ} (hcA : 0 < cA)
    (hcM : 0 < cM) (cA' : Coercive A cA) (cM' : Coercive M cM) {i : ℕ}
    (hr : ∀ j ≤ i, (S j).r ≠ 0) :
    cM * ‖(S i).r‖ ^ 2 ≤ ‖(S i).γ‖ ∧
      cA * cM ^ 2 * ‖(S i).r‖ ^ 2 ≤ ‖⟪(S i).p, A (S i).p⟫_𝕜‖ := by
  have pA := cA'.posDefOp hcA
  have pM := cM'.posDefOp hcM
  have hnb := noBreak_of_posDef hA hM pA pM (i + 1) (fun j hj => hr j (Nat.lt_succ_iff.mp hj))
  have hinv : CGInv A M b x0 i := cgInv_all hA hM i (fun j hj => hnb j (by omega)) i le_rfl
  have hrpos : 0 < ‖(S i).r‖ := norm_pos_iff.mpr (hr i le_rfl)
  have h1 : cM * ‖(S i).r‖ ^ 2 ≤ ‖(S i).γ‖ := by
    calc cM * ‖(S i).r‖ ^ 2 ≤ RCLike.re ⟪(S i).r, M (S i).r⟫_𝕜 := cM' _
      _ = RCLike.re (S i).γ := by rw [hinv.gam]
      _ ≤ ‖(S i).γ‖ := RCLike.re_le_norm _
  have h2 : cM * ‖(S i).r‖ ≤ ‖(S i).p‖ := by
    have hle : ‖(S i).γ‖ ≤ ‖(S i).r‖ * ‖(S i).p‖ := by
      rw [← hinv.rp]; exact norm_inner_le_norm _ _
    have : ‖(S i).r‖ * (cM * ‖(S i).r‖) ≤ ‖(S i).r‖ * ‖(S i).p‖ := by
      calc ‖(S i).r‖ * (cM * ‖(S i).r‖) = cM * ‖(S i).r‖ ^ 2 := by ring
        _ ≤ _ := h1.trans hle
    exact le_of_mul_le_mul_left this hrpos
  refine ⟨h1, ?_⟩
  have h3 : (cM * ‖(S i).r‖) ^ 2 ≤ ‖(S i).p‖ ^ 2 :=
    pow_le_pow_left₀ (by positivity) h2 2
  calc cA * cM ^ 2 * ‖(S i).r‖ ^ 2 = cA * (cM * ‖(S i).r‖) ^ 2 := by ring
    _ ≤ cA * ‖(S i).p‖ ^ 2 := mul_le_mul_of_nonneg_left h3 hcA.le
    _ ≤ RCLike.re ⟪(S i).p, A (S i).p⟫_𝕜 := cA' _
    _ ≤ ‖⟪(S i).p, A (S i).p⟫_𝕜‖ := RCLike.re_le_norm _

/-- all three guards of step `i` are off as soon as the residuals `r_0 … r_i` are non-zero and
`τ ≤ ‖r_i‖` for an admissible `τ` -/
theorem guardsOff_of_resid (hA : A.IsSymmetric) (hM : M.IsSymmetric) {ε cA cM τ : ℝ} (hcA : 0 < cA)
    (hcM : 0 < cM) (cA' : Coercive A cA) (cM' : Coercive M cM) (hτ0 : 0 ≤ τ)
    (hτ : TolAdmissible ε cA cM τ) {i : ℕ} (hr : ∀ j ≤ i, (S j).r ≠ 0) (hi : τ ≤ ‖(S i).r‖) :
    GuardsOff A M ε b x0 i := by
  obtain ⟨h1, h2⟩ := guards_lower hA hM hcA hcM cA' cM' hr
  have hsq : τ ^ 2 ≤ ‖(S i).r‖ ^ 2 := pow_le_pow_left₀ hτ0 hi 2
  refine ⟨hτ.r.trans hi, ?_, ?_⟩
  · exact (hτ.g.trans (mul_le_mul_of_nonneg_left hsq hcM.le)).trans h1
  · exact (hτ.d.trans (mul_le_mul_of_nonneg_left hsq (by positivity))).trans h2

/-- guards off for the first `k` steps from a lower bound on the residuals of the sequence itself -/
theorem guardsOff_all_of_resid (hA : A.IsSymmetric) (hM : M.IsSymmetric) {ε cA cM τ : ℝ}
    (hcA : 0 < cA) (hcM : 0 < cM) (cA' : Coercive A cA) (cM' : Coercive M cM) (hτ0 : 0 < τ)
    (hτ : TolAdmissible ε cA cM τ) {k : ℕ} (hres : ∀ i < k, τ ≤ ‖(S i).r‖) :
    ∀ i < k, GuardsOff A M ε b x0 i := by
  intro i hi
  refine guardsOff_of_resid hA hM hcA hcM cA' cM' hτ0.le hτ ?_ (hres i hi)
  intro j hj h0
  have := hres j (lt_of_le_of_lt hj hi)
  rw [h0, norm_zero] at this
  linarith

end abstract

section normalised
variable {𝕜 E : Type*} [RCLike 𝕜] [NormedAddCommGroup E] [InnerProductSpace 𝕜 E]
variable {A M : E →ₗ[𝕜] E}

/-- **`GuardsOffN` from the residuals of textbook CG on the ORIGINAL system**: if the true residuals
`r_i = b - A x_i` of the first `k` textbook iterates satisfy `τ ‖b‖ ≤ ‖r_i‖`, no guard acts in the
first `k` steps of the normalised run -/
theorem guardsOffN_of_resid (hA : A.IsSymmetric) (hM : M.IsSymmetric) {ε cA cM τ : ℝ}
    (hcA : 0 < cA) (hcM : 0 < cM) (cA' : Coercive A cA) (cM' : Coercive M cM) (hτ0 : 0 < τ)
    (hτ : TolAdmissible ε cA cM τ) {b x0 : E} (hb : b ≠ 0) {k : ℕ}
    (hres : ∀ i < k, τ * ‖b‖ ≤ ‖(cgSeq A M b x0 i).r‖) : GuardsOffN A M ε b x0 k := by
  have hμ0 : (((‖b‖ : ℝ) : 𝕜)) ≠ 0 := by
    have : ‖b‖ ≠ 0 := norm_ne_zero_iff.mpr hb
    exact_mod_cast this
  have hbpos : 0 < ‖b‖ := norm_pos_iff.mpr hb
  apply guardsOff_all_of_resid hA hM hcA hcM cA' cM' hτ0 hτ
  intro i hi
  rw [cgSeq_smul (inv_ne_zero hμ0)]
  show τ ≤ ‖(((‖b‖ : ℝ) : 𝕜))⁻¹ • (cgSeq A M b x0 i).r‖
  rw [norm_smul, norm_inv, RCLike.norm_ofReal, abs_of_pos hbpos, le_inv_mul_iff₀ hbpos, mul_comm]
  exact hres i hi

/-- the directions of textbook CG span the preconditioned Krylov space while the residuals are
non-zero (HPD inputs; `dirs_eq_krylov` with its hypothesis discharged) -/
theorem dirs_eq_krylov_of_resid (hA : A.IsSymmetric) (hM : M.IsSymmetric) (pA : PosDefOp A)
    (pM : PosDefOp M) {b x0 : E} (k : ℕ) (hr : ∀ i < k, (cgSeq A M b x0 i).r ≠ 0) :
    dirs A M b x0 k = krylov (M ∘ₗ A) (M (b - A x0)) k :=
  dirs_eq_krylov k (noBreak_of_posDef hA hM pA pM k hr)

end normalised

/-! ## matrices -/

section matrix
open WithLp
open scoped ComplexOrder
variable {𝕜 : Type} [RCLike 𝕜] {n m : ℕ}

attribute [local instance] rcOps

/-- every positive definite matrix is coercive with some `c > 0` (compactness of the unit sphere;
`c` can be taken to be the smallest eigenvalue) -/
theorem exists_coercive_of_posDefOp {T : EuclideanSpace 𝕜 (Fin n) →ₗ[𝕜] EuclideanSpace 𝕜 (Fin n)}
    (hT : PosDefOp T) : ∃ c : ℝ, 0 < c ∧ Coercive T c := by
  classical
  by_cases hne : (Metric.sphere (0 : EuclideanSpace 𝕜 (Fin n)) 1).Nonempty
  · have hcont : Continuous fun v : EuclideanSpace 𝕜 (Fin n) => RCLike.re ⟪v, T v⟫_𝕜 := by
      have hTc : Continuous T := LinearMap.continuous_of_finiteDimensional T
      exact RCLike.continuous_re.comp (continuous_id.inner hTc)
    obtain ⟨u, hu, hmin⟩ := (isCompact_sphere (0 : EuclideanSpace 𝕜 (Fin n)) 1).exists_isMinOn hne
      hcont.continuousOn
    have hu1 : ‖u‖ = 1 := by simpa using hu
    have hu0 : u ≠ 0 := by intro h; rw [h, norm_zero] at hu1; exact zero_ne_one hu1
    refine ⟨RCLike.re ⟪u, T u⟫_𝕜, hT u hu0, ?_⟩
    intro v
    by_cases hv : v = 0
    · subst hv; simp
    · have hvpos : 0 < ‖v‖ := norm_pos_iff.mpr hv
      set w : EuclideanSpace 𝕜 (Fin n) := (((‖v‖ : ℝ) : 𝕜))⁻¹ • v with hw
      have hvK : (((‖v‖ : ℝ) : 𝕜)) ≠ 0 := by exact_mod_cast hvpos.ne'
      have hw1 : w ∈ Metric.sphere (0 : EuclideanSpace 𝕜 (Fin n)) 1 := by
        simp only [mem_sphere_iff_norm, sub_zero, hw]
        rw [norm_smul, norm_inv, RCLike.norm_ofReal, abs_of_pos hvpos, inv_mul_cancel₀ hvpos.ne']
      have hle : RCLike.re ⟪u, T u⟫_𝕜 ≤ RCLike.re ⟪w, T w⟫_𝕜 := hmin hw1
      have hvw : v = ((‖v‖ : ℝ) : 𝕜) • w := by
        rw [hw, smul_smul, mul_inv_cancel₀ hvK, one_smul]
      have : RCLike.re ⟪v, T v⟫_𝕜 = ‖v‖ ^ 2 * RCLike.re ⟪w, T w⟫_𝕜 := by
        conv_lhs => rw [hvw]
        rw [map_smul, inner_smul_left, inner_smul_right, RCLike.conj_ofReal, ← mul_assoc,
          ← RCLike.ofReal_mul, RCLike.re_ofReal_mul]
        ring
      rw [this, mul_comm]
      exact mul_le_mul_of_nonneg_left hle (by positivity)
  · refine ⟨1, one_pos, ?_⟩
    intro v
    have hv : v = 0 := by
      by_contra hv
      apply hne
      have hvpos : 0 < ‖v‖ := norm_pos_iff.mpr hv
      refine ⟨(((‖v‖ : ℝ) : 𝕜))⁻¹ • v, ?_⟩
      simp only [mem_sphere_iff_norm, sub_zero]
      rw [norm_smul, norm_inv, RCLike.norm_ofReal, abs_of_pos hvpos, inv_mul_cancel₀ hvpos.ne']
    subst hv; simp

/-- **one right-hand side, guards off from the inputs**: `A`, `P` Hermitian with coercivity
constants `cA`, `cM`, `b ≠ 0`, and a tolerance `tol` that is admissible for them.  Then no guard of
`take_cg_step` acts during the steps the loop makes: the stopping test keeps `‖r̂_i‖ > tol`. -/
theorem guardsOffN_single {A : Matrix (Fin n) (Fin n) 𝕜} (hA : A.PosDef)
    {P : Option (Matrix (Fin n) (Fin n) 𝕜)} (hP : PrecPosDef P) {cA cM : ℝ} (hcA : 0 < cA)
    (hcM : 0 < cM) (cA' : Coercive (Matrix.toEuclideanLin A) cA) (cM' : Coercive (precLin P) cM)
    (B X0 : Fin 1 → EuclideanSpace 𝕜 (Fin n)) (hb : B 0 ≠ 0) (maxIters : ℕ) {tol : ℝ}
    (htol0 : 0 < tol) (htol : TolAdmissible smallR cA cM tol) :
    GuardsOffN (Matrix.toEuclideanLin A) (precLin P) smallR (B 0) (X0 0)
      (runSteps (matArr A) (P.map matArr) (colsArr B) (colsArr X0) maxIters ((tol : ℝ) : 𝕜)) := by
  have hAs := isSymmetric_toEuclideanLin hA
  have hMs := isSymmetric_precLin hP
  obtain ⟨-, hstop⟩ := run_stop_exact A P B X0 maxIters tol
  set t := runSteps (matArr A) (P.map matArr) (colsArr B) (colsArr X0) maxIters ((tol : ℝ) : 𝕜)
  intro i
  induction i using Nat.strong_induction_on with
  | _ i ih =>
    intro hi
    have hprev : ∀ j < i, GuardsOff (Matrix.toEuclideanLin A) (precLin P) smallR
        ((((‖B 0‖ : ℝ) : 𝕜))⁻¹ • B 0) ((((‖B 0‖ : ℝ) : 𝕜))⁻¹ • X0 0) j :=
      fun j hj => ih j hj (lt_trans hj hi)
    have hcore := gSeq_core (A := Matrix.toEuclideanLin A) (M := precLin P) smallR_pos i hprev
    obtain ⟨j, hj⟩ := hstop i hi
    have hj0 : j = 0 := Subsingleton.elim _ _
    subst hj0
    have hst : (colState A P B X0 0 i).r =
        (cgSeq (Matrix.toEuclideanLin A) (precLin P) ((((‖B 0‖ : ℝ) : 𝕜))⁻¹ • B 0)
          ((((‖B 0‖ : ℝ) : 𝕜))⁻¹ • X0 0) i).r := by
      unfold colState
      rw [show normDen (B 0) = ((‖B 0‖ : ℝ) : 𝕜) from nscale_of_ne hb, ← hcore]
      rfl
    have hge : tol ≤ tolEffR A P B X0 tol 0 := by
      unfold tolEffR
      have : 0 ≤ tol * ‖(colState A P B X0 0 0).r‖ := mul_nonneg htol0.le (norm_nonneg _)
      linarith
    rw [hst] at hj
    refine guardsOff_of_resid hAs hMs hcA hcM cA' cM' htol0.le htol ?_ (hge.trans hj.le)
    intro l hl h0
    rcases Nat.lt_or_eq_of_le hl with hlt | rfl
    · have := (hprev l hlt).1
      rw [h0, norm_zero] at this
      linarith [smallR_pos]
    · rw [h0, norm_zero] at hj
      linarith


/-! ## after the repair of `do_safe_div` (exact zero test): the mask is the only guard -/

/-- **one right-hand side and `tol ≥ 1e-40`**: the mask is off during all the steps the loop makes —
the stopping test keeps the relative residual above `tol`.  No constants of `A`, `P` are involved. -/
theorem maskOffN_single {A : Matrix (Fin n) (Fin n) 𝕜} (hA : A.PosDef)
    {P : Option (Matrix (Fin n) (Fin n) 𝕜)} (hP : PrecPosDef P)
    (B X0 : Fin 1 → EuclideanSpace 𝕜 (Fin n)) (hb : B 0 ≠ 0) (maxIters : ℕ) {tol : ℝ}
    (htol : smallR ≤ tol) :
    MaskOffN (Matrix.toEuclideanLin A) (precLin P) smallR (B 0) (X0 0)
      (runSteps (matArr A) (P.map matArr) (colsArr B) (colsArr X0) maxIters ((tol : ℝ) : 𝕜)) := by
  have hAs := isSymmetric_toEuclideanLin hA
  have hMs := isSymmetric_precLin hP
  have pA := posDefOp_toEuclideanLin hA
  have pM := posDefOp_precLin hP
  have htol0 : 0 < tol := lt_of_lt_of_le smallR_pos htol
  have hbpos : 0 < ‖B 0‖ := norm_pos_iff.mpr hb
  obtain ⟨-, hstop⟩ := run_stop_exact A P B X0 maxIters tol
  intro i
  induction i using Nat.strong_induction_on with
  | _ i ih =>
    intro hi
    have hprev : MaskOffN (Matrix.toEuclideanLin A) (precLin P) smallR (B 0) (X0 0) i :=
      fun j hj => ih j hj (lt_trans hj hi)
    have hok := stepOKN_of_maskOff hAs hMs pA pM smallR_pos hb hprev
    have hres := (gState_r_true_ok hAs hMs pA pM smallR_pos hb hok).2
    obtain ⟨j, hj⟩ := hstop i hi
    have hj0 : j = 0 := Subsingleton.elim _ _
    subst hj0
    have hst : (colState A P B X0 0 i).r = (((‖B 0‖ : ℝ) : 𝕜))⁻¹ •
        (cgSeq (Matrix.toEuclideanLin A) (precLin P) (B 0) (X0 0) i).r := hres
    have hge : tol ≤ tolEffR A P B X0 tol 0 := by
      unfold tolEffR
      have : 0 ≤ tol * ‖(colState A P B X0 0 0).r‖ := mul_nonneg htol0.le (norm_nonneg _)
      linarith
    rw [hst, norm_smul, norm_inv, RCLike.norm_ofReal, abs_of_pos hbpos] at hj
    have h1 : smallR < (‖B 0‖)⁻¹ * ‖(cgSeq (Matrix.toEuclideanLin A) (precLin P) (B 0) (X0 0) i).r‖ :=
      lt_of_le_of_lt (htol.trans hge) hj
    rw [lt_inv_mul_iff₀ hbpos, mul_comm] at h1
    exact h1.le

/-- value returned for column `j`: optimality from the mask condition alone (any batch) -/
theorem xOut_optimal_mask {A : Matrix (Fin n) (Fin n) 𝕜} (hA : A.PosDef)
    {P : Option (Matrix (Fin n) (Fin n) 𝕜)} (hP : PrecPosDef P)
    (B X0 : Fin m → EuclideanSpace 𝕜 (Fin n)) (maxIters : ℕ) (tol : 𝕜) (j : Fin m)
    (hb : B j ≠ 0)
    (hg : MaskOffN (Matrix.toEuclideanLin A) (precLin P) smallR (B j) (X0 j)
      (runSteps (matArr A) (P.map matArr) (colsArr B) (colsArr X0) maxIters tol))
    {xs : EuclideanSpace 𝕜 (Fin n)} (hxs : Matrix.toEuclideanLin A xs = B j) :
    let k := runSteps (matArr A) (P.map matArr) (colsArr B) (colsArr X0) maxIters tol
    let Kry := krylov (precLin P ∘ₗ Matrix.toEuclideanLin A)
      (precLin P (B j - Matrix.toEuclideanLin A (X0 j))) k
    xOut A P B X0 maxIters tol j =
      (cgSeq (Matrix.toEuclideanLin A) (precLin P) (B j) (X0 j) k).x ∧
    xOut A P B X0 maxIters tol j - X0 j ∈ Kry ∧
    (∀ y, y - X0 j ∈ Kry →
      energy (Matrix.toEuclideanLin A) xs (xOut A P B X0 maxIters tol j) ≤
        energy (Matrix.toEuclideanLin A) xs y) ∧
    (∀ y, y - X0 j ∈ Kry →
      energy (Matrix.toEuclideanLin A) xs y ≤
        energy (Matrix.toEuclideanLin A) xs (xOut A P B X0 maxIters tol j) →
      y = xOut A P B X0 maxIters tol j) :=
  gRun_optimal_mask (isSymmetric_toEuclideanLin hA) (isSymmetric_precLin hP)
    (posDefOp_toEuclideanLin hA) (posDefOp_precLin hP) smallR_pos hb hg hxs

/-- value returned for column `j`, unconditionally (any batch, any `tol`, any `max_iters`) -/
theorem xOut_final {A : Matrix (Fin n) (Fin n) 𝕜} (hA : A.PosDef)
    {P : Option (Matrix (Fin n) (Fin n) 𝕜)} (hP : PrecPosDef P)
    (B X0 : Fin m → EuclideanSpace 𝕜 (Fin n)) (maxIters : ℕ) (tol : 𝕜) (j : Fin m) (hb : B j ≠ 0) :
    ∃ k', k' ≤ runSteps (matArr A) (P.map matArr) (colsArr B) (colsArr X0) maxIters tol ∧
      MaskOffN (Matrix.toEuclideanLin A) (precLin P) smallR (B j) (X0 j) k' ∧
      (k' = runSteps (matArr A) (P.map matArr) (colsArr B) (colsArr X0) maxIters tol ∨
        ‖(cgSeq (Matrix.toEuclideanLin A) (precLin P) (B j) (X0 j) k').r‖ < smallR * ‖B j‖) ∧
      xOut A P B X0 maxIters tol j =
        (cgSeq (Matrix.toEuclideanLin A) (precLin P) (B j) (X0 j) k').x :=
  gRun_final (isSymmetric_toEuclideanLin hA) (isSymmetric_precLin hP)
    (posDefOp_toEuclideanLin hA) (posDefOp_precLin hP) smallR_pos hb _

end matrix

end CG
