import ColaVerif.Lemmas.RngHutch
import Mathlib.MeasureTheory.Integral.Bochner.Basic

/-!
# C17 — unbiasedness of the Hutchinson estimator over an arbitrary probability space

The statement Gaussian probes need: `Ω` any measurable space with a measure `μ`; the probe column
has integrable products with `∫ z_j z_l dμ = δ_jl` (for i.i.d. standard normal entries this is
`Var = 1`, `Cov = 0`; it is a HYPOTHESIS here, named `GaussianSecondMoments` in `Properties/C17`).
-/

open Finset MeasureTheory

namespace ColaVerif.Hutch

variable {Ω : Type} [MeasurableSpace Ω]

theorem est_integral (μ : Measure Ω) (n : Nat) (A : MatF ℝ) (Z : Ω → MatF ℝ) (k : Int)
    (hk : k.natAbs < n) (t c : Nat) (ht : t < n - k.natAbs)
    (hint : ∀ j l, j < n → l < n → Integrable (fun ω => Z ω j c * Z ω l c) μ)
    (hmom : ∀ j l, j < n → l < n → ∫ ω, Z ω j c * Z ω l c ∂μ = if j = l then 1 else 0) :
    ∫ ω, est n A (Z ω) k t c ∂μ = diagK A k t := by
  have h1 : (fun ω => est n A (Z ω) k t c)
      = fun ω => ∑ q ∈ range n, A (rowA k t) q * (Z ω q c * Z ω (rowZ k t) c) := by
    funext ω; exact est_sum_form n A (Z ω) k hk t c ht
  rw [h1, integral_finsetSum]
  · have h2 : ∀ q ∈ range n, ∫ ω, A (rowA k t) q * (Z ω q c * Z ω (rowZ k t) c) ∂μ
        = A (rowA k t) q * (if q = rowZ k t then 1 else 0) := by
      intro q hq
      rw [integral_const_mul, hmom q (rowZ k t) (Finset.mem_range.mp hq) (rowZ_lt n k t ht)]
    rw [Finset.sum_congr rfl h2]
    simp only [mul_ite, mul_one, mul_zero]
    rw [Finset.sum_ite_eq' (range n) (rowZ k t)]
    rw [if_pos (Finset.mem_range.mpr (rowZ_lt n k t ht)), diagK_eq]
  · intro q hq
    exact (hint q (rowZ k t) (Finset.mem_range.mp hq) (rowZ_lt n k t ht)).const_mul _

end ColaVerif.Hutch
