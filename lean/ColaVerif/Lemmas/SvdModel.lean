import Mathlib.Analysis.Real.Sqrt
import Mathlib.Analysis.Complex.Basic
import ColaVerif.Lemmas.OpMatmat
import ColaVerif.Lemmas.AnnotSound
import ColaVerif.Lemmas.SvdBridge
import ColaVerif.Lemmas.SvdPerm

/-!
# C16: the statements of `Properties/C16.lean` about the definitions of `Model/Svd.lean`

Glue between the model (`svdDense`, `svdKrylov`, `svdIdentity`, `svdDiagonal`, `pinv…`) and the
matrix lemmas (`SvdBacksub`, `SvdSelect`, `SvdPinv`, `SvdBridge`, `SvdPerm`).
-/

open Matrix

namespace Svd

set_option linter.unusedSectionVars false
set_option linter.unusedVariables false

variable {𝕜 : Type} [RCLike 𝕜]

/-! ## back-substitution -/

theorem diagonal_sinv (k : Nat) (sigma : Nat → ℝ) (sinv : Nat → 𝕜)
    (h : ∀ i, i < k → sinv i = (((sigma i)⁻¹ : ℝ) : 𝕜)) :
    (diagonal (fun i : Fin k => sinv i.val) : Matrix (Fin k) (Fin k) 𝕜) =
      rdiag (fun i : Fin k => (sigma i.val)⁻¹) := by
  unfold rdiag
  congr 1
  funext i
  exact h i.val i.isLt

theorem diagonal_lam (k : Nat) (lam sigma : Nat → ℝ) (hpos : ∀ i, i < k → 0 < lam i)
    (hs : ∀ i, i < k → sigma i = Real.sqrt (lam i)) :
    (diagonal (fun i : Fin k => ((lam i.val : ℝ) : 𝕜)) : Matrix (Fin k) (Fin k) 𝕜) =
      rdiag (fun i : Fin k => sigma i.val ^ 2) := by
  unfold rdiag
  congr 1
  funext i
  show ((lam i.val : ℝ) : 𝕜) = ((sigma i.val ^ 2 : ℝ) : 𝕜)
  rw [hs i.val i.isLt, Real.sq_sqrt (le_of_lt (hpos i.val i.isLt))]

theorem sigma_pos (k : Nat) (lam sigma : Nat → ℝ) (hpos : ∀ i, i < k → 0 < lam i)
    (hs : ∀ i, i < k → sigma i = Real.sqrt (lam i)) : ∀ i, i < k → 0 < sigma i := by
  intro i hi
  rw [hs i hi]
  exact Real.sqrt_pos.mpr (hpos i hi)

theorem krylov_tall_spec (m n k : Nat) (A Vs : MatF 𝕜) (lam sigma : Nat → ℝ) (sinv : Nat → 𝕜)
    (eigs_contract :
      (MatF.toMatrix n k Vs)ᴴ * MatF.toMatrix n k Vs = 1 ∧
      (MatF.toMatrix m n A)ᴴ * MatF.toMatrix m n A * MatF.toMatrix n k Vs =
        MatF.toMatrix n k Vs * diagonal (fun i : Fin k => ((lam i.val : ℝ) : 𝕜)) ∧
      ∀ i, i < k → 0 < lam i)
    (sqrt_contract : ∀ i, i < k → sigma i = Real.sqrt (lam i))
    (inv_contract : ∀ i, i < k → sinv i = (((sigma i)⁻¹ : ℝ) : 𝕜)) :
    let Am := MatF.toMatrix m n A
    let V := MatF.toMatrix n k Vs
    let U := MatF.toMatrix m k (backsubU n k A Vs sinv)
    let Sg : Matrix (Fin k) (Fin k) 𝕜 := diagonal (fun i : Fin k => ((sigma i.val : ℝ) : 𝕜))
    (∀ i, i < k → 0 < sigma i) ∧ Uᴴ * U = 1 ∧
    U * Sg * Vᴴ = Am * (V * Vᴴ) ∧
    (Am - U * Sg * Vᴴ) * V = 0 ∧ Uᴴ * (Am - U * Sg * Vᴴ) = 0 ∧
    (V * Vᴴ = 1 → U * Sg * Vᴴ = Am) := by
  intro Am V U Sg
  obtain ⟨hV, hG, hpos⟩ := eigs_contract
  have hsp := sigma_pos k lam sigma hpos sqrt_contract
  have hne : ∀ i : Fin k, sigma i.val ≠ 0 := fun i => ne_of_gt (hsp i.val i.isLt)
  have hU : U = backU Am V (fun i : Fin k => sigma i.val) := by
    show MatF.toMatrix m k (backsubU n k A Vs sinv) = _
    rw [toMatrix_backsubU, diagonal_sinv k sigma sinv inv_contract]
    rfl
  have hSg : Sg = rdiag (fun i : Fin k => sigma i.val) := rfl
  have hG' : Amᴴ * Am * V = V * rdiag (fun i : Fin k => sigma i.val ^ 2) := by
    rw [← diagonal_lam k lam sigma hpos sqrt_contract]
    exact hG
  refine ⟨hsp, ?_, ?_, ?_, ?_, ?_⟩
  · rw [hU]; exact backsubU_orthonormal Am V _ hV hG' hne
  · rw [hU, hSg]; exact backsubU_reconstruct Am V _ hne
  · rw [hU, hSg]; exact backsubU_residual_right Am V _ hV hne
  · rw [hU, hSg]; exact backsubU_residual_left Am V _ hV hG' hne
  · intro hVV
    rw [hU, hSg]; exact backsubU_full Am V _ hne hVV

theorem krylov_wide_spec (m n k : Nat) (A Us : MatF 𝕜) (lam sigma : Nat → ℝ) (sinv : Nat → 𝕜)
    (eigs_contract :
      (MatF.toMatrix m k Us)ᴴ * MatF.toMatrix m k Us = 1 ∧
      MatF.toMatrix m n A * (MatF.toMatrix m n A)ᴴ * MatF.toMatrix m k Us =
        MatF.toMatrix m k Us * diagonal (fun i : Fin k => ((lam i.val : ℝ) : 𝕜)) ∧
      ∀ i, i < k → 0 < lam i)
    (sqrt_contract : ∀ i, i < k → sigma i = Real.sqrt (lam i))
    (inv_contract : ∀ i, i < k → sinv i = (((sigma i)⁻¹ : ℝ) : 𝕜)) :
    let Am := MatF.toMatrix m n A
    let U := MatF.toMatrix m k Us
    let V := MatF.toMatrix n k (backsubV m k A Us sinv)
    let Sg : Matrix (Fin k) (Fin k) 𝕜 := diagonal (fun i : Fin k => ((sigma i.val : ℝ) : 𝕜))
    (∀ i, i < k → 0 < sigma i) ∧ Vᴴ * V = 1 ∧
    U * Sg * Vᴴ = (U * Uᴴ) * Am ∧
    Uᴴ * (Am - U * Sg * Vᴴ) = 0 ∧ (Am - U * Sg * Vᴴ) * V = 0 ∧
    (U * Uᴴ = 1 → U * Sg * Vᴴ = Am) := by
  intro Am U V Sg
  obtain ⟨hU, hG, hpos⟩ := eigs_contract
  have hsp := sigma_pos k lam sigma hpos sqrt_contract
  have hne : ∀ i : Fin k, sigma i.val ≠ 0 := fun i => ne_of_gt (hsp i.val i.isLt)
  have hV : V = backV Am U (fun i : Fin k => sigma i.val) := by
    show MatF.toMatrix n k (backsubV m k A Us sinv) = _
    rw [toMatrix_backsubV, diagonal_sinv k sigma sinv inv_contract]
    rfl
  have hSg : Sg = rdiag (fun i : Fin k => sigma i.val) := rfl
  have hG' : Am * Amᴴ * U = U * rdiag (fun i : Fin k => sigma i.val ^ 2) := by
    rw [← diagonal_lam k lam sigma hpos sqrt_contract]
    exact hG
  refine ⟨hsp, ?_, ?_, ?_, ?_, ?_⟩
  · rw [hV]; exact backsubV_orthonormal Am U _ hU hG' hne
  · rw [hV, hSg]; exact backsubV_reconstruct Am U _ hne
  · rw [hV, hSg]; exact backsubV_residual_left Am U _ hU hne
  · rw [hV, hSg]; exact backsubV_residual_right Am U _ hU hG' hne
  · intro hUU
    rw [hV, hSg]; exact backsubV_full Am U _ hne hUU

/-! ## structural rules of `svd` -/

section structural
variable [DecidableEq 𝕜]

theorem den_annot_f (a : Ann) (B : Op 𝕜) : (Op.annot a B).den.f = B.den.f := by
  rw [Op.den]

theorem den_eye_f (dt : DType) (n : Nat) : (Op.eye dt n : Op 𝕜).den.f = eyeM := by
  rw [Op.den]; rfl

theorem den_diag_f (dt : DType) (n : Nat) (d : Nat → 𝕜) : (Op.diag dt n d).den.f = diagM d := by
  rw [Op.den]; rfl

theorem den_dense_f (dt : DType) (r c : Nat) (a : MatF 𝕜) : (Op.dense dt r c a).den.f = a := by
  rw [Op.den]; rfl

theorem rows_of_core_eye (A : Op 𝕜) (dt : DType) (n : Nat) (hc : A.core = .eye dt n) :
    A.rows = n ∧ A.cols = n := by
  have h1 := Op.core_rows A
  have h2 := Op.core_cols A
  rw [hc] at h1 h2
  simp only [Op.rows, Op.cols] at h1 h2
  exact ⟨h1.symm, h2.symm⟩

theorem svdIdentity_spec (A : Op 𝕜) (dt : DType) (n : Nat) (hc : A.core = .eye dt n) :
    let T := svdIdentity A
    svdRule A .omitted = .identity ∧ (∀ alg, svdRule A alg = .identity) ∧
    MatF.toMatrix n n T.U.den.f = (1 : Matrix (Fin n) (Fin n) 𝕜) ∧
    MatF.toMatrix n n T.V.den.f = (1 : Matrix (Fin n) (Fin n) 𝕜) ∧
    MatF.toMatrix n n T.S.den.f = diagonal (fun _ : Fin n => (((1 : ℝ) : ℝ) : 𝕜)) ∧
    MatF.toMatrix n n T.U.den.f * MatF.toMatrix n n T.S.den.f * (MatF.toMatrix n n T.V.den.f)ᴴ =
      MatF.toMatrix n n A.den.f := by
  intro T
  have hU : MatF.toMatrix n n T.U.den.f = (1 : Matrix (Fin n) (Fin n) 𝕜) := by
    show MatF.toMatrix n n (Op.annot .unitary (.eye A.dtype A.rows)).den.f = 1
    rw [den_annot_f, den_eye_f, MatF.toMatrix_eyeM]
  have hS : MatF.toMatrix n n T.S.den.f = diagonal (fun _ : Fin n => (((1 : ℝ) : ℝ) : 𝕜)) := by
    show MatF.toMatrix n n (Op.diag A.dtype A.rows (fun _ => (1 : 𝕜))).den.f = _
    rw [den_diag_f, toMatrix_diagM_svd]
    simp
  have hA : MatF.toMatrix n n A.den.f = (1 : Matrix (Fin n) (Fin n) 𝕜) := by
    rw [← Op.core_den A, hc, den_eye_f, MatF.toMatrix_eyeM]
  refine ⟨by simp [svdRule, hc], fun alg => by simp [svdRule, hc], hU, hU, hS, ?_⟩
  show MatF.toMatrix n n T.U.den.f * MatF.toMatrix n n T.S.den.f * (MatF.toMatrix n n T.U.den.f)ᴴ = _
  rw [hU, hS, hA]
  simp

/-- the phase of a scalar: `z / |z|`, `1` for `z = 0` -/
noncomputable def phaseOf (z : 𝕜) : 𝕜 := if ((‖z‖ : ℝ) : 𝕜) = 0 then 1 else z * (((‖z‖ : ℝ) : 𝕜))⁻¹

theorem phaseOf_unit (z : 𝕜) : star (phaseOf z) * phaseOf z = 1 := by
  unfold phaseOf
  split
  · simp
  · rename_i h
    rw [star_mul', star_inv₀, RCLike.star_def, RCLike.conj_ofReal]
    have h2 : (starRingEnd 𝕜) z * z = (((‖z‖ : ℝ) : 𝕜)) ^ 2 := by
      rw [RCLike.conj_mul]
    calc (starRingEnd 𝕜) z * (((‖z‖ : ℝ) : 𝕜))⁻¹ * (z * (((‖z‖ : ℝ) : 𝕜))⁻¹)
        = ((starRingEnd 𝕜) z * z) * ((((‖z‖ : ℝ) : 𝕜))⁻¹ * (((‖z‖ : ℝ) : 𝕜))⁻¹) := by ring
      _ = 1 := by
        rw [h2]
        field_simp

theorem phaseOf_mul_norm (z : 𝕜) : phaseOf z * (((‖z‖ : ℝ) : 𝕜)) = z := by
  unfold phaseOf
  split
  · rename_i h
    have hz : z = 0 := by
      have : (‖z‖ : ℝ) = 0 := by exact_mod_cast h
      exact norm_eq_zero.mp this
    rw [h, hz]; simp
  · rename_i h
    rw [mul_assoc, inv_mul_cancel₀ h, mul_one]

theorem svdDiagonal_spec (P : Params 𝕜) (habs : ∀ z : 𝕜, P.abs z = ((‖z‖ : ℝ) : 𝕜))
    (hinv : ∀ z : 𝕜, P.inv z = z⁻¹) (A : Op 𝕜) (dt : DType) (n : Nat) (d : Nat → 𝕜)
    (hc : A.core = .diag dt n d) :
    let T := svdDiagonal P A
    let U := MatF.toMatrix n n T.U.den.f
    let Sg := MatF.toMatrix n n T.S.den.f
    let V := MatF.toMatrix n n T.V.den.f
    (∀ alg, svdRule A alg = .diagonal) ∧
    Uᴴ * U = 1 ∧ U * Uᴴ = 1 ∧ V = 1 ∧
    Sg = diagonal (fun i : Fin n => ((‖d i.val‖ : ℝ) : 𝕜)) ∧ (∀ i : Fin n, 0 ≤ ‖d i.val‖) ∧
    U * Sg * Vᴴ = MatF.toMatrix n n A.den.f := by
  intro T U Sg V
  have hT : T = ⟨.annot .unitary (.diag A.dtype n (fun i => if P.abs (d i) = 0 then 1 else d i * P.inv (P.abs (d i)))),
      .diag A.dtype n (fun i => P.abs (d i)), .annot .unitary (.eye A.dtype A.rows)⟩ := by
    show svdDiagonal P A = _
    unfold svdDiagonal
    simp only [hc]
  have hU : U = diagonal (fun i : Fin n => phaseOf (d i.val)) := by
    show MatF.toMatrix n n T.U.den.f = _
    rw [hT, den_annot_f, den_diag_f, toMatrix_diagM_svd]
    congr 1
    funext i
    simp only [habs, hinv, phaseOf]
  have hS : Sg = diagonal (fun i : Fin n => ((‖d i.val‖ : ℝ) : 𝕜)) := by
    show MatF.toMatrix n n T.S.den.f = _
    rw [hT, den_diag_f, toMatrix_diagM_svd]
    congr 1
    funext i
    exact habs _
  have hV : V = 1 := by
    show MatF.toMatrix n n T.V.den.f = _
    rw [hT, den_annot_f, den_eye_f, MatF.toMatrix_eyeM]
  have hA : MatF.toMatrix n n A.den.f = diagonal (fun i : Fin n => d i.val) := by
    rw [← Op.core_den A, hc, den_diag_f, toMatrix_diagM_svd]
  refine ⟨fun alg => by simp [svdRule, hc], ?_, ?_, hV, hS, fun i => norm_nonneg _, ?_⟩
  · rw [hU, diagonal_conjTranspose, diagonal_mul_diagonal, ← diagonal_one]
    congr 1
    funext i
    exact phaseOf_unit (d i.val)
  · rw [hU, diagonal_conjTranspose, diagonal_mul_diagonal, ← diagonal_one]
    congr 1
    funext i
    have := phaseOf_unit (d i.val)
    rw [mul_comm] at this
    exact this
  · rw [hU, hS, hV, hA, conjTranspose_one, Matrix.mul_one, diagonal_mul_diagonal]
    congr 1
    funext i
    exact phaseOf_mul_norm (d i.val)

end structural

/-! ## DenseSVD -/

section dense
variable [DecidableEq 𝕜]

theorem orthonormal_den (X : Op 𝕜) : (orthonormal X).den.f = X.den.f := by
  unfold orthonormal
  split <;> rw [den_annot_f]

theorem orthonormal_rows (X : Op 𝕜) : (orthonormal X).rows = X.rows := by
  unfold orthonormal
  split <;> simp only [Op.rows]

theorem orthonormal_cols (X : Op 𝕜) : (orthonormal X).cols = X.cols := by
  unfold orthonormal
  split <;> simp only [Op.cols]

theorem svdDense_spec (P : Params 𝕜) (A : Op 𝕜)
    (A_good : A.wf = true ∧ A.dupSlice = false ∧ A.HermOK) (s : Nat → ℝ)
    (lapack_contract :
      let o := P.lapackSvd A.rows A.cols A.td.f
      let r := min A.rows A.cols
      let U1 := MatF.toMatrix A.rows r o.U
      let V1 := MatF.toMatrix A.cols r o.V
      (∀ i, i < r → o.s i = ((s i : ℝ) : 𝕜) ∧ 0 ≤ s i) ∧ U1ᴴ * U1 = 1 ∧ V1ᴴ * V1 = 1 ∧
        U1 * diagonal (fun i : Fin r => o.s i.val) * V1ᴴ = MatF.toMatrix A.rows A.cols A.td.f) :
    let res := svdDense P A
    let idx := res.1
    let k := idx.length
    let U := MatF.toMatrix A.rows k res.2.U.den.f
    let Sg := MatF.toMatrix k k res.2.S.den.f
    let V := MatF.toMatrix A.cols k res.2.V.den.f
    k = min A.rows A.cols ∧ idx.Perm (List.range (min A.rows A.cols)) ∧
    res.2.U.rows = A.rows ∧ res.2.U.cols = k ∧ res.2.V.rows = A.cols ∧ res.2.V.cols = k ∧
    Uᴴ * U = 1 ∧ Vᴴ * V = 1 ∧
    Sg = diagonal (fun i : Fin k => ((s (idx.getD i.val 0) : ℝ) : 𝕜)) ∧
    (∀ i : Fin k, 0 ≤ s (idx.getD i.val 0)) ∧
    U * Sg * Vᴴ = MatF.toMatrix A.rows A.cols A.den.f := by
  intro res idx k U Sg V
  obtain ⟨hs, hU1, hV1, hrec⟩ := lapack_contract
  set o := P.lapackSvd A.rows A.cols A.td.f with ho
  set r := min A.rows A.cols with hr
  have hidx : idx = argsort P.lt r o.s := rfl
  have hperm : idx.Perm (List.range r) := by rw [hidx]; exact argsort_perm _ _ _
  have hlen : idx.length = r := by rw [hidx]; exact argsort_length _ _ _
  have hnd : idx.Nodup := by rw [hidx]; exact argsort_nodup _ _ _
  have hlt : ∀ t ∈ idx, t < r := by rw [hidx]; exact argsort_lt _ _ _
  have hUden : res.2.U.den.f = selCols o.U idx := by
    show (orthonormal (.dense A.dtype A.rows r (forceV A.rows r (selCols o.U idx)).f)).den.f = _
    rw [orthonormal_den, den_dense_f, forceV_f]
  have hVden : res.2.V.den.f = selCols o.V idx := by
    show (orthonormal (.dense A.dtype A.cols r (forceV A.cols r (selCols o.V idx)).f)).den.f = _
    rw [orthonormal_den, den_dense_f, forceV_f]
  have hSden : res.2.S.den.f = diagM (selVec o.s idx) := by
    show (Op.diag (realDt A.dtype) r (selVec o.s idx)).den.f = _
    rw [den_diag_f]
  let e := idxEquiv r idx hlt hnd hlen
  have hU : U = (MatF.toMatrix A.rows r o.U).submatrix id e := by
    show MatF.toMatrix A.rows idx.length res.2.U.den.f = _
    rw [hUden]
    exact toMatrix_selCols A.rows r o.U idx hlt hnd hlen
  have hV : V = (MatF.toMatrix A.cols r o.V).submatrix id e := by
    show MatF.toMatrix A.cols idx.length res.2.V.den.f = _
    rw [hVden]
    exact toMatrix_selCols A.cols r o.V idx hlt hnd hlen
  have hSg : Sg = diagonal ((fun j : Fin r => o.s j.val) ∘ e) := by
    show MatF.toMatrix idx.length idx.length res.2.S.den.f = _
    rw [hSden, toMatrix_diagM_svd]
    rfl
  have hidx_lt : ∀ i : Fin k, idx.getD i.val 0 < r := by
    intro i
    apply hlt
    rw [← List.getElem_eq_getD (h := i.isLt) 0]
    exact List.getElem_mem _
  refine ⟨hlen, hperm, ?_, ?_, ?_, ?_, ?_, ?_, ?_, ?_, ?_⟩
  · show (orthonormal (.dense A.dtype A.rows r (forceV A.rows r (selCols o.U idx)).f)).rows = _
    rw [orthonormal_rows]; simp only [Op.rows]
  · show (orthonormal (.dense A.dtype A.rows r (forceV A.rows r (selCols o.U idx)).f)).cols = _
    rw [orthonormal_cols]; simp only [Op.cols]; exact hlen.symm
  · show (orthonormal (.dense A.dtype A.cols r (forceV A.cols r (selCols o.V idx)).f)).rows = _
    rw [orthonormal_rows]; simp only [Op.rows]
  · show (orthonormal (.dense A.dtype A.cols r (forceV A.cols r (selCols o.V idx)).f)).cols = _
    rw [orthonormal_cols]; simp only [Op.cols]; exact hlen.symm
  · rw [hU]; exact thin_permute_orthonormal _ e hU1
  · rw [hV]; exact thin_permute_orthonormal _ e hV1
  · rw [hSg]
    congr 1
    funext i
    exact (hs (idx.getD i.val 0) (hidx_lt i)).1
  · intro i
    exact (hs (idx.getD i.val 0) (hidx_lt i)).2
  · rw [hU, hV, hSg, thin_permute_reconstruct, hrec]
    exact MatF.toMatrix_congr (Op.td_eq A A_good.1 A_good.2.1 A_good.2.2)

end dense

/-! ## the Krylov rules: what the model returns -/

section krylov
variable [DecidableEq 𝕜]

theorem bind_ok' {α β : Type} {x : Except String α} {f : α → Except String β} {b : β}
    (h : (x >>= f) = .ok b) : ∃ a, x = .ok a ∧ f a = .ok b := by
  cases x with
  | error e => cases h
  | ok a => exact ⟨a, rfl, h⟩

theorem sliceCols_resolve (X : Op 𝕜) (sl : Ix) (B : Op 𝕜) (h : sliceCols X sl = .ok B) :
    ∃ l, Ix.resolve X.cols sl = some l ∧ B = .sliced X Op.fullSlice sl := by
  unfold sliceCols at h
  simp only [Op.getitem] at h
  split at h
  · rename_i B' hB
    split at hB
    · rename_i hc
      simp only [Bool.and_eq_true] at hc
      obtain ⟨l, hl⟩ := Option.isSome_iff_exists.mp hc.2
      refine ⟨l, hl, ?_⟩
      injection hB with hB
      injection h with h
      rw [← h, ← hB]
    · cases hB
  · cases h
  · cases h

theorem positions_of_resolve (n : Nat) (k : Int) (w : Which) (sl : Ix) (l : List Nat)
    (hsl : getSlice k w = .ok sl) (hl : Ix.resolve n sl = some l) : positions n k w = .ok l := by
  unfold positions
  rw [hsl]
  simp only [hl]

theorem svdKrylov_spec (P : Params 𝕜) (eigs : Op 𝕜 → Eigs 𝕜) (forceTall : Bool)
    (A : Op 𝕜) (k : Int) (w : Which) (o : KrylovOut 𝕜)
    (h : svdKrylov P eigs forceTall A k w = .ok o) :
    positions o.j k w = .ok o.pos ∧ o.tall = (forceTall || decide (A.cols ≤ A.rows)) ∧
    o.triple.S.den.f = diagM (fun t => P.sqrt ((eigs o.G).vals (o.pos.getD t 0))) ∧
    o.specBack.f =
      (if o.tall then
        backsubU A.cols o.pos.length A.den.f o.triple.V.den.f
          (fun t => P.inv (P.sqrt ((eigs o.G).vals (o.pos.getD t 0))))
      else
        backsubV A.rows o.pos.length A.den.f o.triple.U.den.f
          (fun t => P.inv (P.sqrt ((eigs o.G).vals (o.pos.getD t 0))))) := by
  unfold svdKrylov at h
  obtain ⟨sl, hsl, h⟩ := bind_ok' h
  split at h
  · rename_i hcond
    obtain ⟨G, hG, h⟩ := bind_ok' h
    obtain ⟨V0, hV0, h⟩ := bind_ok' h
    obtain ⟨AV, hAV, h⟩ := bind_ok' h
    obtain ⟨Pr, hPr, h⟩ := bind_ok' h
    have ho := Except.ok.inj h
    obtain ⟨l, hl, _⟩ := sliceCols_resolve (eigs G).W sl V0 hV0
    subst ho
    refine ⟨?_, ?_, ?_, ?_⟩
    · show positions (eigs G).W.cols k w = .ok ((Ix.resolve (eigs G).W.cols sl).getD [])
      rw [hl]
      exact positions_of_resolve _ k w sl l hsl hl
    · show true = _
      rw [hcond]
    · show (Op.diag _ _ _).den.f = _
      rw [den_diag_f]
    · show (forceV _ _ _).f = _
      rw [forceV_f, if_pos rfl]
  · rename_i hcond
    obtain ⟨G, hG, h⟩ := bind_ok' h
    obtain ⟨U0, hU0, h⟩ := bind_ok' h
    obtain ⟨SU, hSU, h⟩ := bind_ok' h
    obtain ⟨Pr, hPr, h⟩ := bind_ok' h
    have ho := Except.ok.inj h
    obtain ⟨l, hl, _⟩ := sliceCols_resolve (eigs G).W sl U0 hU0
    subst ho
    refine ⟨?_, ?_, ?_, ?_⟩
    · show positions (eigs G).W.cols k w = .ok ((Ix.resolve (eigs G).W.cols sl).getD [])
      rw [hl]
      exact positions_of_resolve _ k w sl l hsl hl
    · show false = _
      simp only [Bool.not_eq_true] at hcond
      rw [hcond]
    · show (Op.diag _ _ _).den.f = _
      rw [den_diag_f]
    · show (forceV _ _ _).f = _
      rw [forceV_f, if_neg (by simp)]

end krylov

/-! ## pinv -/

section pinv
variable [DecidableEq 𝕜]

theorem cgPinvApply_spec (m n nb : Nat) (A B : MatF 𝕜) (solve : MatF 𝕜 → MatF 𝕜) (cons : 𝕜)
    (j : Nat) (d : Nat) (c : Nat → 𝕜) :
    let Am := MatF.toMatrix m n A
    let AH : MatF 𝕜 := conjM (transposeM A)
    let b := colE m B j
    let x0 := colE n (solve (mmul m AH B)) j
    let x := colE n (cgPinvApply solve n m nb AH cons B) j
    x = x0 + cons • lin Amᴴ b ∧
    (lin (Amᴴ * Am) x0 = lin Amᴴ b →
      x0 = ∑ t ∈ Finset.range d, c t • lin ((Amᴴ * Am) ^ t) (lin Amᴴ b) →
      IsMinNormLsq (lin Am) b x0 ∧ ‖x - x0‖ = ‖cons‖ * ‖lin Amᴴ b‖) := by
  intro Am AH b x0 x
  have hx : x = x0 + cons • lin Amᴴ b := by
    show colE n (cgPinvApply solve n m nb AH cons B) j = _
    unfold cgPinvApply
    simp only [forceV_f]
    rw [colE_addM, colE_smulM, colE_mmul, MatF.toMatrix_adjoint m n]
  refine ⟨hx, ?_⟩
  intro hsolve hkry
  obtain ⟨h1, _, h3⟩ := pinv_cg Am b x0 cons d c hsolve hkry
  refine ⟨h1, ?_⟩
  rw [hx]
  exact h3

theorem pinvRule_spec (A : Op 𝕜) :
    (∀ alg, pinvRule A alg = .structural ↔
      ((∃ dt n, A.core = .eye dt n) ∨ (∃ dt c n, A.core = .scalar dt c n) ∨
       (∃ dt n d, A.core = .diag dt n d) ∨ (∃ dt p, A.core = .perm dt p))) ∧
    (pinvRule A .omitted = pinvRule A .auto) ∧
    (pinvRule A .auto ≠ .structural →
      (pinvRule A .auto = .lstsq ↔ A.rows * A.cols ≤ 1000000) ∧
      pinvRule A .lstsq = .lstsq ∧ pinvRule A .cg = .cg) := by
  refine ⟨fun alg => ?_, ?_, ?_⟩
  · unfold pinvRule
    split
    · rename_i dt n h; simp [h]
    · rename_i dt c n h; simp [h]
    · rename_i dt n d h; simp [h]
    · rename_i dt p h; simp [h]
    · rename_i h1 h2 h3 h4
      constructor
      · intro h
        cases alg <;> simp only at h <;> (try split at h) <;> cases h
      · rintro (⟨dt, n, h⟩ | ⟨dt, c, n, h⟩ | ⟨dt, n, d, h⟩ | ⟨dt, p, h⟩)
        · exact absurd h (h1 dt n)
        · exact absurd h (h2 dt c n)
        · exact absurd h (h3 dt n d)
        · exact absurd h (h4 dt p)
  · unfold pinvRule
    split <;> rfl
  · intro hne
    unfold pinvRule at hne ⊢
    split at hne
    · exact absurd rfl hne
    · exact absurd rfl hne
    · exact absurd rfl hne
    · exact absurd rfl hne
    · refine ⟨?_, rfl, rfl⟩
      show (if small A.rows A.cols = true then PRule.lstsq else PRule.cg) = PRule.lstsq ↔ _
      unfold small
      by_cases hs : A.rows * A.cols ≤ 1000000
      · simp [hs]
      · simp [hs]

theorem dims_of_core (A C : Op 𝕜) (hc : A.core = C) : A.rows = C.rows ∧ A.cols = C.cols := by
  rw [← hc, Op.core_rows, Op.core_cols]
  exact ⟨rfl, rfl⟩

theorem den_scalar_f (dt : DType) (c : 𝕜) (n : Nat) :
    (Op.scalar dt c n).den.f = fun i j => if i = j then c else 0 := by
  rw [Op.den]; rfl

theorem den_perm_f (dt : DType) (p : List Nat) : (Op.perm dt p : Op 𝕜).den.f = permDen p := by
  rw [Op.den]; rfl

theorem pinv_of_structural (P : Params 𝕜) (A B : Op 𝕜) (alg : PAlg)
    (hr : ∀ alg, pinvRule A alg = .structural) (hB : pinvStructural P.inv A = some B) :
    pinv P A alg = .op B := by
  unfold pinv
  rw [hr alg]
  simp only [hB]

theorem pinvStructural_spec (P : Params 𝕜) (hinv : ∀ z : 𝕜, P.inv z = z⁻¹)
    (A : Op 𝕜) (n : Nat)
    (full_rank :
      (∃ dt, A.core = .eye dt n) ∨ (∃ dt c, A.core = .scalar dt c n ∧ c ≠ 0) ∨
      (∃ dt d, A.core = .diag dt n d ∧ ∀ i, i < n → d i ≠ 0) ∨
      (∃ dt p, A.core = .perm dt p ∧ p.Perm (List.range n))) (alg : PAlg) :
    ∃ B, pinv P A alg = .op B ∧ B.rows = n ∧ B.cols = n ∧
      MatF.toMatrix n n B.den.f * MatF.toMatrix n n A.den.f = 1 ∧
      MatF.toMatrix n n A.den.f * MatF.toMatrix n n B.den.f = 1 ∧
      ∀ b : EuclideanSpace 𝕜 (Fin n),
        lin (MatF.toMatrix n n A.den.f) (lin (MatF.toMatrix n n B.den.f) b) = b ∧
        IsMinNormLsq (lin (MatF.toMatrix n n A.den.f)) b (lin (MatF.toMatrix n n B.den.f) b) := by
  have key : ∀ B : Op 𝕜, pinv P A alg = .op B → B.rows = n → B.cols = n →
      MatF.toMatrix n n B.den.f * MatF.toMatrix n n A.den.f = 1 →
      MatF.toMatrix n n A.den.f * MatF.toMatrix n n B.den.f = 1 →
      ∃ B, pinv P A alg = .op B ∧ B.rows = n ∧ B.cols = n ∧
        MatF.toMatrix n n B.den.f * MatF.toMatrix n n A.den.f = 1 ∧
        MatF.toMatrix n n A.den.f * MatF.toMatrix n n B.den.f = 1 ∧
        ∀ b : EuclideanSpace 𝕜 (Fin n),
          lin (MatF.toMatrix n n A.den.f) (lin (MatF.toMatrix n n B.den.f) b) = b ∧
          IsMinNormLsq (lin (MatF.toMatrix n n A.den.f)) b (lin (MatF.toMatrix n n B.den.f) b) :=
    fun B h1 h2 h3 h4 h5 => ⟨B, h1, h2, h3, h4, h5, fun b => pinv_square _ _ h4 h5 b⟩
  rcases full_rank with ⟨dt, hc⟩ | ⟨dt, c, hc, hc0⟩ | ⟨dt, d, hc, hd⟩ | ⟨dt, p, hc, hp⟩
  · -- Identity: the operator itself
    have hA : MatF.toMatrix n n A.den.f = (1 : Matrix (Fin n) (Fin n) 𝕜) := by
      rw [← Op.core_den A, hc, den_eye_f, MatF.toMatrix_eyeM]
    have hd := dims_of_core A _ hc
    simp only [Op.rows, Op.cols] at hd
    apply key A (pinv_of_structural P A A alg (fun a => by simp [pinvRule, hc]) (by simp [pinvStructural, hc]))
      hd.1 hd.2
    · rw [hA, Matrix.one_mul]
    · rw [hA, Matrix.one_mul]
  · have hA : A.den.f = fun i j => if i = j then c else 0 := by
      rw [← Op.core_den A, hc, den_scalar_f]
    apply key (.scalar dt (P.inv c) n)
      (pinv_of_structural P A _ alg (fun a => by simp [pinvRule, hc]) (by simp [pinvStructural, hc]))
      (by simp only [Op.rows]) (by simp only [Op.cols])
    · rw [den_scalar_f, hA, hinv]; exact (scalar_recip_mul n c hc0).1
    · rw [den_scalar_f, hA, hinv]; exact (scalar_recip_mul n c hc0).2
  · have hA : A.den.f = diagM d := by
      rw [← Op.core_den A, hc, den_diag_f]
    apply key (.diag dt n (fun i => P.inv (d i)))
      (pinv_of_structural P A _ alg (fun a => by simp [pinvRule, hc]) (by simp [pinvStructural, hc]))
      (by simp only [Op.rows]) (by simp only [Op.cols])
    · rw [den_diag_f, hA]; simp only [hinv]; exact (diag_recip_mul n d hd).1
    · rw [den_diag_f, hA]; simp only [hinv]; exact (diag_recip_mul n d hd).2
  · have hA : A.den.f = permDen p := by
      rw [← Op.core_den A, hc, den_perm_f]
    have hl := argsortNat_length n p hp
    apply key (.perm dt (argsortNat p))
      (pinv_of_structural P A _ alg (fun a => by simp [pinvRule, hc]) (by simp [pinvStructural, hc]))
      (by simp only [Op.rows]; exact hl) (by simp only [Op.cols]; exact hl)
    · rw [den_perm_f, hA]; exact (perm_argsort_mul n p hp).1
    · rw [den_perm_f, hA]; exact (perm_argsort_mul n p hp).2

theorem pinvCG_spec (P : Params 𝕜) (A : Op 𝕜) (M : Op 𝕜)
    (hM : Ex.dotRule A.adjointRule A = .ok (.op M))
    (shapes : (M.rows != M.cols || M.cols != A.adjointRule.rows) = false) :
    ∃ c, pinvCG P A = .cg c ∧ c.M = M ∧ c.AH = A.adjointRule ∧
      c.cons = P.precision A.dtype * ((max A.rows A.cols : Nat) : 𝕜) ∧
      c.reg = .prod [.scalar M.dtype c.cons M.rows, .eye M.dtype M.rows] ∧
      c.tail = (if Ex.isIdentity A.adjointRule then []
        else (Ex.prodMembers A.adjointRule).getD [A.adjointRule]) := by
  unfold pinvCG
  simp only [hM, asOp]
  have hmul : Ex.mulRule P.re (Op.eye M.dtype M.rows : Op 𝕜)
      ⟨P.precision A.dtype * ((max A.rows A.cols : Nat) : 𝕜), 0, .pyfloat, false⟩ =
      .ok (.op (.prod [.scalar M.dtype (P.precision A.dtype * ((max A.rows A.cols : Nat) : 𝕜)) M.rows,
        .eye M.dtype M.rows])) := by
    simp [Ex.mulRule, Op.core, Op.dtype, Op.rows]
  simp only [hmul, shapes]
  exact ⟨_, rfl, rfl, rfl, rfl, rfl, rfl⟩

end pinv

end Svd
