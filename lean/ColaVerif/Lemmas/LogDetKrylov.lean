import ColaVerif.Lemmas.LogDetSL
import ColaVerif.Lemmas.UnaryMatFun
import ColaVerif.Lemmas.KrylovPoly
import Mathlib.Analysis.SpecialFunctions.Complex.Log

/-!
# C07: the Lanczos | Arnoldi base rule of `slogdet` is a THEOREM about its parts

```
logA   = apply_unary(clog, A, log_alg)       # LanczosUnary / ArnoldiUnary (C09)
trlogA = trace(logA, trace_alg)              # exact trace: identity probes (C08)
logabs, phase = trlogA.real, exp(trlogA - logabs)
```
The former contract of the kernel, "`exp(tr log A) = det A`", is replaced by what its parts do:

* `exp_trace_matFun` — for ANY matrix function `L = lg(A)` (`MatFun.IsMatFunOn`, the specification of
  C09) of a scalar `lg` with `exp (lg a) = a` on the spectrum, `exp (tr L) = det A`
  (`tr (V D V⁻¹) = tr D`, `det (V D V⁻¹) = det D`, `exp Σ = Π exp`);
* `MatFun.matFun_of_krylov_columns` (Lemmas/UnaryMatFun.lean) — the matrix whose `i`-th column is what `LanczosUnary` / `ArnoldiUnary`
  return for the probe `e_i` (the exact trace hands the identity to `logA @ ·`) IS `lg(A)`, provided
  every probe's factorisation is complete (`A Qᵢ = Qᵢ Tᵢ` — discharged from the loop models of C14 / C15
  in `Lemmas/KrylovCompose.lean`) and the small eigendecompositions meet their LAPACK contract;
* `kernelsOK_of_parts` — hence `KernelsOK` for every kernel triple whose `trlog` is such a trace.
-/

set_option linter.unusedSectionVars false

open Matrix MatFun

namespace Op

/-- **`exp (tr lg(A)) = det A`** -/
theorem exp_trace_matFun {ι : Type} [Fintype ι] [DecidableEq ι] {S : Set ℂ} (lg : ℂ → ℂ)
    (hlg : ∀ a ∈ S, Complex.exp (lg a) = a) {A L : Matrix ι ι ℂ} (h : IsMatFunOn S lg A L) :
    Complex.exp (Matrix.trace L) = Matrix.det A := by
  obtain ⟨V, Vi, d, h1, h2, h3, h4⟩ := h
  have htr : Matrix.trace L = ∑ i, lg (d i) := by
    rw [h4, Matrix.trace_mul_cycle, h1, Matrix.one_mul, Matrix.trace_diagonal]
  have hdet : Matrix.det A = ∏ i, d i := by
    rw [h3, Matrix.det_mul, Matrix.det_mul, mul_right_comm, ← Matrix.det_mul, mul_eq_one_comm.mp h1,
      Matrix.det_one, one_mul, Matrix.det_diagonal]
  rw [htr, hdet, Complex.exp_sum]
  exact Finset.prod_congr rfl (fun i _ => hlg _ (h2 i))

/-- the principal logarithm is a right inverse of `exp` off `0` (the non-singular case) -/
theorem exp_clog : ∀ a ∈ {z : ℂ | z ≠ 0}, Complex.exp (Complex.log a) = a :=
  fun _ ha => Complex.exp_log ha

variable [DecidableEq ℂ]

/-- the contract of the Lanczos | Arnoldi kernel in terms of its parts: the value it returns is the
trace (C08: exact trace) of a matrix that is `lg` of the represented matrix (C09 / the theorem above) -/
def TrlogOfParts (K : DetKernels ℂ ℂ) (lg : ℂ → ℂ) (S : Set ℂ) : Prop :=
  ∀ (la : LogAlg) (ta : TraceAlg) (A : Op ℂ) (t : ℂ), K.trlog la ta A = .ok t → Good A →
    A.rows = A.cols → ∃ L : Matrix (Fin A.rows) (Fin A.rows) ℂ,
      IsMatFunOn S lg (MatF.toMatrix A.rows A.rows A.den.f) L ∧ t = Matrix.trace L

/-- **`KernelsOK` from the parts**: the LAPACK contracts for Cholesky / LU as before; the Krylov
clause is PROVED from `TrlogOfParts` -/
theorem kernelsOK_of_parts (K : DetKernels ℂ ℂ) (lg : ℂ → ℂ) (S : Set ℂ)
    (hlg : ∀ a ∈ S, Complex.exp (lg a) = a)
    (hchol : ∀ (n : Nat) (M L : MatF ℂ), K.chol n M = .ok L →
      (∀ i j, i < n → j < n → M i j = star (M j i)) →
      (∀ i j, i < n → j < n → i < j → L i j = 0) ∧ EqOn n n (mmul n L (conjM (transposeM L))) M)
    (hlu : ∀ (n : Nat) (M : MatF ℂ) (plu : List Nat × MatF ℂ × MatF ℂ), K.lu n M = .ok plu →
      plu.1.length = n ∧ (∀ t ∈ plu.1, t < plu.1.length) ∧ plu.1.Nodup ∧
      (∀ i j, i < n → j < n → i < j → plu.2.1 i j = 0) ∧
      (∀ i j, i < n → j < n → j < i → plu.2.2 i j = 0) ∧
      EqOn n n (mmul n (permDen plu.1) (mmul n plu.2.1 plu.2.2)) M)
    (hparts : TrlogOfParts K lg S) : KernelsOK K.expT := by
  refine ⟨hchol, hlu, ?_⟩
  intro la ta A dd h hg hsq
  obtain ⟨t, ht, hd⟩ := except_map_ok (f := Complex.exp) (x := K.trlog la ta A) h
  obtain ⟨L, hL, htr⟩ := hparts la ta A t ht hg hsq
  rw [← hd, htr, exp_trace_matFun lg hlg hL]
  rfl

end Op
