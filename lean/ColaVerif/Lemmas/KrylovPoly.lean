import Mathlib.LinearAlgebra.Matrix.NonsingularInverse
import Mathlib.LinearAlgebra.Matrix.ConjTranspose
import Mathlib.LinearAlgebra.Matrix.Trace
import Mathlib.LinearAlgebra.Lagrange
import Mathlib.Algebra.Polynomial.AlgebraMap
import Mathlib.Algebra.Polynomial.Eval.Degree
import Mathlib.Analysis.InnerProductSpace.PiL2

/-!
# Krylov subspaces and polynomials of a matrix (shared by C07 / C09; composes with C14 / C15)

Everything here is exact arithmetic on Mathlib matrices.

* `KrylovPoly.aeval_intertwine` — over any commutative ring: if `A * Q = Q * T` (`Q : n × m`
  rectangular, `T : m × m`; NO orthogonality) then `p(A) * Q = Q * p(T)` for EVERY polynomial `p`;
* `aeval_mulVec_start` — hence, when the start vector is `v = c • Q e` (for Lanczos / Arnoldi
  `e = e₁`, `c = ‖v‖`): `p(A) v = c • Q (p(T) e)`;
* `quadrature` — and with `Qᴴ Q = 1`: `vᴴ p(A) v = c̄ c · eᴴ p(T) e` (Gauss quadrature identity;
  `quadrature_single`: `= c̄ c · p(T)₁₁` for `e = e₁`);
* `aeval_of_eigendecomposition` — the small eigendecomposition as a CONTRACT (`T P = P Λ`,
  `P⁻¹ P = 1` — LAPACK `eigh` / `geev` + `solve`): `P p(Λ) P⁻¹ = p(T)`; `matFun_of_agree`: the same
  with `f(Λ)` for any `f` that agrees with `p` on the Ritz values;
* `krylov_end_to_end` — over a field, `A = V diag(d) V⁻¹` diagonalisable: for EVERY scalar function
  `f` the vector `Q P (f(θ) ⊙ P⁻¹ (c e))` that `LanczosUnary._matmat` / `ArnoldiUnary._matmat`
  (cola/linalg/unary/unary.py) return equals `V diag(f(d)) V⁻¹ v` — through the Lagrange interpolant
  of `f` on the union of the two spectra (`Lagrange.interpolate`); `krylovW_end_to_end`: the same for
  the code after /repo 25c506e (`_weighted`: Ritz pairs of zero weight are skipped, so `f` need not
  be defined — `log 0`, `0⁻¹` — at a Ritz value that carries no weight);
* `krylov_quadrature_end_to_end` — `vᴴ f(A) v = |c|² e₁ᵀ P f(Λ) P⁻¹ e₁` under `Qᴴ Q = 1`;
* `mul_eq_of_column_relation` — the bridge to the loop models of C14 / C15, which speak about
  vectors `q i` of an inner product space: for `E = EuclideanSpace 𝕜 (Fin n)` the column relation
  `A (q i) = ∑_{l<k} h l i • q l` (`i < k`) — `OutSpec.rel` with zero residual for `lanczos`
  (`C14_lanczos`), `Arnoldi.Inv.invariant_relation` for `arnoldi` (`C15_eigs_partial`) — IS the
  matrix equation `A * Q = Q * H`.
-/

set_option linter.unusedSectionVars false

open Matrix Polynomial

namespace KrylovPoly

section ring
variable {R : Type} [CommRing R]
variable {ι κ : Type} [Fintype ι] [DecidableEq ι] [Fintype κ] [DecidableEq κ]

theorem pow_intertwine {A : Matrix ι ι R} {T : Matrix κ κ R} {Q : Matrix ι κ R}
    (h : A * Q = Q * T) (k : ℕ) : A ^ k * Q = Q * T ^ k := by
  induction k with
  | zero => simp
  | succ k ih =>
    rw [pow_succ, Matrix.mul_assoc, h, ← Matrix.mul_assoc, ih, Matrix.mul_assoc, ← pow_succ]

/-- **`A Q = Q T ⇒ p(A) Q = Q p(T)` for every polynomial `p`** (commutative ring, rectangular `Q`) -/
theorem aeval_intertwine {A : Matrix ι ι R} {T : Matrix κ κ R} {Q : Matrix ι κ R}
    (h : A * Q = Q * T) (p : R[X]) : aeval A p * Q = Q * aeval T p := by
  rw [aeval_eq_sum_range, aeval_eq_sum_range, Matrix.sum_mul, Matrix.mul_sum]
  apply Finset.sum_congr rfl
  intro k _
  rw [Matrix.smul_mul, Matrix.mul_smul, pow_intertwine h]

/-- `p(A) v = c • Q (p(T) e)` when `v = c • Q e` (normalisation `Q e₁ = v / ‖v‖`, `c = ‖v‖`) -/
theorem aeval_mulVec_start {A : Matrix ι ι R} {T : Matrix κ κ R} {Q : Matrix ι κ R}
    (h : A * Q = Q * T) (p : R[X]) (e : κ → R) (c : R) (v : ι → R) (hv : v = c • Q *ᵥ e) :
    aeval A p *ᵥ v = c • Q *ᵥ (aeval T p *ᵥ e) := by
  rw [hv, Matrix.mulVec_smul, Matrix.mulVec_mulVec, aeval_intertwine h, ← Matrix.mulVec_mulVec]

/-- **quadrature identity**: with `Qᴴ Q = 1`, `vᴴ p(A) v = c̄ c · eᴴ p(T) e` -/
theorem quadrature [StarRing R] {A : Matrix ι ι R} {T : Matrix κ κ R} {Q : Matrix ι κ R}
    (h : A * Q = Q * T) (hQ : Qᴴ * Q = 1) (p : R[X]) (e : κ → R) (c : R) (v : ι → R)
    (hv : v = c • Q *ᵥ e) :
    star v ⬝ᵥ (aeval A p *ᵥ v) = star c * c * (star e ⬝ᵥ (aeval T p *ᵥ e)) := by
  rw [aeval_mulVec_start h p e c v hv, hv, star_smul, Matrix.star_mulVec, smul_dotProduct,
    dotProduct_smul, ← Matrix.dotProduct_mulVec, Matrix.mulVec_mulVec, hQ, Matrix.one_mulVec]
  simp only [smul_eq_mul]
  ring

/-- … for the first canonical vector: `vᴴ p(A) v = c̄ c · p(T)₁₁` -/
theorem quadrature_single [StarRing R] {A : Matrix ι ι R} {T : Matrix κ κ R} {Q : Matrix ι κ R}
    (h : A * Q = Q * T) (hQ : Qᴴ * Q = 1) (p : R[X]) (j : κ) (c : R) (v : ι → R)
    (hv : v = c • Q *ᵥ (Pi.single j (1 : R) : κ → R)) :
    star v ⬝ᵥ (aeval A p *ᵥ v) = star c * c * aeval T p j j := by
  rw [quadrature h hQ p _ c v hv]
  congr 1
  have : star (Pi.single j (1 : R) : κ → R) = Pi.single j 1 := by
    ext i
    by_cases hij : i = j
    · subst hij; simp
    · simp [Pi.single_eq_of_ne hij]
  rw [this]
  simp

/-! ## the small eigendecomposition as a contract -/

theorem conj_pow {V Vi D : Matrix κ κ R} (h1 : Vi * V = 1) (k : ℕ) :
    (V * D * Vi) ^ k = V * D ^ k * Vi := by
  induction k with
  | zero => simp [mul_eq_one_comm.mp h1]
  | succ k ih =>
    rw [pow_succ, ih, pow_succ]
    calc V * D ^ k * Vi * (V * D * Vi) = V * D ^ k * (Vi * V) * D * Vi := by
          simp only [Matrix.mul_assoc]
      _ = V * (D ^ k * D) * Vi := by rw [h1]; simp only [Matrix.mul_one, Matrix.mul_assoc]

/-- `p(V diag(d) V⁻¹) = V diag(p ∘ d) V⁻¹` -/
theorem aeval_conj_diagonal {V Vi : Matrix κ κ R} (d : κ → R) (h1 : Vi * V = 1) (p : R[X]) :
    aeval (V * Matrix.diagonal d * Vi) p = V * Matrix.diagonal (fun i => p.eval (d i)) * Vi := by
  rw [aeval_eq_sum_range]
  have hd : Matrix.diagonal (fun i => p.eval (d i))
      = ∑ k ∈ Finset.range (p.natDegree + 1), p.coeff k • (Matrix.diagonal d) ^ k := by
    ext i j
    rw [Matrix.sum_apply]
    by_cases hij : i = j
    · subst hij
      simp [diagonal_pow, eval_eq_sum_range]
    · simp [diagonal_pow, Matrix.diagonal_apply_ne _ hij]
  rw [hd, Finset.mul_sum, Finset.sum_mul]
  apply Finset.sum_congr rfl
  intro k _
  rw [conj_pow h1, Matrix.mul_smul, Matrix.smul_mul]

/-- the contract of the eigensolver in the form the code uses it: `T P = P Λ`, `P⁻¹ P = 1` gives
`T = P Λ P⁻¹` -/
theorem eq_conj_of_eig {T P Pi : Matrix κ κ R} {θ : κ → R} (hP : Pi * P = 1)
    (hT : T * P = P * Matrix.diagonal θ) : T = P * Matrix.diagonal θ * Pi := by
  have h1 : P * Pi = 1 := mul_eq_one_comm.mp hP
  calc T = T * (P * Pi) := by rw [h1, Matrix.mul_one]
    _ = P * Matrix.diagonal θ * Pi := by rw [← Matrix.mul_assoc, hT]

/-- **`P p(Λ) P⁻¹ = p(T)`** under the eigendecomposition contract -/
theorem aeval_of_eigendecomposition {T P Pi : Matrix κ κ R} {θ : κ → R} (hP : Pi * P = 1)
    (hT : T * P = P * Matrix.diagonal θ) (p : R[X]) :
    P * Matrix.diagonal (fun j => p.eval (θ j)) * Pi = aeval T p := by
  conv_rhs => rw [eq_conj_of_eig hP hT]
  rw [aeval_conj_diagonal θ hP]

/-- `P f(Λ) P⁻¹ = p(T)` for ANY `f` that agrees with the polynomial `p` on the Ritz values -/
theorem matFun_of_agree {T P Pi : Matrix κ κ R} {θ : κ → R} (hP : Pi * P = 1)
    (hT : T * P = P * Matrix.diagonal θ) (f : R → R) (p : R[X]) (hf : ∀ j, p.eval (θ j) = f (θ j)) :
    P * Matrix.diagonal (fun j => f (θ j)) * Pi = aeval T p := by
  rw [← aeval_of_eigendecomposition hP hT p]
  congr 3
  funext j
  exact (hf j).symm

/-- the vector the Krylov operators of unary.py return for one operand:
`Q · P · (f(θ) ⊙ (P⁻¹ · u))`, `u = c e₁` -/
def krylovVec (Q : Matrix ι κ R) (P Pi : Matrix κ κ R) (θ : κ → R) (f : R → R) (u : κ → R) : ι → R :=
  Q *ᵥ (P *ᵥ (fun j => f (θ j) * (Pi *ᵥ u) j))

theorem krylovVec_eq (Q : Matrix ι κ R) (P Pi : Matrix κ κ R) (θ : κ → R) (f : R → R) (u : κ → R) :
    krylovVec Q P Pi θ f u = (Q * (P * Matrix.diagonal (fun j => f (θ j)) * Pi)) *ᵥ u := by
  unfold krylovVec
  rw [← Matrix.mulVec_mulVec, ← Matrix.mulVec_mulVec, ← Matrix.mulVec_mulVec]
  congr 2
  ext j
  simp [Matrix.mulVec_diagonal]

/-- **the Krylov output for a polynomial**: `Q P p(Λ) P⁻¹ (c e) = p(A) v` — commutative ring, no
diagonalisability of `A`, no orthogonality of `Q` -/
theorem krylovVec_poly {A : Matrix ι ι R} {T P Pi : Matrix κ κ R} {Q : Matrix ι κ R} {θ : κ → R}
    (hfac : A * Q = Q * T) (hP : Pi * P = 1) (hT : T * P = P * Matrix.diagonal θ) (p : R[X])
    (f : R → R) (hf : ∀ j, p.eval (θ j) = f (θ j)) (e : κ → R) (c : R) (v : ι → R)
    (hv : v = c • Q *ᵥ e) :
    krylovVec Q P Pi θ f (c • e) = aeval A p *ᵥ v := by
  rw [krylovVec_eq, matFun_of_agree hP hT f p hf, Matrix.mulVec_smul,
    aeval_mulVec_start hfac p e c v hv, Matrix.mulVec_mulVec]

/-! ## `_weighted`: Ritz pairs of zero weight are skipped (/repo 25c506e)

`f` is a PARTIAL function here (`none` = `±inf` / `nan`: `log 0`, `0 ** -2`).  The code forms
`where(w == 0, 0, f(θ) * w)`; in IEEE arithmetic `f(θ) * 0` is `nan` when `f(θ)` is infinite, which is
why the guard is there. -/

/-- `xnp.where(weights == 0, 0, f_eigvals * weights)` with a partial `f` -/
def weighted [DecidableEq R] (fp : R → Option R) (x w : R) : Option R :=
  if w = 0 then some 0 else (fp x).map (· * w)

/-- the weighted Krylov output is defined (no `nan`) and equals the unweighted formula of any total
completion `f` of `fp`, as soon as `fp` is defined on the Ritz values that carry weight -/
theorem weighted_eq [DecidableEq R] (fp : R → Option R) (f : R → R) (x w : R)
    (h : w ≠ 0 → fp x = some (f x)) : weighted fp x w = some (f x * w) := by
  unfold weighted
  split
  · rename_i hw; rw [hw, mul_zero]
  · rename_i hw; rw [h hw]; rfl

/-- without the guard (the code before 25c506e) a zero-weight Ritz value outside the domain of `f`
poisons the result -/
theorem unweighted_undefined (fp : R → Option R) (x w : R) (h : fp x = none) :
    (fp x).map (· * w) = none := by rw [h]; rfl

end ring

/-! ## every scalar function: interpolation on the union of the two spectra -/

section field
variable {𝕜 : Type} [Field 𝕜]
variable {ι κ : Type} [Fintype ι] [DecidableEq ι] [Fintype κ] [DecidableEq κ]

/-- a polynomial with prescribed values on a finite set (`Lagrange.interpolate`) -/
theorem exists_interpolant (s : Finset 𝕜) (f : 𝕜 → 𝕜) : ∃ p : 𝕜[X], ∀ a ∈ s, p.eval a = f a := by
  classical
  refine ⟨Lagrange.interpolate s id f, fun a ha => ?_⟩
  have := Lagrange.eval_interpolate_at_node (s := s) (v := id) f (Set.injOn_id _) ha
  simpa using this

/-- **end to end, every `f`**: `A = V diag(d) V⁻¹`, complete factorisation `A Q = Q T`, small
eigendecomposition `T P = P diag(θ)`, `P⁻¹ P = 1`, start vector `v = c • Q e`.  Then what the code
returns, `Q P (f(θ) ⊙ P⁻¹ (c e))`, is `V diag(f(d)) V⁻¹ v`. -/
theorem krylov_end_to_end {A V Vi : Matrix ι ι 𝕜} {d : ι → 𝕜} {T P Pi : Matrix κ κ 𝕜}
    {Q : Matrix ι κ 𝕜} {θ : κ → 𝕜} (hV : Vi * V = 1) (hA : A = V * Matrix.diagonal d * Vi)
    (hfac : A * Q = Q * T) (hP : Pi * P = 1) (hT : T * P = P * Matrix.diagonal θ)
    (f : 𝕜 → 𝕜) (e : κ → 𝕜) (c : 𝕜) (v : ι → 𝕜) (hv : v = c • Q *ᵥ e) :
    krylovVec Q P Pi θ f (c • e) = (V * Matrix.diagonal (fun i => f (d i)) * Vi) *ᵥ v := by
  classical
  obtain ⟨p, hp⟩ := exists_interpolant (Finset.univ.image d ∪ Finset.univ.image θ) f
  have hpd : ∀ i, p.eval (d i) = f (d i) := fun i =>
    hp _ (Finset.mem_union_left _ (Finset.mem_image_of_mem d (Finset.mem_univ i)))
  have hpθ : ∀ j, p.eval (θ j) = f (θ j) := fun j =>
    hp _ (Finset.mem_union_right _ (Finset.mem_image_of_mem θ (Finset.mem_univ j)))
  have hfd : (fun i => p.eval (d i)) = fun i => f (d i) := funext hpd
  rw [krylovVec_poly hfac hP hT p f hpθ e c v hv, hA, aeval_conj_diagonal d hV, hfd]

/-- the code after 25c506e, `f` partial: defined on the spectrum of `A` and on the Ritz values that
carry weight is enough -/
theorem krylovW_end_to_end [DecidableEq 𝕜] {A V Vi : Matrix ι ι 𝕜} {d : ι → 𝕜}
    {T P Pi : Matrix κ κ 𝕜} {Q : Matrix ι κ 𝕜} {θ : κ → 𝕜} (hV : Vi * V = 1)
    (hA : A = V * Matrix.diagonal d * Vi) (hfac : A * Q = Q * T) (hP : Pi * P = 1)
    (hT : T * P = P * Matrix.diagonal θ) (fp : 𝕜 → Option 𝕜) (f : 𝕜 → 𝕜) (e : κ → 𝕜) (c : 𝕜)
    (v : ι → 𝕜) (hv : v = c • Q *ᵥ e)
    (hdef : ∀ j, (Pi *ᵥ (c • e)) j ≠ 0 → fp (θ j) = some (f (θ j))) :
    (∀ j, weighted fp (θ j) ((Pi *ᵥ (c • e)) j) = some (f (θ j) * (Pi *ᵥ (c • e)) j)) ∧
      krylovVec Q P Pi θ f (c • e) = (V * Matrix.diagonal (fun i => f (d i)) * Vi) *ᵥ v :=
  ⟨fun j => weighted_eq fp f _ _ (hdef j), krylov_end_to_end hV hA hfac hP hT f e c v hv⟩

/-- **quadrature, every `f`**: with `Qᴴ Q = 1`, `vᴴ f(A) v = c̄ c · (P f(Λ) P⁻¹)₁₁` -/
theorem krylov_quadrature_end_to_end [StarRing 𝕜] {A V Vi : Matrix ι ι 𝕜} {d : ι → 𝕜}
    {T P Pi : Matrix κ κ 𝕜} {Q : Matrix ι κ 𝕜} {θ : κ → 𝕜} (hV : Vi * V = 1)
    (hA : A = V * Matrix.diagonal d * Vi) (hfac : A * Q = Q * T) (hQ : Qᴴ * Q = 1)
    (hP : Pi * P = 1) (hT : T * P = P * Matrix.diagonal θ) (f : 𝕜 → 𝕜) (j : κ) (c : 𝕜) (v : ι → 𝕜)
    (hv : v = c • Q *ᵥ (_root_.Pi.single j (1 : 𝕜) : κ → 𝕜)) :
    star v ⬝ᵥ ((V * Matrix.diagonal (fun i => f (d i)) * Vi) *ᵥ v)
      = star c * c * (P * Matrix.diagonal (fun l => f (θ l)) * Pi) j j := by
  classical
  obtain ⟨p, hp⟩ := exists_interpolant (Finset.univ.image d ∪ Finset.univ.image θ) f
  have hpd : ∀ i, p.eval (d i) = f (d i) := fun i =>
    hp _ (Finset.mem_union_left _ (Finset.mem_image_of_mem d (Finset.mem_univ i)))
  have hpθ : ∀ l, p.eval (θ l) = f (θ l) := fun l =>
    hp _ (Finset.mem_union_right _ (Finset.mem_image_of_mem θ (Finset.mem_univ l)))
  have h1 : V * Matrix.diagonal (fun i => f (d i)) * Vi = aeval A p := by
    have hfd : (fun i => p.eval (d i)) = fun i => f (d i) := funext hpd
    rw [hA, aeval_conj_diagonal d hV, hfd]
  rw [h1, matFun_of_agree hP hT f p hpθ]
  exact quadrature_single hfac hQ p j c v hv

end field

/-! ## bridge to the loop models of C14 / C15 -/

section bridge
open Finset
variable {𝕜 : Type} [RCLike 𝕜] {n k : ℕ}

/-- the first `k` vectors as the columns of an `n × k` matrix -/
def colMat (q : ℕ → EuclideanSpace 𝕜 (Fin n)) (k : ℕ) : Matrix (Fin n) (Fin k) 𝕜 :=
  fun a j => q j.val a

/-- the leading `k × k` block of the coefficient table -/
def blockMat (h : ℕ → ℕ → 𝕜) (k : ℕ) : Matrix (Fin k) (Fin k) 𝕜 := fun l i => h l.val i.val

/-- **the column relation of the loop models is the matrix equation `A Q = Q H`** -/
theorem mul_eq_of_column_relation (A : Matrix (Fin n) (Fin n) 𝕜) (q : ℕ → EuclideanSpace 𝕜 (Fin n))
    (h : ℕ → ℕ → 𝕜)
    (hrel : ∀ i, i < k → Matrix.toEuclideanLin A (q i) = ∑ l ∈ range k, h l i • q l) :
    A * colMat q k = colMat q k * blockMat h k := by
  ext a i
  have h1 := congrArg (fun x : EuclideanSpace 𝕜 (Fin n) => x a) (hrel i.val i.isLt)
  have h2 : (Matrix.toEuclideanLin A (q i.val)) a = ∑ b, A a b * q i.val b := rfl
  simp only [h2] at h1
  rw [Matrix.mul_apply, Matrix.mul_apply]
  simp only [colMat, blockMat]
  rw [h1, Finset.sum_fin_eq_sum_range]
  rw [WithLp.ofLp_sum, Finset.sum_apply]
  apply Finset.sum_congr rfl
  intro l hl
  rw [dif_pos (Finset.mem_range.mp hl)]
  simp [mul_comm]

/-- the start vector: `Q e₁ = q 0` -/
theorem colMat_mulVec_single (q : ℕ → EuclideanSpace 𝕜 (Fin n)) (hk : 0 < k) :
    colMat q k *ᵥ (_root_.Pi.single (⟨0, hk⟩ : Fin k) (1 : 𝕜) : Fin k → 𝕜) = (q 0).ofLp := by
  funext a
  simp [colMat]

/-- orthonormal columns: `Qᴴ Q = 1` -/
theorem colMat_orthonormal (q : ℕ → EuclideanSpace 𝕜 (Fin n))
    (hON : ∀ a, a < k → ∀ b, b < k → inner 𝕜 (q a) (q b) = if a = b then (1 : 𝕜) else 0) :
    (colMat q k)ᴴ * colMat q k = 1 := by
  ext a b
  rw [Matrix.mul_apply, Matrix.one_apply]
  have := hON a.val a.isLt b.val b.isLt
  rw [EuclideanSpace.inner_eq_star_dotProduct] at this
  simp only [Fin.ext_iff]
  rw [← this]
  simp [colMat, dotProduct, Matrix.conjTranspose_apply, mul_comm]

end bridge

end KrylovPoly
