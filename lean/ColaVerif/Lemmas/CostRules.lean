import ColaVerif.Model.RuleSkeleton

/-!
# C19, rule level: a structural rule hands only proper sub-terms to generic rules

`Op.dens_sub`: whatever `f(A)` hands to a generic rule is `A` itself or a proper sub-term of `A`;
`Op.dens_proper`: when `f` has a structural rule for the kind of `A` it is never `A` itself.
-/

namespace Op
variable {R : Type}

theorem flat_sub (Ms : List (Op R)) (g : Fn)
    (ih : ∀ M ∈ Ms, ∀ D, D ∈ dens g M → D = M ∨ D ∈ M.subterms) :
    ∀ D, D ∈ (Ms.map (fun M => dens g M)).flatten →
      D ∈ Ms ++ (Ms.map (fun M => M.subterms)).flatten := by
  intro D hD
  simp only [List.mem_flatten, List.mem_map] at hD
  obtain ⟨l, ⟨M, hM, rfl⟩, hD⟩ := hD
  simp only [List.mem_append, List.mem_flatten, List.mem_map]
  rcases ih M hM D hD with rfl | h
  · exact Or.inl hM
  · exact Or.inr ⟨_, ⟨M, hM, rfl⟩, h⟩

/-- everything handed to a generic rule is the operator or one of its proper sub-terms -/
theorem dens_sub : ∀ (A : Op R) (f : Fn) (D : Op R), D ∈ dens f A → D = A ∨ D ∈ A.subterms
  | annot a A, f, D, h => by
    rw [dens] at h
    rw [subterms]
    rcases dens_sub A f D h with rfl | h'
    · exact Or.inr (by simp)
    · exact Or.inr (List.mem_cons_of_mem _ h')
  | kron Ms, f, D, h => by
    rw [dens] at h
    rw [subterms]
    split at h
    · simp at h
    · simp only [List.mem_singleton] at h; exact Or.inl h
    · exact Or.inr (flat_sub Ms _ (fun M _ D hD => dens_sub M _ D hD) D h)
  | kronsum Ms, f, D, h => by
    rw [dens] at h
    rw [subterms]
    split at h
    · simp at h
    · simp only [List.mem_singleton] at h; exact Or.inl h
    · exact Or.inr (flat_sub Ms _ (fun M _ D hD => dens_sub M _ D hD) D h)
  | bdiag Ms mults, f, D, h => by
    rw [dens] at h
    rw [subterms]
    split at h
    · simp at h
    · simp only [List.mem_singleton] at h; exact Or.inl h
    · exact Or.inr (flat_sub Ms _ (fun M _ D hD => dens_sub M _ D hD) D h)
  | prod Ms, f, D, h => by
    rw [dens] at h
    rw [subterms]
    split at h
    · simp at h
    · simp only [List.mem_singleton] at h; exact Or.inl h
    · split at h
      · exact Or.inr (flat_sub Ms _ (fun M _ D hD => dens_sub M _ D hD) D h)
      · simp only [List.mem_singleton] at h; exact Or.inl h
  | sum Ms, f, D, h => by
    rw [dens] at h
    rw [subterms]
    split at h
    · simp at h
    · simp only [List.mem_singleton] at h; exact Or.inl h
    · exact Or.inr (flat_sub Ms _ (fun M _ D hD => dens_sub M _ D hD) D h)
  | transpose A, f, D, h => by
    rw [dens] at h
    rw [subterms]
    split at h
    · simp at h
    · simp only [List.mem_singleton] at h; exact Or.inl h
    · rcases dens_sub A _ D h with rfl | h'
      · exact Or.inr (by simp)
      · exact Or.inr (List.mem_cons_of_mem _ h')
  | adjoint A, f, D, h => by
    rw [dens] at h
    rw [subterms]
    split at h
    · simp at h
    · simp only [List.mem_singleton] at h; exact Or.inl h
    · rcases dens_sub A _ D h with rfl | h'
      · exact Or.inr (by simp)
      · exact Or.inr (List.mem_cons_of_mem _ h')
  | eye dt n, f, D, h => by
    rw [dens] at h; split at h <;> simp at h; exact Or.inl h
  | scalar dt s n, f, D, h => by
    rw [dens] at h; split at h <;> simp at h; exact Or.inl h
  | diag dt n d, f, D, h => by
    rw [dens] at h; split at h <;> simp at h; exact Or.inl h
  | dense dt r c a, f, D, h => by
    rw [dens] at h; split at h <;> simp at h; exact Or.inl h
  | tri dt r c l a, f, D, h => by
    rw [dens] at h; split at h <;> simp at h; exact Or.inl h
  | perm dt p, f, D, h => by
    rw [dens] at h; split at h <;> simp at h; exact Or.inl h
  | sparse dt r c e, f, D, h => by
    rw [dens] at h; simp at h; exact Or.inl h
  | tridiag dt n al be ga, f, D, h => by
    rw [dens] at h; simp at h; exact Or.inl h
  | sliced A s0 s1, f, D, h => by
    rw [dens] at h; simp at h; exact Or.inl h
  | concat ax Ms, f, D, h => by
    rw [dens] at h; simp at h; exact Or.inl h
  | house dt n v beta, f, D, h => by
    rw [dens] at h; simp at h; exact Or.inl h
  | generic A, f, D, h => by
    rw [dens] at h; simp at h; exact Or.inl h
termination_by A => sizeOf A
decreasing_by
  all_goals simp_wf
  all_goals first
    | omega
    | (rename_i hM; have := List.sizeOf_lt_of_mem hM; omega)

/-- with a structural rule for the kind of `A`, only PROPER sub-terms reach a generic rule -/
theorem dens_proper : ∀ (A : Op R) (f : Fn), hasRule f A = true → ∀ D, D ∈ dens f A → D ∈ A.subterms
  | annot a A, f, hr, D, h => by
    rw [dens] at h
    rw [subterms]
    have hr' : hasRule f A = true := by
      simpa only [hasRule, kindOf, prodSquareOK] using hr
    exact List.mem_cons_of_mem _ (dens_proper A f hr' D h)
  | kron Ms, f, hr, D, h => by
    simp only [hasRule, kindOf, prodSquareOK, Bool.and_true, bne_iff_ne, ne_eq] at hr
    rw [dens] at h
    rw [subterms]
    split at h
    · simp at h
    · rename_i he; exact absurd he hr
    · exact flat_sub Ms _ (fun M _ D hD => dens_sub M _ D hD) D h
  | kronsum Ms, f, hr, D, h => by
    simp only [hasRule, kindOf, prodSquareOK, Bool.and_true, bne_iff_ne, ne_eq] at hr
    rw [dens] at h
    rw [subterms]
    split at h
    · simp at h
    · rename_i he; exact absurd he hr
    · exact flat_sub Ms _ (fun M _ D hD => dens_sub M _ D hD) D h
  | bdiag Ms mults, f, hr, D, h => by
    simp only [hasRule, kindOf, prodSquareOK, Bool.and_true, bne_iff_ne, ne_eq] at hr
    rw [dens] at h
    rw [subterms]
    split at h
    · simp at h
    · rename_i he; exact absurd he hr
    · exact flat_sub Ms _ (fun M _ D hD => dens_sub M _ D hD) D h
  | prod Ms, f, hr, D, h => by
    simp only [hasRule, kindOf, prodSquareOK, Bool.and_eq_true, bne_iff_ne, ne_eq] at hr
    rw [dens] at h
    rw [subterms]
    split at h
    · simp at h
    · rename_i he; exact absurd he hr.1
    · split at h
      · exact flat_sub Ms _ (fun M _ D hD => dens_sub M _ D hD) D h
      · rename_i hc; exact absurd hr.2 hc
  | sum Ms, f, hr, D, h => by
    simp only [hasRule, kindOf, prodSquareOK, Bool.and_true, bne_iff_ne, ne_eq] at hr
    rw [dens] at h
    rw [subterms]
    split at h
    · simp at h
    · rename_i he; exact absurd he hr
    · exact flat_sub Ms _ (fun M _ D hD => dens_sub M _ D hD) D h
  | transpose A, f, hr, D, h => by
    simp only [hasRule, kindOf, prodSquareOK, Bool.and_true, bne_iff_ne, ne_eq] at hr
    rw [dens] at h
    rw [subterms]
    split at h
    · simp at h
    · rename_i he; exact absurd he hr
    · rcases dens_sub A _ D h with rfl | h'
      · simp
      · exact List.mem_cons_of_mem _ h'
  | adjoint A, f, hr, D, h => by
    simp only [hasRule, kindOf, prodSquareOK, Bool.and_true, bne_iff_ne, ne_eq] at hr
    rw [dens] at h
    rw [subterms]
    split at h
    · simp at h
    · rename_i he; exact absurd he hr
    · rcases dens_sub A _ D h with rfl | h'
      · simp
      · exact List.mem_cons_of_mem _ h'
  | eye dt n, f, hr, D, h => by
    simp only [hasRule, kindOf, prodSquareOK, Bool.and_true, bne_iff_ne, ne_eq] at hr
    rw [dens] at h
    split at h
    · simp at h
    · rename_i hne
      cases hact : act f .eye with
      | leaf => exact absurd hact (by simpa using hne)
      | self => exact absurd hact hr
      | members g => cases f <;> simp [act] at hact
  | scalar dt s n, f, hr, D, h => by
    simp only [hasRule, kindOf, prodSquareOK, Bool.and_true, bne_iff_ne, ne_eq] at hr
    rw [dens] at h
    split at h
    · simp at h
    · rename_i hne
      cases hact : act f .scalar with
      | leaf => exact absurd hact (by simpa using hne)
      | self => exact absurd hact hr
      | members g => cases f <;> simp [act] at hact
  | diag dt n d, f, hr, D, h => by
    simp only [hasRule, kindOf, prodSquareOK, Bool.and_true, bne_iff_ne, ne_eq] at hr
    rw [dens] at h
    split at h
    · simp at h
    · rename_i hne
      cases hact : act f .diagonal with
      | leaf => exact absurd hact (by simpa using hne)
      | self => exact absurd hact hr
      | members g => cases f <;> simp [act] at hact
  | dense dt r c a, f, hr, D, h => by
    simp only [hasRule, kindOf, prodSquareOK, Bool.and_true, bne_iff_ne, ne_eq] at hr
    rw [dens] at h
    split at h
    · simp at h
    · rename_i hne
      cases hact : act f .dense with
      | leaf => exact absurd hact (by simpa using hne)
      | self => exact absurd hact hr
      | members g => cases f <;> simp [act] at hact
  | tri dt r c l a, f, hr, D, h => by
    simp only [hasRule, kindOf, prodSquareOK, Bool.and_true, bne_iff_ne, ne_eq] at hr
    rw [dens] at h
    split at h
    · simp at h
    · rename_i hne
      cases hact : act f .tri with
      | leaf => exact absurd hact (by simpa using hne)
      | self => exact absurd hact hr
      | members g => cases f <;> simp [act] at hact
  | perm dt p, f, hr, D, h => by
    simp only [hasRule, kindOf, prodSquareOK, Bool.and_true, bne_iff_ne, ne_eq] at hr
    rw [dens] at h
    split at h
    · simp at h
    · rename_i hne
      cases hact : act f .perm with
      | leaf => exact absurd hact (by simpa using hne)
      | self => exact absurd hact hr
      | members g => cases f <;> simp [act] at hact
  | sparse dt r c e, f, hr, D, h => by
    cases f <;> simp [hasRule, kindOf, act] at hr
  | tridiag dt n al be ga, f, hr, D, h => by
    cases f <;> simp [hasRule, kindOf, act] at hr
  | sliced A s0 s1, f, hr, D, h => by
    cases f <;> simp [hasRule, kindOf, act] at hr
  | concat ax Ms, f, hr, D, h => by
    cases f <;> simp [hasRule, kindOf, act] at hr
  | house dt n v beta, f, hr, D, h => by
    cases f <;> simp [hasRule, kindOf, act] at hr
  | generic A, f, hr, D, h => by
    cases f <;> simp [hasRule, kindOf, act] at hr

/-- a proper sub-term is smaller than the term -/
theorem subterms_sizeOf : ∀ (A D : Op R), D ∈ A.subterms → sizeOf D < sizeOf A
  | prod Ms, D, h => by
    rw [subterms] at h
    simp only [List.mem_append, List.mem_flatten, List.mem_map] at h
    rcases h with h | ⟨l, ⟨M, hM, rfl⟩, h⟩
    · have := List.sizeOf_lt_of_mem h; simp; omega
    · have := subterms_sizeOf M D h
      have := List.sizeOf_lt_of_mem hM; simp; omega
  | sum Ms, D, h => by
    rw [subterms] at h
    simp only [List.mem_append, List.mem_flatten, List.mem_map] at h
    rcases h with h | ⟨l, ⟨M, hM, rfl⟩, h⟩
    · have := List.sizeOf_lt_of_mem h; simp; omega
    · have := subterms_sizeOf M D h
      have := List.sizeOf_lt_of_mem hM; simp; omega
  | kron Ms, D, h => by
    rw [subterms] at h
    simp only [List.mem_append, List.mem_flatten, List.mem_map] at h
    rcases h with h | ⟨l, ⟨M, hM, rfl⟩, h⟩
    · have := List.sizeOf_lt_of_mem h; simp; omega
    · have := subterms_sizeOf M D h
      have := List.sizeOf_lt_of_mem hM; simp; omega
  | kronsum Ms, D, h => by
    rw [subterms] at h
    simp only [List.mem_append, List.mem_flatten, List.mem_map] at h
    rcases h with h | ⟨l, ⟨M, hM, rfl⟩, h⟩
    · have := List.sizeOf_lt_of_mem h; simp; omega
    · have := subterms_sizeOf M D h
      have := List.sizeOf_lt_of_mem hM; simp; omega
  | bdiag Ms mults, D, h => by
    rw [subterms] at h
    simp only [List.mem_append, List.mem_flatten, List.mem_map] at h
    rcases h with h | ⟨l, ⟨M, hM, rfl⟩, h⟩
    · have := List.sizeOf_lt_of_mem h; simp; omega
    · have := subterms_sizeOf M D h
      have := List.sizeOf_lt_of_mem hM; simp; omega
  | concat ax Ms, D, h => by
    rw [subterms] at h
    simp only [List.mem_append, List.mem_flatten, List.mem_map] at h
    rcases h with h | ⟨l, ⟨M, hM, rfl⟩, h⟩
    · have := List.sizeOf_lt_of_mem h; simp; omega
    · have := subterms_sizeOf M D h
      have := List.sizeOf_lt_of_mem hM; simp; omega
  | transpose A, D, h => by
    rw [subterms] at h
    simp only [List.mem_cons] at h
    rcases h with rfl | h
    · simp
    · have := subterms_sizeOf A D h; simp; omega
  | adjoint A, D, h => by
    rw [subterms] at h
    simp only [List.mem_cons] at h
    rcases h with rfl | h
    · simp
    · have := subterms_sizeOf A D h; simp; omega
  | sliced A s0 s1, D, h => by
    rw [subterms] at h
    simp only [List.mem_cons] at h
    rcases h with rfl | h
    · simp; omega
    · have := subterms_sizeOf A D h; simp; omega
  | generic A, D, h => by
    rw [subterms] at h
    simp only [List.mem_cons] at h
    rcases h with rfl | h
    · simp
    · have := subterms_sizeOf A D h; simp; omega
  | annot a A, D, h => by
    rw [subterms] at h
    simp only [List.mem_cons] at h
    rcases h with rfl | h
    · simp
    · have := subterms_sizeOf A D h; simp; omega
  | dense .., D, h => by simp [subterms] at h
  | tri .., D, h => by simp [subterms] at h
  | sparse .., D, h => by simp [subterms] at h
  | scalar .., D, h => by simp [subterms] at h
  | eye .., D, h => by simp [subterms] at h
  | diag .., D, h => by simp [subterms] at h
  | tridiag .., D, h => by simp [subterms] at h
  | perm .., D, h => by simp [subterms] at h
  | house .., D, h => by simp [subterms] at h
termination_by A => sizeOf A
decreasing_by
  all_goals simp_wf
  all_goals first
    | omega
    | (have := List.sizeOf_lt_of_mem hM; omega)

end Op
