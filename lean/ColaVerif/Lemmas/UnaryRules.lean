import ColaVerif.Model.Unary
import ColaVerif.Lemmas.UnaryMatFun
import ColaVerif.Lemmas.Bridge
import ColaVerif.Lemmas.OpMatmat
import ColaVerif.Lemmas.KronSum

/-!
# C09 — the rules of `unary.py` on operator trees preserve "F = f(A)"

`MatFunW S f n A F` : the specification `IsMatFunOn` on the `n × n` windows of two entry functions;
`MatFunOK S f A F` : the operator `F` represents `f` of the (square) operator `A`.

One lemma per rule of the model (`Model/Unary.lean`): Diagonal, ScalarMul, Identity, Transpose, Adjoint,
declaration wrappers, BlockDiag with multiplicities (`matFunOK_bdiag`), `exp(KronSum)`
(`matFunOK_kronsum`), `pow(Kronecker)` (`matFunOK_kron`), any number of members.
-/

set_option linter.unusedSectionVars false

open Matrix MatFun
open scoped Kronecker

namespace Unary

variable {𝕜 : Type} [Field 𝕜] [StarRing 𝕜]

/-! ## windows -/

/-- `F = f(A)` on the `n × n` windows -/
def MatFunW (S : Set 𝕜) (f : 𝕜 → 𝕜) (n : Nat) (A F : MatF 𝕜) : Prop :=
  IsMatFunOn S f (MatF.toMatrix n n A) (MatF.toMatrix n n F)

theorem MatFunW.congr {S : Set 𝕜} {f : 𝕜 → 𝕜} {n : Nat} {A A' F F' : MatF 𝕜}
    (hA : EqOn n n A A') (hF : EqOn n n F F') (h : MatFunW S f n A F) : MatFunW S f n A' F' := by
  unfold MatFunW at *
  rwa [← MatF.toMatrix_congr hA, ← MatF.toMatrix_congr hF]

theorem toMatrix_diagM_unary (n : Nat) (d : Nat → 𝕜) :
    MatF.toMatrix n n (diagM d) = Matrix.diagonal (fun i : Fin n => d i.val) := by
  ext i j
  simp only [MatF.toMatrix_apply, diagM, Matrix.diagonal_apply, Fin.ext_iff]

theorem matFunW_diagM {S : Set 𝕜} (f : 𝕜 → 𝕜) (n : Nat) (d : Nat → 𝕜) (hd : ∀ i, i < n → d i ∈ S) :
    MatFunW S f n (diagM d) (diagM (fun i => f (d i))) := by
  unfold MatFunW
  rw [toMatrix_diagM_unary, toMatrix_diagM_unary]
  exact IsMatFunOn.diagonal f _ (fun i => hd i.val i.isLt)

theorem matFunW_zero {S : Set 𝕜} (f : 𝕜 → 𝕜) (A F : MatF 𝕜) : MatFunW S f 0 A F :=
  ⟨1, 1, fun i => i.elim0, by simp, fun i => i.elim0, Subsingleton.elim _ _, Subsingleton.elim _ _⟩

theorem matFunW_transpose {S : Set 𝕜} {f : 𝕜 → 𝕜} {n : Nat} {A F : MatF 𝕜} (h : MatFunW S f n A F) :
    MatFunW S f n (transposeM A) (transposeM F) := by
  unfold MatFunW at *
  rw [MatF.toMatrix_transposeM, MatF.toMatrix_transposeM]
  exact h.transpose

theorem matFunW_adjoint {S S' : Set 𝕜} {f : 𝕜 → 𝕜} {n : Nat} {A F : MatF 𝕜} (h : MatFunW S f n A F)
    (hS : ∀ z ∈ S, star z ∈ S') (hf : ∀ z ∈ S, f (star z) = star (f z)) :
    MatFunW S' f n (conjM (transposeM A)) (conjM (transposeM F)) := by
  unfold MatFunW at *
  rw [MatF.toMatrix_adjoint, MatF.toMatrix_adjoint]
  exact h.conjTranspose hS hf

/-- `np.kron` of two windows -/
theorem matFunW_kron2 {S T U : Set 𝕜} {f : 𝕜 → 𝕜} (r r' : Nat) {A F B G : MatF 𝕜}
    (hA : MatFunW S f r A F) (hB : MatFunW T f r' B G) (hU : ∀ a ∈ S, ∀ b ∈ T, a * b ∈ U)
    (hf : ∀ a ∈ S, ∀ b ∈ T, f (a * b) = f a * f b) :
    MatFunW U f (r * r') (kron2 r' r' A B) (kron2 r' r' F G) := by
  unfold MatFunW at *
  rw [MatF.toMatrix_kron2, MatF.toMatrix_kron2]
  exact (hA.kronecker hB hU hf).reindex _

/-- Kronecker sum of two windows -/
theorem matFunW_kronsum2 {S T U : Set 𝕜} {e : 𝕜 → 𝕜} (r r' : Nat) {A F B G : MatF 𝕜}
    (hA : MatFunW S e r A F) (hB : MatFunW T e r' B G) (hU : ∀ a ∈ S, ∀ b ∈ T, a + b ∈ U)
    (he : ∀ a ∈ S, ∀ b ∈ T, e (a + b) = e a * e b) :
    MatFunW U e (r * r') (addM (kron2 r' r' A eyeM) (kron2 r' r' eyeM B)) (kron2 r' r' F G) := by
  unfold MatFunW at *
  rw [MatF.toMatrix_addM, MatF.toMatrix_kron2, MatF.toMatrix_kron2, MatF.toMatrix_kron2,
    MatF.toMatrix_eyeM, MatF.toMatrix_eyeM]
  have hadd : ∀ X Y : Matrix (Fin r × Fin r') (Fin r × Fin r') 𝕜,
      Matrix.reindex finProdFinEquiv finProdFinEquiv X + Matrix.reindex finProdFinEquiv finProdFinEquiv Y
        = Matrix.reindex finProdFinEquiv finProdFinEquiv (X + Y) := by
    intro X Y
    ext i j
    simp
  rw [hadd]
  exact (hA.kronSum hB hU he).reindex _

theorem matFunW_blockDiagM_cons {S : Set 𝕜} {f : 𝕜 → 𝕜} (r N : Nat) (a g : MatF 𝕜)
    (As Gs : List (Nat × Nat × MatF 𝕜)) (h1 : MatFunW S f r a g)
    (h2 : MatFunW S f N (blockDiagM As) (blockDiagM Gs)) :
    MatFunW S f (r + N) (blockDiagM ((r, r, a) :: As)) (blockDiagM ((r, r, g) :: Gs)) := by
  unfold MatFunW at *
  rw [MatF.toMatrix_blockDiagM_cons, MatF.toMatrix_blockDiagM_cons]
  exact (h1.fromBlocks h2).reindex _

/-- a run of `k` equal blocks in front (multiplicities) -/
theorem matFunW_blockDiagM_replicate {S : Set 𝕜} {f : 𝕜 → 𝕜} (r N : Nat) (a g : MatF 𝕜)
    (As Gs : List (Nat × Nat × MatF 𝕜)) (h1 : MatFunW S f r a g)
    (h2 : MatFunW S f N (blockDiagM As) (blockDiagM Gs)) :
    ∀ k : Nat, MatFunW S f (k * r + N) (blockDiagM (List.replicate k (r, r, a) ++ As))
      (blockDiagM (List.replicate k (r, r, g) ++ Gs))
  | 0 => by simpa using h2
  | k + 1 => by
    have ih := matFunW_blockDiagM_replicate r N a g As Gs h1 h2 k
    have e : (k + 1) * r + N = r + (k * r + N) := by ring
    rw [e, List.replicate_succ, List.replicate_succ, List.cons_append, List.cons_append]
    exact matFunW_blockDiagM_cons r _ a g _ _ h1 ih

/-! ## operators -/

/-- the operator `F` represents `f` of the square operator `A` -/
def MatFunOK (S : Set 𝕜) (f : 𝕜 → 𝕜) (A F : Op 𝕜) : Prop :=
  A.cols = A.rows ∧ F.rows = A.rows ∧ F.cols = A.rows ∧ MatFunW S f A.rows A.den.f F.den.f

theorem MatFunOK.isMatFun {S : Set 𝕜} {f : 𝕜 → 𝕜} {A F : Op 𝕜} (h : MatFunOK S f A F) :
    IsMatFunOn S f (MatF.toMatrix A.rows A.rows A.den.f) (MatF.toMatrix A.rows A.rows F.den.f) := h.2.2.2

/-- **Diagonal**: `Diagonal(f(A.diag))` -/
theorem matFunOK_diag {S : Set 𝕜} (f : 𝕜 → 𝕜) (dt dt' : DType) (n : Nat) (d : Nat → 𝕜)
    (hd : ∀ i, i < n → d i ∈ S) :
    MatFunOK S f (.diag dt n d) (.diag dt' n (fun i => f (d i))) := by
  refine ⟨by simp only [Op.rows, Op.cols], by simp only [Op.rows], by simp only [Op.rows, Op.cols], ?_⟩
  simp only [Op.den, Op.rows, MatV.of_f]
  exact matFunW_diagM f n d hd

theorem den_scaledEye (dt dt' : DType) (c : 𝕜) (n : Nat) :
    EqOn n n (Op.prod [.scalar dt c n, .eye dt' n]).den.f (diagM (fun _ => c)) := by
  simp only [Op.den, forceV_f, List.map_cons, List.map_nil, List.foldr_cons, List.foldr_nil,
    Op.cols, MatV.of_f]
  refine (mmul_congr (EqOn.refl n n _) (eqOn_mmul_eyeM_right n n _)).trans ?_
  exact eqOn_mmul_eyeM_right n n _

/-- **ScalarMul**: `f(c) * I_like(A)` -/
theorem matFunOK_scalar {S : Set 𝕜} (f : 𝕜 → 𝕜) (dt dt' dt'' : DType) (c : 𝕜) (n : Nat) (hc : c ∈ S) :
    MatFunOK S f (.scalar dt c n) (.prod [.scalar dt' (f c) n, .eye dt'' n]) := by
  refine ⟨by simp only [Op.rows, Op.cols], by simp [Op.rows], by simp [Op.rows, Op.cols], ?_⟩
  have h := matFunW_diagM f n (fun _ => c) (fun _ _ => hc)
  have hr : (Op.scalar dt c n).rows = n := by simp only [Op.rows]
  rw [hr]
  refine MatFunW.congr ?_ (den_scaledEye dt' dt'' (f c) n).symm h
  simp only [Op.den, MatV.of_f]
  exact EqOn.refl _ _ _

/-- **Identity**: `f(1) * A` -/
theorem matFunOK_eye {S : Set 𝕜} (f : 𝕜 → 𝕜) (dt dt' dt'' : DType) (n : Nat) (h1 : (1 : 𝕜) ∈ S) :
    MatFunOK S f (.eye dt n) (.prod [.scalar dt' (f 1) n, .eye dt'' n]) := by
  refine ⟨by simp only [Op.rows, Op.cols], by simp [Op.rows], by simp [Op.rows, Op.cols], ?_⟩
  have h := matFunW_diagM f n (fun _ => (1 : 𝕜)) (fun _ _ => h1)
  have hr : (Op.eye dt n : Op 𝕜).rows = n := by simp only [Op.rows]
  rw [hr]
  refine MatFunW.congr ?_ (den_scaledEye dt' dt'' (f 1) n).symm h
  simp only [Op.den, MatV.of_f]
  intro i j _ _
  rfl

/-- **Transpose** -/
theorem matFunOK_transpose {S : Set 𝕜} {f : 𝕜 → 𝕜} {A F : Op 𝕜} (h : MatFunOK S f A F) :
    MatFunOK S f (.transpose A) (.transpose F) := by
  obtain ⟨hc, hr, hcF, hW⟩ := h
  refine ⟨by simp only [Op.rows, Op.cols]; exact hc.symm, by simp only [Op.rows]; rw [hcF, hc],
    by simp only [Op.rows, Op.cols]; rw [hr, hc], ?_⟩
  simp only [Op.den, Op.rows, MatV.of_f]
  rw [hc]
  exact matFunW_transpose hW

/-- **Adjoint**, for a function that commutes with conjugation on the spectrum -/
theorem matFunOK_adjoint {S S' : Set 𝕜} {f : 𝕜 → 𝕜} {A F : Op 𝕜} (h : MatFunOK S f A F)
    (hS : ∀ z ∈ S, star z ∈ S') (hf : ∀ z ∈ S, f (star z) = star (f z)) :
    MatFunOK S' f (.adjoint A) (.adjoint F) := by
  obtain ⟨hc, hr, hcF, hW⟩ := h
  refine ⟨by simp only [Op.rows, Op.cols]; exact hc.symm, by simp only [Op.rows]; rw [hcF, hc],
    by simp only [Op.rows, Op.cols]; rw [hr, hc], ?_⟩
  simp only [Op.den, Op.rows, MatV.of_f]
  rw [hc]
  exact matFunW_adjoint hW hS hf

/-- declaration wrappers (`cola.PSD(A)` …) do not change the matrix -/
theorem matFunOK_annot {S : Set 𝕜} {f : 𝕜 → 𝕜} {A F : Op 𝕜} (a : Ann) (h : MatFunOK S f A F) :
    MatFunOK S f (.annot a A) F := by
  obtain ⟨hc, hr, hcF, hW⟩ := h
  refine ⟨by simp only [Op.rows, Op.cols]; exact hc, by simp only [Op.rows]; exact hr,
    by simp only [Op.rows]; exact hcF, ?_⟩
  simp only [Op.den, Op.rows]
  exact hW

theorem MatFunOK.mono {S T : Set 𝕜} (hST : S ⊆ T) {f : 𝕜 → 𝕜} {A F : Op 𝕜} (h : MatFunOK S f A F) :
    MatFunOK T f A F :=
  ⟨h.1, h.2.1, h.2.2.1, IsMatFunOn.mono hST h.2.2.2⟩

/-! ## shapes and matrices of composite nodes, one member at a time -/

theorem kronDen_cons_kron2 (M : FacAct 𝕜) (Ms : List (FacAct 𝕜)) :
    kronDen (M :: Ms) = kron2 (Ms.map (·.r)).prod (Ms.map (·.c)).prod M.a (kronDen Ms) := by
  funext I J
  rw [kronDen_cons]
  rfl

theorem rows_kron_cons (M : Op 𝕜) (Ms : List (Op 𝕜)) :
    (Op.kron (M :: Ms)).rows = M.rows * (Op.kron Ms).rows := by
  simp only [Op.rows, List.map_cons, List.prod_cons]

theorem cols_kron_cons (M : Op 𝕜) (Ms : List (Op 𝕜)) :
    (Op.kron (M :: Ms)).cols = M.cols * (Op.kron Ms).cols := by
  simp only [Op.cols, List.map_cons, List.prod_cons]

theorem den_kron_cons (M : Op 𝕜) (Ms : List (Op 𝕜)) :
    (Op.kron (M :: Ms)).den.f = kron2 (Op.kron Ms).rows (Op.kron Ms).cols M.den.f (Op.kron Ms).den.f := by
  simp only [Op.den, forceV_f, List.map_cons, Op.rows, Op.cols]
  rw [kronDen_cons_kron2]
  simp only [List.map_map]
  rfl

theorem den_kron_nil : (Op.kron ([] : List (Op 𝕜))).den.f = fun _ _ => 1 := by
  simp only [Op.den, forceV_f, List.map_nil]
  funext I J
  simp [kronDen, kronEntry]

theorem rows_kronsum_cons (M : Op 𝕜) (Ms : List (Op 𝕜)) :
    (Op.kronsum (M :: Ms)).rows = M.rows * (Op.kronsum Ms).rows := by
  simp only [Op.rows, List.map_cons, List.prod_cons]

theorem cols_kronsum_cons (M : Op 𝕜) (Ms : List (Op 𝕜)) :
    (Op.kronsum (M :: Ms)).cols = M.cols * (Op.kronsum Ms).cols := by
  simp only [Op.cols, List.map_cons, List.prod_cons]

theorem rows_kronsum_eq_kron (Ms : List (Op 𝕜)) : (Op.kronsum Ms).rows = (Op.kron Ms).rows := by
  simp only [Op.rows]

theorem den_kronsum_nil : (Op.kronsum ([] : List (Op 𝕜))).den.f = fun _ _ => 0 := by
  simp only [Op.den, forceV_f, List.map_nil]
  funext I J
  simp [kronSumDen, kronSumEntry]

/-- one member of a Kronecker sum of square members: `M ⊕ K = M ⊗ 1 + 1 ⊗ K` on the window -/
theorem den_kronsum_cons (M : Op 𝕜) (Ms : List (Op 𝕜)) (hsq : ∀ N ∈ Ms, N.cols = N.rows) :
    EqOn (M.rows * (Op.kronsum Ms).rows) (M.cols * (Op.kronsum Ms).rows) (Op.kronsum (M :: Ms)).den.f
      (addM (kron2 (Op.kronsum Ms).rows (Op.kronsum Ms).rows M.den.f eyeM)
        (kron2 (Op.kronsum Ms).rows (Op.kronsum Ms).rows eyeM (Op.kronsum Ms).den.f)) := by
  intro I J hI hJ
  have hrc : Ms.map (·.cols) = Ms.map (·.rows) := List.map_congr_left hsq
  simp only [Op.den, forceV_f, List.map_cons, Op.rows] at hI hJ ⊢
  set P := (Ms.map (·.rows)).prod with hP
  have hPpos : 0 < P := by
    rcases Nat.eq_zero_or_pos P with h0 | h0
    · rw [h0] at hI; simp at hI
    · exact h0
  simp only [kronSumDen, List.map_cons, List.map_map, Function.comp_def, unravel, kronSumEntry,
    addM, kron2, eyeM]
  rw [hrc, ← hP]
  have hIm : I % P < P := Nat.mod_lt _ hPpos
  have hJm : J % P < P := Nat.mod_lt _ hPpos
  have hinj := unravel_inj (Ms.map (·.rows)) (I % P) (J % P) hIm hJm
  by_cases h : I % P = J % P
  · rw [if_pos (hinj.mpr h), if_pos h]
  · rw [if_neg (fun e => h (hinj.mp e)), if_neg h]

theorem rows_bdiag_cons (M : Op 𝕜) (Ms : List (Op 𝕜)) (m : Nat) (mults : List Nat) :
    (Op.bdiag (M :: Ms) (m :: mults)).rows = m * M.rows + (Op.bdiag Ms mults).rows := by
  simp only [Op.rows, Op.dotSum, List.map_cons, List.zip_cons_cons, List.sum_cons, Nat.mul_comm]

theorem cols_bdiag_cons (M : Op 𝕜) (Ms : List (Op 𝕜)) (m : Nat) (mults : List Nat) :
    (Op.bdiag (M :: Ms) (m :: mults)).cols = m * M.cols + (Op.bdiag Ms mults).cols := by
  simp only [Op.cols, Op.dotSum, List.map_cons, List.zip_cons_cons, List.sum_cons, Nat.mul_comm]

theorem den_bdiag (Ms : List (Op 𝕜)) (mults : List Nat) :
    (Op.bdiag Ms mults).den.f = blockDiagM (expandBlocks ((Ms.map Op.facDen).zip mults)) := by
  simp only [Op.den, forceV_f]
  rfl

theorem den_bdiag_cons (M : Op 𝕜) (Ms : List (Op 𝕜)) (m : Nat) (mults : List Nat) :
    (Op.bdiag (M :: Ms) (m :: mults)).den.f
      = blockDiagM (List.replicate m (M.rows, M.cols, M.den.f)
          ++ expandBlocks ((Ms.map Op.facDen).zip mults)) := by
  rw [den_bdiag]
  simp [expandBlocks, Op.facDen]

theorem rows_bdiag_nil_left (mults : List Nat) : (Op.bdiag ([] : List (Op 𝕜)) mults).rows = 0 := by
  simp [Op.rows, Op.dotSum]
theorem cols_bdiag_nil_left (mults : List Nat) : (Op.bdiag ([] : List (Op 𝕜)) mults).cols = 0 := by
  simp [Op.cols, Op.dotSum]
theorem rows_bdiag_nil_right (Ms : List (Op 𝕜)) : (Op.bdiag Ms []).rows = 0 := by
  simp [Op.rows, Op.dotSum]
theorem cols_bdiag_nil_right (Ms : List (Op 𝕜)) : (Op.bdiag Ms []).cols = 0 := by
  simp [Op.cols, Op.dotSum]

/-! ## the list rules -/

theorem forall₂_mem_left {α β : Type} {R : α → β → Prop} {l : List α} {l' : List β}
    (h : List.Forall₂ R l l') : ∀ a ∈ l, ∃ b, b ∈ l' ∧ R a b := by
  induction h with
  | nil => intro a ha; cases ha
  | cons hab _ ih =>
    intro x hx
    rcases List.mem_cons.mp hx with rfl | hx
    · exact ⟨_, List.mem_cons_self, hab⟩
    · obtain ⟨b, hb, hr⟩ := ih x hx
      exact ⟨b, List.mem_cons_of_mem _ hb, hr⟩

/-- **BlockDiag**: `BlockDiag(f(A₁), …, f(A_k), multiplicities = the same)` -/
theorem matFunOK_bdiag {S : Set 𝕜} {f : 𝕜 → 𝕜} {Ms Fs : List (Op 𝕜)}
    (h : List.Forall₂ (MatFunOK S f) Ms Fs) :
    ∀ mults : List Nat, MatFunOK S f (.bdiag Ms mults) (.bdiag Fs mults) := by
  induction h with
  | nil =>
    intro mults
    refine ⟨by rw [rows_bdiag_nil_left, cols_bdiag_nil_left], rfl,
      by rw [rows_bdiag_nil_left, cols_bdiag_nil_left], ?_⟩
    rw [rows_bdiag_nil_left]
    exact matFunW_zero _ _ _
  | @cons M F Ms Fs hMF _ ih =>
    intro mults
    cases mults with
    | nil =>
      refine ⟨by rw [rows_bdiag_nil_right, cols_bdiag_nil_right],
        by rw [rows_bdiag_nil_right, rows_bdiag_nil_right],
        by rw [rows_bdiag_nil_right, cols_bdiag_nil_right], ?_⟩
      rw [rows_bdiag_nil_right]
      exact matFunW_zero _ _ _
    | cons m mults =>
      obtain ⟨hc, hFr, hFc, hf⟩ := hMF
      obtain ⟨ihc, ihFr, ihFc, ihf⟩ := ih mults
      refine ⟨?_, ?_, ?_, ?_⟩
      · rw [rows_bdiag_cons, cols_bdiag_cons, hc, ihc]
      · rw [rows_bdiag_cons, rows_bdiag_cons, hFr, ihFr]
      · rw [cols_bdiag_cons, rows_bdiag_cons, hFc, ihFc]
      · rw [rows_bdiag_cons, den_bdiag_cons, den_bdiag_cons, hFr, hFc, hc]
        rw [den_bdiag, den_bdiag] at ihf
        exact matFunW_blockDiagM_replicate _ _ _ _ _ _ hf ihf m

/-- **pow(Kronecker, α)** = Kronecker of the members' powers, for a function that is
multiplicative on a multiplicatively closed set containing the spectra (and `f 1 = 1`) -/
theorem matFunOK_kron {S : Set 𝕜} {f : 𝕜 → 𝕜} (h1 : (1 : 𝕜) ∈ S) (hf1 : f 1 = 1)
    (hS : ∀ a ∈ S, ∀ b ∈ S, a * b ∈ S) (hf : ∀ a ∈ S, ∀ b ∈ S, f (a * b) = f a * f b)
    {Ms Fs : List (Op 𝕜)} (h : List.Forall₂ (MatFunOK S f) Ms Fs) :
    MatFunOK S f (.kron Ms) (.kron Fs) := by
  induction h with
  | nil =>
    refine ⟨by simp [Op.rows, Op.cols], rfl, by simp [Op.rows, Op.cols], ?_⟩
    have hr : (Op.kron ([] : List (Op 𝕜))).rows = 1 := by simp [Op.rows]
    rw [hr, den_kron_nil]
    have hd := matFunW_diagM f 1 (fun _ => (1 : 𝕜)) (fun _ _ => h1)
    refine MatFunW.congr ?_ ?_ hd
    · intro i j hi hj
      have : i = j := by omega
      simp [diagM, this]
    · intro i j hi hj
      have : i = j := by omega
      simp [diagM, this, hf1]
  | @cons M F Ms Fs hMF _ ih =>
    obtain ⟨hc, hFr, hFc, hW⟩ := hMF
    obtain ⟨ihc, ihFr, ihFc, ihW⟩ := ih
    refine ⟨?_, ?_, ?_, ?_⟩
    · rw [rows_kron_cons, cols_kron_cons, hc, ihc]
    · rw [rows_kron_cons, rows_kron_cons, hFr, ihFr]
    · rw [cols_kron_cons, rows_kron_cons, hFc, ihFc]
    · rw [rows_kron_cons, den_kron_cons, den_kron_cons, ihFr, ihFc, ihc]
      exact matFunW_kron2 _ _ hW ihW hS hf

/-- **exp(KronSum)** = Kronecker of the members' exponentials, for `e` with
`e (a + b) = e a * e b` on an additively closed set containing the spectra (and `e 0 = 1`) -/
theorem matFunOK_kronsum {S : Set 𝕜} {e : 𝕜 → 𝕜} (h0 : (0 : 𝕜) ∈ S) (he0 : e 0 = 1)
    (hS : ∀ a ∈ S, ∀ b ∈ S, a + b ∈ S) (he : ∀ a ∈ S, ∀ b ∈ S, e (a + b) = e a * e b)
    {Ms Fs : List (Op 𝕜)} (h : List.Forall₂ (MatFunOK S e) Ms Fs) :
    MatFunOK S e (.kronsum Ms) (.kron Fs) := by
  induction h with
  | nil =>
    refine ⟨by simp [Op.rows, Op.cols], by simp [Op.rows], by simp [Op.rows, Op.cols], ?_⟩
    have hr : (Op.kronsum ([] : List (Op 𝕜))).rows = 1 := by simp [Op.rows]
    rw [hr, den_kron_nil, den_kronsum_nil]
    have hd := matFunW_diagM e 1 (fun _ => (0 : 𝕜)) (fun _ _ => h0)
    refine MatFunW.congr ?_ ?_ hd
    · intro i j hi hj
      simp [diagM]
    · intro i j hi hj
      have : i = j := by omega
      simp [diagM, this, he0]
  | @cons M F Ms Fs hMF hrest ih =>
    obtain ⟨hc, hFr, hFc, hW⟩ := hMF
    obtain ⟨ihc, ihFr, ihFc, ihW⟩ := ih
    have hsq : ∀ N ∈ Ms, N.cols = N.rows := by
      intro N hN
      obtain ⟨G, _, hNG⟩ := forall₂_mem_left hrest N hN
      exact hNG.1
    refine ⟨?_, ?_, ?_, ?_⟩
    · rw [rows_kronsum_cons, cols_kronsum_cons, hc, ihc]
    · rw [rows_kron_cons, rows_kronsum_cons, hFr, ihFr]
    · rw [cols_kron_cons, rows_kronsum_cons, hFc, ihFc]
    · rw [rows_kronsum_cons, den_kron_cons, ihFr, ihFc]
      have hden := den_kronsum_cons M Ms hsq
      rw [hc] at hden
      exact MatFunW.congr hden.symm (EqOn.refl _ _ _) (matFunW_kronsum2 _ _ hW ihW hS he)

end Unary
