import ColaVerif.Model.Eig
import Mathlib.Logic.Function.Iterate
import Mathlib.LinearAlgebra.Matrix.DotProduct
import Mathlib.Analysis.RCLike.Basic
import Mathlib.Analysis.Complex.Basic
import Mathlib.LinearAlgebra.Matrix.Notation

/-!
# Power iteration (`cola/linalg/eig/power_iteration.py`)

Law-free facts about the state machine `Eig.powerIteration` (they hold for every instance of the
operations, IEEE doubles included), and what the conjugated product `conj(v) @ (A v)` returns at an
eigenvector (the unconjugated one, which the code formed before the fix `3dd8195`, does not).
-/

namespace Eig

variable {K V : Type}

/-- the loop runs the body `j` times, the test holding before each of them and failing afterwards
(given enough fuel: `maxIter - s.i` units) -/
theorem piLoop_spec (o : PIOps K V) (tol : K) (maxIter : Nat) :
    ∀ (fuel : Nat) (s : PIState K V), maxIter ≤ s.i + fuel →
      ∃ j, piLoop o tol maxIter fuel s = (piBody o)^[j] s ∧
        (∀ t, t < j → piCond o tol maxIter ((piBody o)^[t] s) = true) ∧
        piCond o tol maxIter ((piBody o)^[j] s) = false := by
  intro fuel
  induction fuel with
  | zero =>
    intro s hs
    refine ⟨0, rfl, fun t ht => absurd ht (Nat.not_lt_zero t), ?_⟩
    have : ¬ s.i < maxIter := by omega
    simp [piCond, this]
  | succ fuel ih =>
    intro s hs
    by_cases hc : piCond o tol maxIter s = true
    · obtain ⟨j, h1, h2, h3⟩ := ih (piBody o s) (by simp only [piBody]; omega)
      refine ⟨j + 1, ?_, ?_, ?_⟩
      · rw [piLoop, if_pos hc, h1, Function.iterate_succ_apply]
      · intro t ht
        cases t with
        | zero => exact hc
        | succ t => rw [Function.iterate_succ_apply]; exact h2 t (by omega)
      · rw [Function.iterate_succ_apply]; exact h3
    · refine ⟨0, ?_, fun t ht => absurd ht (Nat.not_lt_zero t), ?_⟩
      · rw [piLoop, if_neg hc]; rfl
      · simpa using hc

theorem piBody_iterate_i (o : PIOps K V) (s : PIState K V) (j : Nat) :
    ((piBody o)^[j] s).i = s.i + j := by
  induction j with
  | zero => rfl
  | succ j ih => rw [Function.iterate_succ_apply', piBody, ih]; rfl

/-- **what `power_iteration` returns** (law-free).  With `r` the final state:
`r.i` products `A @ v` were formed, at most `max_iter`; the loop stopped because the cap was reached
or because the relative change is not above `tol`; and after at least one step the returned value
is the product `conj(vprev) @ (A vprev)` (`o.dot`) at the PREVIOUS iterate `vprev`, while the returned
vector is the next iterate `A vprev / ‖A vprev‖` (the value is one step behind the vector; after
exactly one step `vprev` is the unnormalised random start vector). -/
theorem powerIteration_spec (o : PIOps K V) (tol : K) (maxIter : Nat) (v0 : V) (eig0 eigprev0 : K) :
    let init : PIState K V := { i := 0, v := v0, vprev := v0, eig := eig0, eigprev := eigprev0 }
    let r := powerIteration o tol maxIter v0 eig0 eigprev0
    r = (piBody o)^[r.i] init ∧ r.i ≤ maxIter ∧
    (∀ t, t < r.i → piCond o tol maxIter ((piBody o)^[t] init) = true) ∧
    (r.i = maxIter ∨ o.gt (o.relerr r.eig r.eigprev) tol = false) ∧
    (0 < r.i → r.eig = o.dot r.vprev (o.matvec r.vprev) ∧ r.v = o.normalize (o.matvec r.vprev)) := by
  intro init r
  obtain ⟨j, h1, h2, h3⟩ := piLoop_spec o tol maxIter maxIter init (by simp [init])
  have hr : r = (piBody o)^[j] init := h1
  have hi : r.i = j := by rw [hr, piBody_iterate_i]; simp [init]
  have hle : j ≤ maxIter := by
    cases j with
    | zero => exact Nat.zero_le _
    | succ j =>
      have := h2 j (Nat.lt_succ_self j)
      simp only [piCond, Bool.and_eq_true, decide_eq_true_eq] at this
      rw [piBody_iterate_i] at this
      simp only [init] at this
      omega
  refine ⟨by rw [hi]; exact hr, by rw [hi]; exact hle, by rw [hi]; exact h2, ?_, ?_⟩
  · rw [← hr] at h3
    simp only [piCond, Bool.and_eq_false_iff, decide_eq_false_iff_not] at h3
    rcases h3 with h | h
    · left; omega
    · right; exact h
  · intro hpos
    rw [hi] at hpos
    obtain ⟨j', rfl⟩ : ∃ j', j = j' + 1 := ⟨j - 1, by omega⟩
    rw [hr, Function.iterate_succ_apply']
    exact ⟨rfl, rfl⟩

/-! ## the Rayleigh product at an eigenvector -/

section rayleigh
open Matrix
variable {𝕜 : Type} [RCLike 𝕜] {n : Type} [Fintype n]

/-- at a unit eigenvector the conjugated product `conj(v) @ (A v)` of the code is the eigenvalue -/
theorem star_dot_mulVec_eigenvector (A : Matrix n n 𝕜) (u : n → 𝕜) (lam : 𝕜) (h : A *ᵥ u = lam • u)
    (unit : star u ⬝ᵥ u = 1) : star u ⬝ᵥ (A *ᵥ u) = lam := by
  rw [h, dotProduct_smul, smul_eq_mul, unit, mul_one]

/-- the unconjugated product is `lam * (u ⬝ᵥ u)` -/
theorem dot_mulVec_eigenvector (A : Matrix n n 𝕜) (u : n → 𝕜) (lam : 𝕜) (h : A *ᵥ u = lam • u) :
    u ⬝ᵥ (A *ᵥ u) = lam * (u ⬝ᵥ u) := by
  rw [h, dotProduct_smul, smul_eq_mul]

/-- why the conjugation matters: a complex Hermitian matrix, a unit eigenvector for `25`; the
unconjugated product there is `-7` -/
theorem dot_mulVec_complex_witness :
    let A : Matrix (Fin 2) (Fin 2) ℂ := !![9, -12 * Complex.I; 12 * Complex.I, 16]
    let u : Fin 2 → ℂ := ![3 / 5, 4 / 5 * Complex.I]
    Aᴴ = A ∧ A *ᵥ u = (25 : ℂ) • u ∧ star u ⬝ᵥ u = 1 ∧ u ⬝ᵥ (A *ᵥ u) = -7 := by
  intro A u
  refine ⟨?_, ?_, ?_, ?_⟩
  · ext i j
    fin_cases i <;> fin_cases j <;> simp [A, Matrix.conjTranspose_apply]
  · ext i
    fin_cases i
    · simp [A, u, Matrix.mulVec, dotProduct, Fin.sum_univ_two]
      ring_nf
      simp [Complex.I_sq]
      norm_num
    · simp [A, u, Matrix.mulVec, dotProduct, Fin.sum_univ_two]
      ring
  · simp [u, dotProduct, Fin.sum_univ_two, Complex.conj_ofNat]
    ring_nf
    simp [Complex.I_sq]
    norm_num
  · simp [A, u, Matrix.mulVec, dotProduct, Fin.sum_univ_two]
    ring_nf
    simp [Complex.I_sq]
    norm_num

end rayleigh

end Eig
