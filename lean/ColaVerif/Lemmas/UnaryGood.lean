import ColaVerif.Lemmas.UnaryEig

/-!
# C09 — `Op.Good` of the planned operator (the hypothesis `hg` of `C09_action`), annotation-free plans

`C09_action` needs `Op.Good F` for the operator `F` the plan builds (well formed, no repeated slice
index, Hermitian wherever it reports `SelfAdjoint`), because `F @ X` goes through C01's `Op.mm_eq`.
For every plan without the nodes that carry annotations of their own — `f(c) * I` (the recorded clause
`scalar-times-annotated`), `I_like(A)`, and the repeated product `A @ … @ A` (annotations of `A`) — the
planned operator has NO annotation at any node (`toOp_anns`), hence `Good` holds unconditionally
(`toOp_good`): Diagonal / dense base cases / `inv` results, under BlockDiag (with a multiplicity list of
the right length), Kronecker, Transpose, Adjoint.
-/

set_option linter.unusedSectionVars false

namespace Unary

variable {𝕜 : Type} [Field 𝕜] [StarRing 𝕜] [DecidableEq 𝕜]

/-- the plan builds an operator without annotations: leaves Diagonal / base case / `inv`; composite
nodes non-empty, BlockDiag with as many multiplicities as members -/
def UnOp.annFree : UnOp 𝕜 → Bool
  | .diagF .. => true
  | .inv .. => true
  | .base .. => true
  | .bdiag Us mults => !Us.isEmpty && Us.length == mults.length && (Us.map (·.annFree)).all id
  | .kron Us => !Us.isEmpty && (Us.map (·.annFree)).all id
  | .transpose U => U.annFree
  | .adjoint U => U.annFree
  | _ => false

theorem foldl_inter_nil (l : List AnnSet) : l.foldl AnnSet.inter [] = [] := by
  induction l with
  | nil => rfl
  | cons s l ih => simpa [AnnSet.inter] using ih

theorem interAll_of_all_nil : ∀ (l : List AnnSet), (∀ s ∈ l, s = []) → AnnSet.interAll l = []
  | [], _ => rfl
  | s :: l, h => by
    rw [AnnSet.interAll, h s List.mem_cons_self]
    exact foldl_inter_nil l

theorem toOp_anns (P : Params 𝕜) : ∀ U : UnOp 𝕜, U.annFree = true → (U.toOp P).anns = []
  | .diagF .., _ => by simp only [UnOp.toOp, Op.anns]
  | .inv .., _ => by simp only [UnOp.toOp, Op.anns]
  | .base .., _ => by simp only [UnOp.toOp, Op.anns]
  | .bdiag Us mults, h => by
    simp only [UnOp.annFree, Bool.and_eq_true, List.all_eq_true, List.mem_map, forall_exists_index,
      and_imp, forall_apply_eq_imp_iff₂, id] at h
    simp only [UnOp.toOp, Op.anns, List.map_map]
    apply interAll_of_all_nil
    intro s hs
    obtain ⟨U, hU, rfl⟩ := List.mem_map.mp hs
    have := List.sizeOf_lt_of_mem hU
    exact toOp_anns P U (h.2 U hU)
  | .kron Us, h => by
    simp only [UnOp.annFree, Bool.and_eq_true, List.all_eq_true, List.mem_map, forall_exists_index,
      and_imp, forall_apply_eq_imp_iff₂, id] at h
    simp only [UnOp.toOp, Op.anns, List.map_map]
    apply interAll_of_all_nil
    intro s hs
    obtain ⟨U, hU, rfl⟩ := List.mem_map.mp hs
    have := List.sizeOf_lt_of_mem hU
    exact toOp_anns P U (h.2 U hU)
  | .transpose U, h => by
    simp only [UnOp.annFree] at h
    simp only [UnOp.toOp, Op.anns, toOp_anns P U h]
    split <;> rfl
  | .adjoint U, h => by
    simp only [UnOp.annFree] at h
    simp only [UnOp.toOp, Op.anns, toOp_anns P U h]
    split <;> rfl
  | .scaledEye .., h => by simp [UnOp.annFree] at h
  | .eyeLike .., h => by simp [UnOp.annFree] at h
  | .product .., h => by simp [UnOp.annFree] at h
  | .raise .., h => by simp [UnOp.annFree] at h
termination_by U => sizeOf U

theorem hermNode_of_anns_nil {A : Op 𝕜} (h : A.anns = []) : Op.HermNode A := by
  intro hisa
  simp [Op.isa, h, AnnSet.isa] at hisa

/-- **the planned operator of an annotation-free plan is `Op.Good`** -/
theorem toOp_good (P : Params 𝕜) : ∀ U : UnOp 𝕜, U.annFree = true → Op.Good (U.toOp P)
  | .diagF dt n f d, _ => by
    refine ⟨by simp only [UnOp.toOp, Op.wf], by simp only [UnOp.toOp, Op.dupSlice], ?_⟩
    simp only [UnOp.toOp, Op.HermOK]
    exact hermNode_of_anns_nil (by simp only [Op.anns])
  | .inv A alg, _ => by
    refine ⟨by simp only [UnOp.toOp, Op.wf], by simp only [UnOp.toOp, Op.dupSlice], ?_⟩
    simp only [UnOp.toOp, Op.HermOK]
    exact hermNode_of_anns_nil (by simp only [Op.anns])
  | .base k f A, _ => by
    refine ⟨by simp only [UnOp.toOp, Op.wf], by simp only [UnOp.toOp, Op.dupSlice], ?_⟩
    simp only [UnOp.toOp, Op.HermOK]
    exact hermNode_of_anns_nil (by simp only [Op.anns])
  | .bdiag Us mults, h => by
    have hann := toOp_anns P (.bdiag Us mults) h
    simp only [UnOp.annFree, Bool.and_eq_true, List.all_eq_true, List.mem_map, forall_exists_index,
      and_imp, forall_apply_eq_imp_iff₂, id] at h
    have ih : ∀ U ∈ Us, Op.Good (U.toOp P) := fun U hU => by
      have := List.sizeOf_lt_of_mem hU
      exact toOp_good P U (h.2 U hU)
    refine ⟨?_, ?_, ?_⟩
    · simp only [UnOp.toOp, Op.wf, Bool.and_eq_true, List.all_eq_true, List.mem_map,
        forall_exists_index, and_imp, forall_apply_eq_imp_iff₂, id, List.length_map, List.isEmpty_map]
      exact ⟨⟨h.1.1, fun U hU => (ih U hU).wf⟩, h.1.2⟩
    · simp only [UnOp.toOp, Op.dupSlice, List.map_map]
      rw [List.any_eq_false]
      intro b hb
      obtain ⟨U, hU, rfl⟩ := List.mem_map.mp hb
      simp [Function.comp, (ih U hU).nd]
    · simp only [UnOp.toOp] at hann ⊢
      simp only [Op.HermOK]
      refine ⟨hermNode_of_anns_nil hann, ?_⟩
      intro M hM
      obtain ⟨U, hU, rfl⟩ := List.mem_map.mp hM
      exact (ih U hU).herm
  | .kron Us, h => by
    have hann := toOp_anns P (.kron Us) h
    simp only [UnOp.annFree, Bool.and_eq_true, List.all_eq_true, List.mem_map, forall_exists_index,
      and_imp, forall_apply_eq_imp_iff₂, id] at h
    have ih : ∀ U ∈ Us, Op.Good (U.toOp P) := fun U hU => by
      have := List.sizeOf_lt_of_mem hU
      exact toOp_good P U (h.2 U hU)
    refine ⟨?_, ?_, ?_⟩
    · simp only [UnOp.toOp, Op.wf, Bool.and_eq_true, List.all_eq_true, List.mem_map,
        forall_exists_index, and_imp, forall_apply_eq_imp_iff₂, id, List.isEmpty_map]
      exact ⟨h.1, fun U hU => (ih U hU).wf⟩
    · simp only [UnOp.toOp, Op.dupSlice, List.map_map]
      rw [List.any_eq_false]
      intro b hb
      obtain ⟨U, hU, rfl⟩ := List.mem_map.mp hb
      simp [Function.comp, (ih U hU).nd]
    · simp only [UnOp.toOp] at hann ⊢
      simp only [Op.HermOK]
      refine ⟨hermNode_of_anns_nil hann, ?_⟩
      intro M hM
      obtain ⟨U, hU, rfl⟩ := List.mem_map.mp hM
      exact (ih U hU).herm
  | .transpose U, h => by
    have hann := toOp_anns P (.transpose U) h
    simp only [UnOp.annFree] at h
    have ih := toOp_good P U h
    refine ⟨by simp only [UnOp.toOp, Op.wf]; exact ih.wf, by simp only [UnOp.toOp, Op.dupSlice]; exact ih.nd, ?_⟩
    simp only [UnOp.toOp] at hann ⊢
    simp only [Op.HermOK]
    exact ⟨hermNode_of_anns_nil hann, ih.herm⟩
  | .adjoint U, h => by
    have hann := toOp_anns P (.adjoint U) h
    simp only [UnOp.annFree] at h
    have ih := toOp_good P U h
    refine ⟨by simp only [UnOp.toOp, Op.wf]; exact ih.wf, by simp only [UnOp.toOp, Op.dupSlice]; exact ih.nd, ?_⟩
    simp only [UnOp.toOp] at hann ⊢
    simp only [Op.HermOK]
    exact ⟨hermNode_of_anns_nil hann, ih.herm⟩
  | .scaledEye .., h => by simp [UnOp.annFree] at h
  | .eyeLike .., h => by simp [UnOp.annFree] at h
  | .product .., h => by simp [UnOp.annFree] at h
  | .raise .., h => by simp [UnOp.annFree] at h
termination_by U => sizeOf U

end Unary
