import ColaVerif.Model.DiagTraceSel

/-!
# C08: the model's rule selection stays inside its rule table and speaks about `diagCode`

* `diagRuleSig_mem`, `traceRuleSig_mem` — the method the model names is one of `diagRuleTable` /
  `traceRuleTable` (the tables harness/props/c08.py compares with the live dispatcher);
* `diagRuleClass_super` — its first-position class is the operator's class, `Dense` for a
  `Triangular`, or `LinearOperator`;
* `diagCode_generic_rule` — where `diagRuleClass` names the `LinearOperator` methods, `diagCode` is
  `genericDiag` on the operator object.
-/

namespace Op
variable {R : Type}

theorem diagRuleClass_mem : ∀ (A : Op R), A.diagRuleClass ∈
    [clsLinOp, "cola.ops.operators.Dense", "cola.ops.operators.Identity", "cola.ops.operators.Diagonal",
     "cola.ops.operators.Sum", "cola.ops.operators.BlockDiag", "cola.ops.operators.ScalarMul",
     "cola.ops.operators.Kronecker", "cola.ops.operators.KronSum"]
  | annot _ A => by rw [diagRuleClass]; exact diagRuleClass_mem A
  | dense .. => by simp [diagRuleClass]
  | tri .. => by simp [diagRuleClass]
  | sparse .. => by simp [diagRuleClass, clsLinOp]
  | scalar .. => by simp [diagRuleClass]
  | eye .. => by simp [diagRuleClass]
  | prod _ => by simp [diagRuleClass, clsLinOp]
  | sum _ => by simp [diagRuleClass]
  | kron _ => by simp [diagRuleClass]
  | kronsum _ => by simp [diagRuleClass]
  | bdiag .. => by simp [diagRuleClass]
  | diag .. => by simp [diagRuleClass]
  | tridiag .. => by simp [diagRuleClass, clsLinOp]
  | transpose _ => by simp [diagRuleClass, clsLinOp]
  | adjoint _ => by simp [diagRuleClass, clsLinOp]
  | sliced .. => by simp [diagRuleClass, clsLinOp]
  | perm .. => by simp [diagRuleClass, clsLinOp]
  | concat .. => by simp [diagRuleClass, clsLinOp]
  | house .. => by simp [diagRuleClass, clsLinOp]
  | generic _ => by simp [diagRuleClass, clsLinOp]

/-- the model only applies methods of its table -/
theorem diagRuleSig_mem (alg : AlgK) (A : Op R) : diagRuleSig alg A ∈ diagRuleTable := by
  have h := diagRuleClass_mem A
  simp only [List.mem_cons, List.not_mem_nil, or_false] at h
  rcases h with h | h | h | h | h | h | h | h | h
  · cases alg <;> simp [diagRuleSig, h, diagRuleTable]
  all_goals (rw [diagRuleSig, h, if_neg (by decide)]; decide)


theorem traceRuleSig_mem (alg : AlgK) : ∀ (A : Op R), traceRuleSig alg A ∈ traceRuleTable
  | annot _ A => by
    have := traceRuleSig_mem alg A
    simpa only [traceRuleSig, traceRuleClass] using this
  | kron _ => by simp [traceRuleSig, traceRuleClass, traceRuleTable]
  | dense .. => by simp [traceRuleSig, traceRuleClass, traceRuleTable, clsLinOp]
  | tri .. => by simp [traceRuleSig, traceRuleClass, traceRuleTable, clsLinOp]
  | sparse .. => by simp [traceRuleSig, traceRuleClass, traceRuleTable, clsLinOp]
  | scalar .. => by simp [traceRuleSig, traceRuleClass, traceRuleTable, clsLinOp]
  | eye .. => by simp [traceRuleSig, traceRuleClass, traceRuleTable, clsLinOp]
  | prod _ => by simp [traceRuleSig, traceRuleClass, traceRuleTable, clsLinOp]
  | sum _ => by simp [traceRuleSig, traceRuleClass, traceRuleTable, clsLinOp]
  | kronsum _ => by simp [traceRuleSig, traceRuleClass, traceRuleTable, clsLinOp]
  | bdiag .. => by simp [traceRuleSig, traceRuleClass, traceRuleTable, clsLinOp]
  | diag .. => by simp [traceRuleSig, traceRuleClass, traceRuleTable, clsLinOp]
  | tridiag .. => by simp [traceRuleSig, traceRuleClass, traceRuleTable, clsLinOp]
  | transpose _ => by simp [traceRuleSig, traceRuleClass, traceRuleTable, clsLinOp]
  | adjoint _ => by simp [traceRuleSig, traceRuleClass, traceRuleTable, clsLinOp]
  | sliced .. => by simp [traceRuleSig, traceRuleClass, traceRuleTable, clsLinOp]
  | perm .. => by simp [traceRuleSig, traceRuleClass, traceRuleTable, clsLinOp]
  | concat .. => by simp [traceRuleSig, traceRuleClass, traceRuleTable, clsLinOp]
  | house .. => by simp [traceRuleSig, traceRuleClass, traceRuleTable, clsLinOp]
  | generic _ => by simp [traceRuleSig, traceRuleClass, traceRuleTable, clsLinOp]

/-- the first-position class of the selected method is the class of the operator object, its
superclass `Dense` (for a `Triangular`), or `LinearOperator` -/
theorem diagRuleClass_super : ∀ (A : Op R), A.diagRuleClass = A.className ∨
    (A.className = "cola.ops.operators.Triangular" ∧ A.diagRuleClass = "cola.ops.operators.Dense") ∨
    A.diagRuleClass = clsLinOp
  | annot _ A => by rw [diagRuleClass, className]; exact diagRuleClass_super A
  | dense .. => by simp [diagRuleClass, className]
  | tri .. => by simp [diagRuleClass, className]
  | sparse .. => by simp [diagRuleClass, clsLinOp]
  | scalar .. => by simp [diagRuleClass, className]
  | eye .. => by simp [diagRuleClass, className]
  | prod _ => by simp [diagRuleClass, clsLinOp]
  | sum _ => by simp [diagRuleClass, className]
  | kron _ => by simp [diagRuleClass, className]
  | kronsum _ => by simp [diagRuleClass, className]
  | bdiag .. => by simp [diagRuleClass, className]
  | diag .. => by simp [diagRuleClass, className]
  | tridiag .. => by simp [diagRuleClass, clsLinOp]
  | transpose _ => by simp [diagRuleClass, clsLinOp]
  | adjoint _ => by simp [diagRuleClass, clsLinOp]
  | sliced .. => by simp [diagRuleClass, clsLinOp]
  | perm .. => by simp [diagRuleClass, clsLinOp]
  | concat .. => by simp [diagRuleClass, clsLinOp]
  | house .. => by simp [diagRuleClass, clsLinOp]
  | generic _ => by simp [diagRuleClass, clsLinOp]

variable [CommRing R] [StarRing R] [DecidableEq R]

/-- `diagRuleClass` speaks about `diagCode`: where it names the `LinearOperator` methods, `diagCode`
is the generic path (Auto decision, probing loop) on the operator object -/
theorem diagCode_generic_rule (bs0 : Nat) (alg : Alg) : ∀ (A : Op R) (k : Int),
    A.diagRuleClass = clsLinOp → diagCode bs0 alg A k = genericDiag bs0 alg A.core k
  | annot _ A, k, h => by
    rw [diagRuleClass] at h
    rw [diagCode, core]
    exact diagCode_generic_rule bs0 alg A k h
  | dense .., _, h => by simp [diagRuleClass, clsLinOp] at h
  | tri .., _, h => by simp [diagRuleClass, clsLinOp] at h
  | scalar .., _, h => by simp [diagRuleClass, clsLinOp] at h
  | eye .., _, h => by simp [diagRuleClass, clsLinOp] at h
  | sum _, _, h => by simp [diagRuleClass, clsLinOp] at h
  | kron _, _, h => by simp [diagRuleClass, clsLinOp] at h
  | kronsum _, _, h => by simp [diagRuleClass, clsLinOp] at h
  | bdiag .., _, h => by simp [diagRuleClass, clsLinOp] at h
  | diag .., _, h => by simp [diagRuleClass, clsLinOp] at h
  | sparse .., _, _ => by
    rw [diagCode, core]
    all_goals (intros; contradiction)
  | prod _, _, _ => by
    rw [diagCode, core]
    all_goals (intros; contradiction)
  | tridiag .., _, _ => by
    rw [diagCode, core]
    all_goals (intros; contradiction)
  | transpose _, _, _ => by
    rw [diagCode, core]
    all_goals (intros; contradiction)
  | adjoint _, _, _ => by
    rw [diagCode, core]
    all_goals (intros; contradiction)
  | sliced .., _, _ => by
    rw [diagCode, core]
    all_goals (intros; contradiction)
  | perm .., _, _ => by
    rw [diagCode, core]
    all_goals (intros; contradiction)
  | concat .., _, _ => by
    rw [diagCode, core]
    all_goals (intros; contradiction)
  | house .., _, _ => by
    rw [diagCode, core]
    all_goals (intros; contradiction)
  | generic _, _, _ => by
    rw [diagCode, core]
    all_goals (intros; contradiction)

end Op
