import ColaVerif.Basic.GRat
import Mathlib.Algebra.Field.Defs
import Mathlib.Algebra.Order.Field.Rat
import Mathlib.Tactic.FieldSimp
import Mathlib.Tactic.Linarith

/-!
# `GRat` (ℚ[i]) is a field

The structural rules of `eig` divide (back substitution), so the model `Model/Eig.lean` is generic
over a `Field`; with this instance the driver evaluates literally the definitions the theorems of
`Lemmas/EigTri.lean` are about.  The reciprocal is `GRat.inv` (the one the inverse rules use).
-/

namespace GRat

theorem normSq_ne_zero {a : GRat} (h : a ≠ 0) : a.re * a.re + a.im * a.im ≠ 0 := by
  intro h0
  apply h
  have h1 : a.re = 0 := by nlinarith [mul_self_nonneg a.re, mul_self_nonneg a.im]
  have h2 : a.im = 0 := by nlinarith [mul_self_nonneg a.re, mul_self_nonneg a.im]
  ext <;> simp [h1, h2]

instance instFieldEig : Field GRat where
  inv := GRat.inv
  exists_pair_ne := ⟨0, 1, by intro h; have := congrArg GRat.re h; simp at this⟩
  mul_inv_cancel a h := by
    have hd := normSq_ne_zero h
    ext
    · simp only [mul_re, one_re]; show a.re * (a.re / _) - a.im * (-a.im / _) = 1
      rw [neg_div, mul_neg, sub_neg_eq_add, ← mul_div_assoc, ← mul_div_assoc, ← add_div]
      exact div_self hd
    · simp only [mul_im, one_im]; show a.re * (-a.im / _) + a.im * (a.re / _) = 0
      field_simp; ring
  inv_zero := by ext <;> simp [GRat.inv]
  nnqsmul := _
  nnqsmul_def := fun _ _ => rfl
  qsmul := _
  qsmul_def := fun _ _ => rfl

/-- squared modulus (`abs(a) ≤ abs(b) ↔ normSq a ≤ normSq b` in exact arithmetic) -/
def normSq (a : GRat) : Rat := a.re * a.re + a.im * a.im

/-- the order of `argsort(abs(·))` -/
def magLe (a b : GRat) : Bool := decide (normSq a ≤ normSq b)

end GRat
