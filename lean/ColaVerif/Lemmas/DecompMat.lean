import ColaVerif.Lemmas.Bridge
import Mathlib.LinearAlgebra.Matrix.Permutation

/-!
# C11, matrix level: triangular / permutation windows and the two factorisation facts

`LowerTri n D`, `UpperTri n D`, `IsPermMat n D` talk about the `n × n` window of an entry function;
`CholFact n L A` = "`L` is lower triangular and `L Lᴴ = A`", `PLUFact n P L U A` = "`P` is a
permutation matrix, `L` lower, `U` upper triangular and `P (L U) = A`" (products through the bridge
`MatF.toMatrix`, i.e. Mathlib's matrix product and `ᴴ`).

Closure of the two facts under: window congruence, identity, diagonal with a root, `np.kron`
(`kron2`), one step of `block_diag` (`blockDiagM` cons), a run of equal blocks.  No reference to
`Op` here.  Everything is over an arbitrary commutative star ring, so it applies literally to the
Gaussian rationals the driver computes with and to `ℝ`/`ℂ`.
-/

open Matrix
open scoped Kronecker

set_option linter.unusedSectionVars false

variable {R : Type}

/-! ## the predicates -/

def LowerTri [Zero R] (n : Nat) (D : MatF R) : Prop := ∀ i j, i < n → j < n → i < j → D i j = 0
def UpperTri [Zero R] (n : Nat) (D : MatF R) : Prop := ∀ i j, i < n → j < n → j < i → D i j = 0

/-- the window is the matrix of a permutation `σ` of `Fin n`: row `i` has its one in column `σ i` -/
def IsPermMat [Zero R] [One R] (n : Nat) (D : MatF R) : Prop :=
  ∃ σ : Equiv.Perm (Fin n), ∀ i j : Fin n, D i.val j.val = if σ i = j then 1 else 0

theorem LowerTri.congr [Zero R] {n : Nat} {D D' : MatF R} (h : EqOn n n D D') (hD : LowerTri n D) :
    LowerTri n D' := fun i j hi hj hij => (h i j hi hj).symm.trans (hD i j hi hj hij)

theorem UpperTri.congr [Zero R] {n : Nat} {D D' : MatF R} (h : EqOn n n D D') (hD : UpperTri n D) :
    UpperTri n D' := fun i j hi hj hij => (h i j hi hj).symm.trans (hD i j hi hj hij)

theorem IsPermMat.congr [Zero R] [One R] {n : Nat} {D D' : MatF R} (h : EqOn n n D D')
    (hD : IsPermMat n D) : IsPermMat n D' := by
  obtain ⟨σ, hσ⟩ := hD
  exact ⟨σ, fun i j => (h i.val j.val i.isLt j.isLt).symm.trans (hσ i j)⟩

/-- Mathlib reading of `IsPermMat`: the window is `σ.permMatrix` -/
theorem isPermMat_iff [Zero R] [One R] {n : Nat} {D : MatF R} :
    IsPermMat n D ↔ ∃ σ : Equiv.Perm (Fin n), MatF.toMatrix n n D = σ.permMatrix R := by
  constructor
  · rintro ⟨σ, hσ⟩
    refine ⟨σ, ?_⟩
    ext i j
    rw [MatF.toMatrix_apply, hσ i j, Equiv.Perm.permMatrix, PEquiv.toMatrix_apply]
    simp [Equiv.toPEquiv_apply, eq_comm]
  · rintro ⟨σ, hσ⟩
    refine ⟨σ, fun i j => ?_⟩
    have := congrFun (congrFun hσ i) j
    rw [MatF.toMatrix_apply, Equiv.Perm.permMatrix, PEquiv.toMatrix_apply] at this
    rw [this]
    simp [Equiv.toPEquiv_apply, eq_comm]

section facts
variable [CommRing R] [StarRing R]

/-- `L` is lower triangular and `L Lᴴ = A` on the `n × n` window -/
def CholFact (n : Nat) (L A : MatF R) : Prop :=
  LowerTri n L ∧ MatF.toMatrix n n L * (MatF.toMatrix n n L)ᴴ = MatF.toMatrix n n A

/-- `P` is a permutation matrix, `L` lower and `U` upper triangular, `P (L U) = A` -/
def PLUFact (n : Nat) (P L U A : MatF R) : Prop :=
  IsPermMat n P ∧ LowerTri n L ∧ UpperTri n U ∧
    MatF.toMatrix n n P * (MatF.toMatrix n n L * MatF.toMatrix n n U) = MatF.toMatrix n n A

theorem CholFact.congr {n : Nat} {L L' A A' : MatF R} (hL : EqOn n n L L') (hA : EqOn n n A A')
    (h : CholFact n L A) : CholFact n L' A' :=
  ⟨h.1.congr hL, by rw [← MatF.toMatrix_congr hL, ← MatF.toMatrix_congr hA]; exact h.2⟩

theorem PLUFact.congr {n : Nat} {P P' L L' U U' A A' : MatF R} (hP : EqOn n n P P')
    (hL : EqOn n n L L') (hU : EqOn n n U U') (hA : EqOn n n A A') (h : PLUFact n P L U A) :
    PLUFact n P' L' U' A' :=
  ⟨h.1.congr hP, h.2.1.congr hL, h.2.2.1.congr hU, by
    rw [← MatF.toMatrix_congr hP, ← MatF.toMatrix_congr hL, ← MatF.toMatrix_congr hU,
      ← MatF.toMatrix_congr hA]; exact h.2.2.2⟩

/-- the entrywise (`mmul`) reading of the Cholesky identity -/
theorem CholFact.eqOn {n : Nat} {L A : MatF R} (h : CholFact n L A) :
    EqOn n n (mmul n L (conjM (transposeM L))) A := by
  rw [← MatF.toMatrix_eq_iff, MatF.toMatrix_mmul, MatF.toMatrix_adjoint]
  exact h.2

/-- the entrywise (`mmul`) reading of the PLU identity -/
theorem PLUFact.eqOn {n : Nat} {P L U A : MatF R} (h : PLUFact n P L U A) :
    EqOn n n (mmul n P (mmul n L U)) A := by
  rw [← MatF.toMatrix_eq_iff, MatF.toMatrix_mmul, MatF.toMatrix_mmul]
  exact h.2.2.2

theorem cholFact_of_eqOn {n : Nat} {L A : MatF R} (hL : LowerTri n L)
    (h : EqOn n n (mmul n L (conjM (transposeM L))) A) : CholFact n L A := by
  refine ⟨hL, ?_⟩
  rw [← MatF.toMatrix_eq_iff, MatF.toMatrix_mmul, MatF.toMatrix_adjoint] at h
  exact h

theorem pluFact_of_eqOn {n : Nat} {P L U A : MatF R} (hP : IsPermMat n P) (hL : LowerTri n L)
    (hU : UpperTri n U) (h : EqOn n n (mmul n P (mmul n L U)) A) : PLUFact n P L U A := by
  refine ⟨hP, hL, hU, ?_⟩
  rw [← MatF.toMatrix_eq_iff, MatF.toMatrix_mmul, MatF.toMatrix_mmul] at h
  exact h

/-- the permutation matrix of a duplicate-free list of in-range positions (`Permutation(p)`:
`(P v)[i] = v[p[i]]`, i.e. row `i` has its one in column `p[i]`) -/
theorem isPermMat_permDen (p : List Nat) (hlt : ∀ t ∈ p, t < p.length) (hnd : p.Nodup) :
    IsPermMat p.length (permDen p : MatF R) := by
  let σ : Fin p.length → Fin p.length := MatF.idxFin p.length p hlt
  have hinj : Function.Injective σ := by
    intro i j hij
    have h := congrArg Fin.val hij
    simp only [σ, MatF.idxFin] at h
    rw [← List.getElem_eq_getD (h := i.isLt) 0, ← List.getElem_eq_getD (h := j.isLt) 0] at h
    exact Fin.ext ((List.Nodup.getElem_inj_iff hnd).mp h)
  refine ⟨Equiv.ofBijective σ (Finite.injective_iff_bijective.mp hinj), fun i j => ?_⟩
  simp only [permDen, Equiv.ofBijective_apply, σ, MatF.idxFin, Fin.ext_iff]

/-! ## everything holds of an empty window -/

theorem lowerTri_zero (D : MatF R) : LowerTri 0 D := fun _ _ hi => absurd hi (Nat.not_lt_zero _)
theorem upperTri_zero (D : MatF R) : UpperTri 0 D := fun _ _ hi => absurd hi (Nat.not_lt_zero _)
theorem isPermMat_zero (D : MatF R) : IsPermMat 0 D := ⟨1, fun i => i.elim0⟩

theorem cholFact_zero (L A : MatF R) : CholFact 0 L A :=
  ⟨lowerTri_zero L, by ext i; exact i.elim0⟩

theorem pluFact_zero (P L U A : MatF R) : PLUFact 0 P L U A :=
  ⟨isPermMat_zero P, lowerTri_zero L, upperTri_zero U, by ext i; exact i.elim0⟩

/-! ## identity and diagonal -/

theorem lowerTri_diagM (n : Nat) (d : Nat → R) : LowerTri n (diagM d) := by
  intro i j _ _ hij
  simp only [diagM]
  rw [if_neg (by omega)]

theorem upperTri_diagM (n : Nat) (d : Nat → R) : UpperTri n (diagM d) := by
  intro i j _ _ hij
  simp only [diagM]
  rw [if_neg (by omega)]

theorem toMatrix_diagM_decomp (n : Nat) (d : Nat → R) :
    MatF.toMatrix n n (diagM d) = Matrix.diagonal (fun i : Fin n => d i.val) := by
  ext i j
  simp only [MatF.toMatrix_apply, diagM, Matrix.diagonal_apply, Fin.ext_iff]

theorem eyeM_eq_diagM : (eyeM : MatF R) = diagM (fun _ => 1) := rfl

theorem isPermMat_eyeM (n : Nat) : IsPermMat n (eyeM : MatF R) :=
  ⟨1, fun i j => by simp only [eyeM, Equiv.Perm.coe_one, id_eq, Fin.ext_iff]⟩

/-- `diag(s) diag(s)ᴴ = diag(d)` when `s i · star (s i) = d i` -/
theorem cholFact_diagM (n : Nat) (s d : Nat → R) (h : ∀ i, i < n → s i * star (s i) = d i) :
    CholFact n (diagM s) (diagM d) := by
  refine ⟨lowerTri_diagM n s, ?_⟩
  rw [toMatrix_diagM_decomp, toMatrix_diagM_decomp, diagonal_conjTranspose, diagonal_mul_diagonal]
  congr 1
  funext i
  exact h i.val i.isLt

/-- `I · (diag(s) diag(s)) = diag(d)` when `s i · s i = d i` -/
theorem pluFact_diagM (n : Nat) (s d : Nat → R) (h : ∀ i, i < n → s i * s i = d i) :
    PLUFact n eyeM (diagM s) (diagM s) (diagM d) := by
  refine ⟨isPermMat_eyeM n, lowerTri_diagM n s, upperTri_diagM n s, ?_⟩
  rw [MatF.toMatrix_eyeM, Matrix.one_mul, toMatrix_diagM_decomp, toMatrix_diagM_decomp, diagonal_mul_diagonal]
  congr 1
  funext i
  exact h i.val i.isLt

/-- an upper-triangular matrix is its own upper factor: `I · (I · D) = D` -/
theorem pluFact_self (n : Nat) (D : MatF R) (hD : UpperTri n D) : PLUFact n eyeM eyeM D D := by
  refine ⟨isPermMat_eyeM n, ?_, hD, ?_⟩
  · rw [eyeM_eq_diagM]; exact lowerTri_diagM n _
  · rw [MatF.toMatrix_eyeM, Matrix.one_mul, Matrix.one_mul]

theorem cholFact_eyeM (n : Nat) : CholFact n (eyeM : MatF R) eyeM := by
  rw [eyeM_eq_diagM]
  exact cholFact_diagM n _ _ (fun _ _ => by simp)

theorem pluFact_eyeM (n : Nat) : PLUFact n (eyeM : MatF R) eyeM eyeM eyeM := by
  have h := pluFact_diagM (R := R) n (fun _ => 1) (fun _ => 1) (fun _ _ => by simp)
  exact h

/-! ## `np.kron` -/

theorem kron2_idx {r r' I : Nat} (hI : I < r * r') : I / r' < r ∧ I % r' < r' := by
  have hpos : 0 < r' := by
    rcases Nat.eq_zero_or_pos r' with h | h
    · subst h; simp at hI
    · exact h
  exact ⟨(Nat.div_lt_iff_lt_mul hpos).mpr hI, Nat.mod_lt _ hpos⟩

theorem lowerTri_kron2 (r r' : Nat) (A B : MatF R) (hA : LowerTri r A) (hB : LowerTri r' B) :
    LowerTri (r * r') (kron2 r' r' A B) := by
  intro I J hI hJ hIJ
  obtain ⟨hI1, hI2⟩ := kron2_idx hI
  obtain ⟨hJ1, hJ2⟩ := kron2_idx hJ
  simp only [kron2]
  have hle : I / r' ≤ J / r' := Nat.div_le_div_right (Nat.le_of_lt hIJ)
  rcases Nat.lt_or_ge (I / r') (J / r') with hlt | hge
  · rw [hA _ _ hI1 hJ1 hlt, zero_mul]
  · have heq : I / r' = J / r' := Nat.le_antisymm hle hge
    have h1 := Nat.div_add_mod I r'
    have h2 := Nat.div_add_mod J r'
    have hm : I % r' < J % r' := by
      rw [heq] at h1; omega
    rw [hB _ _ hI2 hJ2 hm, mul_zero]

theorem upperTri_kron2 (r r' : Nat) (A B : MatF R) (hA : UpperTri r A) (hB : UpperTri r' B) :
    UpperTri (r * r') (kron2 r' r' A B) := by
  intro I J hI hJ hIJ
  obtain ⟨hI1, hI2⟩ := kron2_idx hI
  obtain ⟨hJ1, hJ2⟩ := kron2_idx hJ
  simp only [kron2]
  have hle : J / r' ≤ I / r' := Nat.div_le_div_right (Nat.le_of_lt hIJ)
  rcases Nat.lt_or_ge (J / r') (I / r') with hlt | hge
  · rw [hA _ _ hI1 hJ1 hlt, zero_mul]
  · have heq : J / r' = I / r' := Nat.le_antisymm hle hge
    have h1 := Nat.div_add_mod I r'
    have h2 := Nat.div_add_mod J r'
    have hm : J % r' < I % r' := by
      rw [heq] at h2; omega
    rw [hB _ _ hI2 hJ2 hm, mul_zero]

theorem isPermMat_kron2 (r r' : Nat) (A B : MatF R) (hA : IsPermMat r A) (hB : IsPermMat r' B) :
    IsPermMat (r * r') (kron2 r' r' A B) := by
  obtain ⟨σ, hσ⟩ := hA
  obtain ⟨τ, hτ⟩ := hB
  refine ⟨(finProdFinEquiv.symm.trans (Equiv.prodCongr σ τ)).trans finProdFinEquiv, fun i j => ?_⟩
  obtain ⟨⟨a, b⟩, rfl⟩ := finProdFinEquiv.surjective i
  obtain ⟨⟨a', b'⟩, rfl⟩ := finProdFinEquiv.surjective j
  have key := congrFun (congrFun (MatF.toMatrix_kron2 r r r' r' A B) (finProdFinEquiv (a, b)))
    (finProdFinEquiv (a', b'))
  simp only [MatF.toMatrix_apply] at key
  rw [key]
  simp only [reindex_apply, submatrix_apply, Equiv.symm_apply_apply, kroneckerMap_apply,
    MatF.toMatrix_apply, Equiv.trans_apply, Equiv.prodCongr_apply, Prod.map_apply,
    EmbeddingLike.apply_eq_iff_eq, Prod.mk.injEq]
  rw [hσ a a', hτ b b']
  by_cases h1 : σ a = a' <;> by_cases h2 : τ b = b' <;> simp [h1, h2]

theorem toMatrix_kron2_conjTranspose (r c r' c' : Nat) (A B : MatF R) :
    (MatF.toMatrix (r * r') (c * c') (kron2 r' c' A B))ᴴ
      = Matrix.reindex finProdFinEquiv finProdFinEquiv
          ((MatF.toMatrix r c A)ᴴ ⊗ₖ (MatF.toMatrix r' c' B)ᴴ) := by
  rw [MatF.toMatrix_kron2, conjTranspose_reindex, conjTranspose_kronecker]

theorem reindex_mul_reindex {l m n l' m' n' : Type} [Fintype m] [Fintype m']
    (e : l ≃ l') (f : m ≃ m') (g : n ≃ n') (M : Matrix l m R) (N : Matrix m n R) :
    Matrix.reindex e f M * Matrix.reindex f g N = Matrix.reindex e g (M * N) := by
  simp only [reindex_apply]
  exact submatrix_mul_equiv M N e.symm f.symm g.symm

theorem cholFact_kron2 (r r' : Nat) (L₁ A₁ L₂ A₂ : MatF R) (h₁ : CholFact r L₁ A₁)
    (h₂ : CholFact r' L₂ A₂) :
    CholFact (r * r') (kron2 r' r' L₁ L₂) (kron2 r' r' A₁ A₂) := by
  refine ⟨lowerTri_kron2 r r' L₁ L₂ h₁.1 h₂.1, ?_⟩
  rw [toMatrix_kron2_conjTranspose, MatF.toMatrix_kron2, reindex_mul_reindex, ← mul_kronecker_mul,
    h₁.2, h₂.2, MatF.toMatrix_kron2]

theorem pluFact_kron2 (r r' : Nat) (P₁ L₁ U₁ A₁ P₂ L₂ U₂ A₂ : MatF R)
    (h₁ : PLUFact r P₁ L₁ U₁ A₁) (h₂ : PLUFact r' P₂ L₂ U₂ A₂) :
    PLUFact (r * r') (kron2 r' r' P₁ P₂) (kron2 r' r' L₁ L₂) (kron2 r' r' U₁ U₂)
      (kron2 r' r' A₁ A₂) := by
  refine ⟨isPermMat_kron2 r r' P₁ P₂ h₁.1 h₂.1, lowerTri_kron2 r r' L₁ L₂ h₁.2.1 h₂.2.1,
    upperTri_kron2 r r' U₁ U₂ h₁.2.2.1 h₂.2.2.1, ?_⟩
  rw [MatF.toMatrix_kron2, MatF.toMatrix_kron2, MatF.toMatrix_kron2, reindex_mul_reindex,
    reindex_mul_reindex, ← mul_kronecker_mul, ← mul_kronecker_mul, h₁.2.2.2, h₂.2.2.2,
    MatF.toMatrix_kron2]

/-! ## one step of `block_diag` -/

theorem lowerTri_blockDiagM_cons (r N : Nat) (m : MatF R) (rest : List (Nat × Nat × MatF R))
    (h1 : LowerTri r m) (h2 : LowerTri N (blockDiagM rest)) :
    LowerTri (r + N) (blockDiagM ((r, r, m) :: rest)) := by
  intro i j hi hj hij
  simp only [blockDiagM]
  by_cases hir : i < r
  · rw [if_pos hir]
    by_cases hjr : j < r
    · rw [if_pos hjr]; exact h1 i j hir hjr hij
    · rw [if_neg hjr]
  · rw [if_neg hir, if_neg (by omega)]
    exact h2 _ _ (by omega) (by omega) (by omega)

theorem upperTri_blockDiagM_cons (r N : Nat) (m : MatF R) (rest : List (Nat × Nat × MatF R))
    (h1 : UpperTri r m) (h2 : UpperTri N (blockDiagM rest)) :
    UpperTri (r + N) (blockDiagM ((r, r, m) :: rest)) := by
  intro i j hi hj hij
  simp only [blockDiagM]
  by_cases hir : i < r
  · rw [if_pos hir, if_pos (by omega)]
    exact h1 i j hir (by omega) hij
  · rw [if_neg hir]
    by_cases hjr : j < r
    · rw [if_pos hjr]
    · rw [if_neg hjr]
      exact h2 _ _ (by omega) (by omega) (by omega)

theorem isPermMat_blockDiagM_cons (r N : Nat) (m : MatF R) (rest : List (Nat × Nat × MatF R))
    (h1 : IsPermMat r m) (h2 : IsPermMat N (blockDiagM rest)) :
    IsPermMat (r + N) (blockDiagM ((r, r, m) :: rest)) := by
  obtain ⟨σ, hσ⟩ := h1
  obtain ⟨τ, hτ⟩ := h2
  refine ⟨(finSumFinEquiv.symm.trans (Equiv.sumCongr σ τ)).trans finSumFinEquiv, fun i j => ?_⟩
  obtain ⟨i', rfl⟩ := finSumFinEquiv.surjective i
  obtain ⟨j', rfl⟩ := finSumFinEquiv.surjective j
  have key := congrFun (congrFun (MatF.toMatrix_blockDiagM_cons r r N N m rest)
    (finSumFinEquiv i')) (finSumFinEquiv j')
  simp only [MatF.toMatrix_apply] at key
  rw [key]
  simp only [reindex_apply, submatrix_apply, Equiv.symm_apply_apply, Equiv.trans_apply,
    EmbeddingLike.apply_eq_iff_eq]
  cases i' with
  | inl a =>
    cases j' with
    | inl b => simp [hσ a b]
    | inr b => simp
  | inr a =>
    cases j' with
    | inl b => simp
    | inr b => simp [hτ a b]

theorem cholFact_blockDiagM_cons (r N : Nat) (l a : MatF R) (Ls As : List (Nat × Nat × MatF R))
    (h1 : CholFact r l a) (h2 : CholFact N (blockDiagM Ls) (blockDiagM As)) :
    CholFact (r + N) (blockDiagM ((r, r, l) :: Ls)) (blockDiagM ((r, r, a) :: As)) := by
  refine ⟨lowerTri_blockDiagM_cons r N l Ls h1.1 h2.1, ?_⟩
  rw [MatF.toMatrix_blockDiagM_cons, MatF.toMatrix_blockDiagM_cons, conjTranspose_reindex,
    reindex_mul_reindex, fromBlocks_conjTranspose, fromBlocks_multiply, ← h1.2, ← h2.2]
  simp

theorem pluFact_blockDiagM_cons (r N : Nat) (p l u a : MatF R)
    (Ps Ls Us As : List (Nat × Nat × MatF R)) (h1 : PLUFact r p l u a)
    (h2 : PLUFact N (blockDiagM Ps) (blockDiagM Ls) (blockDiagM Us) (blockDiagM As)) :
    PLUFact (r + N) (blockDiagM ((r, r, p) :: Ps)) (blockDiagM ((r, r, l) :: Ls))
      (blockDiagM ((r, r, u) :: Us)) (blockDiagM ((r, r, a) :: As)) := by
  refine ⟨isPermMat_blockDiagM_cons r N p Ps h1.1 h2.1,
    lowerTri_blockDiagM_cons r N l Ls h1.2.1 h2.2.1,
    upperTri_blockDiagM_cons r N u Us h1.2.2.1 h2.2.2.1, ?_⟩
  rw [MatF.toMatrix_blockDiagM_cons, MatF.toMatrix_blockDiagM_cons, MatF.toMatrix_blockDiagM_cons,
    MatF.toMatrix_blockDiagM_cons, reindex_mul_reindex, reindex_mul_reindex, fromBlocks_multiply,
    fromBlocks_multiply, ← h1.2.2.2, ← h2.2.2.2]
  simp

/-! ## a run of `k` equal blocks in front (multiplicities) -/

theorem cholFact_blockDiagM_replicate (r N : Nat) (l a : MatF R)
    (Ls As : List (Nat × Nat × MatF R)) (h1 : CholFact r l a)
    (h2 : CholFact N (blockDiagM Ls) (blockDiagM As)) :
    ∀ k : Nat, CholFact (k * r + N) (blockDiagM (List.replicate k (r, r, l) ++ Ls))
      (blockDiagM (List.replicate k (r, r, a) ++ As))
  | 0 => by simpa using h2
  | k + 1 => by
    have ih := cholFact_blockDiagM_replicate r N l a Ls As h1 h2 k
    have e : (k + 1) * r + N = r + (k * r + N) := by ring
    rw [e, List.replicate_succ, List.replicate_succ, List.cons_append, List.cons_append]
    exact cholFact_blockDiagM_cons r _ l a _ _ h1 ih

theorem pluFact_blockDiagM_replicate (r N : Nat) (p l u a : MatF R)
    (Ps Ls Us As : List (Nat × Nat × MatF R)) (h1 : PLUFact r p l u a)
    (h2 : PLUFact N (blockDiagM Ps) (blockDiagM Ls) (blockDiagM Us) (blockDiagM As)) :
    ∀ k : Nat, PLUFact (k * r + N) (blockDiagM (List.replicate k (r, r, p) ++ Ps))
      (blockDiagM (List.replicate k (r, r, l) ++ Ls))
      (blockDiagM (List.replicate k (r, r, u) ++ Us))
      (blockDiagM (List.replicate k (r, r, a) ++ As))
  | 0 => by simpa using h2
  | k + 1 => by
    have ih := pluFact_blockDiagM_replicate r N p l u a Ps Ls Us As h1 h2 k
    have e : (k + 1) * r + N = r + (k * r + N) := by ring
    rw [e]
    simp only [List.replicate_succ, List.cons_append]
    exact pluFact_blockDiagM_cons r _ p l u a _ _ _ _ h1 ih

end facts
