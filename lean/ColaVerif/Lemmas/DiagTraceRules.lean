import ColaVerif.Lemmas.DiagTraceExact
import ColaVerif.Lemmas.OpAlgebra
import ColaVerif.Lemmas.KronSum
import ColaVerif.Lemmas.BlockDiag

/-!
# C08: list-level lemmas behind the structural rules of `diag` / `trace`

`dtSeqE` / `sumFold` (results of the member calls), outer products and sums in row-major order,
the diagonal of a Kronecker product / Kronecker sum / block-diagonal matrix of SQUARE members.
-/

open Finset

namespace Op
variable {R : Type}

/-! ## results of `dtSeqE` / `sumFold` -/

theorem dtSeqE_ok {α : Type} : ∀ (rs : List (Except String α)) (ds : List α),
    dtSeqE rs = .ok ds → rs = ds.map Except.ok
  | [], ds, h => by
    simp only [dtSeqE, Except.ok.injEq] at h
    subst h
    rfl
  | r :: rs, ds, h => by
    cases r with
    | error e => simp [dtSeqE, bind, Except.bind] at h
    | ok a =>
      cases hs : dtSeqE rs with
      | error e => simp [dtSeqE, hs, bind, Except.bind] at h
      | ok as =>
        simp only [dtSeqE, hs, bind, Except.bind, pure, Except.pure, Except.ok.injEq] at h
        subst h
        simp [dtSeqE_ok rs as hs]

theorem dtSeqE_map_ok {α β : Type} (f : α → Except String β) (g : α → β) :
    ∀ (Ms : List α) (ds : List β), dtSeqE (Ms.map f) = .ok ds →
      (∀ M ∈ Ms, ∀ d, f M = .ok d → d = g M) → ds = Ms.map g
  | [], ds, h, _ => by
    simp only [List.map_nil, dtSeqE, Except.ok.injEq] at h
    subst h
    rfl
  | M :: Ms, ds, h, hf => by
    have h' := dtSeqE_ok _ _ h
    cases ds with
    | nil => simp at h'
    | cons d ds =>
      simp only [List.map_cons, List.cons.injEq] at h'
      have hd : d = g M := hf M (by simp) d h'.1
      have hrest : dtSeqE (Ms.map f) = .ok ds := by
        rw [h'.2]
        clear h h' hd hf
        induction ds with
        | nil => rfl
        | cons x xs ih => simp [dtSeqE, ih, bind, Except.bind, pure, Except.pure]
      rw [hd, dtSeqE_map_ok f g Ms ds hrest (fun M' hM' => hf M' (by simp [hM']))]
      rfl

variable [CommRing R]

theorem bcAdd_map (L : Nat) (u v : Nat → R) :
    bcAdd ((List.range L).map u) ((List.range L).map v) = .ok ((List.range L).map (fun t => u t + v t)) := by
  unfold bcAdd
  rw [if_pos (by simp), List.zipWith_map, List.zipWith_self]

theorem sumFold_aux {α : Type} (f : α → Except String (List R)) (g : α → Nat → R) (L : Nat) :
    ∀ (rest : List α) (acc : Nat → R) (d : List R),
      (rest.map f).foldlM (fun acc r' => do let d' ← r'; bcAdd acc d') ((List.range L).map acc) = .ok d →
      (∀ M ∈ rest, ∀ d', f M = .ok d' → d' = (List.range L).map (g M)) →
      d = (List.range L).map (fun t => acc t + (rest.map (fun M => g M t)).sum)
  | [], acc, d, h, _ => by
    simp only [List.map_nil, List.foldlM_nil, pure, Except.pure, Except.ok.injEq] at h
    subst h
    simp
  | M :: rest, acc, d, h, hf => by
    simp only [List.map_cons, List.foldlM_cons] at h
    cases hM : f M with
    | error e => simp [hM, bind, Except.bind] at h
    | ok d' =>
      have hd' := hf M (by simp) d' hM
      subst hd'
      simp only [hM, bind, Except.bind, bcAdd_map] at h
      have ih := sumFold_aux f g L rest (fun t => acc t + g M t) d h (fun M' hM' => hf M' (by simp [hM']))
      rw [ih]
      apply List.map_congr_left
      intro t _
      simp [add_assoc]

theorem sumFold_ok {α : Type} (f : α → Except String (List R)) (g : α → Nat → R) (L : Nat)
    (Ms : List α) (d : List R) (h : sumFold (Ms.map f) = .ok d)
    (hf : ∀ M ∈ Ms, ∀ d', f M = .ok d' → d' = (List.range L).map (g M)) :
    d = (List.range L).map (fun t => (Ms.map (fun M => g M t)).sum) := by
  cases Ms with
  | nil => simp [sumFold] at h
  | cons M rest =>
    simp only [List.map_cons, sumFold] at h
    cases hM : f M with
    | error e => simp [hM, bind, Except.bind] at h
    | ok d' =>
      have hd' := hf M (by simp) d' hM
      subst hd'
      simp only [hM, bind, Except.bind] at h
      exact sumFold_aux f g L rest (g M) d h (fun M' hM' => hf M' (by simp [hM']))

/-! ## outer products / sums, row-major -/

theorem outer_range (op : R → R → R) (f g : Nat → R) (P : Nat) : ∀ (n : Nat),
    (List.range (n * P)).map (fun t => op (f (t / P)) (g (t % P))) =
      ((List.range n).map f).flatMap (fun x => ((List.range P).map g).map (fun y => op x y))
  | 0 => by simp
  | n + 1 => by
    rcases Nat.eq_zero_or_pos P with hP | hP
    · subst hP
      simp
    · rw [Nat.succ_mul, List.range_add, List.map_append, outer_range op f g P n, List.range_succ,
        List.map_append, List.flatMap_append]
      congr 1
      simp only [List.map_map, List.map_cons, List.map_nil, List.flatMap_cons, List.flatMap_nil,
        List.append_nil]
      apply List.map_congr_left
      intro r hr
      have hr' := List.mem_range.mp hr
      simp only [Function.comp]
      rw [Nat.mul_comm n P, Nat.mul_add_div hP, Nat.mul_add_mod, Nat.div_eq_of_lt hr', Nat.mod_eq_of_lt hr']
      simp

variable [StarRing R] [DecidableEq R]

/-- the main diagonal of an operator as a list -/
def dlist (M : Op R) : List R := (List.range M.rows).map (fun t => M.den.f t t)

omit [DecidableEq R] in
theorem map_cols_eq_rows (Ms : List (Op R)) (hsq : ∀ M ∈ Ms, M.rows = M.cols) :
    Ms.map (·.cols) = Ms.map (·.rows) :=
  List.map_congr_left (fun M hM => (hsq M hM).symm)

omit [DecidableEq R] in
/-- `diag(Kronecker)` = outer product of the factors' diagonals (square factors) -/
theorem kron_diag_list : ∀ (Ms : List (Op R)), (∀ M ∈ Ms, M.rows = M.cols) →
    outerProd (Ms.map dlist) =
      (List.range (Ms.map (·.rows)).prod).map (fun t => kronDen (Ms.map facDen) t t)
  | [], _ => by simp [outerProd, kronDen, kronEntry, unravel]
  | M :: Ms, hsq => by
    have ih := kron_diag_list Ms (fun M' hM' => hsq M' (by simp [hM']))
    simp only [List.map_cons, outerProd, List.prod_cons]
    rw [ih, dlist, ← outer_range (fun x y => x * y) (fun t => M.den.f t t)]
    apply List.map_congr_left
    intro t _
    rw [kronDen_cons, map_facDen_r, map_facDen_c, map_cols_eq_rows Ms (fun M' hM' => hsq M' (by simp [hM']))]
    rfl

omit [DecidableEq R] in
theorem kronSumDen_cons_diag (F : FacAct R) (Fs : List (FacAct R)) (hrc : Fs.map (·.r) = Fs.map (·.c)) (t : Nat) :
    kronSumDen (F :: Fs) t t =
      F.a (t / (Fs.map (·.r)).prod) (t / (Fs.map (·.r)).prod) +
        kronSumDen Fs (t % (Fs.map (·.r)).prod) (t % (Fs.map (·.r)).prod) := by
  simp [kronSumDen, unravel, kronSumEntry, hrc]

omit [DecidableEq R] in
/-- `diag(KronSum)` = outer sum of the members' diagonals -/
theorem kronsum_diag_list : ∀ (Ms : List (Op R)), (∀ M ∈ Ms, M.rows = M.cols) →
    outerSum (Ms.map dlist) =
      (List.range (Ms.map (·.rows)).prod).map (fun t => kronSumDen (Ms.map facDen) t t)
  | [], _ => by simp [outerSum, kronSumDen, kronSumEntry, unravel]
  | M :: Ms, hsq => by
    have hsq' : ∀ M' ∈ Ms, M'.rows = M'.cols := fun M' hM' => hsq M' (by simp [hM'])
    have ih := kronsum_diag_list Ms hsq'
    simp only [List.map_cons, outerSum, List.prod_cons]
    rw [ih, dlist, ← outer_range (fun x y => x + y) (fun t => M.den.f t t)]
    apply List.map_congr_left
    intro t _
    rw [kronSumDen_cons_diag _ _ (by rw [map_facDen_r, map_facDen_c, map_cols_eq_rows Ms hsq']), map_facDen_r]
    rfl


/-! ## BlockDiag -/

omit [CommRing R] [StarRing R] [DecidableEq R] in
/-- the diagonal of `block_diag` of square blocks is the concatenation of the blocks' diagonals -/
theorem blockDiagM_diag [Zero R] : ∀ (L : List (Nat × Nat × MatF R)), (∀ b ∈ L, b.1 = b.2.1) →
    (List.range (L.map (·.1)).sum).map (fun t => blockDiagM L t t) =
      L.flatMap (fun b => (List.range b.1).map (fun t => b.2.2 t t))
  | [], _ => by simp
  | (r, c, m) :: rest, hsq => by
    have hrc : r = c := hsq (r, c, m) (by simp)
    subst hrc
    have ih := blockDiagM_diag rest (fun b hb => hsq b (by simp [hb]))
    simp only [List.map_cons, List.sum_cons, List.flatMap_cons]
    rw [List.range_add, List.map_append, ← ih]
    congr 1
    · apply List.map_congr_left
      intro t ht
      have := List.mem_range.mp ht
      simp [blockDiagM, this]
    · rw [List.map_map]
      apply List.map_congr_left
      intro t _
      simp [blockDiagM]

/-- the blocks of a `BlockDiag`, repeated by multiplicity -/
def blocksOf (Z : List (Op R × Nat)) : List (Nat × Nat × MatF R) :=
  Z.flatMap (fun p => List.replicate p.2 (p.1.rows, p.1.cols, p.1.den.f))

omit [DecidableEq R] in
theorem bdiagDen_blocksOf (Ms : List (Op R)) (mults : List Nat) :
    bdiagDen ((Ms.map facDen).zip mults) = blockDiagM (blocksOf (Ms.zip mults)) := by
  unfold bdiagDen expandBlocks blocksOf
  rw [List.zip_map_left, List.flatMap_map]
  rfl

omit [DecidableEq R] in
theorem dotSum_blocksOf : ∀ (Ms : List (Op R)) (mults : List Nat),
    dotSum (Ms.map (·.rows)) mults = ((blocksOf (Ms.zip mults)).map (·.1)).sum
  | [], _ => by simp [dotSum, blocksOf]
  | _ :: _, [] => by simp [dotSum, blocksOf]
  | M :: Ms, m :: ms => by
    have ih := dotSum_blocksOf Ms ms
    simp only [dotSum, blocksOf] at ih
    simp only [dotSum, blocksOf, List.map_cons, List.zip_cons_cons, List.sum_cons, List.flatMap_cons,
      List.map_append, List.sum_append, ih, List.map_replicate, List.sum_replicate, smul_eq_mul]
    rw [Nat.mul_comm]

omit [DecidableEq R] in
theorem parts_flatten : ∀ (Z : List (Op R × Nat)),
    (Z.flatMap (fun p => List.replicate p.2 (dlist p.1))).flatten =
      (blocksOf Z).flatMap (fun b => (List.range b.1).map (fun t => b.2.2 t t))
  | [] => by simp [blocksOf]
  | (M, m) :: Z => by
    have ih := parts_flatten Z
    simp only [blocksOf] at ih
    simp only [blocksOf, List.flatMap_cons, List.flatten_append, List.flatMap_append, ih]
    congr 1
    induction m with
    | zero => simp
    | succ m ihm =>
      simp only [List.replicate_succ, List.flatten_cons, List.flatMap_cons, ihm]
      rfl

omit [DecidableEq R] in
/-- `diag(BlockDiag)` = concatenation (with multiplicities) of the blocks' diagonals (square blocks) -/
theorem bdiag_diag_list (Ms : List (Op R)) (mults : List Nat) (hsq : ∀ M ∈ Ms, M.rows = M.cols) :
    (((Ms.map dlist).zip mults).flatMap (fun p => List.replicate p.2 p.1)).flatten =
      (List.range (dotSum (Ms.map (·.rows)) mults)).map
        (fun t => bdiagDen ((Ms.map facDen).zip mults) t t) := by
  rw [bdiagDen_blocksOf, dotSum_blocksOf, blockDiagM_diag, ← parts_flatten, List.zip_map_left,
    List.flatMap_map]
  · rfl
  · intro b hb
    simp only [blocksOf, List.mem_flatMap, List.mem_replicate] at hb
    obtain ⟨p, hp, _, rfl⟩ := hb
    exact hsq p.1 (List.of_mem_zip hp).1

end Op
