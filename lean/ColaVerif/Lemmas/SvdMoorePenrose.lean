import ColaVerif.Lemmas.SvdPinv
import ColaVerif.Lemmas.SvdBacksub

/-!
# C16: the Moore–Penrose inverse

`IsMoorePenrose A X`: the four Penrose equations `A X A = A`, `X A X = X`, `(A X)ᴴ = A X`,
`(X A)ᴴ = X A`.
* `IsMoorePenrose.unique` — at most one `X` satisfies them;
* `IsMoorePenrose.of_svd` — from ANY thin SVD `A = U Σ Vᴴ` (`Uᴴ U = 1`, `Vᴴ V = 1`, `Σ` a real
  diagonal, zeros allowed) the matrix `V Σ⁺ Uᴴ` (`Σ⁺` = entrywise reciprocal, `0⁺ = 0`) is the
  Moore–Penrose inverse;
* `IsMoorePenrose.of_full_column_rank` / `of_full_row_rank` — `(Aᴴ A)⁻¹ Aᴴ` resp. `Aᴴ (A Aᴴ)⁻¹`;
  `of_inverse` — a two-sided inverse;
* `IsMoorePenrose.minNormLsq` — `X b` is THE minimum-norm least-squares solution of `A x = b`;
  `eq_apply_of_minNormLsq` — conversely every minimum-norm least-squares solution is `X b`.
-/

open Matrix

namespace Svd

set_option linter.unusedSectionVars false

variable {𝕜 : Type} [RCLike 𝕜]
variable {m n k : Type} [Fintype m] [Fintype n] [Fintype k] [DecidableEq m] [DecidableEq n]
  [DecidableEq k]

/-- the four Penrose equations -/
structure IsMoorePenrose (A : Matrix m n 𝕜) (X : Matrix n m 𝕜) : Prop where
  axa : A * X * A = A
  xax : X * A * X = X
  ax_herm : (A * X)ᴴ = A * X
  xa_herm : (X * A)ᴴ = X * A

namespace IsMoorePenrose

variable {A : Matrix m n 𝕜} {X Y : Matrix n m 𝕜}

/-- both `X` and `Y` equal `X A Y` -/
theorem eq_xay_left (hX : IsMoorePenrose A X) (hY : IsMoorePenrose A Y) : X = X * A * Y := by
  -- X = X A X = X (A X)ᴴ = X Xᴴ Aᴴ = X Xᴴ (A Y A)ᴴ = X (A X)ᴴ (A Y)ᴴ = X A X A Y = X A Y
  have h1 : X = X * (Xᴴ * Aᴴ) := by
    rw [← conjTranspose_mul, hX.ax_herm, ← Matrix.mul_assoc, hX.xax]
  have h2 : Aᴴ = Aᴴ * Yᴴ * Aᴴ := by
    rw [← conjTranspose_mul, ← conjTranspose_mul, ← Matrix.mul_assoc, hY.axa]
  calc X = X * (Xᴴ * Aᴴ) := h1
    _ = X * (Xᴴ * (Aᴴ * Yᴴ * Aᴴ)) := by rw [← h2]
    _ = X * ((Xᴴ * Aᴴ) * (Yᴴ * Aᴴ)) := by simp only [Matrix.mul_assoc]
    _ = X * ((A * X) * (A * Y)) := by
        rw [← conjTranspose_mul, ← conjTranspose_mul, hX.ax_herm, hY.ax_herm]
    _ = (X * A * X) * A * Y := by simp only [Matrix.mul_assoc]
    _ = X * A * Y := by rw [hX.xax]

theorem eq_xay_right (hX : IsMoorePenrose A X) (hY : IsMoorePenrose A Y) : Y = X * A * Y := by
  -- Y = Y A Y = (Y A)ᴴ Y = Aᴴ Yᴴ Y = (A X A)ᴴ Yᴴ Y = (X A)ᴴ (Y A)ᴴ Y = X A Y A Y = X A Y
  have h1 : Y = (Aᴴ * Yᴴ) * Y := by
    rw [← conjTranspose_mul, hY.xa_herm, hY.xax]
  have h2 : Aᴴ = Aᴴ * Xᴴ * Aᴴ := by
    rw [← conjTranspose_mul, ← conjTranspose_mul, ← Matrix.mul_assoc, hX.axa]
  calc Y = (Aᴴ * Yᴴ) * Y := h1
    _ = ((Aᴴ * Xᴴ * Aᴴ) * Yᴴ) * Y := by rw [← h2]
    _ = ((Aᴴ * Xᴴ) * (Aᴴ * Yᴴ)) * Y := by simp only [Matrix.mul_assoc]
    _ = ((X * A) * (Y * A)) * Y := by
        rw [← conjTranspose_mul, ← conjTranspose_mul, hX.xa_herm, hY.xa_herm]
    _ = X * A * (Y * A * Y) := by simp only [Matrix.mul_assoc]
    _ = X * A * Y := by rw [hY.xax]

/-- **uniqueness** of the Moore–Penrose inverse -/
theorem unique (hX : IsMoorePenrose A X) (hY : IsMoorePenrose A Y) : X = Y :=
  (eq_xay_left hX hY).trans (eq_xay_right hX hY).symm

/-- **`X b` is the minimum-norm least-squares solution** of `A x = b` -/
theorem minNormLsq (hX : IsMoorePenrose A X) (b : EuclideanSpace 𝕜 m) :
    IsMinNormLsq (lin A) b (lin X b) := by
  -- normal equations: Aᴴ A X = Aᴴ (A X)ᴴ = (A X A)ᴴ = Aᴴ ;  range: X = (X A)ᴴ X = Aᴴ Xᴴ X
  have hn : Aᴴ * A * X = Aᴴ := by
    rw [Matrix.mul_assoc, ← hX.ax_herm, ← conjTranspose_mul, hX.axa]
  have hr : X = Aᴴ * (Xᴴ * X) := by
    rw [← Matrix.mul_assoc, ← conjTranspose_mul, hX.xa_herm, hX.xax]
  refine minNormLsq_of_normal_range (lin A) (lin Aᴴ) (isAdj_lin A) b _ (lin (Xᴴ * X) b) ?_ ?_
  · rw [map_sub, ← lin_mul, ← lin_mul, hn, sub_self]
  · rw [← lin_mul, ← hr]

/-- every minimum-norm least-squares solution IS `X b` -/
theorem eq_apply_of_minNormLsq (hX : IsMoorePenrose A X) (b : EuclideanSpace 𝕜 m)
    (x : EuclideanSpace 𝕜 n) (hx : IsMinNormLsq (lin A) b x) : x = lin X b :=
  minNormLsq_unique (lin A) (lin Aᴴ) (isAdj_lin A) b x (lin X b) hx (hX.minNormLsq b)

/-- a two-sided inverse is the Moore–Penrose inverse -/
theorem of_inverse {A B : Matrix n n 𝕜} (hBA : B * A = 1) (hAB : A * B = 1) : IsMoorePenrose A B :=
  ⟨by rw [hAB, Matrix.one_mul], by rw [hBA, Matrix.one_mul], by rw [hAB, conjTranspose_one],
   by rw [hBA, conjTranspose_one]⟩

/-- the inverse of a Hermitian matrix is Hermitian -/
theorem inv_herm {M G : Matrix n n 𝕜} (hM : Mᴴ = M) (hG : M * G = 1) : Gᴴ = G := by
  have hG' : G * M = 1 := mul_eq_one_comm.mp hG
  have h1 : Gᴴ * M = 1 := by
    have := congrArg conjTranspose hG
    rwa [conjTranspose_mul, hM, conjTranspose_one] at this
  calc Gᴴ = Gᴴ * (M * G) := by rw [hG, Matrix.mul_one]
    _ = (Gᴴ * M) * G := by rw [Matrix.mul_assoc]
    _ = G := by rw [h1, Matrix.one_mul]

/-- **full column rank**: `(Aᴴ A)⁻¹ Aᴴ` -/
theorem of_full_column_rank (A : Matrix m n 𝕜) (G : Matrix n n 𝕜) (hG : (Aᴴ * A) * G = 1) :
    IsMoorePenrose A (G * Aᴴ) := by
  have hG' : G * (Aᴴ * A) = 1 := mul_eq_one_comm.mp hG
  have hGh : Gᴴ = G := inv_herm (by rw [conjTranspose_mul, conjTranspose_conjTranspose]) hG
  have hxa : G * Aᴴ * A = 1 := by rw [Matrix.mul_assoc]; exact hG'
  refine ⟨?_, ?_, ?_, ?_⟩
  · rw [Matrix.mul_assoc, hxa, Matrix.mul_one]
  · rw [hxa, Matrix.one_mul]
  · rw [conjTranspose_mul, conjTranspose_mul, conjTranspose_conjTranspose, hGh, Matrix.mul_assoc]
  · rw [hxa, conjTranspose_one]

/-- **full row rank**: `Aᴴ (A Aᴴ)⁻¹` -/
theorem of_full_row_rank (A : Matrix m n 𝕜) (G : Matrix m m 𝕜) (hG : (A * Aᴴ) * G = 1) :
    IsMoorePenrose A (Aᴴ * G) := by
  have hGh : Gᴴ = G := inv_herm (by rw [conjTranspose_mul, conjTranspose_conjTranspose]) hG
  have hax : A * (Aᴴ * G) = 1 := by rw [← Matrix.mul_assoc]; exact hG
  refine ⟨?_, ?_, ?_, ?_⟩
  · rw [hax, Matrix.one_mul]
  · rw [Matrix.mul_assoc, hax, Matrix.mul_one]
  · rw [hax, conjTranspose_one]
  · rw [conjTranspose_mul, conjTranspose_mul, conjTranspose_conjTranspose, hGh, Matrix.mul_assoc]

end IsMoorePenrose

/-! ## from a singular value decomposition -/

section svd
variable (U : Matrix m k 𝕜) (V : Matrix n k 𝕜) (σ : k → ℝ)

theorem rdiag_pinv_mul (σ : k → ℝ) :
    (rdiag σ : Matrix k k 𝕜) * rdiag (fun i => (σ i)⁻¹) * rdiag σ = rdiag σ := by
  rw [rdiag_mul_rdiag, rdiag_mul_rdiag]
  congr 1
  funext i
  by_cases h : σ i = 0
  · simp [h]
  · field_simp

theorem rdiag_pinv_mul' (σ : k → ℝ) :
    (rdiag (fun i => (σ i)⁻¹) : Matrix k k 𝕜) * rdiag σ * rdiag (fun i => (σ i)⁻¹) =
      rdiag (fun i => (σ i)⁻¹) := by
  rw [rdiag_mul_rdiag, rdiag_mul_rdiag]
  congr 1
  funext i
  by_cases h : σ i = 0
  · simp [h]
  · field_simp

/-- the algebra behind `of_svd`: `A = U S Vᴴ`, `X = V T Uᴴ` with orthonormal columns of `U`, `V` and
`S`, `T` mutually Moore–Penrose inverse -/
theorem IsMoorePenrose.of_factor (S T : Matrix k k 𝕜) (hU : Uᴴ * U = 1) (hV : Vᴴ * V = 1)
    (hST : IsMoorePenrose S T) : IsMoorePenrose (U * S * Vᴴ) (V * T * Uᴴ) := by
  have e1 : (U * S * Vᴴ) * (V * T * Uᴴ) = U * (S * T) * Uᴴ := by
    calc (U * S * Vᴴ) * (V * T * Uᴴ) = U * S * (Vᴴ * V) * T * Uᴴ := by
          simp only [Matrix.mul_assoc]
      _ = U * (S * T) * Uᴴ := by rw [hV, Matrix.mul_one]; simp only [Matrix.mul_assoc]
  have e2 : (V * T * Uᴴ) * (U * S * Vᴴ) = V * (T * S) * Vᴴ := by
    calc (V * T * Uᴴ) * (U * S * Vᴴ) = V * T * (Uᴴ * U) * S * Vᴴ := by
          simp only [Matrix.mul_assoc]
      _ = V * (T * S) * Vᴴ := by rw [hU, Matrix.mul_one]; simp only [Matrix.mul_assoc]
  refine ⟨?_, ?_, ?_, ?_⟩
  · rw [e1]
    calc U * (S * T) * Uᴴ * (U * S * Vᴴ) = U * (S * T) * (Uᴴ * U) * S * Vᴴ := by
          simp only [Matrix.mul_assoc]
      _ = U * (S * T * S) * Vᴴ := by rw [hU, Matrix.mul_one]; simp only [Matrix.mul_assoc]
      _ = U * S * Vᴴ := by rw [hST.axa]
  · rw [e2]
    calc V * (T * S) * Vᴴ * (V * T * Uᴴ) = V * (T * S) * (Vᴴ * V) * T * Uᴴ := by
          simp only [Matrix.mul_assoc]
      _ = V * (T * S * T) * Uᴴ := by rw [hV, Matrix.mul_one]; simp only [Matrix.mul_assoc]
      _ = V * T * Uᴴ := by rw [hST.xax]
  · rw [e1, conjTranspose_mul, conjTranspose_mul, conjTranspose_conjTranspose, hST.ax_herm]
    simp only [Matrix.mul_assoc]
  · rw [e2, conjTranspose_mul, conjTranspose_mul, conjTranspose_conjTranspose, hST.xa_herm]
    simp only [Matrix.mul_assoc]

/-- a real diagonal matrix and its entrywise reciprocal (`0⁻¹ = 0`) are Moore–Penrose inverses -/
theorem IsMoorePenrose.rdiag (σ : k → ℝ) :
    IsMoorePenrose (Svd.rdiag σ : Matrix k k 𝕜) (Svd.rdiag (fun i => (σ i)⁻¹)) :=
  ⟨rdiag_pinv_mul σ, rdiag_pinv_mul' σ,
   by rw [rdiag_mul_rdiag, rdiag_conjTranspose], by rw [rdiag_mul_rdiag, rdiag_conjTranspose]⟩

/-- **pinv from an SVD.**  For ANY thin SVD `A = U Σ Vᴴ` with orthonormal columns of `U` and `V`
and a real diagonal `Σ` (zero singular values allowed; Lean's `0⁻¹ = 0` is exactly `0⁺ = 0`),
`V Σ⁺ Uᴴ` satisfies the four Penrose equations. -/
theorem IsMoorePenrose.of_svd (hU : Uᴴ * U = 1) (hV : Vᴴ * V = 1) :
    IsMoorePenrose (U * (Svd.rdiag σ : Matrix k k 𝕜) * Vᴴ)
      (V * (Svd.rdiag (fun i => (σ i)⁻¹) : Matrix k k 𝕜) * Uᴴ) :=
  IsMoorePenrose.of_factor U V _ _ hU hV (IsMoorePenrose.rdiag σ)

end svd

end Svd
