import ColaVerif.Model.RuleSkeleton
import ColaVerif.Gen.StructuralRules

/-!
# C19: the hand-written rule skeleton against the generated classification

`skeletonAgrees`: for every function `f` of the skeleton, every dispatched function it stands for
and every structured kind `k`: the table entry `act f k` is not `self` exactly when the live
dispatcher, followed through forwarding rules, selects a structural rule for a call on `k` with
the algorithm argument omitted (`Structural.kindOK` on the generated lattice).
-/

namespace ColaVerif.SkeletonTie
open ColaVerif.Dispatch ColaVerif.Structural ColaVerif.Gen.RuleTable ColaVerif.Gen.StructuralRules

def agreesOn (f : Op.Fn) (n : String) (kc : Op.Kind × String) : Bool :=
  match kindIds.find? (·.1 == kc.2), familyCases.find? (·.1 == n) with
  | some kid, some fc =>
      (Op.act f kc.1 != Op.Act.self) == kindOK hier structuredIds family fuel n fc.2 kid.2
  | _, _ => false

def skeletonAgrees : Bool :=
  Op.Fn.all.all fun f => f.pyNames.all fun n => Op.Kind.structured.all fun kc => agreesOn f n kc

end ColaVerif.SkeletonTie
