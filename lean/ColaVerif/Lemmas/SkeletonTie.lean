import ColaVerif.Model.RuleSkeleton
import ColaVerif.Gen.StructuralRules

/-!
# C19: the hand-written rule skeleton against the generated classification

Round 1 compared ONE boolean per (function, kind) (`agreesOn`, kept below).  Round 2 compares the full
per-rule structure FIELD BY FIELD:

* `kindRuleAgrees n k` — the rules of the live table of `n` whose annotation at the operator position
  names the structured kind `k` (and structured kinds only): there is one iff the hand-written
  `Op.kindRule n k` is `some h`, and then every such rule is not classified generic, touches exactly
  `h.touch` of the operator, and calls exactly the dispatched functions `h.calls` with exactly these
  argument sources (the operator as a whole / a member / `I_like(A)` / the k-th parameter / an
  expression of the class with this NAME, looked up in the generated class table);
* `baseRuleAgrees n` — the same for the `LinearOperator` rules of the functions with `Op.baseRule`;
* `skeletonDerived` — `Op.act f k` is what `Op.actOf` derives from these two tables, and every function a
  rule hands the whole operator to is structural on the kind.
-/

namespace ColaVerif.SkeletonTie
open ColaVerif.Dispatch ColaVerif.Structural ColaVerif.Gen.RuleTable ColaVerif.Gen.StructuralRules

def agreesOn (f : Op.Fn) (n : String) (kc : Op.Kind × String) : Bool :=
  match kindIds.find? (·.1 == kc.2), familyCases.find? (·.1 == n) with
  | some kid, some fc =>
      (Op.act f kc.1 != Op.Act.self) == kindOK hier structuredIds family fuel n fc.2 kid.2
  | _, _ => false

def skeletonAgrees : Bool :=
  Op.Fn.all.all fun f => f.pyNames.all fun n => Op.Kind.structured.all fun kc => agreesOn f n kc

/-! ## field by field -/

def altAgrees : Op.HAlt → Alt → Bool
  | .param k, .param k' _ => k == k'
  | .cls n, .const c => classNames[c]? == some n
  | _, _ => false

def altsAgree : List Op.HAlt → List Alt → Bool
  | [], [] => true
  | h :: hs, a :: as => altAgrees h a && altsAgree hs as
  | _, _ => false

def argAgrees : Op.HArg → ArgSrc → Bool
  | .whole, .whole => true
  | .member, .member => true
  | .ilike, .ilike => true
  | .alts hs, .alts as => altsAgree hs as
  | _, _ => false

def argsAgree : List Op.HArg → List ArgSrc → Bool
  | [], [] => true
  | h :: hs, a :: as => argAgrees h a && argsAgree hs as
  | _, _ => false

def callsAgree : List (String × List Op.HArg) → List (String × List ArgSrc) → Bool
  | [], [] => true
  | h :: hs, c :: cs => h.1 == c.1 && argsAgree h.2 c.2 && callsAgree hs cs
  | _, _ => false

def shapeAgrees (h : Op.HShape) (r : RuleShape) : Bool :=
  r.cls != 2 && h.touch == r.touch && callsAgree h.calls r.calls

def enumSigs (t : List Sig) : List (Nat × Sig) := (List.range t.length).zip t

/-- indices of the rules of `e` written for the kind with class id `kid` -/
def kindRulesOf (e : Entry) (kid : Nat) : List Nat :=
  ((enumSigs e.table).filter fun p =>
    isKindRule structuredIds e.opPos p.2 &&
      (match p.2.tys[e.opPos]? with | some h => h.contains kid | none => false)).map (·.1)

def classId (n : String) : Option Nat := classNames.findIdx? (· == n)

/-- indices of the rules of `e` whose operator annotation is exactly `LinearOperator` -/
def baseRulesOf (e : Entry) : List Nat :=
  match classId "cola.ops.operator_base.LinearOperator" with
  | none => []
  | some lo =>
    ((enumSigs e.table).filter fun p =>
      (match p.2.tys[e.opPos]? with | some h => h == [lo] | none => false)).map (·.1)

def shapeAt (n : String) (i : Nat) : Option RuleShape :=
  match familyShapes.find? (·.1 == n) with
  | some p => p.2.find? (·.sig == i)
  | none => none

def kindRuleAgrees (n : String) (kc : Op.Kind × String) : Bool :=
  match kindIds.find? (·.1 == kc.2), lookup family n with
  | some kid, some e =>
      let rs := kindRulesOf e kid.2
      (match Op.kindRule n kc.1 with
       | none => rs.isEmpty
       | some h => !rs.isEmpty && rs.all fun i =>
           match shapeAt n i with | some r => shapeAgrees h r | none => false)
  | _, _ => false

def baseRuleAgrees (n : String) : Bool :=
  match lookup family n with
  | some e =>
      (match Op.baseRule n with
       | none => true
       | some h => !(baseRulesOf e).isEmpty && (baseRulesOf e).all fun i =>
           match shapeAt n i with | some r => shapeAgrees h r | none => false)
  | none => false

/-- every dispatched function of the family, every structured kind: the rule structures coincide -/
def shapesAgree : Bool :=
  (family.map (·.name)).all fun n =>
    baseRuleAgrees n && Op.Kind.structured.all fun kc => kindRuleAgrees n kc

/-- `Op.act` is the table DERIVED from `kindRule` / `baseRule`; where it is not `self`, every function a
    rule hands the whole operator to (on any branch: `pow → inv` as well as `pow → apply_unary`) is
    structural on the kind -/
def skeletonDerived : Bool :=
  Op.Fn.all.all fun f => f.pyNames.all fun n => Op.Kind.structured.all fun kc =>
    Op.act f kc.1 == Op.actOf 6 n kc.1 && (Op.act f kc.1 == Op.Act.self || Op.forwardsStructural 6 n kc.1)

end ColaVerif.SkeletonTie
