import ColaVerif.Model.DiagTraceDtype
import ColaVerif.Lemmas.OpDtype

/-!
# C08: the dtype of the result of `diag` / `trace` is the NumPy promotion of the leaf dtypes

* `pySumDt_join`, `reduceMulDt_join`, `concatDt_join` — Python `sum`, `reduce(mul)`, `np.concatenate`
  of a non-empty list of floating arrays give the join of their dtypes (the weak Python `0` of `sum`
  does not contribute);
* `dt_join_parts` — repeating blocks by POSITIVE multiplicities does not change the join;
* `exactDiagDt_eq` — the probing loop returns an array of dtype `A.dtypeSpec`, for every tree;
* `diagDt_eq_spec`, `traceDt_eq_spec` — every rule, by recursion over the tree, under `wf`
  (members non-empty) and the clause `ruleZeroMult = false`.
-/

namespace Op
variable {R : Type}

theorem seqO_map_some {α β : Type} (f : α → Option β) (g : α → β) (l : List α)
    (h : ∀ a ∈ l, f a = some (g a)) : seqO (l.map f) = some (l.map g) := by
  induction l with
  | nil => rfl
  | cons a l ih =>
    have h1 := h a (by simp)
    have h2 := ih (fun b hb => h b (by simp [hb]))
    simp only [List.map_cons, seqO, h1, h2]
    rfl

theorem binDt_foldl_some (ds : List DType) (a : DType) :
    ds.foldl binDt (some a) = some (ds.foldl DType.promote a) := by
  induction ds generalizing a with
  | nil => rfl
  | cons d ds ih => simp only [List.foldl_cons, binDt, ih]

/-- Python `sum` of a non-empty list of arrays has the join of their dtypes -/
theorem pySumDt_join (ds : List DType) (hne : ds ≠ []) : pySumDt ds = some (DType.join ds) := by
  cases ds with
  | nil => exact absurd rfl hne
  | cons d ds =>
    simp only [pySumDt, List.foldl_cons, binDt, binDt_foldl_some]
    rw [← DType.foldl_promote_join, DType.foldl_promote_cons, DType.foldl_promote_eq]

theorem reduceMulDt_join (ds : List DType) (hne : ds ≠ []) : reduceMulDt ds = some (DType.join ds) := by
  cases ds with
  | nil => exact absurd rfl hne
  | cons d ds =>
    simp only [reduceMulDt]
    rw [← DType.foldl_promote_join, DType.foldl_promote_cons, DType.foldl_promote_eq]

theorem concatDt_join (ds : List DType) (hne : ds ≠ []) : concatDt ds = some (DType.join ds) := by
  cases ds with
  | nil => exact absurd rfl hne
  | cons d ds =>
    simp only [concatDt]
    rw [← DType.foldl_promote_join, DType.foldl_promote_cons, DType.foldl_promote_eq]

theorem dt_join_replicate (m : Nat) (hm : 0 < m) (d : DType) : DType.join (List.replicate m d) = d := by
  induction m with
  | zero => omega
  | succ m ih =>
    rw [List.replicate_succ, DType.join_cons]
    cases m with
    | zero => simp [DType.join_nil, DType.promote_f32_right]
    | succ m => rw [ih (by omega), DType.promote_self]

/-- blocks repeated by positive multiplicities: the join does not change -/
theorem dt_join_parts : ∀ (ds : List DType) (mults : List Nat), ds.length = mults.length →
    (∀ m ∈ mults, 0 < m) →
    DType.join ((ds.zip mults).flatMap (fun p => List.replicate p.2 p.1)) = DType.join ds
  | [], _, _, _ => by simp
  | d :: ds, [], h, _ => by simp at h
  | d :: ds, m :: ms, h, hp => by
    simp only [List.zip_cons_cons, List.flatMap_cons]
    rw [DType.join_append, dt_join_replicate m (hp m (by simp)) d,
      dt_join_parts ds ms (by simpa using h) (fun x hx => hp x (by simp [hx])), DType.join_cons]

theorem dt_parts_ne_nil (ds : List DType) (mults : List Nat) (hl : ds.length = mults.length)
    (hne : ds ≠ []) (hp : ∀ m ∈ mults, 0 < m) :
    (ds.zip mults).flatMap (fun p => List.replicate p.2 p.1) ≠ [] := by
  cases ds with
  | nil => exact absurd rfl hne
  | cons d ds =>
    cases mults with
    | nil => simp at hl
    | cons m ms =>
      have := hp m (by simp)
      simp only [List.zip_cons_cons, List.flatMap_cons]
      intro h
      have h2 := (List.append_eq_nil_iff.mp h).1
      cases m with
      | zero => omega
      | succ m => simp [List.replicate_succ] at h2

theorem idColsDt_eq (dt : DType) (n a b : Nat) : idColsDt (R := R) dt n a b = dt := by
  simp only [idColsDt, mmDtype, Op.dtype, DType.promote_self]

theorem exactDiagDt_eq (A : Op R) (k : Int) : exactDiagDt A k = some A.dtypeSpec := by
  simp only [exactDiagDt, idColsDt_eq, mmDtype, DType.promote_self, ite_self, binDt]
  rw [dtype_eq_dtypeSpec]

theorem dt_join_members (Ms : List (Op R)) :
    DType.join (Ms.map (fun M => M.dtypeSpec)) = DType.join (Ms.map (·.leafDtypes)).flatten := by
  rw [DType.join_flatten, List.map_map, ← DType.foldl_promote_join]
  rfl


theorem dt_all_members {f : Op R → Bool} {Ms : List (Op R)} (h : (Ms.map f).all id = true) :
    ∀ M ∈ Ms, f M = true := by
  intro M hM
  rw [List.all_eq_true] at h
  have := h _ (List.mem_map.mpr ⟨M, hM, rfl⟩)
  simpa using this

theorem dt_any_members {f : Op R → Bool} {Ms : List (Op R)} (h : (Ms.map f).any id = false) :
    ∀ M ∈ Ms, f M = false := by
  intro M hM
  rw [List.any_eq_false] at h
  have := h _ (List.mem_map.mpr ⟨M, hM, rfl⟩)
  simpa using this

theorem dt_map_ne_nil {α β : Type} (l : List α) (f : α → β) (h : (!l.isEmpty) = true) :
    l.map f ≠ [] := by
  cases l with
  | nil => simp at h
  | cons a l => simp

/-- **code dtype = specification dtype, every rule of `diag`** -/
theorem diagDt_eq_spec : ∀ (A : Op R), A.wf = true → A.ruleZeroMult = false →
    ∀ (k : Int), diagDt A k = some A.dtypeSpec
  | dense dt r c a, _, _, k => by simp only [diagDt, dtypeSpec, leafDtypes, DType.join_singleton]
  | tri dt r c l a, _, _, k => by simp only [diagDt, dtypeSpec, leafDtypes, DType.join_singleton]
  | eye dt n, _, _, k => by simp only [diagDt, dtypeSpec, leafDtypes, DType.join_singleton]
  | diag dt n d, _, _, k => by simp only [diagDt, dtypeSpec, leafDtypes, DType.join_singleton]
  | scalar dt s n, _, _, k => by
    simp only [diagDt, dtypeSpec, leafDtypes, DType.join_singleton, DType.promote_self]
  | sum Ms, hwf, hz, k => by
    simp only [wf, Bool.and_eq_true] at hwf
    simp only [ruleZeroMult] at hz
    have ih : ∀ M ∈ Ms, diagDt M k = some M.dtypeSpec := fun M hM =>
      diagDt_eq_spec M (dt_all_members hwf.1.2 M hM) (dt_any_members hz M hM) k
    rw [diagDt, seqO_map_some _ _ Ms ih]
    simp only [Option.bind_eq_bind, Option.bind_some]
    rw [pySumDt_join _ (dt_map_ne_nil Ms _ hwf.1.1), dt_join_members]
    simp only [dtypeSpec, leafDtypes]
  | kron Ms, hwf, hz, k => by
    simp only [wf, Bool.and_eq_true] at hwf
    simp only [ruleZeroMult] at hz
    have ih : ∀ M ∈ Ms, diagDt M k = some M.dtypeSpec := fun M hM =>
      diagDt_eq_spec M (dt_all_members hwf.2 M hM) (dt_any_members hz M hM) k
    rw [diagDt, seqO_map_some _ _ Ms ih]
    simp only [Option.bind_eq_bind, Option.bind_some]
    rw [reduceMulDt_join _ (dt_map_ne_nil Ms _ hwf.1), dt_join_members]
    simp only [dtypeSpec, leafDtypes]
  | kronsum Ms, hwf, hz, k => by
    simp only [wf, Bool.and_eq_true] at hwf
    simp only [ruleZeroMult] at hz
    have ih : ∀ M ∈ Ms, diagDt M k = some M.dtypeSpec := fun M hM =>
      diagDt_eq_spec M (dt_all_members hwf.1.2 M hM) (dt_any_members hz M hM) k
    rw [diagDt, seqO_map_some _ _ Ms ih]
    simp only [Option.bind_eq_bind, Option.bind_some]
    rw [pySumDt_join _ (dt_map_ne_nil Ms _ hwf.1.1), dt_join_members]
    simp only [dtypeSpec, leafDtypes]
  | bdiag Ms mults, hwf, hz, k => by
    simp only [wf, Bool.and_eq_true, beq_iff_eq] at hwf
    simp only [ruleZeroMult, Bool.or_eq_false_iff] at hz
    have ih : ∀ M ∈ Ms, diagDt M k = some M.dtypeSpec := fun M hM =>
      diagDt_eq_spec M (dt_all_members hwf.1.2 M hM) (dt_any_members hz.1 M hM) k
    have hpos : ∀ m ∈ mults, 0 < m := by
      intro m hm
      have := hz.2
      rw [List.any_eq_false] at this
      have := this m hm
      simp at this
      omega
    have hlen : (Ms.map (fun M => M.dtypeSpec)).length = mults.length := by
      rw [List.length_map]; exact hwf.2
    rw [diagDt, seqO_map_some _ _ Ms ih]
    simp only [Option.bind_eq_bind, Option.bind_some]
    rw [concatDt_join _ (dt_parts_ne_nil _ _ hlen (dt_map_ne_nil Ms _ hwf.1.1) hpos),
      dt_join_parts _ _ hlen hpos, dt_join_members]
    simp only [dtypeSpec, leafDtypes]
  | annot a A, hwf, hz, k => by
    simp only [wf] at hwf
    simp only [ruleZeroMult] at hz
    rw [diagDt, diagDt_eq_spec A hwf hz k]
    simp only [dtypeSpec, leafDtypes]
  | sparse dt r c e, _, _, k => by
    rw [diagDt]
    · exact exactDiagDt_eq _ k
    all_goals (intros; contradiction)
  | prod Ms, _, _, k => by
    rw [diagDt]
    · exact exactDiagDt_eq _ k
    all_goals (intros; contradiction)
  | tridiag dt n al be ga, _, _, k => by
    rw [diagDt]
    · exact exactDiagDt_eq _ k
    all_goals (intros; contradiction)
  | transpose A, _, _, k => by
    rw [diagDt]
    · exact exactDiagDt_eq _ k
    all_goals (intros; contradiction)
  | adjoint A, _, _, k => by
    rw [diagDt]
    · exact exactDiagDt_eq _ k
    all_goals (intros; contradiction)
  | sliced A s0 s1, _, _, k => by
    rw [diagDt]
    · exact exactDiagDt_eq _ k
    all_goals (intros; contradiction)
  | perm dt p, _, _, k => by
    rw [diagDt]
    · exact exactDiagDt_eq _ k
    all_goals (intros; contradiction)
  | concat ax Ms, _, _, k => by
    rw [diagDt]
    · exact exactDiagDt_eq _ k
    all_goals (intros; contradiction)
  | house dt n v b, _, _, k => by
    rw [diagDt]
    · exact exactDiagDt_eq _ k
    all_goals (intros; contradiction)
  | generic A, _, _, k => by
    rw [diagDt]
    · exact exactDiagDt_eq _ k
    all_goals (intros; contradiction)
termination_by A => sizeOf A
decreasing_by
  all_goals simp_wf
  all_goals first
    | omega
    | (have := List.sizeOf_lt_of_mem ‹_ ∈ _›; omega)


/-- **code dtype = specification dtype, every rule of `trace`** -/
theorem traceDt_eq_spec : ∀ (A : Op R), A.wf = true → A.ruleZeroMult = false →
    traceDt A = some A.dtypeSpec
  | kron Ms, hwf, hz => by
    have hwf' := hwf
    simp only [wf, Bool.and_eq_true] at hwf'
    have hz' := hz
    simp only [ruleZeroMult] at hz'
    have ih : ∀ M ∈ Ms, traceDt M = some M.dtypeSpec := fun M hM =>
      traceDt_eq_spec M (dt_all_members hwf'.2 M hM) (dt_any_members hz' M hM)
    rw [traceDt, seqO_map_some _ _ Ms ih]
    simp only [Option.bind_eq_bind, Option.bind_some]
    rw [reduceMulDt_join _ (dt_map_ne_nil Ms _ hwf'.1), dt_join_members]
    simp only [dtypeSpec, leafDtypes]
  | annot a A, hwf, hz => by
    simp only [wf] at hwf
    simp only [ruleZeroMult] at hz
    rw [traceDt, traceDt_eq_spec A hwf hz]
    simp only [dtypeSpec, leafDtypes]
  | dense dt r c a, hwf, hz => by
    rw [traceDt]
    · exact diagDt_eq_spec _ hwf hz 0
    all_goals (intros; contradiction)
  | tri dt r c l a, hwf, hz => by
    rw [traceDt]
    · exact diagDt_eq_spec _ hwf hz 0
    all_goals (intros; contradiction)
  | eye dt n, hwf, hz => by
    rw [traceDt]
    · exact diagDt_eq_spec _ hwf hz 0
    all_goals (intros; contradiction)
  | diag dt n d, hwf, hz => by
    rw [traceDt]
    · exact diagDt_eq_spec _ hwf hz 0
    all_goals (intros; contradiction)
  | scalar dt s n, hwf, hz => by
    rw [traceDt]
    · exact diagDt_eq_spec _ hwf hz 0
    all_goals (intros; contradiction)
  | sum Ms, hwf, hz => by
    rw [traceDt]
    · exact diagDt_eq_spec _ hwf hz 0
    all_goals (intros; contradiction)
  | kronsum Ms, hwf, hz => by
    rw [traceDt]
    · exact diagDt_eq_spec _ hwf hz 0
    all_goals (intros; contradiction)
  | bdiag Ms mults, hwf, hz => by
    rw [traceDt]
    · exact diagDt_eq_spec _ hwf hz 0
    all_goals (intros; contradiction)
  | sparse dt r c e, hwf, hz => by
    rw [traceDt]
    · exact diagDt_eq_spec _ hwf hz 0
    all_goals (intros; contradiction)
  | prod Ms, hwf, hz => by
    rw [traceDt]
    · exact diagDt_eq_spec _ hwf hz 0
    all_goals (intros; contradiction)
  | tridiag dt n al be ga, hwf, hz => by
    rw [traceDt]
    · exact diagDt_eq_spec _ hwf hz 0
    all_goals (intros; contradiction)
  | transpose A, hwf, hz => by
    rw [traceDt]
    · exact diagDt_eq_spec _ hwf hz 0
    all_goals (intros; contradiction)
  | adjoint A, hwf, hz => by
    rw [traceDt]
    · exact diagDt_eq_spec _ hwf hz 0
    all_goals (intros; contradiction)
  | sliced A s0 s1, hwf, hz => by
    rw [traceDt]
    · exact diagDt_eq_spec _ hwf hz 0
    all_goals (intros; contradiction)
  | perm dt p, hwf, hz => by
    rw [traceDt]
    · exact diagDt_eq_spec _ hwf hz 0
    all_goals (intros; contradiction)
  | concat ax Ms, hwf, hz => by
    rw [traceDt]
    · exact diagDt_eq_spec _ hwf hz 0
    all_goals (intros; contradiction)
  | house dt n v b, hwf, hz => by
    rw [traceDt]
    · exact diagDt_eq_spec _ hwf hz 0
    all_goals (intros; contradiction)
  | generic A, hwf, hz => by
    rw [traceDt]
    · exact diagDt_eq_spec _ hwf hz 0
    all_goals (intros; contradiction)
termination_by A => sizeOf A
decreasing_by
  all_goals simp_wf
  all_goals first
    | omega
    | (have := List.sizeOf_lt_of_mem ‹_ ∈ _›; omega)

end Op
