import Mathlib.Analysis.InnerProductSpace.PiL2
import Mathlib.Analysis.Matrix.Hermitian
import ColaVerif.Lemmas.LanczosGrade

/-!
# The Lanczos relation in matrix form (for the families that consume Lanczos: C07, C09, C10)

For `E = EuclideanSpace 𝕜 (Fin n)` and `A = Matrix.toEuclideanLin M`: the returned columns as an
`n × k` matrix `qMat`, the returned tridiagonal matrix `tMat`, and `rMat r k = r e_kᵀ`:

* `OutSpec.matrix_rel`   : `M * Q = Q * T + r e_kᵀ`
* `OutSpec.matrix_orth`  : `Qᴴ * Q = 1`
* `OutSpec.matrix_herm`  : `Tᴴ = T` (with `OutSpec.real`: real symmetric)
* `OutSpec.matrix_first` : `Q *ᵥ (‖v‖ e₀) = v`
-/

open scoped InnerProductSpace
open Finset Matrix WithLp

namespace Lanczos

variable {𝕜 : Type} [RCLike 𝕜] {n : ℕ}

/-- the returned basis as an `n × k` matrix -/
def qMat (q : ℕ → EuclideanSpace 𝕜 (Fin n)) (k : ℕ) : Matrix (Fin n) (Fin k) 𝕜 :=
  fun i c => q c i
/-- the returned tridiagonal matrix -/
def tMat (T : ℕ → ℕ → 𝕜) (k : ℕ) : Matrix (Fin k) (Fin k) 𝕜 := fun a c => T a c
/-- `r e_kᵀ` -/
def rMat (r : EuclideanSpace 𝕜 (Fin n)) (k : ℕ) : Matrix (Fin n) (Fin k) 𝕜 :=
  fun i c => if (c : ℕ) + 1 = k then r i else 0

variable {M : Matrix (Fin n) (Fin n) 𝕜} {v : EuclideanSpace 𝕜 (Fin n)} {k : ℕ}
  {q : ℕ → EuclideanSpace 𝕜 (Fin n)} {T : ℕ → ℕ → 𝕜} {r : EuclideanSpace 𝕜 (Fin n)}

theorem OutSpec.matrix_rel (h : OutSpec (Matrix.toEuclideanLin M) v k q T r) :
    M * qMat q k = qMat q k * tMat T k + rMat r k := by
  ext i c
  have hrel := h.rel c c.2
  have hA : Matrix.toEuclideanLin M (q c) = ∑ a ∈ range k, T a c • q a +
      (if (c : ℕ) + 1 = k then r else 0) := by
    rw [← hrel]; abel
  have hi := congrArg (fun x : EuclideanSpace 𝕜 (Fin n) => x i) hA
  simp only at hi
  rw [Matrix.add_apply, Matrix.mul_apply, Matrix.mul_apply]
  have e1 : ∑ j, M i j * qMat q k j c = (Matrix.toEuclideanLin M (q c)) i := by
    simp [Matrix.toLpLin_apply, Matrix.mulVec, dotProduct, qMat]
  rw [e1, hi]
  simp only [PiLp.add_apply, WithLp.ofLp_sum, WithLp.ofLp_smul, Finset.sum_apply, Pi.smul_apply,
    smul_eq_mul]
  congr 1
  · rw [Finset.sum_range]
    apply Finset.sum_congr rfl
    intro a _
    simp [qMat, tMat, mul_comm]
  · unfold rMat
    split <;> simp

theorem OutSpec.matrix_orth (h : OutSpec (Matrix.toEuclideanLin M) v k q T r) :
    (qMat q k)ᴴ * qMat q k = 1 := by
  ext a c
  have hon := (orthonormal_iff_ite.mp h.orthonormal) a c
  rw [Matrix.mul_apply]
  simp only [Matrix.conjTranspose_apply, qMat, Matrix.one_apply]
  rw [EuclideanSpace.inner_eq_star_dotProduct] at hon
  simp only [dotProduct, Pi.star_apply] at hon
  rw [← hon]
  apply Finset.sum_congr rfl
  intro i _
  rw [mul_comm]

theorem OutSpec.matrix_herm (h : OutSpec (Matrix.toEuclideanLin M) v k q T r) :
    (tMat T k)ᴴ = tMat T k := by
  ext a c
  simp only [Matrix.conjTranspose_apply, tMat]
  obtain ⟨x, hx⟩ := h.real c a c.2 a.2
  rw [hx, h.symm a c a.2 c.2, hx]
  simp

theorem OutSpec.matrix_first (h : OutSpec (Matrix.toEuclideanLin M) v k q T r) (hk : 1 ≤ k)
    (hv : v ≠ 0) :
    (qMat q k) *ᵥ (fun c : Fin k => if (c : ℕ) = 0 then ((‖v‖ : ℝ) : 𝕜) else 0) = ofLp v := by
  funext i
  simp only [Matrix.mulVec, dotProduct, qMat]
  rw [Finset.sum_eq_single (⟨0, hk⟩ : Fin k)]
  · simp only [if_true]
    rw [h.first]
    have : ((‖v‖ : ℝ) : 𝕜) ≠ 0 := by exact_mod_cast norm_ne_zero_iff.mpr hv
    simp [mul_comm, this]
  · intro b _ hb
    have : ¬ (b : ℕ) = 0 := fun e => hb (Fin.ext e)
    simp [this]
  · intro hn; exact absurd (Finset.mem_univ _) hn

end Lanczos
