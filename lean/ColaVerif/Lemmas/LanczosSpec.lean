import Mathlib.Analysis.InnerProductSpace.Orthonormal
import Mathlib.LinearAlgebra.Dimension.Constructions
import Mathlib.LinearAlgebra.FiniteDimensional.Defs
import Mathlib.LinearAlgebra.Eigenspace.Basic
import Mathlib.Algebra.BigOperators.Intervals
import ColaVerif.Lemmas.LanczosInv

/-!
# What the Lanczos invariant says about the returned factors (exact arithmetic)

Abstract part (`Fact`): an orthonormal family `q 0 … q (k-1)`, a coefficient table `T` and a residual
`r ⟂ q` with `A q_c = Σ_a T a c • q_a + [c = k-1] r`.  Consequences:

* `Fact.proj`: `⟪q_a, A q_c⟫ = T a c` (`T = Qᴴ A Q`);
* `Fact.ritz`: `A (Q y) - θ (Q y) = y_{k-1} • r` whenever `T y = θ y` (Ritz residual);
* `Fact.eigen_of_exit`: if `r = 0` (Krylov space exhausted) every eigenvalue of `T` is an eigenvalue
  of `A` (`Q` is injective).

Concrete part: from `Inv A m v k s`

* `Inv.fact`: the returned columns `q_c = V[c+1]`, `T = tridiag(subdiag[1…], diag, subdiag[1…])` and
  `r = V[k+1]` form a `Fact`;
* `krylov`, `Inv.span_eq_krylov`: `span{q_0 … q_{j-1}} = K_j(A, v)` for every `j ≤ k`;
* `Inv.le_of_exhausted`: never more columns than the dimension at which the Krylov space stalls.
-/

open scoped InnerProductSpace
open Finset

namespace Lanczos

variable {𝕜 E : Type} [RCLike 𝕜] [NormedAddCommGroup E] [InnerProductSpace 𝕜 E]

/-! ## abstract factorisation -/

structure Fact (A : E →ₗ[𝕜] E) (k : ℕ) (q : ℕ → E) (T : ℕ → ℕ → 𝕜) (r : E) : Prop where
  on : ∀ a b, a < k → b < k → ⟪q a, q b⟫_𝕜 = if a = b then 1 else 0
  rel : ∀ c, c < k → A (q c) = ∑ a ∈ range k, T a c • q a + (if c + 1 = k then r else 0)
  rorth : ∀ a, a < k → ⟪q a, r⟫_𝕜 = 0

section fact
variable {A : E →ₗ[𝕜] E} {k : ℕ} {q : ℕ → E} {T : ℕ → ℕ → 𝕜} {r : E}

theorem Fact.inner_comb (h : Fact A k q T r) (y : ℕ → 𝕜) (a : ℕ) (ha : a < k) :
    ⟪q a, ∑ c ∈ range k, y c • q c⟫_𝕜 = y a := by
  rw [inner_sum]
  rw [Finset.sum_eq_single a]
  · rw [inner_smul_right, h.on a a ha ha]; simp
  · intro b hb hba
    rw [inner_smul_right, h.on a b ha (mem_range.mp hb)]
    have : a ≠ b := fun e => hba e.symm
    simp [this]
  · intro hna; exact absurd (mem_range.mpr ha) hna

/-- `T = Qᴴ A Q` -/
theorem Fact.proj (h : Fact A k q T r) (a c : ℕ) (ha : a < k) (hc : c < k) :
    ⟪q a, A (q c)⟫_𝕜 = T a c := by
  rw [h.rel c hc, inner_add_right, h.inner_comb (fun b => T b c) a ha]
  split
  · rw [h.rorth a ha, add_zero]
  · rw [inner_zero_right, add_zero]

/-- `Q` is injective on coefficient vectors -/
theorem Fact.comb_ne_zero (h : Fact A k q T r) (y : ℕ → 𝕜) (a : ℕ) (ha : a < k) (hy : y a ≠ 0) :
    ∑ c ∈ range k, y c • q c ≠ 0 := by
  intro hz
  have := h.inner_comb y a ha
  rw [hz, inner_zero_right] at this
  exact hy this.symm

/-- Ritz residual: `A (Q y) = Q (T y) + y_{k-1} • r` -/
theorem Fact.apply_comb (h : Fact A k q T r) (hk : 1 ≤ k) (y : ℕ → 𝕜) :
    A (∑ c ∈ range k, y c • q c) =
      ∑ a ∈ range k, (∑ c ∈ range k, T a c * y c) • q a + y (k - 1) • r := by
  rw [map_sum]
  have e1 : ∀ c ∈ range k, A (y c • q c) =
      ∑ a ∈ range k, (T a c * y c) • q a + (if c + 1 = k then y c • r else 0) := by
    intro c hc
    rw [map_smul, h.rel c (mem_range.mp hc), smul_add, Finset.smul_sum]
    congr 1
    · apply Finset.sum_congr rfl
      intro a _
      rw [smul_smul, mul_comm]
    · split <;> simp
  rw [Finset.sum_congr rfl e1, Finset.sum_add_distrib, Finset.sum_comm]
  congr 1
  · apply Finset.sum_congr rfl
    intro a _
    rw [Finset.sum_smul]
  · rw [Finset.sum_eq_single (k - 1)]
    · have : k - 1 + 1 = k := by omega
      simp [this]
    · intro b _ hb
      have : ¬ b + 1 = k := by omega
      simp [this]
    · intro hn
      exact absurd (mem_range.mpr (by omega)) hn

theorem Fact.ritz (h : Fact A k q T r) (hk : 1 ≤ k) (y : ℕ → 𝕜) (θ : 𝕜)
    (hT : ∀ a, a < k → ∑ c ∈ range k, T a c * y c = θ * y a) :
    A (∑ c ∈ range k, y c • q c) - θ • ∑ c ∈ range k, y c • q c = y (k - 1) • r := by
  rw [h.apply_comb hk y, Finset.smul_sum]
  have : ∑ a ∈ range k, (∑ c ∈ range k, T a c * y c) • q a = ∑ a ∈ range k, θ • y a • q a := by
    apply Finset.sum_congr rfl
    intro a ha
    rw [hT a (mem_range.mp ha), smul_smul]
  rw [this]; abel

/-- early exit with an exhausted Krylov space: eigenvalues of `T` are eigenvalues of `A` -/
theorem Fact.eigen_of_exit (h : Fact A k q T r) (hk : 1 ≤ k) (hr : r = 0) (y : ℕ → 𝕜) (θ : 𝕜)
    (hT : ∀ a, a < k → ∑ c ∈ range k, T a c * y c = θ * y a) (a : ℕ) (ha : a < k) (hy : y a ≠ 0) :
    Module.End.HasEigenvalue A θ := by
  have hx := h.comb_ne_zero y a ha hy
  have he := h.ritz hk y θ hT
  rw [hr, smul_zero, sub_eq_zero] at he
  exact Module.End.hasEigenvalue_of_hasEigenvector
    ⟨Module.End.mem_eigenspace_iff.mpr he, hx⟩

end fact

/-! ## collapsing a tridiagonal column -/

/-- the tridiagonal table of diagonal `α` and off-diagonal `β` (symmetric, as `Tridiagonal(β, α, β)`) -/
def triT (α β : ℕ → 𝕜) (a c : ℕ) : 𝕜 :=
  if a = c then α c else if a = c + 1 then β c else if c = a + 1 then β a else 0

theorem sum_triT (k c : ℕ) (hc : c < k) (α β : ℕ → 𝕜) (q : ℕ → E) :
    ∑ a ∈ range k, triT α β a c • q a =
      (if 1 ≤ c then β (c - 1) • q (c - 1) else 0) + α c • q c +
        (if c + 1 < k then β c • q (c + 1) else 0) := by
  have hpt : ∀ a ∈ range k, triT α β a c • q a =
      ((if a = c - 1 then (if 1 ≤ c then β (c - 1) • q (c - 1) else 0) else 0) +
        (if a = c then α c • q c else 0)) + (if a = c + 1 then β c • q (c + 1) else 0) := by
    intro a _
    unfold triT
    by_cases h1 : a = c
    · subst h1
      have n1 : ¬ a = a - 1 ∨ ¬ 1 ≤ a := by omega
      have n2 : ¬ a = a + 1 := by omega
      rcases n1 with n1 | n1 <;> simp [n1]
    · by_cases h2 : a = c + 1
      · subst h2
        have n1 : ¬ c + 1 = c - 1 := by omega
        simp [n1]
      · by_cases h3 : c = a + 1
        · subst h3
          have n2 : ¬ a = a + 1 + 1 := by omega
          simp [n2]
        · have n1 : ¬ (a = c - 1 ∧ 1 ≤ c) := by omega
          by_cases h4 : a = c - 1
          · have : ¬ 1 ≤ c := fun h => n1 ⟨h4, h⟩
            simp [h1, h2, h3, this]
          · simp [h1, h2, h3, h4]
  rw [Finset.sum_congr rfl hpt, Finset.sum_add_distrib, Finset.sum_add_distrib,
    Finset.sum_ite_eq', Finset.sum_ite_eq', Finset.sum_ite_eq']
  have m1 : c - 1 ∈ range k := mem_range.mpr (by omega)
  have m2 : c ∈ range k := mem_range.mpr hc
  simp only [m1, m2, if_true, mem_range]

/-! ## Krylov spaces -/

/-- `K_j(A, v) = span{v, A v, …, A^{j-1} v}` -/
def krylov (A : E →ₗ[𝕜] E) (v : E) (j : ℕ) : Submodule 𝕜 E :=
  Submodule.span 𝕜 (Set.range fun t : Fin j => (A ^ (t : ℕ)) v)

theorem krylov_mono (A : E →ₗ[𝕜] E) (v : E) {j j' : ℕ} (h : j ≤ j') :
    krylov A v j ≤ krylov A v j' := by
  apply Submodule.span_mono
  rintro _ ⟨t, rfl⟩
  exact ⟨⟨t, by omega⟩, rfl⟩

theorem map_krylov (A : E →ₗ[𝕜] E) (v : E) (j : ℕ) (x : E) (hx : x ∈ krylov A v j) :
    A x ∈ krylov A v (j + 1) := by
  unfold krylov at hx
  induction hx using Submodule.span_induction with
  | mem x hx =>
    obtain ⟨t, rfl⟩ := hx
    apply Submodule.subset_span
    refine ⟨⟨t + 1, by omega⟩, ?_⟩
    simp only [pow_succ', Module.End.mul_apply]
  | zero => rw [map_zero]; exact Submodule.zero_mem _
  | add x y _ _ hx hy => rw [map_add]; exact Submodule.add_mem _ hx hy
  | smul a x _ hx => rw [map_smul]; exact Submodule.smul_mem _ a hx

theorem finrank_krylov_le (A : E →ₗ[𝕜] E) (v : E) (j : ℕ) :
    Module.finrank 𝕜 (krylov A v j) ≤ j := by
  unfold krylov
  refine le_trans (finrank_range_le_card (R := 𝕜) (fun t : Fin j => (A ^ (t : ℕ)) v)) ?_
  simp

instance (A : E →ₗ[𝕜] E) (v : E) (j : ℕ) : FiniteDimensional 𝕜 (krylov A v j) :=
  FiniteDimensional.span_of_finite 𝕜 (Set.finite_range _)

/-! ## from the invariant to the factorisation -/

section concrete
attribute [local instance] exactNum exactVec
variable {A : E →ₗ[𝕜] E} {m : ℕ} {v : E} {k : ℕ} {s : Mem 𝕜 E}

theorem Inv.inner_q (h : Inv A m v k s) (a b : ℕ) (ha1 : 1 ≤ a) (ha : a ≤ k) (hb1 : 1 ≤ b)
    (hb : b ≤ k) : ⟪qc s a, qc s b⟫_𝕜 = if a = b then 1 else 0 := by
  rcases Nat.lt_trichotomy a b with hlt | heq | hgt
  · have : a ≠ b := by omega
    rw [h.orth a b ha1 hlt (by omega)]; simp [this]
  · subst heq
    rw [inner_self_of_norm_one _ (h.unit a ha1 ha)]; simp
  · have : a ≠ b := by omega
    rw [inner_swap_zero _ _ (h.orth b a hb1 hgt (by omega))]; simp [this]

/-- the returned columns, the tridiagonal table and the residual -/
theorem Inv.fact (h : Inv A m v k s) :
    Fact A k (fun c => qc s (c + 1)) (triT (fun c => dg s c) (fun c => sb s (c + 1)))
      (qc s (k + 1)) := by
  refine ⟨?_, ?_, ?_⟩
  · intro a b ha hb
    rw [h.inner_q (a + 1) (b + 1) (by omega) (by omega) (by omega) (by omega)]
    by_cases hab : a = b
    · simp [hab]
    · have : ¬ a + 1 = b + 1 := by omega
      simp [hab]
  · intro c hc
    rw [sum_triT k c hc]
    have hfirst : (if 1 ≤ c then sb s (c - 1 + 1) • qc s (c - 1 + 1) else 0) = sb s c • qc s c := by
      rcases Nat.eq_zero_or_pos c with rfl | hpos
      · simp [h.col0]
      · have : c - 1 + 1 = c := by omega
        have h1c : 1 ≤ c := hpos
        rw [if_pos h1c, this]
    simp only [hfirst]
    rcases Nat.lt_or_ge (c + 1) k with hlt | hge
    · have hne : ¬ c + 1 = k := by omega
      have hrec := h.recLt (c + 1) (by omega) hlt
      simp only [Nat.add_sub_cancel] at hrec
      simp only [hlt, hne, if_true, if_false, add_zero]
      exact hrec
    · have heq : c + 1 = k := by omega
      have hnlt : ¬ c + 1 < k := by omega
      have hrec := h.recLast (by omega)
      rw [← heq] at hrec
      simp only [Nat.add_sub_cancel] at hrec
      rw [if_neg hnlt, if_pos heq, add_zero, ← heq]
      exact hrec
  · intro a ha
    exact h.orth (a + 1) (k + 1) (by omega) (by omega) (le_refl _)

/-- every basis vector lies in the Krylov space of its index -/
theorem Inv.q_mem_krylov (h : Inv A m v k s) : ∀ c, 1 ≤ c → c ≤ k → qc s c ∈ krylov A v c := by
  intro c
  induction c using Nat.strong_induction_on with
  | _ c ih =>
    intro h1 hk
    rcases Nat.lt_or_ge c 2 with hlt | hge
    · have : c = 1 := by omega
      subst this
      rw [h.first]
      apply Submodule.smul_mem
      apply Submodule.subset_span
      exact ⟨⟨0, by omega⟩, by simp⟩
    · -- c ≥ 2 : solve the recurrence at c - 1 for q_c
      have hrec := h.recLt (c - 1) (by omega) (by omega)
      have hcc : c - 1 + 1 = c := by omega
      rw [hcc] at hrec
      have hne := h.subPos (c - 1) (by omega) (by omega)
      have hq : qc s c = (sb s (c - 1))⁻¹ •
          (A (qc s (c - 1)) - sb s (c - 1 - 1) • qc s (c - 1 - 1) - dg s (c - 1 - 1) • qc s (c - 1)) := by
        rw [hrec]
        have : sb s (c - 1 - 1) • qc s (c - 1 - 1) + dg s (c - 1 - 1) • qc s (c - 1) +
            sb s (c - 1) • qc s c - sb s (c - 1 - 1) • qc s (c - 1 - 1) -
            dg s (c - 1 - 1) • qc s (c - 1) = sb s (c - 1) • qc s c := by abel
        rw [this, smul_smul, inv_mul_cancel₀ hne, one_smul]
      rw [hq]
      apply Submodule.smul_mem
      have hprev := ih (c - 1) (by omega) (by omega) (by omega)
      have hA1 : A (qc s (c - 1)) ∈ krylov A v c := by
        have := map_krylov A v (c - 1) _ hprev
        rwa [hcc] at this
      have hA2 : qc s (c - 1 - 1) ∈ krylov A v c := by
        rcases Nat.lt_or_ge (c - 1 - 1) 1 with h0 | h0
        · have : c - 1 - 1 = 0 := by omega
          rw [this, h.col0]; exact Submodule.zero_mem _
        · exact krylov_mono A v (by omega) (ih (c - 1 - 1) (by omega) h0 (by omega))
      have hA3 : qc s (c - 1) ∈ krylov A v c := krylov_mono A v (by omega) hprev
      exact Submodule.sub_mem _ (Submodule.sub_mem _ hA1 (Submodule.smul_mem _ _ hA2))
        (Submodule.smul_mem _ _ hA3)

theorem Inv.orthonormal (h : Inv A m v k s) (j : ℕ) (hj : j ≤ k) :
    Orthonormal 𝕜 (fun c : Fin j => qc s ((c : ℕ) + 1)) := by
  rw [orthonormal_iff_ite]
  intro a b
  rw [h.inner_q (a + 1) (b + 1) (by omega) (by have := a.2; omega) (by omega) (by have := b.2; omega)]
  by_cases hab : a = b
  · simp [hab]
  · have : ¬ (a : ℕ) = (b : ℕ) := by
      intro e; apply hab; ext; exact e
    simp [hab, this]

/-- **the first `j` columns span the `j`-th Krylov space** -/
theorem Inv.span_eq_krylov (h : Inv A m v k s) (j : ℕ) (hj : j ≤ k) :
    Submodule.span 𝕜 (Set.range fun c : Fin j => qc s ((c : ℕ) + 1)) = krylov A v j := by
  have hle : Submodule.span 𝕜 (Set.range fun c : Fin j => qc s ((c : ℕ) + 1)) ≤ krylov A v j := by
    rw [Submodule.span_le]
    rintro _ ⟨c, rfl⟩
    exact krylov_mono A v (by have := c.2; omega)
      (h.q_mem_krylov ((c : ℕ) + 1) (by omega) (by have := c.2; omega))
  apply Submodule.eq_of_le_of_finrank_le hle
  rw [finrank_span_eq_card (h.orthonormal j hj).linearIndependent, Fintype.card_fin]
  exact finrank_krylov_le A v j

/-- the Krylov space of every returned index has full dimension … -/
theorem Inv.finrank_krylov (h : Inv A m v k s) (j : ℕ) (hj : j ≤ k) :
    Module.finrank 𝕜 (krylov A v j) = j := by
  rw [← h.span_eq_krylov j hj, finrank_span_eq_card (h.orthonormal j hj).linearIndependent,
    Fintype.card_fin]

/-- … so the loop never produces more columns than the dimension at which the Krylov space stalls -/
theorem Inv.le_of_exhausted (h : Inv A m v k s) (d : ℕ)
    (hd : krylov A v (d + 1) = krylov A v d) : k ≤ d := by
  by_contra hcon
  have h1 := h.finrank_krylov (d + 1) (by omega)
  have h2 := h.finrank_krylov d (by omega)
  rw [hd] at h1
  omega

end concrete

end Lanczos
