import ColaVerif.Lemmas.InvMm
import ColaVerif.Lemmas.OpAlgebra

/-!
# Soundness of the `inv` rules (C06)

`invRule_sound`: under the hypotheses collected by `InvHyp` along the selected rules
(invertibility of the scalar / diagonal / triangular data, well-formed permutations, and the
contracts of the external factorisations / solvers at the nodes that fall to an algorithm),
the operator returned by `invRule` has the shape of `A` and its matrix is the two-sided inverse
of the matrix of `A`.
-/

open Finset

namespace Inv
variable {R : Type} [CommRing R] [StarRing R] [DecidableEq R]

/-! ## hypotheses -/

/-- contract of `xnp.lu` on the dense matrix `D`: `P L U = D` with a permutation `p` of `0..n-1`,
unit-invertible diagonals and the triangular shapes -/
def LUContract (E : Ext R) (n : Nat) (D : MatF R) : Prop :=
  (∀ t ∈ (E.lu n D).1, t < (E.lu n D).1.length) ∧ (E.lu n D).1.Nodup ∧ (E.lu n D).1.length = n ∧
  LowerTri n (E.lu n D).2.1.f ∧ UpperTri n (E.lu n D).2.2.f ∧
  DiagUnit E.recip n (E.lu n D).2.1.f ∧ DiagUnit E.recip n (E.lu n D).2.2.f ∧
  EqOn n n (mmul n (permDen (E.lu n D).1) (mmul n (E.lu n D).2.1.f (E.lu n D).2.2.f)) D

/-- contract of `xnp.cholesky` on the dense matrix `D`: `L Lᴴ = D`, `L` lower triangular with an
invertible diagonal -/
def CholContract (E : Ext R) (n : Nat) (D : MatF R) : Prop :=
  LowerTri n (E.chol n D).f ∧ DiagUnit E.recip n (E.chol n D).f ∧
  DiagUnit E.recip n (conjM (transposeM (E.chol n D).f)) ∧
  EqOn n n (mmul n (E.chol n D).f (conjM (transposeM (E.chol n D).f))) D

/-- contract of the iterative solver `alg(A, X)`: it returns a solution of `A Y = X` -/
def SolveContract (E : Ext R) (alg : Alg) (A : Op R) : Prop :=
  ∀ (b : Nat) (X : MatF R), EqOn A.rows b (mmul A.rows A.den.f (E.solve alg A b X).f) X

/-- the declaration `Unitary(A)` is true -/
def UnitaryHolds (A : Op R) : Prop :=
  EqOn A.rows A.rows (mmul A.rows A.den.f (conjM (transposeM A.den.f))) eyeM

/-- hypotheses at a node whose class has no `inv` rule of its own -/
def AlgHyp (E : Ext R) (alg : Alg) (A : Op R) : Prop :=
  A.cols = A.rows ∧ Op.Good A ∧
  match effAlg alg (A.isa .psd) (A.rows * A.cols) with
  | .lu => LUContract E A.rows A.td.f
  | .chol => CholContract E A.rows A.td.f
  | .cg o => SolveContract E (.cg o) A
  | .gmres o => SolveContract E (.gmres o) A
  | .other => UnitaryHolds A ∧ A.RealTyped
  | .auto _ => False

/-- the hypotheses collected along the rules `invAux` selects -/
def HypAux (E : Ext R) (alg : Alg) (top : Op R) : Op R → Prop
  | .annot _ A => HypAux E alg top A
  | .eye _ _ => True
  | .scalar _ s _ => s * E.recip s = 1
  | .perm _ p => (∀ t ∈ p, t < p.length) ∧ p.Nodup
  | .prod Ms =>
      if allSquare Ms then
        Ms ≠ [] ∧ Op.chainOk (Ms.map (fun M => (M.rows, M.cols))) = true ∧ ∀ M ∈ Ms, HypAux E alg M M
      else AlgHyp E alg top
  | .bdiag Ms _ => ∀ M ∈ Ms, HypAux E alg M M
  | .kron Ms => ∀ M ∈ Ms, HypAux E alg M M
  | .diag _ n d => ∀ i, i < n → d i * E.recip (d i) = 1
  | .tri _ r c lower a => c = r ∧ (if lower then LowerTri r a else UpperTri r a) ∧ DiagUnit E.recip r a
  | .dense .. => AlgHyp E alg top
  | .sparse .. => AlgHyp E alg top
  | .sum _ => AlgHyp E alg top
  | .kronsum _ => AlgHyp E alg top
  | .tridiag .. => AlgHyp E alg top
  | .transpose _ => AlgHyp E alg top
  | .adjoint _ => AlgHyp E alg top
  | .sliced .. => AlgHyp E alg top
  | .concat .. => AlgHyp E alg top
  | .house .. => AlgHyp E alg top
  | .generic _ => AlgHyp E alg top

/-- the hypotheses of C06 for `inv(A, alg)` -/
def InvHyp (E : Ext R) (alg : Alg) (A : Op R) : Prop := HypAux E alg A A

/-! ## conclusion -/

/-- `B` has the shape of the (square) `A` and represents a right — hence two-sided — inverse -/
structure IsInverse (E : Ext R) (A : Op R) (B : InvOp R) : Prop where
  sq : A.cols = A.rows
  rows : B.rows = A.rows
  cols : B.cols = A.rows
  rinv : RInv A.rows A.den.f (B.den E).f
  mm : MmOKI E B

/-- `cur` is `top` without some declaration wrappers -/
structure SameMat (top cur : Op R) : Prop where
  rows : cur.rows = top.rows
  cols : cur.cols = top.cols
  den : cur.den = top.den
  mm : ∀ b X, cur.mm b X = top.mm b X

theorem SameMat.refl (A : Op R) : SameMat A A := ⟨rfl, rfl, rfl, fun _ _ => rfl⟩

theorem SameMat.annot {top : Op R} {a : Ann} {A : Op R} (h : SameMat top (.annot a A)) :
    SameMat top A := by
  obtain ⟨h1, h2, h3, h4⟩ := h
  simp only [Op.rows, Op.cols, Op.den] at h1 h2 h3
  refine ⟨h1, h2, h3, ?_⟩
  intro b X
  rw [← h4 b X, Op.mm]

/-! ## `sequence` -/

theorem sequence_ok {α β : Type} (f : α → Except String β) : ∀ (Ms : List α) (l : List β),
    sequence (Ms.map f) = .ok l → List.Forall₂ (fun M B => f M = .ok B) Ms l
  | [], l, h => by
    simp only [List.map_nil, sequence] at h
    cases h
    exact List.Forall₂.nil
  | M :: Ms, l, h => by
    simp only [List.map_cons] at h
    cases hf : f M with
    | error e => rw [hf] at h; simp [sequence] at h
    | ok B =>
      rw [hf] at h
      simp only [sequence] at h
      cases hs : sequence (Ms.map f) with
      | error e => rw [hs] at h; simp [Except.map] at h
      | ok l' =>
        rw [hs] at h
        simp only [Except.map] at h
        cases h
        exact List.Forall₂.cons hf (sequence_ok f Ms l' hs)

/-! ## the algorithm rules -/

omit [StarRing R] [DecidableEq R] in
theorem chainM_three (n : Nat) (A B C : MatF R) :
    chainM n [A, B, C] = mmul n A (mmul n B (mmul n C eyeM)) := rfl

omit [StarRing R] [DecidableEq R] in
theorem chainM_two (n : Nat) (A B : MatF R) : chainM n [A, B] = mmul n A (mmul n B eyeM) := rfl

omit [DecidableEq R] in
theorem den_triInv (E : Ext R) (dt : DType) (n : Nat) (lower : Bool) (a : MatF R) :
    ((InvOp.triInv dt n lower a).den E) = solvetri E.recip n lower a n eyeM := by
  rw [InvOp.den]

theorem algRule_sound (E : Ext R) (alg : Alg) (A : Op R) (h : AlgHyp E alg A) (B : InvOp R)
    (hB : algRule E alg A = .ok B) : IsInverse E A B := by
  obtain ⟨hsq, hg, hc⟩ := h
  have htd : EqOn A.rows A.rows A.td.f A.den.f := by
    have := Op.td_eq A hg.wf hg.nd hg.herm
    rw [hsq] at this
    exact this
  unfold algRule at hB
  generalize hea : effAlg alg (A.isa .psd) (A.rows * A.cols) = ea at hB hc
  cases ea with
  | auto d => exact absurd hc id
  | gmres o =>
    simp only at hB hc
    cases hB
    refine ⟨hsq, by simp only [InvOp.rows], by simp only [InvOp.cols]; exact hsq, ?_,
      mmOKI_iterInv E (.gmres o) A hsq hc⟩
    rw [InvOp.den, hsq]
    exact hc A.rows eyeM
  | cg o =>
    simp only at hB hc
    split at hB
    · cases hB
      refine ⟨hsq, by simp only [InvOp.rows], by simp only [InvOp.cols]; exact hsq, ?_,
        mmOKI_iterInv E (.cg o) A hsq hc⟩
      rw [InvOp.den, hsq]
      exact hc A.rows eyeM
    · cases hB
  | other =>
    simp only at hB hc
    split at hB
    · cases hB
      obtain ⟨hc, hreal⟩ := hc
      have hshape := Op.adjointRule_shape A hg.herm
      have hden := Op.adjointRule_den A hg.herm
      rw [hsq] at hden
      refine ⟨hsq, ?_, ?_, ?_, ?_⟩
      · simp only [InvOp.rows, Op.rows]; rw [hshape.1, hsq]
      · simp only [InvOp.cols, Op.cols]; rw [hshape.2]
      · rw [InvOp.den]
        simp only [Op.den]
        exact RInv.congr (EqOn.refl _ _ _) hden.symm (rinv_unitary A.rows A.den.f hc)
      · apply mmOKI_op
        exact Op.mmOK_annot _ _ (Op.mm_rmm_ok _ (Op.adjointRule_spec A hg hreal).good).1
    · cases hB
  | lu =>
    simp only at hB hc
    cases hB
    obtain ⟨hlt, hnd, hlen, hL, hU, hdL, hdU, hPLU⟩ := hc
    refine ⟨hsq, by simp [InvOp.rows], by simp [InvOp.cols, Op.cols, argsort_length, hlen], ?_, ?_⟩
    swap
    · have hwf := argsort_wf _ hlt hnd
      apply mmOKI_prod E A.rows _ (by simp)
      · intro M hM
        simp only [List.mem_cons, List.not_mem_nil, or_false] at hM
        rcases hM with rfl | rfl | rfl
        · exact ⟨by simp only [InvOp.rows], by simp only [InvOp.cols]⟩
        · exact ⟨by simp only [InvOp.rows], by simp only [InvOp.cols]⟩
        · exact ⟨by simp only [InvOp.rows, Op.rows, argsort_length, hlen],
            by simp only [InvOp.cols, Op.cols, argsort_length, hlen]⟩
      · intro M hM
        simp only [List.mem_cons, List.not_mem_nil, or_false] at hM
        rcases hM with rfl | rfl | rfl
        · exact mmOKI_triInv E _ _ false _ (by simpa using hU) hdU
        · exact mmOKI_triInv E _ _ true _ (by simpa using hL) hdL
        · apply mmOKI_op
          apply Op.mmOK_perm
          simp only [Op.wf, Bool.and_eq_true, List.all_eq_true, decide_eq_true_eq]
          exact hwf
    rw [InvOp.den]
    simp only [List.map_cons, List.map_nil, InvOp.rows, InvOp.cols, Op.cols, List.head?_cons,
      Option.getD_some, forceV_f, argsort_length, hlen, List.foldr_cons, List.foldr_nil, den_triInv]
    rw [InvOp.den]
    simp only [Op.den, MatV.of_f]
    have hP := rinv_perm (R := R) _ hlt hnd
    rw [hlen] at hP
    have h3 : List.Forall₂ (RInv A.rows)
        [permDen (E.lu A.rows A.td.f).1, (E.lu A.rows A.td.f).2.1.f, (E.lu A.rows A.td.f).2.2.f]
        [permDen (argsort (E.lu A.rows A.td.f).1),
         (solvetri E.recip A.rows true (E.lu A.rows A.td.f).2.1.f A.rows eyeM).f,
         (solvetri E.recip A.rows false (E.lu A.rows A.td.f).2.2.f A.rows eyeM).f] :=
      List.Forall₂.cons hP (List.Forall₂.cons (rinv_tri E.recip _ true _ (by simpa using hL) hdL)
        (List.Forall₂.cons (rinv_tri E.recip _ false _ (by simpa using hU) hdU) List.Forall₂.nil))
    have key := rinv_chain A.rows h3
    simp only [List.reverse_cons, List.reverse_nil, List.nil_append, List.cons_append] at key
    rw [chainM_three] at key
    refine RInv.congr ?_ (EqOn.refl _ _ _) key
    refine EqOn.trans ?_ (hPLU.trans htd)
    exact mmul_congr (EqOn.refl _ _ _) (mmul_congr (EqOn.refl _ _ _)
      (eqOn_mmul_eyeM_right _ _ _))
  | chol =>
    simp only at hB hc
    split at hB
    · cases hB
      obtain ⟨hL, hdL, hdLH, hLL⟩ := hc
      have hUH : UpperTri A.rows (conjM (transposeM (E.chol A.rows A.td.f).f)) := by
        intro i j hi hj hij
        simp only [conjM, transposeM]
        rw [hL j i hj hi hij, star_zero]
      refine ⟨hsq, by simp [InvOp.rows], by simp [InvOp.cols], ?_, ?_⟩
      swap
      · apply mmOKI_prod E A.rows _ (by simp)
        · intro M hM
          simp only [List.mem_cons, List.not_mem_nil, or_false] at hM
          rcases hM with rfl | rfl
          · exact ⟨by simp only [InvOp.rows], by simp only [InvOp.cols]⟩
          · exact ⟨by simp only [InvOp.rows], by simp only [InvOp.cols]⟩
        · intro M hM
          simp only [List.mem_cons, List.not_mem_nil, or_false] at hM
          rcases hM with rfl | rfl
          · exact mmOKI_triInv E _ _ false _ (by simpa using hUH) hdLH
          · exact mmOKI_triInv E _ _ true _ (by simpa using hL) hdL
      rw [InvOp.den]
      simp only [List.map_cons, List.map_nil, InvOp.rows, InvOp.cols, List.head?_cons,
        Option.getD_some, forceV_f, List.foldr_cons, List.foldr_nil, den_triInv]
      have h2 : List.Forall₂ (RInv A.rows)
          [(E.chol A.rows A.td.f).f, conjM (transposeM (E.chol A.rows A.td.f).f)]
          [(solvetri E.recip A.rows true (E.chol A.rows A.td.f).f A.rows eyeM).f,
           (solvetri E.recip A.rows false (conjM (transposeM (E.chol A.rows A.td.f).f)) A.rows eyeM).f] :=
        List.Forall₂.cons (rinv_tri E.recip _ true _ (by simpa using hL) hdL)
          (List.Forall₂.cons (rinv_tri E.recip _ false _ (by simpa using hUH) hdLH) List.Forall₂.nil)
      have key := rinv_chain A.rows h2
      simp only [List.reverse_cons, List.reverse_nil, List.nil_append, List.cons_append] at key
      rw [chainM_two] at key
      refine RInv.congr ?_ (EqOn.refl _ _ _) key
      refine EqOn.trans ?_ (hLL.trans htd)
      exact mmul_congr (EqOn.refl _ _ _) (eqOn_mmul_eyeM_right _ _ _)
    · cases hB

/-! ## the structural rules on composites -/

omit [CommRing R] [StarRing R] [DecidableEq R] in
/-- a chain of square operators has one common size -/
theorem square_chain : ∀ (Ms : List (Op R)) (M0 : Op R), allSquare (M0 :: Ms) = true →
    Op.chainOk ((M0 :: Ms).map (fun M => (M.rows, M.cols))) = true →
    ∀ M ∈ M0 :: Ms, M.rows = M0.rows ∧ M.cols = M0.rows
  | [], M0, hs, _ => by
    intro M hM
    simp only [List.mem_singleton] at hM
    subst hM
    simp only [allSquare, List.map_cons, List.map_nil, List.all_cons, List.all_nil, Bool.and_true,
      id, beq_iff_eq] at hs
    exact ⟨rfl, hs.symm⟩
  | M1 :: Ms, M0, hs, hc => by
    simp only [allSquare, List.map_cons, List.all_cons, id, Bool.and_eq_true, beq_iff_eq] at hs
    simp only [List.map_cons, Op.chainOk, Bool.and_eq_true, beq_iff_eq] at hc
    have ih := square_chain Ms M1 (by
      simp only [allSquare, List.map_cons, List.all_cons, id, Bool.and_eq_true, beq_iff_eq]
      exact hs.2) (by simpa using hc.2)
    intro M hM
    rcases List.mem_cons.mp hM with rfl | hM
    · exact ⟨rfl, hs.1.symm⟩
    · have := ih M hM
      rw [← hc.1, ← hs.1] at this
      exact this

theorem forall₂_exists_left {α β : Type} {P : α → β → Prop} {L : List α} {L' : List β}
    (h : List.Forall₂ P L L') : ∀ b ∈ L', ∃ a ∈ L, P a b := by
  induction h with
  | nil => intro b hb; cases hb
  | cons hd _ ih =>
    intro b hb
    rcases List.mem_cons.mp hb with rfl | hb
    · exact ⟨_, List.mem_cons_self, hd⟩
    · obtain ⟨a, ha, hab⟩ := ih b hb
      exact ⟨a, List.mem_cons_of_mem _ ha, hab⟩

theorem forall₂_with_mem {α β : Type} {P : α → β → Prop} {L : List α} {L' : List β}
    (h : List.Forall₂ P L L') : List.Forall₂ (fun a b => P a b ∧ a ∈ L) L L' := by
  induction h with
  | nil => exact List.Forall₂.nil
  | cons hd _ ih =>
    exact List.Forall₂.cons ⟨hd, List.mem_cons_self⟩
      (List.Forall₂.imp (fun a b hab => ⟨hab.1, List.mem_cons_of_mem _ hab.2⟩) ih)

theorem prod_sound (E : Ext R) (Ms : List (Op R)) (l : List (InvOp R)) (hne : Ms ≠ [])
    (hsq : allSquare Ms = true) (hch : Op.chainOk (Ms.map (fun M => (M.rows, M.cols))) = true)
    (h : List.Forall₂ (IsInverse E) Ms l) : IsInverse E (.prod Ms) (.prod l.reverse) := by
  obtain ⟨n, hsh⟩ : ∃ n, ∀ M ∈ Ms, M.rows = n ∧ M.cols = n := by
    cases Ms with
    | nil => exact absurd rfl hne
    | cons M0 Ms' => exact ⟨M0.rows, square_chain Ms' M0 hsq hch⟩
  have hlne : l ≠ [] := by
    intro hl
    rw [hl] at h
    cases h
    exact hne rfl
  have hlsh : ∀ B ∈ l, B.rows = n ∧ B.cols = n := by
    intro B hB
    obtain ⟨M, hM, hMB⟩ := forall₂_exists_left h B hB
    have := hsh M hM
    exact ⟨by rw [hMB.rows, this.1], by rw [hMB.cols, this.1]⟩
  have hrne : l.reverse ≠ [] := by simpa using hlne
  have hrsh : ∀ B ∈ l.reverse, B.rows = n ∧ B.cols = n := fun B hB =>
    hlsh B (List.mem_reverse.mp hB)
  have hr : (Op.prod Ms).rows = n := by
    simp only [Op.rows]
    exact head_getD_of_all _ n Ms hne (fun M hM => (hsh M hM).1)
  have hc : (Op.prod Ms).cols = n := by
    simp only [Op.cols]
    exact getLast_getD_of_all _ n Ms hne (fun M hM => (hsh M hM).2)
  refine ⟨by rw [hr, hc], ?_, ?_, ?_, mmOKI_prod E n _ hrne hrsh (fun B hB => by
      obtain ⟨M, _, hMB⟩ := forall₂_exists_left h B (List.mem_reverse.mp hB)
      exact hMB.mm)⟩
  · rw [hr]
    simp only [InvOp.rows]
    exact head_getD_of_all _ n _ hrne (fun B hB => (hrsh B hB).1)
  · rw [hr]
    simp only [InvOp.cols]
    exact getLast_getD_of_all _ n _ hrne (fun B hB => (hrsh B hB).2)
  · rw [hr, InvOp.den]
    simp only [Op.den, forceV_f]
    rw [foldr_chain n (fun M : Op R => M.cols) (fun M => M.den.f) Ms (fun M hM => (hsh M hM).2),
      foldr_chain n (fun B : InvOp R => B.cols) (fun B => (B.den E).f) l.reverse
        (fun B hB => (hrsh B hB).2), List.map_reverse]
    apply rinv_chain
    rw [List.forall₂_map_left_iff, List.forall₂_map_right_iff]
    refine List.Forall₂.imp ?_ (forall₂_with_mem h)
    intro M B hMB
    have := hMB.1.rinv
    rw [(hsh M hMB.2).1] at this
    exact this

/-- the factor records of the inputs and of the results are paired -/
theorem forall₂_facInv (E : Ext R) {Ms : List (Op R)} {l : List (InvOp R)}
    (h : List.Forall₂ (IsInverse E) Ms l) :
    List.Forall₂ FacInv
      (Ms.map (fun M => (⟨M.rows, M.cols, M.den.f, fun _ m => MatV.of m⟩ : FacAct R)))
      (l.map (fun M => (⟨M.rows, M.cols, (M.den E).f, fun _ m => MatV.of m⟩ : FacAct R))) := by
  rw [List.forall₂_map_left_iff, List.forall₂_map_right_iff]
  exact List.Forall₂.imp (fun M B hMB => ⟨hMB.sq, hMB.rows, hMB.cols, hMB.rinv⟩) h

theorem kron_sound (E : Ext R) (Ms : List (Op R)) (l : List (InvOp R))
    (h : List.Forall₂ (IsInverse E) Ms l) : IsInverse E (.kron Ms) (.kron l) := by
  obtain ⟨e1, e2, e3, hr⟩ := rinv_kronDen (forall₂_facInv E h)
  simp only [List.map_map, Function.comp_def] at e1 e2 e3 hr
  refine ⟨?_, ?_, ?_, ?_, ?_⟩
  · simp only [Op.rows, Op.cols]; exact e1
  · simp only [InvOp.rows, Op.rows]; exact e2
  · simp only [InvOp.cols, Op.rows]; exact e3
  · rw [InvOp.den]
    simp only [Op.den, Op.rows, forceV_f]
    exact hr
  · exact mmOKI_kron E l (fun B hB => by
      obtain ⟨M, _, hMB⟩ := forall₂_exists_left h B hB
      exact hMB.mm)

theorem bdiag_sound (E : Ext R) (Ms : List (Op R)) (mults : List Nat) (l : List (InvOp R))
    (h : List.Forall₂ (IsInverse E) Ms l) : IsInverse E (.bdiag Ms mults) (.bdiag l mults) := by
  obtain ⟨e1, e2, e3, hr⟩ := rinv_bdiagDen mults (forall₂_facInv E h)
  have r1 := dotSum_rows (R := R) (fun M : Op R => (⟨M.rows, M.cols, M.den.f, fun _ m => MatV.of m⟩ : FacAct R)) Ms mults
  have c1 := dotSum_cols (R := R) (fun M : Op R => (⟨M.rows, M.cols, M.den.f, fun _ m => MatV.of m⟩ : FacAct R)) Ms mults
  have r2 := dotSum_rows (R := R) (fun M : InvOp R => (⟨M.rows, M.cols, (M.den E).f, fun _ m => MatV.of m⟩ : FacAct R)) l mults
  have c2 := dotSum_cols (R := R) (fun M : InvOp R => (⟨M.rows, M.cols, (M.den E).f, fun _ m => MatV.of m⟩ : FacAct R)) l mults
  simp only at r1 c1 r2 c2
  rw [← r1] at e1 e2 e3 hr
  rw [← c1] at e1
  rw [← r2] at e2
  rw [← c2] at e3
  refine ⟨?_, ?_, ?_, ?_, ?_⟩
  · simp only [Op.rows, Op.cols]; exact e1
  · simp only [InvOp.rows, Op.rows]; exact e2
  · simp only [InvOp.cols, Op.rows]; exact e3
  · rw [InvOp.den]
    simp only [Op.den, Op.rows, forceV_f]
    exact hr
  · exact mmOKI_bdiag E l mults (fun B hB => by
      obtain ⟨M, _, hMB⟩ := forall₂_exists_left h B hB
      exact hMB.mm)

/-! ## the recursion -/

omit [StarRing R] [DecidableEq R] in
theorem den_scalar_eq (dt : DType) (s : R) (n : Nat) [StarRing R] :
    (Op.scalar dt s n).den.f = diagM (fun _ => s) := by
  simp only [Op.den, MatV.of_f]
  rfl

theorem invAux_sound (E : Ext R) (alg : Alg) : ∀ (cur top : Op R), SameMat top cur →
    HypAux E alg top cur → ∀ B, invAux E alg top cur = .ok B → IsInverse E top B
  | .annot a A, top, hs, hh, B, hB => by
    rw [invAux] at hB
    rw [HypAux] at hh
    exact invAux_sound E alg A top hs.annot hh B hB
  | .eye dt n, top, hs, _, B, hB => by
    rw [invAux] at hB
    cases hB
    have hr := hs.rows
    have hc := hs.cols
    have hd := hs.den
    simp only [Op.rows] at hr
    simp only [Op.cols] at hc
    simp only [Op.den] at hd
    refine ⟨by rw [← hr, ← hc], by simp only [InvOp.rows], by simp only [InvOp.cols]; rw [← hr, ← hc], ?_, ?_⟩
    · rw [InvOp.den, ← hd, MatV.of_f]
      exact rinv_eye _
    · apply mmOKI_op
      intro b X
      have := Op.mmOK_eye (R := R) dt n b X
      rw [hs.mm b X] at this
      simp only [Op.rows, Op.cols] at this
      rw [← hr, ← hc, ← hs.den]
      exact this
  | .scalar dt s n, top, hs, hh, B, hB => by
    rw [invAux] at hB
    cases hB
    rw [HypAux] at hh
    have hr := hs.rows
    have hc := hs.cols
    have hd := hs.den
    simp only [Op.rows] at hr
    simp only [Op.cols] at hc
    refine ⟨by rw [← hr, ← hc], by simp only [InvOp.rows, Op.rows]; exact hr,
      by simp only [InvOp.cols, Op.cols]; exact hr, ?_, mmOKI_op E _ (Op.mmOK_scalar _ _ _)⟩
    rw [InvOp.den, ← hd, den_scalar_eq, den_scalar_eq]
    exact rinv_diag _ _ _ (fun _ _ => hh)
  | .perm dt p, top, hs, hh, B, hB => by
    rw [invAux] at hB
    cases hB
    rw [HypAux] at hh
    have hr := hs.rows
    have hc := hs.cols
    have hd := hs.den
    simp only [Op.rows] at hr
    simp only [Op.cols] at hc
    refine ⟨by rw [← hr, ← hc], by simp only [InvOp.rows, Op.rows, argsort_length]; exact hr,
      by simp only [InvOp.cols, Op.cols, argsort_length]; exact hr, ?_, ?_⟩
    · rw [InvOp.den, ← hd, ← hr]
      simp only [Op.den, MatV.of_f]
      exact rinv_perm p hh.1 hh.2
    · apply mmOKI_op
      apply Op.mmOK_perm
      simp only [Op.wf, Bool.and_eq_true, List.all_eq_true, decide_eq_true_eq]
      exact argsort_wf p hh.1 hh.2
  | .diag dt n d, top, hs, hh, B, hB => by
    rw [invAux] at hB
    cases hB
    rw [HypAux] at hh
    have hr := hs.rows
    have hc := hs.cols
    have hd := hs.den
    simp only [Op.rows] at hr
    simp only [Op.cols] at hc
    refine ⟨by rw [← hr, ← hc], by simp only [InvOp.rows, Op.rows]; exact hr,
      by simp only [InvOp.cols, Op.cols]; exact hr, ?_, mmOKI_op E _ (Op.mmOK_diag _ _ _)⟩
    rw [InvOp.den, ← hd, ← hr]
    simp only [Op.den, MatV.of_f]
    exact rinv_diag _ _ _ hh
  | .tri dt r c lower a, top, hs, hh, B, hB => by
    rw [invAux] at hB
    cases hB
    rw [HypAux] at hh
    obtain ⟨hcr, ht, hdg⟩ := hh
    have hr := hs.rows
    have hc := hs.cols
    have hd := hs.den
    simp only [Op.rows] at hr
    simp only [Op.cols] at hc
    refine ⟨by rw [← hr, ← hc, hcr], by simp only [InvOp.rows]; exact hr,
      by simp only [InvOp.cols]; exact hr, ?_, mmOKI_triInv E dt r lower a ht hdg⟩
    rw [den_triInv, ← hd, ← hr]
    simp only [Op.den, MatV.of_f]
    exact rinv_tri E.recip r lower a ht hdg
  | .prod Ms, top, hs, hh, B, hB => by
    rw [invAux] at hB
    rw [HypAux] at hh
    by_cases hsq : allSquare Ms = true
    · rw [if_pos hsq] at hB hh
      obtain ⟨hne, hch, hmem⟩ := hh
      cases hseq : sequence (Ms.map (fun M => invAux E alg M M)) with
      | error e => rw [hseq] at hB; simp [Except.map] at hB
      | ok l =>
        rw [hseq] at hB
        simp only [Except.map] at hB
        cases hB
        have hf := sequence_ok (fun M => invAux E alg M M) Ms l hseq
        have hinv : List.Forall₂ (IsInverse E) Ms l :=
          List.Forall₂.imp (fun M B (h : invAux E alg M M = .ok B ∧ M ∈ Ms) =>
            invAux_sound E alg M M (SameMat.refl M) (hmem M h.2) B h.1) (forall₂_with_mem hf)
        have key := prod_sound E Ms l hne hsq hch hinv
        obtain ⟨k1, k2, k3, k4, k5⟩ := key
        rw [hs.rows] at k1 k2 k3 k4
        rw [hs.cols] at k1
        rw [hs.den] at k4
        exact ⟨k1, k2, k3, k4, k5⟩
    · rw [if_neg hsq] at hB hh
      exact algRule_sound E alg top hh B hB
  | .kron Ms, top, hs, hh, B, hB => by
    rw [invAux] at hB
    rw [HypAux] at hh
    cases hseq : sequence (Ms.map (fun M => invAux E alg M M)) with
    | error e => rw [hseq] at hB; simp [Except.map] at hB
    | ok l =>
      rw [hseq] at hB
      simp only [Except.map] at hB
      cases hB
      have hf := sequence_ok (fun M => invAux E alg M M) Ms l hseq
      have hinv : List.Forall₂ (IsInverse E) Ms l :=
        List.Forall₂.imp (fun M B (h : invAux E alg M M = .ok B ∧ M ∈ Ms) =>
          invAux_sound E alg M M (SameMat.refl M) (hh M h.2) B h.1) (forall₂_with_mem hf)
      obtain ⟨k1, k2, k3, k4, k5⟩ := kron_sound E Ms l hinv
      rw [hs.rows] at k1 k2 k3 k4
      rw [hs.cols] at k1
      rw [hs.den] at k4
      exact ⟨k1, k2, k3, k4, k5⟩
  | .bdiag Ms mults, top, hs, hh, B, hB => by
    rw [invAux] at hB
    rw [HypAux] at hh
    cases hseq : sequence (Ms.map (fun M => invAux E alg M M)) with
    | error e => rw [hseq] at hB; simp [Except.map] at hB
    | ok l =>
      rw [hseq] at hB
      simp only [Except.map] at hB
      cases hB
      have hf := sequence_ok (fun M => invAux E alg M M) Ms l hseq
      have hinv : List.Forall₂ (IsInverse E) Ms l :=
        List.Forall₂.imp (fun M B (h : invAux E alg M M = .ok B ∧ M ∈ Ms) =>
          invAux_sound E alg M M (SameMat.refl M) (hh M h.2) B h.1) (forall₂_with_mem hf)
      obtain ⟨k1, k2, k3, k4, k5⟩ := bdiag_sound E Ms mults l hinv
      rw [hs.rows] at k1 k2 k3 k4
      rw [hs.cols] at k1
      rw [hs.den] at k4
      exact ⟨k1, k2, k3, k4, k5⟩
  | .dense .., top, _, hh, B, hB => by
    rw [invAux] at hB; rw [HypAux] at hh; exact algRule_sound E alg top hh B hB
  | .sparse .., top, _, hh, B, hB => by
    rw [invAux] at hB; rw [HypAux] at hh; exact algRule_sound E alg top hh B hB
  | .sum _, top, _, hh, B, hB => by
    rw [invAux] at hB; rw [HypAux] at hh; exact algRule_sound E alg top hh B hB
  | .kronsum _, top, _, hh, B, hB => by
    rw [invAux] at hB; rw [HypAux] at hh; exact algRule_sound E alg top hh B hB
  | .tridiag .., top, _, hh, B, hB => by
    rw [invAux] at hB; rw [HypAux] at hh; exact algRule_sound E alg top hh B hB
  | .transpose _, top, _, hh, B, hB => by
    rw [invAux] at hB; rw [HypAux] at hh; exact algRule_sound E alg top hh B hB
  | .adjoint _, top, _, hh, B, hB => by
    rw [invAux] at hB; rw [HypAux] at hh; exact algRule_sound E alg top hh B hB
  | .sliced .., top, _, hh, B, hB => by
    rw [invAux] at hB; rw [HypAux] at hh; exact algRule_sound E alg top hh B hB
  | .concat .., top, _, hh, B, hB => by
    rw [invAux] at hB; rw [HypAux] at hh; exact algRule_sound E alg top hh B hB
  | .house .., top, _, hh, B, hB => by
    rw [invAux] at hB; rw [HypAux] at hh; exact algRule_sound E alg top hh B hB
  | .generic _, top, _, hh, B, hB => by
    rw [invAux] at hB; rw [HypAux] at hh; exact algRule_sound E alg top hh B hB
termination_by cur => sizeOf cur
decreasing_by
  all_goals simp_wf
  all_goals first
    | omega
    | (have := List.sizeOf_lt_of_mem h.2; omega)

/-- **C06, the inverse**: the operator `inv(A, alg)` returns has the shape of `A` and represents
its inverse -/
theorem invRule_sound (E : Ext R) (alg : Alg) (A : Op R) (h : InvHyp E alg A) (B : InvOp R)
    (hB : invRule E alg A = .ok B) : IsInverse E A B :=
  invAux_sound E alg A A (SameMat.refl A) h B hB

end Inv
