import ColaVerif.Lemmas.InvSound
import ColaVerif.Lemmas.KronSum

/-!
# Left product, `to_dense` and transpose of the operators `inv` returns (C06)

`WellI E B` collects, node by node, what the product code of `B` relies on (the analogue of the
hypotheses of C01 / C02 for an ordinary operator tree): `Good` and `RealTyped` for the embedded
ordinary operators, the triangular shape and invertible diagonal for `TriangularInv`, the solver
contract for `IterativeOperatorWInfo`, one common size for the members of a `Product`, and — for
`Kronecker` / `BlockDiag`, whose default left product takes the conjugation shortcut when the
node reports `SelfAdjoint` — that such a node is Hermitian (symmetric, for the `.T` shortcut).
`wellI_ok`: then `B @ X`, `X @ B`, `B.to_dense()` and `B.T.to_dense()` are those of `den B`.
-/

open Finset Matrix

namespace Inv
variable {R : Type} [CommRing R] [StarRing R] [DecidableEq R]

/-- `B._rmatmat` is right multiplication by `den B` -/
def RmmOKI (E : Ext R) (B : InvOp R) : Prop :=
  ∀ (b : Nat) (X : MatF R), EqOn b B.cols (B.rmm E b X).f (mmul B.rows X (B.den E).f)

/-- `B.to_dense()` is `den B` -/
def TdOKI (E : Ext R) (B : InvOp R) : Prop := EqOn B.rows B.cols (B.td E).f (B.den E).f

/-- `B.T.to_dense()` is the transpose of `den B` -/
def TdTOKI (E : Ext R) (B : InvOp R) : Prop :=
  EqOn B.cols B.rows (B.tdT E).f (transposeM (B.den E).f)

/-- a node that reports `SelfAdjoint` is Hermitian (and symmetric when its dtype is real) -/
def NodeHypI (E : Ext R) (B : InvOp R) : Prop :=
  (B.isa .selfAdjoint = true → B.rows = B.cols ∧
    ∀ i j, i < B.rows → j < B.rows → (B.den E).f i j = star ((B.den E).f j i)) ∧
  ((B.isa .selfAdjoint && !B.dtype.isComplex) = true →
    ∀ i j, i < B.cols → j < B.rows → (B.den E).f i j = (B.den E).f j i)

/-- what the product code of `B` relies on, node by node -/
def WellI (E : Ext R) : InvOp R → Prop
  | .op X => Op.Good X ∧ X.RealTyped
  | .triInv _ n lower a => (if lower then LowerTri n a else UpperTri n a) ∧ DiagUnit E.recip n a
  | .iterInv A alg => A.cols = A.rows ∧ SolveContract E alg A
  | .prod Ms => NodeHypI E (.prod Ms) ∧ Ms ≠ [] ∧ (∃ n, ∀ M ∈ Ms, M.rows = n ∧ M.cols = n) ∧
      ∀ M ∈ Ms, WellI E M
  | .kron Ms => NodeHypI E (.kron Ms) ∧ ∀ M ∈ Ms, WellI E M
  | .bdiag Ms mults => NodeHypI E (.bdiag Ms mults) ∧ ∀ M ∈ Ms, WellI E M

/-! ## the default left product -/

omit [DecidableEq R] in
theorem defaultRmm_ok (sa : Bool) (r c : Nat) (actV : Nat → MatF R → MatV R) (D : MatF R)
    (hmm : ∀ b X, EqOn r b (actV b X).f (mmul c D X))
    (hsa : sa = true → r = c ∧ ∀ i j, i < r → j < r → D i j = star (D j i)) (b : Nat) (X : MatF R) :
    EqOn b c (InvOp.defaultRmm sa r c actV b X).f (mmul r X D) := by
  unfold InvOp.defaultRmm
  cases sa with
  | true =>
    obtain ⟨hsq, hH⟩ := hsa rfl
    simp only [if_true, forceV_f]
    exact defaultRmm_sa r c D (fun b m => (actV b m).f) hmm hsq hH b X
  | false =>
    simp only [Bool.false_eq_true, if_false, forceV_f]
    exact defaultRmm_lin r c D (fun b m => (actV b m).f) hmm b X

/-! ## `TriangularInv._rmatmat` -/

omit [StarRing R] [DecidableEq R] in
theorem transpose_tri {n : Nat} {lower : Bool} {a : MatF R}
    (ht : if lower then LowerTri n a else UpperTri n a) :
    if (!lower) then LowerTri n (transposeM a) else UpperTri n (transposeM a) := by
  cases lower with
  | true =>
    simp only [Bool.not_true, Bool.false_eq_true, if_false]
    simp only [if_true] at ht
    intro i j hi hj hij
    exact ht j i hj hi hij
  | false =>
    simp only [Bool.not_false, if_true]
    simp only [Bool.false_eq_true, if_false] at ht
    intro i j hi hj hij
    exact ht j i hj hi hij

theorem rmmOKI_triInv (E : Ext R) (dt : DType) (n : Nat) (lower : Bool) (a : MatF R)
    (ht : if lower then LowerTri n a else UpperTri n a) (hd : DiagUnit E.recip n a) :
    RmmOKI E (.triInv dt n lower a) := by
  intro b X
  simp only [InvOp.rows, InvOp.cols]
  rw [InvOp.rmm, InvOp.den]
  simp only [forceV_f]
  have hd' : DiagUnit E.recip n (transposeM a) := hd
  have hs := solvetri_spec E.recip n (!lower) (transposeM a) (transpose_tri ht) hd' b (transposeM X)
  have hr := (rinv_tri E.recip n lower a ht hd)
  rw [rinv_iff] at hr
  rw [← MatF.toMatrix_eq_iff] at hs ⊢
  rw [MatF.toMatrix_mmul] at hs ⊢
  rw [MatF.toMatrix_transposeM n n a, MatF.toMatrix_transposeM b n X] at hs
  rw [MatF.toMatrix_transposeM n b]
  have h2 := congrArg Matrix.transpose hs
  rw [Matrix.transpose_mul, Matrix.transpose_transpose, Matrix.transpose_transpose] at h2
  rw [← h2, Matrix.mul_assoc, hr, Matrix.mul_one]

/-! ## `Product._rmatmat` -/

theorem prod_rmmI_aux (E : Ext R) (n b : Nat) : ∀ (Ms : List (InvOp R)) (V : MatV R),
    (∀ M ∈ Ms, M.rows = n ∧ M.cols = n) → (∀ M ∈ Ms, RmmOKI E M) →
    EqOn b n (Ms.foldl (fun acc M => M.rmm E b acc.f) V).f
      (mmul n V.f (chainM n (Ms.map (fun M => (M.den E).f))))
  | [], V, _, _ => by
    simp only [List.foldl_nil, List.map_nil, chainM, List.foldr_nil]
    exact (eqOn_mmul_eyeM_right b n V.f).symm
  | M :: Ms, V, hsh, h => by
    have ih := prod_rmmI_aux E n b Ms (M.rmm E b V.f)
      (fun M' hM' => hsh M' (List.mem_cons_of_mem _ hM'))
      (fun M' hM' => h M' (List.mem_cons_of_mem _ hM'))
    have hM := h M List.mem_cons_self b V.f
    rw [(hsh M List.mem_cons_self).1, (hsh M List.mem_cons_self).2] at hM
    simp only [List.foldl_cons, List.map_cons, chainM, List.foldr_cons] at ih ⊢
    refine ih.trans ((mmul_congr hM (EqOn.refl n n _)).trans ?_)
    intro i j _ _
    exact mmul_assoc' _ _ _ _ _ i j

theorem rmmOKI_prod (E : Ext R) (n : Nat) (Ms : List (InvOp R)) (hne : Ms ≠ [])
    (hsh : ∀ M ∈ Ms, M.rows = n ∧ M.cols = n) (h : ∀ M ∈ Ms, RmmOKI E M) : RmmOKI E (.prod Ms) := by
  intro b X
  have hr : (InvOp.prod Ms).rows = n := by
    simp only [InvOp.rows]
    exact head_getD_of_all _ n Ms hne (fun M hM => (hsh M hM).1)
  have hc : (InvOp.prod Ms).cols = n := by
    simp only [InvOp.cols]
    exact getLast_getD_of_all _ n Ms hne (fun M hM => (hsh M hM).2)
  rw [hr, hc, InvOp.rmm, InvOp.den]
  simp only [forceV_f]
  rw [foldr_chain n (fun B : InvOp R => B.cols) (fun B => (B.den E).f) Ms (fun B hB => (hsh B hB).2)]
  exact prod_rmmI_aux E n b Ms (MatV.of X) hsh h

/-! ## `to_dense` -/

theorem tdOKI_default (E : Ext R) (B : InvOp R) (hm : MmOKI E B) (hr : RmmOKI E B)
    (htd : B.td E = InvOp.tdDefault E B) : TdOKI E B := by
  unfold TdOKI
  rw [htd]
  unfold InvOp.tdDefault
  split
  · exact (hr B.rows eyeM).trans (eqOn_mmul_eyeM_left B.rows B.cols _)
  · exact (hm B.cols eyeM).trans (eqOn_mmul_eyeM_right B.rows B.cols _)

/-- a member as `to_dense` of the composite kinds sees it -/
def facTdI (E : Ext R) (M : InvOp R) : FacAct R := ⟨M.rows, M.cols, (M.td E).f, fun _ m => MatV.of m⟩

theorem facEqOnI_td (E : Ext R) (Ms : List (InvOp R)) (h : ∀ M ∈ Ms, TdOKI E M) :
    FacEqOn Ms (facTdI E) (facDenI E) := fun M hM => ⟨rfl, rfl, h M hM⟩

theorem tdOKI_kron (E : Ext R) (Ms : List (InvOp R)) (h : ∀ M ∈ Ms, TdOKI E M) :
    TdOKI E (.kron Ms) := by
  intro I J hI hJ
  simp only [InvOp.rows] at hI
  simp only [InvOp.cols] at hJ
  cases Ms with
  | nil =>
    simp only [List.map_nil, List.prod_nil] at hI hJ
    have hI0 : I = 0 := by omega
    have hJ0 : J = 0 := by omega
    subst hI0 hJ0
    rw [InvOp.td, InvOp.den]
    simp [kronDen, kronEntry, eyeM]
  | cons M0 Ms =>
    have hr : (((M0 :: Ms).map (facTdI E)).map (·.r)) = (M0 :: Ms).map (·.rows) := by
      rw [List.map_map]; rfl
    have hc : (((M0 :: Ms).map (facTdI E)).map (·.c)) = (M0 :: Ms).map (·.cols) := by
      rw [List.map_map]; rfl
    have hI' : I < (((M0 :: Ms).map (facTdI E)).map (·.r)).prod := by rw [hr]; exact hI
    have hJ' : J < (((M0 :: Ms).map (facTdI E)).map (·.c)).prod := by rw [hc]; exact hJ
    have key := kronDense_eq (facTdI E M0) (Ms.map (facTdI E)) I J hI' hJ'
    have hcg := kronDen_congr (facTdI E) (facDenI E) (M0 :: Ms) (facEqOnI_td E _ h) I J hI' hJ'
    rw [InvOp.td, InvOp.den]
    simp only [List.map_cons, forceV_f]
    exact key.trans hcg

theorem tdOKI_bdiag (E : Ext R) (Ms : List (InvOp R)) (mults : List Nat)
    (h : ∀ M ∈ Ms, TdOKI E M) : TdOKI E (.bdiag Ms mults) := by
  intro I J _ _
  have hcg := bdiagDen_congr (facTdI E) (facDenI E) Ms mults (facEqOnI_td E _ h) I J
  rw [InvOp.td, InvOp.den]
  simp only [forceV_f]
  exact hcg

/-! ## `.T` -/

theorem tdTOKI_default (E : Ext R) (B : InvOp R) (hr : RmmOKI E B) (htd : TdOKI E B)
    (hn : NodeHypI E B) (hT : B.tdT E = InvOp.tdTDefault E B) : TdTOKI E B := by
  unfold TdTOKI
  rw [hT]
  unfold InvOp.tdTDefault
  split
  · rename_i hs
    have hsym := hn.2 hs
    have hsq := (hn.1 (by simp only [Bool.and_eq_true] at hs; exact hs.1)).1
    intro i j hi hj
    simp only [transposeM]
    rw [htd i j (by rw [hsq]; exact hi) (by rw [← hsq]; exact hj)]
    exact hsym i j hi hj
  · rw [forceV_f]
    intro i j hi hj
    simp only [transposeM]
    rw [hr B.rows (transposeM eyeM) j i hj hi, mmul_apply]
    have := sum_ite_eq_mul B.rows j hj (1 : R) (fun q => (B.den E).f q i)
    simp only [one_mul] at this
    rw [← this]
    apply Finset.sum_congr rfl
    intro q _
    simp only [transposeM, eyeM]
    by_cases hqj : q = j
    · rw [if_pos hqj, if_pos hqj.symm]
    · rw [if_neg hqj, if_neg (Ne.symm hqj)]

/-! ## the recursion -/

theorem isa_nil_false (a : Ann) : AnnSet.isa [] a = false := rfl

theorem nodeHypI_of_no_anns (E : Ext R) (B : InvOp R) (h : B.anns = []) : NodeHypI E B := by
  constructor
  · intro hs; simp [InvOp.isa, h, isa_nil_false] at hs
  · intro hs; simp [InvOp.isa, h, isa_nil_false] at hs

structure AllOK (E : Ext R) (B : InvOp R) : Prop where
  mm : MmOKI E B
  rmm : RmmOKI E B
  td : TdOKI E B
  tdT : TdTOKI E B

theorem wellI_ok (E : Ext R) : ∀ (B : InvOp R), WellI E B → AllOK E B
  | .op X, h => by
    rw [WellI] at h
    obtain ⟨hg, hreal⟩ := h
    have hmr := Op.mm_rmm_ok X hg
    refine ⟨mmOKI_op E X hmr.1, ?_, ?_, ?_⟩
    · intro b Y
      simp only [InvOp.rows, InvOp.cols]
      rw [InvOp.rmm, InvOp.den]
      exact hmr.2 b Y
    · unfold TdOKI
      simp only [InvOp.rows, InvOp.cols]
      rw [InvOp.td, InvOp.den]
      exact Op.td_eq X hg.wf hg.nd hg.herm
    · unfold TdTOKI
      simp only [InvOp.rows, InvOp.cols]
      rw [InvOp.tdT, InvOp.den]
      have sp := Op.transposeRule_spec X hg hreal
      have ht := Op.td_eq _ sp.wf sp.nd sp.herm
      rw [sp.rows, sp.cols] at ht
      exact ht.trans sp.den
  | .triInv dt n lower a, h => by
    rw [WellI] at h
    have hm := mmOKI_triInv E dt n lower a h.1 h.2
    have hr := rmmOKI_triInv E dt n lower a h.1 h.2
    have htd := tdOKI_default E _ hm hr (by rw [InvOp.td])
    refine ⟨hm, hr, htd, tdTOKI_default E _ hr htd (nodeHypI_of_no_anns E _ (by simp [InvOp.anns])) ?_⟩
    rw [InvOp.tdT]
  | .iterInv A alg, h => by
    rw [WellI] at h
    have hm := mmOKI_iterInv E alg A h.1 h.2
    have hr : RmmOKI E (.iterInv A alg) := by
      intro b X
      simp only [InvOp.rows, InvOp.cols]
      rw [InvOp.rmm]
      refine defaultRmm_ok false A.rows A.cols _ _ ?_ (by simp) b X
      intro b' X'
      have := hm b' X'
      simp only [InvOp.rows, InvOp.cols] at this
      rw [InvOp.mm] at this
      exact this
    have htd := tdOKI_default E _ hm hr (by rw [InvOp.td])
    refine ⟨hm, hr, htd, tdTOKI_default E _ hr htd (nodeHypI_of_no_anns E _ (by simp [InvOp.anns])) ?_⟩
    rw [InvOp.tdT]
  | .prod Ms, h => by
    rw [WellI] at h
    obtain ⟨hn, hne, ⟨n, hsh⟩, hmem⟩ := h
    have ih : ∀ M ∈ Ms, AllOK E M := fun M hM => wellI_ok E M (hmem M hM)
    have hm := mmOKI_prod E n Ms hne hsh (fun M hM => (ih M hM).mm)
    have hr := rmmOKI_prod E n Ms hne hsh (fun M hM => (ih M hM).rmm)
    have htd := tdOKI_default E _ hm hr (by rw [InvOp.td])
    exact ⟨hm, hr, htd, tdTOKI_default E _ hr htd hn (by rw [InvOp.tdT])⟩
  | .kron Ms, h => by
    rw [WellI] at h
    obtain ⟨hn, hmem⟩ := h
    have ih : ∀ M ∈ Ms, AllOK E M := fun M hM => wellI_ok E M (hmem M hM)
    have hm := mmOKI_kron E Ms (fun M hM => (ih M hM).mm)
    have hr : RmmOKI E (.kron Ms) := by
      intro b X
      rw [InvOp.rmm]
      exact defaultRmm_ok _ _ _ _ _ hm hn.1 b X
    have htd := tdOKI_kron E Ms (fun M hM => (ih M hM).td)
    exact ⟨hm, hr, htd, tdTOKI_default E _ hr htd hn (by rw [InvOp.tdT])⟩
  | .bdiag Ms mults, h => by
    rw [WellI] at h
    obtain ⟨hn, hmem⟩ := h
    have ih : ∀ M ∈ Ms, AllOK E M := fun M hM => wellI_ok E M (hmem M hM)
    have hm := mmOKI_bdiag E Ms mults (fun M hM => (ih M hM).mm)
    have hr : RmmOKI E (.bdiag Ms mults) := by
      intro b X
      rw [InvOp.rmm]
      exact defaultRmm_ok _ _ _ _ _ hm hn.1 b X
    have htd := tdOKI_bdiag E Ms mults (fun M hM => (ih M hM).td)
    exact ⟨hm, hr, htd, tdTOKI_default E _ hr htd hn (by rw [InvOp.tdT])⟩
termination_by B => sizeOf B

end Inv
