import ColaVerif.Model.KernelOp
import ColaVerif.Lemmas.SmallKernels

/-!
# `Kernel._matmat`: the blocked product is the plain product

`blockRanges n bs` is a chain of consecutive blocks covering `[0, n)` (`blockRanges_cover`), so
the inner loop sums every column exactly once (`kernelUpdate_eq`) and the stacked row blocks put
row `I` of the product at row `I` of the output (`kernelMatmat_eq`).
-/

open Finset

variable {R : Type}

/-! ## chains of consecutive blocks -/

/-- `L` is a list of blocks `[lo₀, hi₀), [lo₁, hi₁), …` with `lo₀ = lo`, each `lo_t ≤ hi_t`,
`lo_{t+1} = hi_t`, and the last `hi` equal to `hi` (for `[]`: `lo = hi`) -/
def BlockChain : Nat → Nat → List (Nat × Nat) → Prop
  | lo, hi, [] => lo = hi
  | lo, hi, p :: rest => p.1 = lo ∧ p.1 ≤ p.2 ∧ BlockChain p.2 hi rest

theorem BlockChain.le {L : List (Nat × Nat)} {lo hi : Nat} (h : BlockChain lo hi L) :
    lo ≤ hi := by
  induction L generalizing lo with
  | nil => exact Nat.le_of_eq h
  | cons p rest ih =>
    obtain ⟨h1, h2, h3⟩ := h
    have := ih h3
    omega

theorem BlockChain.append {L₁ L₂ : List (Nat × Nat)} {a b c : Nat} (h₁ : BlockChain a b L₁)
    (h₂ : BlockChain b c L₂) : BlockChain a c (L₁ ++ L₂) := by
  induction L₁ generalizing a with
  | nil =>
    have : a = b := h₁
    subst this
    exact h₂
  | cons p rest ih =>
    obtain ⟨h1, h2, h3⟩ := h₁
    exact ⟨h1, h2, ih h3⟩

/-- the regular blocks `[0, bs), [bs, 2 bs), …, [(k-1) bs, k bs)` -/
theorem regBlocks_chain (k bs : Nat) :
    BlockChain 0 (k * bs) ((List.range k).map fun idx => (idx * bs, (idx + 1) * bs)) := by
  induction k with
  | zero => simp [BlockChain]
  | succ k ih =>
    rw [List.range_succ, List.map_append]
    refine ih.append ?_
    refine ⟨rfl, ?_, rfl⟩
    exact Nat.mul_le_mul_right bs (Nat.le_succ k)

/-- the loop's blocks for `iters = k + 1`: `k` regular blocks, then one running to the end -/
theorem blockList_split (k n bs : Nat) :
    ((List.range (k + 1)).map fun idx =>
        (idx * bs, if idx + 1 = k + 1 then n else (idx + 1) * bs))
      = ((List.range k).map fun idx => (idx * bs, (idx + 1) * bs)) ++ [(k * bs, n)] := by
  rw [List.range_succ, List.map_append]
  congr 1
  · apply List.map_congr_left
    intro idx h
    have := List.mem_range.mp h
    rw [if_neg (by omega)]
  · simp

theorem blockRanges_split (n bs : Nat) :
    blockRanges n bs
      = ((List.range (max 1 (n / bs) - 1)).map fun idx => (idx * bs, (idx + 1) * bs))
          ++ [((max 1 (n / bs) - 1) * bs, n)] := by
  obtain ⟨k, hk⟩ : ∃ k, max 1 (n / bs) = k + 1 := ⟨max 1 (n / bs) - 1, by omega⟩
  unfold blockRanges
  simp only [hk, Nat.add_sub_cancel]
  exact blockList_split k n bs

theorem lastBlock_start_le (n bs : Nat) : (max 1 (n / bs) - 1) * bs ≤ n := by
  have h1 : max 1 (n / bs) - 1 ≤ n / bs := by
    generalize n / bs = d
    omega
  exact Nat.le_trans (Nat.mul_le_mul_right bs h1) (Nat.div_mul_le_self n bs)

/-- **the blocks are consecutive and cover `[0, n)`** -/
theorem blockRanges_cover (n bs : Nat) (_h : 0 < bs) : BlockChain 0 n (blockRanges n bs) := by
  rw [blockRanges_split]
  refine (regBlocks_chain _ bs).append ?_
  exact ⟨rfl, lastBlock_start_le n bs, rfl⟩

/-! ## sums and stacks over a chain -/

/-- summing block by block over a chain is summing over `[lo, hi)` -/
theorem BlockChain.sum_blocks [AddCommMonoid R] {L : List (Nat × Nat)} {lo hi : Nat}
    (h : BlockChain lo hi L) (g : Nat → R) :
    (L.map fun p => ∑ q ∈ range (p.2 - p.1), g (p.1 + q)).sum
      = ∑ q ∈ range (hi - lo), g (lo + q) := by
  induction L generalizing lo with
  | nil =>
    have : lo = hi := h
    subst this
    simp
  | cons p rest ih =>
    obtain ⟨a, b⟩ := p
    obtain ⟨h1, h2, h3⟩ := h
    simp only at h1 h2 h3
    subst h1
    have hle := h3.le
    rw [List.map_cons, List.sum_cons, ih h3]
    have hsplit : hi - a = (b - a) + (hi - b) := by omega
    rw [hsplit, Finset.sum_range_add]
    congr 1
    apply Finset.sum_congr rfl
    intro q _
    congr 1
    omega

/-- the blocks' lengths add up to `hi - lo` -/
theorem BlockChain.sum_lengths {L : List (Nat × Nat)} {lo hi : Nat} (h : BlockChain lo hi L) :
    (L.map fun p => p.2 - p.1).sum = hi - lo := by
  have := h.sum_blocks (fun _ => (1 : Nat))
  simpa using this

/-- **cover, sum form**: every index below `n` is visited exactly once -/
theorem blockRanges_sum [AddCommMonoid R] (n bs : Nat) (h : 0 < bs) (g : Nat → R) :
    ((blockRanges n bs).map fun p => ∑ q ∈ range (p.2 - p.1), g (p.1 + q)).sum
      = ∑ q ∈ range n, g q := by
  rw [(blockRanges_cover n bs h).sum_blocks g, Nat.sub_zero]
  apply Finset.sum_congr rfl
  intro q _
  rw [Nat.zero_add]

theorem blockRanges_sum_lengths (n bs : Nat) (h : 0 < bs) :
    ((blockRanges n bs).map fun p => p.2 - p.1).sum = n := by
  rw [(blockRanges_cover n bs h).sum_lengths, Nat.sub_zero]

/-- stacking the row windows `G[lo_t : hi_t]` of a chain gives the window `G[lo : hi]` -/
theorem BlockChain.vstack_rows [Zero R] {L : List (Nat × Nat)} {lo hi : Nat}
    (h : BlockChain lo hi L) (G : MatF R) (I j : Nat) (hI : I < hi - lo) :
    vstack (L.map fun p => (p.2 - p.1, fun i j => G (p.1 + i) j)) I j = G (lo + I) j := by
  induction L generalizing lo I with
  | nil =>
    have : lo = hi := h
    omega
  | cons p rest ih =>
    obtain ⟨a, b⟩ := p
    obtain ⟨h1, h2, h3⟩ := h
    simp only at h1 h2 h3
    subst h1
    have hle := h3.le
    rw [List.map_cons, vstack_cons]
    by_cases hlt : I < b - a
    · rw [if_pos hlt]
    · rw [if_neg hlt, ih h3 (I - (b - a)) (by omega)]
      congr 1
      omega

/-! ## the kernel product -/

/-- **inner loop**: the column blocks sum every column once -/
theorem kernelUpdate_eq [Semiring R] (K : MatF R) (lo1 m bs2 : Nat) (h2 : 0 < bs2) (V : MatF R)
    (i j : Nat) :
    kernelUpdate K lo1 (blockRanges m bs2) V i j = ∑ q ∈ range m, K (lo1 + i) q * V q j := by
  unfold kernelUpdate
  simp only [sumTo_eq]
  exact blockRanges_sum m bs2 h2 (fun q => K (lo1 + i) q * V q j)

/-- **`Kernel._matmat` computes `K @ V`** -/
theorem kernelMatmat_eq [CommSemiring R] (K : MatF R) (n m bs1 bs2 : Nat) (h1 : 0 < bs1)
    (h2 : 0 < bs2) (V : MatF R) (I j : Nat) (hI : I < n) :
    (kernelMatmat K n m bs1 bs2 V).f I j = ∑ q ∈ range m, K I q * V q j := by
  unfold kernelMatmat
  simp only [MatV.of_f]
  have hfun : (fun p : Nat × Nat => (p.2 - p.1, kernelUpdate K p.1 (blockRanges m bs2) V))
      = fun p : Nat × Nat =>
          (p.2 - p.1, fun i j => (fun I j => ∑ q ∈ range m, K I q * V q j) (p.1 + i) j) := by
    funext p
    congr 1
    funext i j
    exact kernelUpdate_eq K p.1 m bs2 h2 V i j
  rw [hfun, (blockRanges_cover n bs1 h1).vstack_rows
    (fun I j => ∑ q ∈ range m, K I q * V q j) I j (by omega), Nat.zero_add]

#print axioms blockRanges_cover
#print axioms kernelUpdate_eq
#print axioms kernelMatmat_eq
