import Mathlib.Analysis.InnerProductSpace.PiL2
import Mathlib.Analysis.Matrix.Hermitian
import Mathlib.LinearAlgebra.Matrix.PosDef
import Mathlib.Algebra.BigOperators.Fin
import ColaVerif.Lemmas.CGGuarded
import ColaVerif.Lemmas.CGLoop

/-!
# Bridge: the array model over exact real/complex arithmetic ↔ the abstract recurrence

`rcOps 𝕜` is the `NumOps` instance induced by `RCLike 𝕜` (ℝ, ℂ): the model text of
`Model/CG.lean`, read in exact arithmetic.  With `E := EuclideanSpace 𝕜 (Fin n)`, vectors
`toVec v = Array.ofFn v`, matrices `matArr A` (array of rows) and operators
`Matrix.toEuclideanLin A`:

* every vector primitive of the model is the corresponding operation of `E`
  (`vadd_toVec`, `dotc_toVec`, `norm_toVec`, `matVec_toVec`, …);
* `stepCol_toCol`, `initCol_toCol` — bridge level 0 → 1: one model step on a column is `gStep`;
* `run_x_eq_gRun` — column `j` of the value returned by `runBatchedCG` is `gRun … (B j) (X0 j) steps`.
-/

namespace CG

/-- `_small_value = 1e-40` -/
noncomputable def smallR : ℝ := 1 / 10 ^ 40

theorem smallR_pos : 0 < smallR := by unfold smallR; positivity

/-- the model's operations in exact arithmetic -/
@[reducible] noncomputable def rcOps (𝕜 : Type) [RCLike 𝕜] : NumOps 𝕜 where
  zero := 0
  add := (· + ·)
  sub := (· - ·)
  mul := (· * ·)
  div := (· / ·)
  conj := starRingEnd 𝕜
  abs a := ((‖a‖ : ℝ) : 𝕜)
  sqrt a := ((Real.sqrt (RCLike.re a) : ℝ) : 𝕜)
  lt a b := @decide (RCLike.re a < RCLike.re b) (Classical.propDecidable _)
  small := ((smallR : ℝ) : 𝕜)
  ofNat n := (n : 𝕜)
  one := 1
  isZero a := @decide (a = 0) (Classical.propDecidable _)

attribute [local instance] rcOps

open scoped InnerProductSpace ComplexConjugate
open WithLp

variable {𝕜 : Type} [RCLike 𝕜]

/-! ## arrays built with `Array.ofFn` -/

theorem zipWith_ofFn {α β γ : Type} {n : ℕ} (f : α → β → γ) (g : Fin n → α) (h : Fin n → β) :
    Array.zipWith f (Array.ofFn g) (Array.ofFn h) = Array.ofFn (fun i => f (g i) (h i)) := by
  apply Array.ext
  · simp
  · intro i h1 h2
    simp

theorem vsum_ofFn {n : ℕ} (g : Fin n → 𝕜) : vsum (Array.ofFn g) = ∑ i, g i := by
  unfold vsum
  rw [← Array.foldl_toList, Array.toList_ofFn, ← List.sum_ofFn]
  show List.foldl (· + ·) 0 (List.ofFn g) = _
  rw [List.sum_eq_foldl]

/-! ## vectors and matrices -/

variable {n : ℕ}

/-- a vector of `EuclideanSpace 𝕜 (Fin n)` as the model's array -/
def toVec (v : EuclideanSpace 𝕜 (Fin n)) : Vec 𝕜 := Array.ofFn (fun i => ofLp v i)

/-- a matrix as the model's array of rows -/
def matArr (A : Matrix (Fin n) (Fin n) 𝕜) : Mat 𝕜 := Array.ofFn (fun i => Array.ofFn (A i))

omit [RCLike 𝕜] in
theorem toVec_injective : Function.Injective (toVec (𝕜 := 𝕜) (n := n)) := by
  intro u v h
  unfold toVec at h
  have h' := congrArg Array.toList h
  rw [Array.toList_ofFn, Array.toList_ofFn, List.ofFn_inj] at h'
  exact ofLp_injective 2 h'

theorem vadd_toVec (u v : EuclideanSpace 𝕜 (Fin n)) : vadd (toVec u) (toVec v) = toVec (u + v) := by
  unfold vadd toVec; rw [zipWith_ofFn]; rfl

theorem vsub_toVec (u v : EuclideanSpace 𝕜 (Fin n)) : vsub (toVec u) (toVec v) = toVec (u - v) := by
  unfold vsub toVec; rw [zipWith_ofFn]; rfl

theorem smul_toVec (a : 𝕜) (v : EuclideanSpace 𝕜 (Fin n)) : smul a (toVec v) = toVec (a • v) := by
  unfold smul toVec; rw [Array.map_ofFn]; rfl

theorem scaleR_toVec (v : EuclideanSpace 𝕜 (Fin n)) (a : 𝕜) : scaleR (toVec v) a = toVec (a • v) := by
  unfold scaleR toVec; rw [Array.map_ofFn]
  congr 1; funext i
  show ofLp v i * a = a * ofLp v i
  exact mul_comm _ _

theorem dotc_toVec (u v : EuclideanSpace 𝕜 (Fin n)) : dotc (toVec u) (toVec v) = ⟪u, v⟫_𝕜 := by
  unfold dotc toVec
  rw [zipWith_ofFn, vsum_ofFn, EuclideanSpace.inner_eq_star_dotProduct]
  unfold dotProduct
  refine Finset.sum_congr rfl (fun i _ => ?_)
  show conj (ofLp u i) * ofLp v i = ofLp v i * star (ofLp u i)
  rw [mul_comm]; rfl

theorem norm_toVec (v : EuclideanSpace 𝕜 (Fin n)) : norm (toVec v) = ((‖v‖ : ℝ) : 𝕜) := by
  unfold norm
  rw [dotc_toVec]
  show ((Real.sqrt (RCLike.re ⟪v, v⟫_𝕜) : ℝ) : 𝕜) = _
  rw [← norm_eq_sqrt_re_inner]

theorem matVec_toVec (A : Matrix (Fin n) (Fin n) 𝕜) (v : EuclideanSpace 𝕜 (Fin n)) :
    matVec (matArr A) (toVec v) = toVec (Matrix.toEuclideanLin A v) := by
  unfold matVec matArr
  rw [Array.map_ofFn]
  unfold toVec
  congr 1; funext i
  show dot (Array.ofFn (A i)) (Array.ofFn fun j => ofLp v j) = _
  unfold dot
  rw [zipWith_ofFn, vsum_ofFn]
  rfl

/-! ## scalars: guards and comparisons -/

theorem lt_small_norm (v : EuclideanSpace 𝕜 (Fin n)) :
    (NumOps.lt (norm (toVec v)) (NumOps.small : 𝕜) = true) ↔ ‖v‖ < smallR := by
  rw [norm_toVec]
  show @decide (RCLike.re ((‖v‖ : ℝ) : 𝕜) < RCLike.re ((smallR : ℝ) : 𝕜)) (Classical.propDecidable _)
    = true ↔ _
  rw [decide_eq_true_iff, RCLike.ofReal_re, RCLike.ofReal_re]

theorem lt_small_abs (d : 𝕜) :
    (NumOps.lt (NumOps.abs d) (NumOps.small : 𝕜) = true) ↔ ‖d‖ < smallR := by
  show @decide (RCLike.re ((‖d‖ : ℝ) : 𝕜) < RCLike.re ((smallR : ℝ) : 𝕜)) (Classical.propDecidable _)
    = true ↔ _
  rw [decide_eq_true_iff, RCLike.ofReal_re, RCLike.ofReal_re]

theorem isZero_iff (d : 𝕜) : (NumOps.isZero d = true) ↔ d = 0 := by
  show @decide (d = 0) (Classical.propDecidable _) = true ↔ _
  exact @decide_eq_true_iff _ (Classical.propDecidable _)

theorem safeDiv_eq (a d : 𝕜) : safeDiv a d = sdiv smallR a d := by
  unfold safeDiv sdiv
  by_cases h : d = 0
  · rw [if_pos ((isZero_iff d).mpr h), if_pos h]; rfl
  · rw [if_neg (fun h' => h ((isZero_iff d).mp h')), if_neg h]; rfl

/-! ## bridge level 0 → 1: one column -/

/-- a column state of the abstract guarded recurrence as the model's column record -/
def toCol (s : GState 𝕜 (EuclideanSpace 𝕜 (Fin n))) : Col 𝕜 :=
  { x := toVec s.x, r := toVec s.r, p := toVec s.p, alpha := s.α, beta := s.β, gamma := s.γ }

/-- the preconditioner as an operator: `None` is the identity -/
noncomputable def precLin (P : Option (Matrix (Fin n) (Fin n) 𝕜)) :
    EuclideanSpace 𝕜 (Fin n) →ₗ[𝕜] EuclideanSpace 𝕜 (Fin n) :=
  match P with
  | none => LinearMap.id
  | some M => Matrix.toEuclideanLin M

theorem applyP_toVec (P : Option (Matrix (Fin n) (Fin n) 𝕜)) (v : EuclideanSpace 𝕜 (Fin n)) :
    applyP (P.map matArr) (toVec v) = toVec (precLin P v) := by
  cases P with
  | none => rfl
  | some M => exact matVec_toVec M v

theorem initCol_toCol (A : Matrix (Fin n) (Fin n) 𝕜) (P : Option (Matrix (Fin n) (Fin n) 𝕜))
    (b x0 : EuclideanSpace 𝕜 (Fin n)) :
    initCol (matArr A) (P.map matArr) (toVec b) (toVec x0) =
      toCol (gInit (Matrix.toEuclideanLin A) (precLin P) b x0) := by
  unfold initCol gInit toCol
  simp only [matVec_toVec, vsub_toVec, applyP_toVec, dotc_toVec]
  rfl

theorem stepCol_toCol (A : Matrix (Fin n) (Fin n) 𝕜) (P : Option (Matrix (Fin n) (Fin n) 𝕜))
    (s : GState 𝕜 (EuclideanSpace 𝕜 (Fin n))) :
    stepCol (matArr A) (P.map matArr) (toCol s) =
      toCol (gStep (Matrix.toEuclideanLin A) (precLin P) smallR s) := by
  unfold stepCol gStep toCol
  by_cases h : ‖s.r‖ < smallR
  · have h' := (lt_small_norm s.r).mpr h
    simp only [h', if_pos h, if_true, matVec_toVec, smul_toVec, vadd_toVec, vsub_toVec,
      applyP_toVec, dotc_toVec]
    rfl
  · have h' : ¬ (NumOps.lt (norm (toVec s.r)) (NumOps.small : 𝕜) = true) :=
      fun h' => h ((lt_small_norm s.r).mp h')
    simp only [h', if_neg h, if_false, Bool.false_eq_true, matVec_toVec, smul_toVec, vadd_toVec,
      vsub_toVec, applyP_toVec, dotc_toVec, safeDiv_eq]

theorem stepCol_iter_toCol (A : Matrix (Fin n) (Fin n) 𝕜) (P : Option (Matrix (Fin n) (Fin n) 𝕜))
    (s : GState 𝕜 (EuclideanSpace 𝕜 (Fin n))) (t : ℕ) :
    (stepCol (matArr A) (P.map matArr))^[t] (toCol s) =
      toCol ((gStep (Matrix.toEuclideanLin A) (precLin P) smallR)^[t] s) := by
  induction t with
  | zero => rfl
  | succ t ih => rw [Function.iterate_succ_apply', Function.iterate_succ_apply', ih, stepCol_toCol]

/-! ## the batched run -/

variable {m : ℕ}

/-- an `n × m` block as the model's array of columns -/
def colsArr (B : Fin m → EuclideanSpace 𝕜 (Fin n)) : Array (Vec 𝕜) := Array.ofFn (fun j => toVec (B j))

/-- the divisor of the normalisation of column `b` -/
noncomputable abbrev normDen (b : EuclideanSpace 𝕜 (Fin n)) : 𝕜 := nscale b

theorem mults_colsArr (B : Fin m → EuclideanSpace 𝕜 (Fin n)) :
    mults (colsArr B) = Array.ofFn (fun j => (((‖B j‖ : ℝ) : 𝕜))) := by
  unfold mults colsArr
  rw [Array.map_ofFn]
  congr 1; funext j
  exact norm_toVec (B j)

theorem scaleOf_norm (b : EuclideanSpace 𝕜 (Fin n)) :
    scaleOf (((‖b‖ : ℝ) : 𝕜)) = normDen b := by
  show (if NumOps.isZero (((‖b‖ : ℝ) : 𝕜)) = true then (1 : 𝕜) else ((‖b‖ : ℝ) : 𝕜)) =
    (if (((‖b‖ : ℝ) : 𝕜)) = 0 then (1 : 𝕜) else ((‖b‖ : ℝ) : 𝕜))
  have hz : (NumOps.isZero (((‖b‖ : ℝ) : 𝕜)) = true) ↔ (((‖b‖ : ℝ) : 𝕜)) = 0 := by
    show @decide ((((‖b‖ : ℝ) : 𝕜)) = 0) (Classical.propDecidable _) = true ↔ _
    exact @decide_eq_true_iff _ (Classical.propDecidable _)
  by_cases h : (((‖b‖ : ℝ) : 𝕜)) = 0
  · rw [if_pos h, if_pos (hz.mpr h)]
  · rw [if_neg h, if_neg (fun h' => h (hz.mp h'))]

theorem vdiv_toVec (v : EuclideanSpace 𝕜 (Fin n)) (d : 𝕜) : vdiv (toVec v) d = toVec (d⁻¹ • v) := by
  unfold vdiv toVec
  rw [Array.map_ofFn]
  congr 1; funext i
  show ofLp v i / d = d⁻¹ * ofLp v i
  rw [div_eq_inv_mul]

theorem initState_colsArr (A : Matrix (Fin n) (Fin n) 𝕜) (P : Option (Matrix (Fin n) (Fin n) 𝕜))
    (B X0 : Fin m → EuclideanSpace 𝕜 (Fin n)) :
    (initState (matArr A) (P.map matArr) (colsArr B) (colsArr X0)).cols =
      Array.ofFn (fun j => toCol (gInit (Matrix.toEuclideanLin A) (precLin P)
        ((normDen (B j))⁻¹ • B j) ((normDen (B j))⁻¹ • X0 j))) := by
  unfold initState
  simp only []
  rw [mults_colsArr, Array.map_ofFn]
  unfold colsArr
  rw [zipWith_ofFn, zipWith_ofFn, zipWith_ofFn]
  congr 1; funext j
  show initCol _ _ (vdiv _ (scaleOf (((‖B j‖ : ℝ) : 𝕜)))) (vdiv _ (scaleOf (((‖B j‖ : ℝ) : 𝕜)))) = _
  rw [scaleOf_norm, vdiv_toVec, vdiv_toVec, initCol_toCol]

/-- **bridge level 0 → 1, batched**: column `j` of the value returned by `run_batched_cg` is the
guarded, normalised single-column run `gRun` with the number of steps the batched loop made -/
theorem run_x_eq_gRun (A : Matrix (Fin n) (Fin n) 𝕜) (P : Option (Matrix (Fin n) (Fin n) 𝕜))
    (B X0 : Fin m → EuclideanSpace 𝕜 (Fin n)) (maxIters : ℕ) (tol : 𝕜) :
    (runBatchedCG (matArr A) (colsArr B) (colsArr X0) maxIters tol (P.map matArr)).x =
      Array.ofFn (fun j => toVec (gRun (Matrix.toEuclideanLin A) (precLin P) smallR (B j) (X0 j)
        (runSteps (matArr A) (P.map matArr) (colsArr B) (colsArr X0) maxIters tol))) := by
  rw [run_x, initState_colsArr, mults_colsArr, Array.map_ofFn, Array.map_ofFn, zipWith_ofFn]
  congr 1; funext j
  show scaleR ((stepCol (matArr A) (P.map matArr))^[_] (toCol _)).x _ = _
  rw [stepCol_iter_toCol]
  show scaleR (toVec _) _ = _
  rw [scaleR_toVec]
  rfl

/-! ## positive definite matrices as positive definite operators -/

open scoped ComplexOrder

theorem isSymmetric_toEuclideanLin {A : Matrix (Fin n) (Fin n) 𝕜} (hA : A.PosDef) :
    (Matrix.toEuclideanLin A).IsSymmetric :=
  Matrix.isSymmetric_toEuclideanLin_iff.mpr hA.isHermitian

theorem posDefOp_toEuclideanLin {A : Matrix (Fin n) (Fin n) 𝕜} (hA : A.PosDef) :
    PosDefOp (Matrix.toEuclideanLin A) := by
  intro v hv
  have hx : ofLp v ≠ 0 := fun h => hv (ofLp_injective 2 (by rw [h]; rfl))
  have h := (RCLike.pos_iff.mp (hA.dotProduct_mulVec_pos hx)).1
  rw [EuclideanSpace.inner_eq_star_dotProduct, dotProduct_comm]
  exact h

/-- all preconditioners considered: `None` or a positive definite matrix -/
def PrecPosDef (P : Option (Matrix (Fin n) (Fin n) 𝕜)) : Prop := ∀ M, P = some M → M.PosDef

theorem isSymmetric_precLin {P : Option (Matrix (Fin n) (Fin n) 𝕜)} (hP : PrecPosDef P) :
    (precLin P).IsSymmetric := by
  cases P with
  | none => intro u v; rfl
  | some M => exact isSymmetric_toEuclideanLin (hP M rfl)

theorem posDefOp_precLin {P : Option (Matrix (Fin n) (Fin n) 𝕜)} (hP : PrecPosDef P) :
    PosDefOp (precLin P) := by
  cases P with
  | none =>
    intro v hv
    show 0 < RCLike.re ⟪v, v⟫_𝕜
    rw [inner_self_eq_norm_sq_to_K]
    have : 0 < ‖v‖ := norm_pos_iff.mpr hv
    norm_cast
    positivity
  | some M => exact posDefOp_toEuclideanLin (hP M rfl)

/-! ## the property statements on the array model -/

/-- value returned for column `j`, as a vector of `EuclideanSpace 𝕜 (Fin n)` -/
noncomputable def xOut (A : Matrix (Fin n) (Fin n) 𝕜) (P : Option (Matrix (Fin n) (Fin n) 𝕜))
    (B X0 : Fin m → EuclideanSpace 𝕜 (Fin n)) (maxIters : ℕ) (tol : 𝕜) (j : Fin m) :
    EuclideanSpace 𝕜 (Fin n) :=
  gRun (Matrix.toEuclideanLin A) (precLin P) smallR (B j) (X0 j)
    (runSteps (matArr A) (P.map matArr) (colsArr B) (colsArr X0) maxIters tol)

theorem run_x_eq_xOut (A : Matrix (Fin n) (Fin n) 𝕜) (P : Option (Matrix (Fin n) (Fin n) 𝕜))
    (B X0 : Fin m → EuclideanSpace 𝕜 (Fin n)) (maxIters : ℕ) (tol : 𝕜) :
    (runBatchedCG (matArr A) (colsArr B) (colsArr X0) maxIters tol (P.map matArr)).x =
      colsArr (xOut A P B X0 maxIters tol) :=
  run_x_eq_gRun A P B X0 maxIters tol

/-- **zero right-hand side**: the returned column is exactly zero (any `x0`, any other columns) -/
theorem xOut_zero (A : Matrix (Fin n) (Fin n) 𝕜) (P : Option (Matrix (Fin n) (Fin n) 𝕜))
    (B X0 : Fin m → EuclideanSpace 𝕜 (Fin n)) (maxIters : ℕ) (tol : 𝕜) (j : Fin m)
    (hb : B j = 0) : xOut A P B X0 maxIters tol j = 0 := by
  unfold xOut; rw [hb]; exact gRun_zero _ _ _

/-- **Krylov optimality of the model**: `A` and the preconditioner Hermitian positive definite,
column `j` with `b_j ≠ 0` and no guard active during the steps the loop made ⇒ the returned
column lies in `x0 + K_k(MA, M r0)`, minimises the energy over it, and is the only minimiser. -/
theorem xOut_optimal {A : Matrix (Fin n) (Fin n) 𝕜} (hA : A.PosDef)
    {P : Option (Matrix (Fin n) (Fin n) 𝕜)} (hP : PrecPosDef P)
    (B X0 : Fin m → EuclideanSpace 𝕜 (Fin n)) (maxIters : ℕ) (tol : 𝕜) (j : Fin m)
    (hb : B j ≠ 0)
    (hg : GuardsOffN (Matrix.toEuclideanLin A) (precLin P) smallR (B j) (X0 j)
      (runSteps (matArr A) (P.map matArr) (colsArr B) (colsArr X0) maxIters tol))
    {xs : EuclideanSpace 𝕜 (Fin n)} (hxs : Matrix.toEuclideanLin A xs = B j) :
    let k := runSteps (matArr A) (P.map matArr) (colsArr B) (colsArr X0) maxIters tol
    let Kry := krylov (precLin P ∘ₗ Matrix.toEuclideanLin A)
      (precLin P (B j - Matrix.toEuclideanLin A (X0 j))) k
    xOut A P B X0 maxIters tol j - X0 j ∈ Kry ∧
    (∀ y, y - X0 j ∈ Kry →
      energy (Matrix.toEuclideanLin A) xs (xOut A P B X0 maxIters tol j) ≤
        energy (Matrix.toEuclideanLin A) xs y) ∧
    (∀ y, y - X0 j ∈ Kry →
      energy (Matrix.toEuclideanLin A) xs y ≤
        energy (Matrix.toEuclideanLin A) xs (xOut A P B X0 maxIters tol j) →
      y = xOut A P B X0 maxIters tol j) :=
  gRun_optimal (isSymmetric_toEuclideanLin hA) (isSymmetric_precLin hP) (posDefOp_toEuclideanLin hA)
    (posDefOp_precLin hP) smallR_pos hb hg hxs

/-! ## the stopping rule in exact arithmetic -/

/-- the guarded state of column `j` after `i` steps of the (normalised) loop -/
noncomputable def colState (A : Matrix (Fin n) (Fin n) 𝕜) (P : Option (Matrix (Fin n) (Fin n) 𝕜))
    (B X0 : Fin m → EuclideanSpace 𝕜 (Fin n)) (j : Fin m) (i : ℕ) :
    GState 𝕜 (EuclideanSpace 𝕜 (Fin n)) :=
  (gStep (Matrix.toEuclideanLin A) (precLin P) smallR)^[i]
    (gInit (Matrix.toEuclideanLin A) (precLin P) ((normDen (B j))⁻¹ • B j) ((normDen (B j))⁻¹ • X0 j))

theorem stateAt_cols (A : Matrix (Fin n) (Fin n) 𝕜) (P : Option (Matrix (Fin n) (Fin n) 𝕜))
    (B X0 : Fin m → EuclideanSpace 𝕜 (Fin n)) (i : ℕ) :
    (stateAt (matArr A) (P.map matArr) (colsArr B) (colsArr X0) i).cols =
      Array.ofFn (fun j => toCol (colState A P B X0 j i)) := by
  unfold stateAt
  rw [step_iter_cols, initState_colsArr, Array.map_ofFn]
  congr 1; funext j
  exact stepCol_iter_toCol A P _ i

/-- `tol * ‖r0‖ + tol` of column `j` (a real number) -/
noncomputable def tolEffR (A : Matrix (Fin n) (Fin n) 𝕜) (P : Option (Matrix (Fin n) (Fin n) 𝕜))
    (B X0 : Fin m → EuclideanSpace 𝕜 (Fin n)) (tol : ℝ) (j : Fin m) : ℝ :=
  tol * ‖(colState A P B X0 j 0).r‖ + tol

theorem tolEffs_colsArr (A : Matrix (Fin n) (Fin n) 𝕜) (P : Option (Matrix (Fin n) (Fin n) 𝕜))
    (B X0 : Fin m → EuclideanSpace 𝕜 (Fin n)) (tol : ℝ) :
    tolEffs ((tol : ℝ) : 𝕜) (initState (matArr A) (P.map matArr) (colsArr B) (colsArr X0)) =
      Array.ofFn (fun j => (((tolEffR A P B X0 tol j : ℝ)) : 𝕜)) := by
  unfold tolEffs
  rw [initState_colsArr, Array.map_ofFn]
  congr 1; funext j
  show ((tol : ℝ) : 𝕜) * norm (toVec _) + ((tol : ℝ) : 𝕜) = _
  rw [norm_toVec]
  unfold tolEffR colState
  push_cast
  rfl

/-- `any(rs > tol)` in exact arithmetic -/
theorem anyAbove_iff (A : Matrix (Fin n) (Fin n) 𝕜) (P : Option (Matrix (Fin n) (Fin n) 𝕜))
    (B X0 : Fin m → EuclideanSpace 𝕜 (Fin n)) (tol : ℝ) (i : ℕ) :
    anyAbove
      (tolEffs ((tol : ℝ) : 𝕜) (initState (matArr A) (P.map matArr) (colsArr B) (colsArr X0)))
      (stateAt (matArr A) (P.map matArr) (colsArr B) (colsArr X0) i).cols = true ↔
    ∃ j : Fin m, tolEffR A P B X0 tol j < ‖(colState A P B X0 j i).r‖ := by
  rw [tolEffs_colsArr, stateAt_cols]
  unfold anyAbove
  rw [zipWith_ofFn, Array.any_eq_true']
  constructor
  · rintro ⟨x, hx, hp⟩
    obtain ⟨j, rfl⟩ := Array.mem_ofFn.mp hx
    refine ⟨j, ?_⟩
    have hp' : above (((tolEffR A P B X0 tol j : ℝ)) : 𝕜) (toCol (colState A P B X0 j i)) = true := hp
    unfold above at hp'
    rw [show (toCol (colState A P B X0 j i)).r = toVec (colState A P B X0 j i).r from rfl,
      norm_toVec] at hp'
    have := of_decide_eq_true hp'
    rwa [RCLike.ofReal_re, RCLike.ofReal_re] at this
  · rintro ⟨j, hj⟩
    refine ⟨_, Array.mem_ofFn.mpr ⟨j, rfl⟩, ?_⟩
    show above (((tolEffR A P B X0 tol j : ℝ)) : 𝕜) (toCol (colState A P B X0 j i)) = true
    unfold above
    rw [show (toCol (colState A P B X0 j i)).r = toVec (colState A P B X0 j i).r from rfl,
      norm_toVec]
    apply decide_eq_true
    rwa [RCLike.ofReal_re, RCLike.ofReal_re]

/-- **stopping rule, exact arithmetic**: with `t` the number of steps made,
`t = max_iters` or every column's residual is at most its effective tolerance; and before every
step some column was strictly above its effective tolerance -/
theorem run_stop_exact (A : Matrix (Fin n) (Fin n) 𝕜) (P : Option (Matrix (Fin n) (Fin n) 𝕜))
    (B X0 : Fin m → EuclideanSpace 𝕜 (Fin n)) (maxIters : ℕ) (tol : ℝ) :
    let t := runSteps (matArr A) (P.map matArr) (colsArr B) (colsArr X0) maxIters ((tol : ℝ) : 𝕜)
    (t = maxIters ∨ ∀ j : Fin m, ‖(colState A P B X0 j t).r‖ ≤ tolEffR A P B X0 tol j) ∧
    ∀ i < t, ∃ j : Fin m, tolEffR A P B X0 tol j < ‖(colState A P B X0 j i).r‖ := by
  intro t
  obtain ⟨h1, h2⟩ := run_stop (matArr A) (P.map matArr) (colsArr B) (colsArr X0) maxIters
    ((tol : ℝ) : 𝕜)
  constructor
  · rcases h1 with h | h
    · exact Or.inl h
    · right
      intro j
      by_contra hlt
      have : anyAbove
          (tolEffs ((tol : ℝ) : 𝕜) (initState (matArr A) (P.map matArr) (colsArr B) (colsArr X0)))
          (stateAt (matArr A) (P.map matArr) (colsArr B) (colsArr X0) t).cols = true :=
        (anyAbove_iff A P B X0 tol t).mpr ⟨j, not_le.mp hlt⟩
      rw [h] at this
      exact Bool.false_ne_true this
  · intro i hi
    exact (anyAbove_iff A P B X0 tol i).mp (h2 i hi)

/-! ## scaling with `b` (`x0 = None`) -/

omit [RCLike 𝕜] in
theorem State.ext' {s t : State 𝕜} (h1 : s.cols = t.cols) (h2 : s.k = t.k) : s = t := by
  cases s; cases t; simp_all

/-- the zero block -/
def zeroCols (𝕜 : Type) [RCLike 𝕜] (n m : ℕ) : Fin m → EuclideanSpace 𝕜 (Fin n) := fun _ => 0

/-- `zeros_like(rhs)` -/
theorem zeros_colsArr (B : Fin m → EuclideanSpace 𝕜 (Fin n)) :
    (colsArr B).map (fun c => c.map (fun _ => (NumOps.zero : 𝕜))) =
      colsArr (zeroCols 𝕜 n m) := by
  unfold colsArr
  rw [Array.map_ofFn]
  congr 1; funext j
  show (toVec (B j)).map _ = toVec 0
  unfold toVec
  rw [Array.map_ofFn]
  rfl

theorem cg_none_eq (A : Matrix (Fin n) (Fin n) 𝕜) (P : Option (Matrix (Fin n) (Fin n) 𝕜))
    (B : Fin m → EuclideanSpace 𝕜 (Fin n)) (maxIters : ℕ) (tol : 𝕜) :
    cg (matArr A) (colsArr B) none (P.map matArr) tol maxIters =
      runBatchedCG (matArr A) (colsArr B) (colsArr (zeroCols 𝕜 n m)) maxIters tol (P.map matArr) := by
  unfold cg
  simp only []
  rw [zeros_colsArr]

theorem initState_scale (A : Matrix (Fin n) (Fin n) 𝕜) (P : Option (Matrix (Fin n) (Fin n) 𝕜))
    (B : Fin m → EuclideanSpace 𝕜 (Fin n)) {c : ℝ} (hc : 0 < c) :
    initState (matArr A) (P.map matArr) (colsArr (fun j => (c : 𝕜) • B j)) (colsArr (zeroCols 𝕜 n m)) =
      initState (matArr A) (P.map matArr) (colsArr B) (colsArr (zeroCols 𝕜 n m)) := by
  refine State.ext' ?_ (by rw [initState_k, initState_k])
  rw [initState_colsArr, initState_colsArr]
  congr 1; funext j
  unfold zeroCols
  rw [nscale_smul hc (B j), smul_zero, smul_zero]

/-- **scaling**: `x0 = None`, `c > 0`: the run on `c • b` makes the same steps, reports the same
`info`, and returns `c` times the solution. -/
theorem cg_scale (A : Matrix (Fin n) (Fin n) 𝕜) (P : Option (Matrix (Fin n) (Fin n) 𝕜))
    (B : Fin m → EuclideanSpace 𝕜 (Fin n)) {c : ℝ} (hc : 0 < c) (maxIters : ℕ) (tol : 𝕜) :
    let res := cg (matArr A) (colsArr B) none (P.map matArr) tol maxIters
    let res' := cg (matArr A) (colsArr (fun j => (c : 𝕜) • B j)) none (P.map matArr) tol maxIters
    res'.k = res.k ∧ res'.info = res.info ∧
      res.x = colsArr (xOut A P B (zeroCols 𝕜 n m) maxIters tol) ∧
      res'.x = colsArr (fun j => (c : 𝕜) • xOut A P B (zeroCols 𝕜 n m) maxIters tol j) := by
  intro res res'
  have hi := initState_scale A P B hc
  have hsteps : runSteps (matArr A) (P.map matArr) (colsArr (fun j => (c : 𝕜) • B j))
      (colsArr (zeroCols 𝕜 n m)) maxIters tol =
      runSteps (matArr A) (P.map matArr) (colsArr B) (colsArr (zeroCols 𝕜 n m)) maxIters tol := by
    unfold runSteps; rw [hi]
  refine ⟨?_, ?_, ?_, ?_⟩
  · show (cg _ _ none _ _ _).k = (cg _ _ none _ _ _).k
    rw [cg_none_eq, cg_none_eq, run_k, run_k, hsteps]
  · show (cg _ _ none _ _ _).info = (cg _ _ none _ _ _).info
    rw [cg_none_eq, cg_none_eq]
    unfold runBatchedCG
    simp only [hi]
  · show (cg _ _ none _ _ _).x = _
    rw [cg_none_eq, run_x_eq_xOut]
  · show (cg _ _ none _ _ _).x = _
    rw [cg_none_eq, run_x_eq_xOut]
    congr 1; funext j
    unfold xOut
    rw [hsteps]
    exact gRun_smul hc (B j) _

/-! ## columns: the batched run against the single-column run -/

/-- the one-column block -/
def oneCol (b : EuclideanSpace 𝕜 (Fin n)) : Fin 1 → EuclideanSpace 𝕜 (Fin n) := fun _ => b

/-- a single-column run with `tol = 0` and `max_iters = k` returns the `k`-step value `gRun … k`
(if the residual vanishes earlier the loop stops, and the mask would have frozen `x` anyway) -/
theorem xOut_single (A : Matrix (Fin n) (Fin n) 𝕜) (P : Option (Matrix (Fin n) (Fin n) 𝕜))
    (b x0 : EuclideanSpace 𝕜 (Fin n)) (k : ℕ) :
    xOut A P (oneCol b) (oneCol x0) k (((0 : ℝ)) : 𝕜) 0 =
      gRun (Matrix.toEuclideanLin A) (precLin P) smallR b x0 k := by
  obtain ⟨h1, -⟩ := run_stop_exact A P (oneCol b) (oneCol x0) k 0
  unfold xOut
  rcases h1 with h | h
  · rw [h]; rfl
  · have hr := h 0
    have hz : tolEffR A P (oneCol b) (oneCol x0) 0 0 = 0 := by unfold tolEffR; ring
    rw [hz] at hr
    have hcap : runSteps (matArr A) (P.map matArr) (colsArr (oneCol b)) (colsArr (oneCol x0)) k
        (((0 : ℝ)) : 𝕜) ≤ k := loopSteps_le _ _ _ _
    exact (gRun_frozen hcap (lt_of_le_of_lt hr smallR_pos)).symm

/-- **columns**: column `j` of a batched run that made `t` steps is the single-column run of
exactly `t` steps (`max_iters = t`, `tol = 0`) on `(b_j, x0_j)` — the other columns enter only
through the number of steps -/
theorem xOut_columns (A : Matrix (Fin n) (Fin n) 𝕜) (P : Option (Matrix (Fin n) (Fin n) 𝕜))
    (B X0 : Fin m → EuclideanSpace 𝕜 (Fin n)) (maxIters : ℕ) (tol : 𝕜) (j : Fin m) :
    xOut A P B X0 maxIters tol j =
      xOut A P (oneCol (B j)) (oneCol (X0 j))
        (runSteps (matArr A) (P.map matArr) (colsArr B) (colsArr X0) maxIters tol)
        (((0 : ℝ)) : 𝕜) 0 := by
  rw [xOut_single]; rfl

end CG
