import ColaVerif.Lemmas.ExprSoundAux
import ColaVerif.Lemmas.OpDtype

/-!
# C03: the operator algebra builds the operator of the corresponding matrix expression

`Ex.eval` (the code model of the Python overloads and of the rewriting rules of `cola/fns.py`)
against `Ex.meaning` (the matrix expression).  One named lemma per rewriting rule
(`mulRule_sound`, `dotRule_sound`, `addRule_sound`, `kronRule_sound`, `kronsumRule_sound`,
`negV_sound`, `addV_sound`, `matmulV_sound`, …), then the recursion over the expression.
-/

open Finset

set_option linter.unusedSectionVars false

variable {R : Type} [CommRing R] [StarRing R] [DecidableEq R]

/-! ## what it means for a value to represent a matrix -/

namespace Val

/-- `v` has shape `r × c` and represents `M` on that window -/
def Rep (v : Val R) (r c : Nat) (M : MatF R) : Prop :=
  v.rows = r ∧ v.cols = c ∧ EqOn r c (match v with | .op A => A.den.f | .arr _ _ _ a => a) M

/-- the side conditions under which a value can be fed to later operations (`Op.mm_eq` …) -/
def Good : Val R → Prop
  | .op A => A.wf = true ∧ A.dupSlice = false ∧ A.HermOK
  | .arr .. => True

/-- the value is a plain array -/
def isArr : Val R → Bool
  | .op _ => false
  | .arr .. => true

/-- the top node of an operator value that reports `SelfAdjoint` is Hermitian -/
def HermTop : Val R → Prop
  | .op A => Op.HermNode A
  | .arr .. => True

end Val

namespace Op

/-- operator-level version of `Val.Rep` -/
def Rep (A : Op R) (r c : Nat) (M : MatF R) : Prop :=
  A.rows = r ∧ A.cols = c ∧ EqOn r c A.den.f M

theorem Rep.self (A : Op R) : A.Rep A.rows A.cols A.den.f := ⟨rfl, rfl, EqOn.refl _ _ _⟩

theorem Rep.congr {A : Op R} {r c : Nat} {M M' : MatF R} (h : A.Rep r c M) (e : EqOn r c M M') :
    A.Rep r c M' := ⟨h.1, h.2.1, h.2.2.trans e⟩

end Op

theorem Val.Rep.congr {v : Val R} {r c : Nat} {M M' : MatF R} (h : v.Rep r c M)
    (e : EqOn r c M M') : v.Rep r c M' := ⟨h.1, h.2.1, h.2.2.trans e⟩

theorem Val.rep_op {A : Op R} {r c : Nat} {M : MatF R} : (Val.op A).Rep r c M ↔ A.Rep r c M :=
  Iff.rfl

theorem Val.good_op {A : Op R} : (Val.op A).Good ↔ Op.Good A :=
  ⟨fun h => ⟨h.1, h.2.1, h.2.2⟩, fun h => ⟨h.wf, h.nd, h.herm⟩⟩

namespace ExprSound
open Op Ex

/-! ## nodes without annotations -/

omit [CommRing R] [StarRing R] in
theorem anns_scalar (dt : DType) (s : R) (n : Nat) : (scalar dt s n).anns = [] := by
  rw [Op.anns] <;> intros <;> simp_all
omit [CommRing R] [StarRing R] in
theorem anns_diag (dt : DType) (n : Nat) (d : Nat → R) : (diag dt n d).anns = [] := by
  rw [Op.anns] <;> intros <;> simp_all
omit [CommRing R] [StarRing R] in
theorem anns_generic (A : Op R) : (generic A).anns = [] := by
  rw [Op.anns] <;> intros <;> simp_all
omit [CommRing R] [StarRing R] in
theorem anns_kronsum (Ms : List (Op R)) : (kronsum Ms).anns = [] := by
  rw [Op.anns] <;> intros <;> simp_all

theorem good_dense (dt : DType) (r c : Nat) (a : MatF R) : Op.Good (dense dt r c a) := by
  refine ⟨by simp only [Op.wf], by simp only [Op.dupSlice], ?_⟩
  simp only [HermOK]
  exact hermNode_of_no_anns _ (anns_dense dt r c a)

theorem good_scalar (dt : DType) (s : R) (n : Nat) : Op.Good (scalar dt s n) := by
  refine ⟨by simp only [Op.wf], by simp only [Op.dupSlice], ?_⟩
  simp only [HermOK]
  exact hermNode_of_no_anns _ (anns_scalar dt s n)

theorem good_diag (dt : DType) (n : Nat) (d : Nat → R) : Op.Good (diag dt n d) := by
  refine ⟨by simp only [Op.wf], by simp only [Op.dupSlice], ?_⟩
  simp only [HermOK]
  exact hermNode_of_no_anns _ (anns_diag dt n d)

theorem good_generic (A : Op R) (h : Op.Good A) : Op.Good (generic A) := by
  refine ⟨by simp only [Op.wf]; exact h.wf, by simp only [Op.dupSlice]; exact h.nd, ?_⟩
  simp only [HermOK]
  exact ⟨hermNode_of_no_anns _ (anns_generic A), h.herm⟩

/-! ## `lazify` -/

theorem lazifyV_rep {v : Val R} {r c : Nat} {M : MatF R} (h : v.Rep r c M) :
    (lazifyV v).Rep r c M := by
  cases v with
  | op A => exact h
  | arr dt r' c' a =>
    obtain ⟨h1, h2, h3⟩ := h
    simp only [Val.rows, Val.cols] at h1 h2
    subst h1 h2
    refine ⟨by simp only [lazifyV, Op.rows], by simp only [lazifyV, Op.cols], ?_⟩
    simp only [lazifyV, Op.den, MatV.of_f]
    exact h3

theorem lazifyV_good {v : Val R} (h : v.Good) : Op.Good (lazifyV v) := by
  cases v with
  | op A => exact Val.good_op.mp h
  | arr dt r c a => exact good_dense dt r c a

/-! ## `mul` (operator times scalar) -/

/-- **rule `mul`**: the scalar is merged into an existing `ScalarMul`, otherwise placed in front
as `Product[ScalarMul, A]`; outside the clause `complex-scalar-real-operator` the result
represents `c · A`. -/
theorem mulRule_build (re : R → R) (A : Op R) (s : Scal R) (v : Val R) (hg : Op.Good A)
    (hl : s.cplx = false ∨ A.dtype.isComplex = true)
    (h : mulRule re A s = .ok v) :
    ∃ B, v = .op B ∧ B.Rep A.rows A.cols (smulM s.v A.den.f) ∧ B.wf = true ∧ B.dupSlice = false ∧
      (Op.HermNode B → B.HermOK) := by
  have hlossy : (s.cplx && !A.dtype.isComplex) = false := by
    rcases hl with h1 | h1 <;> simp [h1]
  have hc := coreRel A
  simp only [mulRule, hlossy, Bool.false_and, Bool.false_eq_true, if_false] at h
  split at h
  · rename_i dt s0 n heq
    rw [heq] at hc
    injection h with h
    subst h
    refine ⟨_, rfl, ⟨?_, ?_, ?_⟩, (good_scalar _ _ _).wf, (good_scalar _ _ _).nd,
      fun _ => (good_scalar _ _ _).herm⟩
    · have := hc.rows; simp only [Op.rows] at this ⊢; exact this
    · have := hc.cols; simp only [Op.cols] at this ⊢; exact this
    · intro i j _ _
      have hd := hc.den
      rw [← hd]
      simp only [Op.den, MatV.of_f, smulM]
      split <;> simp [mul_comm]
  · injection h with h
    subst h
    have hwf : (prod [scalar A.dtype s.v A.rows, A]).wf = true := by
      simp only [Op.wf, List.isEmpty_cons, Bool.not_false, List.map_cons, List.map_nil,
        List.all_cons, List.all_nil, id, Bool.and_true, Bool.true_and, chainOk, Op.rows, Op.cols,
        beq_self_eq_true]
      exact hg.wf
    refine ⟨_, rfl, ⟨?_, ?_, ?_⟩, hwf, ?_, ?_⟩
    · simp only [Op.rows, List.map_cons, List.head?_cons, Option.getD_some]
    · simp only [Op.cols, List.map_cons, List.map_nil, List.getLast?_cons_cons,
        List.getLast?_singleton, Option.getD_some]
    · intro i j hi hj
      simp only [Op.den, forceV_f, List.map_cons, List.map_nil, List.foldr_cons, List.foldr_nil,
        Op.cols, MatV.of_f, smulM]
      rw [mmul_apply]
      refine (Finset.sum_congr rfl (fun q _ => by
        rw [mmul_eyeM_right A.cols A.den.f q j hj])).trans ?_
      exact sum_scalar_mul A.rows s.v _ i j hi
    · simp only [Op.dupSlice, List.map_cons, List.map_nil, List.any_cons, List.any_nil, id,
        Bool.or_false, Bool.false_or]
      exact hg.nd
    · intro hH
      simp only [HermOK]
      refine ⟨hH, ?_⟩
      intro M hM
      simp only [List.mem_cons, List.not_mem_nil, or_false] at hM
      rcases hM with rfl | rfl
      · exact (good_scalar _ _ _).herm
      · exact hg.herm

/-- `mulRule_build` with the Hermitian-node condition of the built `Product` supplied -/
theorem mulRule_sound (re : R → R) (A : Op R) (s : Scal R) (v : Val R) (hg : Op.Good A)
    (hl : s.cplx = false ∨ A.dtype.isComplex = true)
    (h : mulRule re A s = .ok v) (hH : v.HermTop) :
    ∃ B, v = .op B ∧ B.Rep A.rows A.cols (smulM s.v A.den.f) ∧ Op.Good B := by
  obtain ⟨B, rfl, hB, hw, hn, hh⟩ := mulRule_build re A s v hg hl h
  exact ⟨B, rfl, hB, ⟨hw, hn, hh hH⟩⟩


/-! ## negation -/

/-- **`-x`**: `-1 * self` for an operator (rule `mul`), entrywise for an array -/
theorem negV_sound (re : R → R) (x v : Val R) {r c : Nat} {M : MatF R} (hr : x.Rep r c M)
    (hg : x.Good) (h : negV re x = .ok v) (hH : v.HermTop) :
    v.Rep r c (fun i j => -(M i j)) ∧ v.Good ∧ (∀ A, x = .op A → ∃ B, v = .op B) := by
  cases x with
  | op A =>
    simp only [negV] at h
    obtain ⟨B, rfl, hB, hgB⟩ := mulRule_sound re A _ v (Val.good_op.mp hg) (Or.inl rfl) h hH
    obtain ⟨h1, h2, h3⟩ := hr
    simp only [Val.rows, Val.cols] at h1 h2
    subst h1 h2
    refine ⟨?_, Val.good_op.mpr hgB, fun _ _ => ⟨B, rfl⟩⟩
    refine Val.rep_op.mpr (hB.congr ?_)
    intro i j hi hj
    simp only [smulM, neg_one_mul]
    rw [show A.den.f i j = M i j from h3 i j hi hj]
  | arr dt r' c' a =>
    simp only [negV, negArr] at h
    injection h with h
    subst h
    obtain ⟨h1, h2, h3⟩ := hr
    refine ⟨⟨h1, h2, ?_⟩, trivial, fun A e => by cases e⟩
    intro i j hi hj
    simp only
    rw [show a i j = M i j from h3 i j hi hj]

/-! ## `add` (flattening of sums) -/

/-- the summands `add` sees: the members of a `Sum`, else the operator itself -/
def sumParts (A : Op R) : List (Op R) := (sumMembers A).getD [A]

theorem addRule_eq (A B : Op R) : addRule A B = mkSum (sumParts A ++ sumParts B) := by
  unfold addRule sumParts
  cases sumMembers A <;> cases sumMembers B <;> simp

structure SumParts (A : Op R) (L : List (Op R)) : Prop where
  ne : L ≠ []
  good : ∀ M ∈ L, Op.Good M
  shape : ∀ M ∈ L, M.rows = A.rows ∧ M.cols = A.cols
  den : ∀ i j, (L.map (·.den.f)).foldr addM zeroM i j = A.den.f i j

theorem sumParts_spec (A : Op R) (hg : Op.Good A) : SumParts A (sumParts A) := by
  have hc := coreRel A
  unfold sumParts sumMembers
  split
  · rename_i Ms heq
    rw [heq] at hc
    have hgs := hc.good hg
    simp only [Option.getD_some]
    refine ⟨?_, hgs.sum_mem, ?_, ?_⟩
    · intro e; subst e
      have := hgs.wf; simp [Op.wf] at this
    · intro M hM
      have := sum_shapes Ms hgs.wf M hM
      rw [hc.rows, hc.cols] at this
      exact this
    · intro i j
      rw [← hc.den]
      simp only [Op.den, forceV_f]
  · simp only [Option.getD_none]
    refine ⟨by simp, ?_, ?_, ?_⟩
    · intro M hM; rw [List.mem_singleton.mp hM]; exact hg
    · intro M hM; rw [List.mem_singleton.mp hM]; exact ⟨rfl, rfl⟩
    · intro i j
      simp [addM, zeroM]

/-- **rule `add`**: nested sums are flattened into one `Sum`; operands of different shape are
rejected; the result represents `A + B`. -/
theorem addRule_sound (A B : Op R) (v : Val R) (hgA : Op.Good A) (hgB : Op.Good B)
    (h : addRule A B = .ok v) :
    A.rows = B.rows ∧ A.cols = B.cols ∧
      ∃ S, v = .op S ∧ S.Rep A.rows A.cols (addM A.den.f B.den.f) ∧ Op.Good S := by
  have pA := sumParts_spec A hgA
  have pB := sumParts_spec B hgB
  rw [addRule_eq] at h
  obtain ⟨M0, LA, hLA⟩ := List.exists_cons_of_ne_nil pA.ne
  obtain ⟨N0, LB, hLB⟩ := List.exists_cons_of_ne_nil pB.ne
  have hM0 : M0 ∈ sumParts A := by rw [hLA]; exact List.mem_cons_self
  have hN0 : N0 ∈ sumParts B := by rw [hLB]; exact List.mem_cons_self
  rw [hLA, List.cons_append] at h
  simp only [mkSum] at h
  split at h
  · rename_i hall
    injection h with h
    subst h
    rw [← List.cons_append, ← hLA] at hall ⊢
    rw [List.all_eq_true] at hall
    have hshape : ∀ N ∈ sumParts A ++ sumParts B, N.rows = A.rows ∧ N.cols = A.cols := by
      intro N hN
      have := hall N hN
      simp only [Bool.and_eq_true, beq_iff_eq] at this
      rw [(pA.shape M0 hM0).1, (pA.shape M0 hM0).2] at this
      exact this
    have hB := hshape N0 (List.mem_append_right _ hN0)
    rw [(pB.shape N0 hN0).1, (pB.shape N0 hN0).2] at hB
    have hgood : ∀ N ∈ sumParts A ++ sumParts B, Op.Good N := by
      intro N hN
      rcases List.mem_append.mp hN with hN | hN
      · exact pA.good N hN
      · exact pB.good N hN
    have hrows : (sum (sumParts A ++ sumParts B)).rows = A.rows := by
      simp only [Op.rows, hLA, List.cons_append, List.map_cons, List.head?_cons, Option.getD_some]
      exact (pA.shape M0 hM0).1
    have hcols : (sum (sumParts A ++ sumParts B)).cols = A.cols := by
      simp only [Op.cols, hLA, List.cons_append, List.map_cons, List.head?_cons, Option.getD_some]
      exact (pA.shape M0 hM0).2
    have hwf : (sum (sumParts A ++ sumParts B)).wf = true := by
      simp only [Op.wf, Bool.and_eq_true, List.all_eq_true, List.mem_map, id,
        forall_exists_index, and_imp, forall_apply_eq_imp_iff₂, beq_iff_eq]
      refine ⟨⟨by simp [hLA], fun N hN => (hgood N hN).wf⟩, fun N hN => ?_⟩
      have h1 := hshape N hN
      have h2 := hshape M0 (List.mem_append_left _ hM0)
      simp only [hLA, List.cons_append, List.map_cons, List.head?_cons, Option.getD_some,
        Prod.mk.injEq]
      exact ⟨h1.1.trans h2.1.symm, h1.2.trans h2.2.symm⟩
    refine ⟨hB.1.symm, hB.2.symm, _, rfl, ⟨hrows, hcols, ?_⟩, ⟨hwf, ?_, ?_⟩⟩
    · intro i j _ _
      simp only [Op.den, forceV_f, List.map_append]
      rw [foldr_addM_append]
      simp only [addM]
      rw [pA.den, pB.den]
    · simp only [Op.dupSlice, List.any_eq_false, List.mem_map, id, forall_exists_index, and_imp,
        forall_apply_eq_imp_iff₂, Bool.not_eq_true]
      exact fun N hN => (hgood N hN).nd
    · simp only [HermOK]
      exact ⟨hermNode_sum _ hwf (fun N hN => (hgood N hN).herm.node), fun N hN => (hgood N hN).herm⟩
  · cases h

/-- **`x + y`** on evaluated operands (operator + operator, operator + array on either side,
array + array) -/
theorem addV_sound (x y v : Val R) {r c r' c' : Nat} {M M' : MatF R} (hx : x.Rep r c M)
    (hy : y.Rep r' c' M') (hgx : x.Good) (hgy : y.Good) (h : addV x y = .ok v) :
    r = r' ∧ c = c' ∧ v.Rep r c (addM M M') ∧ v.Good := by
  have key : ∀ (A B : Op R) (r c r' c' : Nat) (M M' : MatF R), A.Rep r c M → B.Rep r' c' M' →
      Op.Good A → Op.Good B → addRule A B = .ok v →
      r = r' ∧ c = c' ∧ v.Rep r c (addM M M') ∧ v.Good := by
    intro A B r c r' c' M M' hA hB hgA hgB h
    obtain ⟨e1, e2, S, rfl, hS, hgS⟩ := addRule_sound A B v hgA hgB h
    obtain ⟨a1, a2, a3⟩ := hA
    obtain ⟨b1, b2, b3⟩ := hB
    subst a1 a2 b1 b2
    refine ⟨e1, e2, Val.rep_op.mpr (hS.congr ?_), Val.good_op.mpr hgS⟩
    intro i j hi hj
    simp only [addM]
    rw [a3 i j hi hj, b3 i j (e1 ▸ hi) (e2 ▸ hj)]
  cases x with
  | op A =>
    simp only [addV] at h
    exact key A (lazifyV y) _ _ _ _ _ _ (Val.rep_op.mp hx) (lazifyV_rep hy)
      (Val.good_op.mp hgx) (lazifyV_good hgy) h
  | arr dx rx cx a =>
    cases y with
    | op B =>
      simp only [addV] at h
      obtain ⟨e1, e2, hv, hgv⟩ := key B (dense dx rx cx a) _ _ _ _ _ _ (Val.rep_op.mp hy)
        (lazifyV_rep hx) (Val.good_op.mp hgy) (good_dense _ _ _ _) h
      subst e1 e2
      refine ⟨rfl, rfl, hv.congr ?_, hgv⟩
      intro i j _ _
      simp only [addM, add_comm]
    | arr dy ry cy b =>
      simp only [addV] at h
      split at h
      · rename_i hs
        simp only [Bool.and_eq_true, beq_iff_eq] at hs
        injection h with h
        subst h
        obtain ⟨a1, a2, a3⟩ := hx
        obtain ⟨b1, b2, b3⟩ := hy
        simp only [Val.rows, Val.cols] at a1 a2 b1 b2
        subst a1 a2 b1 b2
        refine ⟨hs.1, hs.2, ⟨rfl, rfl, ?_⟩, trivial⟩
        intro i j hi hj
        simp only [addM]
        rw [show a i j = M i j from a3 i j hi hj,
          show b i j = M' i j from b3 i j (hs.1 ▸ hi) (hs.2 ▸ hj)]
      · split at h <;> cases h


/-! ## `dot` (flattening of products, dropping identities) -/

/-- the factors `dot` sees: the members of a `Product`, else the operator itself -/
def prodParts (A : Op R) : List (Op R) := (prodMembers A).getD [A]

theorem dotRule_eq (A B : Op R) : dotRule A B =
    if A.cols != B.rows then .error "error:AssertionError" else
    if isIdentity A then
      if isIdentity B then
        if absorbs B A then .ok (.op B) else .ok (.op (.eye (DType.promote A.dtype B.dtype) B.rows))
      else if absorbs B A then .ok (.op B) else mkProd [A, B]
    else if isIdentity B then (if absorbs A B then .ok (.op A) else mkProd [A, B])
    else mkProd (prodParts A ++ prodParts B) := by
  unfold dotRule prodParts
  cases prodMembers A <;> cases prodMembers B <;> simp

theorem good_eye (dt : DType) (n : Nat) : Op.Good (eye dt n : Op R) := by
  refine ⟨by simp only [Op.wf], by simp only [Op.dupSlice], ?_⟩
  simp only [HermOK]
  intro _
  refine ⟨by simp only [Op.rows, Op.cols], ?_⟩
  intro i j _ _
  simp only [Op.den, MatV.of_f, eyeM]
  by_cases h : i = j
  · subst h; simp
  · rw [if_neg h, if_neg (Ne.symm h)]; simp

/-- the `Product` constructor on two operands as they are (the non-absorbing `Identity` rules) -/
theorem mkProd_pair_sound (A B : Op R) (v : Val R) (hgA : Op.Good A) (hgB : Op.Good B)
    (hdim : A.cols = B.rows) (h : mkProd [A, B] = .ok v) :
    ∃ P, v = .op P ∧ P.Rep A.rows B.cols (mmul A.cols A.den.f B.den.f) ∧ P.wf = true ∧
      P.dupSlice = false ∧ (Op.HermNode P → P.HermOK) := by
  simp only [mkProd] at h
  split at h
  · injection h with h
    subst h
    refine ⟨_, rfl, ⟨?_, ?_, ?_⟩, ?_, ?_, ?_⟩
    · simp only [Op.rows, List.map_cons, List.head?_cons, Option.getD_some]
    · simp only [Op.cols, List.map_cons, List.map_nil, List.getLast?_cons_cons,
        List.getLast?_singleton, Option.getD_some]
    · intro i j hi hj
      simp only [Op.den, forceV_f, List.map_cons, List.map_nil, List.foldr_cons, List.foldr_nil]
      rw [mmul_apply, mmul_apply]
      refine Finset.sum_congr rfl (fun q _ => ?_)
      rw [mmul_eyeM_right B.cols B.den.f q j hj]
    · simp only [Op.wf, List.isEmpty_cons, Bool.not_false, List.map_cons, List.map_nil,
        List.all_cons, List.all_nil, id, Bool.and_true, Bool.true_and, chainOk,
        Bool.and_eq_true, beq_iff_eq]
      exact ⟨⟨hgA.wf, hgB.wf⟩, hdim⟩
    · simp only [Op.dupSlice, List.map_cons, List.map_nil, List.any_cons, List.any_nil, id,
        Bool.or_false, Bool.or_eq_false_iff]
      exact ⟨hgA.nd, hgB.nd⟩
    · intro hH
      simp only [HermOK]
      refine ⟨hH, ?_⟩
      intro M hM
      simp only [List.mem_cons, List.not_mem_nil, or_false] at hM
      rcases hM with rfl | rfl
      · exact hgA.herm
      · exact hgB.herm
  · cases h

structure ProdParts (A : Op R) (L : List (Op R)) : Prop where
  ne : L ≠ []
  good : ∀ M ∈ L, Op.Good M
  chain : chainOk (shapes L) = true
  hr : headRows L = A.rows
  lc : lastCols L = A.cols
  den : EqOn A.rows A.cols (denChain L) A.den.f

theorem prodParts_spec (A : Op R) (hg : Op.Good A) : ProdParts A (prodParts A) := by
  have hc := coreRel A
  unfold prodParts prodMembers
  split
  · rename_i Ms heq
    rw [heq] at hc
    have hgs := hc.good hg
    simp only [Option.getD_some]
    refine ⟨?_, hgs.prod_mem, ?_, ?_, ?_, ?_⟩
    · intro e; subst e
      have := hgs.wf; simp [Op.wf] at this
    · have := hgs.wf
      simp only [Op.wf, Bool.and_eq_true] at this
      exact this.2
    · have := hc.rows; simp only [Op.rows] at this; exact this
    · have := hc.cols; simp only [Op.cols] at this; exact this
    · rw [← hc.den]
      simp only [Op.den, forceV_f]
      exact EqOn.refl _ _ _
  · simp only [Option.getD_none]
    refine ⟨by simp, ?_, by simp [shapes, chainOk], by simp [headRows], by simp [lastCols], ?_⟩
    · intro M hM; rw [List.mem_singleton.mp hM]; exact hg
    · rw [denChain_cons]
      exact eqOn_mmul_eyeM_right _ _ _

theorem isIdentity_spec (A : Op R) (h : isIdentity A = true) :
    A.rows = A.cols ∧ A.den.f = eyeM := by
  have hc := coreRel A
  unfold isIdentity at h
  split at h
  · rename_i dt n heq
    rw [heq] at hc
    have h1 := hc.rows
    have h2 := hc.cols
    have h3 := hc.den
    simp only [Op.rows] at h1
    simp only [Op.cols] at h2
    simp only [Op.den] at h3
    exact ⟨h1.symm.trans h2, by rw [← h3]; rfl⟩
  · cases h

/-- **rule `dot`**: an identity operand is dropped when the other operand already has the
promoted dtype (otherwise the two operands are kept in a `Product`, two identities become one
identity of the promoted dtype), nested products are flattened into one `Product`, an
inner-dimension mismatch is rejected; the result represents `A · B`. -/
theorem dotRule_build (A B : Op R) (v : Val R) (hgA : Op.Good A) (hgB : Op.Good B)
    (h : dotRule A B = .ok v) :
    A.cols = B.rows ∧
      ∃ P, v = .op P ∧ P.Rep A.rows B.cols (mmul A.cols A.den.f B.den.f) ∧ P.wf = true ∧
        P.dupSlice = false ∧ (Op.HermNode P → P.HermOK) := by
  rw [dotRule_eq] at h
  split at h
  · cases h
  rename_i hdim
  have hdim : A.cols = B.rows := by simpa using hdim
  refine ⟨hdim, ?_⟩
  -- the result when the left identity is dropped
  have dropL : isIdentity A = true →
      (Val.op B).Rep A.rows B.cols (mmul A.cols A.den.f B.den.f) := by
    intro hid
    obtain ⟨e1, e2⟩ := isIdentity_spec A hid
    refine ⟨by simp only [Val.rows]; rw [e1, hdim], rfl, ?_⟩
    show EqOn A.rows B.cols B.den.f (mmul A.cols A.den.f B.den.f)
    rw [e2, e1, hdim]
    exact (eqOn_mmul_eyeM_left _ _ _).symm
  have dropR : isIdentity B = true →
      (Val.op A).Rep A.rows B.cols (mmul A.cols A.den.f B.den.f) := by
    intro hid
    obtain ⟨e1, e2⟩ := isIdentity_spec B hid
    refine ⟨rfl, by simp only [Val.cols]; rw [← e1, hdim], ?_⟩
    show EqOn A.rows B.cols A.den.f (mmul A.cols A.den.f B.den.f)
    rw [e2, ← e1, ← hdim]
    exact (eqOn_mmul_eyeM_right _ _ _).symm
  split at h
  · rename_i hidA
    split at h
    · rename_i hidB
      split at h
      · injection h with h
        subst h
        exact ⟨B, rfl, Val.rep_op.mp (dropL hidA), hgB.wf, hgB.nd, fun _ => hgB.herm⟩
      · injection h with h
        subst h
        obtain ⟨a1, a2⟩ := isIdentity_spec A hidA
        obtain ⟨b1, b2⟩ := isIdentity_spec B hidB
        refine ⟨_, rfl, ⟨?_, ?_, ?_⟩, (good_eye _ _).wf, (good_eye _ _).nd, fun _ => (good_eye _ _).herm⟩
        · simp only [Op.rows]; rw [a1, hdim]
        · simp only [Op.cols]; exact b1
        · simp only [Op.den, MatV.of_f]
          rw [a2, b2, a1, hdim]
          exact (eqOn_mmul_eyeM_left _ _ _).symm
    · split at h
      · injection h with h
        subst h
        exact ⟨B, rfl, Val.rep_op.mp (dropL hidA), hgB.wf, hgB.nd, fun _ => hgB.herm⟩
      · exact mkProd_pair_sound A B v hgA hgB hdim h
  split at h
  · rename_i hidB
    split at h
    · injection h with h
      subst h
      exact ⟨A, rfl, Val.rep_op.mp (dropR hidB), hgA.wf, hgA.nd, fun _ => hgA.herm⟩
    · exact mkProd_pair_sound A B v hgA hgB hdim h
  have pA := prodParts_spec A hgA
  have pB := prodParts_spec B hgB
  simp only [mkProd] at h
  split at h
  · rename_i hchain
    injection h with h
    subst h
    obtain ⟨M0, LA, hLA⟩ := List.exists_cons_of_ne_nil pA.ne
    obtain ⟨N0, LB, hLB⟩ := List.exists_cons_of_ne_nil pB.ne
    have hgood : ∀ N ∈ prodParts A ++ prodParts B, Op.Good N := by
      intro N hN
      rcases List.mem_append.mp hN with hN | hN
      · exact pA.good N hN
      · exact pB.good N hN
    have hM0 : M0.rows = A.rows := by
      have := pA.hr; rw [hLA] at this; simpa [headRows] using this
    have hrows : (prod (prodParts A ++ prodParts B)).rows = A.rows := by
      simp only [Op.rows, hLA, List.cons_append, List.map_cons, List.head?_cons,
        Option.getD_some]
      exact hM0
    have hcols : (prod (prodParts A ++ prodParts B)).cols = B.cols := by
      have := lastCols_append (prodParts A) N0 LB
      rw [← hLB, pB.lc] at this
      simp only [Op.cols]
      exact this
    have hwf : (prod (prodParts A ++ prodParts B)).wf = true := by
      simp only [Op.wf, Bool.and_eq_true, List.all_eq_true, List.mem_map, id,
        forall_exists_index, and_imp, forall_apply_eq_imp_iff₂]
      exact ⟨⟨by simp [hLA], fun N hN => (hgood N hN).wf⟩, hchain⟩
    refine ⟨_, rfl, ⟨hrows, hcols, ?_⟩, hwf, ?_, ?_⟩
    · simp only [Op.den, forceV_f]
      have hch := pA.chain
      rw [hLA] at hch
      have key := denChain_append B.cols (prodParts B) LA M0 hch
      rw [← hLA, hM0, pA.lc] at key
      refine key.trans ?_
      refine mmul_congr pA.den ?_
      rw [hdim]
      exact pB.den
    · simp only [Op.dupSlice, List.any_eq_false, List.mem_map, id, forall_exists_index, and_imp,
        forall_apply_eq_imp_iff₂, Bool.not_eq_true]
      exact fun N hN => (hgood N hN).nd
    · intro hH
      simp only [HermOK]
      exact ⟨hH, fun N hN => (hgood N hN).herm⟩
  · cases h

/-- `dotRule_build` with the Hermitian-node condition of the built operator supplied -/
theorem dotRule_sound (A B : Op R) (v : Val R) (hgA : Op.Good A) (hgB : Op.Good B)
    (h : dotRule A B = .ok v) (hH : v.HermTop) :
    A.cols = B.rows ∧
      ∃ P, v = .op P ∧ P.Rep A.rows B.cols (mmul A.cols A.den.f B.den.f) ∧ Op.Good P := by
  obtain ⟨hd, P, rfl, hP, hw, hn, hh⟩ := dotRule_build A B v hgA hgB h
  exact ⟨hd, P, rfl, hP, ⟨hw, hn, hh hH⟩⟩

/-- `dot` never fails on two good operands whose inner dimensions agree: it returns an operator -/
theorem dotRule_total (A B : Op R) (hgA : Op.Good A) (hgB : Op.Good B) (hdim : A.cols = B.rows) :
    ∃ P, dotRule A B = .ok (.op P) := by
  rw [dotRule_eq]
  have hne : (A.cols != B.rows) = false := by simp [hdim]
  have hpair : ∃ P, mkProd [A, B] = .ok (.op P) := by
    refine ⟨.prod [A, B], ?_⟩
    simp only [mkProd, List.map_cons, List.map_nil, chainOk, hdim, beq_self_eq_true, Bool.and_true,
      if_true]
  simp only [hne, Bool.false_eq_true, if_false]
  split
  · split
    · split
      · exact ⟨_, rfl⟩
      · exact ⟨_, rfl⟩
    · split
      · exact ⟨_, rfl⟩
      · exact hpair
  split
  · split
    · exact ⟨_, rfl⟩
    · exact hpair
  have pA := prodParts_spec A hgA
  have pB := prodParts_spec B hgB
  have hch : chainOk ((prodParts A ++ prodParts B).map (fun M => (M.rows, M.cols))) = true := by
    rw [List.map_append]
    refine chainOk_append _ _ pA.chain pB.chain ?_
    intro x hx y hy
    simp only [List.getLast?_map, List.head?_map, Option.mem_def, Option.map_eq_some_iff] at hx hy
    obtain ⟨M, hM, rfl⟩ := hx
    obtain ⟨N, hN, rfl⟩ := hy
    have h1 : lastCols (prodParts A) = M.cols := by
      simp [lastCols, List.getLast?_map, hM]
    have h2 : headRows (prodParts B) = N.rows := by
      simp [headRows, List.head?_map, hN]
    show M.cols = N.rows
    rw [← h1, ← h2, pA.lc, pB.hr, hdim]
  simp only [mkProd, hch, if_true]
  exact ⟨_, rfl⟩


/-! ## `@` on evaluated operands -/

/-- **`x @ y`**: operator · operator goes through `dot`; operator · array and array · operator
run the operator's product code (`Op.mm_eq`, `Op.rmm_eq`); array · array is NumPy's product. -/
theorem matmulV_sound (x y v : Val R) {r c r' c' : Nat} {M M' : MatF R} (hx : x.Rep r c M)
    (hy : y.Rep r' c' M') (hgx : x.Good) (hgy : y.Good) (h : matmulV x y = .ok v)
    (hH : v.HermTop) :
    c = r' ∧ v.Rep r c' (mmul c M M') ∧ v.Good := by
  cases x with
  | op A =>
    obtain ⟨a1, a2, a3⟩ := hx
    simp only [Val.rows, Val.cols] at a1 a2
    subst a1 a2
    have a3 : EqOn A.rows A.cols A.den.f M := a3
    have hgA := Val.good_op.mp hgx
    cases y with
    | op B =>
      obtain ⟨b1, b2, b3⟩ := hy
      simp only [Val.rows, Val.cols] at b1 b2
      subst b1 b2
      have b3 : EqOn B.rows B.cols B.den.f M' := b3
      simp only [matmulV] at h
      obtain ⟨e, P, rfl, hP, hgP⟩ := dotRule_sound A B v hgA (Val.good_op.mp hgy) h hH
      refine ⟨e, Val.rep_op.mpr (hP.congr (mmul_congr a3 ?_)), Val.good_op.mpr hgP⟩
      rw [e]; exact b3
    | arr dy ry cy b =>
      obtain ⟨b1, b2, b3⟩ := hy
      simp only [Val.rows, Val.cols] at b1 b2
      subst b1 b2
      have b3 : EqOn ry cy b M' := b3
      simp only [matmulV] at h
      split at h
      · cases h
      rename_i hdim
      have hdim : A.cols = ry := by simpa using hdim
      injection h with h
      subst h
      refine ⟨hdim, ⟨rfl, rfl, ?_⟩, trivial⟩
      show EqOn A.rows cy (A.mm cy b).f (mmul A.cols M M')
      refine (Op.mm_eq A hgA.wf hgA.nd hgA.herm cy b).trans (mmul_congr a3 ?_)
      rw [hdim]; exact b3
  | arr dx rx cx a =>
    obtain ⟨a1, a2, a3⟩ := hx
    simp only [Val.rows, Val.cols] at a1 a2
    subst a1 a2
    have a3 : EqOn rx cx a M := a3
    cases y with
    | op B =>
      obtain ⟨b1, b2, b3⟩ := hy
      simp only [Val.rows, Val.cols] at b1 b2
      subst b1 b2
      have b3 : EqOn B.rows B.cols B.den.f M' := b3
      have hgB := Val.good_op.mp hgy
      simp only [matmulV] at h
      split at h
      · cases h
      rename_i hdim
      have hdim : cx = B.rows := by simpa using hdim
      injection h with h
      subst h
      refine ⟨hdim, ⟨rfl, rfl, ?_⟩, trivial⟩
      show EqOn rx B.cols (B.rmm rx a).f (mmul cx M M')
      rw [hdim]
      refine (Op.rmm_eq B hgB.wf hgB.nd hgB.herm rx a).trans (mmul_congr ?_ b3)
      rw [← hdim]; exact a3
    | arr dy ry cy b =>
      obtain ⟨b1, b2, b3⟩ := hy
      simp only [Val.rows, Val.cols] at b1 b2
      subst b1 b2
      have b3 : EqOn ry cy b M' := b3
      simp only [matmulV] at h
      split at h
      · rename_i hdim
        have hdim : cx = ry := by simpa using hdim
        injection h with h
        subst h
        refine ⟨hdim, ⟨rfl, rfl, ?_⟩, trivial⟩
        show EqOn rx cy (forceV rx cy (mmul cx a b)).f (mmul cx M M')
        rw [forceV_f]
        refine mmul_congr a3 ?_
        rw [hdim]; exact b3
      · cases h


/-! ## `kron` (flattening, fused diagonal factors) -/

/-- the factors `kron` sees: the members of a `Kronecker`, else the operator itself -/
def kronParts (A : Op R) : List (Op R) := (kronMembers A).getD [A]

theorem kronRule_eq (A B : Op R) : kronRule A B =
    match diagOf A, diagOf B with
    | some (dt, n, d), some (_, m, e) =>
        .ok (.op (.diag (DType.promote dt (B.dtype)) (n * m) (fun t => d (t / m) * e (t % m))))
    | _, _ => .ok (.op (.kron (kronParts A ++ kronParts B))) := by
  unfold kronRule kronParts
  cases kronMembers A <;> cases kronMembers B <;> rfl

structure KronParts (A : Op R) (L : List (Op R)) : Prop where
  ne : L ≠ []
  good : ∀ M ∈ L, Op.Good M
  rp : (L.map (·.rows)).prod = A.rows
  cp : (L.map (·.cols)).prod = A.cols
  den : ∀ I J, kronDen (L.map facDen) I J = A.den.f I J

theorem kronParts_spec (A : Op R) (hg : Op.Good A) : KronParts A (kronParts A) := by
  have hc := coreRel A
  unfold kronParts kronMembers
  split
  · rename_i Ms heq
    rw [heq] at hc
    have hgs := hc.good hg
    simp only [Option.getD_some]
    refine ⟨?_, hgs.kron_mem, ?_, ?_, ?_⟩
    · intro e; subst e
      have := hgs.wf; simp [Op.wf] at this
    · have := hc.rows; simp only [Op.rows] at this; exact this
    · have := hc.cols; simp only [Op.cols] at this; exact this
    · intro I J
      rw [← hc.den]
      simp only [Op.den, forceV_f]
      rfl
  · simp only [Option.getD_none]
    refine ⟨by simp, ?_, by simp, by simp, ?_⟩
    · intro M hM; rw [List.mem_singleton.mp hM]; exact hg
    · intro I J
      simp [kronDen, unravel, kronEntry, facDen]

theorem diagOf_spec (A : Op R) {dt : DType} {n : Nat} {d : Nat → R}
    (h : diagOf A = some (dt, n, d)) : A.rows = n ∧ A.cols = n ∧ A.den.f = diagM d := by
  have hc := coreRel A
  unfold diagOf at h
  split at h
  · rename_i dt' n' d' heq
    rw [heq] at hc
    have h1 := hc.rows
    have h2 := hc.cols
    have h3 := hc.den
    simp only [Op.rows] at h1
    simp only [Op.cols] at h2
    simp only [Op.den] at h3
    simp only [Option.some.injEq, Prod.mk.injEq] at h
    obtain ⟨_, rfl, rfl⟩ := h
    exact ⟨h1.symm, h2.symm, by rw [← h3]; rfl⟩
  · cases h

/-- **rule `kron`**: two `Diagonal` operands are fused into one `Diagonal`; otherwise nested
Kronecker products are flattened into one `Kronecker`; the result represents `A ⊗ B`
(`np.kron` layout). -/
theorem kronRule_sound (A B : Op R) (v : Val R) (hgA : Op.Good A) (hgB : Op.Good B)
    (h : kronRule A B = .ok v) :
    ∃ K, v = .op K ∧
      K.Rep (A.rows * B.rows) (A.cols * B.cols) (kron2 B.rows B.cols A.den.f B.den.f) ∧
      Op.Good K := by
  rw [kronRule_eq] at h
  split at h
  · rename_i dt n d dt' m e hA hB
    injection h with h
    subst h
    obtain ⟨a1, a2, a3⟩ := diagOf_spec A hA
    obtain ⟨b1, b2, b3⟩ := diagOf_spec B hB
    refine ⟨_, rfl, ⟨?_, ?_, ?_⟩, good_diag _ _ _⟩
    · simp only [Op.rows, a1, b1]
    · simp only [Op.cols, a2, b2]
    · intro I J hI _
      rw [a1, b1] at hI
      simp only [Op.den, MatV.of_f, a3, b3, b1, b2]
      exact diagM_kron n m d e I J hI
  · injection h with h
    subst h
    have pA := kronParts_spec A hgA
    have pB := kronParts_spec B hgB
    have hgood : ∀ N ∈ kronParts A ++ kronParts B, Op.Good N := by
      intro N hN
      rcases List.mem_append.mp hN with hN | hN
      · exact pA.good N hN
      · exact pB.good N hN
    have hwf : (kron (kronParts A ++ kronParts B)).wf = true := by
      simp only [Op.wf, Bool.and_eq_true, List.all_eq_true, List.mem_map, id,
        forall_exists_index, and_imp, forall_apply_eq_imp_iff₂]
      refine ⟨?_, fun N hN => (hgood N hN).wf⟩
      have := pA.ne
      cases hk : kronParts A with
      | nil => exact absurd hk this
      | cons _ _ => simp
    refine ⟨_, rfl, ⟨?_, ?_, ?_⟩, ⟨hwf, ?_, ?_⟩⟩
    · simp only [Op.rows, List.map_append, List.prod_append, pA.rp, pB.rp]
    · simp only [Op.cols, List.map_append, List.prod_append, pA.cp, pB.cp]
    · intro I J hI hJ
      simp only [Op.den, forceV_f, List.map_append]
      show kronDen ((kronParts A).map facDen ++ (kronParts B).map facDen) I J = _
      rw [kronDen_append _ _ I J (by rw [map_facDen_r, map_facDen_r, pA.rp, pB.rp]; exact hI)
        (by rw [map_facDen_c, map_facDen_c, pA.cp, pB.cp]; exact hJ)]
      simp only [kron2, map_facDen_r, map_facDen_c, pB.rp, pB.cp, pA.den, pB.den]
    · simp only [Op.dupSlice, List.any_eq_false, List.mem_map, id, forall_exists_index, and_imp,
        forall_apply_eq_imp_iff₂, Bool.not_eq_true]
      exact fun N hN => (hgood N hN).nd
    · simp only [HermOK]
      exact ⟨hermNode_kron _ (fun N hN => (hgood N hN).herm.node), fun N hN => (hgood N hN).herm⟩

omit [StarRing R] [DecidableEq R] in
theorem kron2_congr {r c r' c' : Nat} {a a' b b' : MatF R} (ha : EqOn r c a a')
    (hb : EqOn r' c' b b') : EqOn (r * r') (c * c') (kron2 r' c' a b) (kron2 r' c' a' b') := by
  intro I J hI hJ
  have hr : 0 < r' := by
    rcases Nat.eq_zero_or_pos r' with h0 | h0
    · rw [h0] at hI; simp at hI
    · exact h0
  have hc : 0 < c' := by
    rcases Nat.eq_zero_or_pos c' with h0 | h0
    · rw [h0] at hJ; simp at hJ
    · exact h0
  simp only [kron2]
  rw [ha _ _ (Nat.div_lt_of_lt_mul (by rwa [Nat.mul_comm] at hI))
    (Nat.div_lt_of_lt_mul (by rwa [Nat.mul_comm] at hJ)),
    hb _ _ (Nat.mod_lt _ hr) (Nat.mod_lt _ hc)]

/-! ## `kronsum` -/

def kronsumParts (A : Op R) : List (Op R) := (kronsumMembers A).getD [A]

theorem kronsumRule_eq (A B : Op R) :
    kronsumRule A B = mkKronSum (kronsumParts A ++ kronsumParts B) := by
  unfold kronsumRule kronsumParts
  cases kronsumMembers A <;> cases kronsumMembers B <;> simp

structure KronsumParts (A : Op R) (L : List (Op R)) : Prop where
  ne : L ≠ []
  good : ∀ M ∈ L, Op.Good M
  rp : (L.map (·.rows)).prod = A.rows
  cp : (L.map (·.cols)).prod = A.cols
  den : ∀ I J, kronSumDen (L.map facDen) I J = A.den.f I J

theorem kronsumParts_spec (A : Op R) (hg : Op.Good A) : KronsumParts A (kronsumParts A) := by
  have hc := coreRel A
  unfold kronsumParts kronsumMembers
  split
  · rename_i Ms heq
    rw [heq] at hc
    have hgs := hc.good hg
    simp only [Option.getD_some]
    refine ⟨?_, hgs.kronsum_mem, ?_, ?_, ?_⟩
    · intro e; subst e
      have := hgs.wf; simp [Op.wf] at this
    · have := hc.rows; simp only [Op.rows] at this; exact this
    · have := hc.cols; simp only [Op.cols] at this; exact this
    · intro I J
      rw [← hc.den]
      simp only [Op.den, forceV_f]
      rfl
  · simp only [Option.getD_none]
    refine ⟨by simp, ?_, by simp, by simp, ?_⟩
    · intro M hM; rw [List.mem_singleton.mp hM]; exact hg
    · intro I J
      simp [kronSumDen, unravel, kronSumEntry, facDen]

/-- **rule `kronsum`**: nested Kronecker sums are flattened into one `KronSum`; a non-square
member is rejected; the result represents `A ⊗ I + I ⊗ B`. -/
theorem kronsumRule_sound (A B : Op R) (v : Val R) (hgA : Op.Good A) (hgB : Op.Good B)
    (h : kronsumRule A B = .ok v) :
    A.rows = A.cols ∧ B.rows = B.cols ∧ ∃ K, v = .op K ∧
      K.Rep (A.rows * B.rows) (A.cols * B.cols)
        (addM (kron2 B.rows B.cols A.den.f eyeM) (kron2 B.rows B.cols eyeM B.den.f)) ∧
      Op.Good K := by
  rw [kronsumRule_eq] at h
  have pA := kronsumParts_spec A hgA
  have pB := kronsumParts_spec B hgB
  simp only [mkKronSum] at h
  split at h
  · rename_i hall
    injection h with h
    subst h
    rw [List.all_eq_true] at hall
    have hsq : ∀ N ∈ kronsumParts A ++ kronsumParts B, N.rows = N.cols := by
      intro N hN
      simpa using hall N hN
    have hgood : ∀ N ∈ kronsumParts A ++ kronsumParts B, Op.Good N := by
      intro N hN
      rcases List.mem_append.mp hN with hN | hN
      · exact pA.good N hN
      · exact pB.good N hN
    have hsqF : ∀ P ∈ (kronsumParts A).map facDen ++ (kronsumParts B).map facDen, P.r = P.c := by
      intro P hP
      rw [← List.map_append] at hP
      obtain ⟨N, hN, rfl⟩ := List.mem_map.mp hP
      exact hsq N hN
    have hA : A.rows = A.cols := by
      rw [← pA.rp, ← pA.cp]
      congr 1
      exact List.map_congr_left (fun N hN => hsq N (List.mem_append_left _ hN))
    have hB : B.rows = B.cols := by
      rw [← pB.rp, ← pB.cp]
      congr 1
      exact List.map_congr_left (fun N hN => hsq N (List.mem_append_right _ hN))
    have hwf : (kronsum (kronsumParts A ++ kronsumParts B)).wf = true := by
      simp only [Op.wf, Bool.and_eq_true, List.all_eq_true, List.mem_map, id,
        forall_exists_index, and_imp, forall_apply_eq_imp_iff₂, beq_iff_eq]
      refine ⟨⟨?_, fun N hN => (hgood N hN).wf⟩, hsq⟩
      have := pA.ne
      cases hk : kronsumParts A with
      | nil => exact absurd hk this
      | cons _ _ => simp
    refine ⟨hA, hB, _, rfl, ⟨?_, ?_, ?_⟩, ⟨hwf, ?_, ?_⟩⟩
    · simp only [Op.rows, List.map_append, List.prod_append, pA.rp, pB.rp]
    · simp only [Op.cols, List.map_append, List.prod_append, pA.cp, pB.cp]
    · intro I J hI hJ
      simp only [Op.den, forceV_f, List.map_append]
      show kronSumDen ((kronsumParts A).map facDen ++ (kronsumParts B).map facDen) I J = _
      rw [kronSumDen_append _ _ hsqF I J
        (by rw [map_facDen_r, map_facDen_r, pA.rp, pB.rp]; exact hI)
        (by rw [map_facDen_c, map_facDen_c, pA.cp, pB.cp]; exact hJ)]
      simp only [addM, kron2, map_facDen_r, map_facDen_c, pB.rp, pB.cp, pA.den, pB.den]
    · simp only [Op.dupSlice, List.any_eq_false, List.mem_map, id, forall_exists_index, and_imp,
        forall_apply_eq_imp_iff₂, Bool.not_eq_true]
      exact fun N hN => (hgood N hN).nd
    · simp only [HermOK]
      exact ⟨hermNode_of_no_anns _ (anns_kronsum _), fun N hN => (hgood N hN).herm⟩
  · cases h


/-! ## `block_diag`, built-in `sum`, `to_dense`, `no_dispatch` -/

/-- evaluated operands against their meanings, pointwise -/
def RepAll (vs : List (Val R)) (ms : List (Nat × Nat × MatF R)) : Prop :=
  List.Forall₂ (fun v m => v.Rep m.1 m.2.1 m.2.2 ∧ v.Good) vs ms

theorem RepAll.rows {vs : List (Val R)} {ms : List (Nat × Nat × MatF R)} (h : RepAll vs ms) :
    vs.map (fun v => (lazifyV v).rows) = ms.map (·.1) := by
  induction h with
  | nil => rfl
  | cons hd _ ih =>
    simp only [List.map_cons, ih, (lazifyV_rep hd.1).1]

theorem RepAll.cols {vs : List (Val R)} {ms : List (Nat × Nat × MatF R)} (h : RepAll vs ms) :
    vs.map (fun v => (lazifyV v).cols) = ms.map (·.2.1) := by
  induction h with
  | nil => rfl
  | cons hd _ ih =>
    simp only [List.map_cons, ih, (lazifyV_rep hd.1).2.1]

theorem RepAll.good {vs : List (Val R)} {ms : List (Nat × Nat × MatF R)} (h : RepAll vs ms) :
    ∀ v ∈ vs, v.Good := by
  induction h with
  | nil => intro v hv; cases hv
  | cons hd _ ih =>
    intro v hv
    rcases List.mem_cons.mp hv with rfl | hv
    · exact hd.2
    · exact ih v hv

theorem RepAll.blocks {vs : List (Val R)} {ms : List (Nat × Nat × MatF R)} (h : RepAll vs ms) :
    List.Forall₂ (fun p q => p.1 = q.1 ∧ p.2.1 = q.2.1 ∧ EqOn p.1 p.2.1 p.2.2 q.2.2)
      (vs.map (fun v => ((facDen (lazifyV v)).r, (facDen (lazifyV v)).c, (facDen (lazifyV v)).a)))
      ms := by
  induction h with
  | nil => exact List.Forall₂.nil
  | cons hd _ ih =>
    rw [List.map_cons]
    refine List.Forall₂.cons ?_ ih
    obtain ⟨h1, h2, h3⟩ := lazifyV_rep hd.1
    refine ⟨h1, h2, ?_⟩
    simp only [facDen]
    rw [h1, h2]
    exact h3

/-- **`block_diag`** of evaluated operands (arrays are lazified, all multiplicities one) -/
theorem bdiag_sound (vs : List (Val R)) (ms : List (Nat × Nat × MatF R)) (h : RepAll vs ms)
    (hne : vs ≠ []) :
    (Op.bdiag (vs.map lazifyV) (vs.map fun _ => 1)).Rep (ms.map (·.1)).sum (ms.map (·.2.1)).sum
        (blockDiagM ms) ∧
      Op.Good (Op.bdiag (vs.map lazifyV) (vs.map fun _ => 1)) := by
  have hgood : ∀ N ∈ vs.map lazifyV, Op.Good N := by
    intro N hN
    obtain ⟨v, hv, rfl⟩ := List.mem_map.mp hN
    exact lazifyV_good (h.good v hv)
  refine ⟨⟨?_, ?_, ?_⟩, ⟨?_, ?_, ?_⟩⟩
  · simp only [Op.rows, List.map_map]
    rw [← h.rows]
    exact dotSum_ones (fun v => (lazifyV v).rows) vs
  · simp only [Op.cols, List.map_map]
    rw [← h.cols]
    exact dotSum_ones (fun v => (lazifyV v).cols) vs
  · intro I J _ _
    simp only [Op.den, forceV_f]
    show bdiagDen (((vs.map lazifyV).map facDen).zip (vs.map fun _ => 1)) I J = _
    unfold bdiagDen
    rw [expandBlocks_ones facDen lazifyV vs]
    exact blockDiagM_congr _ _ h.blocks I J
  · simp only [Op.wf, Bool.and_eq_true, List.all_eq_true, List.mem_map, id,
      forall_exists_index, and_imp, forall_apply_eq_imp_iff₂, List.length_map, beq_self_eq_true,
      and_true]
    refine ⟨?_, fun v hv => (hgood _ (List.mem_map.mpr ⟨v, hv, rfl⟩)).wf⟩
    cases vs with
    | nil => exact absurd rfl hne
    | cons _ _ => simp
  · simp only [Op.dupSlice, List.any_eq_false, List.mem_map, id, forall_exists_index, and_imp,
      forall_apply_eq_imp_iff₂, Bool.not_eq_true]
    exact fun v hv => (hgood _ (List.mem_map.mpr ⟨v, hv, rfl⟩)).nd
  · simp only [HermOK]
    exact ⟨hermNode_bdiag _ _ (fun N hN => (hgood N hN).herm.node), fun N hN => (hgood N hN).herm⟩

theorem bind_ok {α β : Type} {x : Except String α} {f : α → Except String β} {b : β}
    (h : (x >>= f) = .ok b) : ∃ a, x = .ok a ∧ f a = .ok b := by
  cases x with
  | error e => cases h
  | ok a => exact ⟨a, rfl, h⟩

/-- **built-in `sum`**: the left-to-right accumulation `((x₁ + x₂) + x₃) + …` -/
theorem foldlM_addV_sound : ∀ (rest : List (Val R)) (ms : List (Nat × Nat × MatF R)),
    RepAll rest ms → ∀ (acc : Val R) (r c : Nat) (M : MatF R) (v : Val R),
    acc.Rep r c M → acc.Good → rest.foldlM (fun acc w => addV acc w) acc = .ok v →
    (∀ m ∈ ms, m.1 = r ∧ m.2.1 = c) ∧
      v.Rep r c (addM M ((ms.map (·.2.2)).foldr addM zeroM)) ∧ v.Good := by
  intro rest ms h
  induction h with
  | nil =>
    intro acc r c M v ha hg hv
    simp only [List.foldlM_nil, pure, Except.pure] at hv
    injection hv with hv
    subst hv
    refine ⟨fun m hm => (by cases hm), ha.congr ?_, hg⟩
    intro i j _ _
    simp [addM, zeroM]
  | @cons w m rest ms hd _ ih =>
    intro acc r c M v ha hg hv
    rw [List.foldlM_cons] at hv
    obtain ⟨acc', h1, h2⟩ := bind_ok hv
    obtain ⟨e1, e2, ha', hg'⟩ := addV_sound acc w acc' ha hd.1 hg hd.2 h1
    obtain ⟨hs, hr, hgv⟩ := ih acc' r c _ v ha' hg' h2
    refine ⟨?_, hr.congr ?_, hgv⟩
    · intro m' hm'
      rcases List.mem_cons.mp hm' with rfl | hm'
      · exact ⟨e1.symm, e2.symm⟩
      · exact hs m' hm'
    · intro i j _ _
      simp only [addM, List.map_cons, List.foldr_cons, add_assoc]

/-- **`to_dense`** -/
theorem densify_sound (A : Op R) (hg : Op.Good A) {r c : Nat} {M : MatF R} (h : A.Rep r c M) :
    (Val.arr A.dtype A.rows A.cols A.td.f).Rep r c M := by
  obtain ⟨h1, h2, h3⟩ := h
  subst h1 h2
  exact ⟨rfl, rfl, (Op.td_eq A hg.wf hg.nd hg.herm).trans h3⟩

/-- **`no_dispatch`** -/
theorem generic_rep (A : Op R) {r c : Nat} {M : MatF R} (h : A.Rep r c M) :
    (generic A).Rep r c M := by
  obtain ⟨h1, h2, h3⟩ := h
  refine ⟨by simp only [Op.rows]; exact h1, by simp only [Op.cols]; exact h2, ?_⟩
  simp only [Op.den]
  exact h3

end ExprSound

/-! ## hypotheses on the expression -/

namespace Ex

mutual
/-- `P` holds at every node of the expression -/
def All (P : Ex R → Prop) : Ex R → Prop
  | op A => P (op A)
  | arr dt r c a => P (arr dt r c a)
  | add x y => P (add x y) ∧ All P x ∧ All P y
  | sub x y => P (sub x y) ∧ All P x ∧ All P y
  | neg x => P (neg x) ∧ All P x
  | smul c x => P (smul c x) ∧ All P x
  | muls x c => P (muls x c) ∧ All P x
  | divs x c => P (divs x c) ∧ All P x
  | sdiv c x => P (sdiv c x) ∧ All P x
  | addz x => P (addz x) ∧ All P x
  | matmul x y => P (matmul x y) ∧ All P x ∧ All P y
  | kron x y => P (kron x y) ∧ All P x ∧ All P y
  | kronsum x y => P (kronsum x y) ∧ All P x ∧ All P y
  | bdiag xs => P (bdiag xs) ∧ AllL P xs
  | sumList xs => P (sumList xs) ∧ AllL P xs
  | lazify x => P (lazify x) ∧ All P x
  | densify x => P (densify x) ∧ All P x
  | nodispatch x => P (nodispatch x) ∧ All P x
def AllL (P : Ex R → Prop) : List (Ex R) → Prop
  | [] => True
  | x :: xs => All P x ∧ AllL P xs
end

/-- node condition of `LeavesGood` -/
def locLeaves : Ex R → Prop
  | op A => A.wf = true ∧ A.dupSlice = false ∧ A.HermOK
  | _ => True

/-- node condition of `NoScalarOverOp` -/
def locNoSdiv : Ex R → Prop
  | sdiv _ _ => False
  | _ => True

/-- node condition of `NoLossyComplex`: where `mul(A, c)` is invoked, a complex scalar meets a
complex operator -/
def locNoLossy (re : R → R) : Ex R → Prop
  | smul c x => ∀ A, eval re x = .ok (.op A) → c.cplx = false ∨ A.dtype.isComplex = true
  | muls x c => ∀ A, eval re x = .ok (.op A) → c.cplx = false ∨ A.dtype.isComplex = true
  | divs x c => ∀ A, eval re x = .ok (.op A) → c.cplx = false ∨ A.dtype.isComplex = true
  | sdiv c x => ∀ A, eval re x = .ok (.op A) → c.cplx = false ∨ A.dtype.isComplex = true
  | _ => True

/-- node condition of `HermClosed`: the `Product` nodes built by `mul` and `dot` at this node,
if they report `SelfAdjoint`, are Hermitian -/
def locHerm (re : R → R) : Ex R → Prop
  | sub _ y => ∀ vy v, eval re y = .ok vy → negV re vy = .ok v → v.HermTop
  | neg x => ∀ v, eval re (neg x) = .ok v → v.HermTop
  | smul c x => ∀ v, eval re (smul c x) = .ok v → v.HermTop
  | muls x c => ∀ v, eval re (muls x c) = .ok v → v.HermTop
  | divs x c => ∀ v, eval re (divs x c) = .ok v → v.HermTop
  | matmul x y => ∀ v, eval re (matmul x y) = .ok v → v.HermTop
  | _ => True

/-- every operator leaf is well-formed, has no repeated index in a `Sliced` node, and its nodes
that report `SelfAdjoint` are Hermitian (the hypotheses of C01) -/
def LeavesGood (e : Ex R) : Prop := e.All locLeaves

/-- **clause** (finding `scalar-over-operator`): no `c / A` node -/
def NoScalarOverOp (e : Ex R) : Prop := e.All locNoSdiv

/-- **clause** (finding `complex-scalar-real-operator`): whenever `mul(A, c)` is invoked during
the evaluation by a scalar multiple / quotient node, `c` is not complex or `A` has a complex
dtype -/
def NoLossyComplex (re : R → R) (e : Ex R) : Prop := e.All (locNoLossy re)

/-- **hypothesis** (discharged by C05 for its carrier and clauses): the `Product` nodes that
`mul` and `dot` build during the evaluation satisfy the Hermitian-node condition -/
def HermClosed (re : R → R) (e : Ex R) : Prop := e.All (locHerm re)

/-- the four node conditions together -/
def Loc (re : R → R) (e : Ex R) : Prop :=
  locLeaves e ∧ locNoSdiv e ∧ locNoLossy re e ∧ locHerm re e

mutual
theorem all_and (P Q : Ex R → Prop) : ∀ (e : Ex R), All P e → All Q e → All (fun e => P e ∧ Q e) e
  | op A, h1, h2 => by simp only [All] at *; exact ⟨h1, h2⟩
  | arr .., h1, h2 => by simp only [All] at *; exact ⟨h1, h2⟩
  | add x y, h1, h2 => by
    simp only [All] at *
    exact ⟨⟨h1.1, h2.1⟩, all_and P Q x h1.2.1 h2.2.1, all_and P Q y h1.2.2 h2.2.2⟩
  | sub x y, h1, h2 => by
    simp only [All] at *
    exact ⟨⟨h1.1, h2.1⟩, all_and P Q x h1.2.1 h2.2.1, all_and P Q y h1.2.2 h2.2.2⟩
  | matmul x y, h1, h2 => by
    simp only [All] at *
    exact ⟨⟨h1.1, h2.1⟩, all_and P Q x h1.2.1 h2.2.1, all_and P Q y h1.2.2 h2.2.2⟩
  | kron x y, h1, h2 => by
    simp only [All] at *
    exact ⟨⟨h1.1, h2.1⟩, all_and P Q x h1.2.1 h2.2.1, all_and P Q y h1.2.2 h2.2.2⟩
  | kronsum x y, h1, h2 => by
    simp only [All] at *
    exact ⟨⟨h1.1, h2.1⟩, all_and P Q x h1.2.1 h2.2.1, all_and P Q y h1.2.2 h2.2.2⟩
  | neg x, h1, h2 => by
    simp only [All] at *; exact ⟨⟨h1.1, h2.1⟩, all_and P Q x h1.2 h2.2⟩
  | smul c x, h1, h2 => by
    simp only [All] at *; exact ⟨⟨h1.1, h2.1⟩, all_and P Q x h1.2 h2.2⟩
  | muls x c, h1, h2 => by
    simp only [All] at *; exact ⟨⟨h1.1, h2.1⟩, all_and P Q x h1.2 h2.2⟩
  | divs x c, h1, h2 => by
    simp only [All] at *; exact ⟨⟨h1.1, h2.1⟩, all_and P Q x h1.2 h2.2⟩
  | sdiv c x, h1, h2 => by
    simp only [All] at *; exact ⟨⟨h1.1, h2.1⟩, all_and P Q x h1.2 h2.2⟩
  | addz x, h1, h2 => by
    simp only [All] at *; exact ⟨⟨h1.1, h2.1⟩, all_and P Q x h1.2 h2.2⟩
  | lazify x, h1, h2 => by
    simp only [All] at *; exact ⟨⟨h1.1, h2.1⟩, all_and P Q x h1.2 h2.2⟩
  | densify x, h1, h2 => by
    simp only [All] at *; exact ⟨⟨h1.1, h2.1⟩, all_and P Q x h1.2 h2.2⟩
  | nodispatch x, h1, h2 => by
    simp only [All] at *; exact ⟨⟨h1.1, h2.1⟩, all_and P Q x h1.2 h2.2⟩
  | bdiag xs, h1, h2 => by
    simp only [All] at *; exact ⟨⟨h1.1, h2.1⟩, allL_and P Q xs h1.2 h2.2⟩
  | sumList xs, h1, h2 => by
    simp only [All] at *; exact ⟨⟨h1.1, h2.1⟩, allL_and P Q xs h1.2 h2.2⟩
theorem allL_and (P Q : Ex R → Prop) : ∀ (xs : List (Ex R)), AllL P xs → AllL Q xs →
    AllL (fun e => P e ∧ Q e) xs
  | [], _, _ => by simp only [AllL]
  | x :: xs, h1, h2 => by
    simp only [AllL] at *
    exact ⟨all_and P Q x h1.1 h2.1, allL_and P Q xs h1.2 h2.2⟩
end

theorem all_loc (re : R → R) (e : Ex R) (h1 : e.LeavesGood) (h2 : e.NoScalarOverOp)
    (h3 : e.NoLossyComplex re) (h4 : e.HermClosed re) :
    e.All (Loc re) :=
  all_and _ _ e h1 (all_and _ _ e h2 (all_and _ _ e h3 h4))

end Ex

namespace ExprSound
open Op Ex

/-! ## the recursion over the expression -/

/-- soundness of the evaluation of one expression -/
def Sound (re : R → R) (e : Ex R) : Prop :=
  ∀ v, eval re e = .ok v → ∃ r c M, meaning e = some (r, c, M) ∧ v.Rep r c M ∧ v.Good

/-- soundness of the evaluation of a list of operands -/
def SoundL (re : R → R) (xs : List (Ex R)) : Prop :=
  ∀ vs, xs.mapM (eval re) = .ok vs → ∃ ms, xs.mapM meaning = some ms ∧ RepAll vs ms

omit [StarRing R] [DecidableEq R] in
theorem smulM_congr {r c : Nat} {a a' : MatF R} (s : R) (h : EqOn r c a a') :
    EqOn r c (smulM s a) (smulM s a') := by
  intro i j hi hj
  simp only [smulM]
  rw [h i j hi hj]

theorem sound_op (re : R → R) (A : Op R) (h : locLeaves (op A)) : Sound re (op A) := by
  intro v hv
  rw [Ex.eval] at hv
  injection hv with hv
  subst hv
  exact ⟨A.rows, A.cols, A.den.f, by rw [Ex.meaning], ⟨rfl, rfl, EqOn.refl _ _ _⟩, h⟩

theorem sound_arr (re : R → R) (dt : DType) (r c : Nat) (a : MatF R) :
    Sound re (arr dt r c a) := by
  intro v hv
  rw [Ex.eval] at hv
  injection hv with hv
  subst hv
  exact ⟨r, c, a, by rw [Ex.meaning], ⟨rfl, rfl, EqOn.refl _ _ _⟩, trivial⟩

theorem sound_add (re : R → R) (x y : Ex R) (ihx : Sound re x) (ihy : Sound re y) :
    Sound re (add x y) := by
  intro v h
  rw [Ex.eval] at h
  obtain ⟨vx, hx, h⟩ := bind_ok h
  obtain ⟨vy, hy, h⟩ := bind_ok h
  obtain ⟨r, c, M, mx, rx, gx⟩ := ihx vx hx
  obtain ⟨r', c', M', my, ry, gy⟩ := ihy vy hy
  obtain ⟨e1, e2, hv, hg⟩ := addV_sound vx vy v rx ry gx gy h
  subst e1 e2
  refine ⟨r, c, addM M M', ?_, hv, hg⟩
  simp [Ex.meaning, mx, my]

theorem sound_sub (re : R → R) (x y : Ex R) (ihx : Sound re x) (ihy : Sound re y)
    (hH : locHerm re (sub x y)) : Sound re (sub x y) := by
  intro v h
  rw [Ex.eval] at h
  obtain ⟨vx, hx, h⟩ := bind_ok h
  obtain ⟨vy, hy, h⟩ := bind_ok h
  obtain ⟨r, c, M, mx, rx, gx⟩ := ihx vx hx
  obtain ⟨r', c', M', my, ry, gy⟩ := ihy vy hy
  simp only [locHerm] at hH
  have hsub : ∀ {r c : Nat} {M M' : MatF R},
      EqOn r c (addM M fun i j => -(M' i j)) (fun i j => M i j - M' i j) := by
    intro r c M M' i j _ _
    simp only [addM, sub_eq_add_neg]
  cases vx with
  | op A =>
    simp only at h
    obtain ⟨nv, hn, h⟩ := bind_ok h
    obtain ⟨rn, gn, _⟩ := negV_sound re vy nv ry gy hn (hH vy nv hy hn)
    obtain ⟨e1, e2, hv, hg⟩ := addV_sound _ nv v rx rn gx gn h
    subst e1 e2
    refine ⟨r, c, _, ?_, hv.congr hsub, hg⟩
    simp [Ex.meaning, mx, my]
  | arr dx rx' cx a =>
    cases vy with
    | op B =>
      simp only at h
      obtain ⟨nv, hn, h⟩ := bind_ok h
      obtain ⟨rn, gn, _⟩ := negV_sound re _ nv ry gy hn (hH _ nv hy hn)
      obtain ⟨e1, e2, hv, hg⟩ := addV_sound nv _ v rn rx gn gx h
      subst e1 e2
      refine ⟨r', c', (fun i j => M i j - M' i j), ?_, hv.congr ?_, hg⟩
      · simp [Ex.meaning, mx, my]
      · intro i j _ _
        simp only [addM, sub_eq_add_neg, add_comm]
    | arr dy ry' cy b =>
      simp only at h
      have hn : negV re (Val.arr dy ry' cy b) = .ok (negArr (Val.arr dy ry' cy b)) := rfl
      obtain ⟨rn, gn, _⟩ := negV_sound re _ _ ry gy hn trivial
      obtain ⟨e1, e2, hv, hg⟩ := addV_sound _ _ v rx rn gx gn h
      subst e1 e2
      refine ⟨r, c, _, ?_, hv.congr hsub, hg⟩
      simp [Ex.meaning, mx, my]

theorem sound_neg (re : R → R) (x : Ex R) (ihx : Sound re x) (hH : locHerm re (neg x)) :
    Sound re (neg x) := by
  intro v h0
  have h := h0
  rw [Ex.eval] at h
  obtain ⟨vx, hx, h⟩ := bind_ok h
  obtain ⟨r, c, M, mx, rx, gx⟩ := ihx vx hx
  simp only [locHerm] at hH
  obtain ⟨rn, gn, _⟩ := negV_sound re vx v rx gx h (hH v h0)
  refine ⟨r, c, _, ?_, rn, gn⟩
  simp [Ex.meaning, mx]

/-- scalar multiple of an evaluated operand (`c * x`, `x * c`, `x / c` after `1 / c`) -/
theorem scal_sound (re : R → R) (s : Scal R) (t : R) (dtf : DType → DType) (vx v : Val R)
    {r c : Nat} {M : MatF R} (rx : vx.Rep r c M) (gx : vx.Good) (hst : s.v = t)
    (hl : ∀ A, vx = .op A → s.cplx = false ∨ A.dtype.isComplex = true)
    (h : (match vx with
      | .op A => mulRule re A s
      | .arr dt r cc a => .ok (.arr (dtf dt) r cc (smulM t a))) = .ok v)
    (hH : v.HermTop) : v.Rep r c (smulM t M) ∧ v.Good := by
  cases vx with
  | op A =>
    simp only at h
    obtain ⟨B, rfl, hB, hgB⟩ := mulRule_sound re A s v (Val.good_op.mp gx) (hl A rfl) h hH
    obtain ⟨a1, a2, a3⟩ := rx
    simp only [Val.rows, Val.cols] at a1 a2
    subst a1 a2
    rw [hst] at hB
    exact ⟨Val.rep_op.mpr (hB.congr (smulM_congr t a3)), Val.good_op.mpr hgB⟩
  | arr dt r' c' a =>
    simp only at h
    injection h with h
    subst h
    obtain ⟨a1, a2, a3⟩ := rx
    exact ⟨⟨a1, a2, smulM_congr t a3⟩, trivial⟩

theorem sound_smul (re : R → R) (s : Scal R) (x : Ex R) (ihx : Sound re x)
    (hl : locNoLossy re (smul s x)) (hH : locHerm re (smul s x)) : Sound re (smul s x) := by
  intro v h0
  have h := h0
  rw [Ex.eval] at h
  obtain ⟨vx, hx, h⟩ := bind_ok h
  obtain ⟨r, c, M, mx, rx, gx⟩ := ihx vx hx
  simp only [locHerm] at hH
  simp only [locNoLossy] at hl
  obtain ⟨hv, hg⟩ := scal_sound re s s.v _ vx v rx gx rfl
    (fun A e => hl A (by rw [hx, e])) h (hH v h0)
  refine ⟨r, c, _, ?_, hv, hg⟩
  simp [Ex.meaning, mx]

theorem sound_muls (re : R → R) (x : Ex R) (s : Scal R) (ihx : Sound re x)
    (hl : locNoLossy re (muls x s)) (hH : locHerm re (muls x s)) : Sound re (muls x s) := by
  intro v h0
  have h := h0
  rw [Ex.eval] at h
  obtain ⟨vx, hx, h⟩ := bind_ok h
  obtain ⟨r, c, M, mx, rx, gx⟩ := ihx vx hx
  simp only [locHerm] at hH
  simp only [locNoLossy] at hl
  obtain ⟨hv, hg⟩ := scal_sound re s s.v _ vx v rx gx rfl
    (fun A e => hl A (by rw [hx, e])) h (hH v h0)
  refine ⟨r, c, _, ?_, hv, hg⟩
  simp [Ex.meaning, mx]

theorem sound_divs (re : R → R) (x : Ex R) (s : Scal R) (ihx : Sound re x)
    (hl : locNoLossy re (divs x s)) (hH : locHerm re (divs x s)) : Sound re (divs x s) := by
  intro v h0
  have h := h0
  rw [Ex.eval] at h
  obtain ⟨vx, hx, h⟩ := bind_ok h
  obtain ⟨r, c, M, mx, rx, gx⟩ := ihx vx hx
  simp only [locHerm] at hH
  simp only [locNoLossy] at hl
  obtain ⟨hv, hg⟩ := scal_sound re
    ⟨s.inv, s.v, if s.kind == .pyint then .pyfloat else s.kind, s.cplx⟩ s.inv
    (fun dt => arrScalDtype dt s) vx v rx gx rfl
    (fun A e => hl A (by rw [hx, e])) h (hH v h0)
  refine ⟨r, c, _, ?_, hv, hg⟩
  simp [Ex.meaning, mx]

theorem sound_addz (re : R → R) (x : Ex R) (ihx : Sound re x) : Sound re (addz x) := by
  intro v h
  rw [Ex.eval] at h
  obtain ⟨r, c, M, mx, rx, gx⟩ := ihx v h
  exact ⟨r, c, M, by rw [Ex.meaning]; exact mx, rx, gx⟩

theorem sound_matmul (re : R → R) (x y : Ex R) (ihx : Sound re x) (ihy : Sound re y)
    (hH : locHerm re (matmul x y)) : Sound re (matmul x y) := by
  intro v h0
  have h := h0
  rw [Ex.eval] at h
  obtain ⟨vx, hx, h⟩ := bind_ok h
  obtain ⟨vy, hy, h⟩ := bind_ok h
  obtain ⟨r, c, M, mx, rx, gx⟩ := ihx vx hx
  obtain ⟨r', c', M', my, ry, gy⟩ := ihy vy hy
  simp only [locHerm] at hH
  obtain ⟨e, hv, hg⟩ := matmulV_sound vx vy v rx ry gx gy h (hH v h0)
  subst e
  refine ⟨r, c', _, ?_, hv, hg⟩
  simp [Ex.meaning, mx, my]

theorem sound_kron (re : R → R) (x y : Ex R) (ihx : Sound re x) (ihy : Sound re y) :
    Sound re (kron x y) := by
  intro v h
  rw [Ex.eval] at h
  obtain ⟨vx, hx, h⟩ := bind_ok h
  obtain ⟨vy, hy, h⟩ := bind_ok h
  obtain ⟨r, c, M, mx, rx, gx⟩ := ihx vx hx
  obtain ⟨r', c', M', my, ry, gy⟩ := ihy vy hy
  obtain ⟨K, rfl, hK, hgK⟩ := kronRule_sound _ _ v (lazifyV_good gx) (lazifyV_good gy) h
  obtain ⟨a1, a2, a3⟩ := lazifyV_rep rx
  obtain ⟨b1, b2, b3⟩ := lazifyV_rep ry
  rw [a1, a2, b1, b2] at hK
  refine ⟨r * r', c * c', _, ?_, Val.rep_op.mpr (hK.congr (kron2_congr a3 b3)),
    Val.good_op.mpr hgK⟩
  simp [Ex.meaning, mx, my]

theorem sound_kronsum (re : R → R) (x y : Ex R) (ihx : Sound re x) (ihy : Sound re y) :
    Sound re (kronsum x y) := by
  intro v h
  rw [Ex.eval] at h
  obtain ⟨vx, hx, h⟩ := bind_ok h
  obtain ⟨vy, hy, h⟩ := bind_ok h
  obtain ⟨r, c, M, mx, rx, gx⟩ := ihx vx hx
  obtain ⟨r', c', M', my, ry, gy⟩ := ihy vy hy
  obtain ⟨s1, s2, K, rfl, hK, hgK⟩ :=
    kronsumRule_sound _ _ v (lazifyV_good gx) (lazifyV_good gy) h
  obtain ⟨a1, a2, a3⟩ := lazifyV_rep rx
  obtain ⟨b1, b2, b3⟩ := lazifyV_rep ry
  rw [a1, a2, b1, b2] at hK
  rw [a1, a2] at s1
  rw [b1, b2] at s2
  refine ⟨r * r', c * c', addM (kron2 r' c' M eyeM) (kron2 r' c' eyeM M'), ?_,
    Val.rep_op.mpr (hK.congr ?_), Val.good_op.mpr hgK⟩
  · simp [Ex.meaning, mx, my, s1, s2]
  · intro I J hI hJ
    simp only [addM]
    rw [kron2_congr a3 (EqOn.refl r' c' eyeM) I J hI hJ,
      kron2_congr (EqOn.refl r c eyeM) b3 I J hI hJ]

theorem sound_bdiag (re : R → R) (xs : List (Ex R)) (ih : SoundL re xs) :
    Sound re (bdiag xs) := by
  intro v h
  rw [Ex.eval] at h
  obtain ⟨vs, hvs, h⟩ := bind_ok h
  obtain ⟨ms, hms, hr⟩ := ih vs hvs
  split at h
  · cases h
  rename_i hvne
  have hvne : vs ≠ [] := fun e => hvne e
  injection h with h
  subst h
  obtain ⟨hK, hgK⟩ := bdiag_sound vs ms hr hvne
  refine ⟨_, _, _, ?_, Val.rep_op.mpr hK, Val.good_op.mpr hgK⟩
  simp [Ex.meaning, hms]

theorem sound_sumList (re : R → R) (xs : List (Ex R)) (ih : SoundL re xs) :
    Sound re (sumList xs) := by
  intro v h
  rw [Ex.eval] at h
  obtain ⟨vs, hvs, h⟩ := bind_ok h
  obtain ⟨ms, hms, hr⟩ := ih vs hvs
  cases hr with
  | nil => cases h
  | @cons v0 m0 rest ms' hd htl =>
    simp only at h
    obtain ⟨hs, hv, hg⟩ := foldlM_addV_sound rest ms' htl v0 _ _ _ v hd.1 hd.2 h
    obtain ⟨r, c, M⟩ := m0
    refine ⟨r, c, _, ?_, hv, hg⟩
    have hall : (((r, c, M) :: ms').all fun m => m.1 == r && m.2.1 == c) = true := by
      simp only [List.all_cons, beq_self_eq_true, Bool.and_self, Bool.true_and, List.all_eq_true,
        Bool.and_eq_true, beq_iff_eq]
      exact hs
    simp only [Ex.meaning, hms]
    simp only [Option.bind_eq_bind, Option.bind_some, hall, if_true]
    rfl

theorem sound_lazify (re : R → R) (x : Ex R) (ihx : Sound re x) : Sound re (lazify x) := by
  intro v h
  rw [Ex.eval] at h
  obtain ⟨vx, hx, h⟩ := bind_ok h
  obtain ⟨r, c, M, mx, rx, gx⟩ := ihx vx hx
  injection h with h
  subst h
  exact ⟨r, c, M, by rw [Ex.meaning]; exact mx, Val.rep_op.mpr (lazifyV_rep rx),
    Val.good_op.mpr (lazifyV_good gx)⟩

theorem sound_densify (re : R → R) (x : Ex R) (ihx : Sound re x) : Sound re (densify x) := by
  intro v h
  rw [Ex.eval] at h
  obtain ⟨vx, hx, h⟩ := bind_ok h
  obtain ⟨r, c, M, mx, rx, gx⟩ := ihx vx hx
  cases vx with
  | op A =>
    simp only at h
    injection h with h
    subst h
    exact ⟨r, c, M, by rw [Ex.meaning]; exact mx,
      densify_sound A (Val.good_op.mp gx) (Val.rep_op.mp rx), trivial⟩
  | arr dt r' c' a =>
    simp only at h
    injection h with h
    subst h
    exact ⟨r, c, M, by rw [Ex.meaning]; exact mx, rx, gx⟩

theorem sound_nodispatch (re : R → R) (x : Ex R) (ihx : Sound re x) :
    Sound re (nodispatch x) := by
  intro v h
  rw [Ex.eval] at h
  obtain ⟨vx, hx, h⟩ := bind_ok h
  obtain ⟨r, c, M, mx, rx, gx⟩ := ihx vx hx
  cases vx with
  | op A =>
    simp only at h
    injection h with h
    subst h
    exact ⟨r, c, M, by rw [Ex.meaning]; exact mx, Val.rep_op.mpr (generic_rep A (Val.rep_op.mp rx)),
      Val.good_op.mpr (good_generic A (Val.good_op.mp gx))⟩
  | arr dt r' c' a =>
    simp only at h
    cases h

theorem soundL_nil (re : R → R) : SoundL re [] := by
  intro vs h
  rw [List.mapM_nil] at h
  injection h with h
  subst h
  exact ⟨[], by rw [List.mapM_nil]; rfl, List.Forall₂.nil⟩

theorem soundL_cons (re : R → R) (x : Ex R) (xs : List (Ex R)) (ihx : Sound re x)
    (ih : SoundL re xs) : SoundL re (x :: xs) := by
  intro vs h
  rw [List.mapM_cons] at h
  obtain ⟨v, hv, h⟩ := bind_ok h
  obtain ⟨vs', hvs, h⟩ := bind_ok h
  injection h with h
  subst h
  obtain ⟨r, c, M, mx, rx, gx⟩ := ihx v hv
  obtain ⟨ms, hms, hr⟩ := ih vs' hvs
  refine ⟨(r, c, M) :: ms, ?_, List.Forall₂.cons ⟨rx, gx⟩ hr⟩
  rw [List.mapM_cons, mx, hms]
  rfl

mutual
/-- the recursion: every node satisfies the four node conditions ⇒ the evaluation is sound -/
theorem sound_all (re : R → R) : ∀ (e : Ex R), e.All (Loc re) → Sound re e
  | Ex.op A, h => by simp only [All] at h; exact sound_op re A h.1
  | Ex.arr dt r c a, _ => sound_arr re dt r c a
  | Ex.add x y, h => by
    simp only [All] at h
    exact sound_add re x y (sound_all re x h.2.1) (sound_all re y h.2.2)
  | Ex.sub x y, h => by
    simp only [All] at h
    exact sound_sub re x y (sound_all re x h.2.1) (sound_all re y h.2.2) h.1.2.2.2
  | Ex.neg x, h => by
    simp only [All] at h
    exact sound_neg re x (sound_all re x h.2) h.1.2.2.2
  | Ex.smul c x, h => by
    simp only [All] at h
    exact sound_smul re c x (sound_all re x h.2) h.1.2.2.1 h.1.2.2.2
  | Ex.muls x c, h => by
    simp only [All] at h
    exact sound_muls re x c (sound_all re x h.2) h.1.2.2.1 h.1.2.2.2
  | Ex.divs x c, h => by
    simp only [All] at h
    exact sound_divs re x c (sound_all re x h.2) h.1.2.2.1 h.1.2.2.2
  | Ex.sdiv c x, h => by
    simp only [All] at h
    exact absurd h.1.2.1 (by simp only [locNoSdiv, not_false_eq_true])
  | Ex.addz x, h => by
    simp only [All] at h
    exact sound_addz re x (sound_all re x h.2)
  | Ex.matmul x y, h => by
    simp only [All] at h
    exact sound_matmul re x y (sound_all re x h.2.1) (sound_all re y h.2.2) h.1.2.2.2
  | Ex.kron x y, h => by
    simp only [All] at h
    exact sound_kron re x y (sound_all re x h.2.1) (sound_all re y h.2.2)
  | Ex.kronsum x y, h => by
    simp only [All] at h
    exact sound_kronsum re x y (sound_all re x h.2.1) (sound_all re y h.2.2)
  | Ex.bdiag xs, h => by
    simp only [All] at h
    exact sound_bdiag re xs (soundL_all re xs h.2)
  | Ex.sumList xs, h => by
    simp only [All] at h
    exact sound_sumList re xs (soundL_all re xs h.2)
  | Ex.lazify x, h => by
    simp only [All] at h
    exact sound_lazify re x (sound_all re x h.2)
  | Ex.densify x, h => by
    simp only [All] at h
    exact sound_densify re x (sound_all re x h.2)
  | Ex.nodispatch x, h => by
    simp only [All] at h
    exact sound_nodispatch re x (sound_all re x h.2)
theorem soundL_all (re : R → R) : ∀ (xs : List (Ex R)), AllL (Loc re) xs → SoundL re xs
  | [], _ => soundL_nil re
  | x :: xs, h => by
    simp only [AllL] at h
    exact soundL_cons re x xs (sound_all re x h.1) (soundL_all re xs h.2)
end

end ExprSound

/-! ## dtype of the result

`Ex.dtypeSpec` / `Ex.yieldsArr` (the specification) live in `Model/Expr.lean`; the `DType` lattice
lemmas and `Op.dtype_eq_dtypeSpec` in `Lemmas/OpDtype.lean`. -/

namespace ExprSound
open Op Ex

theorem lazifyV_dtype (v : Val R) : (lazifyV v).dtype = v.dtype := by
  cases v <;> simp only [lazifyV, Val.dtype, Op.dtype]

/-- rule `mul`: the result keeps the operator's dtype -/
theorem mulRule_dtype (re : R → R) (A : Op R) (s : Scal R) (v : Val R)
    (h : mulRule re A s = .ok v) : v.dtype = A.dtype := by
  have hc := core_dtype A
  simp only [mulRule] at h
  split at h
  · rename_i dt s0 n heq
    rw [heq] at hc
    injection h with h
    subst h
    rw [← hc]
    simp only [Val.dtype, Op.dtype]
  · split at h
    · cases h
    · injection h with h
      subst h
      simp only [Val.dtype, Op.dtype, List.map_cons, List.map_nil, List.foldl_cons, List.foldl_nil,
        DType.promote_f32_left, DType.promote_self]

theorem negV_dtype (re : R → R) (x v : Val R) (h : negV re x = .ok v) : v.dtype = x.dtype := by
  cases x with
  | op A => exact mulRule_dtype re A _ v h
  | arr dt r c a =>
    simp only [negV, negArr] at h
    injection h with h
    subst h
    rfl

theorem sumParts_dtype (A : Op R) :
    ((sumParts A).map (·.dtype)).foldl DType.promote .f32 = A.dtype := by
  have hc := core_dtype A
  unfold sumParts sumMembers
  split
  · rename_i Ms heq
    rw [heq] at hc
    rw [← hc]
    simp only [Option.getD_some, Op.dtype]
  · simp [DType.promote_f32_left]

theorem prodParts_dtype (A : Op R) :
    ((prodParts A).map (·.dtype)).foldl DType.promote .f32 = A.dtype := by
  have hc := core_dtype A
  unfold prodParts prodMembers
  split
  · rename_i Ms heq
    rw [heq] at hc
    rw [← hc]
    simp only [Option.getD_some, Op.dtype]
  · simp [DType.promote_f32_left]

theorem kronParts_dtype (A : Op R) :
    ((kronParts A).map (·.dtype)).foldl DType.promote .f32 = A.dtype := by
  have hc := core_dtype A
  unfold kronParts kronMembers
  split
  · rename_i Ms heq
    rw [heq] at hc
    rw [← hc]
    simp only [Option.getD_some, Op.dtype]
  · simp [DType.promote_f32_left]

theorem kronsumParts_dtype (A : Op R) :
    ((kronsumParts A).map (·.dtype)).foldl DType.promote .f32 = A.dtype := by
  have hc := core_dtype A
  unfold kronsumParts kronsumMembers
  split
  · rename_i Ms heq
    rw [heq] at hc
    rw [← hc]
    simp only [Option.getD_some, Op.dtype]
  · simp [DType.promote_f32_left]

theorem addRule_dtype (A B : Op R) (v : Val R) (h : addRule A B = .ok v) :
    v.dtype = DType.promote A.dtype B.dtype := by
  rw [addRule_eq] at h
  simp only [mkSum] at h
  split at h
  · cases h
  · split at h
    · injection h with h
      subst h
      simp only [Val.dtype, Op.dtype, List.map_append, DType.foldl_promote_append,
        sumParts_dtype]
    · cases h

theorem addV_dtype (x y v : Val R) (h : addV x y = .ok v) :
    v.dtype = DType.promote x.dtype y.dtype := by
  cases x with
  | op A =>
    simp only [addV] at h
    rw [addRule_dtype A _ v h, lazifyV_dtype]
    simp only [Val.dtype]
  | arr dx rx cx a =>
    cases y with
    | op B =>
      simp only [addV] at h
      rw [addRule_dtype B _ v h, DType.promote_comm]
      simp only [Val.dtype, Op.dtype]
    | arr dy ry cy b =>
      simp only [addV] at h
      split at h
      · injection h with h
        subst h
        rfl
      · split at h <;> cases h

theorem absorbs_eq {A I : Op R} (h : absorbs A I = true) :
    DType.promote A.dtype I.dtype = A.dtype := by
  simpa [absorbs] using h

/-- rule `dot`: the result has the promoted dtype of the two operands — also where an identity
operand is dropped (it is dropped only if the other operand absorbs its dtype) -/
theorem dotRule_dtype (A B : Op R) (v : Val R) (h : dotRule A B = .ok v) :
    v.dtype = DType.promote A.dtype B.dtype := by
  rw [dotRule_eq] at h
  have pair : ∀ v, mkProd [A, B] = .ok v → v.dtype = DType.promote A.dtype B.dtype := by
    intro v h
    simp only [mkProd] at h
    split at h
    · injection h with h
      subst h
      simp only [Val.dtype, Op.dtype, List.map_cons, List.map_nil, List.foldl_cons, List.foldl_nil,
        DType.promote_f32_left]
    · cases h
  split at h
  · cases h
  split at h
  · split at h
    · split at h
      · rename_i hab
        injection h with h
        subst h
        show B.dtype = _
        rw [DType.promote_comm]
        exact (absorbs_eq hab).symm
      · injection h with h
        subst h
        simp only [Val.dtype, Op.dtype]
    · split at h
      · rename_i hab
        injection h with h
        subst h
        show B.dtype = _
        rw [DType.promote_comm]
        exact (absorbs_eq hab).symm
      · exact pair v h
  split at h
  · split at h
    · rename_i hab
      injection h with h
      subst h
      exact (absorbs_eq hab).symm
    · exact pair v h
  simp only [mkProd] at h
  split at h
  · injection h with h
    subst h
    simp only [Val.dtype, Op.dtype, List.map_append, DType.foldl_promote_append,
      prodParts_dtype]
  · cases h

theorem matmulV_dtype (x y v : Val R) (h : matmulV x y = .ok v) :
    v.dtype = DType.promote x.dtype y.dtype := by
  cases x with
  | op A =>
    cases y with
    | op B =>
      simp only [matmulV] at h
      exact dotRule_dtype A B v h
    | arr dy ry cy b =>
      simp only [matmulV] at h
      split at h
      · cases h
      · injection h with h
        subst h
        rfl
  | arr dx rx cx a =>
    cases y with
    | op B =>
      simp only [matmulV] at h
      split at h
      · cases h
      · injection h with h
        subst h
        rfl
    | arr dy ry cy b =>
      simp only [matmulV] at h
      split at h
      · injection h with h
        subst h
        rfl
      · cases h

theorem diagOf_dtype (A : Op R) {dt : DType} {n : Nat} {d : Nat → R}
    (h : diagOf A = some (dt, n, d)) : A.dtype = dt := by
  have hc := core_dtype A
  unfold diagOf at h
  split at h
  · rename_i dt' n' d' heq
    rw [heq] at hc
    simp only [Option.some.injEq, Prod.mk.injEq] at h
    rw [← hc, ← h.1]
    simp only [Op.dtype]
  · cases h

theorem kronRule_dtype (A B : Op R) (v : Val R) (h : kronRule A B = .ok v) :
    v.dtype = DType.promote A.dtype B.dtype := by
  rw [kronRule_eq] at h
  split at h
  · rename_i dt n d dt' m e hA hB
    injection h with h
    subst h
    rw [diagOf_dtype A hA]
    simp only [Val.dtype, Op.dtype]
  · injection h with h
    subst h
    simp only [Val.dtype, Op.dtype, List.map_append, DType.foldl_promote_append,
      kronParts_dtype]

theorem kronsumRule_dtype (A B : Op R) (v : Val R) (h : kronsumRule A B = .ok v) :
    v.dtype = DType.promote A.dtype B.dtype := by
  rw [kronsumRule_eq] at h
  simp only [mkKronSum] at h
  split at h
  · injection h with h
    subst h
    simp only [Val.dtype, Op.dtype, List.map_append, DType.foldl_promote_append,
      kronsumParts_dtype]
  · cases h

theorem foldlM_addV_dtype : ∀ (rest : List (Val R)) (acc v : Val R),
    rest.foldlM (fun acc w => addV acc w) acc = .ok v →
    v.dtype = DType.promote acc.dtype ((rest.map (·.dtype)).foldl DType.promote .f32)
  | [], acc, v, h => by
    simp only [List.foldlM_nil, pure, Except.pure] at h
    injection h with h
    subst h
    simp [DType.promote_f32_right]
  | w :: rest, acc, v, h => by
    rw [List.foldlM_cons] at h
    obtain ⟨acc', h1, h2⟩ := bind_ok h
    rw [foldlM_addV_dtype rest acc' v h2, addV_dtype acc w acc' h1, List.map_cons,
      DType.foldl_promote_cons, DType.promote_assoc]

/-! ### which values are arrays -/

theorem mulRule_isOp (re : R → R) (A : Op R) (s : Scal R) (v : Val R)
    (h : mulRule re A s = .ok v) : v.isArr = false := by
  simp only [mulRule] at h
  split at h
  · injection h with h; subst h; rfl
  · split at h
    · cases h
    · injection h with h; subst h; rfl

theorem negV_isArr (re : R → R) (x v : Val R) (h : negV re x = .ok v) : v.isArr = x.isArr := by
  cases x with
  | op A => exact mulRule_isOp re A _ v h
  | arr dt r c a =>
    simp only [negV, negArr] at h
    injection h with h
    subst h
    rfl

theorem mkSum_isOp (Ms : List (Op R)) (v : Val R) (h : mkSum Ms = .ok v) : v.isArr = false := by
  simp only [mkSum] at h
  split at h
  · cases h
  · split at h
    · injection h with h; subst h; rfl
    · cases h

theorem mkProd_isOp (Ms : List (Op R)) (v : Val R) (h : mkProd Ms = .ok v) : v.isArr = false := by
  simp only [mkProd] at h
  split at h
  · injection h with h; subst h; rfl
  · cases h

theorem mkKronSum_isOp (Ms : List (Op R)) (v : Val R) (h : mkKronSum Ms = .ok v) :
    v.isArr = false := by
  simp only [mkKronSum] at h
  split at h
  · injection h with h; subst h; rfl
  · cases h

theorem addRule_isOp (A B : Op R) (v : Val R) (h : addRule A B = .ok v) : v.isArr = false := by
  rw [addRule_eq] at h
  exact mkSum_isOp _ v h

theorem addV_isArr (x y v : Val R) (h : addV x y = .ok v) :
    v.isArr = (x.isArr && y.isArr) := by
  cases x with
  | op A =>
    simp only [addV] at h
    rw [addRule_isOp A _ v h]
    rfl
  | arr dx rx cx a =>
    cases y with
    | op B =>
      simp only [addV] at h
      rw [addRule_isOp B _ v h]
      rfl
    | arr dy ry cy b =>
      simp only [addV] at h
      split at h
      · injection h with h; subst h; rfl
      · split at h <;> cases h

theorem dotRule_isOp (A B : Op R) (v : Val R) (h : dotRule A B = .ok v) : v.isArr = false := by
  rw [dotRule_eq] at h
  split at h
  · cases h
  split at h
  · split at h
    · split at h
      · injection h with h; subst h; rfl
      · injection h with h; subst h; rfl
    · split at h
      · injection h with h; subst h; rfl
      · exact mkProd_isOp _ v h
  split at h
  · split at h
    · injection h with h; subst h; rfl
    · exact mkProd_isOp _ v h
  exact mkProd_isOp _ v h

theorem matmulV_isArr (x y v : Val R) (h : matmulV x y = .ok v) :
    v.isArr = (x.isArr || y.isArr) := by
  cases x with
  | op A =>
    cases y with
    | op B =>
      simp only [matmulV] at h
      rw [dotRule_isOp A B v h]
      rfl
    | arr dy ry cy b =>
      simp only [matmulV] at h
      split at h
      · cases h
      · injection h with h; subst h; rfl
  | arr dx rx cx a =>
    cases y with
    | op B =>
      simp only [matmulV] at h
      split at h
      · cases h
      · injection h with h; subst h; rfl
    | arr dy ry cy b =>
      simp only [matmulV] at h
      split at h
      · injection h with h; subst h; rfl
      · cases h

theorem kronRule_isOp (A B : Op R) (v : Val R) (h : kronRule A B = .ok v) : v.isArr = false := by
  rw [kronRule_eq] at h
  split at h
  · injection h with h; subst h; rfl
  · injection h with h; subst h; rfl

theorem kronsumRule_isOp (A B : Op R) (v : Val R) (h : kronsumRule A B = .ok v) :
    v.isArr = false := by
  rw [kronsumRule_eq] at h
  exact mkKronSum_isOp _ v h

theorem foldlM_addV_isArr : ∀ (rest : List (Val R)) (acc v : Val R),
    rest.foldlM (fun acc w => addV acc w) acc = .ok v →
    v.isArr = (acc.isArr && rest.all (·.isArr))
  | [], acc, v, h => by
    simp only [List.foldlM_nil, pure, Except.pure] at h
    injection h with h
    subst h
    simp
  | w :: rest, acc, v, h => by
    rw [List.foldlM_cons] at h
    obtain ⟨acc', h1, h2⟩ := bind_ok h
    rw [foldlM_addV_isArr rest acc' v h2, addV_isArr acc w acc' h1, List.all_cons, Bool.and_assoc]

mutual
/-- whether the value is a plain array is determined by the shape of the expression -/
theorem isArr_all (re : R → R) : ∀ (e : Ex R) (v : Val R), eval re e = .ok v →
    v.isArr = yieldsArr e
  | Ex.op A, v, h => by
    rw [Ex.eval] at h; injection h with h; subst h; rfl
  | Ex.arr dt r c a, v, h => by
    rw [Ex.eval] at h; injection h with h; subst h; rfl
  | Ex.add x y, v, h => by
    rw [Ex.eval] at h
    obtain ⟨vx, hx, h⟩ := bind_ok h
    obtain ⟨vy, hy, h⟩ := bind_ok h
    rw [addV_isArr vx vy v h, isArr_all re x vx hx, isArr_all re y vy hy, yieldsArr]
  | Ex.sub x y, v, h => by
    rw [Ex.eval] at h
    obtain ⟨vx, hx, h⟩ := bind_ok h
    obtain ⟨vy, hy, h⟩ := bind_ok h
    rw [yieldsArr, ← isArr_all re x vx hx, ← isArr_all re y vy hy]
    cases vx with
    | op A =>
      simp only at h
      obtain ⟨nv, hn, h⟩ := bind_ok h
      rw [addV_isArr _ nv v h]
      rfl
    | arr dx rx' cx a =>
      cases vy with
      | op B =>
        simp only at h
        obtain ⟨nv, hn, h⟩ := bind_ok h
        rw [addV_isArr nv _ v h, negV_isArr re _ nv hn]
        rfl
      | arr dy ry' cy b =>
        simp only at h
        rw [addV_isArr _ _ v h]
        rfl
  | Ex.neg x, v, h => by
    rw [Ex.eval] at h
    obtain ⟨vx, hx, h⟩ := bind_ok h
    rw [negV_isArr re vx v h, isArr_all re x vx hx, yieldsArr]
  | Ex.smul c x, v, h => by
    rw [Ex.eval] at h
    obtain ⟨vx, hx, h⟩ := bind_ok h
    rw [yieldsArr, ← isArr_all re x vx hx]
    cases vx with
    | op A => simp only at h; exact mulRule_isOp re A _ v h
    | arr dt r cc a => simp only at h; injection h with h; subst h; rfl
  | Ex.muls x c, v, h => by
    rw [Ex.eval] at h
    obtain ⟨vx, hx, h⟩ := bind_ok h
    rw [yieldsArr, ← isArr_all re x vx hx]
    cases vx with
    | op A => simp only at h; exact mulRule_isOp re A _ v h
    | arr dt r cc a => simp only at h; injection h with h; subst h; rfl
  | Ex.divs x c, v, h => by
    rw [Ex.eval] at h
    obtain ⟨vx, hx, h⟩ := bind_ok h
    rw [yieldsArr, ← isArr_all re x vx hx]
    cases vx with
    | op A => simp only at h; exact mulRule_isOp re A _ v h
    | arr dt r cc a => simp only at h; injection h with h; subst h; rfl
  | Ex.sdiv c x, v, h => by
    rw [Ex.eval] at h
    obtain ⟨vx, hx, h⟩ := bind_ok h
    rw [yieldsArr, ← isArr_all re x vx hx]
    cases vx with
    | op A => simp only at h; exact mulRule_isOp re A _ v h
    | arr dt r cc a => simp only at h; cases h
  | Ex.addz x, v, h => by
    rw [Ex.eval] at h
    rw [yieldsArr, isArr_all re x v h]
  | Ex.matmul x y, v, h => by
    rw [Ex.eval] at h
    obtain ⟨vx, hx, h⟩ := bind_ok h
    obtain ⟨vy, hy, h⟩ := bind_ok h
    rw [matmulV_isArr vx vy v h, isArr_all re x vx hx, isArr_all re y vy hy, yieldsArr]
  | Ex.kron x y, v, h => by
    rw [Ex.eval] at h
    obtain ⟨vx, hx, h⟩ := bind_ok h
    obtain ⟨vy, hy, h⟩ := bind_ok h
    rw [kronRule_isOp _ _ v h, yieldsArr]
  | Ex.kronsum x y, v, h => by
    rw [Ex.eval] at h
    obtain ⟨vx, hx, h⟩ := bind_ok h
    obtain ⟨vy, hy, h⟩ := bind_ok h
    rw [kronsumRule_isOp _ _ v h, yieldsArr]
  | Ex.bdiag xs, v, h => by
    rw [Ex.eval] at h
    obtain ⟨vs, hvs, h⟩ := bind_ok h
    split at h
    · cases h
    injection h with h
    subst h
    rw [yieldsArr]
    rfl
  | Ex.sumList xs, v, h => by
    rw [Ex.eval] at h
    obtain ⟨vs, hvs, h⟩ := bind_ok h
    rw [yieldsArr, ← isArrL_all re xs vs hvs]
    cases vs with
    | nil => cases h
    | cons v0 rest =>
      simp only at h
      rw [foldlM_addV_isArr rest v0 v h, List.all_cons]
  | Ex.lazify x, v, h => by
    rw [Ex.eval] at h
    obtain ⟨vx, hx, h⟩ := bind_ok h
    injection h with h
    subst h
    rw [yieldsArr]
    rfl
  | Ex.densify x, v, h => by
    rw [Ex.eval] at h
    obtain ⟨vx, hx, h⟩ := bind_ok h
    rw [yieldsArr]
    cases vx with
    | op A => simp only at h; injection h with h; subst h; rfl
    | arr dt r c a => simp only at h; injection h with h; subst h; rfl
  | Ex.nodispatch x, v, h => by
    rw [Ex.eval] at h
    obtain ⟨vx, hx, h⟩ := bind_ok h
    rw [yieldsArr]
    cases vx with
    | op A => simp only at h; injection h with h; subst h; rfl
    | arr dt r c a => simp only at h; cases h
theorem isArrL_all (re : R → R) : ∀ (xs : List (Ex R)) (vs : List (Val R)),
    xs.mapM (eval re) = .ok vs → vs.all (·.isArr) = yieldsArrL xs
  | [], vs, h => by
    rw [List.mapM_nil] at h
    injection h with h
    subst h
    rfl
  | x :: xs, vs, h => by
    rw [List.mapM_cons] at h
    obtain ⟨v, hv, h⟩ := bind_ok h
    obtain ⟨vs', hvs, h⟩ := bind_ok h
    injection h with h
    subst h
    rw [List.all_cons, isArr_all re x v hv, isArrL_all re xs vs' hvs, yieldsArrL]
end

/-- the dtype of the value is the dtype of the matrix expression -/
def DtOK (re : R → R) (e : Ex R) : Prop := ∀ v, eval re e = .ok v → v.dtype = Ex.dtypeSpec e
def DtOKL (re : R → R) (xs : List (Ex R)) : Prop :=
  ∀ vs, xs.mapM (eval re) = .ok vs → (vs.map (·.dtype)).foldl DType.promote .f32 = Ex.dtypeSpecL xs

theorem dt_bin (re : R → R) (x y : Ex R) (e : Ex R) (ihx : DtOK re x) (ihy : DtOK re y)
    (f : Val R → Val R → Except String (Val R))
    (he : eval re e = (do f (← eval re x) (← eval re y)))
    (hs : Ex.dtypeSpec e = DType.promote (Ex.dtypeSpec x) (Ex.dtypeSpec y))
    (hf : ∀ vx vy v, eval re x = .ok vx → eval re y = .ok vy → f vx vy = .ok v →
      v.dtype = DType.promote vx.dtype vy.dtype) : DtOK re e := by
  intro v h
  rw [he] at h
  obtain ⟨vx, hx, h⟩ := bind_ok h
  obtain ⟨vy, hy, h⟩ := bind_ok h
  rw [hf vx vy v hx hy h, ihx vx hx, ihy vy hy, hs]

theorem dt_sub (re : R → R) (x y : Ex R) (ihx : DtOK re x) (ihy : DtOK re y) :
    DtOK re (sub x y) := by
  intro v h
  rw [Ex.eval] at h
  obtain ⟨vx, hx, h⟩ := bind_ok h
  obtain ⟨vy, hy, h⟩ := bind_ok h
  rw [Ex.dtypeSpec, ← ihx vx hx, ← ihy vy hy]
  cases vx with
  | op A =>
    simp only at h
    obtain ⟨nv, hn, h⟩ := bind_ok h
    rw [addV_dtype _ nv v h, negV_dtype re vy nv hn]
  | arr dx rx' cx a =>
    cases vy with
    | op B =>
      simp only at h
      obtain ⟨nv, hn, h⟩ := bind_ok h
      rw [addV_dtype nv _ v h, negV_dtype re _ nv hn, DType.promote_comm]
    | arr dy ry' cy b =>
      simp only at h
      rw [addV_dtype _ _ v h]
      rfl

theorem dt_scal (re : R → R) (x e : Ex R) (s : Scal R) (dtf : DType → DType) (t : R)
    (ihx : DtOK re x)
    (he : eval re e = (do match ← eval re x with
      | .op A => mulRule re A s
      | .arr dt r cc a => .ok (.arr (dtf dt) r cc (smulM t a))))
    (hs : Ex.dtypeSpec e = if yieldsArr x then dtf (Ex.dtypeSpec x) else Ex.dtypeSpec x) :
    DtOK re e := by
  intro v h
  rw [he] at h
  obtain ⟨vx, hx, h⟩ := bind_ok h
  have ha := isArr_all re x vx hx
  have hd := ihx vx hx
  cases vx with
  | op A =>
    simp only at h
    have ha' : yieldsArr x = false := ha.symm
    rw [mulRule_dtype re A s v h, hs, ha', ← hd]
    rfl
  | arr dt r cc a =>
    simp only at h
    injection h with h
    subst h
    have ha' : yieldsArr x = true := ha.symm
    rw [hs, ha', ← hd]
    rfl

theorem dtL_nil (re : R → R) : DtOKL re ([] : List (Ex R)) := by
  intro vs h
  rw [List.mapM_nil] at h
  injection h with h
  subst h
  rfl

theorem dtL_cons (re : R → R) (x : Ex R) (xs : List (Ex R)) (ihx : DtOK re x)
    (ih : DtOKL re xs) : DtOKL re (x :: xs) := by
  intro vs h
  rw [List.mapM_cons] at h
  obtain ⟨v, hv, h⟩ := bind_ok h
  obtain ⟨vs', hvs, h⟩ := bind_ok h
  injection h with h
  subst h
  rw [List.map_cons, DType.foldl_promote_cons, ihx v hv, ih vs' hvs, Ex.dtypeSpecL]

theorem dt_bdiag (re : R → R) (xs : List (Ex R)) (ih : DtOKL re xs) : DtOK re (bdiag xs) := by
  intro v h
  rw [Ex.eval] at h
  obtain ⟨vs, hvs, h⟩ := bind_ok h
  split at h
  · cases h
  injection h with h
  subst h
  rw [Ex.dtypeSpec, ← ih vs hvs]
  simp only [Val.dtype, Op.dtype, List.map_map]
  congr 1
  apply List.map_congr_left
  intro w _
  exact lazifyV_dtype w

theorem dt_sumList (re : R → R) (xs : List (Ex R)) (ih : DtOKL re xs) :
    DtOK re (sumList xs) := by
  intro v h
  rw [Ex.eval] at h
  obtain ⟨vs, hvs, h⟩ := bind_ok h
  rw [Ex.dtypeSpec, ← ih vs hvs]
  cases vs with
  | nil => cases h
  | cons v0 rest =>
    simp only at h
    rw [foldlM_addV_dtype rest v0 v h, List.map_cons, DType.foldl_promote_cons]

mutual
theorem dt_all (re : R → R) : ∀ (e : Ex R), DtOK re e
  | Ex.op A => by
    intro v h; rw [Ex.eval] at h; injection h with h; subst h
    rw [Ex.dtypeSpec]; exact Op.dtype_eq_dtypeSpec A
  | Ex.arr dt r c a => by
    intro v h; rw [Ex.eval] at h; injection h with h; subst h; rfl
  | Ex.add x y => by
    exact dt_bin re x y _ (dt_all re x) (dt_all re y) addV (by rw [Ex.eval])
      (by rw [Ex.dtypeSpec]) (fun vx vy v _ _ hf => addV_dtype vx vy v hf)
  | Ex.sub x y => by
    exact dt_sub re x y (dt_all re x) (dt_all re y)
  | Ex.neg x => by
    intro v hv
    rw [Ex.eval] at hv
    obtain ⟨vx, hx, hv⟩ := bind_ok hv
    rw [negV_dtype re vx v hv, Ex.dtypeSpec, dt_all re x vx hx]
  | Ex.smul c x => by
    exact dt_scal re x _ c (fun dt => arrScalDtype dt c) c.v (dt_all re x) (by rw [Ex.eval]; rfl)
      (by rw [Ex.dtypeSpec])
  | Ex.muls x c => by
    exact dt_scal re x _ c (fun dt => arrScalDtype dt c) c.v (dt_all re x) (by rw [Ex.eval]; rfl)
      (by rw [Ex.dtypeSpec])
  | Ex.divs x c => by
    exact dt_scal re x _ ⟨c.inv, c.v, if c.kind == .pyint then .pyfloat else c.kind, c.cplx⟩
      (fun dt => arrScalDtype dt c) c.inv (dt_all re x) (by rw [Ex.eval]; rfl)
      (by rw [Ex.dtypeSpec])
  | Ex.sdiv c x => by
    intro v hv
    rw [Ex.eval] at hv
    obtain ⟨vx, hx, hv⟩ := bind_ok hv
    cases vx with
    | op A =>
      simp only at hv
      rw [mulRule_dtype re A _ v hv, Ex.dtypeSpec, ← dt_all re x _ hx]
      rfl
    | arr dt r c a => simp only at hv; cases hv
  | Ex.addz x => by
    intro v hv
    rw [Ex.eval] at hv
    rw [Ex.dtypeSpec, dt_all re x v hv]
  | Ex.matmul x y => by
    refine dt_bin re x y _ (dt_all re x) (dt_all re y) matmulV (by rw [Ex.eval])
      (by rw [Ex.dtypeSpec]) (fun vx vy v _ _ hf => matmulV_dtype vx vy v hf)
  | Ex.kron x y => by
    refine dt_bin re x y _ (dt_all re x) (dt_all re y)
      (fun a b => kronRule (lazifyV a) (lazifyV b)) (by rw [Ex.eval]) (by rw [Ex.dtypeSpec]) ?_
    intro vx vy v _ _ hf
    rw [kronRule_dtype _ _ v hf, lazifyV_dtype, lazifyV_dtype]
  | Ex.kronsum x y => by
    refine dt_bin re x y _ (dt_all re x) (dt_all re y)
      (fun a b => kronsumRule (lazifyV a) (lazifyV b)) (by rw [Ex.eval]) (by rw [Ex.dtypeSpec]) ?_
    intro vx vy v _ _ hf
    rw [kronsumRule_dtype _ _ v hf, lazifyV_dtype, lazifyV_dtype]
  | Ex.bdiag xs => by
    exact dt_bdiag re xs (dtL_all re xs)
  | Ex.sumList xs => by
    exact dt_sumList re xs (dtL_all re xs)
  | Ex.lazify x => by
    intro v hv
    rw [Ex.eval] at hv
    obtain ⟨vx, hx, hv⟩ := bind_ok hv
    injection hv with hv
    subst hv
    rw [Ex.dtypeSpec, ← dt_all re x vx hx]
    exact lazifyV_dtype vx
  | Ex.densify x => by
    intro v hv
    rw [Ex.eval] at hv
    obtain ⟨vx, hx, hv⟩ := bind_ok hv
    rw [Ex.dtypeSpec, ← dt_all re x vx hx]
    cases vx with
    | op A => simp only at hv; injection hv with hv; subst hv; rfl
    | arr dt r c a => simp only at hv; injection hv with hv; subst hv; rfl
  | Ex.nodispatch x => by
    intro v hv
    rw [Ex.eval] at hv
    obtain ⟨vx, hx, hv⟩ := bind_ok hv
    rw [Ex.dtypeSpec, ← dt_all re x vx hx]
    cases vx with
    | op A => simp only at hv; injection hv with hv; subst hv; simp only [Val.dtype, Op.dtype]
    | arr dt r c a => simp only at hv; cases hv
theorem dtL_all (re : R → R) : ∀ (xs : List (Ex R)), DtOKL re xs
  | [] => dtL_nil re
  | x :: xs => dtL_cons re x xs (dt_all re x) (dtL_all re xs)
end

end ExprSound

/-! ## the clause list printed by the driver decides the clause hypotheses -/

namespace Ex

mutual
theorem anyNode_false_iff (p : Ex R → Bool) : ∀ (e : Ex R),
    anyNode p e = false ↔ All (fun e => p e = false) e
  | op A => by simp only [anyNode, All]
  | arr .. => by simp only [anyNode, All]
  | add x y => by
    simp only [anyNode, All, Bool.or_eq_false_iff, anyNode_false_iff p x, anyNode_false_iff p y,
      and_assoc]
  | sub x y => by
    simp only [anyNode, All, Bool.or_eq_false_iff, anyNode_false_iff p x, anyNode_false_iff p y,
      and_assoc]
  | matmul x y => by
    simp only [anyNode, All, Bool.or_eq_false_iff, anyNode_false_iff p x, anyNode_false_iff p y,
      and_assoc]
  | kron x y => by
    simp only [anyNode, All, Bool.or_eq_false_iff, anyNode_false_iff p x, anyNode_false_iff p y,
      and_assoc]
  | kronsum x y => by
    simp only [anyNode, All, Bool.or_eq_false_iff, anyNode_false_iff p x, anyNode_false_iff p y,
      and_assoc]
  | neg x => by simp only [anyNode, All, Bool.or_eq_false_iff, anyNode_false_iff p x]
  | smul c x => by simp only [anyNode, All, Bool.or_eq_false_iff, anyNode_false_iff p x]
  | muls x c => by simp only [anyNode, All, Bool.or_eq_false_iff, anyNode_false_iff p x]
  | divs x c => by simp only [anyNode, All, Bool.or_eq_false_iff, anyNode_false_iff p x]
  | sdiv c x => by simp only [anyNode, All, Bool.or_eq_false_iff, anyNode_false_iff p x]
  | addz x => by simp only [anyNode, All, Bool.or_eq_false_iff, anyNode_false_iff p x]
  | lazify x => by simp only [anyNode, All, Bool.or_eq_false_iff, anyNode_false_iff p x]
  | densify x => by simp only [anyNode, All, Bool.or_eq_false_iff, anyNode_false_iff p x]
  | nodispatch x => by simp only [anyNode, All, Bool.or_eq_false_iff, anyNode_false_iff p x]
  | bdiag xs => by simp only [anyNode, All, Bool.or_eq_false_iff, anyNodeL_false_iff p xs]
  | sumList xs => by simp only [anyNode, All, Bool.or_eq_false_iff, anyNodeL_false_iff p xs]
theorem anyNodeL_false_iff (p : Ex R → Bool) : ∀ (xs : List (Ex R)),
    anyNodeL p xs = false ↔ AllL (fun e => p e = false) xs
  | [] => by simp only [anyNodeL, AllL]
  | x :: xs => by
    simp only [anyNodeL, AllL, Bool.or_eq_false_iff, anyNode_false_iff p x,
      anyNodeL_false_iff p xs]
end

mutual
theorem all_congr {P Q : Ex R → Prop} (h : ∀ e, P e ↔ Q e) : ∀ (e : Ex R), All P e ↔ All Q e
  | op A => by simp only [All, h]
  | arr .. => by simp only [All, h]
  | add x y => by simp only [All, h, all_congr h x, all_congr h y]
  | sub x y => by simp only [All, h, all_congr h x, all_congr h y]
  | matmul x y => by simp only [All, h, all_congr h x, all_congr h y]
  | kron x y => by simp only [All, h, all_congr h x, all_congr h y]
  | kronsum x y => by simp only [All, h, all_congr h x, all_congr h y]
  | neg x => by simp only [All, h, all_congr h x]
  | smul c x => by simp only [All, h, all_congr h x]
  | muls x c => by simp only [All, h, all_congr h x]
  | divs x c => by simp only [All, h, all_congr h x]
  | sdiv c x => by simp only [All, h, all_congr h x]
  | addz x => by simp only [All, h, all_congr h x]
  | lazify x => by simp only [All, h, all_congr h x]
  | densify x => by simp only [All, h, all_congr h x]
  | nodispatch x => by simp only [All, h, all_congr h x]
  | bdiag xs => by simp only [All, h, allL_congr h xs]
  | sumList xs => by simp only [All, h, allL_congr h xs]
theorem allL_congr {P Q : Ex R → Prop} (h : ∀ e, P e ↔ Q e) :
    ∀ (xs : List (Ex R)), AllL P xs ↔ AllL Q xs
  | [] => by simp only [AllL]
  | x :: xs => by simp only [AllL, all_congr h x, allL_congr h xs]
end

theorem isSdiv_false_iff (e : Ex R) : isSdiv e = false ↔ locNoSdiv e := by
  cases e <;> simp [isSdiv, locNoSdiv]

theorem lossy_aux (re : R → R) (c : Scal R) (x : Ex R) :
    (match eval re x with
      | .ok (.op A) => c.cplx && !A.dtype.isComplex
      | _ => false) = false ↔
    ∀ A, eval re x = .ok (.op A) → c.cplx = false ∨ A.dtype.isComplex = true := by
  cases hx : eval re x with
  | error m => simp
  | ok v =>
    cases v with
    | arr dt r cc a => simp
    | op B =>
      simp only [Except.ok.injEq, Val.op.injEq, forall_eq']
      cases c.cplx <;> cases B.dtype.isComplex <;> simp

theorem lossyNode_false_iff (re : R → R) (e : Ex R) :
    lossyNode re e = false ↔ locNoLossy re e := by
  cases e with
  | smul c x => simp only [lossyNode, locNoLossy]; exact lossy_aux re c x
  | muls x c => simp only [lossyNode, locNoLossy]; exact lossy_aux re c x
  | divs x c => simp only [lossyNode, locNoLossy]; exact lossy_aux re c x
  | sdiv c x => simp only [lossyNode, locNoLossy]; exact lossy_aux re c x
  | _ => simp [lossyNode, locNoLossy]

/-- **the driver's clause list decides the clause hypotheses of `C03_sound_partial`**:
`Ex.clauses re e = []` iff `e` has no `c / A` node and no lossy complex scalar multiple -/
theorem clauses_nil_iff (re : R → R) (e : Ex R) :
    clauses re e = [] ↔ e.NoScalarOverOp ∧ e.NoLossyComplex re := by
  have h1 : anyNode isSdiv e = false ↔ e.NoScalarOverOp := by
    rw [anyNode_false_iff]
    exact all_congr isSdiv_false_iff e
  have h2 : anyNode (lossyNode re) e = false ↔ e.NoLossyComplex re := by
    rw [anyNode_false_iff]
    exact all_congr (lossyNode_false_iff re) e
  rw [← h1, ← h2]
  simp only [clauses]
  cases anyNode isSdiv e <;> cases anyNode (lossyNode re) e <;> simp

end Ex
