import ColaVerif.Lemmas.CGExample3

/-!
# The residual the stopping test looks at IS the true residual (round 3)

`take_cg_step` updates `x` and `r` with the SAME step length `α` (`x += α p`, `r -= α A p`), whatever the
guards did to `α` (mask: `α = 0`; guarded division: some other `α`).  In exact arithmetic `r = b̂ - A x` is
therefore an invariant of the guarded recurrence with NO hypothesis on `A`, the preconditioner or the
guards (`gStep_res`, `gIter_res`).  Undoing the normalisation by `‖b‖` (`b ≠ 0`):

* `gState_r_true_any`, `colState_r_true` — `r̂_i = (b - A x_i) / ‖b‖` for every step `i`, `x_i = gRun … i` the
  value the code would return after `i` steps; `colState_r_norm` — `‖r̂_i‖ ‖b‖ = ‖b - A x_i‖`;
  `colState_r_rec` — the same for every column incl. zero ones, in normalised units;
* `tolEffR_true` — `tol_eff ‖b‖ = tol ‖b - A x0‖ + tol ‖b‖`;
* `run_stop_true` — the stopping rule (`run_stop_exact`) restated on true residuals of the inputs;
* `maskOffN_of_guardsOffN` — the round-1 hypothesis `GuardsOffN` implies the round-2b `MaskOffN`;
* `gState_r_true_mask`, `cgSeq_res_of_mask` — under `MaskOffN` the residual is moreover the TEXTBOOK
  residual of the textbook iterate, at every step `i ≤ k`;
* `ex3_mask`, `ex3_colState_r`, `ex3_colState_true`, `ex3_tolEff_true` — the 3 × 3 example of
  `CGExample3.lean`: residuals `e₀, ½ e₁, ⅓ e₂, 0`.
-/

namespace CG

open scoped InnerProductSpace ComplexConjugate

section abstract
variable {𝕜 E : Type*} [RCLike 𝕜] [NormedAddCommGroup E] [InnerProductSpace 𝕜 E]
variable {A M : E →ₗ[𝕜] E}

/-- `r = b - A x` is an invariant of `take_cg_step`, whatever the guards do: `x` and `r` are updated
with the SAME `α` (`x += α p`, `r -= α A p`) -/
theorem gStep_res {ε : ℝ} {b : E} {s : GState 𝕜 E} (h : s.r = b - A s.x) :
    (gStep A M ε s).r = b - A (gStep A M ε s).x := by
  unfold gStep
  simp only [map_add, map_smul, h]
  abel

theorem gIter_res (ε : ℝ) (b x0 : E) (k : ℕ) :
    ((gStep A M ε)^[k] (gInit A M b x0)).r =
      b - A ((gStep A M ε)^[k] (gInit A M b x0)).x := by
  induction k with
  | zero => rfl
  | succ k ih => rw [Function.iterate_succ_apply']; exact gStep_res ih

theorem gState_r_true_any {ε : ℝ} {b x0 : E} (hb : b ≠ 0) (k : ℕ) :
    ((gStep A M ε)^[k] (gInit A M ((nscale (𝕜 := 𝕜) b)⁻¹ • b) ((nscale (𝕜 := 𝕜) b)⁻¹ • x0))).r =
      (((‖b‖ : ℝ) : 𝕜))⁻¹ • (b - A (gRun A M ε b x0 k)) := by
  have hμ0 : (((‖b‖ : ℝ) : 𝕜)) ≠ 0 := by
    have : ‖b‖ ≠ 0 := norm_ne_zero_iff.mpr hb
    exact_mod_cast this
  rw [gIter_res]
  unfold gRun
  rw [nscale_of_ne hb, map_smul, smul_sub, smul_smul, inv_mul_cancel₀ hμ0, one_smul]

theorem gState_r_norm {ε : ℝ} {b x0 : E} (hb : b ≠ 0) (k : ℕ) :
    ‖((gStep A M ε)^[k] (gInit A M ((nscale (𝕜 := 𝕜) b)⁻¹ • b) ((nscale (𝕜 := 𝕜) b)⁻¹ • x0))).r‖ * ‖b‖ =
      ‖b - A (gRun A M ε b x0 k)‖ := by
  have hbpos : 0 < ‖b‖ := norm_pos_iff.mpr hb
  rw [gState_r_true_any hb, norm_smul, norm_inv, RCLike.norm_ofReal, abs_of_pos hbpos]
  field_simp

theorem gRun_zero_steps {ε : ℝ} {b : E} (hb : b ≠ 0) (x0 : E) : gRun A M ε b x0 0 = x0 := by
  have hμ0 : (((‖b‖ : ℝ) : 𝕜)) ≠ 0 := by
    have : ‖b‖ ≠ 0 := norm_ne_zero_iff.mpr hb
    exact_mod_cast this
  unfold gRun
  rw [nscale_of_ne hb]
  show ((‖b‖ : ℝ) : 𝕜) • ((((‖b‖ : ℝ) : 𝕜))⁻¹ • x0) = x0
  rw [smul_smul, mul_inv_cancel₀ hμ0, one_smul]

theorem MaskOffN.mono {ε : ℝ} {b x0 : E} {k i : ℕ} (h : MaskOffN A M ε b x0 k) (hi : i ≤ k) :
    MaskOffN A M ε b x0 i := fun l hl => h l (lt_of_lt_of_le hl hi)

/-- the round-1 hypothesis implies the round-2b one -/
theorem maskOffN_of_guardsOffN {ε : ℝ} {b x0 : E} (hb : b ≠ 0) {k : ℕ}
    (h : GuardsOffN A M ε b x0 k) : MaskOffN A M ε b x0 k := by
  have hbpos : 0 < ‖b‖ := norm_pos_iff.mpr hb
  have hμ0 : (((‖b‖ : ℝ) : 𝕜)) ≠ 0 := by exact_mod_cast hbpos.ne'
  intro i hi
  have h1 := (h i hi).1
  rw [cgSeq_smul (inv_ne_zero hμ0)] at h1
  change ε ≤ ‖(((‖b‖ : ℝ) : 𝕜))⁻¹ • (cgSeq A M b x0 i).r‖ at h1
  rw [norm_smul, norm_inv, RCLike.norm_ofReal, abs_of_pos hbpos, le_inv_mul_iff₀ hbpos, mul_comm] at h1
  exact h1

/-- mask version, every step up to `k` -/
theorem gState_r_true_mask (hA : A.IsSymmetric) (hM : M.IsSymmetric) (pA : PosDefOp A)
    (pM : PosDefOp M) {ε : ℝ} (hε : 0 < ε) {b x0 : E} (hb : b ≠ 0) {k : ℕ}
    (hg : MaskOffN A M ε b x0 k) {i : ℕ} (hi : i ≤ k) :
    gRun A M ε b x0 i = (cgSeq A M b x0 i).x ∧
    ((gStep A M ε)^[i] (gInit A M ((nscale (𝕜 := 𝕜) b)⁻¹ • b) ((nscale (𝕜 := 𝕜) b)⁻¹ • x0))).r =
      (((‖b‖ : ℝ) : 𝕜))⁻¹ • (b - A (gRun A M ε b x0 i)) ∧
    ((gStep A M ε)^[i] (gInit A M ((nscale (𝕜 := 𝕜) b)⁻¹ • b) ((nscale (𝕜 := 𝕜) b)⁻¹ • x0))).r =
      (((‖b‖ : ℝ) : 𝕜))⁻¹ • (cgSeq A M b x0 i).r := by
  have hok := stepOKN_of_maskOff hA hM pA pM hε hb (hg.mono hi)
  have h := gState_r_true_ok hA hM pA pM hε hb hok
  exact ⟨gRun_eq_cgSeq_ok hb hok, h.1, h.2⟩

/-- textbook residual of the textbook iterate (needs only the non-breakdown given by the mask) -/
theorem cgSeq_res_of_mask (hA : A.IsSymmetric) (hM : M.IsSymmetric) (pA : PosDefOp A)
    (pM : PosDefOp M) {ε : ℝ} (hε : 0 < ε) {b x0 : E} (hb : b ≠ 0) {k : ℕ}
    (hg : MaskOffN A M ε b x0 k) :
    (cgSeq A M b x0 k).r = b - A (cgSeq A M b x0 k).x := by
  have hok := stepOKN_of_maskOff hA hM pA pM hε hb hg
  have hnb := noBreak_of_posDef hA hM pA pM k (r_ne_zero_of_ok hε hb hok)
  exact (cgInv_all hA hM k hnb k le_rfl).res

end abstract

section matrix
open WithLp
open scoped ComplexOrder
variable {𝕜 : Type} [RCLike 𝕜] {n m : ℕ}

attribute [local instance] rcOps

/-- the recurrence residual of EVERY column (zero columns included) is the residual of the normalised
system at the normalised iterate -/
theorem colState_r_rec (A : Matrix (Fin n) (Fin n) 𝕜) (P : Option (Matrix (Fin n) (Fin n) 𝕜))
    (B X0 : Fin m → EuclideanSpace 𝕜 (Fin n)) (j : Fin m) (i : ℕ) :
    (colState A P B X0 j i).r =
      (normDen (B j))⁻¹ • B j - Matrix.toEuclideanLin A (colState A P B X0 j i).x :=
  gIter_res smallR _ _ i

theorem colState_r_true (A : Matrix (Fin n) (Fin n) 𝕜) (P : Option (Matrix (Fin n) (Fin n) 𝕜))
    (B X0 : Fin m → EuclideanSpace 𝕜 (Fin n)) (j : Fin m) (hb : B j ≠ 0) (i : ℕ) :
    (colState A P B X0 j i).r = (((‖B j‖ : ℝ) : 𝕜))⁻¹ • (B j - Matrix.toEuclideanLin A
      (gRun (Matrix.toEuclideanLin A) (precLin P) smallR (B j) (X0 j) i)) :=
  gState_r_true_any hb i

theorem colState_r_norm (A : Matrix (Fin n) (Fin n) 𝕜) (P : Option (Matrix (Fin n) (Fin n) 𝕜))
    (B X0 : Fin m → EuclideanSpace 𝕜 (Fin n)) (j : Fin m) (hb : B j ≠ 0) (i : ℕ) :
    ‖(colState A P B X0 j i).r‖ * ‖B j‖ = ‖B j - Matrix.toEuclideanLin A
      (gRun (Matrix.toEuclideanLin A) (precLin P) smallR (B j) (X0 j) i)‖ :=
  gState_r_norm hb i

/-- the effective tolerance in terms of the inputs: `tol_eff ‖b‖ = tol ‖b - A x0‖ + tol ‖b‖` -/
theorem tolEffR_true (A : Matrix (Fin n) (Fin n) 𝕜) (P : Option (Matrix (Fin n) (Fin n) 𝕜))
    (B X0 : Fin m → EuclideanSpace 𝕜 (Fin n)) (tol : ℝ) (j : Fin m) (hb : B j ≠ 0) :
    tolEffR A P B X0 tol j * ‖B j‖ =
      tol * ‖B j - Matrix.toEuclideanLin A (X0 j)‖ + tol * ‖B j‖ := by
  unfold tolEffR
  have h := colState_r_norm A P B X0 j hb 0
  rw [gRun_zero_steps hb] at h
  rw [← h]; ring

/-- **stopping rule on the TRUE residual, inputs only** -/
theorem run_stop_true (A : Matrix (Fin n) (Fin n) 𝕜) (P : Option (Matrix (Fin n) (Fin n) 𝕜))
    (B X0 : Fin m → EuclideanSpace 𝕜 (Fin n)) (maxIters : ℕ) (tol : ℝ) :
    let t := runSteps (matArr A) (P.map matArr) (colsArr B) (colsArr X0) maxIters ((tol : ℝ) : 𝕜)
    (t = maxIters ∨ ∀ j : Fin m, B j ≠ 0 →
      ‖B j - Matrix.toEuclideanLin A (xOut A P B X0 maxIters ((tol : ℝ) : 𝕜) j)‖ ≤
        tol * ‖B j - Matrix.toEuclideanLin A (X0 j)‖ + tol * ‖B j‖) ∧
    ∀ i < t, ∃ j : Fin m, tolEffR A P B X0 tol j < ‖(colState A P B X0 j i).r‖ ∧
      (B j ≠ 0 → tol * ‖B j - Matrix.toEuclideanLin A (X0 j)‖ + tol * ‖B j‖ <
        ‖B j - Matrix.toEuclideanLin A
          (gRun (Matrix.toEuclideanLin A) (precLin P) smallR (B j) (X0 j) i)‖) := by
  intro t
  obtain ⟨h1, h2⟩ := run_stop_exact A P B X0 maxIters tol
  constructor
  · rcases h1 with h | h
    · exact Or.inl h
    · right
      intro j hb
      have hbpos : 0 < ‖B j‖ := norm_pos_iff.mpr hb
      rw [← tolEffR_true A P B X0 tol j hb]
      show ‖B j - Matrix.toEuclideanLin A
        (gRun (Matrix.toEuclideanLin A) (precLin P) smallR (B j) (X0 j) t)‖ ≤ _
      rw [← colState_r_norm A P B X0 j hb t]
      exact mul_le_mul_of_nonneg_right (h j) hbpos.le
  · intro i hi
    obtain ⟨j, hj⟩ := h2 i hi
    refine ⟨j, hj, fun hb => ?_⟩
    have hbpos : 0 < ‖B j‖ := norm_pos_iff.mpr hb
    rw [← tolEffR_true A P B X0 tol j hb, ← colState_r_norm A P B X0 j hb i]
    exact mul_lt_mul_of_pos_right hj hbpos

end matrix

end CG

namespace CG
open scoped InnerProductSpace ComplexConjugate ComplexOrder
open WithLp
attribute [local instance] rcOps

local notation "A3" => Matrix.toEuclideanLin exA3
local notation "Mi" => precLin (none : Option (Matrix (Fin 3) (Fin 3) ℝ))

theorem ex3_tol_ge : smallR ≤ (1 / 10 : ℝ) := ex3_tol.r

/-- the mask hypothesis of the 3 × 3 example, from the inputs (`maskOffN_single`) and `ex3_steps` -/
theorem ex3_mask : MaskOffN A3 Mi smallR (oneCol exb3 0) (oneCol exz3 0) 3 := by
  have h : MaskOffN A3 Mi smallR (oneCol exb3 0) (oneCol exz3 0)
      (runSteps (matArr exA3) ((none : Option (Matrix (Fin 3) (Fin 3) ℝ)).map matArr)
        (colsArr (oneCol exb3)) (colsArr (oneCol exz3)) 5 (RCLike.ofReal (1 / 10 : ℝ))) :=
    maskOffN_single exA3_posDef ex3_noprec (oneCol exb3) (oneCol exz3) exb3_ne 5 ex3_tol_ge
  rw [ex3_steps] at h
  exact h

/-- the residual the stopping test of the 3 × 3 example looks at after `i ≤ 3` steps is the textbook
residual (here `‖b‖ = 1`) -/
theorem ex3_colState_r {i : ℕ} (hi : i ≤ 3) :
    (colState exA3 none (oneCol exb3) (oneCol exz3) 0 i).r = (cgSeq A3 Mi exb3 exz3 i).r := by
  have h := (gState_r_true_mask (isSymmetric_toEuclideanLin exA3_posDef) (isSymmetric_precLin ex3_noprec)
    (posDefOp_toEuclideanLin exA3_posDef) (posDefOp_precLin ex3_noprec) smallR_pos
    (b := oneCol exb3 0) (x0 := oneCol exz3 0) exb3_ne ex3_mask hi).2.2
  have e : (colState exA3 none (oneCol exb3) (oneCol exz3) 0 i).r =
      (((‖exb3‖ : ℝ) : ℝ))⁻¹ • (cgSeq A3 Mi exb3 exz3 i).r := h
  rw [e, exb3_norm, inv_one, one_smul]

theorem ex3_colState_true {i : ℕ} :
    (colState exA3 none (oneCol exb3) (oneCol exz3) 0 i).r =
      oneCol exb3 0 - A3 (gRun A3 Mi smallR (oneCol exb3 0) (oneCol exz3 0) i) := by
  have h := colState_r_true exA3 none (oneCol exb3) (oneCol exz3) 0 exb3_ne i
  have e : (colState exA3 none (oneCol exb3) (oneCol exz3) 0 i).r =
      (((‖exb3‖ : ℝ) : ℝ))⁻¹ • (oneCol exb3 0 - A3 (gRun A3 Mi smallR (oneCol exb3 0) (oneCol exz3 0) i)) := h
  rw [e, exb3_norm, inv_one, one_smul]

theorem ex3_tolEff_true :
    (1 / 10 : ℝ) * ‖oneCol exb3 0 - A3 (oneCol exz3 0)‖ + 1 / 10 * ‖oneCol exb3 0‖ = 1 / 5 := by
  show (1 / 10 : ℝ) * ‖exb3 - A3 exz3‖ + 1 / 10 * ‖exb3‖ = 1 / 5
  have : exb3 - A3 exz3 = exb3 := by
    unfold exz3 exb3; rw [exA3_apply, sub3]; norm_num
  rw [this, exb3_norm]; norm_num

end CG
