import Mathlib.Analysis.InnerProductSpace.PiL2
import Mathlib.Analysis.Matrix.Hermitian
import ColaVerif.Lemmas.LanczosGrade

/-!
# A concrete Lanczos run (exact rationals) and a witness of the `eigh` contract

`A = [[2,1],[1,2]]`, `v = e₀`, `n = 2`, `max_iters = 5`, `tol = 0`:

* `ex2_run`: the model returns `k = 2` columns `e₀, e₁`, `T = [[2,1],[1,2]]`, residual `0` — derived
  from the conclusions of the single-vector theorem (`single_out`), no evaluation of the model;
* `eigh2`, `ex2_eigh_contract`: an exact eigensolver for `[[a,b],[b,a]]` satisfies the hypothesis
  `eigh_contract` of `C14_lanczos_eigs` on this run;
* `isGrade_two_of_not_eigen`, `ex2_grade`, `ex2_grade'`: both unit vectors have grade `2`.
-/

open scoped InnerProductSpace
open Finset WithLp

namespace Lanczos

attribute [local instance] exactNum exactVec

/-- `[[2, 1], [1, 2]]` -/
def exM2 : Matrix (Fin 2) (Fin 2) ℝ := !![2, 1; 1, 2]

local notation "A2" => Matrix.toEuclideanLin exM2

noncomputable def exv2 : EuclideanSpace ℝ (Fin 2) := !₂[1, 0]

theorem exM2_apply (a b : ℝ) : A2 !₂[a, b] = !₂[2 * a + b, a + 2 * b] := by
  apply ofLp_injective 2
  funext i
  fin_cases i <;> simp [exM2, Matrix.toLpLin_apply] <;> ring

theorem inner2 (a b c d : ℝ) : ⟪!₂[a, b], !₂[c, d]⟫_ℝ = a * c + b * d := by
  simp [PiLp.inner_apply, Fin.sum_univ_two]
  ring

theorem add2 (a b c d : ℝ) : (!₂[a, b] : EuclideanSpace ℝ (Fin 2)) + !₂[c, d] = !₂[a + c, b + d] := by
  apply ofLp_injective 2; funext i; fin_cases i <;> simp
theorem sub2 (a b c d : ℝ) : (!₂[a, b] : EuclideanSpace ℝ (Fin 2)) - !₂[c, d] = !₂[a - c, b - d] := by
  apply ofLp_injective 2; funext i; fin_cases i <;> simp
theorem smul2 (t a b : ℝ) : t • (!₂[a, b] : EuclideanSpace ℝ (Fin 2)) = !₂[t * a, t * b] := by
  apply ofLp_injective 2; funext i; fin_cases i <;> simp
theorem norm2 (a b : ℝ) : ‖(!₂[a, b] : EuclideanSpace ℝ (Fin 2))‖ = Real.sqrt (a ^ 2 + b ^ 2) := by
  rw [EuclideanSpace.norm_eq]; simp [Fin.sum_univ_two]

theorem exM2_symm : (A2).IsSymmetric := by
  rw [Matrix.isSymmetric_toEuclideanLin_iff]
  ext i j
  fin_cases i <;> fin_cases j <;> simp [exM2, Matrix.conjTranspose]

theorem exv2_norm : ‖exv2‖ = 1 := by unfold exv2; rw [norm2]; norm_num
theorem exv2_ne : exv2 ≠ 0 := by
  intro h; have := exv2_norm; rw [h, norm_zero] at this; exact zero_ne_one this

/-- the run on `([[2,1],[1,2]], e₀)` with `max_iters = 5`, `tol = 0`: two columns `e₀, e₁` and
`T = [[2,1],[1,2]]` — derived from the conclusions of the single-vector theorem -/
theorem ex2_run :
    let o := lanczosExact A2 2 #[exv2] 5 0
    o.iters = 2 ∧ (o.beta.getD 0 #[]).size = 2 ∧ o.q 0 0 = !₂[1, 0] ∧ o.q 0 1 = !₂[0, 1] ∧
      o.T 0 0 0 = 2 ∧ o.T 0 1 0 = 1 ∧ o.T 0 0 1 = 1 ∧ o.T 0 1 1 = 2 ∧ o.resid A2 0 = 0 := by
  intro o
  obtain ⟨hk1, hkm, _, _, hbs, _, hspec, hexit⟩ :=
    single_out A2 exM2_symm 2 5 exv2 0 exv2_ne (le_refl _) (by decide)
  have hpos : 0 < o.iters := hk1
  have hq0 : o.q 0 0 = !₂[1, 0] := by
    rw [hspec.first, exv2_norm]; simp [exv2]
  have hT00 : o.T 0 0 0 = 2 := by
    rw [← hspec.proj 0 0 hpos hpos, hq0, exM2_apply, inner2]; norm_num
  -- one column is impossible: the residual `A e₀ - 2 e₀ = e₁` is not zero
  have hk2 : o.iters = 2 := by
    have hle : o.iters ≤ 2 := by simpa using hkm
    by_contra hne
    have h1 : o.iters = 1 := by omega
    rcases hexit with hcap | ⟨β₁, _, _, hle'⟩
    · exact hne (by simpa using hcap)
    · rw [zero_mul] at hle'
      have hr0 : o.resid A2 0 = 0 := norm_le_zero_iff.mp hle'
      have hrel := hspec.rel 0 hpos
      rw [h1] at hrel
      simp only [Finset.sum_range_one, zero_add, if_true] at hrel
      rw [hr0, hT00, hq0, exM2_apply, smul2, sub2] at hrel
      have := congrArg (fun x : EuclideanSpace ℝ (Fin 2) => x 1) hrel
      simp at this
  rw [hk2] at hspec hbs
  -- the second column
  obtain ⟨x, hx0, hx⟩ := hspec.offdiag_pos 0 (by omega)
  have hrel := hspec.rel 0 (by omega)
  simp only [Finset.sum_range_succ, Finset.sum_range_zero, zero_add] at hrel
  rw [if_neg (by omega), hT00, hq0, hx, exM2_apply, smul2] at hrel
  have hxq : (x : ℝ) • o.q 0 1 = !₂[0, 1] := by
    have : (!₂[2 * 1 + 0, 1 + 2 * 0] : EuclideanSpace ℝ (Fin 2)) - (!₂[2 * 1, 2 * 0] + (x : ℝ) • o.q 0 1) = 0 := hrel
    have h2 : (x : ℝ) • o.q 0 1 = !₂[2 * 1 + 0, 1 + 2 * 0] - !₂[2 * 1, 2 * 0] := by
      rw [sub_eq_zero] at this
      rw [this]; abel
    rw [h2, sub2]; norm_num
  have hq1n : ‖o.q 0 1‖ = 1 := hspec.orthonormal.1 ⟨1, by omega⟩
  have hx1 : x = 1 := by
    have := congrArg norm hxq
    rw [norm_smul, hq1n, norm2, Real.norm_eq_abs, abs_of_pos hx0] at this
    norm_num at this
    exact this
  have hq1 : o.q 0 1 = !₂[0, 1] := by rw [← hxq, hx1, one_smul]
  have hT10 : o.T 0 1 0 = 1 := by rw [hx, hx1]; rfl
  have hT01 : o.T 0 0 1 = 1 := by rw [hspec.symm 0 1 (by omega) (by omega), hT10]
  have hT11 : o.T 0 1 1 = 2 := by
    rw [← hspec.proj 1 1 (by omega) (by omega), hq1, exM2_apply, inner2]; norm_num
  refine ⟨hk2, hbs, hq0, hq1, hT00, hT10, hT01, hT11, ?_⟩
  have hrel1 := hspec.rel 1 (by omega)
  simp only [Finset.sum_range_succ, Finset.sum_range_zero, zero_add, if_true] at hrel1
  rw [← hrel1, hT01, hT11, hq0, hq1, exM2_apply, smul2, smul2, add2, sub2]
  apply ofLp_injective 2
  funext i
  fin_cases i <;> norm_num

/-- an exact eigensolver for the matrices `[[a, b], [b, a]]`: values `a - b`, `a + b`, eigenvector
columns `(1, -1)`, `(1, 1)` (read off the dense array it is given) -/
noncomputable def eigh2 (D : Array (Array ℝ)) : Array ℝ × Array (Array ℝ) :=
  let a := (D.getD 0 #[]).getD 0 0
  let b := (D.getD 0 #[]).getD 1 0
  (#[a - b, a + b], #[#[1, -1], #[1, 1]])

theorem tridiagDense_two (α β : Array ℝ) (hβ : β.size = 2) :
    ((tridiagDense (K := ℝ) α β).getD 0 #[]).getD 0 0 = tridiagEntry (K := ℝ) α β 0 0 ∧
    ((tridiagDense (K := ℝ) α β).getD 0 #[]).getD 1 0 = tridiagEntry (K := ℝ) α β 0 1 := by
  unfold tridiagDense
  rw [hβ]
  constructor <;> simp [Array.range, Array.getD_eq_getD_getElem?]

/-- **the contract `eigh_contract` of `C14_lanczos_eigs` is satisfiable on a concrete tridiagonal**:
`A = [[2,1],[1,2]]`, `v = e₀`, `max_iters = 5`, `tol = 0`; the run returns `T = [[2,1],[1,2]]` and
`eigh2` returns its exact eigenpairs `(1, (1,-1))`, `(3, (1,1))` -/
theorem ex2_eigh_contract :
    let o := lanczosExact A2 2 #[exv2] 5 0
    let e := eigh2 (tridiagDense (K := ℝ) (o.alpha.getD 0 #[]) (o.beta.getD 0 #[]))
    e.1.size = o.iters ∧
    ∀ j a, j < o.iters → a < o.iters →
      ∑ c ∈ range o.iters, o.T 0 a c * (e.2.getD j #[]).getD c 0 =
        e.1.getD j 0 * (e.2.getD j #[]).getD a 0 := by
  intro o e
  obtain ⟨hk, hbs, _, _, h00, h10, h01, h11, _⟩ := ex2_run
  have hk' : o.iters = 2 := hk
  obtain ⟨d0, d1⟩ := tridiagDense_two (o.alpha.getD 0 #[]) (o.beta.getD 0 #[]) hbs
  have he : e = (#[1, 3], #[#[1, -1], #[1, 1]]) := by
    show eigh2 _ = _
    unfold eigh2
    simp only [d0, d1]
    have a0 : tridiagEntry (K := ℝ) (o.alpha.getD 0 #[]) (o.beta.getD 0 #[]) 0 0 = 2 := h00
    have a1 : tridiagEntry (K := ℝ) (o.alpha.getD 0 #[]) (o.beta.getD 0 #[]) 0 1 = 1 := h01
    rw [a0, a1]; norm_num
  rw [hk', he]
  refine ⟨rfl, ?_⟩
  intro j a hj ha
  have hT : ∀ a c, a < 2 → c < 2 → o.T 0 a c = if a = c then 2 else 1 := by
    intro a c ha hc
    interval_cases a <;> interval_cases c <;> simp <;>
      first | exact h00 | exact h10 | exact h01 | exact h11
  simp only [Finset.sum_range_succ, Finset.sum_range_zero, zero_add]
  rw [hT a 0 ha (by omega), hT a 1 ha (by omega)]
  interval_cases j <;> interval_cases a <;> simp <;> norm_num


/-! ## grades in the plane -/

theorem krylov_one (A : EuclideanSpace ℝ (Fin 2) →ₗ[ℝ] EuclideanSpace ℝ (Fin 2))
    (v : EuclideanSpace ℝ (Fin 2)) : krylov A v 1 = Submodule.span ℝ {v} := by
  unfold krylov
  congr 1
  ext x
  constructor
  · rintro ⟨t, rfl⟩
    have : (t : ℕ) = 0 := by have := t.2; omega
    simp
  · intro hx
    rw [Set.mem_singleton_iff] at hx
    exact ⟨⟨0, by omega⟩, by simp [hx]⟩

/-- in the plane a vector that is no eigenvector has grade `2` -/
theorem isGrade_two_of_not_eigen (A : EuclideanSpace ℝ (Fin 2) →ₗ[ℝ] EuclideanSpace ℝ (Fin 2))
    (v : EuclideanSpace ℝ (Fin 2)) (hv : v ≠ 0) (hne : ∀ c : ℝ, A v ≠ c • v) : IsGrade A v 2 := by
  have h0 : ¬ Stalls A v 0 := not_stalls_zero hv
  have h1 : ¬ Stalls A v 1 := by
    intro h
    have hmem : A v ∈ krylov A v (1 + 1) := map_krylov A v 1 v (self_mem_krylov A v (le_refl _))
    rw [show krylov A v (1 + 1) = krylov A v 1 from h, krylov_one, Submodule.mem_span_singleton] at hmem
    obtain ⟨c, hc⟩ := hmem
    exact hne c hc.symm
  have hns : ∀ d < 2, ¬ Stalls A v d := by
    intro d hd
    interval_cases d
    · exact h0
    · exact h1
  refine ⟨?_, hns⟩
  have hfr := finrank_krylov_of_nostall (A := A) (v := v) 2 hns
  have htop : krylov A v 2 = ⊤ := by
    apply Submodule.eq_top_of_finrank_eq
    rw [hfr]; simp
  unfold Stalls
  apply le_antisymm
  · rw [htop]; exact le_top
  · exact krylov_mono A v (by omega)

theorem ex2_grade : IsGrade A2 exv2 2 := by
  apply isGrade_two_of_not_eigen A2 exv2 exv2_ne
  intro c h
  unfold exv2 at h
  rw [exM2_apply, smul2] at h
  have := congrArg (fun x : EuclideanSpace ℝ (Fin 2) => x 1) h
  simp at this

noncomputable def exw2 : EuclideanSpace ℝ (Fin 2) := !₂[0, 1]

theorem exw2_ne : exw2 ≠ 0 := by
  intro h
  have := congrArg (fun x : EuclideanSpace ℝ (Fin 2) => x 1) h
  simp [exw2] at this

theorem ex2_grade' : IsGrade A2 exw2 2 := by
  apply isGrade_two_of_not_eigen A2 exw2 exw2_ne
  intro c h
  unfold exw2 at h
  rw [exM2_apply, smul2] at h
  have := congrArg (fun x : EuclideanSpace ℝ (Fin 2) => x 0) h
  simp at this

end Lanczos
