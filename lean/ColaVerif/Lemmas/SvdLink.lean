import ColaVerif.Lemmas.SvdExtra
import ColaVerif.Lemmas.SvdDot

/-!
# C16 (round 2): the Krylov rules of `svd` — the operators the MODEL returns satisfy the property

`svdKrylov` (the code model of `svd(A, k, which, Lanczos | LOBPCG)`) builds the Gram operator
with `Ex.dotRule`, slices the eigenvector operator the eigensolver returned, and takes `to_dense`
(`Op.td`) of the lazy product `A @ V @ inv(Sigma)` resp. `inv(Sigma) @ U.H @ A`.  This file proves
that the factors it RETURNS are the matrices the formulas `backsubU` / `backsubV` denote on the
represented matrices (`svdKrylov_tall_link`, `svdKrylov_wide_link`), that the Gram operator
represents `Aᴴ A` resp. `A Aᴴ` (`gram_tall_den`, `gram_wide_den`), and composes this with
`krylov_tall_spec` / `krylov_wide_spec` (`svdKrylov_tall_sound`, `svdKrylov_wide_sound`).
-/

open Matrix ExprSound

namespace Svd
open Op Ex

set_option linter.unusedSectionVars false
set_option linter.unusedVariables false

section generic
variable {R : Type} [RCLike R] [DecidableEq R]

theorem anns_diag' (dt : DType) (n : Nat) (d : Nat → R) : (Op.diag dt n d).anns = [] := by
  rw [Op.anns] <;> intros <;> simp_all

theorem good_diag' (dt : DType) (n : Nat) (d : Nat → R) : Op.Good (Op.diag dt n d) := by
  refine ⟨by simp only [Op.wf], by simp only [Op.dupSlice], ?_⟩
  simp only [HermOK]
  exact hermNode_of_no_anns _ (anns_diag' dt n d)

theorem good_dense' (dt : DType) (r c : Nat) (a : MatF R) : Op.Good (Op.dense dt r c a) := by
  refine ⟨by simp only [Op.wf], by simp only [Op.dupSlice], ?_⟩
  simp only [HermOK]
  exact hermNode_of_no_anns _ (anns_dense dt r c a)

/-- the slice `get_slice` returns is never the full slice `[:]` -/
theorem getSlice_not_full (k : Int) (w : Which) (sl : Ix) (h : getSlice k w = .ok sl) :
    slicesSymmetric Op.fullSlice sl = false := by
  unfold getSlice at h
  split at h
  · cases h
  · split at h
    · injection h with h; subst h; simp [slicesSymmetric, Op.fullSlice]
    · injection h with h; subst h; simp [slicesSymmetric, Op.fullSlice]
    · cases h

/-- `Orthonormal(W[:, sl])` for a slice `sl` of `get_slice`: annotated `Unitary` / `Stiefel` only, so it
never reports `SelfAdjoint` -/
theorem orthonormal_sliced_isa (W : Op R) (sl : Ix) (hs : slicesSymmetric Op.fullSlice sl = false) :
    (orthonormal (Op.sliced W Op.fullSlice sl)).isa .selfAdjoint = false := by
  have h0 : (Op.sliced W Op.fullSlice sl).anns = [] := by
    rw [Op.anns]
    simp [hs]
  unfold orthonormal
  split
  · simp only [Op.isa]
    rw [Op.anns, h0]
    simp [AnnSet.union, AnnSet.isa, Ann.sub]
  · simp only [Op.isa]
    rw [Op.anns, h0]
    simp [AnnSet.union, AnnSet.isa, Ann.sub]

theorem good_annot (a : Ann) (X : Op R) (hX : Op.Good X) (hn : HermNode (Op.annot a X)) :
    Op.Good (Op.annot a X) :=
  ⟨by simp only [Op.wf]; exact hX.wf, by simp only [Op.dupSlice]; exact hX.nd,
    by simp only [HermOK]; exact ⟨hn, hX.herm⟩⟩

theorem good_orthonormal (X : Op R) (hX : Op.Good X) (hisa : (orthonormal X).isa .selfAdjoint = false) :
    Op.Good (orthonormal X) := by
  have hn : HermNode (orthonormal X) := by
    intro h; rw [hisa] at h; cases h
  by_cases hsq : X.rows = X.cols
  · simp only [orthonormal, hsq, if_true] at hn ⊢
    exact good_annot _ X hX hn
  · simp only [orthonormal, hsq, if_false] at hn ⊢
    exact good_annot _ X hX hn

theorem range_getD (n i : Nat) (h : i < n) : (List.range n).getD i 0 = i := by
  rw [← List.getElem_eq_getD (h := by simpa using h) 0, List.getElem_range]

/-- the selected-columns operator `Orthonormal(W[:, sl])`: well-formed, shape, represented matrix -/
theorem sliced_cols_spec (W : Op R) (hW : Op.Good W) (sl : Ix) (pos : List Nat)
    (hres : Ix.resolve W.cols sl = some pos) (hnd : pos.Nodup)
    (hs : slicesSymmetric Op.fullSlice sl = false) :
    let V := orthonormal (Op.sliced W Op.fullSlice sl)
    Op.Good V ∧ V.rows = W.rows ∧ V.cols = pos.length ∧
      EqOn W.rows pos.length V.den.f (selCols W.den.f pos) := by
  intro V
  have hfull : Ix.resolve W.rows Op.fullSlice = some (List.range W.rows) := Ix.resolve_full W.rows
  have hg : Op.Good (Op.sliced W Op.fullSlice sl) :=
    good_sliced W Op.fullSlice sl hW (by simp [hfull]) (by simp [hres])
      (by simp [hfull, List.nodup_range]) (by simpa [hres] using hnd)
  have hden : V.den.f = (Op.sliced W Op.fullSlice sl).den.f := orthonormal_den _
  refine ⟨good_orthonormal _ hg (orthonormal_sliced_isa W sl hs), ?_, ?_, ?_⟩
  · show (orthonormal _).rows = _
    rw [orthonormal_rows]; simp [Op.rows, hfull]
  · show (orthonormal _).cols = _
    rw [orthonormal_cols]; simp [Op.cols, hres]
  · rw [hden]
    intro i j hi _
    simp only [Op.den, MatV.of_f, slicedDen, hfull, hres, Option.getD_some, selCols]
    rw [range_getD _ _ hi]

/-- `U.H` of `U = Orthonormal(W[:, sl])` is the lazy `Adjoint(U)` -/
theorem adjointRule_orthonormal_sliced (W : Op R) (sl : Ix)
    (hs : slicesSymmetric Op.fullSlice sl = false) :
    (orthonormal (Op.sliced W Op.fullSlice sl)).adjointRule =
      Op.adjoint (orthonormal (Op.sliced W Op.fullSlice sl)) := by
  have hisa := orthonormal_sliced_isa W sl hs
  have hcore : (orthonormal (Op.sliced W Op.fullSlice sl)).core = Op.sliced W Op.fullSlice sl := by
    unfold orthonormal
    split <;> simp [Op.core]
  unfold adjointRule
  rw [hcore]
  simp only [hisa]
  rfl

theorem good_adjoint' (X : Op R) (hX : Op.Good X) : Op.Good (Op.adjoint X) :=
  ⟨by simp only [Op.wf]; exact hX.wf, by simp only [Op.dupSlice]; exact hX.nd,
    by simp only [HermOK]; exact ⟨hermNode_adjoint X hX.herm.node, hX.herm⟩⟩

theorem asOp_ok {x : Except String (Val R)} {B : Op R} (h : asOp x = .ok B) : x = .ok (.op B) := by
  unfold asOp at h
  split at h
  · injection h with h; subst h; rfl
  · cases h
  · cases h

end generic

/-! ## the link, over `RCLike` scalars -/

section link
variable {𝕜 : Type} [RCLike 𝕜] [DecidableEq 𝕜]

/-- the selected positions of a `Nat` request have no repetition -/
theorem positions_nodup (n k : Nat) (w : Which) (pos : List Nat) (h : positions n (k : Int) w = .ok pos) :
    pos.Nodup := by
  cases w with
  | SM =>
    rw [positions_SM] at h
    injection h with h; subst h; exact List.nodup_range
  | LM =>
    rcases Nat.eq_zero_or_pos k with hk | hk
    · subst hk
      have : positions n ((0 : Nat) : Int) .LM = .ok (List.range n) := positions_LM_zero n
      rw [this] at h
      injection h with h; subst h; exact List.nodup_range
    · rw [positions_LM n k hk] at h
      injection h with h; subst h; exact List.nodup_range'
  | other =>
    rw [positions_other n k (by omega)] at h
    cases h

/-- **tall branch** (`A.H @ A`): what the model returns.  `A_good`: C01's hypotheses for the operand;
`W_good`: the same for the eigenvector operator the eigensolver returned (a parameter of the model).
The returned `V` is the selected columns of that operator, the returned `U` is — as a matrix — the
formula `A V Σ⁻¹` on the represented matrices. -/
theorem svdKrylov_tall_link (P : Params 𝕜) (eigs : Op 𝕜 → Eigs 𝕜) (forceTall : Bool)
    (A : Op 𝕜) (k : Nat) (w : Which) (o : KrylovOut 𝕜)
    (h : svdKrylov P eigs forceTall A (k : Int) w = .ok o) (htall : o.tall = true)
    (A_good : Op.Good A) (W_good : Op.Good (eigs o.G).W) :
    (eigs o.G).W.rows = A.cols ∧
    o.triple.U.rows = A.rows ∧ o.triple.U.cols = o.pos.length ∧
    o.triple.V.rows = A.cols ∧ o.triple.V.cols = o.pos.length ∧
    EqOn A.cols o.pos.length o.triple.V.den.f (selCols (eigs o.G).W.den.f o.pos) ∧
    EqOn A.rows o.pos.length o.triple.U.den.f
      (backsubU A.cols o.pos.length A.den.f o.triple.V.den.f
        (fun t => P.inv (P.sqrt ((eigs o.G).vals (o.pos.getD t 0))))) := by
  have hspec := svdKrylov_spec P eigs forceTall A (k : Int) w o h
  unfold svdKrylov at h
  obtain ⟨sl, hsl, h⟩ := bind_ok' h
  split at h
  · rename_i hcond
    obtain ⟨G, hG, h⟩ := bind_ok' h
    obtain ⟨V0, hV0, h⟩ := bind_ok' h
    obtain ⟨AV, hAV, h⟩ := bind_ok' h
    obtain ⟨Pr, hPr, h⟩ := bind_ok' h
    have ho := Except.ok.inj h
    obtain ⟨l, hl, hV0eq⟩ := sliceCols_resolve (eigs G).W sl V0 hV0
    subst ho
    subst hV0eq
    -- the positions
    have hpos : (Ix.resolve (eigs G).W.cols sl).getD [] = l := by rw [hl]; rfl
    have hnd : l.Nodup := by
      have := hspec.1
      simp only [hpos] at this
      exact positions_nodup _ k w l this
    have hs := getSlice_not_full (k : Int) w sl hsl
    obtain ⟨hVg, hVr, hVc, hVden⟩ := sliced_cols_spec (eigs G).W W_good sl l hl hnd hs
    -- the two products
    have hD := good_diag' (sigmaDt forceTall A.dtype) l.length
      (fun t => P.inv (P.sqrt ((eigs G).vals (l.getD t 0))))
    simp only [hpos] at hAV hPr ⊢
    obtain ⟨hdim1, AV', hAV', r1, c1, d1, pl1⟩ :=
      dot_pl A _ (PL.of_good A A_good) (PL.of_good _ hVg) _ (asOp_ok hAV)
    injection hAV' with hAV'; subst hAV'
    obtain ⟨hdim2, Pr', hPr', r2, c2, d2, pl2⟩ :=
      dot_pl AV _ pl1 (PL.of_good _ hD) _ (asOp_ok hPr)
    injection hPr' with hPr'; subst hPr'
    have hDcols : (Op.diag (sigmaDt forceTall A.dtype) l.length
        (fun t => P.inv (P.sqrt ((eigs G).vals (l.getD t 0)))) : Op 𝕜).cols = l.length := by
      simp only [Op.cols]
    have hDrows : (Op.diag (sigmaDt forceTall A.dtype) l.length
        (fun t => P.inv (P.sqrt ((eigs G).vals (l.getD t 0)))) : Op 𝕜).rows = l.length := by
      simp only [Op.rows]
    refine ⟨?_, ?_, ?_, hVr.trans ?_, hVc, ?_, ?_⟩
    · rw [← hVr]; exact hdim1.symm
    · show (orthonormal (Op.dense Pr.dtype Pr.rows Pr.cols Pr.td.f)).rows = _
      rw [orthonormal_rows]; simp only [Op.rows]; rw [r2, r1]
    · show (orthonormal (Op.dense Pr.dtype Pr.rows Pr.cols Pr.td.f)).cols = _
      rw [orthonormal_cols]; simp only [Op.cols]; rw [c2, hDcols]
    · rw [← hVr]; exact hdim1.symm
    · have : (eigs G).W.rows = A.cols := by rw [← hVr]; exact hdim1.symm
      rw [← this]; exact hVden
    · show EqOn A.rows l.length (orthonormal (Op.dense Pr.dtype Pr.rows Pr.cols Pr.td.f)).den.f _
      rw [orthonormal_den, den_dense_f]
      have htd := pl2.lin.td
      rw [r2, r1, c2, hDcols] at htd
      refine htd.trans ?_
      rw [r1, hDcols] at d2
      refine d2.trans ?_
      unfold backsubU
      rw [c1, hVc]
      refine mmul_congr ?_ ?_
      · rw [hVc] at d1; exact d1
      · rw [den_diag_f]; exact EqOn.refl _ _ _
  · -- the other branch has `tall = false`
    rename_i hcond
    obtain ⟨G, hG, h⟩ := bind_ok' h
    obtain ⟨U0, hU0, h⟩ := bind_ok' h
    obtain ⟨SU, hSU, h⟩ := bind_ok' h
    obtain ⟨Pr, hPr, h⟩ := bind_ok' h
    have ho := Except.ok.inj h
    subst ho
    cases htall

/-- **wide branch** (`A @ A.H`): the returned `U` is the selected columns of the eigenvector operator,
the returned `V` is — as a matrix — the formula `(Σ⁻¹ Uᴴ A)ᴴ` on the represented matrices (the
conjugation of `.conj().T` included). -/
theorem svdKrylov_wide_link (P : Params 𝕜) (eigs : Op 𝕜 → Eigs 𝕜) (forceTall : Bool)
    (A : Op 𝕜) (k : Nat) (w : Which) (o : KrylovOut 𝕜)
    (h : svdKrylov P eigs forceTall A (k : Int) w = .ok o) (hwide : o.tall = false)
    (A_good : Op.Good A) (W_good : Op.Good (eigs o.G).W) :
    (eigs o.G).W.rows = A.rows ∧
    o.triple.U.rows = A.rows ∧ o.triple.U.cols = o.pos.length ∧
    o.triple.V.rows = A.cols ∧ o.triple.V.cols = o.pos.length ∧
    EqOn A.rows o.pos.length o.triple.U.den.f (selCols (eigs o.G).W.den.f o.pos) ∧
    EqOn A.cols o.pos.length o.triple.V.den.f
      (backsubV A.rows o.pos.length A.den.f o.triple.U.den.f
        (fun t => P.inv (P.sqrt ((eigs o.G).vals (o.pos.getD t 0))))) := by
  have hspec := svdKrylov_spec P eigs forceTall A (k : Int) w o h
  unfold svdKrylov at h
  obtain ⟨sl, hsl, h⟩ := bind_ok' h
  split at h
  · rename_i hcond
    obtain ⟨G, hG, h⟩ := bind_ok' h
    obtain ⟨V0, hV0, h⟩ := bind_ok' h
    obtain ⟨AV, hAV, h⟩ := bind_ok' h
    obtain ⟨Pr, hPr, h⟩ := bind_ok' h
    have ho := Except.ok.inj h
    subst ho
    cases hwide
  · rename_i hcond
    obtain ⟨G, hG, h⟩ := bind_ok' h
    obtain ⟨U0, hU0, h⟩ := bind_ok' h
    obtain ⟨SU, hSU, h⟩ := bind_ok' h
    obtain ⟨Pr, hPr, h⟩ := bind_ok' h
    have ho := Except.ok.inj h
    obtain ⟨l, hl, hU0eq⟩ := sliceCols_resolve (eigs G).W sl U0 hU0
    subst ho
    subst hU0eq
    have hpos : (Ix.resolve (eigs G).W.cols sl).getD [] = l := by rw [hl]; rfl
    have hnd : l.Nodup := by
      have := hspec.1
      simp only [hpos] at this
      exact positions_nodup _ k w l this
    have hs := getSlice_not_full (k : Int) w sl hsl
    obtain ⟨hUg, hUr, hUc, hUden⟩ := sliced_cols_spec (eigs G).W W_good sl l hl hnd hs
    have hD := good_diag' (sigmaDt forceTall A.dtype) l.length
      (fun t => P.inv (P.sqrt ((eigs G).vals (l.getD t 0))))
    simp only [hpos] at hSU hPr ⊢
    rw [adjointRule_orthonormal_sliced _ sl hs] at hSU
    have hUHg := good_adjoint' _ hUg
    obtain ⟨hdim1, SU', hSU', r1, c1, d1, pl1⟩ :=
      dot_pl _ _ (PL.of_good _ hD) (PL.of_good _ hUHg) _ (asOp_ok hSU)
    injection hSU' with hSU'; subst hSU'
    obtain ⟨hdim2, Pr', hPr', r2, c2, d2, pl2⟩ :=
      dot_pl SU A pl1 (PL.of_good A A_good) _ (asOp_ok hPr)
    injection hPr' with hPr'; subst hPr'
    have hDcols : (Op.diag (sigmaDt forceTall A.dtype) l.length
        (fun t => P.inv (P.sqrt ((eigs G).vals (l.getD t 0)))) : Op 𝕜).cols = l.length := by
      simp only [Op.cols]
    have hDrows : (Op.diag (sigmaDt forceTall A.dtype) l.length
        (fun t => P.inv (P.sqrt ((eigs G).vals (l.getD t 0)))) : Op 𝕜).rows = l.length := by
      simp only [Op.rows]
    have hUHr : (Op.adjoint (orthonormal (Op.sliced (eigs G).W Op.fullSlice sl))).rows = l.length := by
      simp only [Op.rows]; exact hUc
    have hUHc : (Op.adjoint (orthonormal (Op.sliced (eigs G).W Op.fullSlice sl))).cols =
        (eigs G).W.rows := by
      simp only [Op.cols]; exact hUr
    have hWA : (eigs G).W.rows = A.rows := by rw [← hUHc, ← c1]; exact hdim2
    refine ⟨hWA, hUr.trans hWA, hUc, ?_, ?_, ?_, ?_⟩
    · show (orthonormal (Op.dense Pr.dtype Pr.cols Pr.rows _)).rows = _
      rw [orthonormal_rows]; simp only [Op.rows]; exact c2
    · show (orthonormal (Op.dense Pr.dtype Pr.cols Pr.rows _)).cols = _
      rw [orthonormal_cols]; simp only [Op.cols]; rw [r2, r1, hDrows]
    · rw [← hWA]; exact hUden
    · show EqOn A.cols l.length (orthonormal (Op.dense Pr.dtype Pr.cols Pr.rows
        (forceV Pr.cols Pr.rows (conjM (transposeM Pr.td.f))).f)).den.f _
      rw [orthonormal_den, den_dense_f, forceV_f]
      have htd := pl2.lin.td
      rw [r2, r1, c2, hDrows] at htd
      rw [r1, hDrows] at d2
      -- Pr.td = Σ⁻¹ Uᴴ A on the window `kk × n`; conjugate-transpose both sides
      have hPr : EqOn l.length A.cols Pr.td.f
          (mmul A.rows (mmul l.length (diagM (fun t => P.inv (P.sqrt ((eigs G).vals (l.getD t 0)))))
            (conjM (transposeM (orthonormal (Op.sliced (eigs G).W Op.fullSlice sl)).den.f))) A.den.f) := by
        refine htd.trans (d2.trans ?_)
        rw [c1, hUHc, hWA]
        refine mmul_congr ?_ (EqOn.refl _ _ _)
        rw [hDrows, hDcols, hUHc, hWA] at d1
        refine d1.trans ?_
        refine mmul_congr ?_ ?_
        · rw [den_diag_f]; exact EqOn.refl _ _ _
        · intro i j _ _; simp only [Op.den, MatV.of_f]
      unfold backsubV
      intro i j hi hj
      simp only [conjM, transposeM]
      exact congrArg star (hPr j i hj hi)

/-- the Gram operator of the tall branch represents `Aᴴ A` (`A_real`: entries of real-dtype leaves are
real, the hypothesis under which `A.H` is `Lin`, see `adjointRule_spec`) -/
theorem gram_tall_den (A G : Op 𝕜) (A_good : Op.Good A) (A_real : A.RealTyped)
    (h : asOp (Ex.dotRule A.adjointRule A) = .ok G) :
    G.rows = A.cols ∧ G.cols = A.cols ∧
      EqOn A.cols A.cols G.den.f (mmul A.rows (conjM (transposeM A.den.f)) A.den.f) := by
  have ts := adjointRule_spec A A_good A_real
  obtain ⟨hdim, G', hG', r, c, d, _⟩ :=
    dot_pl A.adjointRule A (PL.of_good _ ts.good) (PL.of_good A A_good) _ (asOp_ok h)
  injection hG' with hG'; subst hG'
  rw [ts.rows] at r d
  rw [ts.cols] at d
  exact ⟨r, c, d.trans (mmul_congr ts.den (EqOn.refl _ _ _))⟩

/-- the Gram operator of the wide branch represents `A Aᴴ` -/
theorem gram_wide_den (A G : Op 𝕜) (A_good : Op.Good A) (A_real : A.RealTyped)
    (h : asOp (Ex.dotRule A A.adjointRule) = .ok G) :
    G.rows = A.rows ∧ G.cols = A.rows ∧
      EqOn A.rows A.rows G.den.f (mmul A.cols A.den.f (conjM (transposeM A.den.f))) := by
  have ts := adjointRule_spec A A_good A_real
  obtain ⟨hdim, G', hG', r, c, d, _⟩ :=
    dot_pl A A.adjointRule (PL.of_good A A_good) (PL.of_good _ ts.good) _ (asOp_ok h)
  injection hG' with hG'; subst hG'
  rw [ts.cols] at c d
  exact ⟨r, c, d.trans (mmul_congr (EqOn.refl _ _ _) ts.den)⟩

/-- which Gram operator the rule hands to the eigensolver -/
theorem svdKrylov_gram (P : Params 𝕜) (eigs : Op 𝕜 → Eigs 𝕜) (forceTall : Bool)
    (A : Op 𝕜) (k : Int) (w : Which) (o : KrylovOut 𝕜)
    (h : svdKrylov P eigs forceTall A k w = .ok o) :
    (o.tall = true → asOp (Ex.dotRule A.adjointRule A) = .ok o.G) ∧
    (o.tall = false → asOp (Ex.dotRule A A.adjointRule) = .ok o.G) := by
  unfold svdKrylov at h
  obtain ⟨sl, hsl, h⟩ := bind_ok' h
  split at h
  · obtain ⟨G, hG, h⟩ := bind_ok' h
    obtain ⟨V0, hV0, h⟩ := bind_ok' h
    obtain ⟨AV, hAV, h⟩ := bind_ok' h
    obtain ⟨Pr, hPr, h⟩ := bind_ok' h
    have ho := Except.ok.inj h
    subst ho
    exact ⟨fun _ => hG, fun hf => (by cases hf)⟩
  · obtain ⟨G, hG, h⟩ := bind_ok' h
    obtain ⟨U0, hU0, h⟩ := bind_ok' h
    obtain ⟨SU, hSU, h⟩ := bind_ok' h
    obtain ⟨Pr, hPr, h⟩ := bind_ok' h
    have ho := Except.ok.inj h
    subst ho
    exact ⟨fun hf => (by cases hf), fun _ => hG⟩

/-- **Krylov rule, tall branch: the operators the model returns form a (truncated) SVD.**
`eigs_contract` is the CONTRACT of the eigensolver on the Gram operator it is handed (selected columns
orthonormal, eigen-equation for the matrix the Gram operator represents, positive eigenvalues). -/
theorem svdKrylov_tall_sound (P : Params 𝕜) (eigs : Op 𝕜 → Eigs 𝕜) (forceTall : Bool)
    (A : Op 𝕜) (k : Nat) (w : Which) (o : KrylovOut 𝕜)
    (h : svdKrylov P eigs forceTall A (k : Int) w = .ok o) (htall : o.tall = true)
    (A_good : Op.Good A) (A_real : A.RealTyped) (W_good : Op.Good (eigs o.G).W) (lam : Nat → ℝ)
    (eigs_contract :
      let Vs := MatF.toMatrix A.cols o.pos.length (selCols (eigs o.G).W.den.f o.pos)
      Vsᴴ * Vs = 1 ∧
      MatF.toMatrix A.cols A.cols o.G.den.f * Vs =
        Vs * diagonal (fun i : Fin o.pos.length => ((lam i.val : ℝ) : 𝕜)) ∧
      ∀ t, t < o.pos.length → (eigs o.G).vals (o.pos.getD t 0) = ((lam t : ℝ) : 𝕜) ∧ 0 < lam t)
    (sqrt_contract : ∀ t, t < o.pos.length → P.sqrt ((lam t : ℝ) : 𝕜) = ((Real.sqrt (lam t) : ℝ) : 𝕜))
    (inv_contract : ∀ z : 𝕜, P.inv z = z⁻¹) :
    let Am := MatF.toMatrix A.rows A.cols A.den.f
    let U := MatF.toMatrix A.rows o.pos.length o.triple.U.den.f
    let Sg := MatF.toMatrix o.pos.length o.pos.length o.triple.S.den.f
    let V := MatF.toMatrix A.cols o.pos.length o.triple.V.den.f
    MatF.toMatrix A.cols A.cols o.G.den.f = Amᴴ * Am ∧
    Uᴴ * U = 1 ∧ Vᴴ * V = 1 ∧
    Sg = diagonal (fun i : Fin o.pos.length => ((Real.sqrt (lam i.val) : ℝ) : 𝕜)) ∧
    (∀ t, t < o.pos.length → 0 < Real.sqrt (lam t)) ∧
    U * Sg * Vᴴ = Am * (V * Vᴴ) ∧
    (Am - U * Sg * Vᴴ) * V = 0 ∧ Uᴴ * (Am - U * Sg * Vᴴ) = 0 ∧
    (V * Vᴴ = 1 → U * Sg * Vᴴ = Am) := by
  intro Am U Sg V
  obtain ⟨hWr, hUr, hUc, hVr, hVc, hVden, hUden⟩ :=
    svdKrylov_tall_link P eigs forceTall A k w o h htall A_good W_good
  have hspec := svdKrylov_spec P eigs forceTall A (k : Int) w o h
  have hgram := gram_tall_den A o.G A_good A_real ((svdKrylov_gram P eigs forceTall A k w o h).1 htall)
  obtain ⟨hVV, hGV, hvals⟩ := eigs_contract
  have hV : V = MatF.toMatrix A.cols o.pos.length (selCols (eigs o.G).W.den.f o.pos) :=
    MatF.toMatrix_congr hVden
  have hG : MatF.toMatrix A.cols A.cols o.G.den.f = Amᴴ * Am := by
    rw [MatF.toMatrix_congr hgram.2.2, MatF.toMatrix_mmul A.cols A.rows A.cols, MatF.toMatrix_adjoint A.rows A.cols]
  have hsinv : ∀ i, i < o.pos.length →
      P.inv (P.sqrt ((eigs o.G).vals (o.pos.getD i 0))) = ((((Real.sqrt (lam i))⁻¹ : ℝ)) : 𝕜) := by
    intro i hi
    rw [(hvals i hi).1, sqrt_contract i hi, inv_contract, RCLike.ofReal_inv]
  have key := krylov_tall_spec A.rows A.cols o.pos.length A.den.f o.triple.V.den.f lam
    (fun t => Real.sqrt (lam t)) (fun t => P.inv (P.sqrt ((eigs o.G).vals (o.pos.getD t 0))))
    ⟨by rw [← hV] at hVV; exact hVV, by rw [← hV, hG] at hGV; exact hGV, fun i hi => (hvals i hi).2⟩
    (fun i hi => rfl) hsinv
  have hU : U = MatF.toMatrix A.rows o.pos.length (backsubU A.cols o.pos.length A.den.f
      o.triple.V.den.f (fun t => P.inv (P.sqrt ((eigs o.G).vals (o.pos.getD t 0))))) :=
    MatF.toMatrix_congr hUden
  have hSg : Sg = diagonal (fun i : Fin o.pos.length => ((Real.sqrt (lam i.val) : ℝ) : 𝕜)) := by
    show MatF.toMatrix o.pos.length o.pos.length o.triple.S.den.f = _
    rw [hspec.2.2.1, toMatrix_diagM_svd]
    congr 1
    funext i
    rw [(hvals i.val i.isLt).1, sqrt_contract i.val i.isLt]
  obtain ⟨k1, k2, k3, k4, k5, k6⟩ := key
  rw [← hU] at k2 k3 k4 k5 k6
  rw [← hSg] at k3 k4 k5 k6
  exact ⟨hG, k2, by rw [hV]; exact hVV, hSg, k1, k3, k4, k5, k6⟩

/-- **Krylov rule, wide branch** (`Lanczos`, `m < n`): the same for `A @ A.H` and the conjugated
back-substitution of `V` -/
theorem svdKrylov_wide_sound (P : Params 𝕜) (eigs : Op 𝕜 → Eigs 𝕜) (forceTall : Bool)
    (A : Op 𝕜) (k : Nat) (w : Which) (o : KrylovOut 𝕜)
    (h : svdKrylov P eigs forceTall A (k : Int) w = .ok o) (hwide : o.tall = false)
    (A_good : Op.Good A) (A_real : A.RealTyped) (W_good : Op.Good (eigs o.G).W) (lam : Nat → ℝ)
    (eigs_contract :
      let Us := MatF.toMatrix A.rows o.pos.length (selCols (eigs o.G).W.den.f o.pos)
      Usᴴ * Us = 1 ∧
      MatF.toMatrix A.rows A.rows o.G.den.f * Us =
        Us * diagonal (fun i : Fin o.pos.length => ((lam i.val : ℝ) : 𝕜)) ∧
      ∀ t, t < o.pos.length → (eigs o.G).vals (o.pos.getD t 0) = ((lam t : ℝ) : 𝕜) ∧ 0 < lam t)
    (sqrt_contract : ∀ t, t < o.pos.length → P.sqrt ((lam t : ℝ) : 𝕜) = ((Real.sqrt (lam t) : ℝ) : 𝕜))
    (inv_contract : ∀ z : 𝕜, P.inv z = z⁻¹) :
    let Am := MatF.toMatrix A.rows A.cols A.den.f
    let U := MatF.toMatrix A.rows o.pos.length o.triple.U.den.f
    let Sg := MatF.toMatrix o.pos.length o.pos.length o.triple.S.den.f
    let V := MatF.toMatrix A.cols o.pos.length o.triple.V.den.f
    MatF.toMatrix A.rows A.rows o.G.den.f = Am * Amᴴ ∧
    Uᴴ * U = 1 ∧ Vᴴ * V = 1 ∧
    Sg = diagonal (fun i : Fin o.pos.length => ((Real.sqrt (lam i.val) : ℝ) : 𝕜)) ∧
    (∀ t, t < o.pos.length → 0 < Real.sqrt (lam t)) ∧
    U * Sg * Vᴴ = (U * Uᴴ) * Am ∧
    Uᴴ * (Am - U * Sg * Vᴴ) = 0 ∧ (Am - U * Sg * Vᴴ) * V = 0 ∧
    (U * Uᴴ = 1 → U * Sg * Vᴴ = Am) := by
  intro Am U Sg V
  obtain ⟨hWr, hUr, hUc, hVr, hVc, hUden, hVden⟩ :=
    svdKrylov_wide_link P eigs forceTall A k w o h hwide A_good W_good
  have hspec := svdKrylov_spec P eigs forceTall A (k : Int) w o h
  have hgram := gram_wide_den A o.G A_good A_real ((svdKrylov_gram P eigs forceTall A k w o h).2 hwide)
  obtain ⟨hUU, hGU, hvals⟩ := eigs_contract
  have hU : U = MatF.toMatrix A.rows o.pos.length (selCols (eigs o.G).W.den.f o.pos) :=
    MatF.toMatrix_congr hUden
  have hG : MatF.toMatrix A.rows A.rows o.G.den.f = Am * Amᴴ := by
    rw [MatF.toMatrix_congr hgram.2.2, MatF.toMatrix_mmul A.rows A.cols A.rows, MatF.toMatrix_adjoint A.rows A.cols]
  have hsinv : ∀ i, i < o.pos.length →
      P.inv (P.sqrt ((eigs o.G).vals (o.pos.getD i 0))) = ((((Real.sqrt (lam i))⁻¹ : ℝ)) : 𝕜) := by
    intro i hi
    rw [(hvals i hi).1, sqrt_contract i hi, inv_contract, RCLike.ofReal_inv]
  have key := krylov_wide_spec A.rows A.cols o.pos.length A.den.f o.triple.U.den.f lam
    (fun t => Real.sqrt (lam t)) (fun t => P.inv (P.sqrt ((eigs o.G).vals (o.pos.getD t 0))))
    ⟨by rw [← hU] at hUU; exact hUU, by rw [← hU, hG] at hGU; exact hGU, fun i hi => (hvals i hi).2⟩
    (fun i hi => rfl) hsinv
  have hV : V = MatF.toMatrix A.cols o.pos.length (backsubV A.rows o.pos.length A.den.f
      o.triple.U.den.f (fun t => P.inv (P.sqrt ((eigs o.G).vals (o.pos.getD t 0))))) :=
    MatF.toMatrix_congr hVden
  have hSg : Sg = diagonal (fun i : Fin o.pos.length => ((Real.sqrt (lam i.val) : ℝ) : 𝕜)) := by
    show MatF.toMatrix o.pos.length o.pos.length o.triple.S.den.f = _
    rw [hspec.2.2.1, toMatrix_diagM_svd]
    congr 1
    funext i
    rw [(hvals i.val i.isLt).1, sqrt_contract i.val i.isLt]
  obtain ⟨k1, k2, k3, k4, k5, k6⟩ := key
  rw [← hV] at k2 k3 k4 k5 k6
  rw [← hSg] at k3 k4 k5 k6
  exact ⟨hG, by rw [hU]; exact hUU, k2, hSg, k1, k3, k4, k5, k6⟩

/-- `svd(A, k, which, Lanczos)` is the `triple` of `svdKrylov` -/
theorem svd_lanczos_iff (P : Params 𝕜) (A : Op 𝕜) (k : Int) (w : Which) (T : Triple 𝕜)
    (hr : svdRule A .lanczos = .lanczos) :
    svd P A k w .lanczos = .ok T ↔
      ∃ o, svdKrylov P P.lanczosEigs false A k w = .ok o ∧ o.triple = T := by
  unfold svd
  rw [hr]
  simp only
  constructor
  · intro h
    cases hk : svdKrylov P P.lanczosEigs false A k w with
    | error e => rw [hk] at h; cases h
    | ok o => rw [hk] at h; exact ⟨o, rfl, Except.ok.inj h⟩
  · rintro ⟨o, ho, rfl⟩
    rw [ho]; rfl

end link

end Svd
