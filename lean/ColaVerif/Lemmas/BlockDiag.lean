import ColaVerif.Model.Kernels

/-!
# `BlockDiag._matmat` (cola/ops/operators.py)

```
i = 0; y = []
for M, mult in zip(Ms, mults):
    i_end = i + mult * M.shape[-1]
    elems = M @ v[i:i_end].T.reshape(k * mult, M.shape[-1]).T
    y.append(elems.T.reshape(k, mult * M.shape[0]).T)
    i = i_end
return concat(y, axis=0)
```
`bdiagMatmat_eq`: for every list of (block, multiplicity) pairs (any shapes, multiplicity 0
allowed) the loop returns `block_diag(M₁ … M₁, M₂ … M₂, …) · v`.
-/

open Finset

variable {R : Type}

/-! ## index arithmetic -/

theorem bd_divmod (a r p : Nat) (hp : p < r) : (a * r + p) / r = a ∧ (a * r + p) % r = p := by
  have hpos : 0 < r := by omega
  constructor
  · rw [Nat.add_comm, Nat.add_mul_div_right _ _ hpos, Nat.div_eq_of_lt hp]; simp
  · rw [Nat.add_comm, Nat.add_mul_mod_self_right, Nat.mod_eq_of_lt hp]

theorem bd_succ_mul_le (m n c q : Nat) (hm : m < n) (hq : q < c) : m * c + q < n * c := by
  calc m * c + q < m * c + c := by omega
    _ = (m + 1) * c := by ring
    _ ≤ n * c := Nat.mul_le_mul_right _ hm

/-! ## one block of the loop -/

/-- the two reshape/transpose pairs of one loop iteration: copy `m`, local row `p` of the output
is `Σ_q M[p,q] · v[off + m·c + q]`. -/
theorem bdiagBlock_apply [CommSemiring R] (M : FacAct R) (hM : M.Ok) (mult k off : Nat)
    (v : MatF R) (m p col : Nat) (hm : m < mult) (hp : p < M.r) (hcol : col < k) :
    (bdiagBlock M mult k off v).f (m * M.r + p) col
      = ∑ q ∈ range M.c, M.a p q * v (off + m * M.c + q) col := by
  simp only [bdiagBlock, MatV.of_f, transposeM, reshape2]
  have e1 : col * (mult * M.r) + (m * M.r + p) = (col * mult + m) * M.r + p := by ring
  obtain ⟨h1, h2⟩ := bd_divmod (col * mult + m) M.r p hp
  rw [e1, h1, h2]
  have hf : col * mult + m < k * mult := bd_succ_mul_le col k mult m hcol hm
  rw [hM _ _ _ _ hp hf]
  apply Finset.sum_congr rfl
  intro q hq
  have hq' := Finset.mem_range.mp hq
  have e2 : (col * mult + m) * M.c + q = col * (mult * M.c) + (m * M.c + q) := by ring
  have hlt : m * M.c + q < mult * M.c := bd_succ_mul_le m mult M.c q hm hq'
  obtain ⟨h3, h4⟩ := bd_divmod col (mult * M.c) (m * M.c + q) hlt
  simp only [transposeM, reshape2, rowsFrom]
  rw [e2, h3, h4, Nat.add_assoc]

/-! ## the represented matrix -/

/-- rows inside the leading run of `n` copies of a block: row `m·r + p` carries `a p ·` in
columns `m·c … m·c + c - 1` and zero elsewhere. -/
theorem blockDiagM_replicate_lt [Zero R] (r c : Nat) (a : MatF R) (L : List (Nat × Nat × MatF R)) :
    ∀ (n m p J : Nat), m < n → p < r →
      blockDiagM (List.replicate n (r, c, a) ++ L) (m * r + p) J
        = if m * c ≤ J ∧ J < m * c + c then a p (J - m * c) else 0 := by
  intro n
  induction n with
  | zero => intro m p J hm; omega
  | succ n ih =>
    intro m p J hm hp
    rw [List.replicate_succ, List.cons_append]
    simp only [blockDiagM]
    cases m with
    | zero =>
      simp only [Nat.zero_mul, Nat.zero_add, Nat.zero_le, true_and, Nat.sub_zero, hp, if_true]
    | succ m' =>
      have hge : ¬ ((m' + 1) * r + p < r) := by
        rw [Nat.succ_mul]; omega
      have hsub : (m' + 1) * r + p - r = m' * r + p := by
        rw [Nat.succ_mul]; omega
      rw [if_neg hge, hsub]
      have hmc : (m' + 1) * c = m' * c + c := Nat.succ_mul _ _
      by_cases hJ : J < c
      · rw [if_pos hJ, if_neg]
        rw [hmc]; omega
      · rw [if_neg hJ, ih m' p (J - c) (by omega) hp, hmc]
        have e : J - c - m' * c = J - (m' * c + c) := by omega
        rw [e]
        by_cases h : m' * c ≤ J - c ∧ J - c < m' * c + c
        · rw [if_pos h, if_pos]; omega
        · rw [if_neg h, if_neg]; omega

/-- rows past the leading run of `n` copies of a block -/
theorem blockDiagM_replicate_ge [Zero R] (r c : Nat) (a : MatF R) (L : List (Nat × Nat × MatF R)) :
    ∀ (n I J : Nat), n * r ≤ I →
      blockDiagM (List.replicate n (r, c, a) ++ L) I J
        = if J < n * c then 0 else blockDiagM L (I - n * r) (J - n * c) := by
  intro n
  induction n with
  | zero => intro I J _; simp
  | succ n ih =>
    intro I J hI
    rw [List.replicate_succ, List.cons_append]
    simp only [blockDiagM]
    have hnr : (n + 1) * r = n * r + r := Nat.succ_mul _ _
    have hnc : (n + 1) * c = n * c + c := Nat.succ_mul _ _
    rw [hnr] at hI
    have hge : ¬ (I < r) := by omega
    rw [if_neg hge, hnr, hnc]
    by_cases hJ : J < c
    · rw [if_pos hJ, if_pos]; omega
    · rw [if_neg hJ, ih (I - r) (J - c) (by omega)]
      have e1 : I - r - n * r = I - (n * r + r) := by omega
      have e2 : J - c - n * c = J - (n * c + c) := by omega
      rw [e1, e2]
      by_cases h : J - c < n * c
      · rw [if_pos h, if_pos]; omega
      · rw [if_neg h, if_neg]; omega

theorem bdiagDen_cons [Zero R] (M : FacAct R) (mult : Nat) (rest : List (FacAct R × Nat)) :
    bdiagDen ((M, mult) :: rest)
      = blockDiagM (List.replicate mult (M.r, M.c, M.a) ++ expandBlocks rest) := by
  simp [bdiagDen, expandBlocks]

/-- `bdiagDen`, rows of the first (block, multiplicity) pair -/
theorem bdiagDen_cons_lt [Zero R] (M : FacAct R) (mult : Nat) (rest : List (FacAct R × Nat))
    (m p J : Nat) (hm : m < mult) (hp : p < M.r) :
    bdiagDen ((M, mult) :: rest) (m * M.r + p) J
      = if m * M.c ≤ J ∧ J < m * M.c + M.c then M.a p (J - m * M.c) else 0 := by
  rw [bdiagDen_cons]
  exact blockDiagM_replicate_lt M.r M.c M.a _ mult m p J hm hp

/-- `bdiagDen`, rows past the first (block, multiplicity) pair -/
theorem bdiagDen_cons_ge [Zero R] (M : FacAct R) (mult : Nat) (rest : List (FacAct R × Nat))
    (I J : Nat) (hI : mult * M.r ≤ I) :
    bdiagDen ((M, mult) :: rest) I J
      = if J < mult * M.c then 0 else bdiagDen rest (I - mult * M.r) (J - mult * M.c) := by
  rw [bdiagDen_cons]
  exact blockDiagM_replicate_ge M.r M.c M.a _ mult I J hI

/-! ## sums against a window indicator -/

/-- a sum over `range N` of a function supported on the window `[s, s + c)` -/
theorem sum_window [AddCommMonoid R] (N s c : Nat) (h : s + c ≤ N) (g : Nat → R) :
    ∑ J ∈ range N, (if s ≤ J ∧ J < s + c then g (J - s) else 0) = ∑ q ∈ range c, g q := by
  obtain ⟨d, rfl⟩ := Nat.exists_eq_add_of_le h
  rw [Finset.sum_range_add, Finset.sum_range_add]
  have z1 : ∑ x ∈ range s, (if s ≤ x ∧ x < s + c then g (x - s) else 0) = 0 := by
    apply Finset.sum_eq_zero
    intro x hx
    have := Finset.mem_range.mp hx
    rw [if_neg]; omega
  have z3 : ∑ x ∈ range d, (if s ≤ s + c + x ∧ s + c + x < s + c then g (s + c + x - s) else 0)
      = 0 := by
    apply Finset.sum_eq_zero
    intro x _
    rw [if_neg]; omega
  rw [z1, z3, zero_add, add_zero]
  apply Finset.sum_congr rfl
  intro q hq
  have := Finset.mem_range.mp hq
  rw [if_pos (by omega)]
  congr 1
  omega

/-! ## the loop -/

/-- generalised loop invariant: started at row offset `off` of the operand, the stacked blocks
are the block-diagonal matrix times the rows `off ..` of the operand. -/
theorem bdiagBlocks_eq [CommSemiring R] (k : Nat) (v : MatF R) (col : Nat) (hcol : col < k) :
    ∀ (Ms : List (FacAct R × Nat)) (_hM : ∀ p ∈ Ms, p.1.Ok) (off I : Nat),
      I < (Ms.map (fun p => p.2 * p.1.r)).sum →
      vstack (bdiagBlocks k off Ms v) I col
        = ∑ J ∈ range (Ms.map (fun p => p.2 * p.1.c)).sum, bdiagDen Ms I J * v (off + J) col
  | [], _, off, I, hI => by simp at hI
  | (M, mult) :: rest, hM, off, I, hI => by
    have hMok : M.Ok := hM (M, mult) (by simp)
    have hrest : ∀ p ∈ rest, p.1.Ok := fun p h => hM p (by simp [h])
    simp only [bdiagBlocks, vstack, List.map_cons, List.sum_cons]
    rw [Finset.sum_range_add]
    by_cases hlt : I < mult * M.r
    · -- the row lies in this block
      rw [if_pos hlt]
      have hrpos : 0 < M.r := by
        rcases Nat.eq_zero_or_pos M.r with h0 | h0
        · rw [h0] at hlt; simp at hlt
        · exact h0
      have hp : I % M.r < M.r := Nat.mod_lt _ hrpos
      have hm : I / M.r < mult := by
        rw [Nat.div_lt_iff_lt_mul hrpos]; exact hlt
      have hI' : I / M.r * M.r + I % M.r = I := by
        rw [Nat.mul_comm]; exact Nat.div_add_mod I M.r
      have hwin : I / M.r * M.c + M.c ≤ mult * M.c := by
        calc I / M.r * M.c + M.c = (I / M.r + 1) * M.c := by ring
          _ ≤ mult * M.c := Nat.mul_le_mul_right _ hm
      have z2 : ∑ x ∈ range (rest.map (fun p => p.2 * p.1.c)).sum,
          bdiagDen ((M, mult) :: rest) I (mult * M.c + x) * v (off + (mult * M.c + x)) col
            = 0 := by
        apply Finset.sum_eq_zero
        intro x _
        rw [← hI', bdiagDen_cons_lt M mult rest _ _ _ hm hp, if_neg (by omega), zero_mul]
      rw [z2, add_zero]
      have hb := bdiagBlock_apply M hMok mult k off v (I / M.r) (I % M.r) col hm hp hcol
      rw [hI'] at hb
      rw [hb]
      rw [← sum_window (mult * M.c) (I / M.r * M.c) M.c hwin
        (fun q => M.a (I % M.r) q * v (off + I / M.r * M.c + q) col)]
      apply Finset.sum_congr rfl
      intro J _
      have hd := bdiagDen_cons_lt M mult rest (I / M.r) (I % M.r) J hm hp
      rw [hI'] at hd
      rw [hd]
      by_cases hc : I / M.r * M.c ≤ J ∧ J < I / M.r * M.c + M.c
      · rw [if_pos hc, if_pos hc]
        have e : off + I / M.r * M.c + (J - I / M.r * M.c) = off + J := by omega
        rw [e]
      · rw [if_neg hc, if_neg hc, zero_mul]
    · -- the row lies in a later block
      rw [if_neg hlt]
      have hge : mult * M.r ≤ I := by omega
      have z1 : ∑ x ∈ range (mult * M.c),
          bdiagDen ((M, mult) :: rest) I x * v (off + x) col = 0 := by
        apply Finset.sum_eq_zero
        intro x hx
        have := Finset.mem_range.mp hx
        rw [bdiagDen_cons_ge M mult rest I x hge, if_pos this, zero_mul]
      rw [z1, zero_add]
      have hI2 : I - mult * M.r < (rest.map (fun p => p.2 * p.1.r)).sum := by
        simp only [List.map_cons, List.sum_cons] at hI; omega
      rw [bdiagBlocks_eq k v col hcol rest hrest (off + mult * M.c) (I - mult * M.r) hI2]
      apply Finset.sum_congr rfl
      intro x _
      rw [bdiagDen_cons_ge M mult rest I _ hge, if_neg (by omega)]
      have e : mult * M.c + x - mult * M.c = x := by omega
      rw [e, Nat.add_assoc]

/-- **C01, BlockDiag case**: for every list of (block, multiplicity) pairs, every operand with
`k` columns and every in-range entry, the slice/reshape loop returns
`block_diag(blocks repeated by multiplicity) · v`. -/
theorem bdiagMatmat_eq [CommSemiring R] (Ms : List (FacAct R × Nat)) (hM : ∀ p ∈ Ms, p.1.Ok)
    (k : Nat) (v : MatF R) (I col : Nat)
    (hI : I < (Ms.map (fun p => p.2 * p.1.r)).sum) (hcol : col < k) :
    (bdiagMatmat Ms k v).f I col
      = ∑ J ∈ range (Ms.map (fun p => p.2 * p.1.c)).sum, bdiagDen Ms I J * v J col := by
  have h := bdiagBlocks_eq k v col hcol Ms hM 0 I hI
  simp only [Nat.zero_add] at h
  simpa [bdiagMatmat] using h

#print axioms bdiagMatmat_eq
