import ColaVerif.Lemmas.LanczosEigs
import ColaVerif.Lemmas.LanczosBatchDefect

/-!
# The returned factors of the model's `lanczos`, in the vocabulary of the property

`Out.q o b c`: column `c` (0-based) of member `b`'s returned `Q`; `Out.T o b a c`: entry `(a, c)` of
member `b`'s returned `T = Tridiagonal(alpha, beta, alpha).to_dense()`.

`single_out` / `batch_out`: the returned factors ARE the objects the invariant speaks about
(`q_c = V[c+1]`, `T = triT diag subdiag[1…]`), together with the invariant itself.
`OutSpec` collects, for one member, everything the property theorems state; `outSpec_of_inv`
derives it from the invariant.
-/

open scoped InnerProductSpace
open Finset

set_option linter.unusedSectionVars false

namespace Lanczos

variable {𝕜 E : Type} [RCLike 𝕜] [NormedAddCommGroup E] [InnerProductSpace 𝕜 E]

attribute [local instance] exactNum exactVec

/-- column `c` (0-based) of member `b`'s returned `Q` -/
noncomputable def Out.q (o : Out 𝕜 E) (b c : ℕ) : E := col 0 (o.Q.getD b #[]) c

/-- entry `(a, c)` of member `b`'s returned `T` (`Tridiagonal(alpha, beta, alpha).to_dense()`) -/
noncomputable def Out.T (o : Out 𝕜 E) (b a c : ℕ) : 𝕜 :=
  tridiagEntry (K := 𝕜) (o.alpha.getD b #[]) (o.beta.getD b #[]) a c

/-- the last column of `A Q - Q T` of member `b` -/
noncomputable def Out.resid (A : E →ₗ[𝕜] E) (o : Out 𝕜 E) (b : ℕ) : E :=
  A (o.q b (o.iters - 1)) - ∑ a ∈ range o.iters, o.T b a (o.iters - 1) • o.q b a

/-! ### facts about the tridiagonal table -/

theorem triT_symm (α β : ℕ → 𝕜) (a c : ℕ) : triT α β a c = triT α β c a := by
  unfold triT
  by_cases h1 : a = c
  · subst h1; rfl
  · have h1' : ¬ c = a := fun h => h1 h.symm
    by_cases h2 : a = c + 1
    · subst h2
      have h4 : ¬ c = c + 1 + 1 := by omega
      simp only [h1, h1', h4, if_true, if_false]
    · by_cases h3 : c = a + 1
      · subst h3
        simp only [h1, h1', h2, if_true, if_false]
      · simp [h1, h1', h2, h3]

theorem triT_far (α β : ℕ → 𝕜) (a c : ℕ) (h : a + 1 < c) : triT α β a c = 0 := by
  unfold triT
  have h1 : ¬ a = c := by omega
  have h2 : ¬ a = c + 1 := by omega
  have h3 : ¬ c = a + 1 := by omega
  simp [h1, h2, h3]

theorem triT_sub (α β : ℕ → 𝕜) (c : ℕ) : triT α β (c + 1) c = β c := by
  unfold triT
  simp

theorem triT_diag (α β : ℕ → 𝕜) (c : ℕ) : triT α β c c = α c := by
  unfold triT; simp

/-! ### what the property says about one member -/

/-- everything the property states about the factors `(q, T)` of one start vector `v` with `k`
returned columns (`r`: the last column of `A Q - Q T`) -/
structure OutSpec (A : E →ₗ[𝕜] E) (v : E) (k : ℕ) (q : ℕ → E) (T : ℕ → ℕ → 𝕜) (r : E) : Prop where
  orthonormal : Orthonormal 𝕜 (fun c : Fin k => q c)
  first : q 0 = (((‖v‖ : ℝ) : 𝕜))⁻¹ • v
  span : ∀ j, j ≤ k → Submodule.span 𝕜 (Set.range fun c : Fin j => q c) = krylov A v j
  symm : ∀ a c, a < k → c < k → T a c = T c a
  real : ∀ a c, a < k → c < k → ∃ x : ℝ, T a c = (x : 𝕜)
  tridiag : ∀ a c, a < k → c < k → a + 1 < c → T a c = 0
  offdiag_pos : ∀ c, c + 1 < k → ∃ x : ℝ, 0 < x ∧ T (c + 1) c = (x : 𝕜)
  proj : ∀ a c, a < k → c < k → ⟪q a, A (q c)⟫_𝕜 = T a c
  rel : ∀ c, c < k → A (q c) - ∑ a ∈ range k, T a c • q a = if c + 1 = k then r else 0
  rorth : ∀ a, a < k → ⟪q a, r⟫_𝕜 = 0
  ritz : ∀ (y : ℕ → 𝕜) (θ : 𝕜), (∀ a, a < k → ∑ c ∈ range k, T a c * y c = θ * y a) →
    A (∑ c ∈ range k, y c • q c) - θ • ∑ c ∈ range k, y c • q c = y (k - 1) • r
  eigen : r = 0 → ∀ (y : ℕ → 𝕜) (θ : 𝕜), (∀ a, a < k → ∑ c ∈ range k, T a c * y c = θ * y a) →
    (∃ a, a < k ∧ y a ≠ 0) → Module.End.HasEigenvalue A θ
  exhausted : ∀ d, krylov A v (d + 1) = krylov A v d → k ≤ d
  finrank : Module.finrank 𝕜 (krylov A v k) = k

theorem Fact.congr {A : E →ₗ[𝕜] E} {k : ℕ} {q q' : ℕ → E} {T T' : ℕ → ℕ → 𝕜} {r : E}
    (h : Fact A k q T r) (hq : ∀ c, c < k → q' c = q c) (hT : ∀ a c, a < k → c < k → T' a c = T a c) :
    Fact A k q' T' r := by
  refine ⟨?_, ?_, ?_⟩
  · intro a b ha hb; rw [hq a ha, hq b hb]; exact h.on a b ha hb
  · intro c hc
    rw [hq c hc, h.rel c hc]
    congr 1
    apply Finset.sum_congr rfl
    intro a ha
    rw [hq a (mem_range.mp ha), hT a c (mem_range.mp ha) hc]
  · intro a ha; rw [hq a ha]; exact h.rorth a ha

theorem outSpec_of_inv {A : E →ₗ[𝕜] E} (hA : A.IsSymmetric) {m : ℕ} {v : E} {k : ℕ} {s : Mem 𝕜 E}
    (h : Inv A m v k s) (hk : 1 ≤ k) (q : ℕ → E) (T : ℕ → ℕ → 𝕜)
    (hq : ∀ c, c < k → q c = qc s (c + 1))
    (hT : ∀ a c, a < k → c < k → T a c = triT (fun c => dg s c) (fun c => sb s (c + 1)) a c) :
    OutSpec A v k q T (qc s (k + 1)) := by
  have hF : Fact A k q T (qc s (k + 1)) := h.fact.congr hq hT
  have hfun : ∀ j, j ≤ k → (fun c : Fin j => q c) = fun c : Fin j => qc s ((c : ℕ) + 1) := by
    intro j hj; funext c; exact hq c (by have := c.2; omega)
  refine
    { orthonormal := by rw [hfun k (le_refl _)]; exact h.orthonormal k (le_refl _)
      first := by rw [hq 0 (by omega)]; exact h.first
      span := fun j hj => by rw [hfun j hj]; exact h.span_eq_krylov j hj
      symm := fun a c ha hc => by rw [hT a c ha hc, hT c a hc ha]; exact triT_symm _ _ a c
      real := ?_
      tridiag := fun a c ha hc hac => by rw [hT a c ha hc]; exact triT_far _ _ a c hac
      offdiag_pos := ?_
      proj := fun a c ha hc => hF.proj a c ha hc
      rel := fun c hc => by rw [hF.rel c hc, add_sub_cancel_left]
      rorth := hF.rorth
      ritz := fun y θ hy => hF.ritz hk y θ hy
      eigen := fun hr y θ hy ⟨a, ha, hya⟩ => hF.eigen_of_exit hk hr y θ hy a ha hya
      exhausted := h.le_of_exhausted
      finrank := h.finrank_krylov k (le_refl _) }
  · -- real entries
    intro a c ha hc
    rw [hT a c ha hc]
    unfold triT
    split
    · have hd := h.diagEq (c + 1) (by omega) (by omega)
      simp only [Nat.add_sub_cancel] at hd
      show ∃ x : ℝ, dg s c = (x : 𝕜)
      rw [hd, ← RCLike.conj_eq_iff_real, inner_conj_symm, hA (qc s (c + 1)) (qc s (c + 1))]
    · split
      · obtain ⟨x, _, hx⟩ := h.subReal (c + 1); exact ⟨x, hx⟩
      · split
        · obtain ⟨x, _, hx⟩ := h.subReal (a + 1); exact ⟨x, hx⟩
        · exact ⟨0, by simp⟩
  · -- positive off-diagonal
    intro c hc
    rw [hT (c + 1) c hc (by omega), triT_sub]
    obtain ⟨x, hx0, hx⟩ := h.subReal (c + 1)
    have hne := h.subPos (c + 1) (by omega) hc
    refine ⟨x, ?_, hx⟩
    rcases lt_or_eq_of_le hx0 with hlt | heq
    · exact hlt
    · exfalso; apply hne; rw [hx, ← heq]; simp

/-! ### one start vector -/

theorem single_out (A : E →ₗ[𝕜] E) (hA : A.IsSymmetric) (n maxIters : ℕ) (v : E) (tol : ℝ)
    (hv : v ≠ 0) (htol : 0 ≤ tol) (hm : 1 ≤ min maxIters n) :
    1 ≤ (lanczosExact A n #[v] maxIters tol).iters ∧
    (lanczosExact A n #[v] maxIters tol).iters ≤ min maxIters n ∧
    (lanczosExact A n #[v] maxIters tol).info.iterations =
      (lanczosExact A n #[v] maxIters tol).iters + 1 ∧
    ((lanczosExact A n #[v] maxIters tol).Q.getD 0 #[]).size =
      (lanczosExact A n #[v] maxIters tol).iters ∧
    ((lanczosExact A n #[v] maxIters tol).beta.getD 0 #[]).size =
      (lanczosExact A n #[v] maxIters tol).iters ∧
    ((lanczosExact A n #[v] maxIters tol).alpha.getD 0 #[]).size =
      (lanczosExact A n #[v] maxIters tol).iters - 1 ∧
    OutSpec A v (lanczosExact A n #[v] maxIters tol).iters
      ((lanczosExact A n #[v] maxIters tol).q 0) ((lanczosExact A n #[v] maxIters tol).T 0)
      ((lanczosExact A n #[v] maxIters tol).resid A 0) ∧
    ((lanczosExact A n #[v] maxIters tol).iters = min maxIters n ∨
      ∃ β₁ : ℝ, (2 ≤ (lanczosExact A n #[v] maxIters tol).iters →
          (lanczosExact A n #[v] maxIters tol).T 0 1 0 = (β₁ : 𝕜)) ∧
        ((lanczosExact A n #[v] maxIters tol).iters = 1 →
          β₁ = ‖(lanczosExact A n #[v] maxIters tol).resid A 0‖) ∧
        ‖(lanczosExact A n #[v] maxIters tol).resid A 0‖ ≤ tol * β₁) := by
  obtain ⟨s, hs, hinv, hk1, hkm, hit, hexit⟩ := lanczos_single A hA n maxIters v tol hv htol hm
  set o := lanczosExact A n #[v] maxIters tol with ho
  set k := o.iters with hk
  set m := min maxIters n
  have hQ : o.Q.getD 0 #[] = trimQ s k := by
    have : o.Q = o.final.mems.map (fun s => trimQ s o.iters) := rfl
    rw [this, hs]; simp [hk]
  have hB : o.beta.getD 0 #[] = trimBeta s k := by
    have : o.beta = o.final.mems.map (fun s => trimBeta s o.iters) := rfl
    rw [this, hs]; simp [hk]
  have hAl : o.alpha.getD 0 #[] = trimAlpha s k := by
    have : o.alpha = o.final.mems.map (fun s => trimAlpha s o.iters) := rfl
    rw [this, hs]; simp [hk]
  have hq : ∀ c, c < k → o.q 0 c = qc s (c + 1) := by
    intro c hc
    unfold Out.q
    rw [hQ]; exact col_trimQ s m k c hinv.sizeV hkm hc
  have hT : ∀ a c, a < k → c < k →
      o.T 0 a c = triT (fun c => dg s c) (fun c => sb s (c + 1)) a c := by
    intro a c ha hc
    unfold Out.T
    rw [hB, hAl]; exact tridiagEntry_trim s m k a c hinv.sizeD hinv.sizeS hkm ha hc
  have hspec := outSpec_of_inv hA hinv hk1 (o.q 0) (o.T 0) hq hT
  have hres : o.resid A 0 = qc s (k + 1) := by
    have := hspec.rel (k - 1) (by omega)
    have hkk : k - 1 + 1 = k := by omega
    simp only [hkk, if_true] at this
    exact this
  refine ⟨hk1, hkm, hit, ?_, ?_, ?_, ?_, ?_⟩
  · rw [hQ]; exact size_trimQ s m k hinv.sizeV hkm
  · rw [hB]; exact size_trimBeta s m k hinv.sizeD hkm
  · rw [hAl]; exact size_trimAlpha s m k hinv.sizeS hkm
  · rw [hres]; exact hspec
  · rcases hexit with hcap | ⟨b1, bk, h1, h2, h3⟩
    · left; exact hcap
    · right
      have hbk : bk = ‖o.resid A 0‖ := by
        rw [hres]
        have := hinv.subLast hk1
        rw [h2] at this
        exact_mod_cast this
      refine ⟨b1, ?_, ?_, ?_⟩
      · intro h2k
        rw [hT 1 0 (by omega) (by omega), triT_sub]; exact h1
      · intro hk1'
        rw [hk1'] at h2
        have : (b1 : 𝕜) = (bk : 𝕜) := by rw [← h1, ← h2]
        have : b1 = bk := by exact_mod_cast this
        rw [this, hbk]
      · rw [← hbk]; exact h3

/-! ### several start vectors -/

/-- batched run, the clause read on the buffers: no `subdiag[c]`, `1 ≤ c < iters`, of any member's
final buffers vanishes -/
theorem batch_out_sb (A : E →ₗ[𝕜] E) (hA : A.IsSymmetric) (n maxIters : ℕ) (vs : Array E) (tol : ℝ)
    (hm : 1 ≤ min maxIters n) (hne : 0 < vs.size)
    (hv : ∀ (b : ℕ) (v : E), vs[b]? = some v → v ≠ 0)
    (hoff' : ∀ (b : ℕ) (s : Mem 𝕜 E), (lanczosExact A n vs maxIters tol).final.mems[b]? = some s →
      ∀ c, 1 ≤ c → c < (lanczosExact A n vs maxIters tol).iters → sb s c ≠ 0) :
    1 ≤ (lanczosExact A n vs maxIters tol).iters ∧
    (lanczosExact A n vs maxIters tol).iters ≤ min maxIters n ∧
    (lanczosExact A n vs maxIters tol).info.iterations =
      (lanczosExact A n vs maxIters tol).iters + 1 ∧
    ∀ b, b < vs.size →
      ((lanczosExact A n vs maxIters tol).Q.getD b #[]).size =
        (lanczosExact A n vs maxIters tol).iters ∧
      OutSpec A (vs.getD b 0) (lanczosExact A n vs maxIters tol).iters
        ((lanczosExact A n vs maxIters tol).q b) ((lanczosExact A n vs maxIters tol).T b)
        ((lanczosExact A n vs maxIters tol).resid A b) := by
  obtain ⟨k, hk1, hk2, hk3, hk4, hk5, hk6⟩ := lanczos_run A n vs maxIters tol
  set o := lanczosExact A n vs maxIters tol with ho
  set m := min maxIters n
  have hsz : o.final.mems.size = vs.size := by rw [hk2, iter_size]
  -- at least one iteration
  have hk1' : 1 ≤ k := by
    by_contra hcon
    have hk0 : k = 0 := by omega
    subst hk0
    have : cond (K := 𝕜) (tol : 𝕜) m (iter A m vs 0) = true := by
      simp only [cond, Bool.and_eq_true, decide_eq_true_eq, iter_i, Array.any_eq_true]
      refine ⟨by omega, 0, by rw [iter_size]; exact hne, ?_⟩
      simp [isLarge]
    rw [this] at hk6; exact absurd hk6 (by simp)
  have hacc : ∀ b (s : Mem 𝕜 E), o.final.mems[b]? = some s →
      o.Q.getD b #[] = trimQ s k ∧ o.beta.getD b #[] = trimBeta s k ∧
        o.alpha.getD b #[] = trimAlpha s k := by
    intro b s hs
    obtain ⟨hb, hbs⟩ := Array.getElem?_eq_some_iff.mp hs
    have e1 : o.Q = o.final.mems.map (fun s => trimQ s o.iters) := rfl
    have e2 : o.beta = o.final.mems.map (fun s => trimBeta s o.iters) := rfl
    have e3 : o.alpha = o.final.mems.map (fun s => trimAlpha s o.iters) := rfl
    rw [e1, e2, e3, hk3]
    simp [Array.getD_eq_getD_getElem?, hb, hbs]
  obtain ⟨_, _, hit, hinv⟩ := lanczos_batch A hA n maxIters vs tol hv hoff'
  rw [hk3] at hinv
  refine ⟨by rw [hk3]; exact hk1', by rw [hk3]; exact hk1, hit, ?_⟩
  intro b hb
  have hbs : o.final.mems[b]? = some (o.final.mems[b]'(by rw [hsz]; exact hb)) := by
    simp [hsz, hb]
  set s := o.final.mems[b]'(by rw [hsz]; exact hb)
  have hi := hinv b s hbs
  obtain ⟨hQ, hB, hAl⟩ := hacc b s hbs
  have hq : ∀ c, c < k → o.q b c = qc s (c + 1) := by
    intro c hc
    unfold Out.q
    rw [hQ]; exact col_trimQ s m k c hi.sizeV hk1 hc
  have hT : ∀ a c, a < k → c < k →
      o.T b a c = triT (fun c => dg s c) (fun c => sb s (c + 1)) a c := by
    intro a c ha hc
    unfold Out.T
    rw [hB, hAl]; exact tridiagEntry_trim s m k a c hi.sizeD hi.sizeS hk1 ha hc
  have hspec := outSpec_of_inv hA hi hk1' (o.q b) (o.T b) hq hT
  have hres : o.resid A b = qc s (k + 1) := by
    have := hspec.rel (k - 1) (by omega)
    have hkk : k - 1 + 1 = k := by omega
    simp only [hkk, if_true] at this
    unfold Out.resid
    rw [hk3]
    exact this
  rw [hk3]
  refine ⟨?_, ?_⟩
  · rw [hQ]; exact size_trimQ s m k hi.sizeV hk1
  · rw [hres]; exact hspec

theorem batch_out (A : E →ₗ[𝕜] E) (hA : A.IsSymmetric) (n maxIters : ℕ) (vs : Array E) (tol : ℝ)
    (hm : 1 ≤ min maxIters n) (hne : 0 < vs.size)
    (hv : ∀ (b : ℕ) (v : E), vs[b]? = some v → v ≠ 0)
    (hoff : ∀ b c, b < vs.size → c + 1 < (lanczosExact A n vs maxIters tol).iters →
      (lanczosExact A n vs maxIters tol).T b (c + 1) c ≠ 0) :
    1 ≤ (lanczosExact A n vs maxIters tol).iters ∧
    (lanczosExact A n vs maxIters tol).iters ≤ min maxIters n ∧
    (lanczosExact A n vs maxIters tol).info.iterations =
      (lanczosExact A n vs maxIters tol).iters + 1 ∧
    ∀ b, b < vs.size →
      ((lanczosExact A n vs maxIters tol).Q.getD b #[]).size =
        (lanczosExact A n vs maxIters tol).iters ∧
      OutSpec A (vs.getD b 0) (lanczosExact A n vs maxIters tol).iters
        ((lanczosExact A n vs maxIters tol).q b) ((lanczosExact A n vs maxIters tol).T b)
        ((lanczosExact A n vs maxIters tol).resid A b) := by
  apply batch_out_sb A hA n maxIters vs tol hm hne hv
  obtain ⟨k, hk1, hk2, hk3, hk4, hk5, hk6⟩ := lanczos_run A n vs maxIters tol
  set o := lanczosExact A n vs maxIters tol with ho
  set m := min maxIters n
  have hsz : o.final.mems.size = vs.size := by rw [hk2, iter_size]
  have hk1' : 1 ≤ k ∨ k = 0 := by omega
  intro b s hs c hc1 hck
  obtain ⟨hb, hbs⟩ := Array.getElem?_eq_some_iff.mp hs
  have hb' : b < vs.size := by rw [hsz] at hb; exact hb
  rw [hk3] at hck
  have h := hoff b (c - 1) hb' (by rw [hk3]; omega)
  have hcc : c - 1 + 1 = c := by omega
  rw [hcc] at h
  have e2 : o.beta = o.final.mems.map (fun s => trimBeta s o.iters) := rfl
  have e3 : o.alpha = o.final.mems.map (fun s => trimAlpha s o.iters) := rfl
  have hB : o.beta.getD b #[] = trimBeta s k := by
    rw [e2, hk3]; simp [Array.getD_eq_getD_getElem?, hb, hbs]
  have hAl : o.alpha.getD b #[] = trimAlpha s k := by
    rw [e3, hk3]; simp [Array.getD_eq_getD_getElem?, hb, hbs]
  obtain ⟨_, g2, g3⟩ := iter_mem_sizes A m vs k b s (by rw [← hk2]; exact hs)
  unfold Out.T at h
  rw [hB, hAl, tridiagEntry_trim s m k c (c - 1) g2 g3 hk1 hck (by omega)] at h
  have := triT_sub (fun c => dg s c) (fun c => sb s (c + 1)) (c - 1)
  rw [hcc] at this
  rw [this] at h
  exact h

/-! ### `lanczos_eigs` -/

theorem eigs_out (eigh : Array (Array 𝕜) → Array 𝕜 × Array (Array 𝕜))
    (A : E →ₗ[𝕜] E) (hA : A.IsSymmetric) (n maxIters : ℕ) (v : E) (tol : ℝ)
    (hv : v ≠ 0) (htol : 0 ≤ tol) (hm : 1 ≤ min maxIters n)
    (hsize : (eigh (tridiagDense (K := 𝕜) ((lanczosExact A n #[v] maxIters tol).alpha.getD 0 #[])
        ((lanczosExact A n #[v] maxIters tol).beta.getD 0 #[]))).1.size =
        (lanczosExact A n #[v] maxIters tol).iters)
    (hpair : ∀ j a, j < (lanczosExact A n #[v] maxIters tol).iters →
      a < (lanczosExact A n #[v] maxIters tol).iters →
      ∑ c ∈ range (lanczosExact A n #[v] maxIters tol).iters,
        (lanczosExact A n #[v] maxIters tol).T 0 a c *
          ((eigh (tridiagDense (K := 𝕜) ((lanczosExact A n #[v] maxIters tol).alpha.getD 0 #[])
            ((lanczosExact A n #[v] maxIters tol).beta.getD 0 #[]))).2.getD j #[]).getD c 0 =
      (eigh (tridiagDense (K := 𝕜) ((lanczosExact A n #[v] maxIters tol).alpha.getD 0 #[])
            ((lanczosExact A n #[v] maxIters tol).beta.getD 0 #[]))).1.getD j 0 *
        ((eigh (tridiagDense (K := 𝕜) ((lanczosExact A n #[v] maxIters tol).alpha.getD 0 #[])
            ((lanczosExact A n #[v] maxIters tol).beta.getD 0 #[]))).2.getD j #[]).getD a 0) :
    ∃ (idx : List ℕ) (θ : ℕ → 𝕜) (y : ℕ → ℕ → 𝕜) (x : ℕ → E),
      idx.Perm (List.range (lanczosExact A n #[v] maxIters tol).iters) ∧
      (lanczosEigs (K := 𝕜) eigh (⇑A) n 0 v maxIters (tol : 𝕜)).1.toList = idx.map θ ∧
      (lanczosEigs (K := 𝕜) eigh (⇑A) n 0 v maxIters (tol : 𝕜)).2.toList = idx.map x ∧
      (idx.map θ).Pairwise (fun a b => RCLike.re a ≤ RCLike.re b) ∧
      ∀ j, j < (lanczosExact A n #[v] maxIters tol).iters →
        x j = ∑ c ∈ range (lanczosExact A n #[v] maxIters tol).iters,
          y j c • (lanczosExact A n #[v] maxIters tol).q 0 c ∧
        A (x j) - θ j • x j =
          y j ((lanczosExact A n #[v] maxIters tol).iters - 1) •
            (lanczosExact A n #[v] maxIters tol).resid A 0 := by
  obtain ⟨hk1, _, _, hQs, _, _, hspec, _⟩ := single_out A hA n maxIters v tol hv htol hm
  set o := lanczosExact A n #[v] maxIters tol with ho
  set k := o.iters
  set e := eigh (tridiagDense (K := 𝕜) (o.alpha.getD 0 #[]) (o.beta.getD 0 #[])) with he
  refine ⟨argsort (K := 𝕜) e.1, fun j => e.1.getD j 0, fun j c => (e.2.getD j #[]).getD c 0,
    fun j => combine (K := 𝕜) 0 (o.Q.getD 0 #[]) (e.2.getD j #[]), ?_, ?_, ?_, ?_, ?_⟩
  · have := argsort_perm e.1
    rw [hsize] at this; exact this
  · simp only [lanczosEigs]
    rfl
  · simp only [lanczosEigs]
    rfl
  · have := argsort_sorted e.1
    rw [List.pairwise_map]
    exact this
  · intro j hj
    have hx : combine (K := 𝕜) 0 (o.Q.getD 0 #[]) (e.2.getD j #[]) =
        ∑ c ∈ range k, (e.2.getD j #[]).getD c 0 • o.q 0 c := by
      rw [combine_eq_sum, hQs]; rfl
    refine ⟨hx, ?_⟩
    simp only
    rw [hx]
    exact hspec.ritz (fun c => (e.2.getD j #[]).getD c 0) (e.1.getD j 0)
      (fun a ha => hpair j a hj ha)

end Lanczos
