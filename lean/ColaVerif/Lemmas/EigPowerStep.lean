import ColaVerif.Lemmas.EigPower
import Mathlib.Analysis.InnerProductSpace.Positive
import Mathlib.Analysis.Complex.Basic

/-!
# Power iteration in exact arithmetic: what one step guarantees

Convergence of power iteration is NOT a theorem for all inputs (no dominant eigenvalue, start vector
orthogonal to the dominant eigenspace, …).  What holds for EVERY input and EVERY number of steps:

* `exactPI A` — the exact-arithmetic instance of the law-free operations `PIOps` (`𝕜` real or complex,
  `E` any inner product space): `matvec = A`, `dot u p = ⟪u, p⟫` (conjugate-linear in `u`: `conj(v) @ p`),
  `normalize p = p / ‖p‖` (`unitize`; `0` for `p = 0`), `relerr = |eigprev - eig| / |eig|`, `gt = (>)`.
* `stateAt_succ`, `stateAt_unit` — from the second state on the iterate is a unit vector (or `0` after an exact
  breakdown `A v = 0`) and the value of state `j + 1` is the Rayleigh product `⟪v_j, A v_j⟫` at it.
* `rayleigh_step_mono` — for a Hermitian positive semi-definite `A` one step does not decrease the Rayleigh
  quotient (`form_cauchy_schwarz`: Cauchy–Schwarz for the form `⟪x, A y⟫`); `stateAt_mono`: the values never
  decrease from the second one on; `stateAt_le`: they stay below every bound `L` of the quadratic form
  (`λ_max` is the least such bound).
* `power_stop` — an exit below the cap means `|eigprev - eig| / |eig| ≤ tol`.
-/

open scoped InnerProductSpace
open RCLike

namespace Eig

variable {𝕜 E : Type} [RCLike 𝕜] [NormedAddCommGroup E] [InnerProductSpace 𝕜 E]

/-- the positive semi-definite form `(x, y) ↦ ⟪x, A y⟫` of a positive operator -/
@[reducible] noncomputable def formCore (A : E →ₗ[𝕜] E) (hA : A.IsPositive) : PreInnerProductSpace.Core 𝕜 E where
  inner x y := ⟪x, A y⟫_𝕜
  conj_inner_symm x y := by
    show (starRingEnd 𝕜) ⟪y, A x⟫_𝕜 = ⟪x, A y⟫_𝕜
    rw [inner_conj_symm, hA.1 x y]
  re_inner_nonneg x := hA.re_inner_nonneg_right x
  add_left x y z := inner_add_left _ _ _
  smul_left x y r := inner_smul_left _ _ _

/-- Cauchy–Schwarz for the form of a positive operator -/
theorem form_cauchy_schwarz (A : E →ₗ[𝕜] E) (hA : A.IsPositive) (x y : E) :
    ‖⟪x, A y⟫_𝕜‖ * ‖⟪x, A y⟫_𝕜‖ ≤ re ⟪x, A x⟫_𝕜 * re ⟪y, A y⟫_𝕜 := by
  have h := @InnerProductSpace.Core.inner_mul_inner_self_le 𝕜 E _ _ _ (formCore A hA) x y
  have h2 : ‖⟪y, A x⟫_𝕜‖ = ‖⟪x, A y⟫_𝕜‖ := by
    rw [← hA.1 y x, ← inner_conj_symm, RCLike.norm_conj]
  have h' : ‖⟪x, A y⟫_𝕜‖ * ‖⟪y, A x⟫_𝕜‖ ≤ re ⟪x, A x⟫_𝕜 * re ⟪y, A y⟫_𝕜 := h
  rwa [h2] at h'

/-- `p / ‖p‖` in exact arithmetic (`0` for `p = 0`, where IEEE arithmetic gives NaN) -/
noncomputable def unitize (p : E) : E := (((‖p‖ : ℝ) : 𝕜))⁻¹ • p

theorem unitize_zero : unitize (𝕜 := 𝕜) (0 : E) = 0 := by simp [unitize]

theorem norm_unitize {p : E} (hp : p ≠ 0) : ‖unitize (𝕜 := 𝕜) p‖ = 1 := by
  have : ‖p‖ ≠ 0 := norm_ne_zero_iff.mpr hp
  rw [unitize, norm_smul, norm_inv, RCLike.norm_ofReal, abs_norm]
  field_simp

theorem unitize_unit_or_zero (p : E) : ‖unitize (𝕜 := 𝕜) p‖ = 1 ∨ unitize (𝕜 := 𝕜) p = 0 := by
  by_cases hp : p = 0
  · right; rw [hp, unitize_zero]
  · left; exact norm_unitize hp

/-- the Rayleigh product at `p / ‖p‖` -/
theorem inner_unitize (A : E →ₗ[𝕜] E) (p : E) :
    ⟪unitize (𝕜 := 𝕜) p, A (unitize (𝕜 := 𝕜) p)⟫_𝕜 = (((‖p‖ ^ 2 : ℝ) : 𝕜))⁻¹ * ⟪p, A p⟫_𝕜 := by
  simp only [unitize, map_smul, inner_smul_left, inner_smul_right, map_inv₀, RCLike.conj_ofReal]
  push_cast
  ring

/-- **one step of power iteration does not decrease the Rayleigh quotient** of a Hermitian positive
semi-definite operator: `u` a unit vector (or `0`), `w = A u / ‖A u‖` -/
theorem rayleigh_step_mono (A : E →ₗ[𝕜] E) (hA : A.IsPositive) (u : E) (hu : ‖u‖ = 1 ∨ u = 0) :
    re ⟪u, A u⟫_𝕜 ≤ re ⟪unitize (𝕜 := 𝕜) (A u), A (unitize (𝕜 := 𝕜) (A u))⟫_𝕜 := by
  by_cases hp : A u = 0
  · simp [hp, unitize_zero]
  have hu1 : ‖u‖ = 1 := by
    rcases hu with h | h
    · exact h
    · exact absurd (by rw [h, map_zero]) hp
  set p := A u with hpdef
  have hc : 0 < ‖p‖ := norm_pos_iff.mpr hp
  -- moments
  set μ1 := re ⟪u, p⟫_𝕜 with hμ1
  set μ3 := re ⟪p, A p⟫_𝕜 with hμ3
  have h1 : 0 ≤ μ1 := hA.re_inner_nonneg_right u
  have h3 : 0 ≤ μ3 := hA.re_inner_nonneg_right p
  have hcs1 : μ1 ≤ ‖p‖ := by
    have := re_inner_le_norm (𝕜 := 𝕜) u p
    rwa [hu1, one_mul] at this
  have hup : ⟪u, A p⟫_𝕜 = ((‖p‖ ^ 2 : ℝ) : 𝕜) := by
    rw [← hA.1 u p, ← hpdef, inner_self_eq_norm_sq_to_K]; push_cast; rfl
  have hcs2 : ‖p‖ ^ 2 * ‖p‖ ^ 2 ≤ μ1 * μ3 := by
    have := form_cauchy_schwarz A hA u p
    rw [hup, RCLike.norm_ofReal, abs_of_nonneg (by positivity)] at this
    exact this
  rw [inner_unitize, ← RCLike.ofReal_inv, RCLike.re_ofReal_mul, ← hμ3]
  have hsq : 0 < ‖p‖ ^ 2 := by positivity
  rw [le_inv_mul_iff₀ hsq]
  rcases h1.eq_or_lt with h0 | hpos
  · rw [← h0, mul_zero]; exact h3
  · have hm : μ1 * μ1 ≤ ‖p‖ ^ 2 := by nlinarith
    have : μ1 * (‖p‖ ^ 2 * μ1) ≤ μ1 * μ3 := by nlinarith
    exact le_of_mul_le_mul_left this hpos


/-! ## the loop at exact arithmetic -/

/-- the exact-arithmetic instance of the operations of `power_iteration` -/
noncomputable def exactPI (A : E →ₗ[𝕜] E) : PIOps 𝕜 E where
  matvec := A
  dot u p := ⟪u, p⟫_𝕜
  normalize := unitize (𝕜 := 𝕜)
  relerr eig eigprev := ((‖eigprev - eig‖ / ‖eig‖ : ℝ) : 𝕜)
  gt a b := decide (re b < re a)

/-- the start state `(0, v₀, v₀, 10, 1)` -/
def initState (v0 : E) : PIState 𝕜 E := { i := 0, v := v0, vprev := v0, eig := 10, eigprev := 1 }

/-- the state after `j` evaluations of the body -/
noncomputable def stateAt (A : E →ₗ[𝕜] E) (v0 : E) (j : Nat) : PIState 𝕜 E :=
  (piBody (exactPI A))^[j] (initState v0)

theorem stateAt_succ (A : E →ₗ[𝕜] E) (v0 : E) (j : Nat) :
    (stateAt A v0 (j + 1)).eig = ⟪(stateAt A v0 j).v, A (stateAt A v0 j).v⟫_𝕜 ∧
    (stateAt A v0 (j + 1)).v = unitize (𝕜 := 𝕜) (A (stateAt A v0 j).v) ∧
    (stateAt A v0 (j + 1)).vprev = (stateAt A v0 j).v ∧
    (stateAt A v0 (j + 1)).eigprev = (stateAt A v0 j).eig := by
  unfold stateAt
  rw [Function.iterate_succ_apply']
  exact ⟨rfl, rfl, rfl, rfl⟩

/-- from the second state on the iterate is a unit vector, or `0` after an exact breakdown -/
theorem stateAt_unit (A : E →ₗ[𝕜] E) (v0 : E) (j : Nat) (hj : 1 ≤ j) :
    ‖(stateAt A v0 j).v‖ = 1 ∨ (stateAt A v0 j).v = 0 := by
  obtain ⟨j', rfl⟩ : ∃ j', j = j' + 1 := ⟨j - 1, by omega⟩
  rw [(stateAt_succ A v0 j').2.1]
  exact unitize_unit_or_zero _

/-- **Hermitian PSD: the values never decrease from the second one on** -/
theorem stateAt_mono (A : E →ₗ[𝕜] E) (hA : A.IsPositive) (v0 : E) :
    ∀ i j, 2 ≤ i → i ≤ j → re (stateAt A v0 i).eig ≤ re (stateAt A v0 j).eig := by
  intro i j hi hij
  induction j, hij using Nat.le_induction with
  | base => exact le_refl _
  | succ j hij ih =>
    refine le_trans ih ?_
    obtain ⟨j', rfl⟩ : ∃ j', j = j' + 1 := ⟨j - 1, by omega⟩
    rw [(stateAt_succ A v0 (j' + 1)).1, (stateAt_succ A v0 j').1, (stateAt_succ A v0 j').2.1]
    have hu := stateAt_unit A v0 j' (by omega)
    exact rayleigh_step_mono A hA _ hu

/-- the values of unit iterates stay below every bound of the quadratic form (`λ_max`) -/
theorem stateAt_le (A : E →ₗ[𝕜] E) (v0 : E) (L : ℝ) (hL : 0 ≤ L)
    (bound : ∀ x : E, re ⟪x, A x⟫_𝕜 ≤ L * ‖x‖ ^ 2) (j : Nat) (hj : 2 ≤ j) :
    re (stateAt A v0 j).eig ≤ L := by
  obtain ⟨j', rfl⟩ : ∃ j', j = j' + 1 := ⟨j - 1, by omega⟩
  rw [(stateAt_succ A v0 j').1]
  rcases stateAt_unit A v0 j' (by omega) with h | h
  · have := bound (stateAt A v0 j').v
    rwa [h, one_pow, mul_one] at this
  · rw [h, inner_zero_left, map_zero]; exact hL

/-- the value of a state is bounded by the norm of the product it was formed from -/
theorem stateAt_norm_le (A : E →ₗ[𝕜] E) (v0 : E) (j : Nat) (hj : 2 ≤ j) :
    ‖(stateAt A v0 j).eig‖ ≤ ‖A (stateAt A v0 j).vprev‖ := by
  obtain ⟨j', rfl⟩ : ∃ j', j = j' + 1 := ⟨j - 1, by omega⟩
  rw [(stateAt_succ A v0 j').1, (stateAt_succ A v0 j').2.2.1]
  refine le_trans (norm_inner_le_norm _ _) ?_
  rcases stateAt_unit A v0 j' (by omega) with h | h
  · rw [h, one_mul]
  · rw [h, norm_zero, zero_mul, map_zero, norm_zero]

/-- what `power_iteration` returns at exact arithmetic is the state after `r.i` steps -/
theorem powerIteration_exact (A : E →ₗ[𝕜] E) (tol : 𝕜) (maxIter : Nat) (v0 : E) :
    powerIteration (exactPI A) tol maxIter v0 10 1 =
      stateAt A v0 (powerIteration (exactPI A) tol maxIter v0 10 1).i :=
  (powerIteration_spec (exactPI A) tol maxIter v0 10 1).1

/-- an exit below the cap: the relative change of the value is at most `tol` -/
theorem power_stop (A : E →ₗ[𝕜] E) (tol : 𝕜) (maxIter : Nat) (v0 : E) :
    let r := powerIteration (exactPI A) tol maxIter v0 10 1
    r.i = maxIter ∨ ‖r.eigprev - r.eig‖ / ‖r.eig‖ ≤ re tol := by
  intro r
  rcases (powerIteration_spec (exactPI A) tol maxIter v0 10 1).2.2.2.1 with h | h
  · left; exact h
  · right
    have h' : decide (re tol < re ((‖r.eigprev - r.eig‖ / ‖r.eig‖ : ℝ) : 𝕜)) = false := h
    rw [decide_eq_false_iff_not, RCLike.ofReal_re, not_lt] at h'
    exact h'

end Eig
