import ColaVerif.Lemmas.EigDiag
import Mathlib.Algebra.BigOperators.Intervals
import Mathlib.LinearAlgebra.Matrix.Block
import Mathlib.LinearAlgebra.Matrix.Determinant.Basic
import Mathlib.Tactic.FieldSimp
import Mathlib.Tactic.LinearCombination

/-!
# The `Triangular` rule of `eig`: back substitution gives exact eigenvectors of an UPPER triangular matrix

`backSub_spec`: the list `backSub M b i` solves the upper triangular system on the leading block.
`triCol_spec`: for `L` upper triangular on the `n × n` window with `L r r ≠ L i i` (`r < i`), column `i`
of `compute_upper_triangular_eigvecs(L)` is `(x₀, …, x_{i-1}, 1, 0, …, 0)` with `L v = L i i • v`.
`triEigvecs_spec`: the columns form a unit upper triangular matrix.  `triVecs_spec`: lower triangular
data goes through the reversal `J L J` and comes back as a unit lower triangular eigenvector matrix; in
both cases the columns are exact eigenvectors and linearly independent.
-/

open Finset

namespace Eig

variable {R : Type} [Field R]

/-! ## back substitution -/

theorem backSubAux_length (M : MatF R) (b : Nat → R) (i m : Nat) :
    (backSubAux M b i m).length = m := by
  induction m with
  | zero => rfl
  | succ m ih => simp [backSubAux, ih]

theorem backSubAux_getD_succ (M : MatF R) (b : Nat → R) (i m t : Nat) :
    (backSubAux M b i (m + 1)).getD (t + 1) 0 = (backSubAux M b i m).getD t 0 := by
  simp [backSubAux]

theorem backSubAux_shift (M : MatF R) (b : Nat → R) (i m t j : Nat) :
    (backSubAux M b i (m + j)).getD (t + j) 0 = (backSubAux M b i m).getD t 0 := by
  induction j with
  | zero => rfl
  | succ j ih => rw [← Nat.add_assoc, ← Nat.add_assoc, backSubAux_getD_succ, ih]

/-- entry `t` of the partial list after `m` steps is the final `x_{i - m + t}` -/
theorem backSubAux_eq_final (M : MatF R) (b : Nat → R) (i m t : Nat) (hm : m ≤ i) :
    (backSubAux M b i m).getD t 0 = (backSub M b i).getD (i - m + t) 0 := by
  have h := backSubAux_shift M b i m t (i - m)
  rw [Nat.add_sub_cancel' hm] at h
  rw [backSub, Nat.add_comm (i - m) t, h]

theorem backSub_length (M : MatF R) (b : Nat → R) (i : Nat) : (backSub M b i).length = i :=
  backSubAux_length M b i i

/-- **back substitution solves the upper triangular system** (only the diagonal and the part above
it are read) -/
theorem backSub_spec (M : MatF R) (b : Nat → R) (i : Nat) (hdiag : ∀ r, r < i → M r r ≠ 0)
    (r : Nat) (hr : r < i) :
    M r r * (backSub M b i).getD r 0 + ∑ c ∈ Ico (r + 1) i, M r c * (backSub M b i).getD c 0 = b r := by
  obtain ⟨m, hm⟩ : ∃ m, i = r + 1 + m := ⟨i - (r + 1), by omega⟩
  have hir : i - (m + 1) = r := by omega
  have hhead : (backSub M b i).getD r 0 =
      (b r - sumTo m (fun t => M r (r + 1 + t) * (backSubAux M b i m).getD t 0)) / M r r := by
    have h := backSubAux_eq_final M b i (m + 1) 0 (by omega)
    rw [hir] at h
    rw [show (backSub M b i).getD r 0 = (backSub M b i).getD (r + 0) 0 from rfl, ← h]
    simp [backSubAux, hir]
  have htail : ∀ t, (backSubAux M b i m).getD t 0 = (backSub M b i).getD (r + 1 + t) 0 := by
    intro t
    rw [backSubAux_eq_final M b i m t (by omega)]
    congr 1
    omega
  rw [Finset.sum_Ico_eq_sum_range, hhead, sumTo_eq]
  have him : i - (r + 1) = m := by omega
  rw [him]
  simp only [htail]
  have hne := hdiag r hr
  field_simp
  ring

/-! ## one column of `compute_lower_triangular_eigvecs` -/

variable [DecidableEq R]

theorem isUpperBlock_of (M : MatF R) (i : Nat) (h : ∀ r c, r < i → c < r → M r c = 0) :
    isUpperBlock M i = true := by
  simp only [isUpperBlock, List.all_eq_true, List.mem_range, decide_eq_true_eq]
  intro r hr c hc
  exact h r c hr hc

/-- the shifted block `L - L i i • 1` -/
def shiftM (L : MatF R) (i : Nat) : MatF R := fun r c => L r c - (if r = c then L i i else 0)

theorem triCol_eq (L : MatF R) (n i : Nat)
    (upperTriangular : ∀ r c, r < n → c < r → L r c = 0) (hi : i < n)
    (distinctDiagonal : ∀ r, r < i → L r r ≠ L i i) :
    triCol L n i =
      some (backSub (shiftM L i) (fun r => -L r i) i ++ 1 :: List.replicate (n - i - 1) 0) := by
  have hany : (List.range i).any (fun r => decide (shiftM L i r r = 0)) = false := by
    rw [List.any_eq_false]
    intro r hr
    simp only [shiftM, if_true, decide_eq_true_eq]
    exact sub_ne_zero.mpr (distinctDiagonal r (List.mem_range.mp hr))
  have hup : isUpperBlock (shiftM L i) i = true := by
    apply isUpperBlock_of
    intro r c hr hc
    have : r ≠ c := by omega
    simp [shiftM, this, upperTriangular r c (by omega) hc]
  unfold triCol solveTri
  change (if (List.range i).any (fun r => decide (shiftM L i r r = 0)) = true then none
    else if isUpperBlock (shiftM L i) i = true then some (backSub (shiftM L i) (fun r => -L r i) i)
    else _).map _ = _
  rw [hany, hup]
  simp

omit [DecidableEq R] in
/-- entries of the column -/
theorem col_getD (xs : List R) (i n c : Nat) (hx : xs.length = i) :
    (xs ++ 1 :: List.replicate (n - i - 1) 0).getD c 0 =
      if c < i then xs.getD c 0 else if c = i then 1 else 0 := by
  simp only [List.getD_eq_getElem?_getD]
  by_cases h1 : c < i
  · rw [List.getElem?_append_left (by omega)]; simp [h1]
  · rw [List.getElem?_append_right (by omega), hx]
    by_cases h2 : c = i
    · subst h2; simp
    · obtain ⟨d, hd⟩ : ∃ d, c - i = d + 1 := ⟨c - i - 1, by omega⟩
      rw [hd, List.getElem?_cons_succ]
      simp only [h1, h2, if_false]
      by_cases h3 : d < n - i - 1
      · rw [List.getElem?_replicate_of_lt h3]; rfl
      · rw [List.getElem?_eq_none (by simpa using Nat.le_of_not_lt h3)]; rfl

/-- **one column is an exact eigenvector of the upper triangular `L` for `L i i`**, its entry `i`
is `1` and it vanishes below -/
theorem triCol_spec (L : MatF R) (n i : Nat)
    (upperTriangular : ∀ r c, r < n → c < r → L r c = 0) (hi : i < n)
    (distinctDiagonal : ∀ r, r < i → L r r ≠ L i i) :
    ∃ v : List R, triCol L n i = some v ∧ v.length = n ∧ v.getD i 0 = 1 ∧
      (∀ r, i < r → v.getD r 0 = 0) ∧ IsEigPair n L (L i i) v := by
  set M := shiftM L i with hM
  set b : Nat → R := fun r => -L r i with hb
  set xs := backSub M b i with hxs
  have hlen : xs.length = i := backSub_length M b i
  refine ⟨xs ++ 1 :: List.replicate (n - i - 1) 0, triCol_eq L n i upperTriangular hi distinctDiagonal,
    ?_, ?_, ?_, ?_⟩
  · simp [hlen]; omega
  · rw [col_getD xs i n i hlen]; simp
  · intro r hr
    rw [col_getD xs i n r hlen]
    have h1 : ¬ r < i := by omega
    have h2 : r ≠ i := by omega
    simp [h1, h2]
  have hvi : (xs ++ 1 :: List.replicate (n - i - 1) 0).getD i 0 = 1 := by
    rw [col_getD xs i n i hlen]; simp
  refine ⟨by simp [hlen]; omega, ⟨i, hi, by rw [hvi]; exact one_ne_zero⟩, ?_⟩
  intro r hr
  set v := xs ++ 1 :: List.replicate (n - i - 1) 0 with hv
  -- only the columns `r ≤ c ≤ i` contribute
  have hsub : ∑ c ∈ range n, L r c * v.getD c 0 = ∑ c ∈ Ico r (i + 1), L r c * v.getD c 0 := by
    symm
    apply Finset.sum_subset
    · intro c hc
      rw [Finset.mem_Ico] at hc
      exact Finset.mem_range.mpr (by omega)
    · intro c hc hnc
      rw [Finset.mem_range] at hc
      rw [Finset.mem_Ico] at hnc
      by_cases hcr : c < r
      · rw [upperTriangular r c hr hcr, zero_mul]
      · have hci : i < c := by omega
        rw [hv, col_getD xs i n c hlen]
        have h1 : ¬ c < i := by omega
        have h2 : c ≠ i := by omega
        simp [h1, h2]
  rw [hsub]
  rcases Nat.lt_trichotomy r i with hri | hri | hri
  · -- a row above `i`: the row equation of the back substitution
    have hrow := backSub_spec M b i
      (fun q hq => by simp only [hM, shiftM, if_true]; exact sub_ne_zero.mpr (distinctDiagonal q hq))
      r hri
    rw [Finset.sum_Ico_succ_top (by omega), Finset.sum_eq_sum_Ico_succ_bot hri, hvi]
    have hvr : v.getD r 0 = xs.getD r 0 := by rw [hv, col_getD xs i n r hlen]; simp [hri]
    have hmid : ∑ c ∈ Ico (r + 1) i, L r c * v.getD c 0 = ∑ c ∈ Ico (r + 1) i, M r c * xs.getD c 0 := by
      apply Finset.sum_congr rfl
      intro c hc
      rw [Finset.mem_Ico] at hc
      have hne : r ≠ c := by omega
      have hci : c < i := hc.2
      rw [hv, col_getD xs i n c hlen]
      simp [hM, shiftM, hne, hci]
    rw [hvr, hmid]
    have hMrr : M r r = L r r - L i i := by simp [hM, shiftM]
    rw [hMrr] at hrow
    simp only [hb] at hrow
    linear_combination hrow
  · subst hri
    rw [Finset.sum_Ico_succ_top (le_refl r), Finset.Ico_self, Finset.sum_empty, zero_add]
  · rw [Finset.Ico_eq_empty (by omega), Finset.sum_empty]
    have : v.getD r 0 = 0 := by
      rw [hv, col_getD xs i n r hlen]
      have h1 : ¬ r < i := by omega
      have h2 : r ≠ i := by omega
      simp [h1, h2]
    rw [this, mul_zero]

/-! ## all columns -/

/-- the hypotheses of the rule on the whole window: upper triangular with distinct diagonal -/
theorem triEigvecs_spec (L : MatF R) (n : Nat)
    (upperTriangular : ∀ r c, r < n → c < r → L r c = 0)
    (distinctDiagonal : ∀ r i, r < i → i < n → L r r ≠ L i i) :
    ∃ cols : List (List R), triEigvecs L n = some cols ∧ cols.length = n ∧
      ∀ i, i < n → (cols.getD i []).length = n ∧ (cols.getD i []).getD i 0 = 1 ∧
        (∀ r, i < r → (cols.getD i []).getD r 0 = 0) ∧ IsEigPair n L (L i i) (cols.getD i []) := by
  -- choose the column of every index
  have hcol : ∀ i, i < n → ∃ v : List R, triCol L n i = some v ∧ v.length = n ∧ v.getD i 0 = 1 ∧
      (∀ r, i < r → v.getD r 0 = 0) ∧ IsEigPair n L (L i i) v :=
    fun i hi => triCol_spec L n i upperTriangular hi (fun r hr => distinctDiagonal r i hr hi)
  -- `mapM` over a prefix of the range succeeds with exactly these columns
  have hmap : ∀ l : List Nat, (∀ i ∈ l, i < n) →
      ∃ cols : List (List R), l.mapM (triCol L n) = some cols ∧ cols.length = l.length ∧
        ∀ j (hj : j < l.length), triCol L n l[j] = some (cols.getD j []) := by
    intro l
    induction l with
    | nil => intro _; exact ⟨[], rfl, rfl, fun j hj => absurd hj (by simp)⟩
    | cons a t ih =>
      intro hl
      obtain ⟨v, hv, _⟩ := hcol a (hl a List.mem_cons_self)
      obtain ⟨cols, hc, hlen, hget⟩ := ih (fun i hi => hl i (List.mem_cons_of_mem _ hi))
      refine ⟨v :: cols, ?_, by simp [hlen], ?_⟩
      · simp [List.mapM_cons, hv, hc]
      · intro j hj
        cases j with
        | zero => simpa using hv
        | succ j =>
          simp only [List.getElem_cons_succ, List.getD_cons_succ]
          exact hget j (by simpa using hj)
  obtain ⟨cols, hc, hlen, hget⟩ := hmap (List.range n) (fun i hi => List.mem_range.mp hi)
  refine ⟨cols, hc, by simpa using hlen, ?_⟩
  intro i hi
  obtain ⟨v, hv, h1, h2, h3, h4⟩ := hcol i hi
  have := hget i (by simpa using hi)
  rw [List.getElem_range, hv, Option.some.injEq] at this
  rw [← this]
  exact ⟨h1, h2, h3, h4⟩

omit [DecidableEq R] in
/-- a unit upper triangular family of columns is linearly independent -/
theorem linearIndependent_of_unitUpper (n : Nat) (cols : List (List R))
    (hdiag : ∀ i, i < n → (cols.getD i []).getD i 0 = 1)
    (hlow : ∀ i r, i < n → i < r → (cols.getD i []).getD r 0 = 0) :
    LinearIndependent R (fun c : Fin n => fun r : Fin n => (cols.getD c.val []).getD r.val 0) := by
  let V : Matrix (Fin n) (Fin n) R := fun r c => (cols.getD c.val []).getD r.val 0
  have hup : V.IsUpperTriangular := by
    intro r c hrc
    exact hlow c.val r.val c.isLt hrc
  have hdet : V.det = 1 := by
    rw [Matrix.det_of_isUpperTriangular hup]
    exact Finset.prod_eq_one (fun i _ => hdiag i.val i.isLt)
  have := Matrix.linearIndependent_cols_of_det_ne_zero (A := V) (by rw [hdet]; exact one_ne_zero)
  exact this

omit [DecidableEq R] in
/-- pairwise distinct columns of an independent family are independent -/
theorem linearIndependent_sel (n : Nat) (cols : List (List R)) (sel : List Nat) (hnd : sel.Nodup)
    (hlt : ∀ p ∈ sel, p < n)
    (h : LinearIndependent R (fun c : Fin n => fun r : Fin n => (cols.getD c.val []).getD r.val 0)) :
    LinearIndependent R
      (fun j : Fin sel.length => fun r : Fin n => (cols.getD sel[j.val] []).getD r.val 0) := by
  let f : Fin sel.length → Fin n := fun j => ⟨sel[j.val], hlt _ (List.getElem_mem _)⟩
  have hinj : Function.Injective f := by
    intro a b hab
    have h1 : sel[a.val] = sel[b.val] := congrArg Fin.val hab
    exact Fin.ext ((hnd.getElem_inj_iff).mp h1)
  have h2 := h.comp f hinj
  exact h2

omit [DecidableEq R] in
/-- a unit lower triangular family of columns is linearly independent -/
theorem linearIndependent_of_unitLower (n : Nat) (cols : List (List R))
    (hdiag : ∀ i, i < n → (cols.getD i []).getD i 0 = 1)
    (hup : ∀ i r, i < n → r < i → (cols.getD i []).getD r 0 = 0) :
    LinearIndependent R (fun c : Fin n => fun r : Fin n => (cols.getD c.val []).getD r.val 0) := by
  let V : Matrix (Fin n) (Fin n) R := fun r c => (cols.getD c.val []).getD r.val 0
  have hlow : V.IsLowerTriangular := by
    intro r c hrc
    have h : r < c := OrderDual.toDual_lt_toDual.mp hrc
    exact hup c.val r.val c.isLt h
  have hdet : V.det = 1 := by
    rw [Matrix.det_of_isLowerTriangular V hlow]
    exact Finset.prod_eq_one (fun i _ => hdiag i.val i.isLt)
  have := Matrix.linearIndependent_cols_of_det_ne_zero (A := V) (by rw [hdet]; exact one_ne_zero)
  exact this

/-! ## lower triangular data: the reversal `J L J` -/

omit [DecidableEq R] in
theorem getD_reverse_of_length (v : List R) (n c : Nat) (hv : v.length = n) (hc : c < n) :
    v.reverse.getD c 0 = v.getD (n - 1 - c) 0 := by
  simp only [List.getD_eq_getElem?_getD]
  rw [List.getElem?_reverse (by omega), hv]

omit [DecidableEq R] in
/-- an eigenvector of `J L J`, reversed, is an eigenvector of `L` -/
theorem isEigPair_reverse (n : Nat) (L : MatF R) (lam : R) (w : List R)
    (h : IsEigPair n (revM n L) lam w) : IsEigPair n L lam w.reverse := by
  obtain ⟨hlen, ⟨c, hc, hne⟩, heq⟩ := h
  refine ⟨by simpa using hlen, ⟨n - 1 - c, by omega, ?_⟩, ?_⟩
  · rw [getD_reverse_of_length w n _ hlen (by omega)]
    have : n - 1 - (n - 1 - c) = c := by omega
    rwa [this]
  · intro r hr
    have h1 := heq (n - 1 - r) (by omega)
    have hrr : n - 1 - (n - 1 - r) = r := by omega
    rw [getD_reverse_of_length w n r hlen hr, ← h1]
    rw [← Finset.sum_range_reflect (fun c => L r c * w.reverse.getD c 0) n]
    apply Finset.sum_congr rfl
    intro j hj
    have hj' : j < n := Finset.mem_range.mp hj
    rw [getD_reverse_of_length w n _ hlen (by omega)]
    have hjj : n - 1 - (n - 1 - j) = j := by omega
    simp only [revM, hrr, hjj]

theorem strictUpperZero_iff (L : MatF R) (n : Nat) :
    strictUpperZero L n = true ↔ ∀ r c, c < n → r < c → L r c = 0 := by
  simp only [strictUpperZero, List.all_eq_true, List.mem_range, decide_eq_true_eq]
  constructor
  · intro h r c hc hr; exact h c hc r hr
  · intro h c hc r hr; exact h r c hc hr

omit [Field R] [DecidableEq R] in
theorem getD_map_reverse_reverse (W : List (List R)) (n i : Nat) (hW : W.length = n) (hi : i < n) :
    ((W.map List.reverse).reverse).getD i [] = (W.getD (n - 1 - i) []).reverse := by
  simp only [List.getD_eq_getElem?_getD]
  rw [List.getElem?_reverse (by simpa [hW] using hi), List.length_map, hW, List.getElem?_map]
  have : n - 1 - i < W.length := by omega
  rw [List.getElem?_eq_getElem this]
  rfl

/-- **the eigenvector matrix of the `Triangular` rule** for triangular data (upper, or with vanishing
strictly upper part) with distinct diagonal: it exists, column `i` is an exact eigenvector for
`L i i`, and the columns are linearly independent -/
theorem triVecs_spec (L : MatF R) (n : Nat)
    (triangularData : (∀ r c, r < n → c < r → L r c = 0) ∨ (∀ r c, c < n → r < c → L r c = 0))
    (distinctDiagonal : ∀ r i, r < i → i < n → L r r ≠ L i i) :
    ∃ cols : List (List R), triVecs L n = some cols ∧
      (∀ i, i < n → IsEigPair n L (L i i) (cols.getD i [])) ∧
      LinearIndependent R (fun c : Fin n => fun r : Fin n => (cols.getD c.val []).getD r.val 0) := by
  by_cases hb : strictUpperZero L n = true
  · -- lower triangular data: reverse, solve, reverse back
    have hz := (strictUpperZero_iff L n).mp hb
    have hup : ∀ r c, r < n → c < r → revM n L r c = 0 := by
      intro r c hr hc
      exact hz _ _ (by omega) (by omega)
    have hdd : ∀ r i, r < i → i < n → revM n L r r ≠ revM n L i i := by
      intro r i hr hi
      exact (distinctDiagonal (n - 1 - i) (n - 1 - r) (by omega) (by omega)).symm
    obtain ⟨W, hW, hWlen, hWs⟩ := triEigvecs_spec (revM n L) n hup hdd
    refine ⟨(W.map List.reverse).reverse, by simp [triVecs, hb, hW], ?_, ?_⟩
    · intro i hi
      rw [getD_map_reverse_reverse W n i hWlen hi]
      have h := (hWs (n - 1 - i) (by omega)).2.2.2
      have hii : n - 1 - (n - 1 - i) = i := by omega
      have hl : revM n L (n - 1 - i) (n - 1 - i) = L i i := by simp only [revM, hii]
      rw [hl] at h
      exact isEigPair_reverse n L (L i i) _ h
    · apply linearIndependent_of_unitLower
      · intro i hi
        rw [getD_map_reverse_reverse W n i hWlen hi]
        obtain ⟨hl, h1, _, _⟩ := hWs (n - 1 - i) (by omega)
        rw [getD_reverse_of_length _ n i hl hi]
        exact h1
      · intro i r hi hr
        rw [getD_map_reverse_reverse W n i hWlen hi]
        obtain ⟨hl, _, h0, _⟩ := hWs (n - 1 - i) (by omega)
        rw [getD_reverse_of_length _ n r hl (by omega)]
        exact h0 _ (by omega)
  · have hup : ∀ r c, r < n → c < r → L r c = 0 := by
      rcases triangularData with h | h
      · exact h
      · exact absurd ((strictUpperZero_iff L n).mpr h) hb
    obtain ⟨cols, hc, _, hcols⟩ := triEigvecs_spec L n hup distinctDiagonal
    refine ⟨cols, by simp [triVecs, hb, hc], fun i hi => (hcols i hi).2.2.2, ?_⟩
    exact linearIndependent_of_unitUpper n cols (fun i hi => (hcols i hi).2.1)
      (fun i r hi hr => (hcols i hi).2.2.1 r hr)

/-- **`Triangular` rule** on triangular data (upper or lower, whatever `A.lower` says) with distinct
diagonal: the rule returns the columns `sel = get_slice(argsort(abs(diag)))` of the eigenvector
matrix; each is an exact eigenvector for its diagonal entry, and they are linearly independent -/
theorem triangularRule_spec (le : R → R → Bool) (L : MatF R) (n k : Nat) (w : Which)
    (triangularData : (∀ r c, r < n → c < r → L r c = 0) ∨ (∀ r c, c < n → r < c → L r c = 0))
    (distinctDiagonal : ∀ r i, r < i → i < n → L r r ≠ L i i) :
    ∃ (cols : List (List R)) (out : Spectrum R) (sel : List Nat),
      triangularRule le n L k w = some out ∧
      sel = getSlice k w (argsort le n (fun p => L p p)) ∧ sel.Nodup ∧ (∀ p ∈ sel, p < n) ∧
      out.vals = sel.map (fun p => L p p) ∧ out.vecs = sel.map (fun p => cols.getD p []) ∧
      (∀ p ∈ sel, IsEigPair n L (L p p) (cols.getD p [])) ∧
      LinearIndependent R
        (fun j : Fin sel.length => fun r : Fin n => (cols.getD sel[j.val] []).getD r.val 0) := by
  obtain ⟨cols, hc, hpairs, hli⟩ := triVecs_spec L n triangularData distinctDiagonal
  have hsub := getSlice_sublist k w (argsort le n (fun p => L p p))
  have hnd : (getSlice k w (argsort le n (fun p => L p p))).Nodup :=
    (argsort_nodup le n _).sublist hsub
  have hlt : ∀ p ∈ getSlice k w (argsort le n (fun p => L p p)), p < n :=
    fun p hp => argsort_lt le n _ (hsub.subset hp)
  refine ⟨cols, { vals := getSlice k w ((argsort le n (fun p => L p p)).map (fun p => L p p)),
                  vecs := getSlice k w ((argsort le n (fun p => L p p)).map (fun p => cols.getD p [])) },
    getSlice k w (argsort le n (fun p => L p p)), ?_, rfl, hnd, hlt, ?_, ?_, ?_, ?_⟩
  · simp only [triangularRule, hc, Option.map_some]
  · exact getSlice_map _ _ _ _
  · exact getSlice_map _ _ _ _
  · intro p hp
    exact hpairs p (hlt p hp)
  · exact linearIndependent_sel n cols _ hnd hlt hli

end Eig
