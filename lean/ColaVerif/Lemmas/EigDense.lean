import ColaVerif.Lemmas.EigTri
import ColaVerif.Lemmas.Bridge
import ColaVerif.Lemmas.AnnotSound
import Mathlib.LinearAlgebra.Matrix.Charpoly.Basic
import Mathlib.LinearAlgebra.Matrix.NonsingularInverse
import Mathlib.Algebra.Polynomial.Roots

/-!
# The dense rules of `eig` against the matrix: the contract of the LAPACK routines, and the structural
rules against `den`

* `DenseContract n A s` — what `xnp.eig(A.to_dense())` / `xnp.eigh(A.to_dense())` are ASSUMED to return:
  `A P = P diag(Λ)` with `n` non-zero columns.  `DenseContract.pairs`: every computed pair is an eigenpair of
  `A`; `DenseContract.spectrum`: when `P` is invertible (independent columns: a diagonalisable input; automatic
  for the unitary `P` of `eigh`, `orthonormalCols_isUnit`) the computed values are, as a multiset, the roots of
  the characteristic polynomial of `A` (`spectrumOf`).
* `selectPath_subperm`, `OrthonormalCols.subperm` — the selection returns a sub-multiset of the computed pairs,
  orthonormality survives it.
* `structural_identity_den`, `structural_diagonal_den`, `structural_triangular_den` — the structural rule of an
  OPERATOR TREE reads `A.rows` and `A.den` (through declaration wrappers): no contract at all.
* `spectrumOf_triangular` — for triangular data the diagonal is the spectrum.
-/

open Finset Matrix Polynomial

namespace Eig

variable {R : Type} [Field R]

/-- the matrix `P` whose column `c` is `vecs[c]` (an `n × m` window) -/
def colsM (n m : Nat) (vecs : List (List R)) : Matrix (Fin n) (Fin m) R :=
  fun r c => (vecs.getD c.val []).getD r.val 0

/-- `diag(Λ)` for the list of values -/
def valsD (m : Nat) (vals : List R) : Fin m → R := fun c => vals.getD c.val 0

/-- **the contract of a dense eigen-solver** (`xnp.eig` / `xnp.eigh` = LAPACK `geev` / `heevd`) on the
`n × n` window of `A`: it returns `n` values `Λ` and an `n × n` matrix `P` (list of its columns) with
`A P = P diag(Λ)` and no zero column.  ASSUMED of LAPACK (observed on every computed spectrum by
`harness/props/c10.py: contract_check`), not proved. -/
structure DenseContract (n : Nat) (A : MatF R) (s : Spectrum R) : Prop where
  count : s.vals.length = n
  lengths : s.vals.length = s.vecs.length
  colLength : ∀ v ∈ s.vecs, v.length = n
  relation : MatF.toMatrix n n A * colsM n n s.vecs = colsM n n s.vecs * diagonal (valsD n s.vals)
  nonzero : ∀ c : Fin n, (fun r => colsM n n s.vecs r c) ≠ 0

theorem mem_zip_iff_index {vals : List R} {vecs : List (List R)} (h : vals.length = vecs.length)
    (p : R × List R) (hp : p ∈ vals.zip vecs) :
    ∃ c, c < vals.length ∧ p = (vals.getD c 0, vecs.getD c []) := by
  rw [zip_eq_map_range vals vecs 0 h] at hp
  obtain ⟨c, hc, rfl⟩ := List.mem_map.mp hp
  exact ⟨c, List.mem_range.mp hc, rfl⟩

/-- column `c` of the relation `A P = P diag(Λ)` is `A v_c = λ_c v_c` -/
theorem DenseContract.pairs {n : Nat} {A : MatF R} {s : Spectrum R} (h : DenseContract n A s) :
    ∀ p ∈ s.vals.zip s.vecs, IsEigPair n A p.1 p.2 := by
  intro p hp
  obtain ⟨c, hc, rfl⟩ := mem_zip_iff_index h.lengths p hp
  have hcn : c < n := h.count ▸ hc
  have hmem : s.vecs.getD c [] ∈ s.vecs := by
    have : c < s.vecs.length := h.lengths ▸ hc
    rw [List.getD_eq_getElem?_getD, List.getElem?_eq_getElem this]
    exact List.getElem_mem _
  refine ⟨h.colLength _ hmem, ?_, ?_⟩
  · have hnz := h.nonzero ⟨c, hcn⟩
    by_contra hall
    apply hnz
    funext r
    have : ¬ (s.vecs.getD c []).getD r.val 0 ≠ 0 := fun hne => hall ⟨r.val, r.isLt, hne⟩
    simpa [colsM] using this
  · intro r hr
    have := congrFun (congrFun h.relation ⟨r, hr⟩) ⟨c, hcn⟩
    rw [Matrix.mul_diagonal, Matrix.mul_apply] at this
    simp only [MatF.toMatrix_apply, colsM, valsD] at this
    rw [Fin.sum_univ_eq_sum_range (fun j => A r j * (s.vecs.getD c []).getD j 0) n] at this
    rw [this, mul_comm]

theorem roots_charpoly_diagonal (n : Nat) (d : Fin n → R) :
    (diagonal d).charpoly.roots = (List.ofFn d : Multiset R) := by
  rw [charpoly_diagonal, roots_prod _ _ (Finset.prod_ne_zero_iff.mpr (fun i _ => X_sub_C_ne_zero (d i)))]
  simp only [roots_X_sub_C]
  rw [Multiset.bind_singleton, Fin.univ_val_map]

theorem ofFn_getD (n : Nat) (vals : List R) (h : vals.length = n) :
    List.ofFn (fun c : Fin n => vals.getD c.val 0) = vals := by
  subst h
  apply List.ext_getElem
  · simp
  · intro i h1 h2
    simp [List.getD_eq_getElem?_getD]

/-- similar matrices: `A P = P D` with `P` invertible gives `charpoly A = charpoly D` -/
theorem charpoly_of_relation (n : Nat) (A P D : Matrix (Fin n) (Fin n) R) (hP : IsUnit P)
    (h : A * P = P * D) : A.charpoly = D.charpoly := by
  obtain ⟨u, rfl⟩ := hP
  have : A = u.val * D * u⁻¹.val := by
    rw [← h, Matrix.mul_assoc, Units.mul_inv, Matrix.mul_one]
  rw [this, Matrix.coe_units_inv, charpoly_units_conj]

section star
variable [StarRing R]

theorem colDot_symm (n : Nat) (u v : List R) : colDot n v u = star (colDot n u v) := by
  simp only [colDot, star_sum, star_mul', star_star]
  exact Finset.sum_congr rfl (fun r _ => mul_comm _ _)

theorem colDot_zero_symm (n : Nat) {u v : List R} (h : colDot n u v = 0) : colDot n v u = 0 := by
  rw [colDot_symm, h, star_zero]

/-- orthonormality does not depend on the order of the columns, and passes to sub-families -/
theorem OrthonormalCols.subperm {n : Nat} {vs ws : List (List R)} (h : OrthonormalCols n vs)
    (hs : ws.Subperm vs) : OrthonormalCols n ws := by
  obtain ⟨l, hl, hsub⟩ := hs
  have h1 : l.Pairwise (fun u v => colDot n u v = 0) := h.1.sublist hsub
  refine ⟨(hl.pairwise_iff (R := fun u v => colDot n u v = 0) (fun hxy => colDot_zero_symm n hxy)).mp h1,
    fun v hv => h.2 v (hsub.subset (hl.symm.subset hv))⟩

/-- `n` orthonormal columns of length `n`: `Pᴴ P = 1` -/
theorem orthonormalCols_gram (n : Nat) (vecs : List (List R)) (hlen : vecs.length = n)
    (h : OrthonormalCols n vecs) : (colsM n n vecs)ᴴ * colsM n n vecs = 1 := by
  ext i j
  rw [Matrix.mul_apply]
  simp only [conjTranspose_apply, colsM]
  rw [Fin.sum_univ_eq_sum_range (fun r => star ((vecs.getD i.val []).getD r 0) * (vecs.getD j.val []).getD r 0) n]
  change colDot n (vecs.getD i.val []) (vecs.getD j.val []) = _
  have hi : i.val < vecs.length := hlen ▸ i.isLt
  have hj : j.val < vecs.length := hlen ▸ j.isLt
  have gi : vecs.getD i.val [] = vecs[i.val] := by
    rw [List.getD_eq_getElem?_getD, List.getElem?_eq_getElem hi]; rfl
  have gj : vecs.getD j.val [] = vecs[j.val] := by
    rw [List.getD_eq_getElem?_getD, List.getElem?_eq_getElem hj]; rfl
  rw [gi, gj, Matrix.one_apply]
  have hp := List.pairwise_iff_getElem.mp h.1
  rcases Nat.lt_trichotomy i.val j.val with hlt | heq | hgt
  · rw [if_neg (by intro e; rw [e] at hlt; exact lt_irrefl _ hlt)]
    exact hp i.val j.val hi hj hlt
  · have : i = j := Fin.ext heq
    subst this
    rw [if_pos rfl]
    exact h.2 _ (List.getElem_mem _)
  · rw [if_neg (by intro e; rw [e] at hgt; exact lt_irrefl _ hgt)]
    exact colDot_zero_symm n (hp j.val i.val hj hi hgt)

theorem orthonormalCols_isUnit (n : Nat) (vecs : List (List R)) (hlen : vecs.length = n)
    (h : OrthonormalCols n vecs) : IsUnit (colsM n n vecs) :=
  (Matrix.isUnit_iff_isUnit_det _).mpr
    (Matrix.isUnit_det_of_left_inverse (orthonormalCols_gram n vecs hlen h))

end star

omit [Field R] in
/-- what `selectPath` returns is a sub-multiset of the computed pairs / vectors -/
theorem selectPath_subperm {κ : Type} (le : κ → κ → Bool) (key : R → κ) (k : Nat) (w : Which)
    (s : Spectrum R) (lengths : s.vals.length = s.vecs.length) :
    ((selectPath le key k w s).vals.zip (selectPath le key k w s).vecs).Subperm (s.vals.zip s.vecs) ∧
    (selectPath le key k w s).vecs.Subperm s.vecs := by
  have hsub : (getSlice k w (sortByKey le (fun p : R × List R => key p.1) (s.vals.zip s.vecs))).Subperm
      (s.vals.zip s.vecs) :=
    (getSlice_sublist k w _).subperm.trans (sortByKey_perm _ _ _).subperm
  refine ⟨?_, ?_⟩
  · have hzip : (selectPath le key k w s).vals.zip (selectPath le key k w s).vecs =
        getSlice k w (sortByKey le (fun p : R × List R => key p.1) (s.vals.zip s.vecs)) := by
      show (List.map _ _).zip (List.map _ _) = _
      rw [List.zip_map', List.map_id'' (fun p => rfl)]
    rw [hzip]; exact hsub
  · obtain ⟨l, hl, hs⟩ := hsub
    have h2 : (l.map (·.2)).Sublist ((s.vals.zip s.vecs).map (·.2)) := hs.map _
    rw [List.map_snd_zip (le_of_eq lengths.symm)] at h2
    exact ⟨l.map (·.2), hl.map _, h2⟩


/-! ## the spectrum of the matrix -/

/-- the eigenvalues of the `n × n` window of `A` with algebraic multiplicities: the roots of the
characteristic polynomial -/
noncomputable def spectrumOf (n : Nat) (A : MatF R) : Multiset R := (MatF.toMatrix n n A).charpoly.roots

/-- **the computed values are the spectrum of `A`** (with multiplicities) when `P` is invertible -/
theorem DenseContract.spectrum {n : Nat} {A : MatF R} {s : Spectrum R} (h : DenseContract n A s)
    (independent : IsUnit (colsM n n s.vecs)) : spectrumOf n A = (s.vals : Multiset R) := by
  unfold spectrumOf
  rw [charpoly_of_relation n _ _ _ independent h.relation, roots_charpoly_diagonal]
  unfold valsD
  rw [ofFn_getD n s.vals h.count]

omit [Field R] in
theorem ofFn_eq_map_range (n : Nat) (g : Nat → R) :
    List.ofFn (fun i : Fin n => g i.val) = (List.range n).map g := by
  apply List.ext_getElem
  · simp
  · intro i h1 h2
    simp

theorem roots_prod_X_sub_C_fin (n : Nat) (d : Fin n → R) :
    (∏ i, (X - C (d i))).roots = (List.ofFn d : Multiset R) := by
  rw [roots_prod _ _ (Finset.prod_ne_zero_iff.mpr (fun i _ => X_sub_C_ne_zero (d i)))]
  simp only [roots_X_sub_C]
  rw [Multiset.bind_singleton, Fin.univ_val_map]

/-- **triangular data: the diagonal is the spectrum** (upper, or with a vanishing strictly upper part) -/
theorem spectrumOf_triangular (n : Nat) (L : MatF R)
    (triangularData : (∀ r c, r < n → c < r → L r c = 0) ∨ (∀ r c, c < n → r < c → L r c = 0)) :
    spectrumOf n L = (((List.range n).map (fun p => L p p) : List R) : Multiset R) := by
  unfold spectrumOf
  rcases triangularData with h | h
  · have hup : (MatF.toMatrix n n L).IsUpperTriangular := by
      intro i j hij
      exact h i.val j.val i.isLt hij
    rw [charpoly_of_isUpperTriangular _ hup, roots_prod_X_sub_C_fin]
    simp only [MatF.toMatrix_apply]
    rw [ofFn_eq_map_range n (fun p => L p p)]
  · have hup : (MatF.toMatrix n n L)ᵀ.IsUpperTriangular := by
      intro i j hij
      exact h j.val i.val i.isLt hij
    rw [← charpoly_transpose, charpoly_of_isUpperTriangular _ hup, roots_prod_X_sub_C_fin]
    simp only [Matrix.transpose_apply, MatF.toMatrix_apply]
    rw [ofFn_eq_map_range n (fun p => L p p)]

/-! ## the contract sees only the window -/

/-- the contract depends on `A` only through its `n × n` window -/
theorem DenseContract.congr {n : Nat} {A B : MatF R} {s : Spectrum R} (h : DenseContract n A s)
    (hAB : EqOn n n A B) : DenseContract n B s :=
  ⟨h.count, h.lengths, h.colLength, by rw [← MatF.toMatrix_congr hAB]; exact h.relation, h.nonzero⟩

theorem spectrumOf_congr {n : Nat} {A B : MatF R} (hAB : EqOn n n A B) : spectrumOf n A = spectrumOf n B := by
  unfold spectrumOf; rw [MatF.toMatrix_congr hAB]

/-! ## the structural rules read `den` -/

section structural
variable [StarRing R] [DecidableEq R]

theorem structural_identity_den (le : R → R → Bool) (A : Op R) (dt : DType) (n : Nat)
    (hc : A.core = .eye dt n) (k : Nat) (w : Which) :
    structuralRule le A k w = some (identityRule n k w) ∧ A.rows = n ∧ A.den.f = eyeM := by
  refine ⟨by simp only [structuralRule, hc], ?_, ?_⟩
  · rw [← Op.core_rows, hc]; simp only [Op.rows]
  · rw [← Op.core_den, hc]; simp only [Op.den, MatV.of_f]

theorem structural_diagonal_den (le : R → R → Bool) (A : Op R) (dt : DType) (n : Nat) (d : Nat → R)
    (hc : A.core = .diag dt n d) (k : Nat) (w : Which) :
    structuralRule le A k w = some (diagonalRule le n d k w) ∧ A.rows = n ∧ A.den.f = diagM d := by
  refine ⟨by simp only [structuralRule, hc], ?_, ?_⟩
  · rw [← Op.core_rows, hc]; simp only [Op.rows]
  · rw [← Op.core_den, hc]; simp only [Op.den, MatV.of_f]

theorem structural_triangular_den (le : R → R → Bool) (A : Op R) (dt : DType) (n m : Nat) (lower : Bool)
    (L : MatF R) (hc : A.core = .tri dt n m lower L) (k : Nat) (w : Which) :
    structuralRule le A k w = triangularRule le n L k w ∧ A.rows = n ∧ A.den.f = L := by
  refine ⟨by simp only [structuralRule, hc], ?_, ?_⟩
  · rw [← Op.core_rows, hc]; simp only [Op.rows]
  · rw [← Op.core_den, hc]; simp only [Op.den, MatV.of_f]

end structural

end Eig
