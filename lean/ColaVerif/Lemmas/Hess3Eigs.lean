import ColaVerif.Lemmas.Hess3
import ColaVerif.Lemmas.ArnoldiEigsRun

/-!
# The contract of `xnp.eig` is satisfiable on the 3 × 3 system of `Hess3`

`A = [[1,1,0],[2,1,1],[0,3,1]]` has the eigenvalues `1, 1 − √5, 1 + √5` with eigenvectors `(1,0,−2)`, `(1,−√5,3)`,
`(1,√5,3)`.  `eigW` returns them; `eigPairs_W`, `eigComplete_W`: both parts of the contract hold for the matrix
the model hands to `eig` after three steps.
-/

open scoped InnerProductSpace
open Finset Arnoldi

namespace Hess3

/-- the answer of an exact `eig` on `mat` -/
noncomputable def eigW : Array (Array ℝ) → Array ℝ × Array (Array ℝ) := fun _ =>
  (#[1, 1 - Real.sqrt 5, 1 + Real.sqrt 5],
   #[#[1, 1, 1], #[0, -Real.sqrt 5, Real.sqrt 5], #[-2, 3, 3]])

theorem Hm_entry (tol : ℝ) (htol : 0 < tol) (htol4 : tol ≤ 4) (l i : Nat) (hl : l < 3) (hi : i < 3) :
    ((eigsMatrix true 3 3 (colAt A 3 tol (e 0) 3)).getD l #[]).getD i 0 = mat ⟨l, hl⟩ ⟨i, hi⟩ := by
  rw [eigsMatrix_get true 3 _ l i (show l < 3 from hl) (show i < 3 from hi),
    h3 3 tol (le_refl _) htol htol4]
  interval_cases l <;> interval_cases i <;> simp [aH, bt, mat]

theorem sqrt5_sq : Real.sqrt 5 * Real.sqrt 5 = 5 := Real.mul_self_sqrt (by norm_num)

theorem eigPairs_W (tol : ℝ) (htol : 0 < tol) (htol4 : tol ≤ 4) :
    EigPairs 3 (eigsMatrix true 3 3 (colAt A 3 tol (e 0) 3))
      (eigW (eigsMatrix true 3 3 (colAt A 3 tol (e 0) 3))).1
      (eigW (eigsMatrix true 3 3 (colAt A 3 tol (e 0) 3))).2 := by
  intro j hj
  refine ⟨⟨0, by omega, ?_⟩, ?_⟩
  · interval_cases j <;> simp [eigW]
  · intro l hl
    rw [sum_range_succ, sum_range_succ, sum_range_one,
      Hm_entry tol htol htol4 l 0 hl (by omega), Hm_entry tol htol htol4 l 1 hl (by omega),
      Hm_entry tol htol htol4 l 2 hl (by omega)]
    have h5 := sqrt5_sq
    interval_cases j <;> interval_cases l <;> simp [eigW, mat] <;> nlinarith [h5]

theorem eigComplete_W (tol : ℝ) (htol : 0 < tol) (htol4 : tol ≤ 4) :
    EigComplete 3 (eigsMatrix true 3 3 (colAt A 3 tol (e 0) 3))
      (eigW (eigsMatrix true 3 3 (colAt A 3 tol (e 0) 3))).1 := by
  intro μ y hy hrow
  have r0 := hrow 0 (by omega)
  have r1 := hrow 1 (by omega)
  have r2 := hrow 2 (by omega)
  rw [sum_range_succ, sum_range_succ, sum_range_one,
    Hm_entry tol htol htol4 _ 0 (by omega) (by omega), Hm_entry tol htol htol4 _ 1 (by omega) (by omega),
    Hm_entry tol htol htol4 _ 2 (by omega) (by omega)] at r0 r1 r2
  simp [mat] at r0 r1 r2
  -- r0 : y 0 + y 1 = μ * y 0 ; r1 : 2 * y 0 + y 1 + y 2 = μ * y 1 ; r2 : 3 * y 1 + y 2 = μ * y 2
  have h5 := sqrt5_sq
  by_cases hm : μ = 1
  · exact ⟨0, by omega, by simp [eigW, hm]⟩
  · have hm' : μ - 1 ≠ 0 := sub_ne_zero.mpr hm
    have e1 : y 1 = (μ - 1) * y 0 := by linarith
    have e2 : (μ - 1) * (y 2 - 3 * y 0) = 0 := by
      have : 3 * y 1 = (μ - 1) * y 2 := by linarith
      rw [e1] at this; linarith
    have e3 : y 2 = 3 * y 0 := by
      have := (mul_eq_zero.mp e2).resolve_left hm'; linarith
    have e4 : ((μ - 1) * (μ - 1) - 5) * y 0 = 0 := by
      have : 2 * y 0 + y 2 = (μ - 1) * y 1 := by linarith
      rw [e1, e3] at this; linarith
    have hy0 : y 0 ≠ 0 := by
      intro h0
      obtain ⟨a, ha, hya⟩ := hy
      have : a = 0 ∨ a = 1 ∨ a = 2 := by omega
      rcases this with rfl | rfl | rfl
      · exact hya h0
      · apply hya; rw [e1, h0, mul_zero]
      · apply hya; rw [e3, h0, mul_zero]
    have e5 : (μ - 1) * (μ - 1) = 5 := by
      have := (mul_eq_zero.mp e4).resolve_right hy0; linarith
    have e6 : (μ - 1 - Real.sqrt 5) * (μ - 1 + Real.sqrt 5) = 0 := by nlinarith [h5, e5]
    rcases mul_eq_zero.mp e6 with h | h
    · exact ⟨2, by omega, by simp [eigW]; linarith⟩
    · exact ⟨1, by omega, by simp [eigW]; linarith⟩

end Hess3
