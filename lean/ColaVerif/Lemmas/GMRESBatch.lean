import ColaVerif.Lemmas.GMRESKrylov
import ColaVerif.Lemmas.ArnoldiInputs3

/-!
# Round 3: the executed step count `s` in terms of `max_iters`, and GMRES on batches

* `Arnoldi.StopAt`: the tolerance test of `cond_fun` for ONE column at loop index `k ≥ 1` (`norm ≤ tol · H[1,0]`);
  `steps_char` / `steps_unique`: for a single start vector the executed step count is
  `s = min(max_iters, n, first k ≥ 1 with StopAt k)`;
* `run_idx_eq_grade_of_input`: with every hypothesis on the inputs, `s = g` = the grade of the start vector
  (`A^g v ∈ K_g`) whenever `g ≤ min max_iters n`, the distances do not clip before and the test does not fire before;
* `run_idx_batch_ge_single`: the SHARED loop of a batch (`cond_fun`: any column large) makes at least as many steps
  as the single run of each of its columns;
* `GMRES.gmresCore_batch`: column `j` of the batched `gmres_fwd` is computed from the buffers `colAt … S` of ITS OWN
  residual after the shared number `S` of steps — the columns are decoupled except for `S`.
-/

open scoped InnerProductSpace
open Finset

namespace Arnoldi

variable {𝕜 E : Type} [RCLike 𝕜] [NormedAddCommGroup E] [InnerProductSpace 𝕜 E]
variable (A : E →ₗ[𝕜] E) (M : Nat) (tol : ℝ) (v : E)

/-- the tolerance test of `cond_fun` says "this column has converged" at loop index `k ≥ 1`:
`norm = H[k, k-1] ≤ tol · H[1, 0]` on the buffers after `k` steps -/
def StopAt (k : Nat) : Prop :=
  1 ≤ k ∧ (colAt A M tol v k).beta (k - 1) ≤ tol * (colAt A M tol v k).beta 0

/-- **the executed step count of a single start vector**: `s ≤ min max_iters n`; the loop ended at the cap or because
the test fired at `s`; the test did not fire at any earlier index `1 ≤ k < s` -/
theorem steps_char (n : Nat) (htol : 0 < tol) (hv : v ≠ 0) :
    (runE A n M tol [v]).idx ≤ min M n ∧
    ((runE A n M tol [v]).idx = min M n ∨ StopAt A M tol v (runE A n M tol [v]).idx) ∧
    ∀ k, 1 ≤ k → k < (runE A n M tol [v]).idx → ¬ StopAt A M tol v k := by
  obtain ⟨h1, h2⟩ := run_stop_exact A n M tol [v]
  obtain ⟨hc, hle, _⟩ := run_spec (⇑A) n M ((tol : ℝ) : 𝕜) [v]
  have hnormk : ∀ k, k ≠ 0 → k ≤ M →
      RCLike.re (colAt A M tol v k).norm = (colAt A M tol v k).beta (k - 1) := by
    intro k hk hkM
    have hnorm := (inv_colAfter A M v tol hv htol k hkM).normEq
    rw [if_neg hk] at hnorm
    unfold Col.beta
    have e : k - 1 + 1 = k := by omega
    rw [e]
    show RCLike.re (colAt A M tol v k).norm = _
    rw [hnorm]
  refine ⟨hle, ?_, ?_⟩
  · rcases h1 with h1 | h1
    · exact Or.inl h1
    · right
      rw [hc] at h1
      obtain ⟨hsmall, hne⟩ := h1 _ List.mem_cons_self
      have hkM : (runE A n M tol [v]).idx ≤ M := le_trans hle (min_le_left _ _)
      change RCLike.re (colAt A M tol v (runE A n M tol [v]).idx).norm ≤
        tol * RCLike.re ((colAt A M tol v (runE A n M tol [v]).idx).h 1 0) at hsmall
      rw [hnormk _ hne hkM] at hsmall
      exact ⟨Nat.pos_of_ne_zero hne, hsmall⟩
  · intro k hk1 hk hstop
    have hkM : k ≤ M := le_trans (le_of_lt hk) (le_trans hle (min_le_left _ _))
    rcases h2 k hk with h0 | ⟨v', hv', hlt⟩
    · omega
    · rw [List.mem_singleton] at hv'
      subst hv'
      rw [hnormk k (by omega) hkM] at hlt
      have := hstop.2
      unfold Col.beta at this hlt
      linarith

/-- `s = min(max_iters, n, first stop)`: the three properties of `steps_char` determine the step count -/
theorem steps_unique (n : Nat) (htol : 0 < tol) (hv : v ≠ 0) (t : Nat) (ht : t ≤ min M n)
    (hend : t = min M n ∨ StopAt A M tol v t) (hbefore : ∀ k, 1 ≤ k → k < t → ¬ StopAt A M tol v k) :
    (runE A n M tol [v]).idx = t := by
  obtain ⟨hle, hs, hb⟩ := steps_char A M tol v n htol hv
  rcases Nat.lt_trichotomy (runE A n M tol [v]).idx t with h | h | h
  · exfalso
    rcases hs with hs | hs
    · omega
    · exact hbefore _ hs.1 h hs
  · exact h
  · exfalso
    rcases hend with hend | hend
    · omega
    · exact hb t hend.1 h hend

/-- the test does not fire at index `k` when the Krylov distances `d_j = dist(A^j v, K_j)` did not clip so far and
`d_k / d_{k-1} > tol · d_1 / d_0` -/
theorem not_stopAt_of_input (htol : 0 < tol) (hv : v ≠ 0) (k : Nat) (hk1 : 1 ≤ k) (hkM : k ≤ M)
    (hd : ∀ i, i + 1 < k → tol / 2 * krylovDist A v i ≤ krylovDist A v (i + 1))
    (hstop : tol * krylovDist A v 1 * krylovDist A v (k - 1) < krylovDist A v k * krylovDist A v 0) :
    ¬ StopAt A M tol v k := by
  rintro ⟨_, hle⟩
  obtain ⟨K, rfl⟩ : ∃ K, k = K + 1 := ⟨k - 1, by omega⟩
  have hunK : ∀ i, i < K → tol / 2 ≤ (colAt A M tol v (K + 1)).beta i :=
    fun i hi => unclipped_before_last_of_input A M tol v htol hv (K + 1) hkM hd i (by omega)
  have e1 : krylovDist A v 1 = krylovDist A v 0 * (colAt A M tol v (K + 1)).beta 0 := by
    rw [krylovDist_succ A M tol v htol hv 0 (by omega) (fun i hi => by omega),
      beta_frozen A M tol v htol hv 1 (K + 1) (by omega) hkM 0 (by omega)]
  have e2 : krylovDist A v (K + 1) = krylovDist A v K * (colAt A M tol v (K + 1)).beta K :=
    krylovDist_succ A M tol v htol hv K hkM hunK
  have h0 : 0 < krylovDist A v 0 := by rw [krylovDist_zero]; exact norm_pos_iff.mpr hv
  have hK : 0 < krylovDist A v K := by
    apply krylovDist_pos A M tol v htol hv K (by omega)
    intro i hi
    rw [← beta_frozen A M tol v htol hv K (K + 1) (by omega) hkM i hi]
    exact hunK i hi
  rw [Nat.add_sub_cancel, e1, e2] at hstop
  rw [Nat.add_sub_cancel] at hle
  have hpos : 0 < krylovDist A v 0 * krylovDist A v K := mul_pos h0 hK
  nlinarith [mul_le_mul_of_nonneg_left hle (le_of_lt hpos)]

/-- **`s` = grade, from the inputs**: if `g ≤ min max_iters n`, the Krylov space is exhausted at `g`
(`A^g v ∈ K_g(A, v)`), the distances do not clip before step `g` and the relative test does not fire before `g`, then
the run makes exactly `g` steps and the last one is an exact breakdown -/
theorem run_idx_eq_grade_of_input (n : Nat) (htol : 0 < tol) (hv : v ≠ 0) (g : Nat) (hg1 : 1 ≤ g)
    (hgcap : g ≤ min M n)
    (hd : ∀ i, i + 1 < g → tol / 2 * krylovDist A v i ≤ krylovDist A v (i + 1))
    (hstop : ∀ k, 1 ≤ k → k < g →
      tol * krylovDist A v 1 * krylovDist A v (k - 1) < krylovDist A v k * krylovDist A v 0)
    (hgrade : (A ^ g) v ∈ krylov A v g) :
    (runE A n M tol [v]).idx = g ∧ (colAt A M tol v g).beta (g - 1) = 0 ∧
      ∀ i, i + 1 < g → tol / 2 ≤ (colAt A M tol v g).beta i := by
  have hgM : g ≤ M := le_trans hgcap (min_le_left _ _)
  have hun := unclipped_before_last_of_input A M tol v htol hv g hgM hd
  have hbreak := exactBreakdown_of_pow_mem A M tol v htol hv g hg1 hgM hun hgrade
  refine ⟨?_, hbreak, hun⟩
  apply steps_unique A M tol v n htol hv g hgcap
  · right
    refine ⟨hg1, ?_⟩
    rw [hbreak]
    exact mul_nonneg (le_of_lt htol) ((inv_colAfter A M v tol hv htol g hgM).subdiag_nonneg 0).2
  · intro k hk1 hk
    exact not_stopAt_of_input A M tol v htol hv k hk1 (by omega) (fun i hi => hd i (by omega)) (hstop k hk1 hk)

/-- **the shared loop of a batch makes at least as many steps as the single run of each column** (`cond_fun`
continues while ANY column is large) -/
theorem run_idx_batch_ge_single (n : Nat) (vs : List E) (hmem : v ∈ vs) :
    (runE A n M tol [v]).idx ≤ (runE A n M tol vs).idx := by
  obtain ⟨_, hle1, _, _, h51⟩ := run_spec (⇑A) n M ((tol : ℝ) : 𝕜) [v]
  obtain ⟨hc, _, _, h4, _⟩ := run_spec (⇑A) n M ((tol : ℝ) : 𝕜) vs
  by_contra hlt
  push Not at hlt
  rcases h4 with h4 | h4
  · have : (runE A n M tol [v]).idx ≤ (runE A n M tol vs).idx := by
      show (run (⇑A) n M ((tol : ℝ) : 𝕜) [v]).idx ≤ (run (⇑A) n M ((tol : ℝ) : 𝕜) vs).idx
      rw [h4]; exact hle1
    omega
  · rw [hc, List.any_eq_false] at h4
    have hf := h4 _ (List.mem_map.mpr ⟨v, hmem, rfl⟩)
    have ht := h51 _ hlt
    rw [List.map_cons, List.map_nil, List.any_cons, List.any_nil, Bool.or_false] at ht
    exact hf ht

end Arnoldi

namespace GMRES
open Arnoldi

private theorem zip_aux {X K γ Y : Type} (add : X → X → X) (f : X → X → X) (c : X → γ) (nrm : X → K)
    (co : γ → K → Y) (cb : γ → Y → X) :
    ∀ (bs x0s : List X),
      List.zipWith (fun x p => add x p) x0s
        (List.zipWith (fun cc y => cb cc y) ((List.zipWith f bs x0s).map c)
          (List.zipWith (fun cc beta => co cc beta) ((List.zipWith f bs x0s).map c)
            ((List.zipWith f bs x0s).map nrm))) =
      List.zipWith (fun b x0 => add x0 (cb (c (f b x0)) (co (c (f b x0)) (nrm (f b x0))))) bs x0s := by
  intro bs
  induction bs with
  | nil => intro x0s; simp
  | cons b bs ih =>
    intro x0s
    cases x0s with
    | nil => simp
    | cons x0 x0s =>
      simp only [List.zipWith_cons_cons, List.map_cons]
      rw [ih x0s]

variable {𝕜 E : Type} [RCLike 𝕜] [NormedAddCommGroup E] [InnerProductSpace 𝕜 E]

/-- what `gmres_fwd` returns for ONE column, given the number `S` of steps the shared loop made -/
noncomputable def colSoln (solve : Array (Array 𝕜) → Array 𝕜 → Array 𝕜) (drop : Bool) (A : E →ₗ[𝕜] E)
    (M : Nat) (tol : ℝ) (S : Nat) (b x0 : E) : E :=
  x0 + combine M (colAt A M tol (b - A x0) S)
    (coeffs solve drop M ((tol : ℝ) : 𝕜) ((‖b - A x0‖ : ℝ) : 𝕜) (colAt A M tol (b - A x0) S))

/-- **batched `gmres_fwd`, column-wise**: the `j`-th solution is `colSoln` of the `j`-th pair `(b, x₀)` with the
SHARED step count `S` of the Arnoldi loop on all residuals — nothing else couples the columns -/
theorem gmresCore_batch (solve : Array (Array 𝕜) → Array 𝕜 → Array 𝕜) (drop : Bool)
    (A : E →ₗ[𝕜] E) (n M : Nat) (tol : ℝ) (bs x0s : List E) :
    (gmresCore solve drop (⇑A) n M ((tol : ℝ) : 𝕜) bs x0s).soln =
      List.zipWith (colSoln solve drop A M tol
        (runE A n M tol (List.zipWith (fun b x => b - A x) bs x0s)).idx) bs x0s := by
  have hc := (run_spec (⇑A) n M ((tol : ℝ) : 𝕜) (List.zipWith (fun b x => b - A x) bs x0s)).1
  unfold gmresCore
  simp only [vec_sub, vec_add]
  rw [hc]
  exact zip_aux (fun x p => x + p) (fun b x => b - A x)
    (fun v => colAt A M tol v (runE A n M tol (List.zipWith (fun b x => b - A x) bs x0s)).idx)
    (fun v => ((‖v‖ : ℝ) : 𝕜)) (fun cc beta => coeffs solve drop M ((tol : ℝ) : 𝕜) beta cc)
    (fun cc y => combine M cc y) bs x0s

/-- the `j`-th entry -/
theorem gmresCore_batch_get (solve : Array (Array 𝕜) → Array 𝕜 → Array 𝕜) (drop : Bool)
    (A : E →ₗ[𝕜] E) (n M : Nat) (tol : ℝ) (bs x0s : List E) (j : Nat) (b x0 : E)
    (hb : bs[j]? = some b) (hx : x0s[j]? = some x0) :
    (gmresCore solve drop (⇑A) n M ((tol : ℝ) : 𝕜) bs x0s).soln[j]? =
      some (colSoln solve drop A M tol
        (runE A n M tol (List.zipWith (fun b x => b - A x) bs x0s)).idx b x0) := by
  rw [gmresCore_batch, List.getElem?_zipWith, hb, hx]

/-! ### a column whose Krylov space is exhausted before the shared loop ends -/

omit [NormedAddCommGroup E] [InnerProductSpace 𝕜 E] in
/-- `coeffs` reads the buffers only through the view `c.h` -/
theorem coeffs_congr (solve : Array (Array 𝕜) → Array 𝕜 → Array 𝕜) (drop : Bool) (M : Nat) (tol beta : 𝕜)
    (c c' : Col 𝕜 E) (hh : c.h = c'.h) : coeffs solve drop M tol beta c = coeffs solve drop M tol beta c' := by
  unfold coeffs padding largestVals normalMatrix normalRhs
  rw [hh]

/-- `combine` reads the buffers only through the views `c.q`, `c.z` -/
theorem combine_congr (M : Nat) (c c' : Col 𝕜 E) (y : Array 𝕜) (hq : c.q = c'.q) (hz : c.z = c'.z) :
    combine M c y = combine M c' y := by
  unfold combine
  rw [hq, hz]

/-- **a dead column is frozen**: after an exact breakdown in step `g - 1` the buffers of a column that keeps being
stepped (because another column of the batch keeps the loop alive) present the same views as after `g` steps —
in exact arithmetic; in floating point this is the recorded clause `breakdownNotMasked` -/
theorem colAt_views_after_breakdown (A : E →ₗ[𝕜] E) (M : Nat) (tol : ℝ) (v : E) (htol : 0 < tol) (hv : v ≠ 0)
    (g S : Nat) (hg : 0 < g) (hgS : g ≤ S) (hSM : S ≤ M) (hbreak : (colAt A M tol v g).beta (g - 1) = 0) :
    (colAt A M tol v S).q = (colAt A M tol v g).q ∧ (colAt A M tol v S).h = (colAt A M tol v g).h ∧
      (colAt A M tol v S).z = (colAt A M tol v g).z := by
  have hinvS := inv_colAfter A M v tol hv htol S hSM
  have hinvg := inv_colAfter A M v tol hv htol g (by omega)
  have hfro := colAfter_frozen (A := A) (M := M) (v := v) htol hv g S hgS hSM
  have hbS : (colAt A M tol v S).beta (g - 1) = 0 := by
    rw [beta_frozen A M tol v htol hv g S hgS hSM (g - 1) (by omega)]; exact hbreak
  have hz := hinvS.zero_after_breakdown htol (g - 1) (by omega) hbS
  refine ⟨?_, ?_, ?_⟩
  · funext l
    by_cases hl : l ≤ g
    · exact hfro.1 l hl
    · rw [hz.1 l (by omega), hinvg.qZero l (by omega)]
  · funext l i
    by_cases hi : i < g
    · exact hfro.2 i hi l
    · rw [hz.2 i (by omega) l, hinvg.hZeroCol i (by omega) l]
  · rw [hinvS.z0, hinvg.z0]

/-- consequently the column's solution is the one of its own run stopped at its grade -/
theorem colSoln_after_breakdown (solve : Array (Array 𝕜) → Array 𝕜 → Array 𝕜) (drop : Bool) (A : E →ₗ[𝕜] E)
    (M : Nat) (tol : ℝ) (htol : 0 < tol) (b x0 : E) (hr : b - A x0 ≠ 0)
    (g S : Nat) (hg : 0 < g) (hgS : g ≤ S) (hSM : S ≤ M)
    (hbreak : (colAt A M tol (b - A x0) g).beta (g - 1) = 0) :
    colSoln solve drop A M tol S b x0 = colSoln solve drop A M tol g b x0 := by
  obtain ⟨hq, hh, hz⟩ := colAt_views_after_breakdown A M tol (b - A x0) htol hr g S hg hgS hSM hbreak
  unfold colSoln
  rw [coeffs_congr solve drop M _ _ _ _ hh, combine_congr M _ _ _ hq hz]

end GMRES
