import ColaVerif.Lemmas.UnaryPow
import Mathlib.Data.Real.Basic
import Mathlib.Tactic.IntervalCases

/-!
# C09 — the base cases DEFINED from the eigendecomposition (no oracle matrix is assumed to be `f(A)`)

`UnOp.Sound` (Lemmas/UnaryTree.lean) assumes at a `.base` node that the oracle's matrix already is
`f(A)`, and at a `.product` node that `B` represents `A ^ k`.  Here the oracle is one level lower:

* `EigOracle.eig k A` — what LAPACK returns for `A.to_dense()`: `V`, the eigenvalues `d`, and `Vi`
  (`V.H` for `Eigh`, `inv(V)` for `Eig`); the matrix the code BUILDS, `V @ Diagonal(f(d)) @ Vi`
  (`EigData.apply`), is what `EigOracle.params` hands to `UnOp.toOp`;
* `EigOracle.krylov k f A` — the matrix of the Krylov operator = its outputs on the identity columns.

`UnOp.SoundE` states only CONTRACTS at the leaves:
* `EigOK` : `A V = V diag(d)`, `Vi V = 1` (and `Vi = Vᴴ` for `Eigh`), eigenvalues in `S` — LAPACK;
* `KrylovOK` : every identity column's output is the formula `Q P (f(θ) ⊙ P⁻¹ (c e₁))` of a COMPLETE
  factorisation `A Q = Q T` (a theorem about the loop models, `Lemmas/KrylovCompose.lean`) with the small
  eigendecomposition contract; `A` diagonalisable with spectrum in `S` (the meaning of `f(A)`);
* `.product` : the operand is `Op.Good` and the products built on the way are Hermitian where they say so
  (C05) — that `B` represents `A ^ k` is PROVED (`powProduct_rep`);
* `.inv` : `inv` returns a left inverse (C06).

`SoundE.sound : U.SoundE E S f → U.Sound E.params S f`, so every tree theorem of C09 holds with `SoundE`.

`powRule_kron2_ok`: the Kronecker rule of `pow` on operator trees with SEPARATE spectrum sets for the two members
(`matFunOK_kron` needs one multiplicatively closed set, which no set of complex numbers with non-real elements is for
the principal power).
-/

set_option linter.unusedSectionVars false

open Matrix MatFun

namespace Unary

variable {𝕜 : Type} [Field 𝕜] [StarRing 𝕜] [DecidableEq 𝕜]

/-- what the dense eigensolver (and `V.H` / `inv(V)`) returns for one operand -/
structure EigData (𝕜 : Type) where
  V : MatF 𝕜
  Vi : MatF 𝕜
  d : Nat → 𝕜

/-- the matrix the code builds: `V @ Diagonal(g(eigs)) @ V.H` resp. `V @ Diagonal(g(eigs)) @ inv(V)` -/
def EigData.apply (e : EigData 𝕜) (n : Nat) (g : 𝕜 → 𝕜) : MatF 𝕜 :=
  mmul n (mmul n e.V (diagM (fun i => g (e.d i)))) e.Vi

/-- the oracle one level below `Params` -/
structure EigOracle (𝕜 : Type) where
  eig : BaseKind → Op 𝕜 → EigData 𝕜
  krylov : BaseKind → (𝕜 → 𝕜) → Op 𝕜 → MatF 𝕜
  inv : Op 𝕜 → InvAlg → MatF 𝕜

def EigOracle.params (E : EigOracle 𝕜) : Params 𝕜 where
  base := fun k g A =>
    match k with
    | .eigh => (E.eig .eigh A).apply A.rows g
    | .eig => (E.eig .eig A).apply A.rows g
    | .lanczos => E.krylov .lanczos g A
    | .arnoldi => E.krylov .arnoldi g A
  inv := E.inv

/-- **contract of the dense eigensolver** on the operand `A` (`hermitian`: for `Eigh` the code uses
`V.H` as the inverse, so `Vi` is the conjugate transpose and the contract `Vi V = 1` says `V` is unitary) -/
structure EigOK (S : Set 𝕜) (hermitian : Bool) (A : Op 𝕜) (e : EigData 𝕜) : Prop where
  sq : A.cols = A.rows
  inv : MatF.toMatrix A.rows A.rows e.Vi * MatF.toMatrix A.rows A.rows e.V = 1
  adj : hermitian = true → EqOn A.rows A.rows e.Vi (conjM (transposeM e.V))
  eig : mat A * MatF.toMatrix A.rows A.rows e.V
    = MatF.toMatrix A.rows A.rows e.V * Matrix.diagonal (fun i : Fin A.rows => e.d i.val)
  spec : ∀ i, i < A.rows → e.d i ∈ S

/-- the matrix built from an eigendecomposition that meets its contract IS `g(A)`, for every `g` -/
theorem EigOK.matFun {S : Set 𝕜} {b : Bool} {A : Op 𝕜} {e : EigData 𝕜} (h : EigOK S b A e)
    (g : 𝕜 → 𝕜) : IsMatFunOn S g (mat A) (MatF.toMatrix A.rows A.rows (e.apply A.rows g)) := by
  unfold EigData.apply
  rw [MatF.toMatrix_mmul, MatF.toMatrix_mmul, toMatrix_diagM_unary]
  exact eig_contract g h.inv h.eig (fun i => h.spec i.val i.isLt)

/-- … and for `Eigh` it is the matrix `V g(D) Vᴴ` of the code -/
theorem EigOK.apply_eq_adjoint {S : Set 𝕜} {A : Op 𝕜} {e : EigData 𝕜} (h : EigOK S true A e)
    (g : 𝕜 → 𝕜) : MatF.toMatrix A.rows A.rows (e.apply A.rows g)
      = MatF.toMatrix A.rows A.rows e.V * Matrix.diagonal (fun i : Fin A.rows => g (e.d i.val))
        * (MatF.toMatrix A.rows A.rows e.V)ᴴ := by
  unfold EigData.apply
  rw [MatF.toMatrix_mmul, MatF.toMatrix_mmul, toMatrix_diagM_unary, MatF.toMatrix_congr (h.adj rfl),
    MatF.toMatrix_adjoint]

/-- **contract of a Krylov operator** (`LanczosUnary` / `ArnoldiUnary`) whose matrix is `K`.  For Lanczos it is DERIVED
from the loop model of C14 (`Unary.krylovOK_of_lanczos`, Lemmas/UnaryKrylov.lean: `K` = the model `lanczosK`, remaining
contract `EighContract`) and witnessed on `SelfAdjoint([[2,1],[1,2]])` (`exS_krylov_soundE`); for Arnoldi it stays a
contract whose factorisation part is `KrylovCompose.arnoldi_unary_exact` under C15's clauses. -/
def KrylovOK (S : Set 𝕜) (g : 𝕜 → 𝕜) (A : Op 𝕜) (K : MatF 𝕜) : Prop :=
  A.cols = A.rows ∧ DiagonalisableOn S (mat A) ∧
  ∀ i : Fin A.rows, ∃ (m : ℕ) (Q : Matrix (Fin A.rows) (Fin m) 𝕜) (T P Pi : Matrix (Fin m) (Fin m) 𝕜)
    (θ e : Fin m → 𝕜) (c : 𝕜), mat A * Q = Q * T ∧ Pi * P = 1 ∧ T * P = P * Matrix.diagonal θ ∧
      (_root_.Pi.single i (1 : 𝕜) : Fin A.rows → 𝕜) = c • Q *ᵥ e ∧
      (fun a : Fin A.rows => K a.val i.val) = KrylovPoly.krylovVec Q P Pi θ g (c • e)

theorem KrylovOK.matFun {S : Set 𝕜} {g : 𝕜 → 𝕜} {A : Op 𝕜} {K : MatF 𝕜} (h : KrylovOK S g A K) :
    IsMatFunOn S g (mat A) (MatF.toMatrix A.rows A.rows K) :=
  matFun_of_krylov_columns h.2.1 g (fun i => by
    obtain ⟨m, Q, T, P, Pi, θ, e, c, h1, h2, h3, h4, h5⟩ := h.2.2 i
    exact ⟨m, Q, T, P, Pi, θ, e, c, h1, h2, h3, h4, h5⟩)

/-- the hypotheses at the leaves of a plan, as contracts only -/
def UnOp.SoundE (E : EigOracle 𝕜) (S : Set 𝕜) (f : 𝕜 → 𝕜) : UnOp 𝕜 → Prop
  | .diagF _ n _ d => ∀ i, i < n → d i ∈ S
  | .scaledEye _ _ _ c => c ∈ S
  | .eyeLike A => A.cols = A.rows ∧ DiagonalisableOn S (mat A) ∧ ∀ a ∈ S, f a = 1
  | .product A k B => A.cols = A.rows ∧ DiagonalisableOn S (mat A) ∧ (∀ a ∈ S, f a = a ^ k) ∧
      Op.Good A ∧ 0 < k ∧ powProduct A k = .ok B ∧ ∀ j B', powProduct A j = .ok B' → Op.HermNode B'
  | .bdiag Us _ => ∀ U ∈ Us, U.SoundE E S f
  | .kron Us => ∀ U ∈ Us, U.SoundE E S f
  | .transpose U => U.SoundE E S f
  | .adjoint U => U.SoundE E S f ∧ (∀ z ∈ S, star z ∈ S) ∧ ∀ z ∈ S, f (star z) = star (f z)
  | .inv A alg => A.cols = A.rows ∧ DiagonalisableOn S (mat A) ∧ (0 : 𝕜) ∉ S ∧ (∀ a ∈ S, f a = a⁻¹) ∧
      MatF.toMatrix A.rows A.rows (E.inv A alg) * mat A = 1
  | .base .eigh _ A => EigOK S true A (E.eig .eigh A)
  | .base .eig _ A => EigOK S false A (E.eig .eig A)
  | .base .lanczos g A => KrylovOK S g A (E.krylov .lanczos g A)
  | .base .arnoldi g A => KrylovOK S g A (E.krylov .arnoldi g A)
  | .raise _ => False

/-- **contracts at the leaves imply the leaf hypotheses of `Sound`** -/
theorem UnOp.SoundE.sound (E : EigOracle 𝕜) (S : Set 𝕜) (f : 𝕜 → 𝕜) :
    ∀ U : UnOp 𝕜, U.SoundE E S f → U.Sound E.params S f
  | .diagF _ n _ d, h => by simpa only [UnOp.Sound, UnOp.SoundE] using h
  | .scaledEye _ _ _ c, h => by simpa only [UnOp.Sound, UnOp.SoundE] using h
  | .eyeLike A, h => by simpa only [UnOp.Sound, UnOp.SoundE] using h
  | .product A k B, h => by
    simp only [UnOp.SoundE] at h
    obtain ⟨hsq, hdiag, hf, hg, hk, hB, hH⟩ := h
    obtain ⟨⟨hr, hc, hden⟩, _⟩ := powProduct_rep A hg hsq hH k B hk hB
    simp only [UnOp.Sound]
    refine ⟨hsq, hdiag, hf, hr, hc, ?_⟩
    rw [← toMatrix_powM]
    exact MatF.toMatrix_congr hden
  | .bdiag Us m, h => by
    simp only [UnOp.SoundE] at h
    simp only [UnOp.Sound]
    intro U hU
    have := List.sizeOf_lt_of_mem hU
    exact UnOp.SoundE.sound E S f U (h U hU)
  | .kron Us, h => by
    simp only [UnOp.SoundE] at h
    simp only [UnOp.Sound]
    intro U hU
    have := List.sizeOf_lt_of_mem hU
    exact UnOp.SoundE.sound E S f U (h U hU)
  | .transpose U, h => by
    simp only [UnOp.SoundE] at h
    simp only [UnOp.Sound]
    exact UnOp.SoundE.sound E S f U h
  | .adjoint U, h => by
    simp only [UnOp.SoundE] at h
    simp only [UnOp.Sound]
    exact ⟨UnOp.SoundE.sound E S f U h.1, h.2⟩
  | .inv A alg, h => by
    simp only [UnOp.SoundE] at h
    simp only [UnOp.Sound]
    exact h
  | .base .eigh g A, h => by
    simp only [UnOp.SoundE] at h
    simp only [UnOp.Sound]
    exact ⟨h.sq, h.matFun g⟩
  | .base .eig g A, h => by
    simp only [UnOp.SoundE] at h
    simp only [UnOp.Sound]
    exact ⟨h.sq, h.matFun g⟩
  | .base .lanczos g A, h => by
    simp only [UnOp.SoundE] at h
    simp only [UnOp.Sound]
    exact ⟨h.1, h.matFun⟩
  | .base .arnoldi g A, h => by
    simp only [UnOp.SoundE] at h
    simp only [UnOp.Sound]
    exact ⟨h.1, h.matFun⟩
  | .raise _, h => by simp only [UnOp.SoundE] at h
termination_by U => sizeOf U

/-! ## the Kronecker rule of `pow` with separate spectrum sets -/

/-- one member in front of a Kronecker product, with SEPARATE spectrum sets (the step of
`matFunOK_kron` without the assumption that one set is closed under multiplication) -/
theorem matFunOK_kron_cons {S T U : Set 𝕜} {f : 𝕜 → 𝕜} {M F : Op 𝕜} {Ms Fs : List (Op 𝕜)}
    (hMF : MatFunOK S f M F) (ih : MatFunOK T f (.kron Ms) (.kron Fs))
    (hU : ∀ a ∈ S, ∀ b ∈ T, a * b ∈ U) (hf : ∀ a ∈ S, ∀ b ∈ T, f (a * b) = f a * f b) :
    MatFunOK U f (.kron (M :: Ms)) (.kron (F :: Fs)) := by
  obtain ⟨hc, hFr, hFc, hW⟩ := hMF
  obtain ⟨ihc, ihFr, ihFc, ihW⟩ := ih
  refine ⟨?_, ?_, ?_, ?_⟩
  · rw [rows_kron_cons, cols_kron_cons, hc, ihc]
  · rw [rows_kron_cons, rows_kron_cons, hFr, ihFr]
  · rw [cols_kron_cons, rows_kron_cons, hFc, ihFc]
  · rw [rows_kron_cons, den_kron_cons, den_kron_cons, ihFr, ihFc, ihc]
    exact matFunW_kron2 _ _ hW ihW hU hf

/-- the empty Kronecker product is the `1 × 1` identity: spectrum `{1}` -/
theorem matFunOK_kron_nil {f : 𝕜 → 𝕜} (hf1 : f 1 = 1) :
    MatFunOK {(1 : 𝕜)} f (.kron []) (.kron []) := by
  refine ⟨by simp [Op.rows, Op.cols], rfl, by simp [Op.rows, Op.cols], ?_⟩
  have hr : (Op.kron ([] : List (Op 𝕜))).rows = 1 := by simp [Op.rows]
  rw [hr, den_kron_nil]
  have hd := matFunW_diagM (S := {(1 : 𝕜)}) f 1 (fun _ => (1 : 𝕜)) (fun _ _ => rfl)
  refine MatFunW.congr ?_ ?_ hd
  · intro i j hi hj
    have : i = j := by omega
    simp [diagM, this]
  · intro i j hi hj
    have : i = j := by omega
    simp [diagM, this, hf1]

/-- **`pow(Kronecker(A, B), α)` on operator trees with separate spectra**: the rule returns the Kronecker
product of the members' results, and it represents `f(A ⊗ B)` on the set of products, provided `f` is
multiplicative ACROSS the two spectra (`hf`) — for numpy's principal power that is `ArgSumOK S T`. -/
theorem powRule_kron2_ok (P : Params 𝕜) (pw : Rat → 𝕜 → 𝕜) (α : Rat) (alg : Alg) {S T : Set 𝕜}
    (A B : Op 𝕜) (hf1 : pw α 1 = 1)
    (hA : MatFunOK S (pw α) A ((powRule pw α alg A).toOp P))
    (hB : MatFunOK T (pw α) B ((powRule pw α alg B).toOp P))
    (hf : ∀ a ∈ S, ∀ b ∈ T, pw α (a * b) = pw α a * pw α b) :
    powRule pw α alg (.kron [A, B]) = .kron [powRule pw α alg A, powRule pw α alg B] ∧
      MatFunOK {c | ∃ a ∈ S, ∃ b ∈ T, c = a * b} (pw α) (.kron [A, B])
        ((powRule pw α alg (.kron [A, B])).toOp P) := by
  have hplan : powRule pw α alg (.kron [A, B]) = .kron [powRule pw α alg A, powRule pw α alg B] := by
    simp only [powRule, powGo, List.map_cons, List.map_nil]
  refine ⟨hplan, ?_⟩
  rw [hplan]
  simp only [UnOp.toOp, List.map_cons, List.map_nil]
  have hBn : MatFunOK T (pw α) (.kron [B]) (.kron [(powRule pw α alg B).toOp P]) :=
    matFunOK_kron_cons hB (matFunOK_kron_nil hf1) (fun b hb c hc => by rw [hc, mul_one]; exact hb)
      (fun b _ c hc => by rw [hc, mul_one, hf1, mul_one])
  exact matFunOK_kron_cons hA hBn (fun a ha b hb => ⟨a, ha, b, hb, rfl⟩) hf

/-! ## the contracts are satisfiable: a genuine eigendecomposition of a `2 × 2` non-diagonal matrix -/

/-- `A = [[2, 1], [1, 2]]` as a Dense operator over `ℝ` -/
noncomputable def exA : Op ℝ := .dense .f64 2 2 (fun i j => if i = j then 2 else 1)

/-- `V = [[1, 1], [1, -1]]`, `inv(V) = V / 2`, eigenvalues `3, 1` -/
noncomputable def exEig : EigData ℝ :=
  ⟨fun i j => if i = 1 ∧ j = 1 then -1 else 1, fun i j => if i = 1 ∧ j = 1 then -1 / 2 else 1 / 2,
    fun i => if i = 0 then 3 else 1⟩

noncomputable def exOracle : EigOracle ℝ := ⟨fun _ _ => exEig, fun _ _ _ => zeroM, fun _ _ => zeroM⟩

theorem exA_rows : exA.rows = 2 := by simp [exA, Op.rows]

theorem exEig_ok : EigOK (Set.Ioi (0 : ℝ)) false exA exEig := by
  have hr := exA_rows
  refine ⟨by simp [exA, Op.rows, Op.cols], ?_, by simp, ?_, ?_⟩
  · rw [← MatF.toMatrix_mmul, ← MatF.toMatrix_eyeM]
    apply MatF.toMatrix_congr
    intro i j hi hj
    rw [hr] at hi hj ⊢
    interval_cases i <;> interval_cases j <;> simp [mmul, sumTo, exEig, eyeM] <;> norm_num
  · have hd : Matrix.diagonal (fun i : Fin exA.rows => exEig.d i.val)
        = MatF.toMatrix exA.rows exA.rows (diagM exEig.d) := (toMatrix_diagM_unary _ _).symm
    rw [hd, ← MatF.toMatrix_mmul, ← MatF.toMatrix_mmul]
    apply MatF.toMatrix_congr
    intro i j hi hj
    rw [hr] at hi hj ⊢
    interval_cases i <;> interval_cases j <;> simp [mmul, sumTo, exEig, exA, Op.den, diagM] <;> norm_num
  · intro i hi
    rw [hr] at hi
    interval_cases i <;> simp [exEig]

/-- the plan of `apply_unary(f, A, Eig())` is the base case, and it is `SoundE` for every `f` -/
theorem exA_soundE (f : ℝ → ℝ) : (applyUnary f .eig exA).SoundE exOracle (Set.Ioi 0) f := by
  have : applyUnary f .eig exA = .base .eig f exA := by
    simp [applyUnary, exA, applyGo, baseRule]
  rw [this]
  simp only [UnOp.SoundE]
  exact exEig_ok


end Unary
