import ColaVerif.Lemmas.KrylovInst
import ColaVerif.Lemmas.UnaryEig

/-!
# C09 — the contract `KrylovOK` DERIVED from the Lanczos loop model of C14, and witnessed (round 3)

`Lemmas/UnaryEig.lean` states `KrylovOK S g A K` (every identity column of `K` is the Krylov formula of SOME complete
factorisation) as a contract at the Lanczos / Arnoldi leaves of a plan.  Here, for Lanczos:

* `lanczosK eigh max_iters tol g A` — the matrix of `LanczosUnary(A, g)` as the MODEL `KrylovCompose.lanczosUnaryMat`
  (loop model `Lanczos.lanczosExact` of C14 run on every identity column, `eigh` a parameter);
* `krylovOK_of_lanczos` — `KrylovOK` holds for it: the factorisation is `KrylovCompose.lanczos_factorisation` (what
  `C09_lanczos_path` uses), the remaining assumption is `EighContract eigh` (LAPACK) — satisfiable (`eighSpectral`) —,
  `A` Hermitian + diagonalisable, exhausted runs; `krylovOK_of_lanczos_cap`: for `tol = 0`, cap `≥ n` no hypothesis about
  the runs is left;
* `exS_krylov_soundE` — witness: `SelfAdjoint([[2,1],[1,2]])` with `Lanczos()`: the plan is the Lanczos base node and
  `UnOp.SoundE` holds for every `f` with the oracle `exKrylovOracle` = the model.
-/

set_option linter.unusedSectionVars false

open Matrix MatFun KrylovPoly KrylovCompose

namespace Unary

section lanczosOp
open Lanczos
attribute [local instance] exactNum exactVec
variable {𝕜 : Type} [RCLike 𝕜] [DecidableEq 𝕜]

/-- the matrix of `LanczosUnary(A, g)` as a `MatF`: the model `KrylovCompose.lanczosUnaryMat` of the represented matrix -/
noncomputable def lanczosK (eigh : Eigh 𝕜) (max_iters : ℕ) (tol : ℝ) (g : 𝕜 → 𝕜) (A : Op 𝕜) : MatF 𝕜 :=
  fun a i => if h : a < A.rows ∧ i < A.rows then
    lanczosUnaryMat eigh (mat A) max_iters tol g ⟨a, h.1⟩ ⟨i, h.2⟩ else 0

theorem toMatrix_lanczosK (eigh : Eigh 𝕜) (max_iters : ℕ) (tol : ℝ) (g : 𝕜 → 𝕜) (A : Op 𝕜) :
    MatF.toMatrix A.rows A.rows (lanczosK eigh max_iters tol g A) = lanczosUnaryMat eigh (mat A) max_iters tol g := by
  ext a i
  simp [lanczosK, MatF.toMatrix_apply, a.isLt, i.isLt]

/-- **`KrylovOK` DERIVED from the loop model of C14** (the factorisation `lanczos_factorisation` that
`C09_lanczos_path` uses): for a Hermitian, diagonalisable operand whose runs on the identity columns are exhausted, the
model's matrix satisfies the contract `KrylovOK`; what remains assumed is `EighContract` (LAPACK `eigh`). -/
theorem krylovOK_of_lanczos (eigh : Eigh 𝕜) (contract : EighContract eigh) (S : Set 𝕜) (g : 𝕜 → 𝕜) (A : Op 𝕜)
    (sq : A.cols = A.rows) (herm : (mat A).IsHermitian) (hdiag : DiagonalisableOn S (mat A))
    (max_iters : ℕ) (tol : ℝ) (tol_nonneg : 0 ≤ tol) (cap_pos : 1 ≤ min max_iters A.rows)
    (exhausted : ∀ i : Fin A.rows, (lanczosExact (Matrix.toEuclideanLin (mat A)) A.rows
      #[EuclideanSpace.single i (1 : 𝕜)] max_iters tol).resid (Matrix.toEuclideanLin (mat A)) 0 = 0) :
    KrylovOK S g A (lanczosK eigh max_iters tol g A) := by
  refine ⟨sq, hdiag, fun i => ?_⟩
  have hsym : (Matrix.toEuclideanLin (mat A)).IsSymmetric := Matrix.isSymmetric_toEuclideanLin_iff.mpr herm
  obtain ⟨_, hfac, hv, hTh⟩ := lanczos_factorisation (mat A) hsym A.rows max_iters
    (EuclideanSpace.single i (1 : 𝕜)) tol (single_ne_zero i) tol_nonneg cap_pos (exhausted i)
  obtain ⟨hP, hT⟩ := contract _ _ hTh
  refine ⟨_, _, _, _, _, _, e0 _, ((‖(EuclideanSpace.single i (1 : 𝕜))‖ : ℝ) : 𝕜), hfac, hP, hT, ?_, ?_⟩
  · rw [← hv]; simp
  · funext a
    simp only [lanczosK, a.isLt, i.isLt, and_self, dite_true, Fin.eta]
    rfl

/-- … and with `tol = 0`, a cap of at least `n`: no hypothesis about the run at all -/
theorem krylovOK_of_lanczos_cap (eigh : Eigh 𝕜) (contract : EighContract eigh) (S : Set 𝕜) (g : 𝕜 → 𝕜) (A : Op 𝕜)
    (sq : A.cols = A.rows) (herm : (mat A).IsHermitian) (hdiag : DiagonalisableOn S (mat A))
    (max_iters : ℕ) (hn : 1 ≤ A.rows) (hcap : A.rows ≤ max_iters) :
    KrylovOK S g A (lanczosK eigh max_iters 0 g A) :=
  krylovOK_of_lanczos eigh contract S g A sq herm hdiag max_iters 0 (le_refl _) (by simp; omega)
    (fun i => lanczos_exhausted_of_cap (mat A)
      (Matrix.isSymmetric_toEuclideanLin_iff.mpr herm) max_iters _ (single_ne_zero i) hn hcap)

end lanczosOp

/-! ## witness: `KrylovOK` holds for the Lanczos model on `SelfAdjoint([[2,1],[1,2]])` -/

/-- `SelfAdjoint(Dense([[2,1],[1,2]]))` -/
noncomputable def exS : Op ℝ := .annot .selfAdjoint exA

theorem exS_rows : exS.rows = 2 := by simp [exS, exA, Op.rows]

theorem exS_eig_ok : EigOK (Set.Ioi (0 : ℝ)) false exS exEig := by
  have hr := exS_rows
  refine ⟨by simp [exS, exA, Op.rows, Op.cols], ?_, by simp, ?_, ?_⟩
  · rw [← MatF.toMatrix_mmul, ← MatF.toMatrix_eyeM]
    apply MatF.toMatrix_congr
    intro i j hi hj
    rw [hr] at hi hj ⊢
    interval_cases i <;> interval_cases j <;> simp [mmul, sumTo, exEig, eyeM] <;> norm_num
  · have hd : Matrix.diagonal (fun i : Fin exS.rows => exEig.d i.val)
        = MatF.toMatrix exS.rows exS.rows (diagM exEig.d) := (toMatrix_diagM_unary _ _).symm
    rw [hd, ← MatF.toMatrix_mmul, ← MatF.toMatrix_mmul]
    apply MatF.toMatrix_congr
    intro i j hi hj
    rw [hr] at hi hj ⊢
    interval_cases i <;> interval_cases j <;> simp [mmul, sumTo, exEig, exS, exA, Op.den, diagM] <;> norm_num
  · intro i hi
    rw [hr] at hi
    interval_cases i <;> simp [exEig]

theorem exS_herm : (mat exS).IsHermitian := by
  apply Matrix.IsHermitian.ext
  intro i j
  show star (exS.den.f j.val i.val) = exS.den.f i.val j.val
  simp only [exS, exA, Op.den, star_trivial]
  by_cases h : i.val = j.val
  · simp [h]
  · have h' : ¬ j.val = i.val := fun e => h e.symm
    simp [h, h']

/-- an oracle whose Krylov operators are the Lanczos MODEL (`lanczosK`, cap `5`, `tol = 0`, Mathlib's spectral theorem
as `eigh`) -/
noncomputable def exKrylovOracle : EigOracle ℝ :=
  ⟨fun _ _ => exEig, fun _ g A => lanczosK eighSpectral 5 0 g A, fun _ _ => zeroM⟩

/-- **`KrylovOK` is witnessed**: the plan of `apply_unary(f, SelfAdjoint([[2,1],[1,2]]), Lanczos())` is the Lanczos base
node and it is `SoundE` for every `f`, with the Krylov oracle the model run of C14 -/
theorem exS_krylov_soundE (f : ℝ → ℝ) :
    applyUnary f .lanczos exS = .base .lanczos f exS ∧
    (applyUnary f .lanczos exS).SoundE exKrylovOracle (Set.Ioi 0) f := by
  have hplan : applyUnary f .lanczos exS = .base .lanczos f exS := by
    simp [applyUnary, exS, exA, applyGo, baseRule, guardSA, Op.isa, Op.anns, AnnSet.isa, Ann.sub, AnnSet.union]
  refine ⟨hplan, ?_⟩
  rw [hplan]
  simp only [UnOp.SoundE, exKrylovOracle]
  exact krylovOK_of_lanczos_cap eighSpectral eighSpectral_contract _ f exS
    (by simp [exS, exA, Op.rows, Op.cols]) exS_herm (exS_eig_ok.matFun id).diagonalisable 5
    (by rw [exS_rows]; norm_num) (by rw [exS_rows]; norm_num)

end Unary
