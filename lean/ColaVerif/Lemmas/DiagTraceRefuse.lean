import ColaVerif.Lemmas.DiagTraceSound
import ColaVerif.Lemmas.DiagTraceSel
import ColaVerif.Model.DiagTraceReach

/-!
# C08: every refusal of the model of `diag` / `trace` is a predicted exception

* `Op.IsRaise msg` — `msg` is one of the exception classes the rules raise on well-formed input:
  `error:AssertionError` (`assert k == 0`, `assert all(M square)`, `assert A square` of `trace`),
  `error:ValueError` (`xnp.zeros` of a negative extent, broadcasting of unequal lengths in `sum`,
  `np.concatenate([])`, `range(0, 0, 0)` of the probing loop on an empty operator);
* `Op.diagCode_error_class`, `Op.traceCode_error_class` — on a well-formed (square, for `diag`) tree with
  `alg = Exact()` or `A.hutchReach = false`, `.error msg` implies `IsRaise msg`: the escape values
  `unmodelled:hutch` / `unmodelled:nonsquare-exact` (and `error:empty-sum`, `error:TypeError` of empty member
  lists) never occur;
* `Op.diagCode_generic_total` — where the selection names the `LinearOperator` rules, a non-empty square
  operator is never refused: the result is `.ok (exactDiag bs0 A.core k)`.
No `Good` hypothesis is needed: these are statements about which branch the code model takes.
-/

namespace Op
variable {R : Type}

/-- the exception classes the model predicts for `diag` / `trace` -/
def IsRaise (msg : String) : Prop := msg = "error:AssertionError" ∨ msg = "error:ValueError"

theorem dtSeqE_error {α β : Type} (f : α → Except String β) :
    ∀ (Ms : List α) (e : String), dtSeqE (Ms.map f) = .error e → ∃ M ∈ Ms, f M = .error e
  | [], e, h => by simp [dtSeqE] at h
  | M :: Ms, e, h => by
    simp only [List.map_cons, dtSeqE] at h
    cases hM : f M with
    | error e' =>
      simp only [hM, bind, Except.bind, Except.error.injEq] at h
      exact ⟨M, by simp, by rw [hM, h]⟩
    | ok a =>
      cases hs : dtSeqE (Ms.map f) with
      | error e' =>
        simp only [hM, hs, bind, Except.bind, Except.error.injEq] at h
        obtain ⟨M', hM', hf⟩ := dtSeqE_error f Ms e' hs
        exact ⟨M', by simp [hM'], by rw [hf, h]⟩
      | ok as => simp [hM, hs, bind, Except.bind, pure, Except.pure] at h

section
variable [CommRing R]

theorem npZeros_error (n : Nat) (k : Int) (e : String) (h : npZeros (R := R) n k = .error e) :
    e = "error:ValueError" := by
  unfold npZeros at h
  split at h
  · simp at h
  · simpa using h.symm

theorem bcAdd_error (u v : List R) (e : String) (h : bcAdd u v = .error e) : e = "error:ValueError" := by
  unfold bcAdd at h
  split at h
  · simp at h
  · split at h
    · simp at h
    · split at h
      · simp at h
      · simpa using h.symm

theorem sumFold_aux_error {α : Type} (f : α → Except String (List R)) :
    ∀ (rest : List α) (acc : List R) (e : String),
      (rest.map f).foldlM (fun acc r' => do let d' ← r'; bcAdd acc d') acc = .error e →
      (∃ M ∈ rest, f M = .error e) ∨ e = "error:ValueError"
  | [], acc, e, h => by simp [pure, Except.pure] at h
  | M :: rest, acc, e, h => by
    simp only [List.map_cons, List.foldlM_cons] at h
    cases hM : f M with
    | error e' =>
      simp only [hM, bind, Except.bind, Except.error.injEq] at h
      exact Or.inl ⟨M, by simp, by rw [hM, h]⟩
    | ok d' =>
      simp only [hM, bind, Except.bind] at h
      cases hb : bcAdd acc d' with
      | error e' =>
        simp only [hb, Except.error.injEq] at h
        exact Or.inr (by rw [← h]; exact bcAdd_error _ _ _ hb)
      | ok acc' =>
        simp only [hb] at h
        rcases sumFold_aux_error f rest acc' e h with ⟨M', hM', hf⟩ | he
        · exact Or.inl ⟨M', by simp [hM'], hf⟩
        · exact Or.inr he

theorem sumFold_error {α : Type} (f : α → Except String (List R)) (Ms : List α) (hne : Ms ≠ []) (e : String)
    (h : sumFold (Ms.map f) = .error e) : (∃ M ∈ Ms, f M = .error e) ∨ e = "error:ValueError" := by
  cases Ms with
  | nil => exact absurd rfl hne
  | cons M rest =>
    simp only [List.map_cons, sumFold] at h
    cases hM : f M with
    | error e' =>
      simp only [hM, bind, Except.bind, Except.error.injEq] at h
      exact Or.inl ⟨M, by simp, by rw [hM, h]⟩
    | ok d' =>
      simp only [hM, bind, Except.bind] at h
      rcases sumFold_aux_error f rest d' e h with ⟨M', hM', hf⟩ | he
      · exact Or.inl ⟨M', by simp [hM'], hf⟩
      · exact Or.inr he
end

variable [CommRing R] [StarRing R] [DecidableEq R]

theorem genericDiag_error (bs0 : Nat) (alg : Alg) (A : Op R) (k : Int) (hsq : A.rows = A.cols)
    (hr : alg = .exact ∨ autoExact 1 1000000 (A.rows * A.cols) = true) (e : String)
    (h : genericDiag bs0 alg A k = .error e) : e = "error:ValueError" := by
  unfold genericDiag at h
  split at h
  · rename_i hc
    rcases hr with hr | hr
    · rw [hr] at hc; exact absurd hc.1 (by decide)
    · rw [hr] at hc; exact absurd hc.2 (by decide)
  · split at h
    · rename_i hns; exact absurd hsq hns
    · split at h
      · simpa using h.symm
      · simp at h

omit [CommRing R] [StarRing R] [DecidableEq R] in
theorem any_false_mem {f : Op R → Bool} {Ms : List (Op R)} (h : (Ms.map f).any id = false) :
    ∀ M ∈ Ms, f M = false := by
  intro M hM
  rw [List.any_eq_false] at h
  have := h _ (List.mem_map.mpr ⟨M, hM, rfl⟩)
  simpa using this

/-- every refusal of `diag` on a square well-formed tree is a predicted exception -/
theorem diagCode_error_class (bs0 : Nat) (alg : Alg) :
    ∀ (A : Op R), A.wf = true → A.rows = A.cols → (alg = .exact ∨ A.hutchReach = false) →
      ∀ (k : Int) (msg : String), diagCode bs0 alg A k = .error msg → IsRaise msg
  | dense .., _, _, _, k, msg, h => by simp [diagCode] at h
  | tri .., _, _, _, k, msg, h => by simp [diagCode] at h
  | eye dt n, _, _, _, k, msg, h => by
    simp only [diagCode] at h
    split at h
    · simp at h
    · exact Or.inr (npZeros_error n k msg h)
  | diag dt n v, _, _, _, k, msg, h => by
    simp only [diagCode] at h
    split at h
    · simp at h
    · exact Or.inr (npZeros_error n k msg h)
  | scalar dt s n, _, _, _, k, msg, h => by
    simp only [diagCode] at h
    split at h
    · simp [bind, Except.bind, pure, Except.pure] at h
    · cases hz : npZeros (R := R) n k with
      | error e =>
        simp only [hz, bind, Except.bind, Except.error.injEq] at h
        exact Or.inr (by rw [← h]; exact npZeros_error n k e hz)
      | ok e => simp [hz, bind, Except.bind, pure, Except.pure] at h
  | sum Ms, hwf, hsq, hr, k, msg, h => by
    rw [diagCode] at h
    have hshape := sum_shapes Ms hwf
    have hne : Ms ≠ [] := by
      intro h0; subst h0; simp [Op.wf] at hwf
    have hwfM : ∀ M ∈ Ms, M.wf = true := by
      simp only [Op.wf, Bool.and_eq_true] at hwf
      exact wf_members hwf.1.2
    rcases sumFold_error _ Ms hne msg h with ⟨M, hM, hf⟩ | he
    · have hrM : alg = .exact ∨ M.hutchReach = false := by
        rcases hr with hr | hr
        · exact Or.inl hr
        · rw [hutchReach] at hr
          exact Or.inr (any_false_mem hr M hM)
      exact diagCode_error_class bs0 alg M (hwfM M hM)
        (by rw [(hshape M hM).1, (hshape M hM).2]; exact hsq) hrM k msg hf
    · exact Or.inr he
  | annot a A, hwf, hsq, hr, k, msg, h => by
    rw [diagCode] at h
    refine diagCode_error_class bs0 alg A (by simpa only [Op.wf] using hwf)
      (by simpa only [rows, cols] using hsq) ?_ k msg h
    rcases hr with hr | hr
    · exact Or.inl hr
    · rw [hutchReach] at hr; exact Or.inr hr
  | kron Ms, hwf, hsq, hr, k, msg, h => by
    rw [diagCode] at h
    have hwfM : ∀ M ∈ Ms, M.wf = true := by
      simp only [Op.wf, Bool.and_eq_true] at hwf
      exact wf_members hwf.2
    split at h
    · exact Or.inl (by simpa using h.symm)
    · split at h
      · exact Or.inl (by simpa using h.symm)
      · rename_i hns
        rw [Bool.not_eq_true] at hns
        cases hs : dtSeqE (Ms.map (fun M => diagCode bs0 alg M k)) with
        | ok ds => simp [hs, bind, Except.bind, pure, Except.pure] at h
        | error e =>
          simp only [hs, bind, Except.bind, Except.error.injEq] at h
          obtain ⟨M, hM, hf⟩ := dtSeqE_error _ Ms e hs
          have hsqM : M.rows = M.cols := by
            have := any_false_mem (f := fun M => decide (M.rows ≠ M.cols)) hns M hM
            simpa using this
          have hrM : alg = .exact ∨ M.hutchReach = false := by
            rcases hr with hr | hr
            · exact Or.inl hr
            · rw [hutchReach] at hr
              exact Or.inr (any_false_mem hr M hM)
          rw [← h]
          exact diagCode_error_class bs0 alg M (hwfM M hM) hsqM hrM k e hf
  | bdiag Ms mults, hwf, hsq, hr, k, msg, h => by
    rw [diagCode] at h
    have hwfM : ∀ M ∈ Ms, M.wf = true := by
      simp only [Op.wf, Bool.and_eq_true] at hwf
      exact wf_members hwf.1.2
    split at h
    · exact Or.inl (by simpa using h.symm)
    · split at h
      · exact Or.inl (by simpa using h.symm)
      · rename_i hns
        rw [Bool.not_eq_true] at hns
        cases hs : dtSeqE (Ms.map (fun M => diagCode bs0 alg M k)) with
        | ok ds =>
          simp only [hs, bind, Except.bind] at h
          split at h
          · exact Or.inr (by simpa using h.symm)
          · simp [pure, Except.pure] at h
        | error e =>
          simp only [hs, bind, Except.bind, Except.error.injEq] at h
          obtain ⟨M, hM, hf⟩ := dtSeqE_error _ Ms e hs
          have hsqM : M.rows = M.cols := by
            have := any_false_mem (f := fun M => decide (M.rows ≠ M.cols)) hns M hM
            simpa using this
          have hrM : alg = .exact ∨ M.hutchReach = false := by
            rcases hr with hr | hr
            · exact Or.inl hr
            · rw [hutchReach] at hr
              exact Or.inr (any_false_mem hr M hM)
          rw [← h]
          exact diagCode_error_class bs0 alg M (hwfM M hM) hsqM hrM k e hf
  | kronsum Ms, hwf, hsq, hr, k, msg, h => by
    rw [diagCode] at h
    have hwfM : ∀ M ∈ Ms, M.wf = true := by
      simp only [Op.wf, Bool.and_eq_true] at hwf
      exact wf_members hwf.1.2
    have hsqMs := kronsum_square Ms hwf
    split at h
    · exact Or.inl (by simpa using h.symm)
    · cases hs : dtSeqE (Ms.map (fun M => diagCode bs0 alg M k)) with
      | ok ds => simp [hs, bind, Except.bind, pure, Except.pure] at h
      | error e =>
        simp only [hs, bind, Except.bind, Except.error.injEq] at h
        obtain ⟨M, hM, hf⟩ := dtSeqE_error _ Ms e hs
        have hrM : alg = .exact ∨ M.hutchReach = false := by
          rcases hr with hr | hr
          · exact Or.inl hr
          · rw [hutchReach] at hr
            exact Or.inr (any_false_mem hr M hM)
        rw [← h]
        exact diagCode_error_class bs0 alg M (hwfM M hM) (hsqMs M hM) hrM k e hf
  | sparse dt r c e, hwf, hsq, hr, k, msg, h => by
    rw [diagCode] at h
    · refine Or.inr (genericDiag_error bs0 alg _ k hsq ?_ msg h)
      rcases hr with hr | hr
      · exact Or.inl hr
      · rw [hutchReach] at hr
        · exact Or.inr (by simpa using hr)
        all_goals (intros; contradiction)
    all_goals (intros; contradiction)
  | prod Ms, hwf, hsq, hr, k, msg, h => by
    rw [diagCode] at h
    · refine Or.inr (genericDiag_error bs0 alg _ k hsq ?_ msg h)
      rcases hr with hr | hr
      · exact Or.inl hr
      · rw [hutchReach] at hr
        · exact Or.inr (by simpa using hr)
        all_goals (intros; contradiction)
    all_goals (intros; contradiction)
  | tridiag dt n al be ga, hwf, hsq, hr, k, msg, h => by
    rw [diagCode] at h
    · refine Or.inr (genericDiag_error bs0 alg _ k hsq ?_ msg h)
      rcases hr with hr | hr
      · exact Or.inl hr
      · rw [hutchReach] at hr
        · exact Or.inr (by simpa using hr)
        all_goals (intros; contradiction)
    all_goals (intros; contradiction)
  | transpose A, hwf, hsq, hr, k, msg, h => by
    rw [diagCode] at h
    · refine Or.inr (genericDiag_error bs0 alg _ k hsq ?_ msg h)
      rcases hr with hr | hr
      · exact Or.inl hr
      · rw [hutchReach] at hr
        · exact Or.inr (by simpa using hr)
        all_goals (intros; contradiction)
    all_goals (intros; contradiction)
  | adjoint A, hwf, hsq, hr, k, msg, h => by
    rw [diagCode] at h
    · refine Or.inr (genericDiag_error bs0 alg _ k hsq ?_ msg h)
      rcases hr with hr | hr
      · exact Or.inl hr
      · rw [hutchReach] at hr
        · exact Or.inr (by simpa using hr)
        all_goals (intros; contradiction)
    all_goals (intros; contradiction)
  | sliced A s0 s1, hwf, hsq, hr, k, msg, h => by
    rw [diagCode] at h
    · refine Or.inr (genericDiag_error bs0 alg _ k hsq ?_ msg h)
      rcases hr with hr | hr
      · exact Or.inl hr
      · rw [hutchReach] at hr
        · exact Or.inr (by simpa using hr)
        all_goals (intros; contradiction)
    all_goals (intros; contradiction)
  | perm dt p, hwf, hsq, hr, k, msg, h => by
    rw [diagCode] at h
    · refine Or.inr (genericDiag_error bs0 alg _ k hsq ?_ msg h)
      rcases hr with hr | hr
      · exact Or.inl hr
      · rw [hutchReach] at hr
        · exact Or.inr (by simpa using hr)
        all_goals (intros; contradiction)
    all_goals (intros; contradiction)
  | concat ax Ms, hwf, hsq, hr, k, msg, h => by
    rw [diagCode] at h
    · refine Or.inr (genericDiag_error bs0 alg _ k hsq ?_ msg h)
      rcases hr with hr | hr
      · exact Or.inl hr
      · rw [hutchReach] at hr
        · exact Or.inr (by simpa using hr)
        all_goals (intros; contradiction)
    all_goals (intros; contradiction)
  | house dt n v beta, hwf, hsq, hr, k, msg, h => by
    rw [diagCode] at h
    · refine Or.inr (genericDiag_error bs0 alg _ k hsq ?_ msg h)
      rcases hr with hr | hr
      · exact Or.inl hr
      · rw [hutchReach] at hr
        · exact Or.inr (by simpa using hr)
        all_goals (intros; contradiction)
    all_goals (intros; contradiction)
  | generic A, hwf, hsq, hr, k, msg, h => by
    rw [diagCode] at h
    · refine Or.inr (genericDiag_error bs0 alg _ k hsq ?_ msg h)
      rcases hr with hr | hr
      · exact Or.inl hr
      · rw [hutchReach] at hr
        · exact Or.inr (by simpa using hr)
        all_goals (intros; contradiction)
    all_goals (intros; contradiction)
termination_by A => sizeOf A

omit [CommRing R] [StarRing R] [DecidableEq R] in
theorem dt_core_rows : ∀ (A : Op R), A.core.rows = A.rows
  | annot a A => by rw [core, dt_core_rows A]; simp only [Op.rows]
  | dense .. | tri .. | sparse .. | scalar .. | eye .. | prod .. | sum .. | kron .. | kronsum ..
  | bdiag .. | diag .. | tridiag .. | transpose .. | adjoint .. | sliced .. | perm .. | concat ..
  | house .. | generic .. => by simp only [core]

omit [CommRing R] [StarRing R] [DecidableEq R] in
theorem dt_core_cols : ∀ (A : Op R), A.core.cols = A.cols
  | annot a A => by rw [core, dt_core_cols A]; simp only [Op.cols]
  | dense .. | tri .. | sparse .. | scalar .. | eye .. | prod .. | sum .. | kron .. | kronsum ..
  | bdiag .. | diag .. | tridiag .. | transpose .. | adjoint .. | sliced .. | perm .. | concat ..
  | house .. | generic .. => by simp only [core]

/-- every refusal of `trace` on a well-formed tree is a predicted exception -/
theorem traceCode_error_class (bs0 : Nat) (alg : Alg) :
    ∀ (A : Op R), A.wf = true → (alg = .exact ∨ A.hutchReach = false) →
      ∀ (msg : String), traceCode bs0 alg A = .error msg → IsRaise msg
  | kron Ms, hwf, hr, msg, h => by
    rw [traceCode] at h
    have hne : Ms ≠ [] := by
      intro h0; subst h0; simp [Op.wf] at hwf
    have hwfM : ∀ M ∈ Ms, M.wf = true := by
      simp only [Op.wf, Bool.and_eq_true] at hwf
      exact wf_members hwf.2
    cases hs : dtSeqE (Ms.map (fun M => traceCode bs0 alg M)) with
    | ok ts =>
      simp only [hs, bind, Except.bind] at h
      have hmap := dtSeqE_ok _ _ hs
      cases ts with
      | nil =>
        simp only [List.map_nil, List.map_eq_nil_iff] at hmap
        exact absurd hmap hne
      | cons t ts' => simp [pure, Except.pure] at h
    | error e =>
      simp only [hs, bind, Except.bind, Except.error.injEq] at h
      obtain ⟨M, hM, hf⟩ := dtSeqE_error _ Ms e hs
      have hrM : alg = .exact ∨ M.hutchReach = false := by
        rcases hr with hr | hr
        · exact Or.inl hr
        · rw [hutchReach] at hr
          exact Or.inr (any_false_mem hr M hM)
      rw [← h]
      exact traceCode_error_class bs0 alg M (hwfM M hM) hrM e hf
  | annot a A, hwf, hr, msg, h => by
    rw [traceCode] at h
    refine traceCode_error_class bs0 alg A (by simpa only [Op.wf] using hwf) ?_ msg h
    rcases hr with hr | hr
    · exact Or.inl hr
    · rw [hutchReach] at hr; exact Or.inr hr
  | dense dt r c a, hwf, hr, msg, h => by
    rw [traceCode] at h
    · split at h
      · exact Or.inl (by simpa using h.symm)
      · rename_i hsq
        cases hd : diagCode bs0 alg (dense dt r c a : Op R) 0 with
        | ok d => simp [hd, bind, Except.bind, pure, Except.pure] at h
        | error e =>
          simp only [hd, bind, Except.bind, Except.error.injEq] at h
          rw [← h]
          exact diagCode_error_class bs0 alg _ hwf (by simpa using hsq) hr 0 e hd
    all_goals (intros; contradiction)
  | tri dt r c l a, hwf, hr, msg, h => by
    rw [traceCode] at h
    · split at h
      · exact Or.inl (by simpa using h.symm)
      · rename_i hsq
        cases hd : diagCode bs0 alg (tri dt r c l a : Op R) 0 with
        | ok d => simp [hd, bind, Except.bind, pure, Except.pure] at h
        | error e =>
          simp only [hd, bind, Except.bind, Except.error.injEq] at h
          rw [← h]
          exact diagCode_error_class bs0 alg _ hwf (by simpa using hsq) hr 0 e hd
    all_goals (intros; contradiction)
  | sparse dt r c e, hwf, hr, msg, h => by
    rw [traceCode] at h
    · split at h
      · exact Or.inl (by simpa using h.symm)
      · rename_i hsq
        cases hd : diagCode bs0 alg (sparse dt r c e : Op R) 0 with
        | ok d => simp [hd, bind, Except.bind, pure, Except.pure] at h
        | error e =>
          simp only [hd, bind, Except.bind, Except.error.injEq] at h
          rw [← h]
          exact diagCode_error_class bs0 alg _ hwf (by simpa using hsq) hr 0 e hd
    all_goals (intros; contradiction)
  | scalar dt s n, hwf, hr, msg, h => by
    rw [traceCode] at h
    · split at h
      · exact Or.inl (by simpa using h.symm)
      · rename_i hsq
        cases hd : diagCode bs0 alg (scalar dt s n : Op R) 0 with
        | ok d => simp [hd, bind, Except.bind, pure, Except.pure] at h
        | error e =>
          simp only [hd, bind, Except.bind, Except.error.injEq] at h
          rw [← h]
          exact diagCode_error_class bs0 alg _ hwf (by simpa using hsq) hr 0 e hd
    all_goals (intros; contradiction)
  | eye dt n, hwf, hr, msg, h => by
    rw [traceCode] at h
    · split at h
      · exact Or.inl (by simpa using h.symm)
      · rename_i hsq
        cases hd : diagCode bs0 alg (eye dt n : Op R) 0 with
        | ok d => simp [hd, bind, Except.bind, pure, Except.pure] at h
        | error e =>
          simp only [hd, bind, Except.bind, Except.error.injEq] at h
          rw [← h]
          exact diagCode_error_class bs0 alg _ hwf (by simpa using hsq) hr 0 e hd
    all_goals (intros; contradiction)
  | prod Ms, hwf, hr, msg, h => by
    rw [traceCode] at h
    · split at h
      · exact Or.inl (by simpa using h.symm)
      · rename_i hsq
        cases hd : diagCode bs0 alg (prod Ms : Op R) 0 with
        | ok d => simp [hd, bind, Except.bind, pure, Except.pure] at h
        | error e =>
          simp only [hd, bind, Except.bind, Except.error.injEq] at h
          rw [← h]
          exact diagCode_error_class bs0 alg _ hwf (by simpa using hsq) hr 0 e hd
    all_goals (intros; contradiction)
  | sum Ms, hwf, hr, msg, h => by
    rw [traceCode] at h
    · split at h
      · exact Or.inl (by simpa using h.symm)
      · rename_i hsq
        cases hd : diagCode bs0 alg (sum Ms : Op R) 0 with
        | ok d => simp [hd, bind, Except.bind, pure, Except.pure] at h
        | error e =>
          simp only [hd, bind, Except.bind, Except.error.injEq] at h
          rw [← h]
          exact diagCode_error_class bs0 alg _ hwf (by simpa using hsq) hr 0 e hd
    all_goals (intros; contradiction)
  | kronsum Ms, hwf, hr, msg, h => by
    rw [traceCode] at h
    · split at h
      · exact Or.inl (by simpa using h.symm)
      · rename_i hsq
        cases hd : diagCode bs0 alg (kronsum Ms : Op R) 0 with
        | ok d => simp [hd, bind, Except.bind, pure, Except.pure] at h
        | error e =>
          simp only [hd, bind, Except.bind, Except.error.injEq] at h
          rw [← h]
          exact diagCode_error_class bs0 alg _ hwf (by simpa using hsq) hr 0 e hd
    all_goals (intros; contradiction)
  | bdiag Ms mults, hwf, hr, msg, h => by
    rw [traceCode] at h
    · split at h
      · exact Or.inl (by simpa using h.symm)
      · rename_i hsq
        cases hd : diagCode bs0 alg (bdiag Ms mults : Op R) 0 with
        | ok d => simp [hd, bind, Except.bind, pure, Except.pure] at h
        | error e =>
          simp only [hd, bind, Except.bind, Except.error.injEq] at h
          rw [← h]
          exact diagCode_error_class bs0 alg _ hwf (by simpa using hsq) hr 0 e hd
    all_goals (intros; contradiction)
  | diag dt n v, hwf, hr, msg, h => by
    rw [traceCode] at h
    · split at h
      · exact Or.inl (by simpa using h.symm)
      · rename_i hsq
        cases hd : diagCode bs0 alg (diag dt n v : Op R) 0 with
        | ok d => simp [hd, bind, Except.bind, pure, Except.pure] at h
        | error e =>
          simp only [hd, bind, Except.bind, Except.error.injEq] at h
          rw [← h]
          exact diagCode_error_class bs0 alg _ hwf (by simpa using hsq) hr 0 e hd
    all_goals (intros; contradiction)
  | tridiag dt n al be ga, hwf, hr, msg, h => by
    rw [traceCode] at h
    · split at h
      · exact Or.inl (by simpa using h.symm)
      · rename_i hsq
        cases hd : diagCode bs0 alg (tridiag dt n al be ga : Op R) 0 with
        | ok d => simp [hd, bind, Except.bind, pure, Except.pure] at h
        | error e =>
          simp only [hd, bind, Except.bind, Except.error.injEq] at h
          rw [← h]
          exact diagCode_error_class bs0 alg _ hwf (by simpa using hsq) hr 0 e hd
    all_goals (intros; contradiction)
  | transpose A, hwf, hr, msg, h => by
    rw [traceCode] at h
    · split at h
      · exact Or.inl (by simpa using h.symm)
      · rename_i hsq
        cases hd : diagCode bs0 alg (transpose A : Op R) 0 with
        | ok d => simp [hd, bind, Except.bind, pure, Except.pure] at h
        | error e =>
          simp only [hd, bind, Except.bind, Except.error.injEq] at h
          rw [← h]
          exact diagCode_error_class bs0 alg _ hwf (by simpa using hsq) hr 0 e hd
    all_goals (intros; contradiction)
  | adjoint A, hwf, hr, msg, h => by
    rw [traceCode] at h
    · split at h
      · exact Or.inl (by simpa using h.symm)
      · rename_i hsq
        cases hd : diagCode bs0 alg (adjoint A : Op R) 0 with
        | ok d => simp [hd, bind, Except.bind, pure, Except.pure] at h
        | error e =>
          simp only [hd, bind, Except.bind, Except.error.injEq] at h
          rw [← h]
          exact diagCode_error_class bs0 alg _ hwf (by simpa using hsq) hr 0 e hd
    all_goals (intros; contradiction)
  | sliced A s0 s1, hwf, hr, msg, h => by
    rw [traceCode] at h
    · split at h
      · exact Or.inl (by simpa using h.symm)
      · rename_i hsq
        cases hd : diagCode bs0 alg (sliced A s0 s1 : Op R) 0 with
        | ok d => simp [hd, bind, Except.bind, pure, Except.pure] at h
        | error e =>
          simp only [hd, bind, Except.bind, Except.error.injEq] at h
          rw [← h]
          exact diagCode_error_class bs0 alg _ hwf (by simpa using hsq) hr 0 e hd
    all_goals (intros; contradiction)
  | perm dt p, hwf, hr, msg, h => by
    rw [traceCode] at h
    · split at h
      · exact Or.inl (by simpa using h.symm)
      · rename_i hsq
        cases hd : diagCode bs0 alg (perm dt p : Op R) 0 with
        | ok d => simp [hd, bind, Except.bind, pure, Except.pure] at h
        | error e =>
          simp only [hd, bind, Except.bind, Except.error.injEq] at h
          rw [← h]
          exact diagCode_error_class bs0 alg _ hwf (by simpa using hsq) hr 0 e hd
    all_goals (intros; contradiction)
  | concat ax Ms, hwf, hr, msg, h => by
    rw [traceCode] at h
    · split at h
      · exact Or.inl (by simpa using h.symm)
      · rename_i hsq
        cases hd : diagCode bs0 alg (concat ax Ms : Op R) 0 with
        | ok d => simp [hd, bind, Except.bind, pure, Except.pure] at h
        | error e =>
          simp only [hd, bind, Except.bind, Except.error.injEq] at h
          rw [← h]
          exact diagCode_error_class bs0 alg _ hwf (by simpa using hsq) hr 0 e hd
    all_goals (intros; contradiction)
  | house dt n v beta, hwf, hr, msg, h => by
    rw [traceCode] at h
    · split at h
      · exact Or.inl (by simpa using h.symm)
      · rename_i hsq
        cases hd : diagCode bs0 alg (house dt n v beta : Op R) 0 with
        | ok d => simp [hd, bind, Except.bind, pure, Except.pure] at h
        | error e =>
          simp only [hd, bind, Except.bind, Except.error.injEq] at h
          rw [← h]
          exact diagCode_error_class bs0 alg _ hwf (by simpa using hsq) hr 0 e hd
    all_goals (intros; contradiction)
  | generic A, hwf, hr, msg, h => by
    rw [traceCode] at h
    · split at h
      · exact Or.inl (by simpa using h.symm)
      · rename_i hsq
        cases hd : diagCode bs0 alg (generic A : Op R) 0 with
        | ok d => simp [hd, bind, Except.bind, pure, Except.pure] at h
        | error e =>
          simp only [hd, bind, Except.bind, Except.error.injEq] at h
          rw [← h]
          exact diagCode_error_class bs0 alg _ hwf (by simpa using hsq) hr 0 e hd
    all_goals (intros; contradiction)
termination_by A => sizeOf A

/-- **the generic path never refuses a non-empty square operator** -/
theorem diagCode_generic_total (bs0 : Nat) (alg : Alg) (A : Op R) (k : Int)
    (h : A.diagRuleClass = clsLinOp) (hsq : A.rows = A.cols) (hpos : 0 < A.rows)
    (hr : alg = .exact ∨ A.rows * A.cols < 100000000000) :
    diagCode bs0 alg A k = .ok (exactDiag bs0 A.core k) := by
  rw [diagCode_generic_rule bs0 alg A k h]
  unfold genericDiag
  rw [dt_core_rows, dt_core_cols]
  have hae : ¬ (alg = .auto ∧ autoExact 1 1000000 (A.rows * A.cols) = false) := by
    rintro ⟨ha, hf⟩
    rcases hr with hr | hr
    · rw [hr] at ha; exact absurd ha (by decide)
    · have : autoExact 1 1000000 (A.rows * A.cols) = true := by
        simp only [autoExact, decide_eq_true_eq]; omega
      rw [this] at hf; exact absurd hf (by decide)
  rw [if_neg hae, if_neg (by simpa using hsq), if_neg (by omega)]

end Op
