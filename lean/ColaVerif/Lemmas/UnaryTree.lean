import ColaVerif.Lemmas.UnaryRules

/-!
# C09 — the rule model returns `f` of the represented matrix, for every operator tree

* contracts of the base cases (`eigh_contract`, `eig_contract`, `krylov_contract`): what LAPACK's
  `eigh`/`eig` and a complete Krylov factorisation have to satisfy for the operator the code builds
  from them to be `f(A)`;
* `UnOp.Sound P S f U` — the hypotheses at the leaves of a plan: spectrum of the structured leaves in
  `S`, the oracle's matrices satisfy their contracts at the base cases, the function identities the
  shortcut nodes rely on (`x ** 0 = 1`, `x ** k` = repeated product, `x ** −1` = reciprocal on `S`),
  `f (conj z) = conj (f z)` where an `Adjoint` rule fires; a raising node is never sound;
* `applyUnary_ok`, `expRule_ok`, `powRule_ok` — by recursion over the operand, following the rules.
-/

set_option linter.unusedSectionVars false

open Matrix MatFun
open scoped Kronecker

namespace MatFun

variable {𝕜 : Type} [Field 𝕜] {ι κ : Type} [Fintype ι] [DecidableEq ι] [Fintype κ] [DecidableEq κ]

/-- **dense Hermitian base case** `V f(D) Vᴴ`: contract of `eigh` = `V` unitary, `A = V D Vᴴ` -/
theorem eigh_contract [StarRing 𝕜] {S : Set 𝕜} (f : 𝕜 → 𝕜) {A V : Matrix ι ι 𝕜} {d : ι → 𝕜}
    (hV : Vᴴ * V = 1) (hA : A = V * Matrix.diagonal d * Vᴴ) (hd : ∀ i, d i ∈ S) :
    IsMatFunOn S f A (V * Matrix.diagonal (fun i => f (d i)) * Vᴴ) :=
  ⟨V, Vᴴ, d, hV, hd, hA, rfl⟩

/-- **dense general base case** `V f(D) V⁻¹`: contract of `eig` = `A V = V D`, of `inv` = `Vi V = 1` -/
theorem eig_contract {S : Set 𝕜} (f : 𝕜 → 𝕜) {A V Vi : Matrix ι ι 𝕜} {d : ι → 𝕜}
    (hVi : Vi * V = 1) (hA : A * V = V * Matrix.diagonal d) (hd : ∀ i, d i ∈ S) :
    IsMatFunOn S f A (V * Matrix.diagonal (fun i => f (d i)) * Vi) := by
  refine ⟨V, Vi, d, hVi, hd, ?_, rfl⟩
  have h1 : V * Vi = 1 := mul_eq_one_comm.mp hVi
  calc A = A * (V * Vi) := by rw [h1, Matrix.mul_one]
    _ = V * Matrix.diagonal d * Vi := by rw [← Matrix.mul_assoc, hA]

/-- **Krylov base case** as an operator: if for EVERY operand `v` the output of the operator `K`
is the Krylov formula of a complete factorisation started from `v`, and the masked function agrees
with `f` on the Ritz values, then `K = f(A)` (for diagonalisable `A`). -/
theorem krylov_contract {S : Set 𝕜} {f fm : 𝕜 → 𝕜} {A K : Matrix ι ι 𝕜} (hA : DiagonalisableOn S A)
    (hK : ∀ v : ι → 𝕜, ∃ (m : ℕ) (Q : Matrix ι (Fin m) 𝕜) (T P Pi : Matrix (Fin m) (Fin m) 𝕜)
      (θ u : Fin m → 𝕜), A * Q = Q * T ∧ Pi * P = 1 ∧ T = P * Matrix.diagonal θ * Pi ∧ Q *ᵥ u = v ∧
        (∀ j, fm (θ j) = f (θ j)) ∧ K *ᵥ v = krylovOut Q P Pi θ fm u) :
    IsMatFunOn S f A K := by
  obtain ⟨F, hF⟩ := hA.exists_matFun f
  have : K = F := by
    apply Matrix.mulVec_injective
    funext v
    obtain ⟨m, Q, T, P, Pi, θ, u, h1, h2, h3, h4, h5, h6⟩ := hK v
    rw [h6]
    exact krylov_apply hF h1 h2 h3 h4 h5
  rw [this]
  exact hF

end MatFun

namespace Unary

variable {𝕜 : Type} [Field 𝕜] [StarRing 𝕜] [DecidableEq 𝕜]

/-- the window of an operator as a Mathlib matrix -/
abbrev mat (A : Op 𝕜) : Matrix (Fin A.rows) (Fin A.rows) 𝕜 := MatF.toMatrix A.rows A.rows A.den.f

/-- the hypotheses at the leaves of a plan -/
def UnOp.Sound (P : Params 𝕜) (S : Set 𝕜) (f : 𝕜 → 𝕜) : UnOp 𝕜 → Prop
  | .diagF _ n _ d => ∀ i, i < n → d i ∈ S
  | .scaledEye _ _ _ c => c ∈ S
  | .eyeLike A => A.cols = A.rows ∧ DiagonalisableOn S (mat A) ∧ ∀ a ∈ S, f a = 1
  | .product A k B => A.cols = A.rows ∧ DiagonalisableOn S (mat A) ∧ (∀ a ∈ S, f a = a ^ k) ∧
      B.rows = A.rows ∧ B.cols = A.rows ∧ MatF.toMatrix A.rows A.rows B.den.f = (mat A) ^ k
  | .bdiag Us _ => ∀ U ∈ Us, U.Sound P S f
  | .kron Us => ∀ U ∈ Us, U.Sound P S f
  | .transpose U => U.Sound P S f
  | .adjoint U => U.Sound P S f ∧ (∀ z ∈ S, star z ∈ S) ∧ ∀ z ∈ S, f (star z) = star (f z)
  | .inv A alg => A.cols = A.rows ∧ DiagonalisableOn S (mat A) ∧ (0 : 𝕜) ∉ S ∧ (∀ a ∈ S, f a = a⁻¹) ∧
      MatF.toMatrix A.rows A.rows (P.inv A alg) * mat A = 1
  | .base k g A => A.cols = A.rows ∧
      IsMatFunOn S g (mat A) (MatF.toMatrix A.rows A.rows (P.base k g A))
  | .raise _ => False

theorem MatFunOK.of_strip {S : Set 𝕜} {f : 𝕜 → 𝕜} {whole X F : Op 𝕜} (hr : whole.rows = X.rows)
    (hc : whole.cols = X.cols) (hd : whole.den = X.den) (h : MatFunOK S f X F) :
    MatFunOK S f whole F := by
  unfold MatFunOK at *
  rw [hr, hc, hd]
  exact h

/-! ## base rules -/

theorem baseRule_cases (f : 𝕜 → 𝕜) (alg : Alg) (A : Op 𝕜) :
    (∃ k, baseRule f alg A = .base k f A) ∨ (∃ e, baseRule f alg A = .raise e) := by
  unfold baseRule guardSA
  cases alg <;> simp only <;> (repeat' split) <;> first
    | exact Or.inl ⟨_, rfl⟩
    | exact Or.inr ⟨_, rfl⟩

theorem base_ok (P : Params 𝕜) (S : Set 𝕜) (f : 𝕜 → 𝕜) (k : BaseKind) (A : Op 𝕜)
    (h : (UnOp.base k f A).Sound P S f) : MatFunOK S f A ((UnOp.base k f A).toOp P) := by
  simp only [UnOp.Sound] at h
  simp only [UnOp.toOp]
  refine ⟨h.1, by simp only [Op.rows], by simp only [Op.cols]; exact h.1, ?_⟩
  simp only [Op.den, MatV.of_f]
  exact h.2

theorem baseRule_ok (P : Params 𝕜) (S : Set 𝕜) (f : 𝕜 → 𝕜) (alg : Alg) (A : Op 𝕜)
    (h : (baseRule f alg A).Sound P S f) : MatFunOK S f A ((baseRule f alg A).toOp P) := by
  rcases baseRule_cases f alg A with ⟨k, hk⟩ | ⟨e, he⟩
  · rw [hk] at h ⊢
    exact base_ok P S f k A h
  · rw [he] at h
    simp only [UnOp.Sound] at h

/-! ## `apply_unary` -/

theorem forall₂_map_of_mem {α β : Type} {R : α → β → Prop} (g : α → β) :
    ∀ (l : List α), (∀ a ∈ l, R a (g a)) → List.Forall₂ R l (l.map g)
  | [], _ => List.Forall₂.nil
  | a :: l, h => List.Forall₂.cons (h a List.mem_cons_self)
      (forall₂_map_of_mem g l (fun b hb => h b (List.mem_cons_of_mem _ hb)))

theorem applyGo_ok (P : Params 𝕜) (S : Set 𝕜) (f : 𝕜 → 𝕜) (alg : Alg) :
    ∀ (n : Nat) (whole X : Op 𝕜), sizeOf X ≤ n → whole.rows = X.rows → whole.cols = X.cols →
      whole.den = X.den → (applyGo f alg whole X).Sound P S f →
      MatFunOK S f whole ((applyGo f alg whole X).toOp P) := by
  intro n
  induction n with
  | zero =>
    intro whole X hn
    exfalso
    cases X <;> simp at hn
  | succ n ih =>
  intro whole X hn hr hc hd hS
  cases X with
  | annot a A =>
    simp only [applyGo] at hS ⊢
    exact ih whole A (by simp at hn; omega) (by rw [hr]; simp only [Op.rows])
      (by rw [hc]; simp only [Op.cols]) (by rw [hd]; simp only [Op.den]) hS
  | diag dt n d =>
    simp only [applyGo, UnOp.Sound] at hS
    simp only [applyGo, UnOp.toOp]
    exact MatFunOK.of_strip hr hc hd (matFunOK_diag f dt dt n d hS)
  | bdiag Ms mults =>
    simp only [applyGo, UnOp.Sound, List.mem_map, forall_exists_index, and_imp,
      forall_apply_eq_imp_iff₂] at hS
    simp only [applyGo, UnOp.toOp, List.map_map]
    refine MatFunOK.of_strip hr hc hd (matFunOK_bdiag ?_ mults)
    apply forall₂_map_of_mem
    intro M hM
    have := List.sizeOf_lt_of_mem hM
    exact ih M M (by simp at hn; omega) rfl rfl rfl (hS M hM)
  | eye dt n =>
    simp only [applyGo, UnOp.Sound] at hS
    simp only [applyGo, UnOp.toOp]
    exact MatFunOK.of_strip hr hc hd (matFunOK_eye f dt dt dt n hS)
  | scalar dt c n =>
    simp only [applyGo, UnOp.Sound] at hS
    simp only [applyGo, UnOp.toOp]
    exact MatFunOK.of_strip hr hc hd (matFunOK_scalar f dt dt dt c n hS)
  | transpose B =>
    simp only [applyGo, UnOp.Sound] at hS
    simp only [applyGo, UnOp.toOp]
    exact MatFunOK.of_strip hr hc hd (matFunOK_transpose (ih B B (by simp at hn; omega) rfl rfl rfl hS))
  | adjoint B =>
    simp only [applyGo, UnOp.Sound] at hS
    simp only [applyGo, UnOp.toOp]
    exact MatFunOK.of_strip hr hc hd
      (matFunOK_adjoint (ih B B (by simp at hn; omega) rfl rfl rfl hS.1) hS.2.1 hS.2.2)
  | _ =>
    simp only [applyGo] at hS ⊢
    exact baseRule_ok P S f alg whole hS

/-- **`apply_unary(f, A, alg)` returns `f(A)`** -/
theorem applyUnary_ok (P : Params 𝕜) (S : Set 𝕜) (f : 𝕜 → 𝕜) (alg : Alg) (A : Op 𝕜)
    (h : (applyUnary f alg A).Sound P S f) : MatFunOK S f A ((applyUnary f alg A).toOp P) :=
  applyGo_ok P S f alg (sizeOf A) A A (Nat.le_refl _) rfl rfl rfl h

/-! ## `exp` -/

theorem expGo_ok (P : Params 𝕜) (S : Set 𝕜) (e : 𝕜 → 𝕜) (alg : Alg) (h0 : (0 : 𝕜) ∈ S) (he0 : e 0 = 1)
    (hSadd : ∀ a ∈ S, ∀ b ∈ S, a + b ∈ S) (he : ∀ a ∈ S, ∀ b ∈ S, e (a + b) = e a * e b) :
    ∀ (n : Nat) (whole X : Op 𝕜), sizeOf X ≤ n → whole.rows = X.rows → whole.cols = X.cols →
      whole.den = X.den → (expGo e alg whole X).Sound P S e →
      MatFunOK S e whole ((expGo e alg whole X).toOp P) := by
  intro n
  induction n with
  | zero =>
    intro whole X hn
    exfalso
    cases X <;> simp at hn
  | succ n ih =>
  intro whole X hn hr hc hd hS
  cases X with
  | annot a A =>
    simp only [expGo] at hS ⊢
    exact ih whole A (by simp at hn; omega) (by rw [hr]; simp only [Op.rows])
      (by rw [hc]; simp only [Op.cols]) (by rw [hd]; simp only [Op.den]) hS
  | kronsum Ms =>
    simp only [expGo, UnOp.Sound, List.mem_map, forall_exists_index, and_imp,
      forall_apply_eq_imp_iff₂] at hS
    simp only [expGo, UnOp.toOp, List.map_map]
    refine MatFunOK.of_strip hr hc hd (matFunOK_kronsum h0 he0 hSadd he ?_)
    apply forall₂_map_of_mem
    intro M hM
    have := List.sizeOf_lt_of_mem hM
    exact ih M M (by simp at hn; omega) rfl rfl rfl (hS M hM)
  | _ =>
    simp only [expGo] at hS ⊢
    exact applyUnary_ok P S e alg whole hS

/-- **`exp(A, alg)` returns the exponential of `A`** (`exp(KronSum) = ⊗ exp` included), for any `e`
with `e 0 = 1`, `e (a + b) = e a * e b` on an additively closed `S ∋ 0` -/
theorem expRule_ok (P : Params 𝕜) (S : Set 𝕜) (e : 𝕜 → 𝕜) (alg : Alg) (h0 : (0 : 𝕜) ∈ S) (he0 : e 0 = 1)
    (hSadd : ∀ a ∈ S, ∀ b ∈ S, a + b ∈ S) (he : ∀ a ∈ S, ∀ b ∈ S, e (a + b) = e a * e b) (A : Op 𝕜)
    (h : (expRule e alg A).Sound P S e) : MatFunOK S e A ((expRule e alg A).toOp P) :=
  expGo_ok P S e alg h0 he0 hSadd he (sizeOf A) A A (Nat.le_refl _) rfl rfl rfl h

/-! ## `pow` -/

theorem isMatFunOn_of_diagonalisable {S : Set 𝕜} {n : Nat} {A F : Matrix (Fin n) (Fin n) 𝕜} (g f : 𝕜 → 𝕜)
    (hfg : ∀ a ∈ S, f a = g a) (hF : IsMatFunOn S g A F) : IsMatFunOn S f A F :=
  hF.congr (fun a ha => (hfg a ha).symm)

theorem powBase_ok (P : Params 𝕜) (S : Set 𝕜) (pw : Rat → 𝕜 → 𝕜) (α : Rat) (alg : Alg) (A : Op 𝕜)
    (h : (powBase pw α alg A).Sound P S (pw α)) :
    MatFunOK S (pw α) A ((powBase pw α alg A).toOp P) := by
  unfold powBase at h ⊢
  split at h
  · -- k = 0
    simp only [UnOp.Sound] at h
    obtain ⟨hsq, hdiag, hf⟩ := h
    simp only [UnOp.toOp]
    refine ⟨hsq, by simp only [Op.rows], by simp only [Op.cols], ?_⟩
    simp only [Op.den, MatV.of_f]
    unfold MatFunW
    rw [MatF.toMatrix_eyeM]
    obtain ⟨F, hF⟩ := hdiag.exists_matFun (fun _ => (1 : 𝕜))
    have hF1 : F = 1 := by
      obtain ⟨V, Vi, d, h1, _, _, h4⟩ := hF
      rw [h4]
      have : Matrix.diagonal (fun _ : Fin A.rows => (1 : 𝕜)) = 1 := Matrix.diagonal_one
      rw [this, Matrix.mul_one]
      exact mul_eq_one_comm.mp h1
    rw [← hF1]
    exact hF.congr (fun a ha => (hf a ha).symm)
  · -- 0 < k < 10
    rename_i k _
    split at h
    · rename_i B _
      simp only [UnOp.Sound] at h
      obtain ⟨hsq, hdiag, hf, hBr, hBc, hB⟩ := h
      simp only [UnOp.toOp]
      refine ⟨hsq, hBr, hBc, ?_⟩
      unfold MatFunW
      rw [hB]
      exact (hdiag.isMatFun_pow k).congr (fun a ha => (hf a ha).symm)
    · simp only [UnOp.Sound] at h
  · -- k = −1
    simp only [UnOp.Sound] at h
    obtain ⟨hsq, hdiag, h0, hf, hinv⟩ := h
    simp only [UnOp.toOp]
    refine ⟨hsq, by simp only [Op.rows], by simp only [Op.cols]; exact hsq, ?_⟩
    simp only [Op.den, MatV.of_f]
    exact (hdiag.isMatFun_inv h0 hinv).congr (fun a ha => (hf a ha).symm)
  · exact applyUnary_ok P S (pw α) alg A h

theorem powGo_ok (P : Params 𝕜) (S : Set 𝕜) (pw : Rat → 𝕜 → 𝕜) (α : Rat) (alg : Alg)
    (h1 : (1 : 𝕜) ∈ S) (hf1 : pw α 1 = 1) (hSmul : ∀ a ∈ S, ∀ b ∈ S, a * b ∈ S)
    (hmul : ∀ a ∈ S, ∀ b ∈ S, pw α (a * b) = pw α a * pw α b) :
    ∀ (n : Nat) (whole X : Op 𝕜), sizeOf X ≤ n → whole.rows = X.rows → whole.cols = X.cols →
      whole.den = X.den → (powGo pw α alg whole X).Sound P S (pw α) →
      MatFunOK S (pw α) whole ((powGo pw α alg whole X).toOp P) := by
  intro n
  induction n with
  | zero =>
    intro whole X hn
    exfalso
    cases X <;> simp at hn
  | succ n ih =>
  intro whole X hn hr hc hd hS
  cases X with
  | annot a A =>
    simp only [powGo] at hS ⊢
    exact ih whole A (by simp at hn; omega) (by rw [hr]; simp only [Op.rows])
      (by rw [hc]; simp only [Op.cols]) (by rw [hd]; simp only [Op.den]) hS
  | kron Ms =>
    simp only [powGo, UnOp.Sound, List.mem_map, forall_exists_index, and_imp,
      forall_apply_eq_imp_iff₂] at hS
    simp only [powGo, UnOp.toOp, List.map_map]
    refine MatFunOK.of_strip hr hc hd (matFunOK_kron h1 hf1 hSmul hmul ?_)
    apply forall₂_map_of_mem
    intro M hM
    have := List.sizeOf_lt_of_mem hM
    exact ih M M (by simp at hn; omega) rfl rfl rfl (hS M hM)
  | _ =>
    simp only [powGo] at hS ⊢
    exact powBase_ok P S pw α alg whole hS

/-- **`pow(A, α, alg)` returns `A ** α`** (shortcuts, `pow(Kronecker) = ⊗ pow` included), for any
family `pw` with `pw α 1 = 1` and `pw α (ab) = pw α a * pw α b` on a multiplicatively closed `S ∋ 1` -/
theorem powRule_ok (P : Params 𝕜) (S : Set 𝕜) (pw : Rat → 𝕜 → 𝕜) (α : Rat) (alg : Alg)
    (h1 : (1 : 𝕜) ∈ S) (hf1 : pw α 1 = 1) (hSmul : ∀ a ∈ S, ∀ b ∈ S, a * b ∈ S)
    (hmul : ∀ a ∈ S, ∀ b ∈ S, pw α (a * b) = pw α a * pw α b) (A : Op 𝕜)
    (h : (powRule pw α alg A).Sound P S (pw α)) :
    MatFunOK S (pw α) A ((powRule pw α alg A).toOp P) :=
  powGo_ok P S pw α alg h1 hf1 hSmul hmul (sizeOf A) A A (Nat.le_refl _) rfl rfl rfl h

end Unary
