import ColaVerif.Lemmas.InvNodes

/-!
# The solver objects `inv` builds carry the caller's options (C06, round 3)

`inv(A, CG(tol, max_iters))` / `inv(A, GMRES(…))` wrap THE GIVEN algorithm object in
`IterativeOperatorWInfo`; `inv(A, Auto(**d))` builds `CG(**d)` / `GMRES(**d)` on the large side of
the switch (inv.py:85, 89).  `InvOp.solvers B` lists the solver objects inside a result;
`invRule_solvers`: every one of them is a CG or GMRES object whose `tol` / `max_iters` are exactly
those requested by the caller's algorithm object (`Alg.requested`), at every depth of the tree
(the class rules of Product / Kronecker / BlockDiag pass `alg` on unchanged).
-/

namespace Inv
variable {R : Type} [CommRing R] [StarRing R] [DecidableEq R]

/-- `a` is a solver object built for the caller's `alg`: a CG / GMRES object carrying exactly the
requested options; the caller's own object when `alg` is not `Auto` -/
def SolverFor (alg a : Alg) : Prop :=
  (a.isCG = true ∨ a.isGMRES = true) ∧ a.kopts = alg.requested ∧ (alg.isAuto = false → a = alg)

theorem algRule_solvers (E : Ext R) (alg : Alg) (A : Op R) (B : InvOp R)
    (hB : algRule E alg A = .ok B) : ∀ a ∈ B.solvers, SolverFor alg a := by
  unfold algRule at hB
  cases alg with
  | auto d =>
    cases hp : A.isa .psd <;> by_cases hn : A.rows * A.cols ≤ 1000000 <;>
      simp [effAlg, autoChoice, hp, hn] at hB <;> subst hB <;>
      simp [InvOp.solvers, SolverFor, Alg.isCG, Alg.isGMRES, Alg.kopts, Alg.requested, Alg.isAuto]
  | lu => simp only [effAlg] at hB; cases hB; simp [InvOp.solvers]
  | chol =>
    simp only [effAlg] at hB
    split at hB
    · cases hB; simp [InvOp.solvers]
    · cases hB
  | cg o =>
    simp only [effAlg] at hB
    split at hB
    · cases hB
      simp [InvOp.solvers, SolverFor, Alg.isCG, Alg.kopts, Alg.requested]
    · cases hB
  | gmres o =>
    simp only [effAlg] at hB
    cases hB
    simp [InvOp.solvers, SolverFor, Alg.isGMRES, Alg.kopts, Alg.requested]
  | other =>
    simp only [effAlg] at hB
    split at hB
    · cases hB; simp [InvOp.solvers]
    · cases hB

omit [CommRing R] [StarRing R] [DecidableEq R] in
theorem solvers_of_forall₂ {P : Alg → Prop} {Ms : List (Op R)} {l : List (InvOp R)}
    {f : Op R → Except String (InvOp R)}
    (hf : List.Forall₂ (fun M B => f M = .ok B) Ms l)
    (ih : ∀ M ∈ Ms, ∀ B, f M = .ok B → ∀ a ∈ B.solvers, P a) :
    ∀ B ∈ l, ∀ a ∈ B.solvers, P a := by
  induction hf with
  | nil => intro B hB; cases hB
  | cons hd _ ih' =>
    intro B hB
    rcases List.mem_cons.mp hB with rfl | hB
    · exact ih _ List.mem_cons_self _ hd
    · exact ih' (fun M hM => ih M (List.mem_cons_of_mem _ hM)) B hB

theorem invAux_solvers (E : Ext R) (alg : Alg) : ∀ (cur top : Op R) (B : InvOp R),
    invAux E alg top cur = .ok B → ∀ a ∈ B.solvers, SolverFor alg a
  | .annot _ A, top, B, h => by rw [invAux] at h; exact invAux_solvers E alg A top B h
  | .eye .., _, B, h => by rw [invAux] at h; cases h; simp [InvOp.solvers]
  | .scalar .., _, B, h => by rw [invAux] at h; cases h; simp [InvOp.solvers]
  | .perm .., _, B, h => by rw [invAux] at h; cases h; simp [InvOp.solvers]
  | .diag .., _, B, h => by rw [invAux] at h; cases h; simp [InvOp.solvers]
  | .tri .., _, B, h => by rw [invAux] at h; cases h; simp [InvOp.solvers]
  | .prod Ms, top, B, h => by
    rw [invAux] at h
    split at h
    · cases hs : sequence (Ms.map (fun M => invAux E alg M M)) with
      | error e => rw [hs] at h; simp [Except.map] at h
      | ok l =>
        rw [hs] at h
        simp only [Except.map] at h
        cases h
        have hall := solvers_of_forall₂ (P := SolverFor alg) (sequence_ok _ Ms l hs)
          (fun M hM B hB => invAux_solvers E alg M M B hB)
        intro a ha
        simp only [InvOp.solvers, List.mem_flatten, List.mem_map, List.mem_reverse] at ha
        obtain ⟨_, ⟨B, hB, rfl⟩, ha⟩ := ha
        exact hall B hB a ha
    · exact algRule_solvers E alg top B h
  | .kron Ms, top, B, h => by
    rw [invAux] at h
    cases hs : sequence (Ms.map (fun M => invAux E alg M M)) with
    | error e => rw [hs] at h; simp [Except.map] at h
    | ok l =>
      rw [hs] at h
      simp only [Except.map] at h
      cases h
      have hall := solvers_of_forall₂ (P := SolverFor alg) (sequence_ok _ Ms l hs)
        (fun M hM B hB => invAux_solvers E alg M M B hB)
      intro a ha
      simp only [InvOp.solvers, List.mem_flatten, List.mem_map] at ha
      obtain ⟨_, ⟨B, hB, rfl⟩, ha⟩ := ha
      exact hall B hB a ha
  | .bdiag Ms mults, top, B, h => by
    rw [invAux] at h
    cases hs : sequence (Ms.map (fun M => invAux E alg M M)) with
    | error e => rw [hs] at h; simp [Except.map] at h
    | ok l =>
      rw [hs] at h
      simp only [Except.map] at h
      cases h
      have hall := solvers_of_forall₂ (P := SolverFor alg) (sequence_ok _ Ms l hs)
        (fun M hM B hB => invAux_solvers E alg M M B hB)
      intro a ha
      simp only [InvOp.solvers, List.mem_flatten, List.mem_map] at ha
      obtain ⟨_, ⟨B, hB, rfl⟩, ha⟩ := ha
      exact hall B hB a ha
  | .dense .., top, B, h => by rw [invAux] at h; exact algRule_solvers E alg top B h
  | .sparse .., top, B, h => by rw [invAux] at h; exact algRule_solvers E alg top B h
  | .sum _, top, B, h => by rw [invAux] at h; exact algRule_solvers E alg top B h
  | .kronsum _, top, B, h => by rw [invAux] at h; exact algRule_solvers E alg top B h
  | .tridiag .., top, B, h => by rw [invAux] at h; exact algRule_solvers E alg top B h
  | .transpose _, top, B, h => by rw [invAux] at h; exact algRule_solvers E alg top B h
  | .adjoint _, top, B, h => by rw [invAux] at h; exact algRule_solvers E alg top B h
  | .sliced .., top, B, h => by rw [invAux] at h; exact algRule_solvers E alg top B h
  | .concat .., top, B, h => by rw [invAux] at h; exact algRule_solvers E alg top B h
  | .house .., top, B, h => by rw [invAux] at h; exact algRule_solvers E alg top B h
  | .generic _, top, B, h => by rw [invAux] at h; exact algRule_solvers E alg top B h
termination_by cur => sizeOf cur
decreasing_by
  all_goals simp_wf
  all_goals first
    | omega
    | (have := List.sizeOf_lt_of_mem hM; omega)

/-- every solver object inside `inv(A, alg)` carries the options requested by `alg` -/
theorem invRule_solvers (E : Ext R) (alg : Alg) (A : Op R) (B : InvOp R)
    (hB : invRule E alg A = .ok B) : ∀ a ∈ B.solvers, SolverFor alg a :=
  invAux_solvers E alg A A B hB

end Inv
