import ColaVerif.Lemmas.DiagTraceRules

/-!
# C08: soundness of the dispatch rules of `diag` and `trace`

* `Op.genericDiag_sound` — the generic `Auto` / `Exact` rules (the probing loop);
* `Op.diagCode_sound` — every rule of `diag` (Dense / Triangular, Identity, Diagonal, ScalarMul, Sum,
  BlockDiag with multiplicities, Kronecker, KronSum, annotation wrappers, generic), by recursion
  over the tree: a returned array IS the `k`-th diagonal of the represented matrix (in particular
  it has the length `n - |k|`); every other outcome is a refusal;
* `Op.kron_trace_list` — `trace(M₁ ⊗ … ⊗ M_k) = Π trace(M_i)` from the entry formula;
* `Op.traceCode_sound` — every rule of `trace`.
Hypothesis: `Good A` (C01).  The `BlockDiag` / `Kronecker` rules refuse non-square members (repaired in /repo).
-/

open Finset

namespace Op
variable {R : Type} [CommRing R] [StarRing R] [DecidableEq R]

omit [CommRing R] [StarRing R] [DecidableEq R] in
theorem npDiag_square (n : Nat) (a : MatF R) (k : Int) : npDiag n n a k = diagK a n k := by
  unfold npDiag diagK
  by_cases hk : 0 ≤ k
  · simp only [if_pos hk]
    have : min n (n - k.toNat) = n - k.natAbs := by omega
    rw [this]
  · simp only [if_neg hk]
    have : min (n - k.natAbs) n = n - k.natAbs := by omega
    rw [this]

omit [CommRing R] [StarRing R] [DecidableEq R] in
theorem diagK_zero (D : MatF R) (n : Nat) : diagK D n 0 = (List.range n).map (fun t => D t t) := by
  simp [diagK]

omit [StarRing R] [DecidableEq R] in
/-- off-diagonals of a diagonal matrix are zero -/
theorem diagK_offdiag (D : MatF R) (n : Nat) (k : Int) (hk : k ≠ 0)
    (hD : ∀ i j, i ≠ j → D i j = 0) : diagK D n k = List.replicate (n - k.natAbs) 0 := by
  unfold diagK
  have e : List.replicate (n - k.natAbs) (0 : R) = (List.range (n - k.natAbs)).map (fun _ => (0 : R)) := by
    simp
  rw [e]
  apply List.map_congr_left
  intro t _
  by_cases h0 : 0 ≤ k
  · rw [if_pos h0, hD _ _ (by omega)]
  · rw [if_neg h0, hD _ _ (by omega)]

omit [StarRing R] [DecidableEq R] in
theorem npZeros_ok (n : Nat) (k : Int) (d : List R) (h : npZeros n k = .ok d) :
    d = List.replicate (n - k.natAbs) 0 := by
  unfold npZeros at h
  split at h
  · simpa using h.symm
  · simp at h

/-- the generic rules return the true diagonal or refuse -/
theorem genericDiag_sound (bs0 : Nat) (hbs : 0 < bs0) (alg : Alg) (A : Op R) (hg : Good A)
    (k : Int) (d : List R) (h : genericDiag bs0 alg A k = .ok d) :
    d = diagK A.den.f A.rows k := by
  unfold genericDiag at h
  split at h
  · simp at h
  · split at h
    · simp at h
    · rename_i hsq
      split at h
      · simp at h
      · simp only [Except.ok.injEq] at h
        rw [← h]
        exact exactDiag_eq bs0 hbs A hg (by simpa using hsq) k

end Op

namespace Op
variable {R : Type} [CommRing R] [StarRing R] [DecidableEq R]

omit [CommRing R] [StarRing R] [DecidableEq R] in
theorem any_false_members {f : Op R → Bool} {Ms : List (Op R)} (h : (Ms.map f).any id = false) :
    ∀ M ∈ Ms, f M = false := by
  intro M hM
  rw [List.any_eq_false] at h
  have := h _ (List.mem_map.mpr ⟨M, hM, rfl⟩)
  simpa using this

/-- the per-member induction hypothesis in the form the list lemmas use (k = 0) -/
def DiagIH (bs0 : Nat) (alg : Alg) (k : Int) (M : Op R) : Prop :=
  ∀ d, diagCode bs0 alg M k = .ok d → d = diagK M.den.f M.rows k

theorem diagCode_sound (bs0 : Nat) (hbs : 0 < bs0) (alg : Alg) :
    ∀ (A : Op R), Good A → A.rows = A.cols →
      ∀ (k : Int), DiagIH bs0 alg k A
  | dense dt r c a, _, hsq, k => by
    intro d h
    simp only [rows, cols] at hsq
    subst hsq
    simp only [diagCode, Except.ok.injEq] at h
    rw [← h, npDiag_square]
    simp [den, rows]
  | tri dt r c l a, _, hsq, k => by
    intro d h
    simp only [rows, cols] at hsq
    subst hsq
    simp only [diagCode, Except.ok.injEq] at h
    rw [← h, npDiag_square]
    simp [den, rows]
  | eye dt n, _, _, k => by
    intro d h
    simp only [diagCode] at h
    simp only [den, rows, MatV.of_f]
    by_cases hk : k = 0
    · subst hk
      simp only [if_true, Except.ok.injEq] at h
      rw [← h, diagK_zero]
      simp [eyeM]
    · rw [if_neg hk] at h
      rw [npZeros_ok n k d h, diagK_offdiag _ n k hk]
      intro i j hij
      simp [eyeM, hij]
  | diag dt n v, _, _, k => by
    intro d h
    simp only [diagCode] at h
    simp only [den, rows, MatV.of_f]
    by_cases hk : k = 0
    · subst hk
      simp only [if_true, Except.ok.injEq] at h
      rw [← h, diagK_zero]
      simp [diagM]
    · rw [if_neg hk] at h
      rw [npZeros_ok n k d h, diagK_offdiag _ n k hk]
      intro i j hij
      simp [diagM, hij]
  | scalar dt s n, _, _, k => by
    intro d h
    simp only [diagCode] at h
    simp only [den, rows, MatV.of_f]
    by_cases hk : k = 0
    · subst hk
      simp only [if_true, bind, Except.bind, pure, Except.pure, Except.ok.injEq] at h
      rw [← h, diagK_zero]
      simp
    · rw [if_neg hk] at h
      cases hz : npZeros (R := R) n k with
      | error e => simp [hz, bind, Except.bind] at h
      | ok e =>
        simp only [hz, bind, Except.bind, pure, Except.pure, Except.ok.injEq] at h
        rw [← h, npZeros_ok n k e hz, diagK_offdiag _ n k hk]
        · simp
        · intro i j hij
          simp [hij]
  | sum Ms, hg, hsq, k =>
    have ih : ∀ M ∈ Ms, M.rows = M.cols → DiagIH bs0 alg k M := fun M hM hs =>
      diagCode_sound bs0 hbs alg M (hg.sum_mem M hM) hs k
    by
    intro d h
    rw [diagCode] at h
    have hshape := sum_shapes Ms hg.wf
    have hmem : ∀ M ∈ Ms, ∀ d', diagCode bs0 alg M k = .ok d' →
        d' = (List.range ((sum Ms).rows - k.natAbs)).map
          (fun t => if 0 ≤ k then M.den.f t (t + k.toNat) else M.den.f (t + k.natAbs) t) := by
      intro M hM d' hd'
      have := ih M hM (by rw [(hshape M hM).1, (hshape M hM).2]; exact hsq) d' hd'
      rw [this, diagK, (hshape M hM).1]
    rw [sumFold_ok _ _ _ Ms d h hmem, diagK]
    apply List.map_congr_left
    intro t _
    rw [den]
    simp only [forceV_f]
    by_cases h0 : 0 ≤ k
    · simp only [if_pos h0, foldr_addM_apply, List.map_map, Function.comp_def]
    · simp only [if_neg h0, foldr_addM_apply, List.map_map, Function.comp_def]
  | annot a A, hg, hsq, k => by
    intro d h
    rw [diagCode] at h
    have := diagCode_sound bs0 hbs alg A hg.annot_child (by simpa only [rows, cols] using hsq) k d h
    rw [this]
    simp only [den, rows]
  | sparse dt r c e, hg, _, k => by
    intro d h
    rw [diagCode] at h
    · exact genericDiag_sound bs0 hbs alg _ hg k d h
    all_goals (intros; contradiction)
  | prod Ms, hg, _, k => by
    intro d h
    rw [diagCode] at h
    · exact genericDiag_sound bs0 hbs alg _ hg k d h
    all_goals (intros; contradiction)
  | tridiag dt n al be ga, hg, _, k => by
    intro d h
    rw [diagCode] at h
    · exact genericDiag_sound bs0 hbs alg _ hg k d h
    all_goals (intros; contradiction)
  | transpose A, hg, _, k => by
    intro d h
    rw [diagCode] at h
    · exact genericDiag_sound bs0 hbs alg _ hg k d h
    all_goals (intros; contradiction)
  | adjoint A, hg, _, k => by
    intro d h
    rw [diagCode] at h
    · exact genericDiag_sound bs0 hbs alg _ hg k d h
    all_goals (intros; contradiction)
  | sliced A s0 s1, hg, _, k => by
    intro d h
    rw [diagCode] at h
    · exact genericDiag_sound bs0 hbs alg _ hg k d h
    all_goals (intros; contradiction)
  | perm dt p, hg, _, k => by
    intro d h
    rw [diagCode] at h
    · exact genericDiag_sound bs0 hbs alg _ hg k d h
    all_goals (intros; contradiction)
  | concat ax Ms, hg, _, k => by
    intro d h
    rw [diagCode] at h
    · exact genericDiag_sound bs0 hbs alg _ hg k d h
    all_goals (intros; contradiction)
  | house dt n v beta, hg, _, k => by
    intro d h
    rw [diagCode] at h
    · exact genericDiag_sound bs0 hbs alg _ hg k d h
    all_goals (intros; contradiction)
  | generic A, hg, _, k => by
    intro d h
    rw [diagCode] at h
    · exact genericDiag_sound bs0 hbs alg _ hg k d h
    all_goals (intros; contradiction)
  | kron Ms, hg, hsq, k =>
    have ih : ∀ M ∈ Ms, M.rows = M.cols → DiagIH bs0 alg k M := fun M hM hs =>
      diagCode_sound bs0 hbs alg M (hg.kron_mem M hM) hs k
    by
    intro d h
    rw [diagCode] at h
    by_cases hk : k = 0
    · subst hk
      simp only [ne_eq, not_true_eq_false, if_false] at h
      split at h
      · simp at h
      rename_i hns
      rw [Bool.not_eq_true] at hns
      have hsqM : ∀ M ∈ Ms, M.rows = M.cols := by
        intro M hM
        have := any_false_members (f := fun M => decide (M.rows ≠ M.cols)) hns M hM
        simpa using this
      cases hs : dtSeqE (Ms.map (fun M => diagCode bs0 alg M 0)) with
      | error e => simp [hs, bind, Except.bind] at h
      | ok ds =>
        simp only [hs, bind, Except.bind, pure, Except.pure, Except.ok.injEq] at h
        have hds : ds = Ms.map dlist :=
          dtSeqE_map_ok _ dlist Ms ds hs (fun M hM d' hd' => by
            rw [ih M hM (hsqM M hM) d' hd', diagK_zero]; rfl)
        rw [← h, hds, kron_diag_list Ms hsqM, diagK_zero]
        simp only [rows]
        apply List.map_congr_left
        intro t _
        rw [den]
        simp only [forceV_f]
        rfl
    · simp [hk] at h
  | kronsum Ms, hg, hsq, k =>
    have ih : ∀ M ∈ Ms, M.rows = M.cols → DiagIH bs0 alg k M := fun M hM hs =>
      diagCode_sound bs0 hbs alg M (hg.kronsum_mem M hM) hs k
    by
    intro d h
    rw [diagCode] at h
    have hsqM : ∀ M ∈ Ms, M.rows = M.cols := kronsum_square Ms hg.wf
    by_cases hk : k = 0
    · subst hk
      simp only [ne_eq, not_true_eq_false, if_false] at h
      cases hs : dtSeqE (Ms.map (fun M => diagCode bs0 alg M 0)) with
      | error e => simp [hs, bind, Except.bind] at h
      | ok ds =>
        simp only [hs, bind, Except.bind, pure, Except.pure, Except.ok.injEq] at h
        have hds : ds = Ms.map dlist :=
          dtSeqE_map_ok _ dlist Ms ds hs (fun M hM d' hd' => by
            rw [ih M hM (hsqM M hM) d' hd', diagK_zero]; rfl)
        rw [← h, hds, kronsum_diag_list Ms hsqM, diagK_zero]
        simp only [rows]
        apply List.map_congr_left
        intro t _
        rw [den]
        simp only [forceV_f]
        rfl
    · simp [hk] at h
  | bdiag Ms mults, hg, hsq, k =>
    have ih : ∀ M ∈ Ms, M.rows = M.cols → DiagIH bs0 alg k M := fun M hM hs =>
      diagCode_sound bs0 hbs alg M (hg.bdiag_mem M hM) hs k
    by
    intro d h
    rw [diagCode] at h
    by_cases hk : k = 0
    · subst hk
      simp only [ne_eq, not_true_eq_false, if_false] at h
      split at h
      · simp at h
      rename_i hns
      rw [Bool.not_eq_true] at hns
      have hsqM : ∀ M ∈ Ms, M.rows = M.cols := by
        intro M hM
        have := any_false_members (f := fun M => decide (M.rows ≠ M.cols)) hns M hM
        simpa using this
      cases hs : dtSeqE (Ms.map (fun M => diagCode bs0 alg M 0)) with
      | error e => simp [hs, bind, Except.bind] at h
      | ok ds =>
        simp only [hs, bind, Except.bind] at h
        have hds : ds = Ms.map dlist :=
          dtSeqE_map_ok _ dlist Ms ds hs (fun M hM d' hd' => by
            rw [ih M hM (hsqM M hM) d' hd', diagK_zero]; rfl)
        split at h
        · simp at h
        · simp only [pure, Except.pure, Except.ok.injEq] at h
          rw [← h, hds, bdiag_diag_list Ms mults hsqM, diagK_zero]
          simp only [rows]
          apply List.map_congr_left
          intro t _
          rw [den]
          simp only [forceV_f]
          rfl
    · simp [hk] at h
termination_by A => sizeOf A

end Op

namespace Op
variable {R : Type} [CommRing R] [StarRing R] [DecidableEq R]

/-! ## trace -/

omit [StarRing R] [DecidableEq R] in
theorem traceSpec_eq_sum (D : MatF R) (n : Nat) :
    traceSpec D n = ((List.range n).map (fun t => D t t)).sum := by
  rw [traceSpec, sumTo_eq, list_sum_range_map]

omit [StarRing R] [DecidableEq R] in
theorem traceSpec_eq_diagK_sum (D : MatF R) (n : Nat) : traceSpec D n = (diagK D n 0).sum := by
  rw [traceSpec_eq_sum, diagK_zero]

omit [StarRing R] [DecidableEq R] in
/-- the entries of an outer product sum to the product of the sums -/
theorem outerProd_sum : ∀ (ds : List (List R)), (outerProd ds).sum = (ds.map List.sum).prod
  | [] => by simp [outerProd]
  | d :: ds => by
    simp only [outerProd, List.map_cons, List.prod_cons, ← outerProd_sum ds]
    have hmul : ∀ (x : R) (l : List R), (l.map (fun y => x * y)).sum = x * l.sum := by
      intro x l
      induction l with
      | nil => simp
      | cons y ys ihy => simp [ihy, mul_add]
    induction d with
    | nil => simp
    | cons x xs ih =>
      simp only [List.flatMap_cons, List.sum_append, List.sum_cons, ih, hmul, add_mul]

omit [StarRing R] [DecidableEq R] in
theorem foldl_mul_eq (l : List R) : ∀ (t : R), l.foldl (· * ·) t = t * l.prod := by
  induction l with
  | nil => intro t; simp
  | cons x xs ih => intro t; rw [List.foldl_cons, ih, List.prod_cons, mul_assoc]

omit [DecidableEq R] in
/-- **`trace(M₁ ⊗ … ⊗ M_k) = Π trace(M_i)`** for square factors, from the entry formula -/
theorem kron_trace_list (Ms : List (Op R)) (hsq : ∀ M ∈ Ms, M.rows = M.cols) :
    (Ms.map (fun M => traceSpec M.den.f M.rows)).prod =
      traceSpec (kronDen (Ms.map facDen)) (Ms.map (·.rows)).prod := by
  rw [traceSpec_eq_sum, ← kron_diag_list Ms hsq, outerProd_sum, List.map_map]
  congr 1
  apply List.map_congr_left
  intro M _
  rw [traceSpec_eq_sum]
  rfl

/-- `trace(A, alg)`: a returned value is the trace of the represented matrix (and the operator is
square); anything else is a refusal -/
theorem traceCode_sound (bs0 : Nat) (hbs : 0 < bs0) (alg : Alg) :
    ∀ (A : Op R), Good A →
      ∀ (t : R), traceCode bs0 alg A = .ok t → A.rows = A.cols ∧ t = traceSpec A.den.f A.rows
  | kron Ms, hg =>
    have ih : ∀ M ∈ Ms, ∀ t, traceCode bs0 alg M = .ok t → M.rows = M.cols ∧ t = traceSpec M.den.f M.rows :=
      fun M hM => traceCode_sound bs0 hbs alg M (hg.kron_mem M hM)
    by
    intro t h
    rw [traceCode] at h
    cases hs : dtSeqE (Ms.map (fun M => traceCode bs0 alg M)) with
    | error e => simp [hs, bind, Except.bind] at h
    | ok ts =>
      simp only [hs, bind, Except.bind] at h
      have hmap := dtSeqE_ok _ _ hs
      have hsqM : ∀ M ∈ Ms, M.rows = M.cols := by
        intro M hM
        have hmem : traceCode bs0 alg M ∈ Ms.map (fun M => traceCode bs0 alg M) :=
          List.mem_map.mpr ⟨M, hM, rfl⟩
        rw [hmap, List.mem_map] at hmem
        obtain ⟨t', _, ht'⟩ := hmem
        exact (ih M hM t' ht'.symm).1
      have hts : ts = Ms.map (fun M => traceSpec M.den.f M.rows) :=
        dtSeqE_map_ok _ _ Ms ts hs (fun M hM t' ht' => (ih M hM t' ht').2)
      have hrc : (kron Ms).rows = (kron Ms).cols := by
        simp only [rows, cols, map_cols_eq_rows Ms hsqM]
      refine ⟨hrc, ?_⟩
      cases ts with
      | nil => simp at h
      | cons t0 ts' =>
        simp only [pure, Except.pure, Except.ok.injEq] at h
        rw [← h, foldl_mul_eq, ← List.prod_cons, hts, kron_trace_list Ms hsqM]
        simp only [rows]
        rw [traceSpec_eq_sum, traceSpec_eq_sum]
        congr 1
        apply List.map_congr_left
        intro i _
        rw [den]
        simp only [forceV_f]
        rfl
  | annot a A, hg => by
    intro t h
    rw [traceCode] at h
    have := traceCode_sound bs0 hbs alg A hg.annot_child t h
    simpa only [rows, cols, den] using this
  | dense dt r c a, hg => by
    intro t h
    rw [traceCode] at h
    · split at h
      · simp at h
      · rename_i hsq
        have hsq' : (dense dt r c a : Op R).rows = (dense dt r c a : Op R).cols := by simpa using hsq
        cases hd : diagCode bs0 alg (dense dt r c a : Op R) 0 with
        | error e => simp [hd, bind, Except.bind] at h
        | ok d =>
          simp only [hd, bind, Except.bind, pure, Except.pure, Except.ok.injEq] at h
          refine ⟨hsq', ?_⟩
          rw [← h, diagCode_sound bs0 hbs alg _ hg hsq' 0 d hd, traceSpec_eq_diagK_sum]
    all_goals (intros; contradiction)
  | tri dt r c l a, hg => by
    intro t h
    rw [traceCode] at h
    · split at h
      · simp at h
      · rename_i hsq
        have hsq' : (tri dt r c l a : Op R).rows = (tri dt r c l a : Op R).cols := by simpa using hsq
        cases hd : diagCode bs0 alg (tri dt r c l a : Op R) 0 with
        | error e => simp [hd, bind, Except.bind] at h
        | ok d =>
          simp only [hd, bind, Except.bind, pure, Except.pure, Except.ok.injEq] at h
          refine ⟨hsq', ?_⟩
          rw [← h, diagCode_sound bs0 hbs alg _ hg hsq' 0 d hd, traceSpec_eq_diagK_sum]
    all_goals (intros; contradiction)
  | sparse dt r c e, hg => by
    intro t h
    rw [traceCode] at h
    · split at h
      · simp at h
      · rename_i hsq
        have hsq' : (sparse dt r c e : Op R).rows = (sparse dt r c e : Op R).cols := by simpa using hsq
        cases hd : diagCode bs0 alg (sparse dt r c e : Op R) 0 with
        | error e => simp [hd, bind, Except.bind] at h
        | ok d =>
          simp only [hd, bind, Except.bind, pure, Except.pure, Except.ok.injEq] at h
          refine ⟨hsq', ?_⟩
          rw [← h, diagCode_sound bs0 hbs alg _ hg hsq' 0 d hd, traceSpec_eq_diagK_sum]
    all_goals (intros; contradiction)
  | scalar dt s n, hg => by
    intro t h
    rw [traceCode] at h
    · split at h
      · simp at h
      · rename_i hsq
        have hsq' : (scalar dt s n : Op R).rows = (scalar dt s n : Op R).cols := by simpa using hsq
        cases hd : diagCode bs0 alg (scalar dt s n : Op R) 0 with
        | error e => simp [hd, bind, Except.bind] at h
        | ok d =>
          simp only [hd, bind, Except.bind, pure, Except.pure, Except.ok.injEq] at h
          refine ⟨hsq', ?_⟩
          rw [← h, diagCode_sound bs0 hbs alg _ hg hsq' 0 d hd, traceSpec_eq_diagK_sum]
    all_goals (intros; contradiction)
  | eye dt n, hg => by
    intro t h
    rw [traceCode] at h
    · split at h
      · simp at h
      · rename_i hsq
        have hsq' : (eye dt n : Op R).rows = (eye dt n : Op R).cols := by simpa using hsq
        cases hd : diagCode bs0 alg (eye dt n : Op R) 0 with
        | error e => simp [hd, bind, Except.bind] at h
        | ok d =>
          simp only [hd, bind, Except.bind, pure, Except.pure, Except.ok.injEq] at h
          refine ⟨hsq', ?_⟩
          rw [← h, diagCode_sound bs0 hbs alg _ hg hsq' 0 d hd, traceSpec_eq_diagK_sum]
    all_goals (intros; contradiction)
  | prod Ms, hg => by
    intro t h
    rw [traceCode] at h
    · split at h
      · simp at h
      · rename_i hsq
        have hsq' : (prod Ms : Op R).rows = (prod Ms : Op R).cols := by simpa using hsq
        cases hd : diagCode bs0 alg (prod Ms : Op R) 0 with
        | error e => simp [hd, bind, Except.bind] at h
        | ok d =>
          simp only [hd, bind, Except.bind, pure, Except.pure, Except.ok.injEq] at h
          refine ⟨hsq', ?_⟩
          rw [← h, diagCode_sound bs0 hbs alg _ hg hsq' 0 d hd, traceSpec_eq_diagK_sum]
    all_goals (intros; contradiction)
  | sum Ms, hg => by
    intro t h
    rw [traceCode] at h
    · split at h
      · simp at h
      · rename_i hsq
        have hsq' : (sum Ms : Op R).rows = (sum Ms : Op R).cols := by simpa using hsq
        cases hd : diagCode bs0 alg (sum Ms : Op R) 0 with
        | error e => simp [hd, bind, Except.bind] at h
        | ok d =>
          simp only [hd, bind, Except.bind, pure, Except.pure, Except.ok.injEq] at h
          refine ⟨hsq', ?_⟩
          rw [← h, diagCode_sound bs0 hbs alg _ hg hsq' 0 d hd, traceSpec_eq_diagK_sum]
    all_goals (intros; contradiction)
  | kronsum Ms, hg => by
    intro t h
    rw [traceCode] at h
    · split at h
      · simp at h
      · rename_i hsq
        have hsq' : (kronsum Ms : Op R).rows = (kronsum Ms : Op R).cols := by simpa using hsq
        cases hd : diagCode bs0 alg (kronsum Ms : Op R) 0 with
        | error e => simp [hd, bind, Except.bind] at h
        | ok d =>
          simp only [hd, bind, Except.bind, pure, Except.pure, Except.ok.injEq] at h
          refine ⟨hsq', ?_⟩
          rw [← h, diagCode_sound bs0 hbs alg _ hg hsq' 0 d hd, traceSpec_eq_diagK_sum]
    all_goals (intros; contradiction)
  | bdiag Ms mults, hg => by
    intro t h
    rw [traceCode] at h
    · split at h
      · simp at h
      · rename_i hsq
        have hsq' : (bdiag Ms mults : Op R).rows = (bdiag Ms mults : Op R).cols := by simpa using hsq
        cases hd : diagCode bs0 alg (bdiag Ms mults : Op R) 0 with
        | error e => simp [hd, bind, Except.bind] at h
        | ok d =>
          simp only [hd, bind, Except.bind, pure, Except.pure, Except.ok.injEq] at h
          refine ⟨hsq', ?_⟩
          rw [← h, diagCode_sound bs0 hbs alg _ hg hsq' 0 d hd, traceSpec_eq_diagK_sum]
    all_goals (intros; contradiction)
  | diag dt n v, hg => by
    intro t h
    rw [traceCode] at h
    · split at h
      · simp at h
      · rename_i hsq
        have hsq' : (diag dt n v : Op R).rows = (diag dt n v : Op R).cols := by simpa using hsq
        cases hd : diagCode bs0 alg (diag dt n v : Op R) 0 with
        | error e => simp [hd, bind, Except.bind] at h
        | ok d =>
          simp only [hd, bind, Except.bind, pure, Except.pure, Except.ok.injEq] at h
          refine ⟨hsq', ?_⟩
          rw [← h, diagCode_sound bs0 hbs alg _ hg hsq' 0 d hd, traceSpec_eq_diagK_sum]
    all_goals (intros; contradiction)
  | tridiag dt n al be ga, hg => by
    intro t h
    rw [traceCode] at h
    · split at h
      · simp at h
      · rename_i hsq
        have hsq' : (tridiag dt n al be ga : Op R).rows = (tridiag dt n al be ga : Op R).cols := by simpa using hsq
        cases hd : diagCode bs0 alg (tridiag dt n al be ga : Op R) 0 with
        | error e => simp [hd, bind, Except.bind] at h
        | ok d =>
          simp only [hd, bind, Except.bind, pure, Except.pure, Except.ok.injEq] at h
          refine ⟨hsq', ?_⟩
          rw [← h, diagCode_sound bs0 hbs alg _ hg hsq' 0 d hd, traceSpec_eq_diagK_sum]
    all_goals (intros; contradiction)
  | transpose A, hg => by
    intro t h
    rw [traceCode] at h
    · split at h
      · simp at h
      · rename_i hsq
        have hsq' : (transpose A : Op R).rows = (transpose A : Op R).cols := by simpa using hsq
        cases hd : diagCode bs0 alg (transpose A : Op R) 0 with
        | error e => simp [hd, bind, Except.bind] at h
        | ok d =>
          simp only [hd, bind, Except.bind, pure, Except.pure, Except.ok.injEq] at h
          refine ⟨hsq', ?_⟩
          rw [← h, diagCode_sound bs0 hbs alg _ hg hsq' 0 d hd, traceSpec_eq_diagK_sum]
    all_goals (intros; contradiction)
  | adjoint A, hg => by
    intro t h
    rw [traceCode] at h
    · split at h
      · simp at h
      · rename_i hsq
        have hsq' : (adjoint A : Op R).rows = (adjoint A : Op R).cols := by simpa using hsq
        cases hd : diagCode bs0 alg (adjoint A : Op R) 0 with
        | error e => simp [hd, bind, Except.bind] at h
        | ok d =>
          simp only [hd, bind, Except.bind, pure, Except.pure, Except.ok.injEq] at h
          refine ⟨hsq', ?_⟩
          rw [← h, diagCode_sound bs0 hbs alg _ hg hsq' 0 d hd, traceSpec_eq_diagK_sum]
    all_goals (intros; contradiction)
  | sliced A s0 s1, hg => by
    intro t h
    rw [traceCode] at h
    · split at h
      · simp at h
      · rename_i hsq
        have hsq' : (sliced A s0 s1 : Op R).rows = (sliced A s0 s1 : Op R).cols := by simpa using hsq
        cases hd : diagCode bs0 alg (sliced A s0 s1 : Op R) 0 with
        | error e => simp [hd, bind, Except.bind] at h
        | ok d =>
          simp only [hd, bind, Except.bind, pure, Except.pure, Except.ok.injEq] at h
          refine ⟨hsq', ?_⟩
          rw [← h, diagCode_sound bs0 hbs alg _ hg hsq' 0 d hd, traceSpec_eq_diagK_sum]
    all_goals (intros; contradiction)
  | perm dt p, hg => by
    intro t h
    rw [traceCode] at h
    · split at h
      · simp at h
      · rename_i hsq
        have hsq' : (perm dt p : Op R).rows = (perm dt p : Op R).cols := by simpa using hsq
        cases hd : diagCode bs0 alg (perm dt p : Op R) 0 with
        | error e => simp [hd, bind, Except.bind] at h
        | ok d =>
          simp only [hd, bind, Except.bind, pure, Except.pure, Except.ok.injEq] at h
          refine ⟨hsq', ?_⟩
          rw [← h, diagCode_sound bs0 hbs alg _ hg hsq' 0 d hd, traceSpec_eq_diagK_sum]
    all_goals (intros; contradiction)
  | concat ax Ms, hg => by
    intro t h
    rw [traceCode] at h
    · split at h
      · simp at h
      · rename_i hsq
        have hsq' : (concat ax Ms : Op R).rows = (concat ax Ms : Op R).cols := by simpa using hsq
        cases hd : diagCode bs0 alg (concat ax Ms : Op R) 0 with
        | error e => simp [hd, bind, Except.bind] at h
        | ok d =>
          simp only [hd, bind, Except.bind, pure, Except.pure, Except.ok.injEq] at h
          refine ⟨hsq', ?_⟩
          rw [← h, diagCode_sound bs0 hbs alg _ hg hsq' 0 d hd, traceSpec_eq_diagK_sum]
    all_goals (intros; contradiction)
  | house dt n v beta, hg => by
    intro t h
    rw [traceCode] at h
    · split at h
      · simp at h
      · rename_i hsq
        have hsq' : (house dt n v beta : Op R).rows = (house dt n v beta : Op R).cols := by simpa using hsq
        cases hd : diagCode bs0 alg (house dt n v beta : Op R) 0 with
        | error e => simp [hd, bind, Except.bind] at h
        | ok d =>
          simp only [hd, bind, Except.bind, pure, Except.pure, Except.ok.injEq] at h
          refine ⟨hsq', ?_⟩
          rw [← h, diagCode_sound bs0 hbs alg _ hg hsq' 0 d hd, traceSpec_eq_diagK_sum]
    all_goals (intros; contradiction)
  | generic A, hg => by
    intro t h
    rw [traceCode] at h
    · split at h
      · simp at h
      · rename_i hsq
        have hsq' : (generic A : Op R).rows = (generic A : Op R).cols := by simpa using hsq
        cases hd : diagCode bs0 alg (generic A : Op R) 0 with
        | error e => simp [hd, bind, Except.bind] at h
        | ok d =>
          simp only [hd, bind, Except.bind, pure, Except.pure, Except.ok.injEq] at h
          refine ⟨hsq', ?_⟩
          rw [← h, diagCode_sound bs0 hbs alg _ hg hsq' 0 d hd, traceSpec_eq_diagK_sum]
    all_goals (intros; contradiction)
termination_by A => sizeOf A

end Op
