import ColaVerif.Lemmas.Hess3

/-!
# Round 3: correctly ranged input conditions for "runs to the cap" and their witness on `Hess3`

`run_idx_eq_cap_of_input` (ArnoldiKrylov.lean) asked for the growth condition `tol/2 · d_i ≤ d_{i+1}` for every
`i < cap`.  Its proof only uses `i + 1 < cap`, and at `cap = n = dim E` the wider range is unsatisfiable (`d_n = 0`
because `K_n = E`, while the condition forces `d_n > 0`).  `run_idx_eq_cap_of_input_lt` has the range the proof
needs; `Hess3.krylovDist_vals` evaluates the distances of the 3 × 3 system (`1, 2, 6, 0`), so that the corrected
bundle is witnessed at full dimension.
-/

open scoped InnerProductSpace
open Finset

namespace Arnoldi

variable {𝕜 E : Type} [RCLike 𝕜] [NormedAddCommGroup E] [InnerProductSpace 𝕜 E]
variable (A : E →ₗ[𝕜] E) (M : Nat) (tol : ℝ) (v : E)

/-- **the stopping rule as a condition on the inputs, correct range**: a single start vector runs to the cap
`min max_iters n` when the Krylov distances `d_j` do not clip BEFORE the last step (`d_{i+1} ≥ (tol/2) d_i` for
`i + 1 < cap`) and never trigger the relative test (`d_k / d_{k-1} > tol · d_1 / d_0` for `1 ≤ k < cap`) -/
theorem run_idx_eq_cap_of_input_lt (n : Nat) (htol : 0 < tol) (hv : v ≠ 0)
    (hd : ∀ i, i + 1 < min M n → tol / 2 * krylovDist A v i ≤ krylovDist A v (i + 1))
    (hstop : ∀ k, 1 ≤ k → k < min M n →
      tol * krylovDist A v 1 * krylovDist A v (k - 1) < krylovDist A v k * krylovDist A v 0) :
    (runE A n M tol [v]).idx = min M n := by
  apply run_idx_eq_cap_of_large A M tol v n htol hv
  intro k hk1 hk
  have hkM : k ≤ M := le_trans (le_of_lt hk) (min_le_left _ _)
  have hunk : ∀ i, i < k → tol / 2 ≤ (colAt A M tol v k).beta i :=
    (noBreakdown_iff_krylovDist A M tol v htol hv k hkM).mpr (fun i hi => hd i (by omega))
  obtain ⟨K, rfl⟩ : ∃ K, k = K + 1 := ⟨k - 1, by omega⟩
  have e1 : krylovDist A v 1 = krylovDist A v 0 * (colAt A M tol v (K + 1)).beta 0 := by
    rw [krylovDist_succ A M tol v htol hv 0 (by omega) (fun i hi => by omega),
      beta_frozen A M tol v htol hv 1 (K + 1) (by omega) hkM 0 (by omega)]
  have e2 : krylovDist A v (K + 1) = krylovDist A v K * (colAt A M tol v (K + 1)).beta K :=
    krylovDist_succ A M tol v htol hv K hkM (fun i hi => hunk i (by omega))
  have h0 : 0 < krylovDist A v 0 := by rw [krylovDist_zero]; exact norm_pos_iff.mpr hv
  have hK : 0 < krylovDist A v K := by
    apply krylovDist_pos A M tol v htol hv K (by omega)
    intro i hi
    rw [← beta_frozen A M tol v htol hv K (K + 1) (by omega) hkM i hi]
    exact hunk i (by omega)
  have := hstop (K + 1) hk1 hk
  rw [Nat.add_sub_cancel, e1, e2] at this
  rw [Nat.add_sub_cancel]
  have hpos : 0 < krylovDist A v 0 * krylovDist A v K := mul_pos h0 hK
  have h' : (krylovDist A v 0 * krylovDist A v K) * (tol * (colAt A M tol v (K + 1)).beta 0) <
      (krylovDist A v 0 * krylovDist A v K) * (colAt A M tol v (K + 1)).beta K := by
    nlinarith [this]
  exact lt_of_mul_lt_mul_left h' (le_of_lt hpos)

/-- the strict clause `noClip` before the last of `n` steps, from the growth of the Krylov distances -/
theorem unclipped_before_last_of_input (htol : 0 < tol) (hv : v ≠ 0) (n : Nat) (hnM : n ≤ M)
    (hd : ∀ i, i + 1 < n → tol / 2 * krylovDist A v i ≤ krylovDist A v (i + 1)) :
    ∀ i, i + 1 < n → tol / 2 ≤ (colAt A M tol v n).beta i := by
  intro i hi
  rw [beta_frozen A M tol v htol hv (n - 1) n (by omega) hnM i (by omega)]
  exact (noBreakdown_iff_krylovDist A M tol v htol hv (n - 1) (by omega)).mpr
    (fun l hl => hd l (by omega)) i (by omega)

/-- the range of `run_idx_eq_cap_of_input` is too wide at full dimension: at `n = dim E ≤ max_iters` NO input
satisfies `tol/2 · d_i ≤ d_{i+1}` for all `i < n` (the last step of a full-dimensional run is an exact
breakdown: `β_{n-1} = 0 < tol/2`) -/
theorem wide_range_unsatisfiable [FiniteDimensional 𝕜 E] (htol : 0 < tol) (hv : v ≠ 0) (n : Nat)
    (dimE : Module.finrank 𝕜 E = n) (hn : 0 < n) (hnM : n ≤ M) :
    ¬ ∀ i, i < n → tol / 2 * krylovDist A v i ≤ krylovDist A v (i + 1) := by
  intro hd
  have hun := (noBreakdown_iff_krylovDist A M tol v htol hv n hnM).mpr hd
  have hcap := (inv_colAfter A M v tol hv htol n hnM).cap_column_zero dimE hn (fun i hi => hun i (by omega))
  have := hun (n - 1) (by omega)
  rw [hcap.2] at this
  linarith

end Arnoldi

namespace Hess3
open Arnoldi

/-- the Krylov distances of `A = [[1,1,0],[2,1,1],[0,3,1]]`, `v = e₀`: `d₀ … d₃ = 1, 2, 6, 0` -/
theorem krylovDist_vals :
    krylovDist A (e 0) 0 = 1 ∧ krylovDist A (e 0) 1 = 2 ∧ krylovDist A (e 0) 2 = 6 ∧
    krylovDist A (e 0) 3 = 0 := by
  have ht : (0 : ℝ) < 1 / 100 := by norm_num
  have ht4 : (1 / 100 : ℝ) ≤ 4 := by norm_num
  have hb : ∀ J, J ≤ 3 → ∀ i, i < 2 → i < J → (colAt A 3 (1 / 100) (e 0) J).beta i = bt i :=
    fun J hJ i hi hiJ => beta_any 3 (1 / 100) J hJ (by norm_num) ht ht4 i hi hiJ
  have hun : ∀ J, J ≤ 3 → ∀ i, i + 1 < J → (1 / 100 : ℝ) / 2 ≤ (colAt A 3 (1 / 100) (e 0) J).beta i := by
    intro J hJ i hi
    rw [hb J hJ i (by omega) (by omega)]
    unfold bt
    split <;> norm_num
  refine ⟨?_, ?_, ?_, ?_⟩
  · rw [krylovDist_zero, norm_e0]
  · rw [krylovDist_eq_prod A 3 (1 / 100) (e 0) ht e0_ne 1 (by norm_num) (hun 1 (by norm_num)), norm_e0,
      prod_range_one, hb 1 (by norm_num) 0 (by norm_num) (by norm_num)]
    simp [bt]
  · rw [krylovDist_eq_prod A 3 (1 / 100) (e 0) ht e0_ne 2 (by norm_num) (hun 2 (by norm_num)), norm_e0,
      prod_range_succ, prod_range_one, hb 2 (by norm_num) 0 (by norm_num) (by norm_num),
      hb 2 (by norm_num) 1 (by norm_num) (by norm_num)]
    simp [bt]; norm_num
  · rw [krylovDist_eq_prod A 3 (1 / 100) (e 0) ht e0_ne 3 (le_refl _) (hun 3 (le_refl _)), prod_range_succ,
      (colAt3 3 (1 / 100) (le_refl _) ht ht4).2.2]
    simp

end Hess3
