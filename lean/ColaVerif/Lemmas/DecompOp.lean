import ColaVerif.Model.Decomp
import ColaVerif.Lemmas.DecompMat
import ColaVerif.Lemmas.AnnotSound

/-!
# C11, operator level: the rules of `cholesky` / `plu` return factorisations of `den A`

* `Op.Contracts P pos` — the contracts of the numerical parameters (`x ** 0.5`, LAPACK `potrf`,
  `scipy.linalg.lu`).
* `Op.CholPre pos A`, `Op.PluPre A` — what the input has to satisfy where a rule reads it:
  Diagonal / ScalarMul entries are `pos` (positive reals) for `cholesky`; a node that falls back to
  the dense factorisation is `Good` (so that `to_dense` is the represented matrix, C01) and, for
  `cholesky`, Hermitian (`potrf` reads the lower triangle only).
* `Op.cholRule_ok`, `Op.pluRule_ok` — by recursion over the rules.
* `Op.cholRule_skel`, `Op.pluRule_skel` — the kind trees of the returned factors.
-/

set_option linter.unusedSectionVars false

open Matrix

namespace Op
variable {R : Type}

/-! ## list comprehensions -/

theorem collectOk_forall₂ {α : Type} : ∀ (l : List (Except String α)) (xs : List α),
    collectOk l = some xs → List.Forall₂ (fun r x => r = .ok x) l xs
  | [], xs, h => by
    simp only [collectOk, Option.some.injEq] at h
    subst h; exact List.Forall₂.nil
  | .ok x :: rest, xs, h => by
    simp only [collectOk, Option.map_eq_some_iff] at h
    obtain ⟨ys, hys, rfl⟩ := h
    exact List.Forall₂.cons rfl (collectOk_forall₂ rest ys hys)
  | .error _ :: _, xs, h => by simp [collectOk] at h

theorem seqE_ok {α : Type} {l : List (Except String α)} {xs : List α} (h : seqE l = .ok xs) :
    List.Forall₂ (fun r x => r = .ok x) l xs := by
  unfold seqE at h
  split at h
  · rename_i ys hys
    injection h with h
    subst h
    exact collectOk_forall₂ l ys hys
  · exact absurd h (by simp)

theorem seqE_map_ok {α β : Type} {f : α → Except String β} {l : List α} {xs : List β}
    (h : seqE (l.map f) = .ok xs) : List.Forall₂ (fun a x => f a = .ok x) l xs :=
  List.forall₂_map_left_iff.mp (seqE_ok h)

theorem forall₂_imp_mem {α β : Type} {S T : α → β → Prop} {l : List α} {l' : List β}
    (h : List.Forall₂ S l l') (imp : ∀ a ∈ l, ∀ b, S a b → T a b) : List.Forall₂ T l l' := by
  induction h with
  | nil => exact List.Forall₂.nil
  | cons hab _ ih =>
    exact List.Forall₂.cons (imp _ List.mem_cons_self _ hab)
      (ih (fun a ha b => imp a (List.mem_cons_of_mem _ ha) b))

theorem forall₂_getD {α β : Type} {S : α → β → Prop} (da : α) (db : β) :
    ∀ {l : List α} {l' : List β}, List.Forall₂ S l l' → ∀ i, i < l.length →
      S (l.getD i da) (l'.getD i db)
  | _, _, .nil, i, hi => by simp at hi
  | _, _, .cons hab _, 0, _ => by simpa using hab
  | _, _, .cons _ hrest, i + 1, hi => by
    simpa using forall₂_getD da db hrest i (by simpa using hi)

theorem sqrtVec_ok [Zero R] {P : DecompParams R} {dt : DType} {n : Nat} {d s : Nat → R}
    (h : sqrtVec P dt n d = .ok s) : ∀ i, i < n → P.sqrtS dt (d i) = .ok (s i) := by
  unfold sqrtVec at h
  split at h
  · rename_i xs hxs
    injection h with h
    subst h
    intro i hi
    have hf := seqE_map_ok hxs
    have := forall₂_getD (S := fun a x => P.sqrtS dt (d a) = Except.ok x) 0 0 hf i (by simpa using hi)
    simpa [List.getD_eq_getElem?_getD, hi] using this
  · exact absurd h (by simp)

/-! ## contracts of the parameters, preconditions of the rules -/

section
variable [CommRing R] [StarRing R]

/-- the matrix LAPACK `potrf` factorises: it reads the lower triangle only -/
def hermLower (A : MatF R) : MatF R := fun i j => if j ≤ i then A i j else star (A j i)

/-- Hermitian on the `n × n` window -/
def HermOn (n : Nat) (A : MatF R) : Prop := ∀ i j, i < n → j < n → A i j = star (A j i)

theorem hermLower_eqOn {n : Nat} {A : MatF R} (h : HermOn n A) : EqOn n n (hermLower A) A := by
  intro i j hi hj
  simp only [hermLower]
  split
  · rfl
  · exact (h i j hi hj).symm

theorem hermLower_congr {n : Nat} {A A' : MatF R} (h : EqOn n n A A') :
    EqOn n n (hermLower A) (hermLower A') := by
  intro i j hi hj
  simp only [hermLower]
  split
  · exact h i j hi hj
  · rw [h j i hj hi]

/-- contracts of the numerical parameters.  `pos` = "is a positive real number". -/
structure Contracts (P : DecompParams R) (pos : R → Prop) : Prop where
  /-- `x ** 0.5` is a square root whenever it is a number -/
  sqrt_sq : ∀ dt x s, P.sqrtS dt x = .ok s → s * s = x
  /-- the principal root of a positive real is real -/
  sqrt_pos : ∀ dt x s, pos x → P.sqrtS dt x = .ok s → star s = s
  /-- `potrf`: a lower-triangular `L` with `L Lᴴ` = the Hermitian matrix given by the lower
  triangle of the input -/
  chol : ∀ n A L, P.cholDense n A = some L →
    LowerTri n L ∧ EqOn n n (mmul n L (conjM (transposeM L))) (hermLower A)
  /-- `scipy.linalg.lu(a, p_indices=True)`: `a = L[p, :] @ U`, i.e. `Permutation(p) L U = a` -/
  lu : ∀ n A p L U, P.luDense n A = some (p, L, U) →
    p.length = n ∧ (∀ t ∈ p, t < n) ∧ p.Nodup ∧ LowerTri n L ∧ UpperTri n U ∧
      EqOn n n (mmul n (permDen p) (mmul n L U)) A

variable [DecidableEq R]

/-- what `cholesky` needs of its input, rule by rule -/
def CholPre (pos : R → Prop) : Op R → Prop
  | annot _ A => CholPre pos A
  | eye _ _ => True
  | diag _ n d => ∀ i, i < n → pos (d i)
  | scalar _ c _ => pos c
  | kron Ms => ∀ M ∈ Ms, CholPre pos M
  | bdiag Ms _ => ∀ M ∈ Ms, CholPre pos M
  | A => A.Good ∧ HermOn A.rows A.den.f

/-- what `plu` needs of its input: nodes that fall back to the dense LU are `Good` -/
def PluPre : Op R → Prop
  | annot _ A => PluPre A
  | eye _ _ => True
  | diag _ _ _ => True
  | scalar _ _ _ => True
  | kron Ms => ∀ M ∈ Ms, PluPre M
  | bdiag Ms _ => ∀ M ∈ Ms, PluPre M
  | A => A.Good

/-! ## the statements at one node -/

/-- `L` is a Cholesky factor of the (square) operator `A` -/
def CholOK (A L : Op R) : Prop :=
  A.cols = A.rows ∧ L.rows = A.rows ∧ L.cols = A.rows ∧ CholFact A.rows L.den.f A.den.f

/-- `F = (P, L, U)` is a PLU factorisation of the (square) operator `A` -/
def PluOK (A : Op R) (F : Op R × Op R × Op R) : Prop :=
  A.cols = A.rows ∧ (F.1.rows = A.rows ∧ F.1.cols = A.rows) ∧
    (F.2.1.rows = A.rows ∧ F.2.1.cols = A.rows) ∧ (F.2.2.rows = A.rows ∧ F.2.2.cols = A.rows) ∧
    PLUFact A.rows F.1.den.f F.2.1.den.f F.2.2.den.f A.den.f

/-! ## shapes and matrices of composite nodes, one member at a time -/

theorem kronDen_cons_kron2 (M : FacAct R) (Ms : List (FacAct R)) :
    kronDen (M :: Ms) = kron2 (Ms.map (·.r)).prod (Ms.map (·.c)).prod M.a (kronDen Ms) := by
  funext I J
  rw [kronDen_cons]
  rfl

theorem rows_kron_cons (M : Op R) (Ms : List (Op R)) :
    (kron (M :: Ms)).rows = M.rows * (kron Ms).rows := by
  simp only [Op.rows, List.map_cons, List.prod_cons]

theorem cols_kron_cons (M : Op R) (Ms : List (Op R)) :
    (kron (M :: Ms)).cols = M.cols * (kron Ms).cols := by
  simp only [Op.cols, List.map_cons, List.prod_cons]

theorem den_kron_cons (M : Op R) (Ms : List (Op R)) :
    (kron (M :: Ms)).den.f = kron2 (kron Ms).rows (kron Ms).cols M.den.f (kron Ms).den.f := by
  simp only [Op.den, forceV_f, List.map_cons, Op.rows, Op.cols]
  rw [kronDen_cons_kron2]
  simp only [List.map_map]
  rfl

theorem den_kron_nil : (kron ([] : List (Op R))).den.f = fun _ _ => 1 := by
  simp only [Op.den, forceV_f, List.map_nil]
  funext I J
  simp [kronDen, kronEntry]

theorem rows_bdiag_cons (M : Op R) (Ms : List (Op R)) (m : Nat) (mults : List Nat) :
    (bdiag (M :: Ms) (m :: mults)).rows = m * M.rows + (bdiag Ms mults).rows := by
  simp only [Op.rows, Op.dotSum, List.map_cons, List.zip_cons_cons, List.sum_cons, Nat.mul_comm]

theorem cols_bdiag_cons (M : Op R) (Ms : List (Op R)) (m : Nat) (mults : List Nat) :
    (bdiag (M :: Ms) (m :: mults)).cols = m * M.cols + (bdiag Ms mults).cols := by
  simp only [Op.cols, Op.dotSum, List.map_cons, List.zip_cons_cons, List.sum_cons, Nat.mul_comm]

theorem den_bdiag (Ms : List (Op R)) (mults : List Nat) :
    (bdiag Ms mults).den.f = blockDiagM (expandBlocks ((Ms.map facDen).zip mults)) := by
  simp only [Op.den, forceV_f]
  rfl

theorem den_bdiag_cons (M : Op R) (Ms : List (Op R)) (m : Nat) (mults : List Nat) :
    (bdiag (M :: Ms) (m :: mults)).den.f
      = blockDiagM (List.replicate m (M.rows, M.cols, M.den.f)
          ++ expandBlocks ((Ms.map facDen).zip mults)) := by
  rw [den_bdiag]
  simp [expandBlocks, facDen]

theorem rows_bdiag_nil_left (mults : List Nat) : (bdiag ([] : List (Op R)) mults).rows = 0 := by
  simp [Op.rows, Op.dotSum]
theorem cols_bdiag_nil_left (mults : List Nat) : (bdiag ([] : List (Op R)) mults).cols = 0 := by
  simp [Op.cols, Op.dotSum]
theorem rows_bdiag_nil_right (Ms : List (Op R)) : (bdiag Ms []).rows = 0 := by
  simp [Op.rows, Op.dotSum]
theorem cols_bdiag_nil_right (Ms : List (Op R)) : (bdiag Ms []).cols = 0 := by
  simp [Op.cols, Op.dotSum]

/-- `(c ** 0.5) * I_like(A)` represents `c ** 0.5` times the identity -/
theorem sqrtScalarOp_den (dt : DType) (t : R) (n : Nat) :
    EqOn n n (sqrtScalarOp dt t n).den.f (diagM (fun _ => t)) := by
  rw [← MatF.toMatrix_eq_iff]
  simp only [sqrtScalarOp, Op.den, forceV_f, List.map_cons, List.map_nil, List.foldr_cons,
    List.foldr_nil, Op.cols, MatV.of_f, MatF.toMatrix_mmul, MatF.toMatrix_eyeM, Matrix.mul_one]
  rfl

theorem sqrtScalarOp_rows (dt : DType) (t : R) (n : Nat) : (sqrtScalarOp dt t n).rows = n := by
  simp [sqrtScalarOp, Op.rows]
theorem sqrtScalarOp_cols (dt : DType) (t : R) (n : Nat) : (sqrtScalarOp dt t n).cols = n := by
  simp [sqrtScalarOp, Op.cols]

/-! ## Kronecker and BlockDiag nodes -/

theorem cholOK_kron {Ms Ls : List (Op R)} (h : List.Forall₂ CholOK Ms Ls) :
    CholOK (kron Ms) (kron Ls) := by
  induction h with
  | nil =>
    refine ⟨by simp [Op.rows, Op.cols], rfl, by simp [Op.rows, Op.cols], ?_⟩
    have h1 : (kron ([] : List (Op R))).rows = 1 := by simp [Op.rows]
    rw [h1, den_kron_nil]
    refine ⟨fun i j hi hj hij => by omega, ?_⟩
    ext i j
    simp [Matrix.mul_apply]
  | @cons M L Ms Ls hML _ ih =>
    obtain ⟨hc, hLr, hLc, hf⟩ := hML
    obtain ⟨ihc, ihLr, ihLc, ihf⟩ := ih
    refine ⟨?_, ?_, ?_, ?_⟩
    · rw [rows_kron_cons, cols_kron_cons, hc, ihc]
    · rw [rows_kron_cons, rows_kron_cons, hLr, ihLr]
    · rw [cols_kron_cons, rows_kron_cons, hLc, ihLc]
    · rw [rows_kron_cons, den_kron_cons, den_kron_cons, ihLr, ihLc, ihc]
      exact cholFact_kron2 _ _ _ _ _ _ hf ihf

theorem pluOK_kron {Ms : List (Op R)} {Fs : List (Op R × Op R × Op R)}
    (h : List.Forall₂ PluOK Ms Fs) :
    PluOK (kron Ms) (kron (Fs.map (·.1)), kron (Fs.map (·.2.1)), kron (Fs.map (·.2.2))) := by
  induction h with
  | nil =>
    have h1 : (kron ([] : List (Op R))).rows = 1 := by simp [Op.rows]
    have h2 : (kron ([] : List (Op R))).cols = 1 := by simp [Op.cols]
    refine ⟨by rw [h1, h2], ⟨rfl, by simp [h1, h2]⟩, ⟨rfl, by simp [h1, h2]⟩,
      ⟨rfl, by simp [h1, h2]⟩, ?_⟩
    simp only [List.map_nil]
    rw [h1, den_kron_nil]
    refine ⟨⟨1, fun i j => ?_⟩, fun i j hi hj hij => by omega, fun i j hi hj hij => by omega, ?_⟩
    · have : i = j := Subsingleton.elim _ _
      simp [this]
    · ext i j
      simp [Matrix.mul_apply]
  | @cons M F Ms Fs hMF _ ih =>
    obtain ⟨hc, ⟨hPr, hPc⟩, ⟨hLr, hLc⟩, ⟨hUr, hUc⟩, hf⟩ := hMF
    obtain ⟨ihc, ⟨ihPr, ihPc⟩, ⟨ihLr, ihLc⟩, ⟨ihUr, ihUc⟩, ihf⟩ := ih
    simp only [List.map_cons] at *
    refine ⟨?_, ⟨?_, ?_⟩, ⟨?_, ?_⟩, ⟨?_, ?_⟩, ?_⟩
    · rw [rows_kron_cons, cols_kron_cons, hc, ihc]
    · rw [rows_kron_cons, rows_kron_cons, hPr, ihPr]
    · rw [cols_kron_cons, rows_kron_cons, hPc, ihPc]
    · rw [rows_kron_cons, rows_kron_cons, hLr, ihLr]
    · rw [cols_kron_cons, rows_kron_cons, hLc, ihLc]
    · rw [rows_kron_cons, rows_kron_cons, hUr, ihUr]
    · rw [cols_kron_cons, rows_kron_cons, hUc, ihUc]
    · rw [rows_kron_cons, den_kron_cons, den_kron_cons, den_kron_cons, den_kron_cons,
        ihPr, ihPc, ihLr, ihLc, ihUr, ihUc, ihc]
      exact pluFact_kron2 _ _ _ _ _ _ _ _ _ _ hf ihf

theorem cholOK_bdiag {Ms Ls : List (Op R)} (h : List.Forall₂ CholOK Ms Ls) :
    ∀ mults : List Nat, CholOK (bdiag Ms mults) (bdiag Ls mults) := by
  induction h with
  | nil =>
    intro mults
    refine ⟨by rw [rows_bdiag_nil_left, cols_bdiag_nil_left], rfl,
      by rw [rows_bdiag_nil_left, cols_bdiag_nil_left], ?_⟩
    rw [rows_bdiag_nil_left]
    exact cholFact_zero _ _
  | @cons M L Ms Ls hML _ ih =>
    intro mults
    cases mults with
    | nil =>
      refine ⟨by rw [rows_bdiag_nil_right, cols_bdiag_nil_right],
        by rw [rows_bdiag_nil_right, rows_bdiag_nil_right],
        by rw [rows_bdiag_nil_right, cols_bdiag_nil_right], ?_⟩
      rw [rows_bdiag_nil_right]
      exact cholFact_zero _ _
    | cons m mults =>
      obtain ⟨hc, hLr, hLc, hf⟩ := hML
      obtain ⟨ihc, ihLr, ihLc, ihf⟩ := ih mults
      refine ⟨?_, ?_, ?_, ?_⟩
      · rw [rows_bdiag_cons, cols_bdiag_cons, hc, ihc]
      · rw [rows_bdiag_cons, rows_bdiag_cons, hLr, ihLr]
      · rw [cols_bdiag_cons, rows_bdiag_cons, hLc, ihLc]
      · rw [rows_bdiag_cons, den_bdiag_cons, den_bdiag_cons, hLr, hLc, hc]
        rw [den_bdiag, den_bdiag] at ihf
        exact cholFact_blockDiagM_replicate _ _ _ _ _ _ hf ihf m

theorem pluOK_bdiag {Ms : List (Op R)} {Fs : List (Op R × Op R × Op R)}
    (h : List.Forall₂ PluOK Ms Fs) : ∀ mults : List Nat,
    PluOK (bdiag Ms mults) (bdiag (Fs.map (·.1)) mults, bdiag (Fs.map (·.2.1)) mults,
      bdiag (Fs.map (·.2.2)) mults) := by
  induction h with
  | nil =>
    intro mults
    simp only [List.map_nil]
    refine ⟨by rw [rows_bdiag_nil_left, cols_bdiag_nil_left], ⟨rfl, ?_⟩, ⟨rfl, ?_⟩, ⟨rfl, ?_⟩, ?_⟩
    · simp only [rows_bdiag_nil_left, cols_bdiag_nil_left]
    · simp only [rows_bdiag_nil_left, cols_bdiag_nil_left]
    · simp only [rows_bdiag_nil_left, cols_bdiag_nil_left]
    · rw [rows_bdiag_nil_left]
      exact pluFact_zero _ _ _ _
  | @cons M F Ms Fs hMF _ ih =>
    intro mults
    cases mults with
    | nil =>
      refine ⟨by rw [rows_bdiag_nil_right, cols_bdiag_nil_right], ⟨?_, ?_⟩, ⟨?_, ?_⟩, ⟨?_, ?_⟩, ?_⟩
      all_goals first
        | (rw [rows_bdiag_nil_right]; exact pluFact_zero _ _ _ _)
        | simp only [rows_bdiag_nil_right, cols_bdiag_nil_right]
    | cons m mults =>
      obtain ⟨hc, ⟨hPr, hPc⟩, ⟨hLr, hLc⟩, ⟨hUr, hUc⟩, hf⟩ := hMF
      obtain ⟨ihc, ⟨ihPr, ihPc⟩, ⟨ihLr, ihLc⟩, ⟨ihUr, ihUc⟩, ihf⟩ := ih mults
      simp only [List.map_cons] at *
      refine ⟨?_, ⟨?_, ?_⟩, ⟨?_, ?_⟩, ⟨?_, ?_⟩, ?_⟩
      · rw [rows_bdiag_cons, cols_bdiag_cons, hc, ihc]
      · rw [rows_bdiag_cons, rows_bdiag_cons, hPr, ihPr]
      · rw [cols_bdiag_cons, rows_bdiag_cons, hPc, ihPc]
      · rw [rows_bdiag_cons, rows_bdiag_cons, hLr, ihLr]
      · rw [cols_bdiag_cons, rows_bdiag_cons, hLc, ihLc]
      · rw [rows_bdiag_cons, rows_bdiag_cons, hUr, ihUr]
      · rw [cols_bdiag_cons, rows_bdiag_cons, hUc, ihUc]
      · rw [rows_bdiag_cons, den_bdiag_cons, den_bdiag_cons, den_bdiag_cons, den_bdiag_cons,
          hPr, hPc, hLr, hLc, hUr, hUc, hc]
        rw [den_bdiag, den_bdiag, den_bdiag, den_bdiag] at ihf
        exact pluFact_blockDiagM_replicate _ _ _ _ _ _ _ _ _ _ hf ihf m

/-! ## leaves -/

/-- shapes of leaf operators -/
macro "shp" : tactic =>
  `(tactic| simp only [Op.rows, Op.cols, sqrtScalarOp_rows, sqrtScalarOp_cols])

theorem cholOK_eye (dt : DType) (n : Nat) : CholOK (eye dt n : Op R) (eye dt n) := by
  refine ⟨by shp, by shp, by shp, ?_⟩
  simp only [Op.rows, Op.den, MatV.of_f]
  exact cholFact_eyeM n

theorem pluOK_eye (dt : DType) (n : Nat) :
    PluOK (eye dt n : Op R) (eye dt n, eye dt n, eye dt n) := by
  refine ⟨by shp, ⟨by shp, by shp⟩, ⟨by shp, by shp⟩, ⟨by shp, by shp⟩, ?_⟩
  simp only [Op.rows, Op.den, MatV.of_f]
  exact pluFact_eyeM n

/-- a declared Identity (`cola.PSD(I)` …) is returned unchanged -/
theorem cholOK_annot_eye (a : Ann) (A : Op R) (dt : DType) (n : Nat) (hcore : A.core = eye dt n) :
    CholOK (annot a A) (annot a A) := by
  have hr : A.rows = n := by rw [← core_rows A, hcore]; shp
  have hc : A.cols = n := by rw [← core_cols A, hcore]; shp
  have hd : A.den = (eye dt n : Op R).den := by rw [← core_den A, hcore]
  refine ⟨by simp only [Op.rows, Op.cols, hr, hc], rfl, by simp only [Op.rows, Op.cols, hr, hc], ?_⟩
  simp only [Op.rows, Op.den, hr, hd, MatV.of_f]
  exact cholFact_eyeM n

theorem pluOK_annot_eye (a : Ann) (A : Op R) (dt : DType) (n : Nat) (hcore : A.core = eye dt n) :
    PluOK (annot a A) (annot a A, annot a A, annot a A) := by
  have hr : A.rows = n := by rw [← core_rows A, hcore]; shp
  have hc : A.cols = n := by rw [← core_cols A, hcore]; shp
  have hd : A.den = (eye dt n : Op R).den := by rw [← core_den A, hcore]
  have e : (annot a A).cols = (annot a A).rows := by simp only [Op.rows, Op.cols, hr, hc]
  refine ⟨e, ⟨rfl, e⟩, ⟨rfl, e⟩, ⟨rfl, e⟩, ?_⟩
  simp only [Op.rows, Op.den, hr, hd, MatV.of_f]
  exact pluFact_eyeM n

theorem cholOK_diag {P : DecompParams R} {pos : R → Prop} (hP : Contracts P pos) (dt : DType)
    (n : Nat) (d s : Nat → R) (hpos : ∀ i, i < n → pos (d i))
    (hs : sqrtVec P dt n d = .ok s) : CholOK (diag dt n d) (diag dt n s) := by
  refine ⟨by shp, by shp, by shp, ?_⟩
  simp only [Op.rows, Op.den, MatV.of_f]
  apply cholFact_diagM
  intro i hi
  have h1 := sqrtVec_ok hs i hi
  rw [hP.sqrt_pos dt _ _ (hpos i hi) h1]
  exact hP.sqrt_sq dt _ _ h1

/-- a Diagonal is its own upper factor -/
theorem pluOK_diag (dt : DType) (n : Nat) (d : Nat → R) :
    PluOK (diag dt n d) (eye dt n, eye dt n, diag dt n d) := by
  refine ⟨by shp, ⟨by shp, by shp⟩, ⟨by shp, by shp⟩, ⟨by shp, by shp⟩, ?_⟩
  simp only [Op.rows, Op.den, MatV.of_f]
  exact pluFact_self n _ (upperTri_diagM n d)

theorem cholOK_scalar {P : DecompParams R} {pos : R → Prop} (hP : Contracts P pos) (dt : DType)
    (c t : R) (n : Nat) (hpos : pos c) (ht : P.sqrtS dt c = .ok t) :
    CholOK (scalar dt c n) (sqrtScalarOp dt t n) := by
  refine ⟨by shp, by shp, by shp, ?_⟩
  simp only [Op.rows]
  have h : CholFact n (diagM (fun _ => t)) (diagM (fun _ => c)) := by
    apply cholFact_diagM
    intro i _
    rw [hP.sqrt_pos dt _ _ hpos ht]
    exact hP.sqrt_sq dt _ _ ht
  refine h.congr (sqrtScalarOp_den dt t n).symm ?_
  intro i j _ _
  simp only [Op.den, MatV.of_f, diagM]

/-- a ScalarMul is its own upper factor -/
theorem pluOK_scalar (dt : DType) (c : R) (n : Nat) :
    PluOK (scalar dt c n) (eye dt n, eye dt n, scalar dt c n) := by
  refine ⟨by shp, ⟨by shp, by shp⟩, ⟨by shp, by shp⟩, ⟨by shp, by shp⟩, ?_⟩
  simp only [Op.rows, Op.den, MatV.of_f]
  exact pluFact_self n _ (upperTri_diagM n (fun _ => c))

/-- a declared Diagonal / ScalarMul (`cola.PSD(D)` …) is returned as the upper factor itself -/
theorem pluOK_annot_diagLike (a : Ann) (A : Op R) (dt : DType) (n : Nat) (d : Nat → R)
    (hr : A.rows = n) (hc : A.cols = n) (hd : A.den.f = diagM d) :
    PluOK (annot a A) (eye dt n, eye dt n, annot a A) := by
  have e : (annot a A).cols = (annot a A).rows := by simp only [Op.rows, Op.cols, hr, hc]
  refine ⟨e, ⟨by simp only [Op.rows, hr], by simp only [Op.rows, Op.cols, hr]⟩,
    ⟨by simp only [Op.rows, hr], by simp only [Op.rows, Op.cols, hr]⟩, ⟨rfl, e⟩, ?_⟩
  simp only [Op.rows, Op.den, hr, hd, MatV.of_f]
  exact pluFact_self n _ (upperTri_diagM n d)

theorem pluOK_annot_diag (a : Ann) (A : Op R) (dt : DType) (n : Nat) (d : Nat → R)
    (hcore : A.core = diag dt n d) : PluOK (annot a A) (eye dt n, eye dt n, annot a A) := by
  have hr : A.rows = n := by rw [← core_rows A, hcore]; shp
  have hc : A.cols = n := by rw [← core_cols A, hcore]; shp
  have hd : A.den.f = diagM d := by rw [← core_den A, hcore]; simp only [Op.den, MatV.of_f]
  exact pluOK_annot_diagLike a A dt n d hr hc hd

theorem pluOK_annot_scalar (a : Ann) (A : Op R) (dt : DType) (c : R) (n : Nat)
    (hcore : A.core = scalar dt c n) : PluOK (annot a A) (eye dt n, eye dt n, annot a A) := by
  have hr : A.rows = n := by rw [← core_rows A, hcore]; shp
  have hc : A.cols = n := by rw [← core_cols A, hcore]; shp
  have hd : A.den.f = diagM (fun _ => c) := by
    rw [← core_den A, hcore]; simp only [Op.den, MatV.of_f]; rfl
  exact pluOK_annot_diagLike a A dt n _ hr hc hd

/-! ## the dense fallbacks -/

theorem cholFallback_ok {P : DecompParams R} {pos : R → Prop} (hP : Contracts P pos) (A L : Op R)
    (hg : A.Good) (hh : HermOn A.rows A.den.f) (h : cholFallback P A = .ok L) : CholOK A L := by
  unfold cholFallback at h
  split at h
  · rename_i hsq
    split at h
    · rename_i Lm hLm
      injection h with h
      subst h
      obtain ⟨hlow, hprod⟩ := hP.chol _ _ _ hLm
      have htd : EqOn A.rows A.rows A.td.f A.den.f := by
        have := Op.td_eq A hg.wf hg.nd hg.herm
        rwa [← hsq] at this
      refine ⟨hsq.symm, by shp, by shp, ?_⟩
      simp only [Op.den, MatV.of_f]
      exact cholFact_of_eqOn hlow (hprod.trans ((hermLower_congr htd).trans (hermLower_eqOn hh)))
    · exact absurd h (by simp)
  · exact absurd h (by simp)

theorem pluFallback_ok {P : DecompParams R} {pos : R → Prop} (hP : Contracts P pos) (A : Op R)
    (F : Op R × Op R × Op R) (hg : A.Good) (h : pluFallback P A = .ok F) : PluOK A F := by
  unfold pluFallback at h
  split at h
  · rename_i hsq
    split at h
    · rename_i p Lm Um hlu
      injection h with h
      subst h
      obtain ⟨hlen, hlt, hnd, hlow, hup, hprod⟩ := hP.lu _ _ _ _ _ hlu
      have htd : EqOn A.rows A.rows A.td.f A.den.f := by
        have := Op.td_eq A hg.wf hg.nd hg.herm
        rwa [← hsq] at this
      refine ⟨hsq.symm, ⟨by simp only [Op.rows, hlen], by simp only [Op.cols, hlen]⟩,
        ⟨by shp, by shp⟩, ⟨by shp, by shp⟩, ?_⟩
      simp only [Op.den, MatV.of_f]
      have hperm : IsPermMat A.rows (permDen p : MatF R) := by
        have := isPermMat_permDen (R := R) p (by rw [hlen]; exact hlt) hnd
        rwa [hlen] at this
      exact pluFact_of_eqOn hperm hlow hup (hprod.trans htd)
    · exact absurd h (by simp)
  · exact absurd h (by simp)

end
end Op
