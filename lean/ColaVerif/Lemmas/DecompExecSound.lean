import ColaVerif.Model.DecompExec
import ColaVerif.Lemmas.DecompOp

/-!
# The exact Gaussian-rational parameters satisfy the contracts of C11

`GDecomp.params` (what the driver runs) returns only checked results, so the contracts
`Op.Contracts` hold for it outright: the theorems of `Properties/C11.lean` apply literally to the
values the correspondence stream compares with cola.
-/

namespace GDecomp

/-- "is a positive real number" in ℚ[i] -/
def gpos (x : GRat) : Prop := x.im = 0 ∧ 0 < x.re

theorem gsqrt_sq (dt : DType) (x s : GRat) (h : gsqrt dt x = .ok s) : s * s = x := by
  unfold gsqrt at h
  split at h
  · split at h
    · rename_i hss
      injection h with h
      subst h
      exact hss
    · exact absurd h (by simp)
  · exact absurd h (by simp)

theorem gsqrt_pos (dt : DType) (x s : GRat) (hx : gpos x) (h : gsqrt dt x = .ok s) :
    star s = s := by
  have hs := gsqrt_sq dt x s h
  obtain ⟨him, hre⟩ := hx
  have h1 : s.re * s.re - s.im * s.im = x.re := by rw [← hs]; rfl
  have h2 : s.re * s.im + s.im * s.re = x.im := by rw [← hs]; rfl
  ext
  · rfl
  · show -s.im = s.im
    by_contra hne
    have hnz : s.im ≠ 0 := by
      intro h0; apply hne; rw [h0]; simp
    have h3 : s.re * s.im = 0 := by linarith
    have h4 : s.re = 0 := by
      rcases mul_eq_zero.mp h3 with h | h
      · exact h
      · exact absurd h hnz
    rw [h4] at h1
    have h5 : 0 ≤ s.im * s.im := mul_self_nonneg _
    linarith

theorem hermLowerG_eq (A : MatF GRat) : hermLowerG A = Op.hermLower A := rfl

theorem gchol_contract (n : Nat) (A L : MatF GRat) (h : gcholDense n A = some L) :
    LowerTri n L ∧ EqOn n n (mmul n L (conjM (transposeM L))) (Op.hermLower A) := by
  unfold gcholDense at h
  split at h
  · exact absurd h (by simp)
  · rename_i m _
    simp only at h
    split at h
    · rename_i hw
      injection h with h
      subst h
      refine ⟨?_, ?_⟩
      · intro i j _ _ hij
        simp only [maskLower]
        rw [if_neg (by omega)]
      · rw [← hermLowerG_eq]
        exact Op.winEq_eqOn hw
    · exact absurd h (by simp)

theorem glu_contract (n : Nat) (A : MatF GRat) (p : List Nat) (L U : MatF GRat)
    (h : gluDense n A = some (p, L, U)) :
    p.length = n ∧ (∀ t ∈ p, t < n) ∧ p.Nodup ∧ LowerTri n L ∧ UpperTri n U ∧
      EqOn n n (mmul n (permDen p) (mmul n L U)) A := by
  unfold gluDense at h
  simp only at h
  split at h
  · rename_i hc
    obtain ⟨h1, h2, h3, h4⟩ := hc
    injection h with h
    injection h with hp h
    injection h with hL hU
    subst hp hL hU
    refine ⟨h1, h2, h3, ?_, ?_, Op.winEq_eqOn h4⟩
    · intro i j _ _ hij
      simp only [maskUnitLower]
      rw [if_neg (by omega), if_neg (by omega)]
    · intro i j _ _ hij
      simp only [maskUpper]
      rw [if_neg (by omega)]
  · exact absurd h (by simp)

/-- the parameters the driver runs satisfy every contract -/
theorem params_contracts : Op.Contracts params gpos where
  sqrt_sq := gsqrt_sq
  sqrt_pos := gsqrt_pos
  chol := gchol_contract
  lu := glu_contract

end GDecomp
