import ColaVerif.Model.Wf
import ColaVerif.Lemmas.SmallKernels
import ColaVerif.Lemmas.KronSum
import ColaVerif.Lemmas.BlockDiag
import Mathlib.Algebra.Star.BigOperators
import Mathlib.Algebra.BigOperators.Ring.List

/-!
# Helper lemmas for `Op.mm_eq` / `Op.rmm_eq` / `Op.td_eq` (no reference to `Op`)

Associativity of `mmul`, the two default left-product formulas of `operator_base.py`, window
congruence of the Kronecker / Kronecker-sum / block-diagonal represented matrices, `dotSum`
bookkeeping, and in-range of the positions produced by `Ix.resolve`.
-/

open Finset

variable {R : Type}

/-! ## `mmul` -/

theorem mmul_assoc' [NonUnitalSemiring R] (m k : Nat) (A B C : MatF R) (i j : Nat) :
    mmul k (mmul m A B) C i j = mmul m A (mmul k B C) i j := by
  simp only [mmul_apply, Finset.sum_mul, Finset.mul_sum]
  rw [Finset.sum_comm]
  apply Finset.sum_congr rfl
  intro q _
  apply Finset.sum_congr rfl
  intro p _
  rw [mul_assoc]

theorem eqOn_mmul_eyeM_right [NonAssocSemiring R] (r k : Nat) (A : MatF R) :
    EqOn r k (mmul k A eyeM) A := fun i j _ hj => mmul_eyeM_right k A i j hj

theorem eqOn_mmul_eyeM_left [NonAssocSemiring R] (k c : Nat) (X : MatF R) :
    EqOn k c (mmul k eyeM X) X := fun i j hi _ => mmul_eyeM_left k X i j hi

/-! ## the default `_rmatmat` of `operator_base.py` -/

/-- linear transposition of `_matmat` (through the shim: `(_matmat(I))ᵀ @ Xᵀ`, transposed) -/
theorem defaultRmm_lin [CommSemiring R] (r c : Nat) (D : MatF R) (mmf : Nat → MatF R → MatF R)
    (hmm : ∀ b X, EqOn r b (mmf b X) (mmul c D X)) (b : Nat) (X : MatF R) :
    EqOn b c (transposeM (mmul r (transposeM (mmf c eyeM)) (transposeM X))) (mmul r X D) := by
  intro i j _ hj
  simp only [transposeM, mmul_apply]
  apply Finset.sum_congr rfl
  intro q hq
  rw [hmm c eyeM q j (mem_range.mp hq) hj, mmul_eyeM_right c D q j hj, mul_comm]

/-- the conjugation shortcut used when the operator reports `SelfAdjoint` -/
theorem defaultRmm_sa [CommRing R] [StarRing R] (r c : Nat) (D : MatF R)
    (mmf : Nat → MatF R → MatF R)
    (hmm : ∀ b X, EqOn r b (mmf b X) (mmul c D X)) (hsq : r = c)
    (hH : ∀ i j, i < r → j < r → D i j = star (D j i)) (b : Nat) (X : MatF R) :
    EqOn b c (conjM (transposeM (mmf b (conjM (transposeM X))))) (mmul r X D) := by
  intro i j hi hj
  subst hsq
  simp only [conjM, transposeM]
  rw [hmm b _ j i hj hi, mmul_apply, mmul_apply, star_sum]
  apply Finset.sum_congr rfl
  intro q hq
  simp only [conjM, transposeM]
  rw [star_mul', star_star, ← hH q j (mem_range.mp hq) hj, mul_comm]

/-! ## exchanging a list sum with a range sum -/

theorem list_sum_range_comm [AddCommMonoid R] {α : Type} (L : List α) (c : Nat)
    (g : α → Nat → R) :
    (L.map (fun t => ∑ q ∈ range c, g t q)).sum = ∑ q ∈ range c, (L.map (fun t => g t q)).sum := by
  induction L with
  | nil => simp
  | cons t rest ih =>
    simp only [List.map_cons, List.sum_cons]
    rw [ih, Finset.sum_add_distrib]

/-- `Sum._rmatmat`: the right-hand analogue of `sumMatmat_eq_pairs` -/
theorem sumMatmat_right [NonUnitalNonAssocSemiring R] {α : Type} (r b c : Nat) (L : List α)
    (act : α → MatF R → MatV R) (D : α → MatF R)
    (h : ∀ t ∈ L, ∀ Y i j, i < b → j < c → (act t Y).f i j = ∑ q ∈ range r, Y i q * D t q j)
    (X : MatF R) (i j : Nat) (hi : i < b) (hj : j < c) :
    (sumMatmat (L.map act) X).f i j
      = ∑ q ∈ range r, X i q * ((L.map D).foldr addM zeroM) q j := by
  unfold sumMatmat
  simp only [MatV.of_f]
  rw [foldl_addM_apply]
  simp only [zeroM, zero_add, List.map_map]
  have h1 : (L.map ((fun m => m i j) ∘ (fun x : MatV R => x.f) ∘ (fun f => f X) ∘ act))
      = L.map (fun t => ∑ q ∈ range r, X i q * D t q j) := by
    apply List.map_congr_left
    intro t ht
    exact h t ht X i j hi hj
  rw [h1, list_sum_range_comm]
  apply Finset.sum_congr rfl
  intro q _
  rw [foldr_addM_apply, List.map_map, ← List.sum_map_mul_left]
  rfl

/-! ## window congruence of the represented matrices of the composite kinds -/

/-- two families of factors with the same shapes whose matrices agree on their windows -/
def FacEqOn {α : Type} (L : List α) (f g : α → FacAct R) : Prop :=
  ∀ x ∈ L, (f x).r = (g x).r ∧ (f x).c = (g x).c ∧ EqOn (f x).r (f x).c (f x).a (g x).a

theorem FacEqOn.tail {α : Type} {x : α} {L : List α} {f g : α → FacAct R}
    (h : FacEqOn (x :: L) f g) : FacEqOn L f g := fun y hy => h y (List.mem_cons_of_mem _ hy)

theorem FacEqOn.map_r {α : Type} {L : List α} {f g : α → FacAct R} (h : FacEqOn L f g) :
    (L.map f).map (·.r) = (L.map g).map (·.r) := by
  rw [List.map_map, List.map_map]
  apply List.map_congr_left
  intro x hx
  exact (h x hx).1

theorem FacEqOn.map_c {α : Type} {L : List α} {f g : α → FacAct R} (h : FacEqOn L f g) :
    (L.map f).map (·.c) = (L.map g).map (·.c) := by
  rw [List.map_map, List.map_map]
  apply List.map_congr_left
  intro x hx
  exact (h x hx).2.1

theorem kronEntry_congr [MulZeroOneClass R] {α : Type} (f g : α → FacAct R) :
    ∀ (L : List α) (is js : List Nat), FacEqOn L f g →
      InB ((L.map f).map (·.r)) is → InB ((L.map f).map (·.c)) js →
      kronEntry (L.map f) is js = kronEntry (L.map g) is js
  | [], _, _, _, _, _ => by simp [kronEntry]
  | x :: L, [], _, _, h1, _ => by simp [InB] at h1
  | x :: L, _ :: _, [], _, _, h2 => by simp [InB] at h2
  | x :: L, i :: is, j :: js, h, h1, h2 => by
    simp only [List.map_cons, InB] at h1 h2
    simp only [List.map_cons, kronEntry]
    rw [kronEntry_congr f g L is js h.tail h1.2 h2.2,
      (h x List.mem_cons_self).2.2 i j h1.1 h2.1]

theorem kronDen_congr [MulZeroOneClass R] {α : Type} (f g : α → FacAct R) (L : List α)
    (h : FacEqOn L f g) (I J : Nat) (hI : I < ((L.map f).map (·.r)).prod)
    (hJ : J < ((L.map f).map (·.c)).prod) :
    kronDen (L.map f) I J = kronDen (L.map g) I J := by
  unfold kronDen
  rw [← h.map_r, ← h.map_c]
  exact kronEntry_congr f g L _ _ h (ravel_unravel _ I hI).2 (ravel_unravel _ J hJ).2

theorem kronSumEntry_congr [Semiring R] {α : Type} (f g : α → FacAct R) :
    ∀ (L : List α) (is js : List Nat), FacEqOn L f g →
      InB ((L.map f).map (·.r)) is → InB ((L.map f).map (·.c)) js →
      kronSumEntry (L.map f) is js = kronSumEntry (L.map g) is js
  | [], _, _, _, _, _ => by simp [kronSumEntry]
  | x :: L, [], _, _, h1, _ => by simp [InB] at h1
  | x :: L, _ :: _, [], _, _, h2 => by simp [InB] at h2
  | x :: L, i :: is, j :: js, h, h1, h2 => by
    simp only [List.map_cons, InB] at h1 h2
    simp only [List.map_cons, kronSumEntry]
    rw [kronSumEntry_congr f g L is js h.tail h1.2 h2.2,
      (h x List.mem_cons_self).2.2 i j h1.1 h2.1]

theorem kronSumDen_congr [Semiring R] {α : Type} (f g : α → FacAct R) (L : List α)
    (h : FacEqOn L f g) (I J : Nat) (hI : I < ((L.map f).map (·.r)).prod)
    (hJ : J < ((L.map f).map (·.c)).prod) :
    kronSumDen (L.map f) I J = kronSumDen (L.map g) I J := by
  unfold kronSumDen
  rw [← h.map_r, ← h.map_c]
  exact kronSumEntry_congr f g L _ _ h (ravel_unravel _ I hI).2 (ravel_unravel _ J hJ).2

/-- `blockDiagM` only reads the windows of its blocks -/
theorem blockDiagM_congr [Zero R] (L₁ L₂ : List (Nat × Nat × MatF R))
    (h : List.Forall₂ (fun p q => p.1 = q.1 ∧ p.2.1 = q.2.1 ∧ EqOn p.1 p.2.1 p.2.2 q.2.2) L₁ L₂)
    (i j : Nat) : blockDiagM L₁ i j = blockDiagM L₂ i j := by
  induction h generalizing i j with
  | nil => rfl
  | @cons p q l₁ l₂ hd _ ih =>
    obtain ⟨r, c, m⟩ := p
    obtain ⟨r', c', m'⟩ := q
    obtain ⟨h1, h2, h3⟩ := hd
    simp only at h1 h2 h3
    subst h1 h2
    simp only [blockDiagM]
    by_cases hi : i < r
    · by_cases hj : j < c
      · simp only [if_pos hi, if_pos hj]; exact h3 i j hi hj
      · simp only [if_pos hi, if_neg hj]
    · by_cases hj : j < c
      · simp only [if_neg hi, if_pos hj]
      · simp only [if_neg hi, if_neg hj]; exact ih _ _

theorem expandBlocks_cons (M : FacAct R) (mult : Nat) (rest : List (FacAct R × Nat)) :
    expandBlocks ((M, mult) :: rest)
      = List.replicate mult (M.r, M.c, M.a) ++ expandBlocks rest := by
  simp [expandBlocks]

theorem bdiagDen_congr [Zero R] {α : Type} (f g : α → FacAct R) :
    ∀ (L : List α) (mults : List Nat), FacEqOn L f g → ∀ i j,
      bdiagDen ((L.map f).zip mults) i j = bdiagDen ((L.map g).zip mults) i j := by
  intro L mults h i j
  unfold bdiagDen
  apply blockDiagM_congr
  induction L generalizing mults with
  | nil => simp [expandBlocks]
  | cons x L ih =>
    cases mults with
    | nil => simp [expandBlocks]
    | cons m ms =>
      simp only [List.map_cons, List.zip_cons_cons, expandBlocks_cons]
      apply List.rel_append
      · obtain ⟨h1, h2, h3⟩ := h x List.mem_cons_self
        clear ih
        induction m with
        | zero => simp
        | succ k ihk =>
          rw [List.replicate_succ, List.replicate_succ]
          exact List.Forall₂.cons ⟨h1, h2, h3⟩ ihk
      · exact ih ms h.tail

/-! ## `dotSum` bookkeeping for `BlockDiag` -/

theorem dotSum_rows {α : Type} (f : α → FacAct R) :
    ∀ (L : List α) (mults : List Nat),
      Op.dotSum (L.map (fun x => (f x).r)) mults
        = (((L.map f).zip mults).map (fun p => p.2 * p.1.r)).sum
  | [], _ => by simp [Op.dotSum]
  | _ :: _, [] => by simp [Op.dotSum]
  | x :: L, m :: ms => by
    have ih := dotSum_rows f L ms
    simp only [Op.dotSum] at ih
    simp only [Op.dotSum, List.map_cons, List.zip_cons_cons, List.sum_cons, ih, Nat.mul_comm]

theorem dotSum_cols {α : Type} (f : α → FacAct R) :
    ∀ (L : List α) (mults : List Nat),
      Op.dotSum (L.map (fun x => (f x).c)) mults
        = (((L.map f).zip mults).map (fun p => p.2 * p.1.c)).sum
  | [], _ => by simp [Op.dotSum]
  | _ :: _, [] => by simp [Op.dotSum]
  | x :: L, m :: ms => by
    have ih := dotSum_cols f L ms
    simp only [Op.dotSum] at ih
    simp only [Op.dotSum, List.map_cons, List.zip_cons_cons, List.sum_cons, ih, Nat.mul_comm]

/-! ## positions produced by `Ix.resolve` are in range -/

theorem Ix.rangeList_lt_pos (n : Nat) (stop step : Int) (hstep : 0 < step) (hstop : stop ≤ n) :
    ∀ (fuel : Nat) (start : Int), 0 ≤ start → ∀ t ∈ Ix.rangeList start stop step fuel, t < n
  | 0, _, _, t, ht => by simp [Ix.rangeList] at ht
  | fuel + 1, start, hs, t, ht => by
    simp only [Ix.rangeList] at ht
    split at ht
    · rename_i hc
      have hlt : start < stop := by omega
      rcases List.mem_cons.mp ht with h | h
      · omega
      · exact Ix.rangeList_lt_pos n stop step hstep hstop fuel (start + step) (by omega) t h
    · simp at ht

theorem Ix.rangeList_lt_neg (n : Nat) (stop step : Int) (hstep : step < 0) (hstop : -1 ≤ stop) :
    ∀ (fuel : Nat) (start : Int), start < n → ∀ t ∈ Ix.rangeList start stop step fuel, t < n
  | 0, _, _, t, ht => by simp [Ix.rangeList] at ht
  | fuel + 1, start, hs, t, ht => by
    simp only [Ix.rangeList] at ht
    split at ht
    · rename_i hc
      have hlt : start > stop := by omega
      rcases List.mem_cons.mp ht with h | h
      · omega
      · exact Ix.rangeList_lt_neg n stop step hstep hstop fuel (start + step) (by omega) t h
    · simp at ht

theorem Ix.sliceIndices_bounds (n : Nat) (start stop step : Option Int) :
    (0 < (Ix.sliceIndices n start stop step).2.2 →
        0 ≤ (Ix.sliceIndices n start stop step).1 ∧ (Ix.sliceIndices n start stop step).2.1 ≤ n) ∧
    ((Ix.sliceIndices n start stop step).2.2 < 0 →
        (Ix.sliceIndices n start stop step).1 < n ∧ -1 ≤ (Ix.sliceIndices n start stop step).2.1) := by
  simp only [Ix.sliceIndices]
  constructor
  · intro h
    constructor
    · cases start <;> simp only <;> split_ifs <;> omega
    · cases stop <;> simp only <;> split_ifs <;> omega
  · intro h
    constructor
    · cases start <;> simp only <;> split_ifs <;> omega
    · cases stop <;> simp only <;> split_ifs <;> omega

theorem Ix.resolve_lt (n : Nat) (ix : Ix) (l : List Nat) (h : Ix.resolve n ix = some l) :
    ∀ t ∈ l, t < n := by
  cases ix with
  | slice start stop step =>
    simp only [Ix.resolve] at h
    split at h
    · simp at h
    · rename_i h0
      have hb := Ix.sliceIndices_bounds n start stop step
      have hst : (Ix.sliceIndices n start stop step).2.2 = step.getD 1 := rfl
      simp only [Option.some.injEq] at h
      subst h
      rcases lt_trichotomy (step.getD 1) 0 with hneg | hz | hpos
      · exact Ix.rangeList_lt_neg n _ _ (by rw [hst]; exact hneg) (hb.2 (by rw [hst]; exact hneg)).2
          _ _ (hb.2 (by rw [hst]; exact hneg)).1
      · exfalso
        apply h0
        cases step with
        | none => simp at hz
        | some v => simp at hz; rw [hz]
      · exact Ix.rangeList_lt_pos n _ _ (by rw [hst]; exact hpos) (hb.1 (by rw [hst]; exact hpos)).2
          _ _ (hb.1 (by rw [hst]; exact hpos)).1
  | arr idx =>
    simp only [Ix.resolve] at h
    split at h
    · rename_i hall
      simp only [Option.some.injEq] at h
      subst h
      intro t ht
      rw [List.mem_map] at ht
      obtain ⟨i, hi, rfl⟩ := ht
      have := List.all_eq_true.mp hall i hi
      simp only [decide_eq_true_eq] at this
      split_ifs <;> omega
    · simp at h
