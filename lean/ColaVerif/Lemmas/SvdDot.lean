import ColaVerif.Lemmas.ExprSoundAux
import ColaVerif.Lemmas.OpIndex

/-!
# C16 (round 2): the lazy products the Krylov rules of `svd` build and densify

`Ex.dotRule` (`cola.fns.dot`) on operands whose product code models are correct (`Lin`: `_matmat`,
`_rmatmat` and `to_dense` agree with the represented matrix) builds an operator that represents
the matrix product and is again `Lin`.  The invariant is weaker than C01's `Op.Good` (no `HermOK`
is asked of the `Product` node the rule creates: neither `Product._matmat` nor `Product._rmatmat`
nor the default `to_dense` look at the annotations of the product itself), so no hypothesis about
the intermediate operators is needed.
-/

open ExprSound

namespace Svd
open Op Ex

set_option linter.unusedSectionVars false
set_option linter.unusedVariables false

variable {R : Type} [CommRing R] [StarRing R] [DecidableEq R]

/-- the code models of `A @ X`, `X @ A` and `A.to_dense()` compute the represented matrix -/
structure Lin (X : Op R) : Prop where
  wf : X.wf = true
  mm : MmOK X
  rmm : RmmOK X
  td : EqOn X.rows X.cols X.td.f X.den.f

theorem Lin.of_good {X : Op R} (h : Good X) : Lin X :=
  ⟨h.wf, (mm_rmm_ok X h).1, (mm_rmm_ok X h).2, td_eq X h.wf h.nd h.herm⟩

/-- a well-shaped `Product` of `Lin` members is `Lin` -/
theorem Lin.prod (Ms : List (Op R)) (hne : Ms ≠ []) (hl : ∀ M ∈ Ms, Lin M)
    (hc : chainOk (shapes Ms) = true) : Lin (Op.prod Ms) := by
  have hwf : (Op.prod Ms).wf = true := by
    simp only [Op.wf, Bool.and_eq_true, List.all_eq_true, List.mem_map, id,
      forall_exists_index, and_imp, forall_apply_eq_imp_iff₂]
    refine ⟨⟨?_, fun N hN => (hl N hN).wf⟩, hc⟩
    cases Ms with
    | nil => exact absurd rfl hne
    | cons a l => simp
  have hmm := mmOK_prod Ms hwf (fun M hM => (hl M hM).mm)
  have hrmm := rmmOK_prod Ms hwf (fun M hM => (hl M hM).rmm)
  refine ⟨hwf, hmm, hrmm, ?_⟩
  rw [td_default (Op.prod Ms) (by simp [hasExplicitTd]) (by intro a B h; cases h)]
  split
  · exact td_of_rmm _ hrmm
  · exact td_of_mm _ hmm

/-- the factors `dot` sees: the members of a `Product`, else the operator itself -/
def parts (A : Op R) : List (Op R) := (prodMembers A).getD [A]

theorem dotRule_parts (A B : Op R) (hA : isIdentity A = false) (hB : isIdentity B = false) :
    dotRule A B = if A.cols != B.rows then .error "error:AssertionError"
      else mkProd (parts A ++ parts B) := by
  unfold dotRule parts
  rw [hA, hB]
  cases prodMembers A <;> cases prodMembers B <;> simp

/-- `L` is a factorisation of `A` into `Lin` operators -/
structure PP (A : Op R) (L : List (Op R)) : Prop where
  ne : L ≠ []
  lin : ∀ M ∈ L, Lin M
  chain : chainOk (shapes L) = true
  hr : headRows L = A.rows
  lc : lastCols L = A.cols
  den : EqOn A.rows A.cols (denChain L) A.den.f

theorem PP.single (A : Op R) (h : Lin A) : PP A [A] := by
  refine ⟨by simp, ?_, by simp [shapes, chainOk], by simp [headRows], by simp [lastCols], ?_⟩
  · intro M hM; rw [List.mem_singleton.mp hM]; exact h
  · rw [denChain_cons]
    exact eqOn_mmul_eyeM_right _ _ _

/-- the members of a `Product` operator (seen through annotation wrappers) -/
theorem PP.of_good (A : Op R) (hg : Good A) : PP A (parts A) := by
  have hc := coreRel A
  unfold parts prodMembers
  split
  · rename_i Ms heq
    rw [heq] at hc
    have hgs := hc.good hg
    simp only [Option.getD_some]
    refine ⟨?_, fun M hM => Lin.of_good (hgs.prod_mem M hM), ?_, ?_, ?_, ?_⟩
    · intro e; subst e
      have := hgs.wf; simp [Op.wf] at this
    · have := hgs.wf
      simp only [Op.wf, Bool.and_eq_true] at this
      exact this.2
    · have := hc.rows; simp only [Op.rows] at this; exact this
    · have := hc.cols; simp only [Op.cols] at this; exact this
    · rw [← hc.den]
      simp only [Op.den, forceV_f]
      exact EqOn.refl _ _ _
  · simp only [Option.getD_none]
    exact PP.single A (Lin.of_good hg)

theorem parts_prod (L : List (Op R)) : parts (Op.prod L) = L := by
  simp [parts, prodMembers, Op.core]

theorem PP.of_prod (L : List (Op R)) (hne : L ≠ []) (hl : ∀ M ∈ L, Lin M)
    (hc : chainOk (shapes L) = true) : PP (Op.prod L) L := by
  refine ⟨hne, hl, hc, ?_, ?_, ?_⟩
  · simp only [headRows, Op.rows]
  · simp only [lastCols, Op.cols]
  · simp only [Op.den, forceV_f]
    exact EqOn.refl _ _ _

/-- what the rest of the development needs of an operand of `dot` -/
structure PL (A : Op R) : Prop where
  lin : Lin A
  pp : PP A (parts A)

theorem PL.of_good (A : Op R) (hg : Good A) : PL A := ⟨Lin.of_good hg, PP.of_good A hg⟩

theorem PL.of_prod (L : List (Op R)) (hne : L ≠ []) (hl : ∀ M ∈ L, Lin M)
    (hc : chainOk (shapes L) = true) : PL (Op.prod L) :=
  ⟨Lin.prod L hne hl hc, by rw [parts_prod]; exact PP.of_prod L hne hl hc⟩

theorem isIdentity_den (A : Op R) (h : isIdentity A = true) :
    A.rows = A.cols ∧ A.den.f = eyeM := by
  have hc := coreRel A
  unfold isIdentity at h
  split at h
  · rename_i dt n heq
    rw [heq] at hc
    have h1 := hc.rows
    have h2 := hc.cols
    have h3 := hc.den
    simp only [Op.rows] at h1
    simp only [Op.cols] at h2
    simp only [Op.den] at h3
    exact ⟨h1.symm.trans h2, by rw [← h3]; rfl⟩
  · cases h

theorem good_eye' (dt : DType) (n : Nat) : Op.Good (eye dt n : Op R) := by
  refine ⟨by simp only [Op.wf], by simp only [Op.dupSlice], ?_⟩
  simp only [HermOK]
  intro _
  refine ⟨by simp only [Op.rows, Op.cols], ?_⟩
  intro i j _ _
  simp only [Op.den, MatV.of_f, eyeM]
  by_cases h : i = j
  · subst h; simp
  · rw [if_neg h, if_neg (Ne.symm h), star_zero]

/-- the product of two factorised operands: the `Product` of the concatenated factor lists -/
theorem concat_pl (A B : Op R) (LA LB : List (Op R)) (pA : PP A LA) (pB : PP B LB)
    (hdim : A.cols = B.rows) (v : Val R) (h : mkProd (LA ++ LB) = .ok v) :
    ∃ P, v = .op P ∧ P.rows = A.rows ∧ P.cols = B.cols ∧
      EqOn A.rows B.cols P.den.f (mmul A.cols A.den.f B.den.f) ∧ PL P := by
  simp only [mkProd] at h
  split at h
  · rename_i hchain
    injection h with h
    subst h
    obtain ⟨M0, LA', hLA⟩ := List.exists_cons_of_ne_nil pA.ne
    obtain ⟨N0, LB', hLB⟩ := List.exists_cons_of_ne_nil pB.ne
    have hlin : ∀ N ∈ LA ++ LB, Lin N := by
      intro N hN
      rcases List.mem_append.mp hN with hN | hN
      · exact pA.lin N hN
      · exact pB.lin N hN
    have hM0 : M0.rows = A.rows := by
      have := pA.hr; rw [hLA] at this; simpa [headRows] using this
    have hrows : (Op.prod (LA ++ LB)).rows = A.rows := by
      simp only [Op.rows, hLA, List.cons_append, List.map_cons, List.head?_cons,
        Option.getD_some]
      exact hM0
    have hcols : (Op.prod (LA ++ LB)).cols = B.cols := by
      have := lastCols_append LA N0 LB'
      rw [← hLB, pB.lc] at this
      simp only [Op.cols]
      exact this
    refine ⟨_, rfl, hrows, hcols, ?_, PL.of_prod _ (by simp [hLA]) hlin hchain⟩
    simp only [Op.den, forceV_f]
    have hch := pA.chain
    rw [hLA] at hch
    have key := denChain_append B.cols LB LA' M0 hch
    rw [← hLA, hM0, pA.lc] at key
    refine key.trans ?_
    refine mmul_congr pA.den ?_
    rw [hdim]
    exact pB.den
  · cases h

/-- **rule `dot`** on `Lin` operands: the result represents the product and is `Lin` again -/
theorem dot_pl (A B : Op R) (hA : PL A) (hB : PL B) (v : Val R) (h : dotRule A B = .ok v) :
    A.cols = B.rows ∧ ∃ P, v = .op P ∧ P.rows = A.rows ∧ P.cols = B.cols ∧
      EqOn A.rows B.cols P.den.f (mmul A.cols A.den.f B.den.f) ∧ PL P := by
  unfold dotRule at h
  split at h
  · cases h
  rename_i hdim
  have hdim : A.cols = B.rows := by simpa using hdim
  refine ⟨hdim, ?_⟩
  by_cases hiA : isIdentity A = true
  · obtain ⟨a1, a2⟩ := isIdentity_den A hiA
    rw [if_pos hiA] at h
    have repB : EqOn A.rows B.cols B.den.f (mmul A.cols A.den.f B.den.f) := by
      rw [a2, a1, hdim]
      exact (eqOn_mmul_eyeM_left _ _ _).symm
    by_cases hiB : isIdentity B = true
    · obtain ⟨b1, b2⟩ := isIdentity_den B hiB
      rw [if_pos hiB] at h
      split at h
      · injection h with h; subst h
        exact ⟨B, rfl, by rw [a1, hdim], rfl, repB, hB⟩
      · injection h with h; subst h
        refine ⟨_, rfl, by simp only [Op.rows]; rw [a1, hdim], by simp only [Op.cols]; exact b1, ?_,
          PL.of_good _ (good_eye' _ _)⟩
        refine EqOn.trans ?_ repB
        rw [b2]
        intro i j _ _
        simp only [Op.den]
        rfl
    · rw [if_neg hiB] at h
      split at h
      · injection h with h; subst h
        exact ⟨B, rfl, by rw [a1, hdim], rfl, repB, hB⟩
      · exact concat_pl A B [A] [B] (PP.single A hA.lin) (PP.single B hB.lin) hdim v h
  · rw [if_neg hiA] at h
    by_cases hiB : isIdentity B = true
    · obtain ⟨b1, b2⟩ := isIdentity_den B hiB
      rw [if_pos hiB] at h
      split at h
      · injection h with h; subst h
        refine ⟨A, rfl, rfl, by rw [← b1, hdim], ?_, hA⟩
        rw [b2, ← b1, ← hdim]
        exact (eqOn_mmul_eyeM_right _ _ _).symm
      · exact concat_pl A B [A] [B] (PP.single A hA.lin) (PP.single B hB.lin) hdim v h
    · rw [if_neg hiB] at h
      have hm : mkProd (parts A ++ parts B) = .ok v := by
        unfold parts
        revert h
        cases prodMembers A <;> cases prodMembers B <;> simp
      exact concat_pl A B _ _ hA.pp hB.pp hdim v hm

end Svd
