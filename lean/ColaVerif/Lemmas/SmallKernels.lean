import ColaVerif.Model.Kernels

/-!
# Small per-kind kernels agree with their represented matrices

Identity / scalar / diagonal, tridiagonal, Householder, permutation, row scatter / gather,
`Sliced`, `Concatenated` (both axes) and `Sum`.
-/

open Finset

variable {R : Type}

/-! ## A. identity, scalar, diagonal -/

theorem sum_ite_eq_mul [NonUnitalNonAssocSemiring R] (n i : Nat) (hi : i < n) (s : R)
    (g : Nat → R) : ∑ q ∈ range n, (if i = q then s else 0) * g q = s * g i := by
  rw [Finset.sum_eq_single i]
  · simp
  · intro q _ hq
    rw [if_neg (Ne.symm hq), zero_mul]
  · intro h
    exact absurd (mem_range.mpr hi) h

theorem sum_mul_ite_eq [NonUnitalNonAssocSemiring R] (n j : Nat) (hj : j < n) (s : R)
    (g : Nat → R) : ∑ q ∈ range n, g q * (if q = j then s else 0) = g j * s := by
  rw [Finset.sum_eq_single j]
  · simp
  · intro q _ hq
    rw [if_neg hq, mul_zero]
  · intro h
    exact absurd (mem_range.mpr hj) h

/-- scalar / identity operators: `Σ_q (s·δ_{iq}) X_{qj} = s · X_{ij}` -/
theorem sum_scalar_mul [NonUnitalNonAssocSemiring R] (n : Nat) (s : R) (X : MatF R) (i j : Nat)
    (hi : i < n) : ∑ q ∈ range n, (if i = q then s else 0) * X q j = s * X i j :=
  sum_ite_eq_mul n i hi s (fun q => X q j)

theorem sum_eyeM_mul [NonAssocSemiring R] (n : Nat) (X : MatF R) (i j : Nat) (hi : i < n) :
    ∑ q ∈ range n, (eyeM : MatF R) i q * X q j = X i j := by
  have h := sum_ite_eq_mul n i hi (1 : R) (fun q => X q j)
  simpa [eyeM] using h

theorem mmul_eyeM_right [NonAssocSemiring R] (k : Nat) (A : MatF R) (i j : Nat) (hj : j < k) :
    mmul k A eyeM i j = A i j := by
  rw [mmul_apply]
  have h := sum_mul_ite_eq k j hj (1 : R) (fun q => A i q)
  simpa [eyeM] using h

theorem mmul_eyeM_left [NonAssocSemiring R] (k : Nat) (X : MatF R) (i j : Nat) (hi : i < k) :
    mmul k eyeM X i j = X i j := by
  rw [mmul_apply]
  exact sum_eyeM_mul k X i j hi

theorem sum_diagM_mul [NonUnitalNonAssocSemiring R] (n : Nat) (d : Nat → R) (X : MatF R)
    (i j : Nat) (hi : i < n) : ∑ q ∈ range n, diagM d i q * X q j = d i * X i j := by
  have h := sum_ite_eq_mul n i hi (d i) (fun q => X q j)
  simpa [diagM] using h

theorem sum_mul_diagM [NonUnitalNonAssocSemiring R] (n : Nat) (d : Nat → R) (X : MatF R)
    (i j : Nat) (hj : j < n) : ∑ q ∈ range n, X i q * diagM d q j = X i j * d j := by
  have h := sum_mul_ite_eq n j hj (d j) (fun q => X i q)
  rw [← h]
  apply Finset.sum_congr rfl
  intro q _
  unfold diagM
  by_cases hq : q = j
  · subst hq; simp
  · simp [hq]

/-! ## B. tridiagonal -/

theorem tridiagMatmat_eq [NonUnitalNonAssocSemiring R] (n : Nat) (al be ga : Nat → R)
    (X : MatF R) (i j : Nat) (hi : i < n) :
    tridiagMatmat n al be ga X i j = ∑ q ∈ range n, tridiagDen al be ga i q * X q j := by
  have hsplit : ∀ q, tridiagDen al be ga i q * X q j =
      ((if i = q then be i else 0) * X q j
        + (if q + 1 = i then al q * X q j else 0))
        + (if q = i + 1 then ga i * X q j else 0) := by
    intro q
    unfold tridiagDen
    by_cases h1 : i = q
    · subst h1; simp
    · by_cases h2 : i = q + 1
      · subst h2
        have h3 : ¬ q = q + 1 + 1 := by omega
        simp [h3]
      · by_cases h3 : q = i + 1
        · subst h3
          have h4 : ¬ i + 1 + 1 = i := by omega
          simp [h2, h4]
        · have h2' : ¬ q + 1 = i := fun h => h2 h.symm
          simp [h1, h2, h2', h3]
  rw [Finset.sum_congr rfl (fun q _ => hsplit q), Finset.sum_add_distrib,
    Finset.sum_add_distrib, sum_ite_eq_mul n i hi]
  unfold tridiagMatmat
  congr 1
  · congr 1
    cases i with
    | zero => simp
    | succ k =>
      rw [Finset.sum_eq_single k]
      · simp
      · intro q _ hq
        have : ¬ q + 1 = k + 1 := by omega
        rw [if_neg this]
      · intro h
        exact absurd (mem_range.mpr (by omega)) h
  · by_cases hn : i + 1 = n
    · rw [if_pos hn]
      symm
      apply Finset.sum_eq_zero
      intro q hq
      have : ¬ q = i + 1 := by have := mem_range.mp hq; omega
      rw [if_neg this]
    · rw [if_neg hn, Finset.sum_eq_single (i + 1)]
      · simp
      · intro q _ hq
        rw [if_neg hq]
      · intro h
        exact absurd (mem_range.mpr (by omega)) h

/-! ## C. Householder -/

theorem houseMatmat_eq [CommRing R] [Star R] (n : Nat) (v : Nat → R) (beta : R) (X : MatF R)
    (i j : Nat) (hi : i < n) :
    houseMatmat n v beta X i j = ∑ q ∈ range n, houseDen v beta i q * X q j := by
  unfold houseMatmat houseDen
  rw [sumTo_eq]
  simp only [sub_mul]
  rw [Finset.sum_sub_distrib, sum_ite_eq_mul n i hi, one_mul]
  congr 1
  rw [Finset.mul_sum, Finset.sum_mul]
  apply Finset.sum_congr rfl
  intro q _
  ring

/-! ## D. permutation -/

theorem permMatmat_eq [NonAssocSemiring R] (n : Nat) (p : List Nat) (X : MatF R) (i j : Nat)
    (hp : p.getD i 0 < n) :
    permMatmat p X i j = ∑ q ∈ range n, permDen p i q * X q j := by
  have h := sum_ite_eq_mul n (p.getD i 0) hp (1 : R) (fun q => X q j)
  unfold permMatmat gatherRows permDen
  rw [h, one_mul]

/-! ## E. row scatter / gather -/

/-- the fold of `lastIdxOf`, started at offset `k` with accumulator `init` -/
theorem lastIdxOf_foldl_not_mem (l : List Nat) (t k : Nat) (init : Option Nat) (ht : t ∉ l) :
    (l.zipIdx k).foldl (fun acc p => if p.1 = t then some p.2 else acc) init = init := by
  induction l generalizing k init with
  | nil => rfl
  | cons a l ih =>
    rw [List.zipIdx_cons, List.foldl_cons]
    have ha : ¬ a = t := fun h => ht (h ▸ List.mem_cons_self)
    have hl : t ∉ l := fun h => ht (List.mem_cons_of_mem _ h)
    rw [ih _ _ hl]
    simp [ha]

theorem lastIdxOf_foldl_mem (l : List Nat) (t k : Nat) (init : Option Nat) (hnd : l.Nodup)
    (ht : t ∈ l) :
    (l.zipIdx k).foldl (fun acc p => if p.1 = t then some p.2 else acc) init
      = some (k + l.idxOf t) := by
  induction l generalizing k init with
  | nil => simp at ht
  | cons a l ih =>
    rw [List.zipIdx_cons, List.foldl_cons]
    rw [List.nodup_cons] at hnd
    by_cases ha : a = t
    · subst ha
      rw [lastIdxOf_foldl_not_mem l a _ _ hnd.1]
      simp
    · have hl : t ∈ l := by
        rcases List.mem_cons.mp ht with h | h
        · exact absurd h.symm ha
        · exact h
      rw [ih _ _ hnd.2 hl, List.idxOf_cons_ne _ ha]
      congr 1
      omega

theorem lastIdxOf_of_not_mem (idx : List Nat) (t : Nat) (ht : t ∉ idx) :
    lastIdxOf idx t = none :=
  lastIdxOf_foldl_not_mem idx t 0 none ht

theorem lastIdxOf_of_mem (idx : List Nat) (t : Nat) (hnd : idx.Nodup) (ht : t ∈ idx) :
    lastIdxOf idx t = some (idx.idxOf t) := by
  unfold lastIdxOf
  rw [lastIdxOf_foldl_mem idx t 0 none hnd ht, Nat.zero_add]

theorem getD_mem_of_lt (idx : List Nat) (p : Nat) (hp : p < idx.length) : idx.getD p 0 ∈ idx := by
  rw [← List.getElem_eq_getD (h := hp) 0]
  exact List.getElem_mem hp

theorem idxOf_getD_of_nodup (idx : List Nat) (p : Nat) (hnd : idx.Nodup) (hp : p < idx.length) :
    idx.idxOf (idx.getD p 0) = p := by
  rw [← List.getElem_eq_getD (h := hp) 0]
  exact hnd.idxOf_getElem p hp

theorem getD_idxOf_of_mem (idx : List Nat) (t : Nat) (ht : t ∈ idx) :
    idx.getD (idx.idxOf t) 0 = t := by
  have h : idx.idxOf t < idx.length := List.idxOf_lt_length_of_mem ht
  rw [← List.getElem_eq_getD (h := h) 0]
  exact List.getElem_idxOf h

theorem lastIdxOf_getD (idx : List Nat) (p : Nat) (hnd : idx.Nodup) (hp : p < idx.length) :
    lastIdxOf idx (idx.getD p 0) = some p := by
  rw [lastIdxOf_of_mem idx _ hnd (getD_mem_of_lt idx p hp), idxOf_getD_of_nodup idx p hnd hp]

theorem scatterRows_eq [Zero R] (idx : List Nat) (X : MatF R) (t j : Nat) (hnd : idx.Nodup) :
    scatterRows idx X t j = if t ∈ idx then X (idx.idxOf t) j else 0 := by
  unfold scatterRows
  by_cases ht : t ∈ idx
  · rw [lastIdxOf_of_mem idx t hnd ht, if_pos ht]
  · rw [lastIdxOf_of_not_mem idx t ht, if_neg ht]

theorem scatterRows_getD [Zero R] (idx : List Nat) (X : MatF R) (p j : Nat) (hnd : idx.Nodup)
    (hp : p < idx.length) : scatterRows idx X (idx.getD p 0) j = X p j := by
  unfold scatterRows
  rw [lastIdxOf_getD idx p hnd hp]

theorem scatterRows_of_not_mem [Zero R] (idx : List Nat) (X : MatF R) (t j : Nat)
    (ht : t ∉ idx) : scatterRows idx X t j = 0 := by
  unfold scatterRows
  rw [lastIdxOf_of_not_mem idx t ht]

theorem gatherRows_scatterRows [Zero R] (idx : List Nat) (X : MatF R) (p j : Nat)
    (hnd : idx.Nodup) (hp : p < idx.length) :
    gatherRows idx (scatterRows idx X) p j = X p j :=
  scatterRows_getD idx X p j hnd hp

/-- general form of the key sum lemma: `g t` is any zero-preserving map -/
theorem sum_scatterRows_gen [AddCommMonoid R] (n : Nat) (idx : List Nat) (X : MatF R) (j : Nat)
    (g : Nat → R → R) (hg : ∀ t, g t 0 = 0) (hnd : idx.Nodup) (hlt : ∀ t ∈ idx, t < n) :
    ∑ t ∈ range n, g t (scatterRows idx X t j)
      = ∑ p ∈ range idx.length, g (idx.getD p 0) (X p j) := by
  have hR : ∀ p ∈ range idx.length, g (idx.getD p 0) (X p j)
      = ∑ t ∈ range n, if t = idx.getD p 0 then g t (X p j) else 0 := by
    intro p hp
    have hp' := mem_range.mp hp
    rw [Finset.sum_ite_eq' (range n) (idx.getD p 0) (fun t => g t (X p j)),
      if_pos (mem_range.mpr (hlt _ (getD_mem_of_lt idx p hp')))]
  rw [Finset.sum_congr rfl hR, Finset.sum_comm]
  apply Finset.sum_congr rfl
  intro t _
  by_cases ht : t ∈ idx
  · have hlen : idx.idxOf t < idx.length := List.idxOf_lt_length_of_mem ht
    rw [Finset.sum_eq_single (idx.idxOf t)]
    · rw [if_pos (getD_idxOf_of_mem idx t ht).symm, scatterRows_eq idx X t j hnd, if_pos ht]
    · intro p hp hne
      have hp' := mem_range.mp hp
      have : ¬ t = idx.getD p 0 := by
        intro h
        apply hne
        rw [h, idxOf_getD_of_nodup idx p hnd hp']
      rw [if_neg this]
    · intro h
      exact absurd (mem_range.mpr hlen) h
  · rw [scatterRows_of_not_mem idx X t j ht, hg]
    symm
    apply Finset.sum_eq_zero
    intro p hp
    have : ¬ t = idx.getD p 0 := by
      intro h
      exact ht (h ▸ getD_mem_of_lt idx p (mem_range.mp hp))
    rw [if_neg this]

/-- key sum lemma (coefficient on the left) -/
theorem sum_mul_scatterRows [NonUnitalNonAssocSemiring R] (n : Nat) (idx : List Nat) (X : MatF R)
    (j : Nat) (f : Nat → R) (hnd : idx.Nodup) (hlt : ∀ t ∈ idx, t < n) :
    ∑ t ∈ range n, f t * scatterRows idx X t j
      = ∑ p ∈ range idx.length, f (idx.getD p 0) * X p j :=
  sum_scatterRows_gen n idx X j (fun t x => f t * x) (fun _ => mul_zero _) hnd hlt

/-- key sum lemma (coefficient on the right) -/
theorem sum_scatterRows_mul [NonUnitalNonAssocSemiring R] (n : Nat) (idx : List Nat) (X : MatF R)
    (j : Nat) (f : Nat → R) (hnd : idx.Nodup) (hlt : ∀ t ∈ idx, t < n) :
    ∑ t ∈ range n, scatterRows idx X t j * f t
      = ∑ p ∈ range idx.length, X p j * f (idx.getD p 0) :=
  sum_scatterRows_gen n idx X j (fun t x => x * f t) (fun _ => zero_mul _) hnd hlt

/-! ## F. Sliced -/

theorem slicedMatmat_eq [NonUnitalNonAssocSemiring R] (act : MatF R → MatV R) (A : MatF R)
    (rA cA b : Nat)
    (hact : ∀ Y i j, i < rA → j < b → (act Y).f i j = ∑ q ∈ range cA, A i q * Y q j)
    (rs cs : List Nat) (hrs : ∀ t ∈ rs, t < rA) (hcs : ∀ t ∈ cs, t < cA) (hnd : cs.Nodup)
    (X : MatF R) (i j : Nat) (hi : i < rs.length) (hj : j < b) :
    (slicedMatmat act rs cs X).f i j
      = ∑ q ∈ range cs.length, slicedDen A rs cs i q * X q j := by
  unfold slicedMatmat slicedDen gatherRows
  rw [MatV.of_f, hact _ _ _ (hrs _ (getD_mem_of_lt rs i hi)) hj]
  exact sum_mul_scatterRows cA cs X j (fun q => A (rs.getD i 0) q) hnd hcs

theorem slicedRmatmat_eq [NonUnitalNonAssocSemiring R] (ract : MatF R → MatV R) (A : MatF R)
    (rA cA b : Nat)
    (hract : ∀ Y i j, i < b → j < cA → (ract Y).f i j = ∑ q ∈ range rA, Y i q * A q j)
    (rs cs : List Nat) (hrs : ∀ t ∈ rs, t < rA) (hcs : ∀ t ∈ cs, t < cA) (hnd : rs.Nodup)
    (X : MatF R) (i j : Nat) (hi : i < b) (hj : j < cs.length) :
    (slicedRmatmat ract rs cs X).f i j
      = ∑ q ∈ range rs.length, X i q * slicedDen A rs cs q j := by
  unfold slicedRmatmat slicedDen gatherRows
  simp only [MatV.of_f, transposeM]
  rw [hract _ _ _ hi (hcs _ (getD_mem_of_lt cs j hj))]
  exact sum_scatterRows_mul rA rs (fun p c => X c p) i (fun q => A q (cs.getD j 0)) hnd hrs

/-! ## G. stacking -/

@[simp] theorem vstack_nil [Zero R] (I j : Nat) : vstack ([] : List (Nat × MatF R)) I j = 0 := rfl

theorem vstack_cons [Zero R] (r : Nat) (m : MatF R) (rest : List (Nat × MatF R)) (I j : Nat) :
    vstack ((r, m) :: rest) I j = if I < r then m I j else vstack rest (I - r) j := rfl

@[simp] theorem hstack_nil [Zero R] (i J : Nat) : hstack ([] : List (Nat × MatF R)) i J = 0 := rfl

theorem hstack_cons [Zero R] (c : Nat) (m : MatF R) (rest : List (Nat × MatF R)) (i J : Nat) :
    hstack ((c, m) :: rest) i J = if J < c then m i J else hstack rest i (J - c) := rfl

/-- rows past the total height are zero -/
theorem vstack_of_ge [Zero R] (blocks : List (Nat × MatF R)) (I j : Nat)
    (h : (blocks.map Prod.fst).sum ≤ I) : vstack blocks I j = 0 := by
  induction blocks generalizing I with
  | nil => rfl
  | cons p rest ih =>
    obtain ⟨r, m⟩ := p
    simp only [List.map_cons, List.sum_cons] at h
    rw [vstack_cons, if_neg (by omega)]
    exact ih _ (by omega)

theorem hstack_of_ge [Zero R] (blocks : List (Nat × MatF R)) (i J : Nat)
    (h : (blocks.map Prod.fst).sum ≤ J) : hstack blocks i J = 0 := by
  induction blocks generalizing J with
  | nil => rfl
  | cons p rest ih =>
    obtain ⟨c, m⟩ := p
    simp only [List.map_cons, List.sum_cons] at h
    rw [hstack_cons, if_neg (by omega)]
    exact ih _ (by omega)

/-- offset lemma: the rows of `l₁ ++ l₂` are those of `l₁`, then those of `l₂` shifted -/
theorem vstack_append [Zero R] (l₁ l₂ : List (Nat × MatF R)) (I j : Nat) :
    vstack (l₁ ++ l₂) I j =
      if I < (l₁.map Prod.fst).sum then vstack l₁ I j
      else vstack l₂ (I - (l₁.map Prod.fst).sum) j := by
  induction l₁ generalizing I with
  | nil => simp
  | cons p rest ih =>
    obtain ⟨r, m⟩ := p
    simp only [List.cons_append, List.map_cons, List.sum_cons, vstack_cons]
    by_cases h : I < r
    · rw [if_pos h, if_pos (by omega), if_pos h]
    · rw [if_neg h, if_neg h, ih]
      by_cases h2 : I - r < (rest.map Prod.fst).sum
      · rw [if_pos h2, if_pos (by omega)]
      · rw [if_neg h2, if_neg (by omega), Nat.sub_sub]

theorem hstack_append [Zero R] (l₁ l₂ : List (Nat × MatF R)) (i J : Nat) :
    hstack (l₁ ++ l₂) i J =
      if J < (l₁.map Prod.fst).sum then hstack l₁ i J
      else hstack l₂ i (J - (l₁.map Prod.fst).sum) := by
  induction l₁ generalizing J with
  | nil => simp
  | cons p rest ih =>
    obtain ⟨c, m⟩ := p
    simp only [List.cons_append, List.map_cons, List.sum_cons, hstack_cons]
    by_cases h : J < c
    · rw [if_pos h, if_pos (by omega), if_pos h]
    · rw [if_neg h, if_neg h, ih]
      by_cases h2 : J - c < (rest.map Prod.fst).sum
      · rw [if_pos h2, if_pos (by omega)]
      · rw [if_neg h2, if_neg (by omega), Nat.sub_sub]

/-- row `off + i` of the stack `pre ++ (r, m) :: post` is row `i` of `m` -/
theorem vstack_block [Zero R] (pre post : List (Nat × MatF R)) (r : Nat) (m : MatF R)
    (i j : Nat) (hi : i < r) :
    vstack (pre ++ (r, m) :: post) ((pre.map Prod.fst).sum + i) j = m i j := by
  rw [vstack_append, if_neg (by omega), Nat.add_sub_cancel_left, vstack_cons, if_pos hi]

theorem hstack_block [Zero R] (pre post : List (Nat × MatF R)) (c : Nat) (m : MatF R)
    (i j : Nat) (hj : j < c) :
    hstack (pre ++ (c, m) :: post) i ((pre.map Prod.fst).sum + j) = m i j := by
  rw [hstack_append, if_neg (by omega), Nat.add_sub_cancel_left, hstack_cons, if_pos hj]

/-- `Concatenated._matmat`, axis 0: stacking the block products is the product of the stack -/
theorem vstack_map_mmul [NonUnitalNonAssocSemiring R] (c : Nat) (blocks : List (Nat × MatF R))
    (X : MatF R) (I j : Nat) :
    vstack (blocks.map (fun p => (p.1, mmul c p.2 X))) I j = mmul c (vstack blocks) X I j := by
  induction blocks generalizing I with
  | nil =>
    rw [List.map_nil, vstack_nil, mmul_apply]
    symm
    apply Finset.sum_eq_zero
    intro q _
    rw [vstack_nil, zero_mul]
  | cons p rest ih =>
    obtain ⟨r, m⟩ := p
    rw [List.map_cons, vstack_cons]
    by_cases h : I < r
    · rw [if_pos h, mmul_apply, mmul_apply]
      apply Finset.sum_congr rfl
      intro q _
      rw [vstack_cons, if_pos h]
    · rw [if_neg h, ih, mmul_apply, mmul_apply]
      apply Finset.sum_congr rfl
      intro q _
      rw [vstack_cons, if_neg h]

/-- the same with the blocks given by actions that agree with `A_t ·` on the window -/
theorem vstack_acts_eq [NonUnitalNonAssocSemiring R] (c b : Nat)
    (acts : List (Nat × (MatF R → MatV R))) (As : List (MatF R))
    (h : List.Forall₂ (fun (a : Nat × (MatF R → MatV R)) (A : MatF R) =>
      ∀ Y i j, i < a.1 → j < b → (a.2 Y).f i j = ∑ q ∈ range c, A i q * Y q j) acts As)
    (X : MatF R) (I j : Nat) (hj : j < b) :
    vstack (acts.map (fun a => (a.1, (a.2 X).f))) I j
      = ∑ q ∈ range c, vstack ((acts.map Prod.fst).zip As) I q * X q j := by
  induction h generalizing I with
  | nil =>
    rw [List.map_nil, vstack_nil]
    symm
    apply Finset.sum_eq_zero
    intro q _
    rw [List.map_nil, List.zip_nil_left, vstack_nil, zero_mul]
  | @cons a A l₁ l₂ hd _ ih =>
    obtain ⟨r, act⟩ := a
    simp only [List.map_cons, List.zip_cons_cons, vstack_cons]
    by_cases hI : I < r
    · have hd' : (act X).f I j = ∑ q ∈ range c, A I q * X q j := hd X I j hI hj
      rw [if_pos hI, hd']
      apply Finset.sum_congr rfl
      intro q _
      rw [if_pos hI]
    · rw [if_neg hI, ih]
      apply Finset.sum_congr rfl
      intro q _
      rw [if_neg hI]

/-- entries of Python's `sum(...)` / `out = out + ...` accumulation -/
theorem foldl_addM_apply [AddMonoid R] (l : List (MatF R)) (Z : MatF R) (i j : Nat) :
    (l.foldl addM Z) i j = Z i j + (l.map (fun m => m i j)).sum := by
  induction l generalizing Z with
  | nil => simp
  | cons m rest ih =>
    rw [List.foldl_cons, ih, List.map_cons, List.sum_cons]
    unfold addM
    rw [add_assoc]

theorem foldr_addM_apply [AddMonoid R] (l : List (MatF R)) (i j : Nat) :
    (l.foldr addM zeroM) i j = (l.map (fun m => m i j)).sum := by
  induction l with
  | nil => rfl
  | cons m rest ih =>
    rw [List.foldr_cons, List.map_cons, List.sum_cons, ← ih]
    rfl

theorem hcatTerms_sum [NonUnitalNonAssocSemiring R] (r b : Nat)
    (acts : List (Nat × (MatF R → MatV R))) (As : List (MatF R))
    (h : List.Forall₂ (fun (a : Nat × (MatF R → MatV R)) (A : MatF R) =>
      ∀ Y i j, i < r → j < b → (a.2 Y).f i j = ∑ q ∈ range a.1, A i q * Y q j) acts As)
    (off : Nat) (X : MatF R) (i j : Nat) (hi : i < r) (hj : j < b) :
    ((hcatTerms off acts X).map (fun m => m.f i j)).sum
      = ∑ J ∈ range (acts.map Prod.fst).sum,
          hstack ((acts.map Prod.fst).zip As) i J * X (off + J) j := by
  induction h generalizing off with
  | nil => simp [hcatTerms]
  | @cons a A l₁ l₂ hd _ ih =>
    obtain ⟨c, act⟩ := a
    simp only [hcatTerms, List.map_cons, List.sum_cons, List.zip_cons_cons]
    have hd' : (act (rowsFrom off X)).f i j = ∑ q ∈ range c, A i q * rowsFrom off X q j :=
      hd _ i j hi hj
    rw [Finset.sum_range_add, ih (off + c), hd']
    congr 1
    · apply Finset.sum_congr rfl
      intro q hq
      rw [hstack_cons, if_pos (mem_range.mp hq)]
      rfl
    · apply Finset.sum_congr rfl
      intro q _
      rw [hstack_cons, if_neg (by omega), Nat.add_sub_cancel_left, Nat.add_assoc]

/-- `Concatenated._matmat`, axis 1 -/
theorem hcatMatmat_eq [NonUnitalNonAssocSemiring R] (r b : Nat)
    (acts : List (Nat × (MatF R → MatV R))) (As : List (MatF R))
    (h : List.Forall₂ (fun (a : Nat × (MatF R → MatV R)) (A : MatF R) =>
      ∀ Y i j, i < r → j < b → (a.2 Y).f i j = ∑ q ∈ range a.1, A i q * Y q j) acts As)
    (X : MatF R) (i j : Nat) (hi : i < r) (hj : j < b) :
    (hcatMatmat acts X).f i j
      = ∑ J ∈ range (acts.map Prod.fst).sum,
          hstack ((acts.map Prod.fst).zip As) i J * X J j := by
  unfold hcatMatmat
  simp only [MatV.of_f]
  rw [foldl_addM_apply, List.map_map]
  have e : ((fun m : MatF R => m i j) ∘ fun x : MatV R => x.f) = fun m => m.f i j := rfl
  rw [e, hcatTerms_sum r b acts As h 0 X i j hi hj]
  simp [zeroM]

theorem zip_triples (L : List (Nat × (MatF R → MatV R) × MatF R)) :
    ((L.map (fun t => (t.1, t.2.1))).map Prod.fst).zip (L.map (fun t => t.2.2))
      = L.map (fun t => (t.1, t.2.2)) := by
  induction L with
  | nil => rfl
  | cons t rest ih =>
    simp only [List.map_cons, List.zip_cons_cons]
    rw [ih]

/-- the same, members given as triples `(c_t, act_t, A_t)` -/
theorem hcatMatmat_eq_triples [NonUnitalNonAssocSemiring R] (r b : Nat)
    (L : List (Nat × (MatF R → MatV R) × MatF R))
    (h : ∀ t ∈ L, ∀ Y i j, i < r → j < b →
      (t.2.1 Y).f i j = ∑ q ∈ range t.1, t.2.2 i q * Y q j)
    (X : MatF R) (i j : Nat) (hi : i < r) (hj : j < b) :
    (hcatMatmat (L.map (fun t => (t.1, t.2.1))) X).f i j
      = ∑ J ∈ range (L.map (fun t => t.1)).sum,
          hstack (L.map (fun t => (t.1, t.2.2))) i J * X J j := by
  have hF : List.Forall₂ (fun (a : Nat × (MatF R → MatV R)) (A : MatF R) =>
      ∀ Y i j, i < r → j < b → (a.2 Y).f i j = ∑ q ∈ range a.1, A i q * Y q j)
      (L.map (fun t => (t.1, t.2.1))) (L.map (fun t => t.2.2)) := by
    rw [List.forall₂_map_left_iff, List.forall₂_map_right_iff, List.forall₂_same]
    exact h
  have hz : ((L.map (fun t => (t.1, t.2.1))).map Prod.fst).zip (L.map (fun t => t.2.2))
      = L.map (fun t => (t.1, t.2.2)) := zip_triples L
  have := hcatMatmat_eq r b _ _ hF X i j hi hj
  rw [hz] at this
  simpa [List.map_map, Function.comp_def] using this

/-! ## H. Sum -/

theorem sumTerms_sum [NonUnitalNonAssocSemiring R] (r c b : Nat)
    (acts : List (MatF R → MatV R)) (As : List (MatF R))
    (h : List.Forall₂ (fun (a : MatF R → MatV R) (A : MatF R) =>
      ∀ Y i j, i < r → j < b → (a Y).f i j = ∑ q ∈ range c, A i q * Y q j) acts As)
    (X : MatF R) (i j : Nat) (hi : i < r) (hj : j < b) :
    ((acts.map (fun f => f X)).map (fun m => m.f i j)).sum
      = ∑ q ∈ range c, (As.foldr addM zeroM) i q * X q j := by
  induction h with
  | nil => simp [zeroM]
  | @cons a A l₁ l₂ hd _ ih =>
    simp only [List.map_cons, List.sum_cons, List.foldr_cons]
    rw [ih, hd X i j hi hj, ← Finset.sum_add_distrib]
    apply Finset.sum_congr rfl
    intro q _
    unfold addM
    rw [add_mul]

/-- `Sum._matmat` -/
theorem sumMatmat_eq [NonUnitalNonAssocSemiring R] (r c b : Nat)
    (acts : List (MatF R → MatV R)) (As : List (MatF R))
    (h : List.Forall₂ (fun (a : MatF R → MatV R) (A : MatF R) =>
      ∀ Y i j, i < r → j < b → (a Y).f i j = ∑ q ∈ range c, A i q * Y q j) acts As)
    (X : MatF R) (i j : Nat) (hi : i < r) (hj : j < b) :
    (sumMatmat acts X).f i j = ∑ q ∈ range c, (As.foldr addM zeroM) i q * X q j := by
  unfold sumMatmat
  simp only [MatV.of_f]
  rw [foldl_addM_apply, List.map_map]
  have e : ((fun m : MatF R => m i j) ∘ fun x : MatV R => x.f) = fun m => m.f i j := rfl
  rw [e, sumTerms_sum r c b acts As h X i j hi hj]
  simp [zeroM]

/-- the same, members given as pairs `(act_t, A_t)` -/
theorem sumMatmat_eq_pairs [NonUnitalNonAssocSemiring R] (r c b : Nat)
    (L : List ((MatF R → MatV R) × MatF R))
    (h : ∀ t ∈ L, ∀ Y i j, i < r → j < b → (t.1 Y).f i j = ∑ q ∈ range c, t.2 i q * Y q j)
    (X : MatF R) (i j : Nat) (hi : i < r) (hj : j < b) :
    (sumMatmat (L.map Prod.fst) X).f i j
      = ∑ q ∈ range c, ((L.map Prod.snd).foldr addM zeroM) i q * X q j := by
  apply sumMatmat_eq r c b _ _ _ X i j hi hj
  rw [List.forall₂_map_left_iff, List.forall₂_map_right_iff, List.forall₂_same]
  exact h

#print axioms slicedMatmat_eq
#print axioms slicedRmatmat_eq
#print axioms vstack_map_mmul
#print axioms vstack_append
#print axioms hcatMatmat_eq
#print axioms sumMatmat_eq
#print axioms hcatMatmat_eq_triples
#print axioms sumMatmat_eq_pairs
#print axioms vstack_acts_eq
#print axioms sum_mul_scatterRows
#print axioms tridiagMatmat_eq
#print axioms houseMatmat_eq
#print axioms permMatmat_eq
