import ColaVerif.Lemmas.EigSelect
import Mathlib.Algebra.Order.Ring.Int

/-!
# The `LOBPCG` rule of `eig`

`lobpcg` computes the `m = min(n - 1, max_iters)` algebraically largest eigenpairs only; the rule selects by
magnitude among them.  `lobpcgRule_spec`: right when the uncomputed eigenvalues are not wanted;
`lobpcgRule_witness`: wrong on `diag(1, 2, 3, 4)` with `'SM'` (the smallest eigenvalue is the uncomputed one).
-/

namespace Eig

variable {R κ : Type} [LinearOrder κ]

theorem selectPath_vals_extreme (key : R → κ) (k : Nat) (w : Which) (s : Spectrum R) (k_pos : 0 < k)
    (lengths : s.vals.length = s.vecs.length) :
    IsExtreme w key k s.vals (selectPath (fun a b => decide (a ≤ b)) key k w s).vals := by
  set sel := getSlice k w (sortByKey (fun a b => decide (a ≤ b)) (fun p : R × List R => key p.1)
    (s.vals.zip s.vecs)) with hsel
  have hext : IsExtreme w (fun p : R × List R => key p.1) k (s.vals.zip s.vecs) sel :=
    select_by_magnitude w _ k _ k_pos
  have hvals : (selectPath (fun a b => decide (a ≤ b)) key k w s).vals = sel.map (·.1) := rfl
  have hzl : (s.vals.zip s.vecs).length = s.vals.length := by simp [lengths]
  obtain ⟨rest, hperm, hl, hdom⟩ := hext
  refine ⟨rest.map (·.1), ?_, by rw [hvals, List.length_map, hl, hzl], ?_⟩
  · have := hperm.map (·.1)
    rw [List.map_append] at this
    rw [hvals]
    refine this.trans ?_
    rw [List.map_fst_zip (le_of_eq lengths)]
  · intro x hx y hy
    rw [hvals] at hx
    obtain ⟨p, hp, rfl⟩ := List.mem_map.mp hx
    obtain ⟨q, hq, rfl⟩ := List.mem_map.mp hy
    exact hdom p hp q hq

/-- **LOBPCG rule (partial)**: `s` the full spectrum ascending by value.  If at least `k` pairs are computed and
every UNCOMPUTED eigenvalue (the `n - m` algebraically smallest) has magnitude at most (`LM`) / at least (`SM`)
that of every computed one, the rule returns the `k` extreme-magnitude values of the whole spectrum. -/
theorem lobpcgRule_spec (key : R → κ) (k : Nat) (w : Which) (maxIters : Nat) (s : Spectrum R)
    (k_pos : 0 < k) (lengths : s.vals.length = s.vecs.length)
    (enoughComputed : k ≤ min (s.vals.length - 1) maxIters)
    (droppedNotWanted : ∀ x ∈ s.vals.take (s.vals.length - min (s.vals.length - 1) maxIters),
      ∀ y ∈ s.vals.drop (s.vals.length - min (s.vals.length - 1) maxIters),
        match w with
        | .LM => key x ≤ key y
        | .SM => key y ≤ key x) :
    let out := lobpcgRule (fun a b => decide (a ≤ b)) key k w maxIters s
    out.vals.length = min k s.vals.length ∧ IsExtreme w key k s.vals out.vals := by
  intro out
  set m := min (s.vals.length - 1) maxIters with hm
  set t := lobpcgComputed maxIters s with ht
  have htv : t.vals = s.vals.drop (s.vals.length - m) := rfl
  have htl : t.vals.length = t.vecs.length := by
    show (s.vals.drop _).length = (s.vecs.drop _).length
    rw [List.length_drop, List.length_drop, lengths]
  have hmn : m ≤ s.vals.length := le_trans (min_le_left _ _) (Nat.sub_le _ _)
  have htlen : t.vals.length = m := by rw [htv, List.length_drop]; omega
  obtain ⟨rest, hperm, hl, hdom⟩ := selectPath_vals_extreme key k w t k_pos htl
  have hout : out.vals = (selectPath (fun a b => decide (a ≤ b)) key k w t).vals := rfl
  rw [hout]
  refine ⟨by rw [hl, htlen]; omega, rest ++ s.vals.take (s.vals.length - m), ?_, by rw [hl, htlen]; omega, ?_⟩
  · rw [← List.append_assoc]
    refine (hperm.append_right _).trans ?_
    rw [htv]
    exact List.perm_append_comm.trans (by rw [List.take_append_drop])
  · intro x hx y hy
    rcases List.mem_append.mp hy with h | h
    · exact hdom x hx y h
    · have hxt : x ∈ t.vals := hperm.subset (List.mem_append_left _ hx)
      rw [htv] at hxt
      have := droppedNotWanted y h x hxt
      cases w <;> exact this


/-- the recorded defect on `[1, 2, 3, 4]`, `k = 1`, `'SM'`: the rule returns `2` -/
theorem lobpcgRule_witness :
    (lobpcgRule (fun a b => decide (a ≤ b)) (fun x : ℤ => |x|) 1 .SM 100
      { vals := [1, 2, 3, 4], vecs := [[], [], [], []] }).vals = [2] := by
  simp [lobpcgRule, lobpcgComputed, selectPath, sortByKey, getSlice, List.mergeSort,
    List.MergeSort.Internal.splitInTwo]

end Eig
