import ColaVerif.Model.DiagTrace
import ColaVerif.Lemmas.OpIndex
import ColaVerif.Lemmas.OpMatmat

/-!
# C08: the probing loop of `exact_diag` returns the `k`-th diagonal

* `Ix.resolve_range` — `slice(a, b)` selects `a, …, b-1`;
* `Op.idCols_eq` — `I_like(A)[:, a:b].to_dense()` (a `Sliced` identity, densified through
  `Sliced._matmat`) is the columns `a:b` of the identity (from `Op.td_eq`, C01);
* `Op.shiftedChunk_eq` — the shifted chunk of `get_I_chunk_like` has a one in row `r`, column `j`
  iff `r + k = i + j`;
* `Op.chunkRowSums_eq` — one pass of the loop contributes `A[r, r+k]` to row `r` iff the column
  `r + k` lies in the chunk (`Op.mm_eq`, C01);
* `Op.chunk_partition` — the chunks `range(0, n, bs)` partition the columns, for EVERY block size
  (`n` smaller than, equal to, larger than, divisible or not divisible by `bs`);
* `Op.exactDiagSum_eq`, `Op.exactDiag_eq` — the accumulated `diag_sum` and the trimmed result.
-/

open Finset

theorem Ix.resolve_range (n a b : Nat) (hab : a ≤ b) (hbn : b ≤ n) :
    Ix.resolve n (.slice (some (a : Int)) (some (b : Int)) none) = some (List.range' a (b - a)) := by
  simp only [Ix.resolve, Ix.sliceIndices]
  have ha : ¬ ((a : Int) < 0) := by omega
  have hb : ¬ ((b : Int) < 0) := by omega
  simp only [reduceCtorEq, if_false, Option.getD_none, ha, hb]
  have h := Ix.rangeList_up b (n + 1) a hab (by omega)
  by_cases han : (a : Int) ≥ n
  · have : a = n := by omega
    have hbn' : b = n := by omega
    subst this; subst hbn'
    simp [h]
  · by_cases hbn2 : (b : Int) ≥ n
    · have hbn' : b = n := by omega
      subst hbn'
      simp [h, han]
    · simp [h, han, hbn2]

namespace Op
variable {R : Type} [CommRing R] [StarRing R] [DecidableEq R]

theorem idCols_eq (dt : DType) (n a b : Nat) (hab : a ≤ b) (hbn : b ≤ n) :
    EqOn n (b - a) (idCols (R := R) dt n a b).f (fun r j => if r = a + j then 1 else 0) := by
  have hr0 : Ix.resolve n fullSlice = some (List.range n) := Ix.resolve_full n
  have hr1 := Ix.resolve_range n a b hab hbn
  have hwf : (sliced (eye dt n : Op R) fullSlice (.slice (some (a : Int)) (some (b : Int)) none)).wf = true := by
    simp [wf, rows, cols, hr0, hr1]
  have hnd : (sliced (eye dt n : Op R) fullSlice (.slice (some (a : Int)) (some (b : Int)) none)).dupSlice = false := by
    simp [dupSlice, rows, cols, hr0, hr1, List.nodup_range, List.nodup_range']
  have hh : (sliced (eye dt n : Op R) fullSlice (.slice (some (a : Int)) (some (b : Int)) none)).HermOK := by
    simp only [HermOK]
    refine ⟨?_, ?_⟩
    · intro h
      simp [isa, anns, slicesSymmetric, fullSlice, AnnSet.isa] at h
    · intro _
      refine ⟨by simp [rows, cols], ?_⟩
      intro i j _ _
      simp only [den, MatV.of_f, eyeM]
      by_cases hij : i = j
      · simp [hij]
      · simp [hij, Ne.symm hij]
  have h := td_eq _ hwf hnd hh
  intro r j hr hj
  have h2 := h r j (by simp [rows, hr0]; exact hr) (by simp [cols, hr1]; exact hj)
  rw [idCols, h2]
  simp only [den, MatV.of_f, slicedDen, rows, cols, hr0, hr1, Option.getD_some, eyeM]
  have e1 : (List.range n).getD r 0 = r := by simp [List.getD, hr]
  have e2 : (List.range' a (b - a)).getD j 0 = a + j := by simp [List.getD, hj]
  rw [e1, e2]
end Op

namespace Op
variable {R : Type} [CommRing R] [StarRing R] [DecidableEq R]

theorem shiftedChunk_eq (dt : DType) (n i stop : Nat) (k : Int) (hi : i < stop) (hs : stop ≤ n)
    (chunk : MatV R) (hc : EqOn n (stop - i) chunk.f (fun r j => if r = i + j then 1 else 0)) :
    EqOn n (stop - i) (shiftedChunk dt n i stop k chunk).f
      (fun r j => if (r : Int) + k = (i : Int) + j then 1 else 0) := by
  intro r j hr hj
  unfold shiftedChunk
  by_cases hk : k = 0
  · subst hk
    rw [if_pos rfl, hc r j hr hj]
    beta_reduce
    by_cases h : r = i + j
    · rw [if_pos h, if_pos (by omega)]
    · rw [if_neg h, if_neg (by omega)]
  · rw [if_neg hk]
    simp only []
    by_cases hcmp : min ((stop : Int) - k) (n : Int) > max ((i : Int) - k) 0
    · rw [if_pos hcmp]
      simp only [forceV_f]
      have piece := idCols_eq (R := R) dt n (max ((i : Int) - k) 0).toNat (min ((stop : Int) - k) (n : Int)).toNat
        (by omega) (by omega)
      by_cases hwin : (max ((i : Int) - k) 0 - ((i : Int) - k)).toNat ≤ j ∧
          j < (max ((i : Int) - k) 0 - ((i : Int) - k)).toNat +
            (min ((stop : Int) - k) (n : Int) - max ((i : Int) - k) 0).toNat
      · rw [if_pos hwin, piece r _ hr (by omega)]
        beta_reduce
        by_cases h : (r : Int) + k = (i : Int) + j
        · rw [if_pos h, if_pos (by omega)]
        · rw [if_neg h, if_neg (by omega)]
      · rw [if_neg hwin, if_neg (by omega)]
    · rw [if_neg hcmp]
      simp only [MatV.of_f, zeroM]
      rw [if_neg (by omega)]
end Op

namespace Op
variable {R : Type} [CommRing R] [StarRing R] [DecidableEq R]

theorem chunkRowSums_eq (A : Op R) (hg : Good A) (n : Nat) (hrows : A.rows = n) (hcols : A.cols = n)
    (k : Int) (i stop : Nat) (hi : i < stop) (hs : stop ≤ n) :
    chunkRowSums A n k i stop =
      (List.range n).map (fun (r : Nat) => if (i : Int) ≤ (r : Int) + k ∧ (r : Int) + k < stop
        then A.den.f r ((r : Int) + k).toNat else 0) := by
  unfold chunkRowSums
  simp only []
  apply List.map_congr_left
  intro r hrm
  have hrn : r < n := List.mem_range.mp hrm
  rw [sumTo_eq]
  have hchunk := idCols_eq (R := R) A.dtype n i stop (le_of_lt hi) hs
  have hsh := shiftedChunk_eq A.dtype n i stop k hi hs _ hchunk
  have hmm := mm_eq A hg.wf hg.nd hg.herm (stop - i) (idCols A.dtype n i stop).f
  have hterm : ∀ j ∈ range (stop - i),
      (A.mm (stop - i) (idCols A.dtype n i stop).f).f r j *
        (shiftedChunk A.dtype n i stop k (idCols A.dtype n i stop)).f r j =
      if (r : Int) + k = (i : Int) + j then A.den.f r (i + j) else 0 := by
    intro j hj
    have hj' := mem_range.mp hj
    rw [hmm r j (by omega) hj', hsh r j hrn hj']
    have hY : mmul A.cols A.den.f (idCols A.dtype n i stop).f r j = A.den.f r (i + j) := by
      rw [mmul_apply, hcols]
      rw [Finset.sum_congr rfl (fun q hq => by rw [hchunk q j (mem_range.mp hq) hj'])]
      exact (sum_mul_ite_eq n (i + j) (by omega) 1 (fun q => A.den.f r q)).trans (mul_one _)
    rw [hY]
    beta_reduce
    split_ifs <;> simp
  rw [Finset.sum_congr rfl hterm]
  by_cases hcond : (i : Int) ≤ (r : Int) + k ∧ (r : Int) + k < stop
  · rw [if_pos hcond]
    rw [Finset.sum_eq_single (((r : Int) + k).toNat - i)]
    · rw [if_pos (by omega)]
      congr 1
      omega
    · intro j _ hne
      rw [if_neg (by omega)]
    · intro hnot
      exfalso
      apply hnot
      rw [mem_range]
      omega
  · rw [if_neg hcond]
    apply Finset.sum_eq_zero
    intro j hj
    have := mem_range.mp hj
    rw [if_neg (by omega)]
end Op

theorem list_sum_range_map {M : Type} [AddCommMonoid M] (m : Nat) (f : Nat → M) :
    ((List.range m).map f).sum = ∑ q ∈ range m, f q := by
  induction m with
  | zero => simp
  | succ m ih =>
    rw [List.range_succ, List.map_append, List.sum_append, ih, Finset.sum_range_succ]
    simp

namespace Op
variable {R : Type} [CommRing R] [StarRing R] [DecidableEq R]

omit [StarRing R] [DecidableEq R] in
theorem foldl_zipWith_add (n : Nat) (G : Nat → Nat → R) : ∀ (l : List Nat) (Z : Nat → R),
    l.foldl (fun acc i => List.zipWith (· + ·) acc ((List.range n).map (G i))) ((List.range n).map Z)
      = (List.range n).map (fun r => Z r + (l.map (fun i => G i r)).sum)
  | [], Z => by simp
  | i :: l, Z => by
    rw [List.foldl_cons, List.zipWith_map, List.zipWith_self]
    rw [foldl_zipWith_add n G l (fun r => Z r + G i r)]
    apply List.map_congr_left
    intro r _
    simp [add_assoc]

omit [StarRing R] [DecidableEq R] in
theorem chunk_partition (n bs : Nat) (hbs : 0 < bs) (cI : Int) (x : R) :
    ((pyRange0 n bs).map (fun (i : Nat) => if (i : Int) ≤ cI ∧ cI < ((min (i + bs) n : Nat) : Int) then x else 0)).sum
      = if 0 ≤ cI ∧ cI < (n : Int) then x else 0 := by
  unfold pyRange0
  rw [List.map_map, list_sum_range_map]
  by_cases hc : 0 ≤ cI ∧ cI < (n : Int)
  · rw [if_pos hc]
    obtain ⟨c, rfl⟩ : ∃ c : Nat, cI = c := ⟨cI.toNat, by omega⟩
    have hcn : c < n := by omega
    have h1 : c / bs * bs ≤ c := Nat.div_mul_le_self c bs
    have h2 : c < c / bs * bs + bs := Nat.lt_div_mul_add hbs
    rw [Finset.sum_eq_single (c / bs)]
    · simp only [Function.comp]
      rw [if_pos (by omega)]
    · intro q _ hne
      simp only [Function.comp]
      rw [if_neg]
      intro hq
      apply hne
      have hq1 : q * bs ≤ c := by omega
      have hq2 : c < (q + 1) * bs := by rw [Nat.succ_mul]; omega
      exact (Nat.div_eq_of_lt_le hq1 hq2).symm
    · intro hnot
      exfalso
      apply hnot
      rw [mem_range]
      have e : n + bs - 1 = (n - 1) + bs := by omega
      rw [e, Nat.add_div_right _ hbs]
      have : c / bs ≤ (n - 1) / bs := Nat.div_le_div_right (by omega)
      omega
  · rw [if_neg hc]
    apply Finset.sum_eq_zero
    intro q _
    simp only [Function.comp]
    rw [if_neg (by omega)]
end Op

namespace Op
variable {R : Type} [CommRing R] [StarRing R] [DecidableEq R]

theorem pyRange0_lt (n bs : Nat) (hn : 0 < n) (hbs : 0 < bs) : ∀ i ∈ pyRange0 n bs, i < n := by
  intro i hi
  unfold pyRange0 at hi
  rw [List.mem_map] at hi
  obtain ⟨q, hq, rfl⟩ := hi
  rw [List.mem_range] at hq
  have e : n + bs - 1 = (n - 1) + bs := by omega
  rw [e, Nat.add_div_right _ hbs] at hq
  have h1 : q * bs ≤ (n - 1) / bs * bs := Nat.mul_le_mul_right _ (by omega)
  have h2 : (n - 1) / bs * bs ≤ n - 1 := Nat.div_mul_le_self _ _
  omega

theorem exactDiagSum_eq (bs0 : Nat) (hbs : 0 < bs0) (A : Op R) (hg : Good A) (hsq : A.rows = A.cols)
    (k : Int) :
    exactDiagSum bs0 A k = (List.range A.rows).map (fun (r : Nat) =>
      if 0 ≤ (r : Int) + k ∧ (r : Int) + k < (A.rows : Int) then A.den.f r ((r : Int) + k).toNat else 0) := by
  unfold exactDiagSum
  simp only []
  rcases Nat.eq_zero_or_pos A.rows with h0 | hpos
  · rw [h0]
    simp [pyRange0]
  · have hb : 0 < min bs0 A.rows := by omega
    have hZ : List.replicate A.rows (0 : R) = (List.range A.rows).map (fun _ => (0 : R)) := by
      simp
    rw [hZ]
    have hcongr : ∀ (acc : List R), ∀ i ∈ pyRange0 A.rows (min bs0 A.rows),
        List.zipWith (· + ·) acc (chunkRowSums A A.rows k i (min (i + min bs0 A.rows) A.rows)) =
        List.zipWith (· + ·) acc ((List.range A.rows).map (fun (r : Nat) =>
          if (i : Int) ≤ (r : Int) + k ∧ (r : Int) + k < ((min (i + min bs0 A.rows) A.rows : Nat) : Int)
            then A.den.f r ((r : Int) + k).toNat else 0)) := by
      intro acc i hi
      have hin := pyRange0_lt A.rows _ hpos hb i hi
      rw [chunkRowSums_eq A hg A.rows rfl hsq.symm k i _ (by omega) (by omega)]
    rw [List.foldl_ext _ _ _ hcongr]
    rw [foldl_zipWith_add A.rows (fun i r =>
          if (i : Int) ≤ (r : Int) + k ∧ (r : Int) + k < ((min (i + min bs0 A.rows) A.rows : Nat) : Int)
            then A.den.f r ((r : Int) + k).toNat else 0)]
    apply List.map_congr_left
    intro r _
    rw [zero_add]
    exact chunk_partition A.rows (min bs0 A.rows) hb ((r : Int) + k) _

omit [CommRing R] [StarRing R] [DecidableEq R] in
theorem diagK_length (D : MatF R) (n : Nat) (k : Int) : (diagK D n k).length = n - k.natAbs := by
  simp [diagK]

/-- **the probing loop returns the `k`-th diagonal**, for every block-size constant -/
theorem exactDiag_eq (bs0 : Nat) (hbs : 0 < bs0) (A : Op R) (hg : Good A) (hsq : A.rows = A.cols)
    (k : Int) : exactDiag bs0 A k = diagK A.den.f A.rows k := by
  unfold exactDiag
  rw [exactDiagSum_eq bs0 hbs A hg hsq k]
  by_cases hk : k ≤ 0
  · rw [if_pos hk]
    apply List.ext_getElem
    · simp [diagK]
    · intro t h1 h2
      simp only [diagK, List.length_map, List.length_range] at h2
      simp only [diagK, List.getElem_drop, List.getElem_map, List.getElem_range]
      rw [if_pos (by omega)]
      by_cases hk0 : 0 ≤ k
      · have : k = 0 := by omega
        subst this
        simp
      · rw [if_neg hk0]
        congr 1 <;> omega
  · rw [if_neg hk]
    apply List.ext_getElem
    · simp [diagK]; omega
    · intro t h1 h2
      simp only [diagK, List.length_map, List.length_range] at h2
      simp only [diagK, List.getElem_take, List.getElem_map, List.getElem_range]
      rw [if_pos (by omega), if_pos (by omega)]
      congr 1
      omega
end Op
