import ColaVerif.Model.Hutch

/-!
# C17 — the Hutchinson loop body: closed form of the index arithmetic

* `rowsOf_outIx`, `rowsOf_maskIx_nonpos`, `rowsOf_maskIx_pos` — what the three Python slices select;
* `est_form` — `estimator[t, c] = (A z)[t + max(0,-k), c] * z[t + max(0,k), c]` for `|k| < n`, `t < n - |k|`;
* `est_none` — there are exactly `n - |k|` rows;
* `est_diag_exact` — diagonal operator, `k = 0`, `z[i,c]² = 1` ⟹ `estimator[t, c] = A[t,t]`.
-/

open Finset

namespace ColaVerif.Hutch

variable {R : Type}

/-! ## slices -/

theorem rangeList_up (n : Nat) : ∀ (fuel k : Nat), k ≤ n → n - k ≤ fuel →
    Ix.rangeList (k : Int) (n : Int) 1 fuel = List.range' k (n - k)
  | 0, k, _, h => by
    have : n - k = 0 := by omega
    simp [Ix.rangeList, this]
  | fuel + 1, k, hk, h => by
    simp only [Ix.rangeList]
    by_cases hlt : k < n
    · have hc : ((0 : Int) < 1 ∧ (k : Int) < n) ∨ ((1 : Int) < 0 ∧ (k : Int) > n) :=
        Or.inl ⟨by omega, by omega⟩
      rw [if_pos hc]
      have e : (k : Int) + 1 = ((k + 1 : Nat) : Int) := by push_cast; rfl
      rw [e, rangeList_up n fuel (k + 1) (by omega) (by omega)]
      have e2 : n - k = (n - (k + 1)) + 1 := by omega
      rw [e2, List.range'_succ]
      simp
    · have hc : ¬ (((0 : Int) < 1 ∧ (k : Int) < n) ∨ ((1 : Int) < 0 ∧ (k : Int) > n)) := by omega
      rw [if_neg hc]
      have : n - k = 0 := by omega
      simp [this]

theorem resolve_slice_eq (n : Nat) (start stop : Option Int) (a b : Nat) (hab : a ≤ b) (hbn : b ≤ n)
    (h : Ix.sliceIndices n start stop none = ((a : Int), (b : Int), 1)) :
    rowsOf n (.slice start stop none) = List.range' a (b - a) := by
  simp only [rowsOf, Ix.resolve]
  rw [if_neg (by simp), h]
  simp only [Option.getD_some]
  exact rangeList_up b (n + 1) a hab (by omega)

/-- `slice(m, None)` -/
theorem si_from (n m : Nat) (hm : m ≤ n) :
    Ix.sliceIndices n (some (m : Int)) none none = ((m : Int), (n : Int), 1) := by
  simp only [Ix.sliceIndices, Option.getD_none]
  split_ifs <;> first | (exfalso; omega) | (refine Prod.ext ?_ (Prod.ext ?_ ?_) <;> simp only <;> omega)

/-- `slice(None, -m)` for `0 < m ≤ n` -/
theorem si_upto_neg (n m : Nat) (hm : m ≤ n) (h0 : 0 < m) :
    Ix.sliceIndices n none (some (-(m : Int))) none = (((0 : Nat) : Int), ((n - m : Nat) : Int), (1 : Int)) := by
  simp only [Ix.sliceIndices, Option.getD_none]
  split_ifs <;> first | (exfalso; omega) | (refine Prod.ext ?_ (Prod.ext ?_ ?_) <;> simp only <;> omega)

/-- `slice(None, None)` -/
theorem si_full (n : Nat) :
    Ix.sliceIndices n none none none = (((0 : Nat) : Int), (n : Int), (1 : Int)) := by
  simp only [Ix.sliceIndices, Option.getD_none]
  split_ifs <;> first | (exfalso; omega) | (refine Prod.ext ?_ (Prod.ext ?_ ?_) <;> simp only <;> omega)

/-- `slice(0, m)` for `m ≤ n` -/
theorem si_zero_to (n m : Nat) (hm : m ≤ n) :
    Ix.sliceIndices n (some 0) (some (m : Int)) none = (((0 : Nat) : Int), (m : Int), (1 : Int)) := by
  simp only [Ix.sliceIndices, Option.getD_none]
  split_ifs <;> first | (exfalso; omega) | (refine Prod.ext ?_ (Prod.ext ?_ ?_) <;> simp only <;> omega)

/-- `slice(-m, None)` for `0 < m ≤ n` -/
theorem si_from_neg (n m : Nat) (hm : m ≤ n) (h0 : 0 < m) :
    Ix.sliceIndices n (some (-(m : Int))) none none = (((n - m : Nat) : Int), (n : Int), 1) := by
  simp only [Ix.sliceIndices, Option.getD_none]
  split_ifs <;> first | (exfalso; omega) | (refine Prod.ext ?_ (Prod.ext ?_ ?_) <;> simp only <;> omega)

/-- the rows `[slc]` keeps: `n - |k|` rows starting at `max(0, -k)` -/
theorem rowsOf_outIx (n : Nat) (k : Int) (hk : k.natAbs ≤ n) :
    rowsOf n (outIx k) = List.range' (-k).toNat (n - k.natAbs) := by
  unfold outIx absI
  by_cases hneg : -k > 0
  · rw [if_pos hneg, resolve_slice_eq n _ _ k.natAbs n hk le_rfl (si_from n _ hk)]
    congr 1; omega
  · rw [if_neg hneg]
    by_cases h0 : k = 0
    · subst h0
      simp only [Int.natAbs_zero, Nat.cast_zero, neg_zero, if_true]
      rw [resolve_slice_eq n _ _ 0 n (Nat.zero_le _) le_rfl (si_full n)]
      simp
    · have hpos : 0 < k.natAbs := by omega
      rw [if_neg (by omega), resolve_slice_eq n _ _ 0 (n - k.natAbs) (Nat.zero_le _) (by omega)
        (si_upto_neg n _ hk hpos)]
      congr 1; omega

/-- rows zeroed in `z2` for `k ≤ 0`: the first `|k|` -/
theorem rowsOf_maskIx_nonpos (n : Nat) (k : Int) (hk : k.natAbs ≤ n) (h : k ≤ 0) :
    rowsOf n (maskIx k) = List.range' 0 k.natAbs := by
  unfold maskIx absI
  rw [if_pos h, resolve_slice_eq n _ _ 0 k.natAbs (Nat.zero_le _) hk (si_zero_to n _ hk)]
  simp

/-- rows zeroed in `z2` for `k > 0`: the last `k` -/
theorem rowsOf_maskIx_pos (n : Nat) (k : Int) (hk : k.natAbs ≤ n) (h : 0 < k) :
    rowsOf n (maskIx k) = List.range' (n - k.natAbs) k.natAbs := by
  unfold maskIx absI
  rw [if_neg (by omega), resolve_slice_eq n _ _ (n - k.natAbs) n (by omega) le_rfl
    (si_from_neg n _ hk (by omega))]
  congr 1; omega

/-! ## roll -/

theorem pmod_of_lt (a : Int) (n : Nat) (h0 : 0 ≤ a) (h1 : a < n) : pmod a n = a.toNat := by
  unfold pmod
  rw [Int.emod_eq_of_lt h0 h1]

/-! ## the estimator -/

/-- the row of `A z` and the row of `z` that meet in `estimator[t]` -/
def rowA (k : Int) (t : Nat) : Nat := t + (-k).toNat
def rowZ (k : Int) (t : Nat) : Nat := t + k.toNat

theorem z2Of_at [Zero R] (n : Nat) (z : MatF R) (k : Int) (hk : k.natAbs < n) (t c : Nat)
    (ht : t < n - k.natAbs) : z2Of n z k (rowA k t) c = z (rowZ k t) c := by
  unfold z2Of zeroRows rowA rowZ
  have hnot : (t + (-k).toNat) ∉ rowsOf n (maskIx k) := by
    by_cases h : k ≤ 0
    · rw [rowsOf_maskIx_nonpos n k (by omega) h, List.mem_range']
      rintro ⟨i, hi, he⟩; omega
    · rw [rowsOf_maskIx_pos n k (by omega) (by omega), List.mem_range']
      rintro ⟨i, hi, he⟩; omega
  rw [if_neg hnot]
  unfold roll
  rw [pmod_of_lt _ n (by omega) (by omega)]
  congr 1; omega

/-- closed form of one entry of `estimator` -/
theorem est_form [NonUnitalNonAssocSemiring R] (n : Nat) (A z : MatF R) (k : Int) (hk : k.natAbs < n)
    (t c : Nat) (ht : t < n - k.natAbs) :
    est n A z k t c = mmul n A z (rowA k t) c * z (rowZ k t) c := by
  unfold est
  rw [rowsOf_outIx n k (by omega)]
  have hget : (List.range' (-k).toNat (n - k.natAbs))[t]? = some (rowA k t) := by
    rw [List.getElem?_range' (by simpa using ht)]
    simp [rowA, Nat.add_comm]
  rw [hget]
  simp only
  rw [z2Of_at n z k hk t c ht]

/-- `estimator` has exactly `n - |k|` rows -/
theorem estRows_eq (n : Nat) (k : Int) (hk : k.natAbs ≤ n) : estRows n k = n - k.natAbs := by
  unfold estRows
  rw [rowsOf_outIx n k hk]; simp

/-- in terms of matrix entries: `estimator[t,c] = Σ_q A[t', q] z[q, c] z[t'', c]` -/
theorem est_sum_form [CommSemiring R] (n : Nat) (A z : MatF R) (k : Int) (hk : k.natAbs < n)
    (t c : Nat) (ht : t < n - k.natAbs) :
    est n A z k t c = ∑ q ∈ range n, A (rowA k t) q * (z q c * z (rowZ k t) c) := by
  rw [est_form n A z k hk t c ht, mmul_apply, Finset.sum_mul]
  exact Finset.sum_congr rfl (fun q _ => by ring)

theorem rowA_lt (n : Nat) (k : Int) (t : Nat) (ht : t < n - k.natAbs) : rowA k t < n := by
  unfold rowA; omega

theorem rowZ_lt (n : Nat) (k : Int) (t : Nat) (ht : t < n - k.natAbs) : rowZ k t < n := by
  unfold rowZ; omega

theorem diagK_eq (A : MatF R) (k : Int) (t : Nat) : diagK A k t = A (rowA k t) (rowZ k t) := rfl

/-- Rademacher-type probe (`z² = 1` entrywise) on a diagonal operator, main diagonal: every single
probe column returns the diagonal exactly -/
theorem est_diag_exact [CommSemiring R] (n : Nat) (A z : MatF R) (hn : 0 < n)
    (hdiag : ∀ i j, i < n → j < n → i ≠ j → A i j = 0)
    (t c : Nat) (ht : t < n) (hz : z t c * z t c = 1) :
    est n A z 0 t c = A t t := by
  rw [est_sum_form n A z 0 (by simpa using hn) t c (by simpa using ht)]
  have hA : rowA 0 t = t := by simp [rowA]
  have hZ : rowZ 0 t = t := by simp [rowZ]
  rw [hA, hZ, Finset.sum_eq_single t]
  · rw [hz, mul_one]
  · intro q hq hne
    rw [hdiag t q ht (Finset.mem_range.mp hq) (Ne.symm hne), zero_mul]
  · intro h; exact absurd (Finset.mem_range.mpr ht) h

end ColaVerif.Hutch
