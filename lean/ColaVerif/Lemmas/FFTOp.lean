import ColaVerif.Model.FFTOp
import ColaVerif.Basic.GRat
import ColaVerif.Lemmas.Bridge
import ColaVerif.Lemmas.SmallKernels
import Mathlib.Algebra.Ring.GeomSum
import Mathlib.Algebra.Star.BigOperators
import Mathlib.RingTheory.RootsOfUnity.PrimitiveRoots
import Mathlib.Tactic.IntervalCases

/-!
# `cola.ops.FFT`: the transform sums are products with the DFT matrix, and the matrix is unitary

* `fftMatmat_eq`, `fftRmatmat_eq`: the two code models (`fft` along axis 0; conj–`ifft`–conj along
  axis 1) are `fftDen @ X` and `X @ fftDen`.
* `fftDen_transpose`, `fftDen_adjoint`: the DFT matrix is symmetric; its adjoint is the DFT matrix
  of the conjugate root.
* `FFTParams n ω s`: what the theorems need of the root and the scale, stated for a commutative
  ring (so that `GRat = ℚ[i]`, which is not declared a field, is an instance): `ω^n = 1`,
  `star ω · ω = 1`, `ω^d − 1` is not a zero divisor for `0 < d < n` (in a domain: `ω` primitive,
  `FFTParams.of_primitive`), `s · s · n = 1`, `star s = s`.
* `fft_gram_entry` / `fft_unitary`: `fftDenᴴ · fftDen = 1` from the geometric sum
  `(ζ − 1) Σ_{j<n} ζ^j = ζ^n − 1`.
-/

open Finset Matrix

variable {K : Type}

/-! ## products -/

/-- **`FFT._matmat` is the product with the DFT matrix** (everywhere, not only on the window) -/
theorem fftMatmat_eq [CommSemiring K] (n : Nat) (ω s : K) (b : Nat) (X : MatF K) :
    (fftMatmat n ω s b X).f = mmul n (fftDen n ω s) X := by
  funext k c
  simp only [fftMatmat, forceV_f, dftAxis0, mmul, fftDen, sumTo_eq, Finset.mul_sum]
  apply Finset.sum_congr rfl
  intro j _
  ring

/-- **`FFT._rmatmat`** — conjugate, inverse transform along axis 1 (root `star ω`), conjugate —
**is the product `X @ fftDen`**; needs only that the scale is real -/
theorem fftRmatmat_eq [CommSemiring K] [StarRing K] (n : Nat) (ω s : K) (hs : star s = s)
    (b : Nat) (X : MatF K) :
    (fftRmatmat n ω s b X).f = mmul n X (fftDen n ω s) := by
  funext r k
  simp only [fftRmatmat, forceV_f, conjM, dftAxis1, mmul, fftDen, sumTo_eq, star_mul', star_sum,
    star_star, star_pow, hs, Finset.mul_sum]
  apply Finset.sum_congr rfl
  intro j _
  ring

/-- the DFT matrix is symmetric -/
theorem fftDen_transpose [CommMonoid K] (n : Nat) (ω s : K) :
    transposeM (fftDen n ω s) = fftDen n ω s := by
  funext j k
  simp only [transposeM, fftDen, Nat.mul_comm]

/-- the adjoint of the DFT matrix is the DFT matrix of the conjugate root -/
theorem fftDen_adjoint [CommSemiring K] [StarRing K] (n : Nat) (ω s : K) (hs : star s = s) :
    conjM (transposeM (fftDen n ω s)) = fftDen n (star ω) s := by
  funext j k
  simp only [conjM, transposeM, fftDen, star_mul', star_pow, hs, Nat.mul_comm]

/-- `conj` of the DFT matrix likewise -/
theorem fftDen_conj [CommSemiring K] [StarRing K] (n : Nat) (ω s : K) (hs : star s = s) :
    conjM (fftDen n ω s) = fftDen n (star ω) s := by
  funext j k
  simp only [conjM, fftDen, star_mul', star_pow, hs]

/-! ## the lazy wrappers `Transpose(FFT)`, `Adjoint(FFT)` and `to_dense` -/

/-- `to_dense`: `A @ eye(n)` is the DFT matrix on the window -/
theorem fftToDense_eq [CommSemiring K] (n : Nat) (ω s : K) :
    EqOn n n (fftToDense n ω s).f (fftDen n ω s) := by
  intro i j _ hj
  rw [fftToDense, fftMatmat_eq, mmul_eyeM_right n _ i j hj]

/-- `Transpose(FFT)._matmat`: `(Xᵀ @ F)ᵀ = Fᵀ @ X` -/
theorem fftTMatmat_eq [CommSemiring K] [StarRing K] (n : Nat) (ω s : K) (hs : star s = s)
    (b : Nat) (X : MatF K) :
    (fftTMatmat n ω s b X).f = mmul n (transposeM (fftDen n ω s)) X := by
  funext k c
  simp only [fftTMatmat, forceV_f, fftRmatmat_eq n ω s hs, transposeM, mmul_apply]
  exact Finset.sum_congr rfl fun j _ => mul_comm _ _

/-- `Transpose(FFT)._rmatmat`: `(F @ Xᵀ)ᵀ = X @ Fᵀ` -/
theorem fftTRmatmat_eq [CommSemiring K] (n : Nat) (ω s : K) (b : Nat) (X : MatF K) :
    (fftTRmatmat n ω s b X).f = mmul n X (transposeM (fftDen n ω s)) := by
  funext r k
  simp only [fftTRmatmat, forceV_f, fftMatmat_eq, transposeM, mmul_apply]
  exact Finset.sum_congr rfl fun j _ => mul_comm _ _

/-- `Adjoint(FFT)._matmat`: `conj(conj(X)ᵀ @ F)ᵀ = Fᴴ @ X` -/
theorem fftHMatmat_eq [CommSemiring K] [StarRing K] (n : Nat) (ω s : K) (hs : star s = s)
    (b : Nat) (X : MatF K) :
    (fftHMatmat n ω s b X).f = mmul n (conjM (transposeM (fftDen n ω s))) X := by
  funext k c
  simp only [fftHMatmat, forceV_f, fftRmatmat_eq n ω s hs, transposeM, conjM, mmul_apply,
    star_sum, star_mul', star_star]
  exact Finset.sum_congr rfl fun j _ => mul_comm _ _

/-- `Adjoint(FFT)._rmatmat`: `conj(F @ conj(X)ᵀ)ᵀ = X @ Fᴴ` -/
theorem fftHRmatmat_eq [CommSemiring K] [StarRing K] (n : Nat) (ω s : K) (b : Nat)
    (X : MatF K) :
    (fftHRmatmat n ω s b X).f = mmul n X (conjM (transposeM (fftDen n ω s))) := by
  funext r k
  simp only [fftHRmatmat, forceV_f, fftMatmat_eq, transposeM, conjM, mmul_apply, star_sum,
    star_mul', star_star]
  exact Finset.sum_congr rfl fun j _ => mul_comm _ _

/-! ## the hypotheses on root and scale -/

/-- what `FFT(n)` needs of `ω` and `s` (commutative ring with star) -/
structure FFTParams [CommRing K] [StarRing K] (n : Nat) (ω s : K) : Prop where
  /-- `ω` is an `n`-th root of unity -/
  pow_n : ω ^ n = 1
  /-- `ω` has modulus one: `star ω = ω⁻¹` -/
  star_mul : star ω * ω = 1
  /-- `ω^d ≠ 1` for `0 < d < n`, in the form a ring without cancellation needs: `ω^d − 1` is not
  a zero divisor -/
  regular : ∀ d, 0 < d → d < n → ∀ x : K, (ω ^ d - 1) * x = 0 → x = 0
  /-- `s = 1/√n` -/
  scale : s * s * (n : K) = 1
  /-- `s` is real -/
  star_scale : star s = s

/-- in a domain a primitive `n`-th root of unity of modulus one is all that is needed -/
theorem FFTParams.of_primitive [CommRing K] [IsDomain K] [StarRing K] {n : Nat} {ω s : K}
    (h : IsPrimitiveRoot ω n) (hstar : star ω * ω = 1) (hscale : s * s * (n : K) = 1)
    (hs : star s = s) : FFTParams n ω s where
  pow_n := h.pow_eq_one
  star_mul := hstar
  regular := by
    intro d hd0 hdn x hx
    have hne : ω ^ d - 1 ≠ 0 := sub_ne_zero.mpr (h.pow_ne_one_of_pos_of_lt (by omega) hdn)
    exact (mul_eq_zero.mp hx).resolve_left hne
  scale := hscale
  star_scale := hs

/-- the same over a field, with the hypothesis in the form `star ω = ω⁻¹` -/
theorem FFTParams.of_primitive_field [Field K] [StarRing K] {n : Nat} {ω s : K}
    (h : IsPrimitiveRoot ω n) (hn : n ≠ 0) (hstar : star ω = ω⁻¹) (hscale : s * s * (n : K) = 1)
    (hs : star s = s) : FFTParams n ω s :=
  FFTParams.of_primitive h (by rw [hstar]; exact inv_mul_cancel₀ (h.ne_zero hn)) hscale hs

/-! ## the geometric sum -/

/-- `Σ_{j<n} ζ^j = 0` for an `n`-th root of unity `ζ` with `ζ − 1` not a zero divisor -/
theorem geom_sum_root_eq_zero [CommRing K] {n : Nat} {ζ : K} (hn : ζ ^ n = 1)
    (hreg : ∀ x : K, (ζ - 1) * x = 0 → x = 0) : ∑ j ∈ range n, ζ ^ j = 0 := by
  apply hreg
  rw [mul_geom_sum, hn, sub_self]

theorem fft_pair_le [CommMonoid K] [StarMul K] {ω : K} (h : star ω * ω = 1) (j a d : Nat) :
    star ω ^ (j * a) * ω ^ (j * (a + d)) = (ω ^ d) ^ j := by
  rw [Nat.mul_add, pow_add, ← mul_assoc, ← mul_pow, h, one_pow, one_mul, ← pow_mul, Nat.mul_comm]

theorem fft_pair_ge [CommMonoid K] [StarMul K] {ω : K} (h : star ω * ω = 1) (j b d : Nat) :
    star ω ^ (j * (b + d)) * ω ^ (j * b) = (star ω ^ d) ^ j := by
  rw [Nat.mul_add, pow_add, mul_right_comm, ← mul_pow, h, one_pow, one_mul, ← pow_mul,
    Nat.mul_comm]

/-- **entries of `fftDenᴴ · fftDen`** on the window: the Kronecker delta -/
theorem fft_gram_entry [CommRing K] [StarRing K] {n : Nat} {ω s : K} (P : FFTParams n ω s)
    (a b : Nat) (ha : a < n) (hb : b < n) :
    mmul n (conjM (transposeM (fftDen n ω s))) (fftDen n ω s) a b = if a = b then 1 else 0 := by
  rw [mmul_apply]
  simp only [conjM, transposeM, fftDen, star_mul', star_pow, P.star_scale]
  have hterm : ∀ j, s * star ω ^ (j * a) * (s * ω ^ (j * b))
      = s * s * (star ω ^ (j * a) * ω ^ (j * b)) := by
    intro j
    ring
  simp only [hterm, ← Finset.mul_sum]
  rcases Nat.lt_trichotomy a b with hab | hab | hab
  · -- a < b: the root `ω^(b-a)`
    obtain ⟨d, rfl⟩ := Nat.exists_eq_add_of_le (Nat.le_of_lt hab)
    have hd0 : 0 < d := by omega
    rw [if_neg (by omega)]
    simp only [fft_pair_le P.star_mul]
    rw [geom_sum_root_eq_zero (by rw [← pow_mul, Nat.mul_comm, pow_mul, P.pow_n, one_pow])
      (P.regular d hd0 (by omega)), mul_zero]
  · subst hab
    rw [if_pos rfl]
    have h1 : ∀ j, star ω ^ (j * a) * ω ^ (j * a) = 1 := by
      intro j
      rw [← mul_pow, P.star_mul, one_pow]
    simp only [h1, Finset.sum_const, Finset.card_range, nsmul_eq_mul, mul_one]
    exact P.scale
  · -- b < a: the root `star ω^(a-b) = star (ω^(a-b))`
    obtain ⟨d, rfl⟩ := Nat.exists_eq_add_of_le (Nat.le_of_lt hab)
    have hd0 : 0 < d := by omega
    rw [if_neg (by omega)]
    simp only [fft_pair_ge P.star_mul]
    have hpow : (star ω ^ d) ^ n = 1 := by
      rw [← pow_mul, Nat.mul_comm, pow_mul, ← star_pow, P.pow_n, star_one, one_pow]
    have hreg : ∀ x : K, (star ω ^ d - 1) * x = 0 → x = 0 := by
      intro x hx
      have h2 : (ω ^ d - 1) * star x = 0 := by
        have := congrArg star hx
        simpa only [star_mul', star_sub, star_pow, star_star, star_one, star_zero] using this
      have := P.regular d hd0 (by omega) (star x) h2
      simpa using congrArg star this
    rw [geom_sum_root_eq_zero hpow hreg, mul_zero]

/-- **`FFT(n)` is unitary**, entry form: `fftDenᴴ · fftDen = I` on the `n × n` window -/
theorem fft_unitary [CommRing K] [StarRing K] {n : Nat} {ω s : K} (P : FFTParams n ω s) :
    EqOn n n (mmul n (conjM (transposeM (fftDen n ω s))) (fftDen n ω s)) eyeM := by
  intro a b ha hb
  rw [fft_gram_entry P a b ha hb]
  rfl

/-- **`FFT(n)` is unitary**, Mathlib form (both orders) -/
theorem fft_unitary_matrix [CommRing K] [StarRing K] {n : Nat} {ω s : K} (P : FFTParams n ω s) :
    (MatF.toMatrix n n (fftDen n ω s))ᴴ * MatF.toMatrix n n (fftDen n ω s) = 1 ∧
      MatF.toMatrix n n (fftDen n ω s) * (MatF.toMatrix n n (fftDen n ω s))ᴴ = 1 := by
  have h1 : (MatF.toMatrix n n (fftDen n ω s))ᴴ * MatF.toMatrix n n (fftDen n ω s) = 1 := by
    rw [← MatF.toMatrix_adjoint, ← MatF.toMatrix_mmul, ← MatF.toMatrix_eyeM]
    exact MatF.toMatrix_congr (fft_unitary P)
  exact ⟨h1, mul_eq_one_comm.mp h1⟩

/-! ## instances over `GRat = ℚ[i]` -/

/-- `n = 1`: `ω = 1`, `s = 1` -/
theorem fftParams_one : FFTParams 1 (1 : GRat) 1 where
  pow_n := by simp
  star_mul := by simp
  regular := by
    intro d h0 h1
    omega
  scale := by simp
  star_scale := by simp

/-- `n = 4`: `ω = −i = e^{-2πi/4}`, `s = 1/2` -/
theorem fftParams_four : FFTParams 4 (⟨0, -1⟩ : GRat) ⟨1 / 2, 0⟩ where
  pow_n := by ext <;> norm_num [pow_succ]
  star_mul := by ext <;> norm_num
  regular := by
    intro d h0 h4 x hx
    have hre := congrArg GRat.re hx
    have him := congrArg GRat.im hx
    interval_cases d <;> norm_num [pow_succ] at hre him <;> ext <;> (simp; linarith)
  scale := by
    ext <;> simp [-Nat.cast_ofNat]
    norm_num
  star_scale := by ext <;> norm_num

/-- `n = 2` over ANY commutative star ring containing a real `s` with `2 s² = 1` (`√2` stays
abstract): `ω = −1`; that `−2` is not a zero divisor follows from `s · s · 2 = 1` -/
theorem fftParams_two [CommRing K] [StarRing K] (s : K) (hscale : s * s * ((2 : Nat) : K) = 1)
    (hs : star s = s) : FFTParams 2 (-1 : K) s where
  pow_n := by simp
  star_mul := by simp
  regular := by
    intro d h0 h2 x hx
    obtain rfl : d = 1 := by omega
    have h2x : ((2 : Nat) : K) * x = 0 := by
      have : ((-1 : K) ^ 1 - 1) * x = -(((2 : Nat) : K) * x) := by
        push_cast
        ring
      rw [this] at hx
      exact neg_eq_zero.mp hx
    calc x = s * s * ((2 : Nat) : K) * x := by rw [hscale, one_mul]
      _ = s * s * (((2 : Nat) : K) * x) := by ring
      _ = 0 := by rw [h2x, mul_zero]
  scale := hscale
  star_scale := hs

#print axioms fftMatmat_eq
#print axioms fftToDense_eq
#print axioms fftTMatmat_eq
#print axioms fftHMatmat_eq
#print axioms fftHRmatmat_eq
#print axioms fftRmatmat_eq
#print axioms fft_gram_entry
#print axioms fft_unitary_matrix
#print axioms fftParams_four
#print axioms fftParams_two
