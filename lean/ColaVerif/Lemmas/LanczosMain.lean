import ColaVerif.Lemmas.LanczosLoop
import ColaVerif.Lemmas.LanczosSpec

/-!
# Bridge: the result of the model's `lanczos` at exact arithmetic

* `lanczos_run`: `lanczos` returns the `k`-th iterate of the body, where `k ≤ min(max_iters, n)` is
  the first index at which the stopping test fails; `iters = k`, `info['iterations'] = k + 1`.
* trimming accessors (`col_trimQ`, `getD_trimBeta`, `getD_trimAlpha`, sizes): the returned arrays are
  the columns `1 … k` of `V`, `diag[0 … k-1]`, `subdiag[1 … k-1]`.
* `lanczos_single`: one start vector `v ≠ 0`, `tol ≥ 0`, `min(max_iters, n) ≥ 1`: the final buffers
  satisfy the invariant `Inv` with `j = iters`, `1 ≤ iters ≤ min(max_iters, n)`, and the exit was taken
  at the cap or because `β_k ≤ tol β_1`.
* `lanczos_batch`: several start vectors, under the clause that no returned off-diagonal entry of any
  member is zero.
-/

open scoped InnerProductSpace

set_option linter.unusedSectionVars false

namespace Lanczos

variable {𝕜 E : Type} [RCLike 𝕜] [NormedAddCommGroup E] [InnerProductSpace 𝕜 E]

attribute [local instance] exactNum exactVec

/-- `lanczos` of the model at exact arithmetic (`z = 0`, real tolerance) -/
noncomputable def lanczosExact (A : E →ₗ[𝕜] E) (n : ℕ) (vs : Array E) (maxIters : ℕ) (tol : ℝ) :
    Out 𝕜 E :=
  lanczos (K := 𝕜) (⇑A) n 0 vs maxIters (tol : 𝕜)

section run
variable (A : E →ₗ[𝕜] E) (n : ℕ) (vs : Array E) (maxIters : ℕ) (tol : ℝ)

theorem lanczos_run :
    ∃ k, k ≤ min maxIters n ∧
      (lanczosExact A n vs maxIters tol).final = iter A (min maxIters n) vs k ∧
      (lanczosExact A n vs maxIters tol).iters = k ∧
      (lanczosExact A n vs maxIters tol).info.iterations = k + 1 ∧
      (∀ t, t < k → cond (K := 𝕜) (tol : 𝕜) (min maxIters n) (iter A (min maxIters n) vs t) = true) ∧
      cond (K := 𝕜) (tol : 𝕜) (min maxIters n) (iter A (min maxIters n) vs k) = false := by
  obtain ⟨k, _, hk2, hk3, hk4, hk5, hk6⟩ :=
    whileLoop_iter A tol (min maxIters n) vs (min maxIters n + 1) 0
      { iterations := 0, errors := #[] } (by omega) (by omega) (Nat.zero_le _)
  have h0 : iter A (min maxIters n) vs 0 = initState (min maxIters n) vs := rfl
  rw [h0] at hk3 hk6
  refine ⟨k, hk2, ?_, ?_, ?_, fun t ht => hk4 t (Nat.zero_le _) ht, hk5⟩
  · simp only [lanczosExact, lanczos, lanczosFact]
    exact hk3
  · simp only [lanczosExact, lanczos, lanczosFact]
    have := hk3
    simp only [initState] at this
    rw [this, iter_i]; omega
  · simp only [lanczosExact, lanczos, lanczosFact]
    have := hk6
    simp only [initState] at this
    rw [this]; simp

end run

/-! ### trimming -/

theorem getD_extract {α : Type} (xs : Array α) (start stop i : ℕ) (d : α) :
    (xs.extract start stop).getD i d =
      if i < min stop xs.size - start then xs.getD (start + i) d else d := by
  simp only [Array.getD_eq_getD_getElem?, Array.getElem?_extract]
  split <;> simp

theorem col_trimQ (s : Mem 𝕜 E) (m k c : ℕ) (hV : s.V.size = m + 2) (hk : k ≤ m) (hc : c < k) :
    col 0 (trimQ s k) c = qc s (c + 1) := by
  unfold trimQ col qc col
  rw [getD_extract, getD_extract]
  have h1 : c < min k ((s.V.extract 1 (s.V.size - 1)).size) - 0 := by
    rw [Array.size_extract, hV]; omega
  have h2 : 0 + c < min (s.V.size - 1) s.V.size - 1 := by rw [hV]; omega
  rw [if_pos h1, if_pos h2]
  congr 1; omega

theorem size_trimQ (s : Mem 𝕜 E) (m k : ℕ) (hV : s.V.size = m + 2) (hk : k ≤ m) :
    (trimQ s k).size = k := by
  unfold trimQ
  rw [Array.size_extract, Array.size_extract, hV]; omega

theorem getD_trimBeta (s : Mem 𝕜 E) (m k c : ℕ) (hD : s.diag.size = m) (hk : k ≤ m) (hc : c < k) :
    (trimBeta s k).getD c 0 = dg s c := by
  unfold trimBeta dg
  rw [getD_extract]
  have h1 : c < min k s.diag.size - 0 := by rw [hD]; omega
  rw [if_pos h1]; congr 1; omega

theorem size_trimBeta (s : Mem 𝕜 E) (m k : ℕ) (hD : s.diag.size = m) (hk : k ≤ m) :
    (trimBeta s k).size = k := by
  unfold trimBeta
  rw [Array.size_extract, hD]; omega

theorem getD_trimAlpha (s : Mem 𝕜 E) (m k c : ℕ) (hS : s.subdiag.size = m + 1) (hk : k ≤ m)
    (hc : c + 1 < k) : (trimAlpha s k).getD c 0 = sb s (c + 1) := by
  unfold trimAlpha sb
  rw [getD_extract, getD_extract]
  have h1 : c < min (k - 1) ((s.subdiag.extract 1 (s.subdiag.size - 1)).size) - 0 := by
    rw [Array.size_extract, hS]; omega
  have h2 : 0 + c < min (s.subdiag.size - 1) s.subdiag.size - 1 := by rw [hS]; omega
  rw [if_pos h1, if_pos h2]
  congr 1; omega

theorem size_trimAlpha (s : Mem 𝕜 E) (m k : ℕ) (hS : s.subdiag.size = m + 1) (hk : k ≤ m) :
    (trimAlpha s k).size = k - 1 := by
  unfold trimAlpha
  rw [Array.size_extract, Array.size_extract, hS]; omega

/-- the dense entries of the returned `T` are the tridiagonal table of the invariant -/
theorem tridiagEntry_trim (s : Mem 𝕜 E) (m k a c : ℕ) (hD : s.diag.size = m)
    (hS : s.subdiag.size = m + 1) (hk : k ≤ m) (ha : a < k) (hc : c < k) :
    tridiagEntry (K := 𝕜) (trimAlpha s k) (trimBeta s k) a c =
      triT (fun c => dg s c) (fun c => sb s (c + 1)) a c := by
  unfold tridiagEntry triT
  by_cases h1 : a = c
  · subst h1
    simp only [if_true]
    exact getD_trimBeta s m k a hD hk ha
  · simp only [h1, if_false]
    by_cases h2 : a = c + 1
    · simp only [h2, if_true]
      exact getD_trimAlpha s m k c hS hk (by omega)
    · simp only [h2, if_false]
      by_cases h3 : c = a + 1
      · simp only [h3, if_true]
        exact getD_trimAlpha s m k a hS hk (by omega)
      · simp [h3, Num.zero]

/-! ### one start vector -/

section single
variable (A : E →ₗ[𝕜] E) (hA : A.IsSymmetric) (n maxIters : ℕ) (v : E) (tol : ℝ)
include hA

theorem lanczos_single (hv : v ≠ 0) (htol : 0 ≤ tol) (hm : 1 ≤ min maxIters n) :
    ∃ s : Mem 𝕜 E,
      (lanczosExact A n #[v] maxIters tol).final.mems = #[s] ∧
      Inv A (min maxIters n) v (lanczosExact A n #[v] maxIters tol).iters s ∧
      1 ≤ (lanczosExact A n #[v] maxIters tol).iters ∧
      (lanczosExact A n #[v] maxIters tol).iters ≤ min maxIters n ∧
      (lanczosExact A n #[v] maxIters tol).info.iterations =
        (lanczosExact A n #[v] maxIters tol).iters + 1 ∧
      ((lanczosExact A n #[v] maxIters tol).iters = min maxIters n ∨
        ∃ b1 bk : ℝ, sb s 1 = (b1 : 𝕜) ∧ sb s (lanczosExact A n #[v] maxIters tol).iters = (bk : 𝕜) ∧
          bk ≤ tol * b1) := by
  obtain ⟨k, hk1, hk2, hk3, hk4, hk5, hk6⟩ := lanczos_run A n #[v] maxIters tol
  set m := min maxIters n with hm'
  -- the pending columns are non-zero along the run
  have hpend : ∀ t, t < k → AllPending A m #[v] t := by
    intro t ht
    exact pending_single A tol m htol v hv hA t (fun t' ht' => hk5 t' (by omega)) t (le_refl _)
  have hgood := good_iter A m #[v] hA k hk1 hpend
  have hsize : (iter A m #[v] k).mems.size = 1 := by rw [iter_size]; simp
  obtain ⟨s, hs⟩ : ∃ s, (iter A m #[v] k).mems = #[s] := by
    refine ⟨(iter A m #[v] k).mems[0], ?_⟩
    apply Array.ext
    · simp [hsize]
    · intro i h1 h2
      have : i = 0 := by omega
      subst this; simp
  have hs0 : (iter A m #[v] k).mems[0]? = some s := by rw [hs]; simp
  have hinv : Inv A m v k s := by simpa using hgood 0 s hs0
  -- at least one iteration
  have hk1' : 1 ≤ k := by
    by_contra hcon
    have hk0 : k = 0 := by omega
    subst hk0
    have : cond (K := 𝕜) (tol : 𝕜) m (iter A m #[v] 0) = true := by
      simp only [cond, Bool.and_eq_true, decide_eq_true_eq, iter_i, Array.any_eq_true]
      refine ⟨by omega, 0, by rw [hsize]; omega, ?_⟩
      simp [isLarge]
    rw [this] at hk6; exact absurd hk6 (by simp)
  refine ⟨s, ?_, ?_, ?_, ?_, ?_, ?_⟩
  · rw [hk2, hs]
  · rw [hk3]; exact hinv
  · rw [hk3]; exact hk1'
  · rw [hk3]; exact hk1
  · rw [hk4, hk3]
  · rw [hk3]
    rcases Nat.lt_or_ge k m with hlt | hge
    · right
      obtain ⟨b1, _, h1⟩ := hinv.subReal 1
      obtain ⟨bk, _, h2⟩ := hinv.subReal k
      refine ⟨b1, bk, h1, h2, ?_⟩
      by_contra hcon
      have hlt' : tol * b1 < bk := not_le.mp hcon
      have : cond (K := 𝕜) (tol : 𝕜) m (iter A m #[v] k) = true := by
        simp only [cond, Bool.and_eq_true, decide_eq_true_eq, iter_i, Array.any_eq_true]
        refine ⟨by omega, 0, by rw [hsize]; omega, ?_⟩
        have e0 : (iter A m #[v] k).mems[0] = s := by simp [hs]
        rw [e0]
        simp only [isLarge, Bool.or_eq_true, decide_eq_true_eq]
        left
        have e1 : s.subdiag.getD 1 (Num.zero : 𝕜) = (b1 : 𝕜) := h1
        have e2 : s.subdiag.getD (k + 1 - 1) (Num.zero : 𝕜) = (bk : 𝕜) := by
          have : k + 1 - 1 = k := by omega
          rw [this]; exact h2
        rw [e1, e2]
        simp only [Num.lt, Num.mul, Num.re, decide_eq_true_eq, RCLike.ofReal_re,
          RCLike.re_ofReal_mul]
        exact hlt'
      rw [this] at hk6; exact absurd hk6 (by simp)
    · left; omega

end single

/-! ### several start vectors -/

section batch
variable (A : E →ₗ[𝕜] E) (hA : A.IsSymmetric) (n maxIters : ℕ) (vs : Array E) (tol : ℝ)
include hA

/-- under the clause `hoff` (no returned off-diagonal entry of any member vanishes) every member's
final buffers satisfy the invariant -/
theorem lanczos_batch (hv : ∀ (b : ℕ) (v : E), vs[b]? = some v → v ≠ 0)
    (hoff : ∀ (b : ℕ) (s : Mem 𝕜 E), (lanczosExact A n vs maxIters tol).final.mems[b]? = some s →
      ∀ c, 1 ≤ c → c < (lanczosExact A n vs maxIters tol).iters → sb s c ≠ 0) :
    (lanczosExact A n vs maxIters tol).iters ≤ min maxIters n ∧
    (lanczosExact A n vs maxIters tol).final.mems.size = vs.size ∧
    (lanczosExact A n vs maxIters tol).info.iterations =
        (lanczosExact A n vs maxIters tol).iters + 1 ∧
    ∀ (b : ℕ) (s : Mem 𝕜 E), (lanczosExact A n vs maxIters tol).final.mems[b]? = some s →
      Inv A (min maxIters n) (vs.getD b 0) (lanczosExact A n vs maxIters tol).iters s := by
  obtain ⟨k, hk1, hk2, hk3, hk4, _, _⟩ := lanczos_run A n vs maxIters tol
  rw [hk3] at hoff ⊢
  rw [hk2] at hoff ⊢
  have hpend := pending_of_offdiag A (min maxIters n) vs hA k hk1 hv hoff
  refine ⟨hk1, iter_size A _ vs k, hk4, ?_⟩
  exact good_iter A (min maxIters n) vs hA k hk1 hpend

end batch

end Lanczos
