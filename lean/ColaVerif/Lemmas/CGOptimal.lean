import Mathlib.Analysis.InnerProductSpace.Basic
import Mathlib.Analysis.InnerProductSpace.Symmetric

/-!
# Conjugate gradients in an abstract inner product space (level 2 of the C12 proof)

`cgSeq A M b x0 k` is the UNGUARDED preconditioned CG recurrence (what `take_cg_step` computes while
none of its guards is active, see `Lemmas/CGBridge.lean`).  For symmetric `A`, `M`:

* `CGInv` / `cgInv_all` — the invariant package (true residual, conjugacy, orthogonality),
* `cg_optimal` — the k-th iterate minimises the energy `re ⟪x* - y, A (x* - y)⟫` over
  `x0 + span {p_i | i < k}`,
* `noBreak_of_posDef` — for positive definite `A`, `M` there is no breakdown while `r_i ≠ 0`,
* `dirs_eq_krylov` — `span {p_i | i < k} = K_k(MA, M r0)`,
* `cg_optimal_krylov`, `cg_optimal_unique` — optimality over the Krylov space, and uniqueness of
  the minimiser.
-/

namespace CG

open scoped InnerProductSpace ComplexConjugate

variable {𝕜 E : Type*} [RCLike 𝕜] [NormedAddCommGroup E] [InnerProductSpace 𝕜 E]

structure CGState (𝕜 E : Type*) where
  x : E
  r : E
  p : E
  γ : 𝕜

variable (A M : E →ₗ[𝕜] E)

noncomputable def cgAlpha (s : CGState 𝕜 E) : 𝕜 := s.γ / ⟪s.p, A s.p⟫_𝕜

noncomputable def cgStep (s : CGState 𝕜 E) : CGState 𝕜 E :=
  let α := cgAlpha A s
  let r1 := s.r - α • A s.p
  let γ1 := ⟪r1, M r1⟫_𝕜
  ⟨s.x + α • s.p, r1, M r1 + (γ1 / s.γ) • s.p, γ1⟩

noncomputable def cgInit (b x0 : E) : CGState 𝕜 E :=
  let r0 := b - A x0
  ⟨x0, r0, M r0, ⟪r0, M r0⟫_𝕜⟩

noncomputable def cgSeq (b x0 : E) : ℕ → CGState 𝕜 E
  | 0 => cgInit A M b x0
  | k + 1 => cgStep A M (cgSeq b x0 k)

/-- the invariant package at step k -/
structure CGInv (b x0 : E) (k : ℕ) : Prop where
  res : (cgSeq A M b x0 k).r = b - A (cgSeq A M b x0 k).x
  gam : (cgSeq A M b x0 k).γ = ⟪(cgSeq A M b x0 k).r, M (cgSeq A M b x0 k).r⟫_𝕜
  rp : ⟪(cgSeq A M b x0 k).r, (cgSeq A M b x0 k).p⟫_𝕜 = (cgSeq A M b x0 k).γ
  rpi : ∀ i < k, ⟪(cgSeq A M b x0 k).r, (cgSeq A M b x0 i).p⟫_𝕜 = 0
  pAp : ∀ i < k, ⟪(cgSeq A M b x0 k).p, A (cgSeq A M b x0 i).p⟫_𝕜 = 0
  rz : ∀ i < k, ⟪(cgSeq A M b x0 k).r, M (cgSeq A M b x0 i).r⟫_𝕜 = 0

variable {A M}

theorem gamma_real (hM : M.IsSymmetric) (r : E) : conj ⟪r, M r⟫_𝕜 = ⟪r, M r⟫_𝕜 := by
  rw [inner_conj_symm]; exact hM r r

theorem d_real (hA : A.IsSymmetric) (p : E) : conj ⟪p, A p⟫_𝕜 = ⟪p, A p⟫_𝕜 := by
  rw [inner_conj_symm]; exact hA p p

theorem cgInv_zero (b x0 : E) : CGInv A M b x0 0 where
  res := rfl
  gam := rfl
  rp := rfl
  rpi := fun i hi => absurd hi (Nat.not_lt_zero i)
  pAp := fun i hi => absurd hi (Nat.not_lt_zero i)
  rz := fun i hi => absurd hi (Nat.not_lt_zero i)

section step
variable (A M) in
/-- no breakdown at index i: both denominators non-zero -/
def NoBreak (b x0 : E) (i : ℕ) : Prop :=
  (cgSeq A M b x0 i).γ ≠ 0 ∧ ⟪(cgSeq A M b x0 i).p, A (cgSeq A M b x0 i).p⟫_𝕜 ≠ 0

variable {b x0 : E}

local notation "S" => cgSeq A M b x0

theorem seq_r_succ (i : ℕ) : (S (i+1)).r = (S i).r - cgAlpha A (S i) • A (S i).p := rfl
theorem seq_p_succ (i : ℕ) :
    (S (i+1)).p = M (S (i+1)).r + ((S (i+1)).γ / (S i).γ) • (S i).p := rfl
theorem seq_p_zero : (S 0).p = M (S 0).r := rfl
theorem seq_gamma_succ (i : ℕ) : (S (i+1)).γ = ⟪(S (i+1)).r, M (S (i+1)).r⟫_𝕜 := rfl

theorem alpha_real (hA : A.IsSymmetric) (hM : M.IsSymmetric) {k : ℕ} (hk : CGInv A M b x0 k) :
    conj (cgAlpha A (S k)) = cgAlpha A (S k) := by
  unfold cgAlpha
  rw [map_div₀, d_real hA, hk.gam, gamma_real hM]

theorem alpha_ne (hk : NoBreak A M b x0 k) : cgAlpha A (S k) ≠ 0 := by
  unfold cgAlpha; exact div_ne_zero hk.1 hk.2

/-- A p_i = α_i⁻¹ • (r_i - r_{i+1}) -/
theorem Ap_eq {i : ℕ} (hi : NoBreak A M b x0 i) :
    A (S i).p = (cgAlpha A (S i))⁻¹ • ((S i).r - (S (i+1)).r) := by
  rw [seq_r_succ, sub_sub_cancel, smul_smul, inv_mul_cancel₀ (alpha_ne hi), one_smul]

theorem cgInv_succ (hA : A.IsSymmetric) (hM : M.IsSymmetric) {k : ℕ}
    (hnb : ∀ i ≤ k, NoBreak A M b x0 i)
    (hall : ∀ j ≤ k, CGInv A M b x0 j) : CGInv A M b x0 (k+1) := by
  have hk := hall k le_rfl
  have hα := alpha_real hA hM hk
  have hαne := alpha_ne (hnb k le_rfl)
  have hd := (hnb k le_rfl).2
  have hγ := (hnb k le_rfl).1
  -- (d') new residual orthogonal to all directions p_i, i ≤ k
  have rpi' : ∀ i < k+1, ⟪(S (k+1)).r, (S i).p⟫_𝕜 = 0 := by
    intro i hi
    rw [seq_r_succ, inner_sub_left, inner_smul_left, hα]
    rcases Nat.lt_succ_iff_lt_or_eq.mp hi with hlt | rfl
    · rw [hk.rpi i hlt, hA, hk.pAp i hlt]; simp
    · rw [hk.rp, hA]
      unfold cgAlpha
      field_simp
      ring
  -- (f') new residual M-orthogonal to all earlier residuals
  have rz' : ∀ i < k+1, ⟪(S (k+1)).r, M (S i).r⟫_𝕜 = 0 := by
    intro i hi
    cases i with
    | zero => rw [← seq_p_zero]; exact rpi' 0 hi
    | succ j =>
      have : M (S (j+1)).r = (S (j+1)).p - ((S (j+1)).γ / (S j).γ) • (S j).p := by
        rw [seq_p_succ j]; abel
      rw [this, inner_sub_right, inner_smul_right, rpi' (j+1) hi, rpi' j (by omega)]
      simp
  refine ⟨?_, rfl, ?_, rpi', ?_, rz'⟩
  · -- residual
    show (S k).r - cgAlpha A (S k) • A (S k).p = b - A ((S k).x + cgAlpha A (S k) • (S k).p)
    rw [hk.res, map_add, map_smul]; abel
  · -- ⟪r', p'⟫ = γ'
    rw [seq_p_succ, inner_add_right, inner_smul_right, rpi' k (Nat.lt_succ_self k)]
    simp [seq_gamma_succ]
  · -- A-conjugacy
    intro i hi
    have hnbi := hnb i (Nat.lt_succ_iff.mp hi)
    rw [seq_p_succ k, inner_add_left, inner_smul_left]
    have hzr : ∀ j < k+1, ⟪M (S (k+1)).r, (S j).r⟫_𝕜 = 0 := by
      intro j hj; rw [hM]; exact rz' j hj
    rcases Nat.lt_succ_iff_lt_or_eq.mp hi with hlt | rfl
    · rw [hk.pAp i hlt, Ap_eq hnbi, inner_smul_right, inner_sub_right, hzr i hi,
        hzr (i+1) (by omega)]
      simp
    · -- i = k
      have h1 : ⟪M (S (i+1)).r, A (S i).p⟫_𝕜 = - ((S (i+1)).γ / cgAlpha A (S i)) := by
        rw [Ap_eq hnbi, inner_smul_right, inner_sub_right, hzr i hi, hM, ← seq_gamma_succ]
        field_simp
        ring
      have hγ'r : conj (S (i+1)).γ = (S (i+1)).γ := by rw [seq_gamma_succ]; exact gamma_real hM _
      have hγr : conj (S i).γ = (S i).γ := by rw [hk.gam]; exact gamma_real hM _
      rw [h1, map_div₀, hγ'r, hγr]
      unfold cgAlpha
      field_simp
      ring
end step

section optimal
variable {b x0 : E}
local notation "S" => cgSeq A M b x0

/-- all invariants hold up to K if there is no breakdown before K -/
theorem cgInv_all (hA : A.IsSymmetric) (hM : M.IsSymmetric) (K : ℕ)
    (hnb : ∀ i < K, NoBreak A M b x0 i) : ∀ k ≤ K, CGInv A M b x0 k := by
  intro k
  induction k using Nat.strong_induction_on with
  | _ k ih =>
    intro hk
    cases k with
    | zero => exact cgInv_zero b x0
    | succ j =>
      exact cgInv_succ hA hM (fun i hi => hnb i (by omega)) (fun i hi => ih i (by omega) (by omega))

/-- the directions used so far -/
def dirs (A M : E →ₗ[𝕜] E) (b x0 : E) (k : ℕ) : Submodule 𝕜 E :=
  Submodule.span 𝕜 ((fun i => (cgSeq A M b x0 i).p) '' {i | i < k})

theorem dirs_mono {k l : ℕ} (h : k ≤ l) : dirs A M b x0 k ≤ dirs A M b x0 l :=
  Submodule.span_mono (Set.image_mono (fun i (hi : i < k) => lt_of_lt_of_le hi h))

theorem p_mem_dirs {i k : ℕ} (h : i < k) : (S i).p ∈ dirs A M b x0 k :=
  Submodule.subset_span ⟨i, h, rfl⟩

/-- iterates stay in x0 + span of directions -/
theorem x_mem (k : ℕ) : (S k).x - x0 ∈ dirs A M b x0 k := by
  induction k with
  | zero => simp [cgSeq, cgInit]
  | succ k ih =>
    have : (S (k+1)).x - x0 = ((S k).x - x0) + cgAlpha A (S k) • (S k).p := by
      show (S k).x + cgAlpha A (S k) • (S k).p - x0 = _
      abel
    rw [this]
    exact Submodule.add_mem _ (dirs_mono (Nat.le_succ k) ih)
      (Submodule.smul_mem _ _ (p_mem_dirs (Nat.lt_succ_self k)))

/-- the residual is orthogonal to every direction used so far -/
theorem r_orth_dirs {k : ℕ} (hk : CGInv A M b x0 k) {w : E} (hw : w ∈ dirs A M b x0 k) :
    ⟪(S k).r, w⟫_𝕜 = 0 := by
  refine Submodule.span_induction ?_ ?_ ?_ ?_ hw
  · rintro _ ⟨i, hi, rfl⟩; exact hk.rpi i hi
  · simp
  · intro u v _ _ hu hv; rw [inner_add_right, hu, hv, add_zero]
  · intro c u _ hu; rw [inner_smul_right, hu, mul_zero]

/-- energy (squared A-norm of the error) -/
noncomputable def energy (A : E →ₗ[𝕜] E) (xs y : E) : ℝ := RCLike.re ⟪xs - y, A (xs - y)⟫_𝕜

/-- Krylov optimality over the span of directions: the k-th iterate minimises the energy over
    x_k + dirs k = x0 + dirs k -/
theorem cg_optimal (hA : A.IsSymmetric) (hpos : ∀ v : E, 0 ≤ RCLike.re ⟪v, A v⟫_𝕜)
    {xs : E} (hxs : A xs = b) {k : ℕ} (hk : CGInv A M b x0 k)
    {y : E} (hy : y - x0 ∈ dirs A M b x0 k) :
    energy A xs (S k).x ≤ energy A xs y := by
  set w := y - (S k).x with hw
  have hwmem : w ∈ dirs A M b x0 k := by
    have : w = (y - x0) - ((S k).x - x0) := by rw [hw]; abel
    rw [this]; exact Submodule.sub_mem _ hy (x_mem k)
  have hAe : A (xs - (S k).x) = (S k).r := by rw [map_sub, hxs, hk.res]
  have h0 : ⟪(S k).r, w⟫_𝕜 = 0 := r_orth_dirs hk hwmem
  have hsplit : xs - y = (xs - (S k).x) - w := by rw [hw]; abel
  have key : RCLike.re ⟪(xs - (S k).x) - w, A ((xs - (S k).x) - w)⟫_𝕜 =
      RCLike.re ⟪xs - (S k).x, A (xs - (S k).x)⟫_𝕜 + RCLike.re ⟪w, A w⟫_𝕜 := by
    have h1 : ⟪xs - (S k).x, A w⟫_𝕜 = 0 := by rw [← hA, hAe, h0]
    have h2 : ⟪w, A (xs - (S k).x)⟫_𝕜 = 0 := by rw [hAe, ← inner_conj_symm, h0, map_zero]
    rw [map_sub, inner_sub_left, inner_sub_right, inner_sub_right, h1, h2]
    simp
  unfold energy
  rw [hsplit, key]
  linarith [hpos w]
end optimal

/-! ## positive definiteness: no breakdown -/

/-- positive definite operator (on top of symmetry, which is assumed separately) -/
def PosDefOp (A : E →ₗ[𝕜] E) : Prop := ∀ v : E, v ≠ 0 → 0 < RCLike.re ⟪v, A v⟫_𝕜

theorem PosDefOp.ne_zero {A : E →ₗ[𝕜] E} (h : PosDefOp A) {v : E} (hv : v ≠ 0) : ⟪v, A v⟫_𝕜 ≠ 0 := by
  intro h0
  have := h v hv
  rw [h0] at this
  simp at this

theorem PosDefOp.nonneg {A : E →ₗ[𝕜] E} (h : PosDefOp A) (v : E) : 0 ≤ RCLike.re ⟪v, A v⟫_𝕜 := by
  by_cases hv : v = 0
  · subst hv; simp
  · exact (h v hv).le

section nobreak
variable {b x0 : E}
local notation "S" => cgSeq A M b x0

/-- with `A`, `M` positive definite the recurrence cannot break down while the residual is non-zero -/
theorem noBreak_of_posDef (hA : A.IsSymmetric) (hM : M.IsSymmetric) (pA : PosDefOp A) (pM : PosDefOp M)
    (K : ℕ) (hr : ∀ i < K, (S i).r ≠ 0) : ∀ i < K, NoBreak A M b x0 i := by
  intro i
  induction i using Nat.strong_induction_on with
  | _ i ih =>
    intro hi
    have hinv : CGInv A M b x0 i :=
      cgInv_all hA hM i (fun j hj => ih j hj (lt_trans hj hi)) i le_rfl
    have hγ : (S i).γ ≠ 0 := by rw [hinv.gam]; exact pM.ne_zero (hr i hi)
    have hp : (S i).p ≠ 0 := by
      intro hp0
      apply hγ
      rw [← hinv.rp, hp0, inner_zero_right]
    exact ⟨hγ, pA.ne_zero hp⟩

/-- `γ_i` is a positive real -/
theorem gamma_pos (hA : A.IsSymmetric) (hM : M.IsSymmetric) (pA : PosDefOp A) (pM : PosDefOp M)
    {i : ℕ} (hr : ∀ j ≤ i, (S j).r ≠ 0) :
    0 < RCLike.re (S i).γ ∧ ((RCLike.re (S i).γ : ℝ) : 𝕜) = (S i).γ := by
  have hnb := noBreak_of_posDef hA hM pA pM (i + 1) (fun j hj => hr j (Nat.lt_succ_iff.mp hj))
  have hinv : CGInv A M b x0 i := cgInv_all hA hM i (fun j hj => hnb j (by omega)) i le_rfl
  rw [hinv.gam]
  exact ⟨pM _ (hr i le_rfl), RCLike.conj_eq_iff_re.mp (gamma_real hM _)⟩

/-- `⟪p_i, A p_i⟫` is a positive real -/
theorem pAp_pos (hA : A.IsSymmetric) (hM : M.IsSymmetric) (pA : PosDefOp A) (pM : PosDefOp M)
    {i : ℕ} (hr : ∀ j ≤ i, (S j).r ≠ 0) :
    0 < RCLike.re ⟪(S i).p, A (S i).p⟫_𝕜 ∧
      ((RCLike.re ⟪(S i).p, A (S i).p⟫_𝕜 : ℝ) : 𝕜) = ⟪(S i).p, A (S i).p⟫_𝕜 := by
  have hnb := noBreak_of_posDef hA hM pA pM (i + 1) (fun j hj => hr j (Nat.lt_succ_iff.mp hj))
  have hinv : CGInv A M b x0 i := cgInv_all hA hM i (fun j hj => hnb j (by omega)) i le_rfl
  have hp : (S i).p ≠ 0 := by
    intro hp0
    apply (hnb i (Nat.lt_succ_self i)).1
    rw [← hinv.rp, hp0, inner_zero_right]
  exact ⟨pA _ hp, RCLike.conj_eq_iff_re.mp (d_real hA _)⟩

end nobreak

/-! ## the span of the directions is the Krylov space -/

/-- `K_k(T, v) = span {T^j v | j < k}` -/
def krylov (T : E →ₗ[𝕜] E) (v : E) (k : ℕ) : Submodule 𝕜 E :=
  Submodule.span 𝕜 ((fun j => (T ^ j) v) '' {j | j < k})

theorem krylov_mono {T : E →ₗ[𝕜] E} {v : E} {k l : ℕ} (h : k ≤ l) : krylov T v k ≤ krylov T v l :=
  Submodule.span_mono (Set.image_mono (fun i (hi : i < k) => lt_of_lt_of_le hi h))

theorem pow_mem_krylov {T : E →ₗ[𝕜] E} {v : E} {j k : ℕ} (h : j < k) : (T ^ j) v ∈ krylov T v k :=
  Submodule.subset_span ⟨j, h, rfl⟩

theorem map_mem_krylov {T : E →ₗ[𝕜] E} {v : E} {k : ℕ} {w : E} (hw : w ∈ krylov T v k) :
    T w ∈ krylov T v (k + 1) := by
  refine Submodule.span_induction ?_ ?_ ?_ ?_ hw
  · rintro _ ⟨j, hj, rfl⟩
    have : T ((T ^ j) v) = (T ^ (j + 1)) v := by rw [pow_succ']; rfl
    rw [this]
    exact pow_mem_krylov (Nat.succ_lt_succ hj)
  · simp
  · intro u w _ _ hu hw; rw [map_add]; exact Submodule.add_mem _ hu hw
  · intro c u _ hu; rw [map_smul]; exact Submodule.smul_mem _ _ hu

section krylov
variable {b x0 : E}
local notation "S" => cgSeq A M b x0
local notation "Tm" => (M ∘ₗ A)
local notation "Km" => krylov (M ∘ₗ A) (M (b - A x0))

theorem seq_r_zero : (S 0).r = b - A x0 := rfl

/-- `M r_i` and `p_i` lie in `K_{i+1}` (no hypothesis needed) -/
theorem Mr_p_mem_krylov (i : ℕ) : M (S i).r ∈ Km (i + 1) ∧ (S i).p ∈ Km (i + 1) := by
  induction i with
  | zero =>
    have : M (S 0).r ∈ Km 1 := by
      have h := pow_mem_krylov (T := Tm) (v := M (b - A x0)) (Nat.zero_lt_one)
      rw [pow_zero] at h
      exact h
    exact ⟨this, this⟩
  | succ i ih =>
    have h1 : M (S (i + 1)).r ∈ Km (i + 2) := by
      have e : M (S (i + 1)).r = M (S i).r - cgAlpha A (S i) • Tm (S i).p := by
        rw [seq_r_succ, map_sub, map_smul]; rfl
      rw [e]
      refine Submodule.sub_mem _ (krylov_mono (Nat.le_succ _) ih.1) (Submodule.smul_mem _ _ ?_)
      exact map_mem_krylov (T := Tm) ih.2
    refine ⟨h1, ?_⟩
    rw [seq_p_succ]
    exact Submodule.add_mem _ h1 (Submodule.smul_mem _ _ (krylov_mono (Nat.le_succ _) ih.2))

theorem dirs_le_krylov (k : ℕ) : dirs A M b x0 k ≤ Km k := by
  refine Submodule.span_le.mpr ?_
  rintro _ ⟨i, hi, rfl⟩
  exact krylov_mono (Nat.succ_le_of_lt hi) (Mr_p_mem_krylov i).2

/-- `M r_i ∈ span {p_0 … p_i}` -/
theorem Mr_mem_dirs (i : ℕ) : M (S i).r ∈ dirs A M b x0 (i + 1) := by
  cases i with
  | zero => rw [← seq_p_zero]; exact p_mem_dirs (Nat.lt_succ_self 0)
  | succ j =>
    have : M (S (j+1)).r = (S (j+1)).p - ((S (j+1)).γ / (S j).γ) • (S j).p := by
      rw [seq_p_succ j]; abel
    rw [this]
    exact Submodule.sub_mem _ (p_mem_dirs (Nat.lt_succ_self _))
      (Submodule.smul_mem _ _ (p_mem_dirs (by omega)))

/-- `MA p_i ∈ span {p_0 … p_{i+1}}` when step `i` does not break down -/
theorem T_p_mem_dirs {i : ℕ} (hi : NoBreak A M b x0 i) : Tm (S i).p ∈ dirs A M b x0 (i + 2) := by
  show M (A (S i).p) ∈ _
  rw [Ap_eq hi, map_smul, map_sub]
  exact Submodule.smul_mem _ _
    (Submodule.sub_mem _ (dirs_mono (Nat.le_succ _) (Mr_mem_dirs i)) (Mr_mem_dirs (i + 1)))

theorem T_mem_dirs {j : ℕ} (hnb : ∀ i ≤ j, NoBreak A M b x0 i) {w : E}
    (hw : w ∈ dirs A M b x0 (j + 1)) : Tm w ∈ dirs A M b x0 (j + 2) := by
  refine Submodule.span_induction ?_ ?_ ?_ ?_ hw
  · rintro _ ⟨i, hi, rfl⟩
    have hi' : i ≤ j := Nat.lt_succ_iff.mp hi
    exact dirs_mono (by omega) (T_p_mem_dirs (hnb i hi'))
  · simp
  · intro u w _ _ hu hw; rw [map_add]; exact Submodule.add_mem _ hu hw
  · intro c u _ hu; rw [map_smul]; exact Submodule.smul_mem _ _ hu

theorem pow_mem_dirs (j : ℕ) (hnb : ∀ i < j, NoBreak A M b x0 i) :
    (Tm ^ j) (M (b - A x0)) ∈ dirs A M b x0 (j + 1) := by
  induction j with
  | zero =>
    have : (Tm ^ 0) (M (b - A x0)) = (S 0).p := by simp [seq_p_zero, seq_r_zero]
    rw [this]; exact p_mem_dirs (Nat.lt_succ_self 0)
  | succ j ih =>
    have : (Tm ^ (j + 1)) (M (b - A x0)) = Tm ((Tm ^ j) (M (b - A x0))) := by rw [pow_succ']; rfl
    rw [this]
    exact T_mem_dirs (fun i hi => hnb i (Nat.lt_succ_iff.mpr hi)) (ih (fun i hi => hnb i (by omega)))

theorem krylov_le_dirs (k : ℕ) (hnb : ∀ i < k, NoBreak A M b x0 i) : Km k ≤ dirs A M b x0 k := by
  refine Submodule.span_le.mpr ?_
  rintro _ ⟨j, hj, rfl⟩
  exact dirs_mono (Nat.succ_le_of_lt hj) (pow_mem_dirs j (fun i hi => hnb i (lt_trans hi hj)))

/-- the directions span the (preconditioned) Krylov space -/
theorem dirs_eq_krylov (k : ℕ) (hnb : ∀ i < k, NoBreak A M b x0 i) : dirs A M b x0 k = Km k :=
  le_antisymm (dirs_le_krylov k) (krylov_le_dirs k hnb)

/-- the iterate lies in `x0 + K_k` (no hypothesis needed) -/
theorem x_mem_krylov (k : ℕ) : (S k).x - x0 ∈ Km k := dirs_le_krylov k (x_mem k)

/-- **Krylov optimality**: for symmetric positive definite `A`, `M`, as long as the residuals
`r_0 … r_{k-1}` are non-zero, `x_k` minimises the energy over `x0 + K_k(MA, M r0)`. -/
theorem cg_optimal_krylov (hA : A.IsSymmetric) (hM : M.IsSymmetric) (pA : PosDefOp A)
    (pM : PosDefOp M) {xs : E} (hxs : A xs = b) {k : ℕ} (hr : ∀ i < k, (S i).r ≠ 0)
    {y : E} (hy : y - x0 ∈ Km k) : energy A xs (S k).x ≤ energy A xs y := by
  have hnb := noBreak_of_posDef hA hM pA pM k hr
  have hinv := cgInv_all hA hM k hnb k le_rfl
  exact cg_optimal hA pA.nonneg hxs hinv (krylov_le_dirs k hnb hy)

/-- the minimiser is unique: any point of `x0 + K_k` whose energy does not exceed that of `x_k`
is `x_k` -/
theorem cg_optimal_unique (hA : A.IsSymmetric) (hM : M.IsSymmetric) (pA : PosDefOp A)
    (pM : PosDefOp M) {xs : E} (hxs : A xs = b) {k : ℕ} (hr : ∀ i < k, (S i).r ≠ 0)
    {y : E} (hy : y - x0 ∈ Km k) (hle : energy A xs y ≤ energy A xs (S k).x) : y = (S k).x := by
  have hnb := noBreak_of_posDef hA hM pA pM k hr
  have hk := cgInv_all hA hM k hnb k le_rfl
  set w := y - (S k).x with hw
  have hwmem : w ∈ dirs A M b x0 k := by
    have : w = (y - x0) - ((S k).x - x0) := by rw [hw]; abel
    rw [this]; exact Submodule.sub_mem _ (krylov_le_dirs k hnb hy) (x_mem k)
  have hAe : A (xs - (S k).x) = (S k).r := by rw [map_sub, hxs, hk.res]
  have h0 : ⟪(S k).r, w⟫_𝕜 = 0 := r_orth_dirs hk hwmem
  have hsplit : xs - y = (xs - (S k).x) - w := by rw [hw]; abel
  have key : RCLike.re ⟪(xs - (S k).x) - w, A ((xs - (S k).x) - w)⟫_𝕜 =
      RCLike.re ⟪xs - (S k).x, A (xs - (S k).x)⟫_𝕜 + RCLike.re ⟪w, A w⟫_𝕜 := by
    have h1 : ⟪xs - (S k).x, A w⟫_𝕜 = 0 := by rw [← hA, hAe, h0]
    have h2 : ⟪w, A (xs - (S k).x)⟫_𝕜 = 0 := by rw [hAe, ← inner_conj_symm, h0, map_zero]
    rw [map_sub, inner_sub_left, inner_sub_right, inner_sub_right, h1, h2]
    simp
  unfold energy at hle
  rw [hsplit, key] at hle
  by_contra hne
  have hw0 : w ≠ 0 := fun h => hne (sub_eq_zero.mp (hw ▸ h))
  linarith [pA w hw0]

end krylov

end CG
