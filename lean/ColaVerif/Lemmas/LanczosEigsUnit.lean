import Mathlib.Analysis.InnerProductSpace.Basic
import Mathlib.LinearAlgebra.Eigenspace.Basic
import Mathlib.Data.List.GetD
import ColaVerif.Lemmas.LanczosOut

/-!
# `lanczos_eigs` under the strengthened `eigh` contracts (round 3)

The hypothesis `eigh_contract` of `C14_lanczos_eigs` (`EighPairs` here) lets `eigh` return zero columns, so that
"Ritz pair" can be satisfied vacuously.  This file adds

* `EighNonzero` (no returned column is zero) and `EighUnit` (the `k` returned columns are orthonormal — what
  `numpy.linalg.eigh` / LAPACK document; `EighUnit.toNonzero`);
* `eigs_core`: the conclusion of `eigs_out` with EXPLICIT witnesses (`idx = argsort`, `θ_j`, `x_j = Q y_j` =
  `ritzVec`) and position by position on the returned arrays;
* `eigs_out_nonzero`: non-zero columns ⇒ non-zero Ritz vectors, `HasEigenvector` for every returned pair when
  the residual column vanishes;
* `eigs_out_unit`: orthonormal columns ⇒ orthonormal Ritz vectors (`⟪Q y_a, Q y_b⟫ = ⟪y_a, y_b⟫`,
  `inner_comb_comb`), Ritz value = Rayleigh quotient of its vector, real.

`eigh` meeting either contract is an ASSUMED contract of LAPACK; `Lemmas/LanczosExample.lean` (2 × 2) and
`Lemmas/LanczosExample3.lean` (3 × 3) witness it exactly.
-/

open scoped InnerProductSpace ComplexConjugate
open Finset

set_option linter.unusedSectionVars false

namespace Lanczos

variable {𝕜 E : Type} [RCLike 𝕜] [NormedAddCommGroup E] [InnerProductSpace 𝕜 E]

attribute [local instance] exactNum exactVec

/-! ### combinations of an orthonormal family -/

section comb
variable {k : ℕ} {q : ℕ → E}

/-- `⟪Q y, Q z⟫ = ⟪y, z⟫` for `Q` with orthonormal columns -/
theorem inner_comb_comb (hq : Orthonormal 𝕜 (fun c : Fin k => q c)) (y z : ℕ → 𝕜) :
    ⟪∑ c ∈ range k, y c • q c, ∑ c ∈ range k, z c • q c⟫_𝕜 = ∑ c ∈ range k, conj (y c) * z c := by
  rw [Finset.sum_range (fun c => y c • q c), Finset.sum_range (fun c => z c • q c),
    Finset.sum_range (fun c => conj (y c) * z c)]
  exact hq.inner_sum (fun c : Fin k => y c) (fun c : Fin k => z c) Finset.univ

/-- `q_aᴴ (Q y) = y_a` -/
theorem inner_col_comb (hq : Orthonormal 𝕜 (fun c : Fin k => q c)) (y : ℕ → 𝕜) (a : ℕ) (ha : a < k) :
    ⟪q a, ∑ c ∈ range k, y c • q c⟫_𝕜 = y a := by
  rw [Finset.sum_range (fun c => y c • q c)]
  exact hq.inner_right_fintype (fun c : Fin k => y c) ⟨a, ha⟩

/-- `Q y ≠ 0` for `y ≠ 0` -/
theorem comb_ne_zero (hq : Orthonormal 𝕜 (fun c : Fin k => q c)) (y : ℕ → 𝕜)
    (hy : ∃ a, a < k ∧ y a ≠ 0) : ∑ c ∈ range k, y c • q c ≠ 0 := by
  obtain ⟨a, ha, hya⟩ := hy
  intro h
  apply hya
  rw [← inner_col_comb hq y a ha, h, inner_zero_right]

end comb

/-! ### a list that is a permutation of `0 … k-1` -/

theorem perm_range_facts {idx : List ℕ} {k : ℕ} (h : idx.Perm (List.range k)) :
    idx.length = k ∧ (∀ i, i < k → idx.getD i 0 < k) ∧
    ∀ i j, i < k → j < k → idx.getD i 0 = idx.getD j 0 → i = j := by
  have hlen : idx.length = k := by rw [h.length_eq, List.length_range]
  have hnd : idx.Nodup := h.nodup_iff.mpr List.nodup_range
  refine ⟨hlen, ?_, ?_⟩
  · intro i hi
    have hi' : i < idx.length := by omega
    rw [List.getD_eq_getElem _ _ hi']
    have := h.mem_iff.mp (List.getElem_mem hi')
    exact List.mem_range.mp this
  · intro i j hi hj hij
    have hi' : i < idx.length := by omega
    have hj' : j < idx.length := by omega
    rw [List.getD_eq_getElem _ _ hi', List.getD_eq_getElem _ _ hj'] at hij
    exact (hnd.getElem_inj_iff).mp hij

theorem getD_of_toList_map {α : Type} (arr : Array α) (idx : List ℕ) (f : ℕ → α) (d : α)
    (h : arr.toList = idx.map f) (i : ℕ) (hi : i < idx.length) :
    arr.size = idx.length ∧ arr.getD i d = f (idx.getD i 0) := by
  have hs : arr.size = idx.length := by
    rw [← Array.length_toList, h, List.length_map]
  refine ⟨hs, ?_⟩
  have hi' : i < arr.size := by omega
  rw [Array.getD_eq_getD_getElem?, Array.getElem?_eq_getElem hi', Option.getD_some,
    ← Array.getElem_toList (h := by simpa using hi')]
  simp only [h, List.getElem_map]
  rw [List.getD_eq_getElem _ _ hi]

/-! ### the contracts on `eigh` -/

/-- the contract `eigh_contract` of `C14_lanczos_eigs` on the output `e` of `eigh` for a `k × k` matrix
`T`: `k` values, and column `j` is an eigen-column for value `j` (possibly the zero column) -/
structure EighPairs (k : ℕ) (T : ℕ → ℕ → 𝕜) (e : Array 𝕜 × Array (Array 𝕜)) : Prop where
  size : e.1.size = k
  pair : ∀ j a, j < k → a < k →
    ∑ c ∈ range k, T a c * (e.2.getD j #[]).getD c 0 = e.1.getD j 0 * (e.2.getD j #[]).getD a 0

/-- … and no returned column is the zero column -/
structure EighNonzero (k : ℕ) (T : ℕ → ℕ → 𝕜) (e : Array 𝕜 × Array (Array 𝕜)) : Prop
    extends EighPairs k T e where
  nonzero : ∀ j, j < k → ∃ c, c < k ∧ (e.2.getD j #[]).getD c 0 ≠ 0

/-- … and the `k` returned columns are orthonormal (what `numpy.linalg.eigh` documents) -/
structure EighUnit (k : ℕ) (T : ℕ → ℕ → 𝕜) (e : Array 𝕜 × Array (Array 𝕜)) : Prop
    extends EighPairs k T e where
  orthonormal : ∀ i j, i < k → j < k →
    ∑ c ∈ range k, conj ((e.2.getD i #[]).getD c 0) * (e.2.getD j #[]).getD c 0 = if i = j then 1 else 0

theorem EighUnit.toNonzero {k : ℕ} {T : ℕ → ℕ → 𝕜} {e : Array 𝕜 × Array (Array 𝕜)}
    (h : EighUnit k T e) : EighNonzero k T e := by
  refine { toEighPairs := h.toEighPairs, nonzero := ?_ }
  intro j hj
  by_contra hcon
  have hz : ∀ c, c < k → (e.2.getD j #[]).getD c 0 = 0 := by
    intro c hc
    by_contra hne
    exact hcon ⟨c, hc, hne⟩
  have := h.orthonormal j j hj hj
  rw [if_pos rfl, Finset.sum_eq_zero] at this
  · exact zero_ne_one this
  · intro c hc
    rw [hz c (mem_range.mp hc), mul_zero]

/-! ### `lanczos_eigs` with explicit witnesses -/

section eigs
variable (eigh : Array (Array 𝕜) → Array 𝕜 × Array (Array 𝕜))
  (A : E →ₗ[𝕜] E) (n maxIters : ℕ) (v : E) (tol : ℝ)

/-- the output of `eigh` on the returned tridiagonal matrix of the run -/
noncomputable def eighOut : Array 𝕜 × Array (Array 𝕜) :=
  eigh (tridiagDense (K := 𝕜) ((lanczosExact A n #[v] maxIters tol).alpha.getD 0 #[])
    ((lanczosExact A n #[v] maxIters tol).beta.getD 0 #[]))

/-- Ritz vector `j`: `Q y_j` -/
noncomputable def ritzVec (j : ℕ) : E :=
  ∑ c ∈ range (lanczosExact A n #[v] maxIters tol).iters,
    ((eighOut eigh A n maxIters v tol).2.getD j #[]).getD c 0 • (lanczosExact A n #[v] maxIters tol).q 0 c

theorem eigs_lists (hA : A.IsSymmetric) (hv : v ≠ 0) (htol : 0 ≤ tol) (hm : 1 ≤ min maxIters n) :
    (lanczosEigs (K := 𝕜) eigh (⇑A) n 0 v maxIters (tol : 𝕜)).1.toList =
      (argsort (K := 𝕜) (eighOut eigh A n maxIters v tol).1).map
        (fun j => (eighOut eigh A n maxIters v tol).1.getD j 0) ∧
    (lanczosEigs (K := 𝕜) eigh (⇑A) n 0 v maxIters (tol : 𝕜)).2.toList =
      (argsort (K := 𝕜) (eighOut eigh A n maxIters v tol).1).map (ritzVec eigh A n maxIters v tol) := by
  obtain ⟨_, _, _, hQs, _, _, _, _⟩ := single_out A hA n maxIters v tol hv htol hm
  refine ⟨rfl, ?_⟩
  have hx : ∀ j, combine (K := 𝕜) 0 ((lanczosExact A n #[v] maxIters tol).Q.getD 0 #[])
      ((eighOut eigh A n maxIters v tol).2.getD j #[]) = ritzVec eigh A n maxIters v tol j := by
    intro j
    rw [combine_eq_sum, hQs]; rfl
  simp only [lanczosEigs]
  show List.map (fun j => combine (K := 𝕜) 0 ((lanczosExact A n #[v] maxIters tol).Q.getD 0 #[])
      ((eighOut eigh A n maxIters v tol).2.getD j #[])) _ = _
  exact List.map_congr_left (fun j _ => hx j)

end eigs

section eigs2
variable (eigh : Array (Array 𝕜) → Array 𝕜 × Array (Array 𝕜))
  (A : E →ₗ[𝕜] E) (n maxIters : ℕ) (v : E) (tol : ℝ)

/-- `lanczos_eigs` under the contract `EighPairs`, with explicit witnesses (`idx = argsort`, `θ_j`, `x_j = Q y_j`)
and position by position: entry `i` of the returned arrays is the pair number `idx[i]` -/
theorem eigs_core (hA : A.IsSymmetric) (hv : v ≠ 0) (htol : 0 ≤ tol) (hm : 1 ≤ min maxIters n)
    (hc : EighPairs (lanczosExact A n #[v] maxIters tol).iters ((lanczosExact A n #[v] maxIters tol).T 0)
      (eighOut eigh A n maxIters v tol)) :
    let o := lanczosExact A n #[v] maxIters tol
    let res := lanczosEigs (K := 𝕜) eigh (⇑A) n 0 v maxIters (tol : 𝕜)
    let k := o.iters
    let e := eighOut eigh A n maxIters v tol
    let idx := argsort (K := 𝕜) e.1
    let θ : ℕ → 𝕜 := fun j => e.1.getD j 0
    let x : ℕ → E := ritzVec eigh A n maxIters v tol
    idx.Perm (List.range k) ∧ res.1.toList = idx.map θ ∧ res.2.toList = idx.map x ∧
    (idx.map θ).Pairwise (fun a b => RCLike.re a ≤ RCLike.re b) ∧
    (∀ j, j < k → A (x j) - θ j • x j = (e.2.getD j #[]).getD (k - 1) 0 • o.resid A 0) ∧
    res.1.size = k ∧ res.2.size = k ∧
    (∀ i, i < k → idx.getD i 0 < k ∧ res.1.getD i 0 = θ (idx.getD i 0) ∧ res.2.getD i 0 = x (idx.getD i 0)) ∧
    (∀ i j, i < k → j < k → idx.getD i 0 = idx.getD j 0 → i = j) ∧
    (∀ i j, i < j → j < k → RCLike.re (res.1.getD i 0) ≤ RCLike.re (res.1.getD j 0)) := by
  intro o res k e idx θ x
  obtain ⟨_, _, _, _, _, _, hspec, _⟩ := single_out A hA n maxIters v tol hv htol hm
  obtain ⟨hl1, hl2⟩ := eigs_lists eigh A n maxIters v tol hA hv htol hm
  have hperm : idx.Perm (List.range k) := by
    have := argsort_perm (𝕜 := 𝕜) e.1
    rw [hc.size] at this; exact this
  obtain ⟨hlen, hlt, hinj⟩ := perm_range_facts hperm
  have hsorted : (idx.map θ).Pairwise (fun a b => RCLike.re a ≤ RCLike.re b) := by
    rw [List.pairwise_map]
    exact argsort_sorted (𝕜 := 𝕜) e.1
  have hpos : ∀ i, i < k → idx.getD i 0 < k ∧ res.1.getD i 0 = θ (idx.getD i 0) ∧
      res.2.getD i 0 = x (idx.getD i 0) := by
    intro i hi
    exact ⟨hlt i hi, (getD_of_toList_map res.1 idx θ 0 hl1 i (by omega)).2,
      (getD_of_toList_map res.2 idx x 0 hl2 i (by omega)).2⟩
  refine ⟨hperm, hl1, hl2, hsorted, ?_, ?_, ?_, hpos, hinj, ?_⟩
  · intro j hj
    exact hspec.ritz (fun c => (e.2.getD j #[]).getD c 0) (e.1.getD j 0) (fun a ha => hc.pair j a hj ha)
  · rw [← Array.length_toList, hl1, List.length_map, hlen]
  · rw [← Array.length_toList, hl2, List.length_map, hlen]
  · intro i j hij hj
    rw [(hpos i (by omega)).2.1, (hpos j hj).2.1]
    have := List.pairwise_iff_getElem.mp hsorted i j (by simp; omega) (by simp; omega) hij
    rw [List.getD_eq_getElem _ _ (show i < idx.length by omega),
      List.getD_eq_getElem _ _ (show j < idx.length by omega)]
    simpa using this

end eigs2

section eigs3
variable (eigh : Array (Array 𝕜) → Array 𝕜 × Array (Array 𝕜))
  (A : E →ₗ[𝕜] E) (n maxIters : ℕ) (v : E) (tol : ℝ)

/-- **`lanczos_eigs` when `eigh` returns non-zero eigen-columns**: every returned Ritz vector is non-zero,
the returned arrays have `k` entries, entry `i` is a Ritz pair (`A x - θ x` a multiple of the residual
column `r`), the values ascend position by position, and after an exit with `r = 0` every returned pair
is an eigenpair of `A` (`HasEigenvector`: the vector is non-zero) -/
theorem eigs_out_nonzero (hA : A.IsSymmetric) (hv : v ≠ 0) (htol : 0 ≤ tol) (hm : 1 ≤ min maxIters n)
    (hc : EighNonzero (lanczosExact A n #[v] maxIters tol).iters ((lanczosExact A n #[v] maxIters tol).T 0)
      (eighOut eigh A n maxIters v tol)) :
    let o := lanczosExact A n #[v] maxIters tol
    let res := lanczosEigs (K := 𝕜) eigh (⇑A) n 0 v maxIters (tol : 𝕜)
    let k := o.iters
    let r := o.resid A 0
    ∃ (idx : List ℕ) (θ : ℕ → 𝕜) (y : ℕ → ℕ → 𝕜) (x : ℕ → E),
      idx.Perm (List.range k) ∧
      res.1.toList = idx.map θ ∧ res.2.toList = idx.map x ∧
      (idx.map θ).Pairwise (fun a b => RCLike.re a ≤ RCLike.re b) ∧
      (∀ j, j < k → x j = ∑ c ∈ range k, y j c • o.q 0 c ∧ A (x j) - θ j • x j = y j (k - 1) • r) ∧
      (∀ j, j < k → x j ≠ 0) ∧
      res.1.size = k ∧ res.2.size = k ∧
      (∀ i, i < k → res.2.getD i 0 ≠ 0 ∧
        ∃ c : 𝕜, A (res.2.getD i 0) - res.1.getD i 0 • res.2.getD i 0 = c • r) ∧
      (∀ i j, i < j → j < k → RCLike.re (res.1.getD i 0) ≤ RCLike.re (res.1.getD j 0)) ∧
      (r = 0 → ∀ i, i < k → Module.End.HasEigenvector A (res.1.getD i 0) (res.2.getD i 0)) := by
  intro o res k r
  obtain ⟨_, _, _, _, _, _, hspec, _⟩ := single_out A hA n maxIters v tol hv htol hm
  obtain ⟨h1, h2, h3, h4, h5, h6, h7, hpos, _, hasc⟩ :=
    eigs_core eigh A n maxIters v tol hA hv htol hm hc.toEighPairs
  have hne : ∀ j, j < k → ritzVec eigh A n maxIters v tol j ≠ 0 := fun j hj =>
    comb_ne_zero hspec.orthonormal (fun c => ((eighOut eigh A n maxIters v tol).2.getD j #[]).getD c 0)
      (hc.nonzero j hj)
  refine ⟨_, _, fun j c => ((eighOut eigh A n maxIters v tol).2.getD j #[]).getD c 0, _, h1, h2, h3, h4,
    fun j hj => ⟨rfl, h5 j hj⟩, hne, h6, h7, ?_, hasc, ?_⟩
  · intro i hi
    obtain ⟨hlt, e1, e2⟩ := hpos i hi
    rw [e1, e2]
    exact ⟨hne _ hlt, _, h5 _ hlt⟩
  · intro hr i hi
    obtain ⟨hlt, e1, e2⟩ := hpos i hi
    rw [e1, e2]
    refine ⟨?_, hne _ hlt⟩
    rw [Module.End.mem_eigenspace_iff]
    have := h5 _ hlt
    rw [show o.resid A 0 = 0 from hr, smul_zero, sub_eq_zero] at this
    exact this

/-- **`lanczos_eigs` when `eigh` returns orthonormal eigen-columns** (`EighUnit`): in addition the Ritz
vectors are orthonormal (`⟪Q y_a, Q y_b⟫ = ⟪y_a, y_b⟫` because `Q` has orthonormal columns), every Ritz value
is the Rayleigh quotient `⟪x, A x⟫` of its vector and is real — for the pairs and position by position for
the returned arrays -/
theorem eigs_out_unit (hA : A.IsSymmetric) (hv : v ≠ 0) (htol : 0 ≤ tol) (hm : 1 ≤ min maxIters n)
    (hc : EighUnit (lanczosExact A n #[v] maxIters tol).iters ((lanczosExact A n #[v] maxIters tol).T 0)
      (eighOut eigh A n maxIters v tol)) :
    let o := lanczosExact A n #[v] maxIters tol
    let res := lanczosEigs (K := 𝕜) eigh (⇑A) n 0 v maxIters (tol : 𝕜)
    let k := o.iters
    let r := o.resid A 0
    ∃ (idx : List ℕ) (θ : ℕ → 𝕜) (y : ℕ → ℕ → 𝕜) (x : ℕ → E),
      idx.Perm (List.range k) ∧
      res.1.toList = idx.map θ ∧ res.2.toList = idx.map x ∧
      (idx.map θ).Pairwise (fun a b => RCLike.re a ≤ RCLike.re b) ∧
      (∀ j, j < k → x j = ∑ c ∈ range k, y j c • o.q 0 c ∧ A (x j) - θ j • x j = y j (k - 1) • r) ∧
      (∀ i j, i < k → j < k → ⟪x i, x j⟫_𝕜 = ∑ c ∈ range k, conj (y i c) * y j c) ∧
      Orthonormal 𝕜 (fun j : Fin k => x j) ∧
      (∀ j, j < k → x j ≠ 0 ∧ θ j = ⟪x j, A (x j)⟫_𝕜 ∧ ∃ t : ℝ, θ j = (t : 𝕜)) ∧
      res.1.size = k ∧ res.2.size = k ∧
      Orthonormal 𝕜 (fun i : Fin k => res.2.getD i 0) ∧
      (∀ i, i < k → res.2.getD i 0 ≠ 0 ∧ (∃ t : ℝ, res.1.getD i 0 = (t : 𝕜)) ∧
        res.1.getD i 0 = ⟪res.2.getD i 0, A (res.2.getD i 0)⟫_𝕜 ∧
        ∃ c : 𝕜, A (res.2.getD i 0) - res.1.getD i 0 • res.2.getD i 0 = c • r) ∧
      (∀ i j, i < j → j < k → RCLike.re (res.1.getD i 0) ≤ RCLike.re (res.1.getD j 0)) ∧
      (r = 0 → ∀ i, i < k → Module.End.HasEigenvector A (res.1.getD i 0) (res.2.getD i 0)) := by
  intro o res k r
  obtain ⟨_, _, _, _, _, _, hspec, _⟩ := single_out A hA n maxIters v tol hv htol hm
  obtain ⟨h1, h2, h3, h4, h5, h6, h7, hpos, hinj, hasc⟩ :=
    eigs_core eigh A n maxIters v tol hA hv htol hm hc.toEighPairs
  set e := eighOut eigh A n maxIters v tol with he
  set x : ℕ → E := ritzVec eigh A n maxIters v tol with hx
  set θ : ℕ → 𝕜 := fun j => e.1.getD j 0 with hθ
  have hiso : ∀ i j, i < k → j < k →
      ⟪x i, x j⟫_𝕜 = ∑ c ∈ range k, conj ((e.2.getD i #[]).getD c 0) * (e.2.getD j #[]).getD c 0 :=
    fun i j _ _ => inner_comb_comb hspec.orthonormal _ _
  have hon : ∀ i j, i < k → j < k → ⟪x i, x j⟫_𝕜 = if i = j then 1 else 0 := by
    intro i j hi hj; rw [hiso i j hi hj, hc.orthonormal i j hi hj]
  have hnorm : ∀ j, j < k → ‖x j‖ = 1 := by
    intro j hj
    have := hon j j hj hj
    rw [if_pos rfl, inner_self_eq_norm_sq_to_K] at this
    have h2 : ((‖x j‖ ^ 2 : ℝ) : 𝕜) = ((1 : ℝ) : 𝕜) := by push_cast; exact this
    have h3 : ‖x j‖ ^ 2 = 1 := by exact_mod_cast h2
    have h0 : 0 ≤ ‖x j‖ := norm_nonneg _
    nlinarith
  have hne : ∀ j, j < k → x j ≠ 0 := by
    intro j hj h0
    have := hnorm j hj
    rw [h0, norm_zero] at this
    exact zero_ne_one this
  have hxr : ∀ j, ⟪x j, r⟫_𝕜 = 0 := by
    intro j
    show ⟪ritzVec eigh A n maxIters v tol j, r⟫_𝕜 = 0
    unfold ritzVec
    rw [sum_inner]
    apply Finset.sum_eq_zero
    intro c hc
    rw [inner_smul_left, hspec.rorth c (mem_range.mp hc), mul_zero]
  have hray : ∀ j, j < k → θ j = ⟪x j, A (x j)⟫_𝕜 := by
    intro j hj
    have hj5 := h5 j hj
    have : A (x j) = θ j • x j + (e.2.getD j #[]).getD (k - 1) 0 • r := by
      rw [← hj5]; abel
    rw [this, inner_add_right, inner_smul_right, inner_smul_right, hxr j, mul_zero, add_zero,
      hon j j hj hj, if_pos rfl, mul_one]
  have hreal : ∀ j, j < k → ∃ t : ℝ, θ j = (t : 𝕜) := by
    intro j hj
    rw [← RCLike.conj_eq_iff_real, hray j hj, inner_conj_symm]
    exact hA (x j) (x j)
  have honF : Orthonormal 𝕜 (fun j : Fin k => x j) := by
    rw [orthonormal_iff_ite]
    intro i j
    rw [hon i j i.2 j.2]
    simp [Fin.ext_iff]
  have honR : Orthonormal 𝕜 (fun i : Fin k => res.2.getD i 0) := by
    rw [orthonormal_iff_ite]
    intro i j
    rw [(hpos i i.2).2.2, (hpos j j.2).2.2, hon _ _ (hpos i i.2).1 (hpos j j.2).1]
    by_cases hij : i = j
    · subst hij; simp
    · rw [if_neg hij, if_neg]
      intro h
      exact hij (Fin.ext (hinj i j i.2 j.2 h))
  refine ⟨_, _, fun j c => (e.2.getD j #[]).getD c 0, _, h1, h2, h3, h4,
    fun j hj => ⟨rfl, h5 j hj⟩, hiso, honF, fun j hj => ⟨hne j hj, hray j hj, hreal j hj⟩, h6, h7, honR,
    ?_, hasc, ?_⟩
  · intro i hi
    obtain ⟨hlt, e1, e2⟩ := hpos i hi
    rw [e1, e2]
    exact ⟨hne _ hlt, hreal _ hlt, hray _ hlt, _, h5 _ hlt⟩
  · intro hr i hi
    obtain ⟨hlt, e1, e2⟩ := hpos i hi
    rw [e1, e2]
    refine ⟨?_, hne _ hlt⟩
    rw [Module.End.mem_eigenspace_iff]
    have := h5 _ hlt
    rw [show o.resid A 0 = 0 from hr, smul_zero, sub_eq_zero] at this
    exact this

end eigs3

end Lanczos
