import ColaVerif.Lemmas.Bridge
import Mathlib.LinearAlgebra.Matrix.Determinant.Basic
import Mathlib.LinearAlgebra.Matrix.Block
import Mathlib.LinearAlgebra.Matrix.Kronecker

/-!
# C07, matrix level: determinants of the model's primitives

`detN n D` = Mathlib's `Matrix.det` of the `n × n` window of the entry function `D`.  No `Op`
here: identity, scalar, diagonal, triangular, matrix product, `np.kron` (binary and n-ary),
`block_diag` (with repeated blocks).
-/

open Matrix
open scoped Kronecker

variable {R : Type} [CommRing R]

/-- determinant of the `n × n` window -/
noncomputable def detN (n : Nat) (D : MatF R) : R := Matrix.det (MatF.toMatrix n n D)

theorem detN_congr {n : Nat} {D D' : MatF R} (h : EqOn n n D D') : detN n D = detN n D' := by
  unfold detN; rw [MatF.toMatrix_congr h]

theorem detN_zero (D : MatF R) : detN 0 D = 1 := by
  unfold detN; exact Matrix.det_isEmpty

theorem detN_eyeM (n : Nat) : detN n (eyeM : MatF R) = 1 := by
  unfold detN; rw [MatF.toMatrix_eyeM, det_one]

theorem toMatrix_diagM_logdet (n : Nat) (d : Nat → R) :
    MatF.toMatrix n n (diagM d) = Matrix.diagonal (fun i : Fin n => d i.val) := by
  ext i j
  simp only [MatF.toMatrix_apply, diagM, Matrix.diagonal_apply, Fin.ext_iff]

theorem prod_fin_eq_list (n : Nat) (d : Nat → R) :
    ∏ i : Fin n, d i.val = ((List.range n).map d).prod := by
  induction n with
  | zero => simp
  | succ n ih =>
    rw [Fin.prod_univ_castSucc, List.range_succ, List.map_append, List.prod_append]
    simp [ih]

theorem detN_diagM (n : Nat) (d : Nat → R) : detN n (diagM d) = ((List.range n).map d).prod := by
  unfold detN
  rw [toMatrix_diagM_logdet, det_diagonal, prod_fin_eq_list]

theorem detN_scalar (n : Nat) (s : R) : detN n (fun i j => if i = j then s else 0) = s ^ n := by
  have h : (fun i j => if i = j then s else 0 : MatF R) = diagM (fun _ => s) := rfl
  rw [h, detN_diagM]
  simp

/-- lower / upper triangular windows -/
theorem detN_lower (n : Nat) (a : MatF R) (h : ∀ i j, i < n → j < n → i < j → a i j = 0) :
    detN n a = ((List.range n).map (fun i => a i i)).prod := by
  unfold detN
  rw [det_of_isLowerTriangular, ← prod_fin_eq_list n (fun i => a i i)]
  · rfl
  · intro i j hij
    exact h i.val j.val i.isLt j.isLt hij

theorem detN_upper (n : Nat) (a : MatF R) (h : ∀ i j, i < n → j < n → j < i → a i j = 0) :
    detN n a = ((List.range n).map (fun i => a i i)).prod := by
  unfold detN
  rw [det_of_isUpperTriangular, ← prod_fin_eq_list n (fun i => a i i)]
  · rfl
  · intro i j hij
    exact h i.val j.val i.isLt j.isLt hij

theorem detN_mmul (n : Nat) (A B : MatF R) : detN n (mmul n A B) = detN n A * detN n B := by
  unfold detN
  rw [MatF.toMatrix_mmul, det_mul]

theorem detN_adjoint [StarRing R] (n : Nat) (A : MatF R) :
    detN n (conjM (transposeM A)) = star (detN n A) := by
  unfold detN
  rw [MatF.toMatrix_adjoint, det_conjTranspose]

/-- `np.kron` of two square windows -/
theorem detN_kron2 (r r' : Nat) (A B : MatF R) :
    detN (r * r') (kron2 r' r' A B) = detN r A ^ r' * detN r' B ^ r := by
  unfold detN
  rw [MatF.toMatrix_kron2, det_reindex_self, det_kronecker]
  simp

/-- one step of `block_diag` with square blocks -/
theorem detN_blockDiagM_cons (r R' : Nat) (m : MatF R) (rest : List (Nat × Nat × MatF R)) :
    detN (r + R') (blockDiagM ((r, r, m) :: rest)) = detN r m * detN R' (blockDiagM rest) := by
  unfold detN
  rw [MatF.toMatrix_blockDiagM_cons, det_reindex_self, det_fromBlocks_zero₂₁]

/-! ## n-ary Kronecker product -/

theorem kronDen_cons_kron2 (M : FacAct R) (Ms : List (FacAct R)) :
    kronDen (M :: Ms) = kron2 (Ms.map (·.r)).prod (Ms.map (·.c)).prod M.a (kronDen Ms) := by
  funext I J
  rw [kronDen_cons]
  rfl

theorem prod_map_pow_const {α : Type} (L : List α) (f : α → R) (k : Nat) :
    (L.map (fun x => f x ^ k)).prod = (L.map f).prod ^ k := by
  induction L with
  | nil => simp
  | cons x L ih => simp [ih, mul_pow]

omit [CommRing R] in
theorem map_r_eq_map_c {L : List (FacAct R)} (hsq : ∀ F ∈ L, F.r = F.c) :
    L.map (·.r) = L.map (·.c) := List.map_congr_left hsq

/-- `det (A₁ ⊗ … ⊗ A_k) = ∏ᵢ det(Aᵢ) ^ (N / nᵢ)`, `N = ∏ nᵢ` — the exponents of the Kronecker rule -/
theorem detN_kronDen : ∀ (L : List (FacAct R)), (∀ F ∈ L, F.r = F.c) → (∀ F ∈ L, 0 < F.c) →
    detN (L.map (·.r)).prod (kronDen L)
      = (L.map (fun F => detN F.r F.a ^ ((L.map (·.c)).prod / F.c))).prod
  | [], _, _ => by
    have h : EqOn 1 1 (kronDen ([] : List (FacAct R))) eyeM := by
      intro i j hi hj
      have hi0 : i = 0 := by omega
      have hj0 : j = 0 := by omega
      subst hi0 hj0
      simp [eyeM, kronDen, kronEntry]
    simp only [List.map_nil, List.prod_nil]
    rw [detN_congr h, detN_eyeM]
  | F :: L, hsq, hpos => by
    have hsqL : ∀ G ∈ L, G.r = G.c := fun G hG => hsq G (List.mem_cons_of_mem _ hG)
    have hposL : ∀ G ∈ L, 0 < G.c := fun G hG => hpos G (List.mem_cons_of_mem _ hG)
    have ih := detN_kronDen L hsqL hposL
    have hF : F.r = F.c := hsq F List.mem_cons_self
    have hFpos : 0 < F.c := hpos F List.mem_cons_self
    rw [kronDen_cons_kron2]
    simp only [List.map_cons, List.prod_cons]
    rw [← map_r_eq_map_c hsqL, detN_kron2, ih, map_r_eq_map_c hsqL]
    congr 1
    · rw [Nat.mul_div_cancel_left _ hFpos]
    · rw [← prod_map_pow_const]
      congr 1
      apply List.map_congr_left
      intro G hG
      have hdvd : G.c ∣ (L.map (·.c)).prod := List.dvd_prod (List.mem_map_of_mem hG)
      rw [Nat.mul_div_assoc _ hdvd, hF, pow_mul']

/-! ## block diagonal with repeated blocks -/

theorem detN_blockDiagM : ∀ (L : List (Nat × Nat × MatF R)), (∀ q ∈ L, q.1 = q.2.1) →
    detN (L.map (·.1)).sum (blockDiagM L) = (L.map (fun q => detN q.1 q.2.2)).prod
  | [], _ => by simp [detN_zero]
  | (r, c, m) :: L, h => by
    have hrc : r = c := h (r, c, m) List.mem_cons_self
    subst hrc
    simp only [List.map_cons, List.sum_cons, List.prod_cons]
    rw [detN_blockDiagM_cons, detN_blockDiagM L (fun q hq => h q (List.mem_cons_of_mem _ hq))]

omit [CommRing R] in
theorem expandBlocks_sum_rows : ∀ (Ms : List (FacAct R × Nat)),
    ((expandBlocks Ms).map (·.1)).sum = (Ms.map (fun q => q.2 * q.1.r)).sum
  | [] => by simp [expandBlocks]
  | (M, k) :: Ms => by
    have ih := expandBlocks_sum_rows Ms
    simp only [expandBlocks] at ih ⊢
    simp [ih]

theorem expandBlocks_prod_det : ∀ (Ms : List (FacAct R × Nat)),
    ((expandBlocks Ms).map (fun q => detN q.1 q.2.2)).prod
      = (Ms.map (fun q => detN q.1.r q.1.a ^ q.2)).prod
  | [] => by simp [expandBlocks]
  | (M, k) :: Ms => by
    have ih := expandBlocks_prod_det Ms
    simp only [expandBlocks] at ih ⊢
    simp [ih]

/-- `det (⊕ᵢ Aᵢ^{⊕ mᵢ}) = ∏ᵢ det(Aᵢ) ^ mᵢ` -/
theorem detN_bdiagDen (Ms : List (FacAct R × Nat)) (hsq : ∀ q ∈ Ms, q.1.r = q.1.c) :
    detN (Ms.map (fun q => q.2 * q.1.r)).sum (bdiagDen Ms)
      = (Ms.map (fun q => detN q.1.r q.1.a ^ q.2)).prod := by
  rw [← expandBlocks_sum_rows, ← expandBlocks_prod_det]
  apply detN_blockDiagM
  intro q hq
  simp only [expandBlocks, List.mem_flatMap, List.mem_replicate] at hq
  obtain ⟨t, ht, _, rfl⟩ := hq
  exact hsq t ht
