import ColaVerif.Lemmas.AnnotSound

/-!
# The two definitions of the clause `scalar-times-annotated` agree

`Op.scalarTimesAnn` (Model/Wf.lean) is what the driver evaluates to print the clause name;
`Op.scalarTimesAnnotated` (Lemmas/AnnotSound.lean) is the hypothesis `NoScalarTimesAnnotated` of
the C05 theorems.  `Op.scalarTimesAnn_eq` proves them equal on every tree, so the printed clause
is exactly the negation of the theorem hypothesis (`Op.clauses_scalar_iff`).
-/


namespace Op
variable {R : Type} [DecidableEq R]

theorem any_map_congr {α : Type} (f g : α → Bool) (l : List α) (h : ∀ x ∈ l, f x = g x) :
    (l.map f).any id = (l.map g).any id := by
  rw [List.map_congr_left h]

/-- the clause name the driver prints (`Op.scalarTimesAnn`, Model/Wf.lean) is decided by the same
predicate as the hypothesis of the C05 theorems (`Op.scalarTimesAnnotated`) -/
theorem scalarTimesAnn_eq : ∀ (A : Op R), A.scalarTimesAnn = A.scalarTimesAnnotated
  | prod Ms => by
    rw [scalarTimesAnn, scalarTimesAnnotated, Bool.or_comm]
    congr 1
    · unfold prodScalarDefect
      rw [List.filter_map, List.any_map]
      congr 1
      simp only [Function.comp_def]
      generalize Ms.filter (fun M => !isScalarMul M) = L
      match L with
      | [] => rfl
      | [M] => rfl
      | _ :: _ :: _ => rfl
    · exact any_map_congr _ _ Ms (fun M _ => scalarTimesAnn_eq M)
  | sum Ms => by
    rw [scalarTimesAnn, scalarTimesAnnotated]
    exact any_map_congr _ _ Ms (fun M _ => scalarTimesAnn_eq M)
  | kron Ms => by
    rw [scalarTimesAnn, scalarTimesAnnotated]
    exact any_map_congr _ _ Ms (fun M _ => scalarTimesAnn_eq M)
  | kronsum Ms => by
    rw [scalarTimesAnn, scalarTimesAnnotated]
    exact any_map_congr _ _ Ms (fun M _ => scalarTimesAnn_eq M)
  | bdiag Ms _ => by
    rw [scalarTimesAnn, scalarTimesAnnotated]
    exact any_map_congr _ _ Ms (fun M _ => scalarTimesAnn_eq M)
  | concat _ Ms => by
    rw [scalarTimesAnn, scalarTimesAnnotated]
    exact any_map_congr _ _ Ms (fun M _ => scalarTimesAnn_eq M)
  | transpose A => by rw [scalarTimesAnn, scalarTimesAnnotated]; exact scalarTimesAnn_eq A
  | adjoint A => by rw [scalarTimesAnn, scalarTimesAnnotated]; exact scalarTimesAnn_eq A
  | sliced A _ _ => by rw [scalarTimesAnn, scalarTimesAnnotated]; exact scalarTimesAnn_eq A
  | generic A => by rw [scalarTimesAnn, scalarTimesAnnotated]; exact scalarTimesAnn_eq A
  | annot _ A => by rw [scalarTimesAnn, scalarTimesAnnotated]; exact scalarTimesAnn_eq A
  | dense .. => by simp [scalarTimesAnn, scalarTimesAnnotated]
  | tri .. => by simp [scalarTimesAnn, scalarTimesAnnotated]
  | sparse .. => by simp [scalarTimesAnn, scalarTimesAnnotated]
  | scalar .. => by simp [scalarTimesAnn, scalarTimesAnnotated]
  | eye .. => by simp [scalarTimesAnn, scalarTimesAnnotated]
  | diag .. => by simp [scalarTimesAnn, scalarTimesAnnotated]
  | tridiag .. => by simp [scalarTimesAnn, scalarTimesAnnotated]
  | perm .. => by simp [scalarTimesAnn, scalarTimesAnnotated]
  | house .. => by simp [scalarTimesAnn, scalarTimesAnnotated]
termination_by A => sizeOf A
decreasing_by
  all_goals simp_wf
  all_goals first
    | omega
    | (have := List.sizeOf_lt_of_mem ‹_ ∈ _›; omega)

theorem clauses_scalar_iff (A : Op R) :
    "scalar-times-annotated" ∈ A.clauses ↔ ¬ A.NoScalarTimesAnnotated := by
  unfold clauses NoScalarTimesAnnotated
  rw [scalarTimesAnn_eq]
  by_cases h1 : A.dupSlice = true <;> by_cases h2 : A.scalarTimesAnnotated = true <;> simp [h1, h2]

end Op
#print axioms Op.scalarTimesAnn_eq
#print axioms Op.clauses_scalar_iff
