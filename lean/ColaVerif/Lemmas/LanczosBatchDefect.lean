import ColaVerif.Lemmas.LanczosMain

/-!
# The batched loop runs a member past its breakdown (modelled defect)

`batch_breakdown`: a batch `[v₁, v₂]` in which `v₁` is an eigenvector of `A` and `v₂` is not, with
`0 ≤ tol < 1` and `min(max_iters, n) ≥ 2`.  Member 1's Krylov space is exhausted after one step
(`β₁ = 0`), but the stopping test is `any` over the batch and member 2 is still above its threshold,
so the body runs again and normalises member 1's ZERO residual by its zero norm.  In exact
arithmetic (`0⁻¹ = 0` in Lean's fields) the second returned column of member 1 is the zero vector —
in IEEE arithmetic it is `0/0 = NaN`, or a normalised rounding-noise vector when the residual is not
exactly zero.  Either way the member's `Q` does not have orthonormal columns.
-/

open scoped InnerProductSpace

set_option linter.unusedSectionVars false

namespace Lanczos

variable {𝕜 E : Type} [RCLike 𝕜] [NormedAddCommGroup E] [InnerProductSpace 𝕜 E]

attribute [local instance] exactNum exactVec

section
variable (A : E →ₗ[𝕜] E) (m : ℕ) (vs : Array E)

theorem iter_mem_sizes (t b : ℕ) (s : Mem 𝕜 E) (hs : (iter A m vs t).mems[b]? = some s) :
    s.V.size = m + 2 ∧ s.diag.size = m ∧ s.subdiag.size = m + 1 := by
  induction t generalizing s with
  | zero =>
    simp only [iter, Function.iterate_zero, id, initState, Array.getElem?_map] at hs
    cases hv : vs[b]? with
    | none => rw [hv] at hs; simp at hs
    | some v =>
      rw [hv] at hs
      simp only [Option.map_some, Option.some.injEq] at hs
      subst hs
      simp [initMem]
  | succ t ih =>
    rw [iter_mem_succ] at hs
    cases hprev : (iter A m vs t).mems[b]? with
    | none => rw [hprev] at hs; simp at hs
    | some s0 =>
      rw [hprev] at hs
      simp only [Option.map_some, Option.some.injEq] at hs
      subst hs
      obtain ⟨h1, h2, h3⟩ := bodyMem_sizes (𝕜 := 𝕜) (⇑A) (t + 1) s0
      obtain ⟨g1, g2, g3⟩ := ih s0 hprev
      exact ⟨h1.trans g1, h2.trans g2, h3.trans g3⟩

/-- a column below the loop index is never written again -/
theorem col_iter_frame (t : ℕ) : ∀ (d b : ℕ) (s s' : Mem 𝕜 E), (iter A m vs t).mems[b]? = some s →
    (iter A m vs (t + d)).mems[b]? = some s' → t + d ≤ m → ∀ c, c ≤ t → qc s' c = qc s c := by
  intro d
  induction d with
  | zero =>
    intro b s s' h1 h2 _ c _
    rw [Nat.add_zero, h1] at h2
    simp only [Option.some.injEq] at h2
    rw [h2]
  | succ d ih =>
    intro b s s' h1 h2 hm c hc
    rw [← Nat.add_assoc, iter_mem_succ] at h2
    cases hprev : (iter A m vs (t + d)).mems[b]? with
    | none => rw [hprev] at h2; simp at h2
    | some s0 =>
      rw [hprev] at h2
      simp only [Option.map_some, Option.some.injEq] at h2
      subst h2
      obtain ⟨g1, g2, _⟩ := iter_mem_sizes A m vs (t + d) b s0 hprev
      rw [bodyMem_col (𝕜 := 𝕜) (⇑A) (t + d + 1) s0 (by omega) (by rw [g1]; omega) (by rw [g2]; omega)]
      have n1 : c ≠ t + d + 1 + 1 := by omega
      have n2 : c ≠ t + d + 1 := by omega
      simp only [n1, n2, if_false]
      exact ih b s s0 h1 hprev (by omega) c hc

end

theorem batch_breakdown (A : E →ₗ[𝕜] E) (hA : A.IsSymmetric) (n maxIters : ℕ) (v₁ v₂ : E) (a : 𝕜)
    (tol : ℝ) (hv₁ : v₁ ≠ 0) (hv₂ : v₂ ≠ 0) (heig : A v₁ = a • v₁) (hnot : ∀ c : 𝕜, A v₂ ≠ c • v₂)
    (htol1 : tol < 1) (hm : 2 ≤ min maxIters n) :
    2 ≤ (lanczosExact A n #[v₁, v₂] maxIters tol).iters ∧
      col 0 ((lanczosExact A n #[v₁, v₂] maxIters tol).Q.getD 0 #[]) 1 = 0 := by
  obtain ⟨k, hk1, hk2, hk3, _, _, hk6⟩ := lanczos_run A n #[v₁, v₂] maxIters tol
  set m := min maxIters n with hm'
  set vs : Array E := #[v₁, v₂] with hvs
  have hsz : ∀ t, (iter A m vs t).mems.size = 2 := fun t => by rw [iter_size]; simp [hvs]
  -- the pending columns of the initial state are non-zero
  have hp0 : AllPending A m vs 0 := by
    intro b s hs
    have hg := good_iter A m vs hA 0 (Nat.zero_le _) (fun t' h => by omega) b s hs
    obtain ⟨hb, _⟩ := Array.getElem?_eq_some_iff.mp hs
    rw [hsz] at hb
    rw [hg.first]
    have hv : vs.getD b 0 ≠ 0 := by
      rcases (by omega : b = 0 ∨ b = 1) with rfl | rfl <;> simpa [hvs]
    have : ((‖vs.getD b 0‖ : ℝ) : 𝕜) ≠ 0 := by exact_mod_cast norm_ne_zero_iff.mpr hv
    exact smul_ne_zero (inv_ne_zero this) hv
  have hg1 := good_iter A m vs hA 1 (by omega) (fun t' h => by
    have : t' = 0 := by omega
    subst this; exact hp0)
  -- the two members after one step
  have e0 : (iter A m vs 1).mems[0]? = some ((iter A m vs 1).mems[0]'(by rw [hsz]; omega)) := by
    simp [hsz]
  have e1 : (iter A m vs 1).mems[1]? = some ((iter A m vs 1).mems[1]'(by rw [hsz]; omega)) := by
    simp [hsz]
  set s₁ := (iter A m vs 1).mems[0]'(by rw [hsz]; omega) with hs₁
  set s₂ := (iter A m vs 1).mems[1]'(by rw [hsz]; omega) with hs₂
  have inv₁ : Inv A m v₁ 1 s₁ := by simpa [hvs] using hg1 0 s₁ e0
  have inv₂ : Inv A m v₂ 1 s₂ := by simpa [hvs] using hg1 1 s₂ e1
  -- member 1: the residual vanishes
  have hq₁ : qc s₁ 2 = 0 := by
    have hrec := inv₁.recLast (le_refl _)
    have hd := inv₁.diagEq 1 (le_refl _) (le_refl _)
    have hu := inv₁.unit 1 (le_refl _) (le_refl _)
    have hAq : A (qc s₁ 1) = a • qc s₁ 1 := by
      rw [inv₁.first, map_smul, heig, smul_comm]
    simp only [Nat.sub_self] at hrec hd
    rw [hAq, inner_smul_right, inner_self_of_norm_one _ hu, mul_one] at hd
    rw [hAq, inv₁.col0, smul_zero, zero_add, hd] at hrec
    have : a • qc s₁ 1 + qc s₁ (1 + 1) = a • qc s₁ 1 + 0 := by rw [add_zero]; exact hrec.symm
    exact add_left_cancel this
  -- member 2: it does not
  have hq₂ : qc s₂ 2 ≠ 0 := by
    intro hz
    have hrec := inv₂.recLast (le_refl _)
    simp only [Nat.sub_self] at hrec
    rw [inv₂.col0, smul_zero, zero_add, hz, add_zero, inv₂.first, map_smul] at hrec
    have hn : ((‖v₂‖ : ℝ) : 𝕜)⁻¹ ≠ 0 := by
      apply inv_ne_zero; exact_mod_cast norm_ne_zero_iff.mpr hv₂
    have := congrArg (fun x => (((‖v₂‖ : ℝ) : 𝕜)⁻¹)⁻¹ • x) hrec
    simp only [smul_smul, inv_mul_cancel₀ hn, one_smul] at this
    exact hnot _ this
  -- hence the test holds at the first two iterates
  have hc0 : cond (K := 𝕜) (tol : 𝕜) m (iter A m vs 0) = true := by
    simp only [cond, Bool.and_eq_true, decide_eq_true_eq, iter_i, Array.any_eq_true]
    refine ⟨by omega, 0, by rw [hsz]; omega, ?_⟩
    simp [isLarge]
  have hc1 : cond (K := 𝕜) (tol : 𝕜) m (iter A m vs 1) = true := by
    simp only [cond, Bool.and_eq_true, decide_eq_true_eq, iter_i, Array.any_eq_true]
    refine ⟨by omega, 1, by rw [hsz]; omega, ?_⟩
    show isLarge (K := 𝕜) (tol : 𝕜) (1 + 1) s₂ = true
    simp only [isLarge, Bool.or_eq_true, decide_eq_true_eq]
    left
    have hb : sb s₂ 1 = ((‖qc s₂ 2‖ : ℝ) : 𝕜) := inv₂.subLast (le_refl _)
    have e : s₂.subdiag.getD 1 (Num.zero : 𝕜) = ((‖qc s₂ 2‖ : ℝ) : 𝕜) := hb
    simp only [Nat.add_sub_cancel, e]
    simp only [Num.lt, Num.mul, Num.re, decide_eq_true_eq, RCLike.ofReal_re, RCLike.re_ofReal_mul]
    have hpos : 0 < ‖qc s₂ 2‖ := norm_pos_iff.mpr hq₂
    nlinarith
  have hk2' : 2 ≤ k := by
    by_contra hcon
    rcases (by omega : k = 0 ∨ k = 1) with rfl | rfl
    · rw [hc0] at hk6; exact absurd hk6 (by simp)
    · rw [hc1] at hk6; exact absurd hk6 (by simp)
  refine ⟨by rw [hk3]; exact hk2', ?_⟩
  -- member 1 at the second iterate: 0 / ‖0‖
  have hbk : 0 < (iter A m vs k).mems.size := by rw [hsz]; omega
  have ek : (iter A m vs k).mems[0]? = some ((iter A m vs k).mems[0]) := by simp [hbk]
  have e2 : (iter A m vs 2).mems[0]? = some (bodyMem (K := 𝕜) (⇑A) 0 2 s₁) := by
    rw [iter_mem_succ, e0]; rfl
  obtain ⟨g1, g2, _⟩ := iter_mem_sizes A m vs 1 0 s₁ e0
  have hcol2 : qc (bodyMem (K := 𝕜) (⇑A) 0 2 s₁) 2 = 0 := by
    rw [bodyMem_col (𝕜 := 𝕜) (⇑A) 2 s₁ (by omega) (by rw [g1]; omega) (by rw [g2]; omega)]
    simp only [show (2 : ℕ) ≠ 2 + 1 by omega, if_false, if_true]
    unfold qi'
    rw [hq₁, smul_zero]
  have hfin : qc ((iter A m vs k).mems[0]) 2 = 0 := by
    have hk : k = 2 + (k - 2) := by omega
    have := col_iter_frame A m vs 2 (k - 2) 0 _ _ e2 (by rw [← hk]; exact ek) (by omega) 2 (le_refl _)
    rw [this, hcol2]
  -- the returned column
  have hQ : (lanczosExact A n #[v₁, v₂] maxIters tol).Q.getD 0 #[] = trimQ ((iter A m vs k).mems[0]) k := by
    have hQ' : (lanczosExact A n #[v₁, v₂] maxIters tol).Q =
        (lanczosExact A n #[v₁, v₂] maxIters tol).final.mems.map
          (fun s => trimQ s (lanczosExact A n #[v₁, v₂] maxIters tol).iters) := rfl
    rw [hQ', hk3, hk2]
    simp [Array.getD_eq_getD_getElem?, hbk]
  rw [hQ]
  obtain ⟨f1, _, _⟩ := iter_mem_sizes A m vs k 0 _ ek
  rw [col_trimQ _ m k 1 f1 hk1 (by omega)]
  exact hfin

end Lanczos
