import ColaVerif.Lemmas.OpAlgebra
import ColaVerif.Model.Index

/-!
# C20: `LinearOperator.__getitem__` against NumPy indexing of the represented matrix

* `GRes.Agree` — equivalence of a code result with a specification result;
* `Op.colVec_eq`, `Op.rowVec_eq` — column / row extraction (`A @ e_j`, `A.T @ e_i`);
* `Op.hermOK_sliced` — a principal sub-operator of a Hermitian operator is Hermitian, so the
  `Sliced` operator `getitem` builds satisfies the hypotheses of `Op.td_eq`;
* the named clauses `NoArrPair`, `NoDupIx`;
* `Op.getitem_agree` — the case analysis over the `match` of `__getitem__`.
-/

open Finset

/-! ## `Ix.resolve` on the full slice -/

theorem Ix.rangeList_up (n : Nat) : ∀ (fuel k : Nat), k ≤ n → n - k ≤ fuel →
    Ix.rangeList (k : Int) (n : Int) 1 fuel = List.range' k (n - k)
  | 0, k, _, h => by
    have : n - k = 0 := by omega
    simp [Ix.rangeList, this]
  | fuel + 1, k, hk, h => by
    simp only [Ix.rangeList]
    by_cases hlt : k < n
    · have hc : ((0 : Int) < 1 ∧ (k : Int) < n) ∨ ((1 : Int) < 0 ∧ (k : Int) > n) :=
        Or.inl ⟨by omega, by omega⟩
      rw [if_pos hc]
      have e : (k : Int) + 1 = ((k + 1 : Nat) : Int) := by push_cast; rfl
      rw [e, Ix.rangeList_up n fuel (k + 1) (by omega) (by omega)]
      have e2 : n - k = (n - (k + 1)) + 1 := by omega
      rw [e2, List.range'_succ]
      simp
    · have hc : ¬ (((0 : Int) < 1 ∧ (k : Int) < n) ∨ ((1 : Int) < 0 ∧ (k : Int) > n)) := by omega
      rw [if_neg hc]
      have : n - k = 0 := by omega
      simp [this]

theorem Ix.resolve_full (n : Nat) : Ix.resolve n (.slice none none none) = some (List.range n) := by
  simp only [Ix.resolve, Ix.sliceIndices]
  have h := Ix.rangeList_up n (n + 1) 0 (by omega) (by omega)
  simp only [Nat.cast_zero, Nat.sub_zero] at h
  simp [h, List.range_eq_range']

/-! ## `wrap`, `wrapAll` -/

namespace GRes
variable {R : Type}

theorem wrap_lt (n : Nat) (i : Int) (p : Nat) (h : wrap n i = some p) : p < n := by
  simp only [wrap] at h
  split at h
  · simp only [Option.some.injEq] at h
    subst h
    split_ifs <;> omega
  · simp at h

theorem wrapAll_nil (n : Nat) : wrapAll n [] = some [] := rfl

theorem wrapAll_cons (n : Nat) (i : Int) (l : List Int) :
    wrapAll n (i :: l) =
      match wrap n i, wrapAll n l with
      | some p, some ps => some (p :: ps)
      | _, _ => none := by
  simp only [wrapAll, List.mapM_cons]
  cases wrap n i <;> cases List.mapM (wrap n) l <;> rfl

theorem wrapAll_spec (n : Nat) : ∀ (l : List Int) (ps : List Nat), wrapAll n l = some ps →
    ps.length = l.length ∧ ∀ p ∈ ps, p < n
  | [], ps, h => by
    simp only [wrapAll_nil, Option.some.injEq] at h
    subst h
    simp
  | i :: l, ps, h => by
    rw [wrapAll_cons] at h
    cases hw : wrap n i with
    | none => simp [hw] at h
    | some p =>
      cases hl : wrapAll n l with
      | none => simp [hw, hl] at h
      | some qs =>
        simp only [hw, hl, Option.some.injEq] at h
        subst h
        obtain ⟨h1, h2⟩ := wrapAll_spec n l qs hl
        refine ⟨by simp [h1], ?_⟩
        intro q hq
        rcases List.mem_cons.mp hq with rfl | hq
        · exact wrap_lt n i _ hw
        · exact h2 q hq

/-- equivalence of a code result (left) with a specification result (right): scalars equal;
vectors of the same length with equal entries; operators of the same shape whose dense forms
agree on the window — the code side through `to_dense` (`td`), the specification side through
its represented matrix (`den`); errors of the same class. -/
def Agree [CommRing R] [StarRing R] [DecidableEq R] : GRes R → GRes R → Prop
  | .scalar a, .scalar b => a = b
  | .vec n v, .vec m w => n = m ∧ ∀ t, t < n → v t = w t
  | .op B, .op C => B.rows = C.rows ∧ B.cols = C.cols ∧ EqOn B.rows B.cols B.td.f C.den.f
  | .err a, .err b => a = b
  | _, _ => False

/-- indexing two 1-D arrays that agree below their length gives agreeing results -/
theorem indexVec_agree [CommRing R] [StarRing R] [DecidableEq R] (n : Nat) (v w : Nat → R)
    (h : ∀ t, t < n → v t = w t) (b : GIx) : Agree (indexVec n v b) (indexVec n w b) := by
  cases b with
  | int i =>
    simp only [indexVec]
    cases hw : wrap n i with
    | none => simp [Agree]
    | some p => simp only [Agree]; exact h p (wrap_lt n i p hw)
  | ix s =>
    simp only [indexVec]
    cases hs : Ix.resolve n s with
    | none => simp [Agree]
    | some l =>
      simp only [Agree, true_and]
      intro t ht
      exact h _ (Ix.resolve_lt n s l hs _ (getD_mem_of_lt l t ht))
  | list l =>
    simp only [indexVec]
    cases hs : wrapAll n l with
    | none => simp [Agree]
    | some ps =>
      simp only [Agree, true_and]
      intro t ht
      exact h _ ((wrapAll_spec n l ps hs).2 _ (getD_mem_of_lt ps t ht))

end GRes

namespace Op
variable {R : Type} [CommRing R] [StarRing R] [DecidableEq R]

/-! ## column and row extraction -/

omit [StarRing R] [DecidableEq R] in
theorem sum_mul_canonical (n p : Nat) (hp : p < n) (f : Nat → R) :
    ∑ q ∈ range n, f q * (canonical p : MatF R) q 0 = f p := by
  have h := sum_mul_ite_eq n p hp (1 : R) f
  simpa [canonical] using h

/-- `(A @ e_p)[i] = ⟦A⟧[i, p]` -/
theorem colVec_eq (A : Op R) (hg : Good A) (p i : Nat) (hp : p < A.cols) (hi : i < A.rows) :
    A.colVec p i = A.den.f i p := by
  simp only [colVec]
  rw [mm_eq A hg.wf hg.nd hg.herm 1 (canonical p) i 0 hi (by omega), mmul_apply]
  exact sum_mul_canonical A.cols p hp (fun q => A.den.f i q)

/-- `(A.T @ e_p)[j] = ⟦A⟧[p, j]` -/
theorem rowVec_eq (A : Op R) (hg : Good A) (hr : A.RealTyped) (p j : Nat) (hp : p < A.rows)
    (hj : j < A.cols) : A.rowVec p j = A.den.f p j := by
  have sp := transposeRule_spec A hg hr
  simp only [rowVec]
  rw [mm_eq A.transposeRule sp.wf sp.nd sp.herm 1 (canonical p) j 0 (by rw [sp.rows]; exact hj)
    (by omega), mmul_apply, sp.cols]
  rw [sum_mul_canonical A.rows p hp (fun q => A.transposeRule.den.f j q)]
  exact sp.den j p hj hp

/-! ## the `Sliced` operator built by `getitem` satisfies the hypotheses of `td_eq` -/

omit [CommRing R] [StarRing R] [DecidableEq R] in
theorem eq_of_slicesSymmetric (s0 s1 : Ix) (h : slicesSymmetric s0 s1 = true) : s0 = s1 := by
  cases s0 <;> cases s1 <;> simp_all [slicesSymmetric]

/-- a principal sub-operator `A[s, s]` of a Hermitian operator is Hermitian -/
theorem hermNode_sliced (A : Op R) (s0 s1 : Ix) (h : HermNode A) : HermNode (sliced A s0 s1) := by
  intro hsa
  simp only [isa] at hsa
  rw [Op.anns] at hsa
  split at hsa
  · rename_i hsym
    have he := eq_of_slicesSymmetric s0 s1 hsym
    subst he
    obtain ⟨hsq, hH⟩ := h (isa_of_isa_diff _ _ _ hsa)
    simp only [Op.rows, Op.cols, Op.den, MatV.of_f, slicedDen]
    rw [← hsq]
    refine ⟨rfl, fun i j hi hj => ?_⟩
    exact hH _ _ (getD_resolve_lt _ _ _ (getD_mem_of_lt _ i hi))
      (getD_resolve_lt _ _ _ (getD_mem_of_lt _ j hj))
  · simp [AnnSet.isa] at hsa

theorem good_sliced (A : Op R) (s0 s1 : Ix) (hg : Good A)
    (h0 : (Ix.resolve A.rows s0).isSome = true) (h1 : (Ix.resolve A.cols s1).isSome = true)
    (n0 : ((Ix.resolve A.rows s0).getD []).Nodup) (n1 : ((Ix.resolve A.cols s1).getD []).Nodup) :
    Good (sliced A s0 s1) := by
  refine ⟨?_, ?_, ?_⟩
  · simp only [Op.wf, Bool.and_eq_true]; exact ⟨⟨hg.wf, h0⟩, h1⟩
  · simp only [Op.dupSlice, Bool.or_eq_false_iff, Bool.not_eq_false', decide_eq_true_eq]
    exact ⟨⟨hg.nd, n0⟩, n1⟩
  · simp only [HermOK]; exact ⟨hermNode_sliced A s0 s1 hg.herm.node, hg.herm⟩

/-! ## named clauses -/

/-- clause `getitem-array-pair`: not both positions are integer index *arrays*; the code returns
the outer sub-operator `A[rows][:, cols]`, NumPy pairs the two arrays pointwise. -/
def NoArrPair : List GIx → Prop
  | [.ix (.arr _), .ix (.arr _)] => False
  | _ => True

/-- clause `sliced-repeated-index` for the `Sliced` operator that `getitem` builds: the resolved
row (and column) positions have no repetition. -/
def NoDupIx (A : Op R) : List GIx → Prop
  | [.ix s] => ((Ix.resolve A.rows s).getD []).Nodup
  | [.ix s0, .ix s1] =>
      ((Ix.resolve A.rows s0).getD []).Nodup ∧ ((Ix.resolve A.cols s1).getD []).Nodup
  | _ => True

/-! ## the sub-operator cases -/

theorem agree_sliced (A : Op R) (hg : Good A) (s0 s1 : Ix) (rs cs : List Nat)
    (h0 : Ix.resolve A.rows s0 = some rs) (h1 : Ix.resolve A.cols s1 = some cs)
    (n0 : rs.Nodup) (n1 : cs.Nodup) :
    GRes.Agree (.op (sliced A s0 s1))
      (.op (dense .f64 rs.length cs.length (fun i j => A.den.f (rs.getD i 0) (cs.getD j 0)))) := by
  have hgs : Good (sliced A s0 s1) :=
    good_sliced A s0 s1 hg (by simp [h0]) (by simp [h1]) (by simpa [h0] using n0)
      (by simpa [h1] using n1)
  have htd := td_eq _ hgs.wf hgs.nd hgs.herm
  simp only [GRes.Agree]
  refine ⟨by simp [Op.rows, h0], by simp [Op.cols, h1], ?_⟩
  refine htd.trans ?_
  intro i j _ _
  simp only [Op.den, MatV.of_f, slicedDen, h0, h1, Option.getD_some]

theorem agree_sliced_rows (A : Op R) (hg : Good A) (s : Ix) (rs : List Nat)
    (h0 : Ix.resolve A.rows s = some rs) (n0 : rs.Nodup) :
    GRes.Agree (.op (sliced A s fullSlice))
      (.op (dense .f64 rs.length A.cols (fun i j => A.den.f (rs.getD i 0) j))) := by
  have h1 : Ix.resolve A.cols fullSlice = some (List.range A.cols) := Ix.resolve_full A.cols
  have hgs : Good (sliced A s fullSlice) :=
    good_sliced A s fullSlice hg (by simp [h0]) (by simp [h1]) (by simpa [h0] using n0)
      (by simpa [h1] using List.nodup_range)
  have htd := td_eq _ hgs.wf hgs.nd hgs.herm
  simp only [GRes.Agree]
  refine ⟨by simp [Op.rows, h0], by simp [Op.cols, h1], ?_⟩
  refine htd.trans ?_
  intro i j _ hj
  simp only [Op.cols, h1, Option.getD_some, List.length_range] at hj
  simp only [Op.den, MatV.of_f, slicedDen, h0, h1, Option.getD_some]
  congr 1
  simp [List.getD_eq_getElem?_getD, hj]

/-! ## the paired-list case -/

theorem pairs_mapM (r c : Nat) : ∀ (li lj : List Int), li.length = lj.length →
    (li.zip lj).mapM (fun p => do
        let c' ← GRes.wrap c p.2
        let r' ← GRes.wrap r p.1
        pure (r', c')) =
      match GRes.wrapAll r li, GRes.wrapAll c lj with
      | some rs, some cs => some (rs.zip cs)
      | _, _ => none
  | [], [], _ => by simp [GRes.wrapAll_nil]
  | [], _ :: _, h => by simp at h
  | _ :: _, [], h => by simp at h
  | i :: li, j :: lj, h => by
    have ih := pairs_mapM r c li lj (by simpa using h)
    rw [List.zip_cons_cons, List.mapM_cons, ih, GRes.wrapAll_cons, GRes.wrapAll_cons]
    cases GRes.wrap c j <;> cases GRes.wrap r i <;> cases GRes.wrapAll r li <;>
      cases GRes.wrapAll c lj <;> rfl

omit [CommRing R] [StarRing R] [DecidableEq R] in
theorem getD_map_zip (rs cs : List Nat) (f : Nat × Nat → R) (z : R) (t : Nat)
    (h1 : t < rs.length) (h2 : t < cs.length) :
    ((rs.zip cs).map f).getD t z = f (rs.getD t 0, cs.getD t 0) := by
  simp [List.getD_eq_getElem?_getD, h1, h2]


/-! ## the cases of the `match` of `__getitem__` -/

theorem agree_err (k : String) : GRes.Agree (.err k : GRes R) (.err k) := by simp [GRes.Agree]

/-- `A[i]` -/
theorem getitem_int (A : Op R) (hg : Good A) (hr : A.RealTyped) (i : Int) :
    GRes.Agree (A.getitem [.int i]) (npIndex A.rows A.cols A.den.f [.int i]) := by
  simp only [getitem, npIndex]
  cases hw : GRes.wrap A.rows i with
  | none => exact agree_err _
  | some p =>
    simp only [GRes.Agree, true_and]
    intro t ht
    exact rowVec_eq A hg hr p t (GRes.wrap_lt _ _ _ hw) ht

/-- `A[s]` (slice or index array) -/
theorem getitem_ix (A : Op R) (hg : Good A) (s : Ix) (hn : NoDupIx A [.ix s]) :
    GRes.Agree (A.getitem [.ix s]) (npIndex A.rows A.cols A.den.f [.ix s]) := by
  simp only [NoDupIx] at hn
  simp only [getitem, npIndex]
  cases hs : Ix.resolve A.rows s with
  | none => simp [GRes.Agree]
  | some rs =>
    simp only [Option.isSome_some, if_true]
    exact agree_sliced_rows A hg s rs hs (by simpa [hs] using hn)

/-- `A[b, j]` for `b` an integer, slice, index array or list -/
theorem getitem_col (A : Op R) (hg : Good A) (b : GIx) (j : Int) :
    GRes.Agree (A.getitem [b, .int j]) (npIndex A.rows A.cols A.den.f [b, .int j]) := by
  have key : GRes.Agree
      (match GRes.wrap A.cols j with
        | some p => GRes.indexVec A.rows (A.colVec p) b
        | none => .err "index-error")
      (match GRes.wrap A.cols j with
        | some p => GRes.indexVec A.rows (fun i => A.den.f i p) b
        | none => .err "index-error") := by
    cases hw : GRes.wrap A.cols j with
    | none => exact agree_err _
    | some p =>
      exact GRes.indexVec_agree A.rows _ _
        (fun t ht => colVec_eq A hg p t (GRes.wrap_lt _ _ _ hw) ht) b
  cases b <;> (simp only [getitem, npIndex]; exact key)

/-- `A[i, b]` for `b` a slice, index array or list -/
theorem getitem_row (A : Op R) (hg : Good A) (hr : A.RealTyped) (i : Int) (b : GIx)
    (hb : ∀ j, b ≠ .int j) :
    GRes.Agree (A.getitem [.int i, b]) (npIndex A.rows A.cols A.den.f [.int i, b]) := by
  have key : GRes.Agree
      (match GRes.wrap A.rows i with
        | some p => GRes.indexVec A.cols (A.rowVec p) b
        | none => .err "index-error")
      (match GRes.wrap A.rows i with
        | some p => GRes.indexVec A.cols (fun j => A.den.f p j) b
        | none => .err "index-error") := by
    cases hw : GRes.wrap A.rows i with
    | none => exact agree_err _
    | some p =>
      exact GRes.indexVec_agree A.cols _ _
        (fun t ht => rowVec_eq A hg hr p t (GRes.wrap_lt _ _ _ hw) ht) b
  cases b with
  | int j => exact absurd rfl (hb j)
  | ix s => simp only [getitem, npIndex]; exact key
  | list l => simp only [getitem, npIndex]; exact key

/-- `A[s0, s1]`, not both index arrays -/
theorem getitem_ix_ix (A : Op R) (hg : Good A) (s0 s1 : Ix)
    (hp : NoArrPair [.ix s0, .ix s1]) (hn : NoDupIx A [.ix s0, .ix s1]) :
    GRes.Agree (A.getitem [.ix s0, .ix s1]) (npIndex A.rows A.cols A.den.f [.ix s0, .ix s1]) := by
  simp only [NoDupIx] at hn
  have key : GRes.Agree
      (if ((Ix.resolve A.rows s0).isSome && (Ix.resolve A.cols s1).isSome) = true
        then .op (sliced A s0 s1) else .err "index-error")
      (match Ix.resolve A.rows s0, Ix.resolve A.cols s1 with
        | some rs, some cs => .op (dense .f64 rs.length cs.length
            (fun i j => A.den.f (rs.getD i 0) (cs.getD j 0)))
        | _, _ => .err "index-error") := by
    cases h0 : Ix.resolve A.rows s0 with
    | none => simp [GRes.Agree]
    | some rs =>
      cases h1 : Ix.resolve A.cols s1 with
      | none => simp [GRes.Agree]
      | some cs =>
        simp only [Option.isSome_some, Bool.and_self, if_true]
        exact agree_sliced A hg s0 s1 rs cs h0 h1 (by simpa [h0] using hn.1)
          (by simpa [h1] using hn.2)
  cases s0 with
  | slice a b c => cases s1 <;> (simp only [getitem, npIndex]; exact key)
  | arr l0 =>
    cases s1 with
    | slice a b c => simp only [getitem, npIndex]; exact key
    | arr l1 => exact absurd hp (by simp [NoArrPair])

omit [CommRing R] [StarRing R] [DecidableEq R] in
theorem flatten_replicate_singleton (n : Nat) (x : Int) :
    (List.replicate n [x]).flatten = List.replicate n x := by
  induction n with
  | zero => rfl
  | succ n ih => simp [List.replicate_succ, ih]

omit [CommRing R] [StarRing R] [DecidableEq R] in
/-- the list preparation of the code (Python list repetition) is NumPy's broadcasting of two 1-D
index sequences -/
theorem listBcast_eq_bcastIdx (li lj : List Int) : listBcast li lj = bcastIdx li lj := by
  unfold listBcast bcastIdx
  by_cases he : li.length = lj.length
  · simp [he]
  · by_cases h1 : li.length = 1
    · obtain ⟨x, rfl⟩ := List.length_eq_one_iff.mp h1
      simp [he, flatten_replicate_singleton]
    · by_cases h2 : lj.length = 1
      · obtain ⟨y, rfl⟩ := List.length_eq_one_iff.mp h2
        simp [he, h1, flatten_replicate_singleton]
      · simp [he, h1, h2]

omit [CommRing R] [StarRing R] [DecidableEq R] in
theorem bcastIdx_length {li lj a b : List Int} (h : bcastIdx li lj = some (a, b)) :
    a.length = b.length := by
  unfold bcastIdx at h
  split at h
  · simp only [Option.some.injEq, Prod.mk.injEq] at h
    obtain ⟨rfl, rfl⟩ := h
    assumption
  · split at h
    · simp only [Option.some.injEq, Prod.mk.injEq] at h
      obtain ⟨rfl, rfl⟩ := h
      simp
    · split at h
      · simp only [Option.some.injEq, Prod.mk.injEq] at h
        obtain ⟨rfl, rfl⟩ := h
        simp
      · cases h

/-- `A[[i…], [j…]]`: every pair of index lists — equal lengths, a single index broadcast against
the other list, lists that cannot be broadcast (IndexError on both sides), empty lists -/
theorem getitem_list_list (A : Op R) (hg : Good A) (li lj : List Int) :
    GRes.Agree (A.getitem [.list li, .list lj])
      (npIndex A.rows A.cols A.den.f [.list li, .list lj]) := by
  simp only [getitem, npIndex, npPaired, listBcast_eq_bcastIdx]
  cases hb : bcastIdx li lj with
  | none => exact agree_err _
  | some ab =>
    obtain ⟨a, b⟩ := ab
    have he := bcastIdx_length hb
    simp only
    cases ha : a with
    | nil =>
      have hbn : b = [] := by
        rw [ha] at he
        exact List.eq_nil_of_length_eq_zero he.symm
      subst hbn
      simp [GRes.wrapAll_nil, GRes.Agree]
    | cons a0 as =>
      rw [← ha]
      have hne : a.isEmpty = false := by rw [ha]; rfl
      simp only [hne, Bool.false_eq_true, if_false]
      rw [pairs_mapM A.rows A.cols a b he]
      cases h0 : GRes.wrapAll A.rows a with
      | none => simp [GRes.Agree]
      | some rs =>
        cases h1 : GRes.wrapAll A.cols b with
        | none => simp [GRes.Agree]
        | some cs =>
          obtain ⟨l0, b0⟩ := GRes.wrapAll_spec _ _ _ h0
          obtain ⟨l1, b1⟩ := GRes.wrapAll_spec _ _ _ h1
          simp only [GRes.Agree]
          refine ⟨by simp [List.length_zip]; omega, ?_⟩
          intro t ht
          simp only [List.length_map, List.length_zip] at ht
          have t0 : t < rs.length := by omega
          have t1 : t < cs.length := by omega
          rw [getD_map_zip rs cs _ 0 t t0 t1]
          exact colVec_eq A hg _ _ (b1 _ (getD_mem_of_lt cs t t1)) (b0 _ (getD_mem_of_lt rs t t0))

/-- **C20**: every index form handled by the `match` of `__getitem__` (and the `NotImplemented`
rest) agrees with NumPy indexing of the represented matrix. -/
theorem getitem_agree (A : Op R) (hg : Good A) (hr : A.RealTyped) :
    ∀ (ids : List GIx), NoArrPair ids → NoDupIx A ids →
      GRes.Agree (A.getitem ids) (npIndex A.rows A.cols A.den.f ids)
  | [], _, _ => by simp only [getitem, npIndex]; exact agree_err _
  | [.int i], _, _ => getitem_int A hg hr i
  | [.ix s], _, hn => getitem_ix A hg s hn
  | [.list l], _, _ => by simp only [getitem, npIndex]; exact agree_err _
  | [b, .int j], _, _ => getitem_col A hg b j
  | [.int i, .ix s], _, _ => getitem_row A hg hr i (.ix s) (by intro j e; cases e)
  | [.int i, .list l], _, _ => getitem_row A hg hr i (.list l) (by intro j e; cases e)
  | [.ix s0, .ix s1], hp, hn => getitem_ix_ix A hg s0 s1 hp hn
  | [.list li, .list lj], _, _ => getitem_list_list A hg li lj
  | [.ix s, .list l], _, _ => by simp only [getitem, npIndex]; exact agree_err _
  | [.list l, .ix s], _, _ => by
    cases s <;> (simp only [getitem, npIndex]; exact agree_err _)
  | _ :: _ :: _ :: _, _, _ => by simp only [getitem, npIndex]; exact agree_err _

end Op

#print axioms Op.getitem_agree
