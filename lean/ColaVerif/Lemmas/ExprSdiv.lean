import ColaVerif.Lemmas.ExprSound
open Finset
/-!
# The meaning of `c / A` (scalar divided by operator)

`Ex.meaning (sdiv c x) = none`: `c · A⁻¹` is not a ring expression.  Its meaning is given here
RELATIONALLY (`Ex.IsScalarOverOp n c A M`: `M · A = c · 1 = A · M` on the window; unique up to the
cancellable factor `c`: `IsScalarOverOp.unique`), and what the code builds (`A * (1/c)`, the very
code of `A / c`: `eval_sdiv_eq_divs`) is compared with it: `sdiv_code_meaning` — the built matrix
`c⁻¹ · A` is `c · A⁻¹` iff `A · A = c² · 1`.  This is the Lean counterpart of the Python oracle
`c03.py sdiv_oracle` (exact Gauss-Jordan inverse): the oracle's outcome
`quotient_coincides_with_inverse` is the right-hand side of `sdiv_code_meaning`.
-/

namespace Ex
set_option linter.unusedSectionVars false
section matrices
variable {R : Type} [CommRing R]

/-- **the meaning of `c / A`**, relationally (no inverse needed): the `n × n` matrix `M` is
`c · A⁻¹` — on the window, `M · A = c · 1` and `A · M = c · 1`.  For an invertible `A` over a
field this determines `M` uniquely (`IsScalarOverOp.unique`). -/
def IsScalarOverOp (n : Nat) (c : R) (A M : MatF R) : Prop :=
  EqOn n n (mmul n M A) (smulM c eyeM) ∧ EqOn n n (mmul n A M) (smulM c eyeM)

theorem mmul_smulM_left (n : Nat) (s : R) (A B : MatF R) (i j : Nat) :
    mmul n (smulM s A) B i j = s * mmul n A B i j := by
  simp only [mmul_apply, smulM, Finset.mul_sum, mul_assoc]

theorem mmul_smulM_right (n : Nat) (s : R) (A B : MatF R) (i j : Nat) :
    mmul n A (smulM s B) i j = s * mmul n A B i j := by
  simp only [mmul_apply, smulM, Finset.mul_sum]
  exact Finset.sum_congr rfl fun q _ => by ring

/-- what cola builds for `c / A` is `A * (1/c)`, i.e. the matrix `c⁻¹ · A`: it IS `c · A⁻¹` exactly
when `A · A = c² · 1` (for instance `2 / [[0,2],[2,0]]`), and in no other case. -/
theorem sdiv_code_meaning (n : Nat) (s : Scal R) (hs : s.v * s.inv = 1) (A : MatF R) :
    IsScalarOverOp n s.v A (smulM s.inv A) ↔ EqOn n n (mmul n A A) (smulM (s.v * s.v) eyeM) := by
  constructor
  · rintro ⟨h, _⟩ i j hi hj
    have := h i j hi hj
    rw [mmul_smulM_left] at this
    have h2 : s.v * (s.inv * mmul n A A i j) = s.v * smulM s.v eyeM i j := by rw [this]
    rw [← mul_assoc, hs, one_mul] at h2
    rw [h2]; simp only [smulM]; ring
  · intro h
    refine ⟨fun i j hi hj => ?_, fun i j hi hj => ?_⟩
    · rw [mmul_smulM_left, h i j hi hj]; simp only [smulM]
      rw [← mul_assoc, ← mul_assoc, mul_comm s.inv, hs, one_mul]
    · rw [mmul_smulM_right, h i j hi hj]; simp only [smulM]
      rw [← mul_assoc, ← mul_assoc, mul_comm s.inv, hs, one_mul]

/-- `c · A⁻¹` is unique when it exists (any commutative ring): two matrices satisfying the
relation agree on the window as soon as `c` is cancellable -/
theorem IsScalarOverOp.unique (n : Nat) (c : R) (A M M' : MatF R)
    (h : IsScalarOverOp n c A M) (h' : IsScalarOverOp n c A M') :
    EqOn n n (smulM c M) (smulM c M') := by
  intro i j hi hj
  -- c • M = M (A M') = (M A) M' = c • M'
  have e1 : mmul n (mmul n M A) M' i j = c * M' i j := by
    rw [mmul_apply]
    rw [Finset.sum_congr rfl (fun q hq => by rw [h.1 i q hi (mem_range.mp hq)])]
    simp only [smulM, eyeM]
    rw [Finset.sum_eq_single i]
    · simp
    · intro b _ hb; simp [Ne.symm hb]
    · intro hni; exact absurd (mem_range.mpr hi) hni
  have e2 : mmul n M (mmul n A M') i j = c * M i j := by
    rw [mmul_apply]
    rw [Finset.sum_congr rfl (fun q hq => by rw [h'.2 q j (mem_range.mp hq) hj])]
    simp only [smulM, eyeM]
    rw [Finset.sum_eq_single j]
    · simp; ring
    · intro b _ hb; simp [hb]
    · intro hni; exact absurd (mem_range.mpr hj) hni
  simp only [smulM]
  rw [← e1, ← e2, mmul_assoc']
end matrices

variable {R : Type} [CommRing R] [StarRing R] [DecidableEq R]

/-- on an operator, `c / A` runs the very code of `A / c` (`__rtruediv__` and `__truediv__` both
build `self * (1 / c)`) -/
theorem eval_sdiv_eq_divs (re : R → R) (c : Scal R) (x : Ex R) (A : Op R)
    (hx : eval re x = .ok (.op A)) : eval re (sdiv c x) = eval re (divs x c) := by
  rw [Ex.eval, Ex.eval, hx]; rfl

end Ex

#print axioms Ex.sdiv_code_meaning
#print axioms Ex.IsScalarOverOp.unique
#print axioms Ex.eval_sdiv_eq_divs
